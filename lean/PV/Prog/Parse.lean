import PV.Prog.Syntax
import PV.C11.Spec
/-
  PV.Prog.Parse — reference parser for whole programs, written from `parser/src/python.lalrpop`
  nonterminal by nonterminal (Top / Program / Suite / Statements / SmallStatement / ExpressionStatement /
  FlowStatement / ImportStatement / … / CompoundStatement / MatchStatement / Patterns / IfStatement /
  TryStatement / WithStatement+WithItems / FuncDef+Parameters / ClassDef / TypeParamList / Decorator),
  calling the expression functions of `PV.C11.Spec` (`parseTest`, `parseNamedTest`, `parseStarOrNamed`,
  `parseTestOrStar`, `parseExprOrStar`, `parseBin 0` = `Expression`, `parseTargetList`, `parseArgs`,
  `parseStrings`, `parseCompFor`, `parseYieldAtom`) at every expression position, and modelling the
  hand-written action code the grammar calls:

  * `set_context` is erased (the trees carry no ctx);
  * `validate_pos_params` / `validate_arguments` (function.rs) and the "named arguments must follow bare *"
    check are acceptance conditions (`validPos`, `validNames`, `bareStarOk`);
  * the `IfStatement` elif folding (`elifFold` over the reversed clause list), the `TryStatement`
    alternatives, import level from `.` / `...` tokens, dotted names, `simple` of `AnnAssign`
    (`target.is_name_expr()` and the name starts the statement), the `_` special cases of patterns, `cannot use '_' as a target`;
  * where the grammar deviates from CPython the CODE is mirrored: `x[*a]` is a
    bare `Starred` (that one lives in `PV.C11.parseSubscriptList`), `def f(**)` / `def f(*, **k)` are accepted,
    assignment targets are not validated, pattern arithmetic is not restricted to complex literals.

  Input is the token stream AFTER `soft_keywords.rs`: `match` / `case` / `type` are `Kw.other` tokens where the
  pass left them keywords and `Tok.name` where it made them identifiers.

  Every function takes a fuel argument that decreases at every call (`none` = syntax error or out of fuel);
  all decisions between alternatives are taken by looking at tokens, never by "try and fall back on
  failure", so that more fuel never changes an answer (`PV.Prog.Thm`).
-/
namespace PV.Prog
open PV.Expr PV.C11

/-! ## token classification -/

/-- hard keywords that no expression production mentions, and the three soft keywords -/
inductive HK where
  | as | assert | break | class | continue | def | del | elif | except | finally | global | import
  | nonlocal | pass | raise | return | try | while | with | match | case | type
deriving DecidableEq, Repr

def hardKw (s : List Nat) : Option HK :=
  if s = [97, 115] then some .as
  else if s = [97, 115, 115, 101, 114, 116] then some .assert
  else if s = [98, 114, 101, 97, 107] then some .break
  else if s = [99, 108, 97, 115, 115] then some .class
  else if s = [99, 111, 110, 116, 105, 110, 117, 101] then some .continue
  else if s = [100, 101, 102] then some .def
  else if s = [100, 101, 108] then some .del
  else if s = [101, 108, 105, 102] then some .elif
  else if s = [101, 120, 99, 101, 112, 116] then some .except
  else if s = [102, 105, 110, 97, 108, 108, 121] then some .finally
  else if s = [103, 108, 111, 98, 97, 108] then some .global
  else if s = [105, 109, 112, 111, 114, 116] then some .import
  else if s = [110, 111, 110, 108, 111, 99, 97, 108] then some .nonlocal
  else if s = [112, 97, 115, 115] then some .pass
  else if s = [114, 97, 105, 115, 101] then some .raise
  else if s = [114, 101, 116, 117, 114, 110] then some .return
  else if s = [116, 114, 121] then some .try
  else if s = [119, 104, 105, 108, 101] then some .while
  else if s = [119, 105, 116, 104] then some .with
  else if s = [109, 97, 116, 99, 104] then some .match
  else if s = [99, 97, 115, 101] then some .case
  else if s = [116, 121, 112, 101] then some .type
  else none

/-- spelling of a keyword (inverse of `hardKw`) -/
def HK.text : HK → List Nat
  | .as => [97, 115] | .assert => [97, 115, 115, 101, 114, 116] | .break => [98, 114, 101, 97, 107]
  | .class => [99, 108, 97, 115, 115] | .continue => [99, 111, 110, 116, 105, 110, 117, 101]
  | .def => [100, 101, 102] | .del => [100, 101, 108] | .elif => [101, 108, 105, 102]
  | .except => [101, 120, 99, 101, 112, 116] | .finally => [102, 105, 110, 97, 108, 108, 121]
  | .global => [103, 108, 111, 98, 97, 108] | .import => [105, 109, 112, 111, 114, 116]
  | .nonlocal => [110, 111, 110, 108, 111, 99, 97, 108] | .pass => [112, 97, 115, 115]
  | .raise => [114, 97, 105, 115, 101] | .return => [114, 101, 116, 117, 114, 110] | .try => [116, 114, 121]
  | .while => [119, 104, 105, 108, 101] | .with => [119, 105, 116, 104] | .match => [109, 97, 116, 99, 104]
  | .case => [99, 97, 115, 101] | .type => [116, 121, 112, 101]

/-- the keyword token -/
def HK.tok (k : HK) : Tok := .kw (.other k.text)

/-- `AugAssign` -/
def augOf (s : List Nat) : Option BinOp :=
  if s = [43, 61] then some .add
  else if s = [45, 61] then some .sub
  else if s = [42, 61] then some .mult
  else if s = [64, 61] then some .matMult
  else if s = [47, 61] then some .div
  else if s = [37, 61] then some .mod
  else if s = [38, 61] then some .bitAnd
  else if s = [124, 61] then some .bitOr
  else if s = [94, 61] then some .bitXor
  else if s = [60, 60, 61] then some .lShift
  else if s = [62, 62, 61] then some .rShift
  else if s = [42, 42, 61] then some .pow
  else if s = [47, 47, 61] then some .floorDiv
  else none

/-- what the statement level distinguishes about a token -/
inductive TK where
  | hk (k : HK)
  | newline | indent | dedent | semi | arrow
  | aug (op : BinOp)
  | plain
deriving DecidableEq, Repr

def tk : Tok → TK
  | .kw (.other s) =>
    (match hardKw s with
     | some k => .hk k
     | none => .plain)
  | .op (.other s) =>
    if s = [10] then .newline
    else if s = [1] then .indent
    else if s = [2] then .dedent
    else if s = [59] then .semi
    else if s = [45, 62] then .arrow
    else
      (match augOf s with
       | some o => .aug o
       | none => .plain)
  | _ => .plain

/-- `;` -/
def tSemi : Tok := .op (.other [59])
/-- `->` -/
def tArrow : Tok := .op (.other [45, 62])

/-- FIRST of `Test` / `StarExpr` / `NamedExpression`: the tokens an expression list element can start
    with.  After a comma this decides "another element" against "trailing comma" (LR(1): the sets are
    disjoint from every FOLLOW of the lists, the generator reports no conflict). -/
def startsExpr : List Tok → Bool
  | .name _ :: _ => true
  | .int _ :: _ => true
  | .float _ :: _ => true
  | .imag _ :: _ => true
  | .str _ _ :: _ => true
  | .bytes _ :: _ => true
  | .fstr _ _ _ _ :: _ => true
  | .kw .not :: _ => true
  | .kw .lambda :: _ => true
  | .kw .await :: _ => true
  | .kw .true :: _ => true
  | .kw .false :: _ => true
  | .kw .none :: _ => true
  | .op .plus :: _ => true
  | .op .minus :: _ => true
  | .op .tilde :: _ => true
  | .op .star :: _ => true
  | .op .lpar :: _ => true
  | .op .lsqb :: _ => true
  | .op .lbrace :: _ => true
  | .op .ellipsis :: _ => true
  | _ => false

/-- FIRST of `Pattern` -/
def startsPattern : List Tok → Bool
  | .name _ :: _ => true
  | .int _ :: _ => true
  | .float _ :: _ => true
  | .imag _ :: _ => true
  | .str _ _ :: _ => true
  | .bytes _ :: _ => true
  | .fstr _ _ _ _ :: _ => true
  | .kw .true :: _ => true
  | .kw .false :: _ => true
  | .kw .none :: _ => true
  | .op .minus :: _ => true
  | .op .star :: _ => true
  | .op .lpar :: _ => true
  | .op .lsqb :: _ => true
  | .op .lbrace :: _ => true
  | _ => false

/-! ## expression lists at statement level -/

/-- which element nonterminal a comma list is made of -/
inductive EK where
  /-- `TestOrStarExpr` (elements of `TestList`) -/
  | testOrStar
  /-- `ExpressionOrStarExpression` (`ExpressionList2` of `del`) -/
  | exprOrStar
  /-- `TestOrStarNamedExpr` (match subjects) -/
  | starOrNamed
  /-- `Test<"all">` -/
  | test
deriving DecidableEq, Repr

def parseElem : EK → Nat → List Tok → PR Expr
  | .testOrStar, f, ts => parseTestOrStar f ts
  | .exprOrStar, f, ts => parseExprOrStar f ts
  | .starOrNamed, f, ts => parseStarOrNamed f ts
  | .test, f, ts => parseTest f ts

/-- `OneOrMore<Elem> ","?` in any context: elements and whether a trailing comma was present -/
def parseCommaList (ek : EK) : Nat → List Tok → PR (List Expr × Bool)
  | 0, _ => none
  | f + 1, ts =>
    match parseElem ek f ts with
    | some (e, .op .comma :: r) =>
      if startsExpr r then
        (match parseCommaList ek f r with
         | some ((es, tc), r') => some ((e :: es, tc), r')
         | none => none)
      else some (([e], true), r)
    | some (e, r) => some (([e], false), r)
    | none => none

/-- the action of `GenericList<Element>`: a single element without trailing comma is itself -/
def genericList : List Expr × Bool → Expr
  | ([e], false) => e
  | (es, _) => .tuple es

/-- `TestList` (= `TestOrStarExprList`) at statement level -/
def parseTestListS (f : Nat) (ts : List Tok) : PR Expr :=
  match parseCommaList .testOrStar f ts with
  | some (l, r) => some (genericList l, r)
  | none => none

/-- `YieldExpr` after the keyword -/
def parseYieldS : Nat → List Tok → PR Expr
  | 0, _ => none
  | f + 1, .kw .from :: r =>
    (match parseTest f r with
     | some (e, r') => some (.yieldFrom e, r')
     | none => none)
  | f + 1, ts =>
    if startsExpr ts then
      (match parseTestListS f ts with
       | some (e, r) => some (.yield (some e), r)
       | none => none)
    else some (.yield none, ts)

/-- `TestListOrYieldExpr` -/
def parseTestListOrYield : Nat → List Tok → PR Expr
  | 0, _ => none
  | f + 1, .kw .yield :: r => parseYieldS f r
  | f + 1, ts => parseTestListS f ts

/-- `AssignSuffix*` -/
def parseAssignSuffixes : Nat → List Tok → PR (List Expr)
  | 0, _ => none
  | f + 1, .op .assign :: r =>
    (match parseTestListOrYield f r with
     | some (e, r1) =>
       (match parseAssignSuffixes f r1 with
        | some (es, r2) => some (e :: es, r2)
        | none => none)
     | none => none)
  | _ + 1, ts => some ([], ts)

/-- the `ExpressionStatement` action for a non-empty suffix list: all but the last value are targets -/
def assignOf (first : Expr) (suffix : List Expr) : Option Stmt :=
  match suffix.getLast? with
  | some v => some (.assign (first :: suffix.dropLast) v)
  | none => none

/-- the statement starts with a NAME token.  `simple` of an annotated assignment is
    `target.is_name_expr() && target.start() == location` (/repo fix "a parenthesised name is not a simple
    target"): a `Name` target starts where the statement starts iff it is written without parentheses, i.e. iff
    the first token of the statement is the NAME itself -/
def startsName : List Tok → Bool
  | .name _ :: _ => true
  | _ => false

/-- `ExpressionStatement` -/
def parseExprStmt : Nat → List Tok → PR Stmt
  | 0, _ => none
  | f + 1, ts =>
    match parseCommaList .testOrStar f ts with
    | none => none
    | some ((es, tc), rest) =>
      let e := genericList (es, tc)
      match rest with
      | .op .assign :: _ =>
        (match parseAssignSuffixes f rest with
         | some (vals, r) =>
           (match assignOf e vals with
            | some s => some (s, r)
            | none => none)
         | none => none)
      | .op .colon :: r =>
        -- `Test<"all"> ":" Test<"all"> AssignSuffix?`: the target is ONE `Test` (no comma, no `StarExpr`)
        (match es, tc with
         | [x], false =>
           if isStarred x then none else
           (match parseTest f r with
            | some (ann, .op .assign :: r1) =>
              (match parseTestListOrYield f r1 with
               | some (v, r2) => some (.annAssign x ann (some v) (isName x && startsName ts), r2)
               | none => none)
            | some (ann, r1) => some (.annAssign x ann none (isName x && startsName ts), r1)
            | none => none)
         | _, _ => none)
      | t :: r =>
        (match tk t with
         | .aug op =>
           (match parseTestListOrYield f r with
            | some (v, r1) => some (.augAssign e op v, r1)
            | none => none)
         | _ => some (.expr e, t :: r))
      | [] => some (.expr e, [])

/-! ## the other small statements -/

/-- `OneOrMore<Identifier>` -/
def parseIdents : Nat → List Tok → PR (List Ident)
  | 0, _ => none
  | f + 1, .name n :: .op .comma :: r =>
    (match parseIdents f r with
     | some (ns, r') => some (n :: ns, r')
     | none => none)
  | _ + 1, .name n :: r => some ([n], r)
  | _ + 1, _ => none

/-- `("." Identifier)*` of `DottedName`, joined into one identifier with dots -/
def dottedTail : Ident → List Tok → Option (Ident × List Tok)
  | acc, .op .dot :: .name n :: r => dottedTail (acc ++ 46 :: n) r
  | _, .op .dot :: _ => none
  | acc, ts => some (acc, ts)

/-- `ImportDots*`: summed level (`.` = 1, `...` = 3), number of dot tokens, rest -/
def importDots : List Tok → Nat × Nat × List Tok
  | .op .dot :: r => let (lvl, n, r') := importDots r; (lvl + 1, n + 1, r')
  | .op .ellipsis :: r => let (lvl, n, r') := importDots r; (lvl + 3, n + 1, r')
  | ts => (0, 0, ts)

/-- `("as" Identifier)?` -/
def parseAsOpt : List Tok → Option (Option Ident × List Tok)
  | t :: .name n :: r => if tk t = .hk .as then some (some n, r) else some (none, t :: .name n :: r)
  | t :: r => if tk t = .hk .as then none else some (none, t :: r)
  | [] => some (none, [])

/-- `OneOrMore<ImportAsAlias<DottedName>>` -/
def parseImportNames : Nat → List Tok → PR (List Alias)
  | 0, _ => none
  | f + 1, .name n :: r =>
    (match dottedTail n r with
     | some (nm, r1) =>
       (match parseAsOpt r1 with
        | some (a, .op .comma :: r2) =>
          (match parseImportNames f r2 with
           | some (more, r3) => some (⟨nm, a⟩ :: more, r3)
           | none => none)
        | some (a, r2) => some ([⟨nm, a⟩], r2)
        | none => none)
     | none => none)
  | _ + 1, _ => none

/-- `OneOrMore<ImportAsAlias<Identifier>>`; `paren`: inside parentheses a trailing comma is allowed
    (the closing parenthesis is left for the caller) -/
def parseFromNames (paren : Bool) : Nat → List Tok → PR (List Alias)
  | 0, _ => none
  | f + 1, .name n :: r =>
    (match parseAsOpt r with
     | some (a, .op .comma :: .op .rpar :: r2) =>
       if paren then some ([⟨n, a⟩], .op .rpar :: r2) else none
     | some (a, .op .comma :: r2) =>
       (match parseFromNames paren f r2 with
        | some (more, r3) => some (⟨n, a⟩ :: more, r3)
        | none => none)
     | some (a, r2) => some ([⟨n, a⟩], r2)
     | none => none)
  | _ + 1, _ => none

/-- `ImportAsNames` -/
def parseImportAsNames : Nat → List Tok → PR (List Alias)
  | 0, _ => none
  | _ + 1, .op .star :: r => some ([⟨[42], none⟩], r)
  | f + 1, .op .lpar :: r =>
    (match parseFromNames true f r with
     | some (as, .op .rpar :: r1) => some (as, r1)
     | _ => none)
  | f + 1, ts => parseFromNames false f ts

/-- `"from" ImportFromLocation "import" ImportAsNames`, after `from` -/
def parseImportFrom : Nat → List Tok → PR Stmt
  | 0, _ => none
  | f + 1, ts =>
    match importDots ts with
    | (lvl, _, .name n :: r) =>
      (match dottedTail n r with
       | some (nm, t :: r1) =>
         if tk t = .hk .import then
           (match parseImportAsNames f r1 with
            | some (names, r2) => some (.importFrom (some nm) names (some lvl), r2)
            | none => none)
         else none
       | _ => none)
    | (lvl, ndots, t :: r1) =>
      if ndots = 0 then none
      else if tk t = .hk .import then
        (match parseImportAsNames f r1 with
         | some (names, r2) => some (.importFrom none names (some lvl), r2)
         | none => none)
      else none
    | _ => none

/-- `TypeParamList` after `[`; consumes `]` -/
def parseTypeParams : Nat → List Tok → PR (List TypeParam)
  | 0, _ => none
  | f + 1, ts =>
    let item : Option (TypeParam × List Tok) :=
      match ts with
      | .name n :: .op .colon :: r =>
        (match parseTest f r with
         | some (b, r') => some (.typeVar n (some b), r')
         | none => none)
      | .name n :: r => some (.typeVar n none, r)
      | .op .star :: .name n :: r => some (.typeVarTuple n, r)
      | .op .dstar :: .name n :: r => some (.paramSpec n, r)
      | _ => none
    match item with
    | some (tp, .op .comma :: .op .rsqb :: r) => some ([tp], r)
    | some (tp, .op .comma :: r) =>
      (match parseTypeParams f r with
       | some (more, r') => some (tp :: more, r')
       | none => none)
    | some (tp, .op .rsqb :: r) => some ([tp], r)
    | _ => none

/-- `TypeParamList?` -/
def parseTypeParamsOpt : Nat → List Tok → PR (List TypeParam)
  | 0, _ => none
  | f + 1, .op .lsqb :: r => parseTypeParams f r
  | _ + 1, ts => some ([], ts)

/-- `SmallStatement`, dispatched on the first token -/
def parseSmall : Nat → List Tok → PR Stmt
  | 0, _ => none
  | _ + 1, [] => none
  | f + 1, .kw .yield :: r =>
    (match parseYieldS f r with
     | some (e, r') => some (.expr e, r')
     | none => none)
  | f + 1, .kw .from :: r => parseImportFrom f r
  | f + 1, t :: r =>
    match tk t with
    | .hk .pass => some (.pass, r)
    | .hk .break => some (.break, r)
    | .hk .continue => some (.continue, r)
    | .hk .del =>
      (match parseCommaList .exprOrStar f r with
       | some ((es, _), r') => some (.delete es, r')
       | none => none)
    | .hk .return =>
      if startsExpr r then
        (match parseTestListS f r with
         | some (e, r') => some (.return (some e), r')
         | none => none)
      else some (.return none, r)
    | .hk .raise =>
      if startsExpr r then
        (match parseTest f r with
         | some (e, .kw .from :: r1) =>
           (match parseTest f r1 with
            | some (c, r2) => some (.raise (some e) (some c), r2)
            | none => none)
         | some (e, r1) => some (.raise (some e) none, r1)
         | none => none)
      else some (.raise none none, r)
    | .hk .import =>
      (match parseImportNames f r with
       | some (names, r') => some (.import names, r')
       | none => none)
    | .hk .global =>
      (match parseIdents f r with
       | some (ns, r') => some (.global ns, r')
       | none => none)
    | .hk .nonlocal =>
      (match parseIdents f r with
       | some (ns, r') => some (.nonlocal ns, r')
       | none => none)
    | .hk .assert =>
      (match parseTest f r with
       | some (e, .op .comma :: r1) =>
         (match parseTest f r1 with
          | some (m, r2) => some (.assert e (some m), r2)
          | none => none)
       | some (e, r1) => some (.assert e none, r1)
       | none => none)
    | .hk .type =>
      (match r with
       | .name n :: r1 =>
         (match parseTypeParamsOpt f r1 with
          | some (tps, .op .assign :: r2) =>
            (match parseTest f r2 with
             | some (v, r3) => some (.typeAlias (.name n) tps v, r3)
             | none => none)
          | _ => none)
       | _ => none)
    | _ => parseExprStmt f (t :: r)

/-- `(SmallStatement ";")* SmallStatement ";"? "\n"` -/
def parseSimpleLine : Nat → List Tok → PR (List Stmt)
  | 0, _ => none
  | f + 1, ts =>
    match parseSmall f ts with
    | some (s, t :: r) =>
      (match tk t with
       | .newline => some ([s], r)
       | .semi =>
         (match r with
          | t2 :: r2 =>
            if tk t2 = .newline then some ([s], r2)
            else
              (match parseSimpleLine f r with
               | some (more, r3) => some (s :: more, r3)
               | none => none)
          | [] => none)
       | _ => none)
    | _ => none

/-! ## patterns -/

/-- `ConstantAtom` -/
def constAtom : Tok → Option Expr
  | .int n => some (.const (.int n))
  | .float b => some (.const (.float b))
  | .imag b => some (.const (.imag b))
  | _ => none

/-- after a `ConstantExpr`: the optional `AddOp ConstantAtom` of `AddOpExpr` -/
def addTail (left : Expr) : List Tok → Option (Expr × List Tok)
  | .op .plus :: t :: r =>
    (match constAtom t with
     | some c => some (.binOp left .add c, r)
     | none => none)
  | .op .minus :: t :: r =>
    (match constAtom t with
     | some c => some (.binOp left .sub c, r)
     | none => none)
  | [.op .plus] => none
  | [.op .minus] => none
  | ts => some (left, ts)

/-- `ConstantExpr | AddOpExpr` -/
def parseConstExpr : List Tok → Option (Expr × List Tok)
  | .op .minus :: t :: r =>
    (match constAtom t with
     | some c => addTail (.unaryOp .uSub c) r
     | none => none)
  | t :: r =>
    (match constAtom t with
     | some c => addTail c r
     | none => none)
  | [] => none

/-- `MatchName ("." Identifier)*`: the expression, whether there was at least one attribute, rest -/
def attrChain : Expr → Bool → List Tok → Option (Expr × Bool × List Tok)
  | acc, _, .op .dot :: .name n :: r => attrChain (.attribute acc n) true r
  | _, _, .op .dot :: _ => none
  | acc, d, ts => some (acc, d, ts)

/-- `_` is the wildcard -/
def patName (n : Ident) : Option Ident := if n = [95] then none else some n

/-- `MappingKey` -/
def parseMapKey : Nat → List Tok → PR Expr
  | 0, _ => none
  | _ + 1, .kw .none :: r => some (.const .none, r)
  | _ + 1, .kw .true :: r => some (.const (.bool true), r)
  | _ + 1, .kw .false :: r => some (.const (.bool false), r)
  | f + 1, .str s u :: r => parseStrings f (.str s u :: r)
  | f + 1, .bytes b :: r => parseStrings f (.bytes b :: r)
  | f + 1, .fstr q t rw b :: r => parseStrings f (.fstr q t rw b :: r)
  | _ + 1, .name n :: r =>
    (match attrChain (.name n) false r with
     | some (e, true, r1) => some (e, r1)
     | _ => none)
  | _ + 1, ts => parseConstExpr ts

mutual

/-- `Pattern`: `OrPattern` or `OrPattern "as" Identifier` -/
def parsePattern : Nat → List Tok → PR Pattern
  | 0, _ => none
  | f + 1, ts =>
    match parseOrPattern f ts with
    | some (p, t :: r) =>
      if tk t = .hk .as then
        (match r with
         | .name n :: r1 => if n = [95] then none else some (.matchAs (some p) (some n), r1)
         | _ => none)
      else some (p, t :: r)
    | res => res
termination_by structural f => f

/-- `OrPattern` -/
def parseOrPattern : Nat → List Tok → PR Pattern
  | 0, _ => none
  | f + 1, ts =>
    match parseClosed f ts with
    | some (p, .op .bar :: r) =>
      (match parseOrPatRest f r with
       | some (ps, r') => some (.matchOr (p :: ps), r')
       | none => none)
    | res => res
termination_by structural f => f

/-- the remaining alternatives of a `TwoOrMore<ClosedPattern, "|">` -/
def parseOrPatRest : Nat → List Tok → PR (List Pattern)
  | 0, _ => none
  | f + 1, ts =>
    match parseClosed f ts with
    | some (p, .op .bar :: r) =>
      (match parseOrPatRest f r with
       | some (ps, r') => some (p :: ps, r')
       | none => none)
    | some (p, r) => some ([p], r)
    | none => none
termination_by structural f => f

/-- `ClosedPattern` -/
def parseClosed : Nat → List Tok → PR Pattern
  | 0, _ => none
  | _ + 1, .kw .none :: r => some (.matchSingleton .none, r)
  | _ + 1, .kw .true :: r => some (.matchSingleton (.bool true), r)
  | _ + 1, .kw .false :: r => some (.matchSingleton (.bool false), r)
  | f + 1, .str s u :: r =>
    (match parseStrings f (.str s u :: r) with
     | some (e, r') => some (.matchValue e, r')
     | none => none)
  | f + 1, .bytes b :: r =>
    (match parseStrings f (.bytes b :: r) with
     | some (e, r') => some (.matchValue e, r')
     | none => none)
  | f + 1, .fstr q t rw b :: r =>
    (match parseStrings f (.fstr q t rw b :: r) with
     | some (e, r') => some (.matchValue e, r')
     | none => none)
  | _ + 1, .op .star :: .name n :: r => some (.matchStar (patName n), r)
  | f + 1, .name n :: r =>
    (match attrChain (.name n) false r with
     | some (cls, _, .op .lpar :: r1) => parseClassArgs f cls r1
     | some (e, true, r1) => some (.matchValue e, r1)
     | some (_, false, r1) => some (.matchAs none (patName n), r1)
     | none => none)
  | _ + 1, .op .lpar :: .op .rpar :: r => some (.matchSequence [], r)
  | f + 1, .op .lpar :: r =>
    (match parsePatternList f r with
     | some (([p], false), .op .rpar :: r1) => some (p, r1)
     | some ((ps, _), .op .rpar :: r1) => some (.matchSequence ps, r1)
     | _ => none)
  | _ + 1, .op .lsqb :: .op .rsqb :: r => some (.matchSequence [], r)
  | f + 1, .op .lsqb :: r =>
    (match parsePatternList f r with
     | some ((ps, _), .op .rsqb :: r1) => some (.matchSequence ps, r1)
     | _ => none)
  | _ + 1, .op .lbrace :: .op .rbrace :: r => some (.matchMapping [] [] none, r)
  | f + 1, .op .lbrace :: r => parseMapItems f r [] []
  | _ + 1, ts =>
    (match parseConstExpr ts with
     | some (e, r) => some (.matchValue e, r)
     | none => none)
termination_by structural f => f

/-- `OneOrMore<Pattern> ","?`: patterns and whether a trailing comma was present -/
def parsePatternList : Nat → List Tok → PR (List Pattern × Bool)
  | 0, _ => none
  | f + 1, ts =>
    match parsePattern f ts with
    | some (p, .op .comma :: r) =>
      if startsPattern r then
        (match parsePatternList f r with
         | some ((ps, tc), r') => some ((p :: ps, tc), r')
         | none => none)
      else some (([p], true), r)
    | some (p, r) => some (([p], false), r)
    | none => none
termination_by structural f => f

/-- the arguments of a `ClassPattern` after `(`: positional patterns, then keyword patterns; consumes `)` -/
def parseClassArgs : Nat → Expr → List Tok → PR Pattern
  | 0, _, _ => none
  | _ + 1, cls, .op .rpar :: r => some (.matchClass cls [] [] [], r)
  | f + 1, cls, ts =>
    (match parseClassItems f ts [] [] [] with
     | some ((ps, ka, kp), r) => some (.matchClass cls ps ka kp, r)
     | none => none)
termination_by structural f => f

def parseClassItems : Nat → List Tok → List Pattern → List Ident → List Pattern →
    PR (List Pattern × List Ident × List Pattern)
  | 0, _, _, _, _ => none
  | f + 1, .name n :: .op .assign :: r, ps, ka, kp =>
    (match parsePattern f r with
     | some (p, .op .comma :: .op .rpar :: r2) => some ((ps, ka ++ [n], kp ++ [p]), r2)
     | some (p, .op .comma :: r2) => parseClassItems f r2 ps (ka ++ [n]) (kp ++ [p])
     | some (p, .op .rpar :: r2) => some ((ps, ka ++ [n], kp ++ [p]), r2)
     | _ => none)
  | f + 1, ts, ps, ka, kp =>
    if !ka.isEmpty then none else
    (match parsePattern f ts with
     | some (p, .op .comma :: .op .rpar :: r2) => some ((ps ++ [p], ka, kp), r2)
     | some (p, .op .comma :: r2) => parseClassItems f r2 (ps ++ [p]) ka kp
     | some (p, .op .rpar :: r2) => some ((ps ++ [p], ka, kp), r2)
     | _ => none)
termination_by structural f => f

/-- the entries of a `MappingPattern` after `{` (not empty); consumes `}` -/
def parseMapItems : Nat → List Tok → List Expr → List Pattern → PR Pattern
  | 0, _, _, _ => none
  | _ + 1, .op .dstar :: .name n :: .op .comma :: .op .rbrace :: r, ks, ps => some (.matchMapping ks ps (some n), r)
  | _ + 1, .op .dstar :: .name n :: .op .rbrace :: r, ks, ps => some (.matchMapping ks ps (some n), r)
  | _ + 1, .op .dstar :: _, _, _ => none
  | f + 1, ts, ks, ps =>
    (match parseMapKey f ts with
     | some (k, .op .colon :: r) =>
       (match parsePattern f r with
        | some (p, .op .comma :: .op .rbrace :: r2) => some (.matchMapping (ks ++ [k]) (ps ++ [p]) none, r2)
        | some (p, .op .comma :: r2) => parseMapItems f r2 (ks ++ [k]) (ps ++ [p])
        | some (p, .op .rbrace :: r2) => some (.matchMapping (ks ++ [k]) (ps ++ [p]) none, r2)
        | _ => none)
     | _ => none)
termination_by structural f => f

end

/-- `Patterns` (after `case`) -/
def parsePatterns (f : Nat) (ts : List Tok) : PR Pattern :=
  match parsePatternList f ts with
  | some (([p], false), r) => some (p, r)
  | some ((ps, _), r) => some (.matchSequence ps, r)
  | none => none

/-! ## function definitions: `Parameters` -/

/-- `validate_pos_params`: no parameter without default after one with default -/
def validPos (ps : List ArgWithDefault) : Bool :=
  ((ps.dropWhile (fun a => a.default.isNone)).dropWhile (fun a => a.default.isSome)).isEmpty

/-- the names `validate_arguments` inserts into its set, in its order -/
def argNames (a : Arguments) : List Ident :=
  (a.posonly ++ a.args ++ a.kwonly).map (fun p => p.arg.name) ++
    (a.vararg.map (fun v => v.name)).toList ++ (a.kwarg.map (fun v => v.name)).toList

/-- `validate_arguments`: all parameter names distinct -/
def validNames (a : Arguments) : Bool := !hasDup (argNames a)

/-- "named arguments must follow bare *": phase 2 (after `*`) with neither a name nor a keyword-only
    parameter (a following `**` moves to phase 3 and is accepted by the grammar action) -/
def bareStarOk (a : Arguments) (phase : Nat) : Bool :=
  !(phase = 2 && a.vararg.isNone && a.kwonly.isEmpty)

/-- optional `":" X` annotation; `star`: `TestOrStarExpr` (for `*args`), else `Test` -/
def parseAnnOpt (star : Bool) : Nat → List Tok → PR (Option Expr)
  | 0, _ => none
  | f + 1, .op .colon :: r =>
    (match (if star then parseTestOrStar f r else parseTest f r) with
     | some (a, r') => some (some a, r')
     | none => none)
  | _ + 1, ts => some (none, ts)

/-- optional `"=" Test` default -/
def parseDefaultOpt : Nat → List Tok → PR (Option Expr)
  | 0, _ => none
  | f + 1, .op .assign :: r =>
    (match parseTest f r with
     | some (d, r') => some (some d, r')
     | none => none)
  | _ + 1, ts => some (none, ts)

/-- `ParameterList<TypedParameter, StarTypedParameter, DoubleStarTypedParameter>` as a loop over the
    comma-separated items; `phase`: 0 = before `/`, 1 = after `/`, 2 = after `*`, 3 = after `**`.
    Consumes the closing parenthesis. -/
def parseTypedParams : Nat → List Tok → Arguments → Nat → PR Arguments
  | 0, _, _, _ => none
  | f + 1, ts, ps, phase =>
    let item : Option (Arguments × Nat × List Tok) :=
      match ts with
      | .name n :: r =>
        if phase ≤ 2 then
          (match parseAnnOpt false f r with
           | some (an, r1) =>
             (match parseDefaultOpt f r1 with
              | some (d, r2) =>
                let p : ArgWithDefault := ⟨⟨n, an⟩, d⟩
                if phase = 2 then some ({ ps with kwonly := ps.kwonly ++ [p] }, phase, r2)
                else some ({ ps with args := ps.args ++ [p] }, phase, r2)
              | none => none)
           | none => none)
        else none
      | .op .slash :: r =>
        if phase = 0 ∧ !ps.args.isEmpty then some ({ ps with posonly := ps.args, args := [] }, 1, r)
        else none
      | .op .star :: .name n :: r =>
        if phase ≤ 1 then
          (match parseAnnOpt true f r with
           | some (an, r1) => some ({ ps with vararg := some ⟨n, an⟩ }, 2, r1)
           | none => none)
        else none
      | .op .star :: r => if phase ≤ 1 then some (ps, 2, r) else none
      | .op .dstar :: .name n :: r =>
        if phase ≤ 2 then
          (match parseAnnOpt false f r with
           | some (an, r1) => some ({ ps with kwarg := some ⟨n, an⟩ }, 3, r1)
           | none => none)
        else none
      | .op .dstar :: r => if phase ≤ 2 then some (ps, 3, r) else none
      | _ => none
    match item with
    | none => none
    | some (ps', phase', r) =>
      match r with
      | .op .comma :: .op .rpar :: r2 => if bareStarOk ps' phase' then some (ps', r2) else none
      | .op .comma :: r2 => parseTypedParams f r2 ps' phase'
      | .op .rpar :: r2 => if bareStarOk ps' phase' then some (ps', r2) else none
      | _ => none

/-- `Parameters` after `(`: the list, then `validate_pos_params` and `validate_arguments` -/
def parseParameters : Nat → List Tok → PR Arguments
  | 0, _ => none
  | _ + 1, .op .rpar :: r => some ({}, r)
  | f + 1, ts =>
    match parseTypedParams f ts {} 0 with
    | some (a, r) => if validPos (a.posonly ++ a.args) && validNames a then some (a, r) else none
    | none => none

/-- `Decorator*` -/
def parseDecorators : Nat → List Tok → PR (List Expr)
  | 0, _ => none
  | f + 1, .op .at :: r =>
    (match parseNamedTest f r with
     | some (e, t :: r1) =>
       if tk t = .newline then
         (match parseDecorators f r1 with
          | some (ds, r2) => some (e :: ds, r2)
          | none => none)
       else none
     | _ => none)
  | _ + 1, ts => some ([], ts)

/-! ## with items -/

/-- the tokens after the bracket that closes the `depth` brackets open in front of the input -/
def afterClose : Nat → List Tok → Option (List Tok)
  | _, [] => none
  | d, .op o :: r =>
    if o = .lpar ∨ o = .lsqb ∨ o = .lbrace then afterClose (d + 1) r
    else if o = .rpar ∨ o = .rsqb ∨ o = .rbrace then (if d ≤ 1 then some r else afterClose (d - 1) r)
    else afterClose d r
  | d, _ :: r => afterClose d r

/-- `WithItem<"all">`: `Test` or `Test "as" Expression` -/
def parseWithItem : Nat → List Tok → PR WithItem
  | 0, _ => none
  | f + 1, ts =>
    match parseTest f ts with
    | some (e, t :: r) =>
      if tk t = .hk .as then
        (match parseBin 0 f r with
         | some (v, r1) => some (⟨e, some v⟩, r1)
         | none => none)
      else some (⟨e, none⟩, t :: r)
    | some (e, []) => some (⟨e, none⟩, [])
    | none => none

/-- the unparenthesised alternatives: one or more items, no trailing comma -/
def parseWithPlain : Nat → List Tok → PR (List WithItem)
  | 0, _ => none
  | f + 1, ts =>
    match parseWithItem f ts with
    | some (it, .op .comma :: r) =>
      (match parseWithPlain f r with
       | some (more, r1) => some (it :: more, r1)
       | none => none)
    | some (it, r) => some ([it], r)
    | none => none

/-- an element that is not a `Test`: it starts a `StarExpr` or a `NamedExpression` -/
def startsSpecial : List Tok → Bool
  | .op .star :: _ => true
  | .name _ :: .op .walrus :: _ => true
  | _ => false

/-- one element between the parentheses after `with (`: expression, not-a-`Test` flag, `as` target -/
abbrev WElem := Expr × Bool × Option Expr

/-- the elements between the parentheses, each `TestOrStarNamedExpr ("as" Expression)?`, with the
    trailing-comma flag; consumes `)` -/
def parseWithParenElems : Nat → List Tok → PR (List WElem × Bool)
  | 0, _ => none
  | f + 1, ts =>
    match parseStarOrNamed f ts with
    | none => none
    | some (e, r) =>
      let asPart : Option (Option Expr × List Tok) :=
        match r with
        | t :: r' =>
          if tk t = .hk .as then
            (match parseBin 0 f r' with
             | some (v, r2) => some (some v, r2)
             | none => none)
          else some (none, t :: r')
        | [] => some (none, [])
      match asPart with
      | none => none
      | some (v, r1) =>
        let el : WElem := (e, startsSpecial ts, v)
        match r1 with
        | .op .comma :: .op .rpar :: r2 => some (([el], true), r2)
        | .op .comma :: r2 =>
          (match parseWithParenElems f r2 with
           | some ((els, tc), r3) => some ((el :: els, tc), r3)
           | none => none)
        | .op .rpar :: r2 => some (([el], false), r2)
        | _ => none

/-- which alternative of `WithItems` a parenthesised element list belongs to, and its items:
    * an `as` somewhere: alternative 2 — every element must be a `Test` (with or without `as`);
    * all elements `Test`s: alternative 1 — one item per element;
    * otherwise the parentheses are the second parenthesised form of `Atom` (a `NamedExpression` or
      `StarExpr` inside): ONE item, the element itself or the tuple. -/
def withParenItems (els : List WElem) (tc : Bool) : Option (List WithItem) :=
  if els.any (fun el => el.2.2.isSome) then
    if els.any (fun el => el.2.1) then none
    else some (els.map fun el => ⟨el.1, el.2.2⟩)
  else if els.all (fun el => !el.2.1) then some (els.map fun el => ⟨el.1, none⟩)
  else
    match els, tc with
    | [el], false => if isStarred el.1 then none else some [⟨el.1, none⟩]
    | _, _ => some [⟨.tuple (els.map fun el => el.1), none⟩]

/-- after `with (` when the matching `)` is followed by `:` — the header is `( … ) :` -/
def parseWithParen : Nat → List Tok → PR (List WithItem)
  | 0, _ => none
  | _ + 1, .op .rpar :: r => some ([⟨.tuple [], none⟩], r)
  | f + 1, .kw .yield :: r =>
    (match parseYieldAtom f r with
     | some (e, r1) => some ([⟨e, none⟩], r1)
     | none => none)
  | f + 1, ts =>
    match parseStarOrNamed f ts with
    | none => none
    | some (e, r) =>
      if atCompFor r then
        if isStarred e then none else
        (match parseCompFor f r with
         | some (gs, .op .rpar :: r2) => some ([⟨.genExp e gs, none⟩], r2)
         | _ => none)
      else
        (match parseWithParenElems f ts with
         | some ((els, tc), r1) =>
           (match withParenItems els tc with
            | some items => some (items, r1)
            | none => none)
         | none => none)

/-- `WithItems`; stops in front of the `:` -/
def parseWithItems : Nat → List Tok → PR (List WithItem)
  | 0, _ => none
  | f + 1, .op .lpar :: r =>
    (match afterClose 1 r with
     | some (.op .colon :: _) => parseWithParen f r
     | _ => parseWithPlain f (.op .lpar :: r))
  | f + 1, ts => parseWithPlain f ts

/-! ## headers of compound statements (expression parts only) -/

/-- `"except" …` after the keyword up to and including the `:`; `star`: the handlers of a `try*` -/
def parseExceptHeader : Nat → Bool → List Tok → PR (Option Expr × Option Ident)
  | 0, _, _ => none
  | _ + 1, false, .op .colon :: r => some ((none, none), r)
  | f + 1, star, ts =>
    let ts' : Option (List Tok) :=
      if star then (match ts with | .op .star :: r => some r | _ => none) else some ts
    match ts' with
    | none => none
    | some ts1 =>
      match parseTest f ts1 with
      | some (e, .op .colon :: r) => some ((some e, none), r)
      | some (e, t :: .name n :: .op .colon :: r) =>
        if tk t = .hk .as then some ((some e, some n), r) else none
      | _ => none

/-- the `IfStatement` action's loop `for i in s2.into_iter().rev()`: called with the REVERSED clause list -/
def elifFold : List (Expr × List Stmt) → List Stmt → List Stmt
  | [], last => last
  | (t, b) :: cs, last => elifFold cs [.if t b last]

/-- the `IfStatement` action -/
def ifAssemble (test : Expr) (body : List Stmt) (s2 : List (Expr × List Stmt)) (s3 : Option (List Stmt)) : Stmt :=
  .if test body (elifFold s2.reverse (s3.getD []))

/-- first token of a `CompoundStatement` -/
def startsCompound : List Tok → Bool
  | .kw .if :: _ => true
  | .kw .for :: _ => true
  | .kw .async :: _ => true
  | .op .at :: _ => true
  | t :: _ =>
    (match tk t with
     | .hk .while => true
     | .hk .try => true
     | .hk .with => true
     | .hk .def => true
     | .hk .class => true
     | .hk .match => true
     | _ => false)
  | [] => false

/-! ## compound statements -/

mutual

/-- `Suite` -/
def parseSuite : Nat → List Tok → PR (List Stmt)
  | 0, _ => none
  | f + 1, t :: t2 :: r =>
    if tk t = .newline then
      if tk t2 = .indent then parseBlock f r else none
    else parseSimpleLine f (t :: t2 :: r)
  | f + 1, ts => parseSimpleLine f ts
termination_by structural f => f

/-- `Statements Dedent`: one or more statements, then the `Dedent` (consumed) -/
def parseBlock : Nat → List Tok → PR (List Stmt)
  | 0, _ => none
  | f + 1, ts =>
    let first : PR (List Stmt) :=
      if startsCompound ts then
        (match parseCompound f ts with
         | some (s, r) => some ([s], r)
         | none => none)
      else parseSimpleLine f ts
    match first with
    | some (ss, t :: r) =>
      if tk t = .dedent then some (ss, r)
      else
        (match parseBlock f (t :: r) with
         | some (more, r2) => some (ss ++ more, r2)
         | none => none)
    | _ => none
termination_by structural f => f

/-- `("else" ":" Suite)?` -/
def parseElse : Nat → List Tok → PR (Option (List Stmt))
  | 0, _ => none
  | f + 1, .kw .else :: .op .colon :: r =>
    (match parseSuite f r with
     | some (b, r1) => some (some b, r1)
     | none => none)
  | _ + 1, .kw .else :: _ => none
  | _ + 1, ts => some (none, ts)
termination_by structural f => f

/-- `("finally" ":" Suite)?` -/
def parseFinally : Nat → List Tok → PR (Option (List Stmt))
  | 0, _ => none
  | _ + 1, [] => some (none, [])
  | f + 1, t :: r =>
    if tk t = .hk .finally then
      (match r with
       | .op .colon :: r1 =>
         (match parseSuite f r1 with
          | some (b, r2) => some (some b, r2)
          | none => none)
       | _ => none)
    else some (none, t :: r)
termination_by structural f => f

/-- `(@L "elif" NamedExpressionTest ":" Suite)*` -/
def parseElifs : Nat → List Tok → PR (List (Expr × List Stmt))
  | 0, _ => none
  | _ + 1, [] => some ([], [])
  | f + 1, t :: r =>
    if tk t = .hk .elif then
      (match parseNamedTest f r with
       | some (test, .op .colon :: r1) =>
         (match parseSuite f r1 with
          | some (body, r2) =>
            (match parseElifs f r2 with
             | some (cs, r3) => some ((test, body) :: cs, r3)
             | none => none)
          | none => none)
       | _ => none)
    else some ([], t :: r)
termination_by structural f => f

/-- `ExceptClause+` (`star = false`) or `ExceptStarClause+` (`star = true`); starts at `except` -/
def parseHandlers : Nat → Bool → List Tok → PR (List ExceptHandler)
  | 0, _, _ => none
  | _ + 1, _, [] => none
  | f + 1, star, t :: r =>
    if tk t = .hk .except then
      (match parseExceptHeader f star r with
       | some ((ty, nm), r1) =>
         (match parseSuite f r1 with
          | some (b, t2 :: r2) =>
            if tk t2 = .hk .except then
              (match parseHandlers f star (t2 :: r2) with
               | some (hs, r3) => some (.mk ty nm b :: hs, r3)
               | none => none)
            else some ([.mk ty nm b], t2 :: r2)
          | some (b, []) => some ([.mk ty nm b], [])
          | none => none)
       | none => none)
    else none
termination_by structural f => f

/-- `MatchCase+ Dedent` -/
def parseCases : Nat → List Tok → PR (List MatchCase)
  | 0, _ => none
  | _ + 1, [] => none
  | f + 1, t :: r =>
    if tk t = .hk .case then
      (match parsePatterns f r with
       | some (p, r1) =>
         let guard : PR (Option Expr) :=
           match r1 with
           | .kw .if :: r2 =>
             (match parseNamedTest f r2 with
              | some (g, r3) => some (some g, r3)
              | none => none)
           | _ => some (none, r1)
         (match guard with
          | some (g, .op .colon :: r4) =>
            (match parseSuite f r4 with
             | some (body, t5 :: r5) =>
               if tk t5 = .dedent then some ([.mk p g body], r5)
               else
                 (match parseCases f (t5 :: r5) with
                  | some (cs, r6) => some (.mk p g body :: cs, r6)
                  | none => none)
             | _ => none)
          | _ => none)
       | none => none)
    else none
termination_by structural f => f

/-- `FuncDef` after `def`; `decos` are the decorators already read -/
def parseDef : Nat → Bool → List Expr → List Tok → PR Stmt
  | 0, _, _, _ => none
  | f + 1, isAsync, decos, .name n :: r =>
    (match parseTypeParamsOpt f r with
     | some (tps, .op .lpar :: r1) =>
       (match parseParameters f r1 with
        | some (args, r2) =>
          let ret : PR (Option Expr) :=
            match r2 with
            | t :: r3 =>
              if tk t = .arrow then
                (match parseTest f r3 with
                 | some (e, r4) => some (some e, r4)
                 | none => none)
              else some (none, t :: r3)
            | [] => some (none, [])
          (match ret with
           | some (returns, .op .colon :: r5) =>
             (match parseSuite f r5 with
              | some (body, r6) =>
                if isAsync then some (.asyncFunctionDef n args body decos returns tps, r6)
                else some (.functionDef n args body decos returns tps, r6)
              | none => none)
           | _ => none)
        | none => none)
     | _ => none)
  | _ + 1, _, _, _ => none
termination_by structural f => f

/-- `ClassDef` after `class` -/
def parseClass : Nat → List Expr → List Tok → PR Stmt
  | 0, _, _ => none
  | f + 1, decos, .name n :: r =>
    (match parseTypeParamsOpt f r with
     | some (tps, r1) =>
       let argl : PR (List Expr × List Keyword) :=
         match r1 with
         | .op .lpar :: r2 => parseArgs f r2 [] [] false
         | _ => some (([], []), r1)
       (match argl with
        | some ((bases, kws), .op .colon :: r3) =>
          (match parseSuite f r3 with
           | some (body, r4) => some (.classDef n bases kws body decos tps, r4)
           | none => none)
        | _ => none)
     | none => none)
  | _ + 1, _, _ => none
termination_by structural f => f

/-- `CompoundStatement`, dispatched on the first token(s) -/
def parseCompound : Nat → List Tok → PR Stmt
  | 0, _ => none
  | _ + 1, [] => none
  -- IfStatement
  | f + 1, .kw .if :: r =>
    (match parseNamedTest f r with
     | some (test, .op .colon :: r1) =>
       (match parseSuite f r1 with
        | some (body, r2) =>
          (match parseElifs f r2 with
           | some (s2, r3) =>
             (match parseElse f r3 with
              | some (s3, r4) => some (ifAssemble test body s2 s3, r4)
              | none => none)
           | none => none)
        | none => none)
     | _ => none)
  -- ForStatement
  | f + 1, .kw .for :: r => parseFor f false r
  | f + 1, .kw .async :: .kw .for :: r => parseFor f true r
  | f + 1, .kw .async :: t :: r =>
    (match tk t with
     | .hk .with => parseWith f true r
     | .hk .def => parseDef f true [] r
     | _ => none)
  | _ + 1, [.kw .async] => none
  -- decorated FuncDef / ClassDef
  | f + 1, .op .at :: r =>
    (match parseDecorators f (.op .at :: r) with
     | some (decos, .kw .async :: t :: r1) => if tk t = .hk .def then parseDef f true decos r1 else none
     | some (decos, t :: r1) =>
       (match tk t with
        | .hk .def => parseDef f false decos r1
        | .hk .class => parseClass f decos r1
        | _ => none)
     | _ => none)
  | f + 1, t :: r =>
    match tk t with
    -- WhileStatement
    | .hk .while =>
      (match parseNamedTest f r with
       | some (test, .op .colon :: r1) =>
         (match parseSuite f r1 with
          | some (body, r2) =>
            (match parseElse f r2 with
             | some (oe, r3) => some (.while test body (oe.getD []), r3)
             | none => none)
          | none => none)
       | _ => none)
    -- TryStatement
    | .hk .try =>
      (match r with
       | .op .colon :: r1 =>
         (match parseSuite f r1 with
          | some (body, t2 :: r2) =>
            (match tk t2 with
             | .hk .finally =>
               (match r2 with
                | .op .colon :: r3 =>
                  (match parseSuite f r3 with
                   | some (fb, r4) => some (.try body [] [] fb, r4)
                   | none => none)
                | _ => none)
             | .hk .except =>
               let star : Bool := match r2 with | .op .star :: _ => true | _ => false
               (match parseHandlers f star (t2 :: r2) with
                | some (hs, r3) =>
                  (match parseElse f r3 with
                   | some (oe, r4) =>
                     (match parseFinally f r4 with
                      | some (fb, r5) =>
                        if star then some (.tryStar body hs (oe.getD []) (fb.getD []), r5)
                        else some (.try body hs (oe.getD []) (fb.getD []), r5)
                      | none => none)
                   | none => none)
                | none => none)
             | _ => none)
          | _ => none)
       | _ => none)
    | .hk .with => parseWith f false r
    | .hk .def => parseDef f false [] r
    | .hk .class => parseClass f [] r
    -- MatchStatement
    | .hk .match =>
      (match parseCommaList .starOrNamed f r with
       | some ((es, tc), .op .colon :: t1 :: t2 :: r1) =>
         if tk t1 = .newline ∧ tk t2 = .indent then
           (match parseCases f r1 with
            | some (cs, r2) =>
              -- one subject without a trailing comma is the subject itself; a trailing comma or several
              -- subjects give a tuple (`match x,:` is `Tuple([x])` since the /repo fix of the second alternative)
              some (.match (genericList (es, tc)) cs, r2)
            | none => none)
         else none
       | _ => none)
    | _ => none
termination_by structural f => f

/-- `ForStatement` after `for` -/
def parseFor : Nat → Bool → List Tok → PR Stmt
  | 0, _, _ => none
  | f + 1, isAsync, ts =>
    match parseTargetList f ts with
    | some (target, .kw .in :: r) =>
      (match parseTestListS f r with
       | some (iter, .op .colon :: r1) =>
         (match parseSuite f r1 with
          | some (body, r2) =>
            (match parseElse f r2 with
             | some (oe, r3) =>
               if isAsync then some (.asyncFor target iter body (oe.getD []), r3)
               else some (.for target iter body (oe.getD []), r3)
             | none => none)
          | none => none)
       | _ => none)
    | _ => none
termination_by structural f => f

/-- `WithStatement` after `with` -/
def parseWith : Nat → Bool → List Tok → PR Stmt
  | 0, _, _ => none
  | f + 1, isAsync, ts =>
    match parseWithItems f ts with
    | some (items, .op .colon :: r) =>
      (match parseSuite f r with
       | some (body, r1) =>
         if isAsync then some (.asyncWith items body, r1) else some (.with items body, r1)
       | none => none)
    | _ => none
termination_by structural f => f

end

/-- `Program`: statements and empty lines to the end of the input -/
def parseProgramBody : Nat → List Tok → Option (List Stmt)
  | 0, _ => none
  | _ + 1, [] => some []
  | f + 1, t :: r =>
    if tk t = .newline then parseProgramBody f r
    else if startsCompound (t :: r) then
      (match parseCompound f (t :: r) with
       | some (s, r1) =>
         (match parseProgramBody f r1 with
          | some (more) => some (s :: more)
          | none => none)
       | none => none)
    else
      (match parseSimpleLine f (t :: r) with
       | some (ss, r1) =>
         (match parseProgramBody f r1 with
          | some (more) => some (ss ++ more)
          | none => none)
       | none => none)

/-- `Top`, on `Tok`s -/
def parseTopT (mode : Mode) (fuel : Nat) (ts : List Tok) : Option Mod :=
  match mode with
  | .module =>
    (match parseProgramBody fuel ts with
     | some b => some (.module b)
     | none => none)
  | .interactive =>
    (match parseProgramBody fuel ts with
     | some b => some (.interactive b)
     | none => none)
  | .expression =>
    (match parseTestListS fuel ts with
     | some (e, r) => if r.all (fun t => tk t = .newline) then some (.expression e) else none
     | none => none)

/-- fuel that the driver gives a token list (`PV.C11.tokWeight`: f-string bodies count by character) -/
def fuelFor (ts : List Tok) : Nat := 40 * (ts.map tokWeight).sum + 128

/-- `parseProgram` with explicit fuel -/
def parseProgramFuel (fuel : Nat) (mode : Mode) (ts : List PTok) : Option Mod :=
  parseTopT mode fuel (ts.map PTok.toTok)

/-- **The reference parser for whole programs** (what `parse_tokens(tokens, mode)` computes, ranges and
    ctx erased). -/
def parseProgram (mode : Mode) (ts : List PTok) : Option Mod :=
  parseProgramFuel (fuelFor (ts.map PTok.toTok)) mode ts

/-- the parser applied to tokens that carry spans -/
def parseSpanned (mode : Mode) (ts : List STok) : Option Mod := parseProgram mode (eraseSpans ts)

end PV.Prog
