import PV.Prog.RtBase
/-
  PV.Prog.RtSimple — the round trip through the printer, simple statements: each statement of the fragment, printed on
  its line, is read back by `SmallStatement` up to the NEWLINE (`SmallRT`); type parameter lists.
-/
set_option linter.unusedSimpArgs false
namespace PV.Prog
open PV.Expr PV.C11

/-! ## dispatch -/

/-- what `parseBlock` and `parseProgramBody` do for one statement -/
def parseFirst (f : Nat) (ts : List Tok) : PR (List Stmt) :=
  if startsCompound ts then
    (match parseCompound f ts with
     | some (s, r) => some ([s], r)
     | none => none)
  else parseSimpleLine f ts

/-- the line `body NEWLINE` holds the simple statement `s` -/
def SmallRT (s : Stmt) (body : List Tok) : Prop :=
  (∀ r, startsCompound (body ++ r) = false) ∧
    ∀ rest, EvT (fun f => parseSmall f (body ++ tNewline :: rest)) (s, tNewline :: rest)

/-- a line with one simple statement is read by `parseFirst` -/
theorem first_of_small {s : Stmt} {body : List Tok} (h : SmallRT s body) (rest : List Tok) :
    EvT (fun f => parseFirst f (body ++ tNewline :: rest)) ([s], rest) := by
  obtain ⟨n, hn⟩ := h.2 rest
  refine ⟨n + 1, fun f hf => ?_⟩
  obtain ⟨f1, rfl⟩ : ∃ f1, f = f1 + 1 := ⟨f - 1, by omega⟩
  have h1 := hn f1 (by omega)
  simp only [] at h1 ⊢
  simp only [parseFirst, h.1, Bool.false_eq_true, if_false]
  rw [parseSimpleLine, h1]
  simp [tk_tNewline]

theorem tok_ne_yield (k : HK) : k.tok ≠ .kw .yield := by cases k <;> simp [HK.tok]
theorem tok_ne_from (k : HK) : k.tok ≠ .kw .from := by cases k <;> simp [HK.tok]

/-- `SmallStatement` on a line that starts with a statement keyword: the dispatch -/
macro "small_hk" : tactic => `(tactic| (
  unfold parseSmall
  split
  · rename_i hh; simp at hh
  · rename_i hh; simp at hh
  · rename_i hh; simp only [List.cons.injEq] at hh; exact absurd hh.1 (tok_ne_yield _)
  · rename_i hh; simp only [List.cons.injEq] at hh; exact absurd hh.1 (tok_ne_from _)
  · rename_i f' t' r' _ _ hf' hh
    simp only [List.cons.injEq] at hh
    obtain ⟨hh1, hh2⟩ := hh
    subst hh1
    subst hh2
    simp only [Nat.succ_eq_add_one, Nat.add_right_cancel_iff] at hf'
    subst hf'
    rw [tk_tok]
    all_goals rfl))

theorem parseSmall_pass (f : Nat) (r : List Tok) : parseSmall (f + 1) (HK.tok .pass :: r) = some (.pass, r) := by small_hk
theorem parseSmall_break (f : Nat) (r : List Tok) : parseSmall (f + 1) (HK.tok .break :: r) = some (.break, r) := by small_hk
theorem parseSmall_continue (f : Nat) (r : List Tok) :
    parseSmall (f + 1) (HK.tok .continue :: r) = some (.continue, r) := by small_hk

theorem parseSmall_del (f : Nat) (r : List Tok) :
    parseSmall (f + 1) (HK.tok .del :: r) =
      (match parseCommaList .exprOrStar f r with
       | some ((es, _), r') => some (.delete es, r')
       | none => none) := by small_hk

theorem parseSmall_return (f : Nat) (r : List Tok) :
    parseSmall (f + 1) (HK.tok .return :: r) =
      (if startsExpr r then
        (match parseTestListS f r with
         | some (e, r') => some (.return (some e), r')
         | none => none)
      else some (.return none, r)) := by small_hk

theorem parseSmall_raise (f : Nat) (r : List Tok) :
    parseSmall (f + 1) (HK.tok .raise :: r) =
      (if startsExpr r then
        (match parseTest f r with
         | some (e, .kw .from :: r1) =>
           (match parseTest f r1 with
            | some (c, r2) => some (.raise (some e) (some c), r2)
            | none => none)
         | some (e, r1) => some (.raise (some e) none, r1)
         | none => none)
      else some (.raise none none, r)) := by small_hk

theorem parseSmall_import (f : Nat) (r : List Tok) :
    parseSmall (f + 1) (HK.tok .import :: r) =
      (match parseImportNames f r with
       | some (names, r') => some (.import names, r')
       | none => none) := by small_hk

theorem parseSmall_global (f : Nat) (r : List Tok) :
    parseSmall (f + 1) (HK.tok .global :: r) =
      (match parseIdents f r with
       | some (ns, r') => some (.global ns, r')
       | none => none) := by small_hk

theorem parseSmall_nonlocal (f : Nat) (r : List Tok) :
    parseSmall (f + 1) (HK.tok .nonlocal :: r) =
      (match parseIdents f r with
       | some (ns, r') => some (.nonlocal ns, r')
       | none => none) := by small_hk

theorem parseSmall_assert (f : Nat) (r : List Tok) :
    parseSmall (f + 1) (HK.tok .assert :: r) =
      (match parseTest f r with
       | some (e, .op .comma :: r1) =>
         (match parseTest f r1 with
          | some (m, r2) => some (.assert e (some m), r2)
          | none => none)
       | some (e, r1) => some (.assert e none, r1)
       | none => none) := by small_hk

theorem parseSmall_type (f : Nat) (r : List Tok) :
    parseSmall (f + 1) (HK.tok .type :: r) =
      (match r with
       | .name n :: r1 =>
         (match parseTypeParamsOpt f r1 with
          | some (tps, .op .assign :: r2) =>
            (match parseTest f r2 with
             | some (v, r3) => some (.typeAlias (.name n) tps v, r3)
             | none => none)
          | _ => none)
       | _ => none) := by small_hk

theorem startsCompound_hk {k : HK} (hk : k ≠ .while ∧ k ≠ .try ∧ k ≠ .with ∧ k ≠ .def ∧ k ≠ .class ∧ k ≠ .match)
    (r : List Tok) : startsCompound (k.tok :: r) = false := by
  obtain ⟨h1, h2, h3, h4, h5, h6⟩ := hk
  cases k <;> first | rfl | simp_all

/-! ## pass, break, continue, return, expression statements -/

theorem small_pass : SmallRT .pass [HK.tok .pass] :=
  ⟨fun r => startsCompound_hk (by decide) _, fun rest => ⟨1, fun f hf => by
    obtain ⟨f1, rfl⟩ : ∃ f1, f = f1 + 1 := ⟨f - 1, by omega⟩
    simp only [List.cons_append, List.nil_append]
    rw [parseSmall_pass]⟩⟩

theorem small_break : SmallRT .break [HK.tok .break] :=
  ⟨fun r => startsCompound_hk (by decide) _, fun rest => ⟨1, fun f hf => by
    obtain ⟨f1, rfl⟩ : ∃ f1, f = f1 + 1 := ⟨f - 1, by omega⟩
    simp only [List.cons_append, List.nil_append]
    rw [parseSmall_break]⟩⟩

theorem small_continue : SmallRT .continue [HK.tok .continue] :=
  ⟨fun r => startsCompound_hk (by decide) _, fun rest => ⟨1, fun f hf => by
    obtain ⟨f1, rfl⟩ : ∃ f1, f = f1 + 1 := ⟨f - 1, by omega⟩
    simp only [List.cons_append, List.nil_append]
    rw [parseSmall_continue]⟩⟩

theorem startsExpr_newline (r : List Tok) : startsExpr (tNewline :: r) = false := rfl

theorem small_return_none : SmallRT (.return none) [HK.tok .return] :=
  ⟨fun r => startsCompound_hk (by decide) _, fun rest => ⟨1, fun f hf => by
    obtain ⟨f1, rfl⟩ : ∃ f1, f = f1 + 1 := ⟨f - 1, by omega⟩
    simp only [List.cons_append, List.nil_append]
    rw [parseSmall_return]
    simp [startsExpr_newline]⟩⟩

theorem startsExpr_rx {x : Expr} (hx : ElemOK P0 x) (lvl : Nat) (h1 : 1 ≤ lvl) (r : List Tok) :
    startsExpr (rx lvl x ++ r) = true := by
  obtain ⟨t, tr, ht, hg⟩ := elemOK_head hx lvl h1
  rw [ht, List.cons_append]
  exact startsExpr_of_elemTok (hg.imp (goodHead_le1 h1) id) _

theorem ne_comma_newline : tNewline ≠ .op .comma := by decide

theorem small_return_some {e : Expr} (he : ElemOK P0 e) :
    SmallRT (.return (some e)) (HK.tok .return :: rx 1 e) :=
  ⟨fun r => startsCompound_hk (by decide) _, fun rest => by
    obtain ⟨n, hn⟩ := evT_testListS he endTok_newline ne_comma_newline rest
    refine ⟨n + 1, fun f hf => ?_⟩
    obtain ⟨f1, rfl⟩ : ∃ f1, f = f1 + 1 := ⟨f - 1, by omega⟩
    have h1 := hn f1 (by omega)
    simp only [] at h1 ⊢
    simp only [List.cons_append]
    rw [parseSmall_return]
    simp [startsExpr_rx he 1 (Nat.le_refl _), h1]⟩

/-- the first token of an element: what the statement dispatch sees -/
theorem elem_dispatch {x : Expr} (hx : ElemOK P0 x) (lvl : Nat) (h1 : 1 ≤ lvl) :
    ∃ t tr, rx lvl x = t :: tr ∧ tk t = .plain ∧ (∀ r, startsCompound (t :: r) = false) ∧ t ≠ .kw .yield ∧
      t ≠ .kw .from := by
  obtain ⟨t, tr, ht, hg⟩ := elemOK_head hx lvl h1
  have hs := stmtHead_of_elemTok (hg.imp (goodHead_le1 h1) id)
  refine ⟨t, tr, ht, (dispatch_of_not_stmtHead hs []).1, fun r => (dispatch_of_not_stmtHead hs r).2.1,
    (dispatch_of_not_stmtHead hs []).2.2.1, (dispatch_of_not_stmtHead hs []).2.2.2⟩

/-- `SmallStatement` on a line that starts with an expression token -/
theorem parseSmall_plain {t : Tok} (htk : tk t = .plain) (hy : t ≠ .kw .yield) (hf : t ≠ .kw .from) (f : Nat)
    (r : List Tok) : parseSmall (f + 1) (t :: r) = parseExprStmt f (t :: r) := by
  unfold parseSmall
  split
  · rename_i hh; simp at hh
  · rename_i hh; simp at hh
  · rename_i hh; simp only [List.cons.injEq] at hh; exact absurd hh.1 hy
  · rename_i hh; simp only [List.cons.injEq] at hh; exact absurd hh.1 hf
  · rename_i f' t' r' _ _ hf' hh
    simp only [List.cons.injEq] at hh
    obtain ⟨rfl, rfl⟩ := hh
    simp only [Nat.succ_eq_add_one, Nat.add_right_cancel_iff] at hf'
    subst hf'
    rw [htk]

/-- `ExpressionStatement`: a `TestList` followed by NEWLINE -/
theorem parseExprStmt_expr_nl {f : Nat} {ts : List Tok} {es : List Expr} {tc : Bool} {rest : List Tok}
    (h : parseCommaList .testOrStar f ts = some ((es, tc), tNewline :: rest)) :
    parseExprStmt (f + 1) ts = some (.expr (genericList (es, tc)), tNewline :: rest) := by
  rw [parseExprStmt, h]
  simp [tNewline, tk]

/-- … followed by an augmented-assignment operator -/
theorem parseExprStmt_aug {f : Nat} {ts : List Tok} {es : List Expr} {tc : Bool} {o : BinOp} {rest : List Tok}
    (h : parseCommaList .testOrStar f ts = some ((es, tc), tAug o :: rest)) :
    parseExprStmt (f + 1) ts =
      (match parseTestListOrYield f rest with
       | some (v, r1) => some (.augAssign (genericList (es, tc)) o v, r1)
       | none => none) := by
  rw [parseExprStmt, h]
  have := tk_tAug o
  cases o <;> simp [tAug, augText] at this ⊢ <;> simp [this] <;> rfl

/-- … followed by `=` -/
theorem parseExprStmt_assign {f : Nat} {ts : List Tok} {es : List Expr} {tc : Bool} {rest : List Tok}
    (h : parseCommaList .testOrStar f ts = some ((es, tc), .op .assign :: rest)) :
    parseExprStmt (f + 1) ts =
      (match parseAssignSuffixes f (.op .assign :: rest) with
       | some (vals, r) =>
         (match assignOf (genericList (es, tc)) vals with
          | some s => some (s, r)
          | none => none)
       | none => none) := by
  rw [parseExprStmt, h]
  rfl

/-- … one `Test` followed by `:` -/
theorem parseExprStmt_ann {f : Nat} {ts : List Tok} {x : Expr} {rest : List Tok} (hx : isStarred x = false)
    (h : parseCommaList .testOrStar f ts = some (([x], false), .op .colon :: rest)) :
    parseExprStmt (f + 1) ts =
      (match parseTest f rest with
       | some (ann, .op .assign :: r1) =>
         (match parseTestListOrYield f r1 with
          | some (v, r2) => some (.annAssign x ann (some v) (isName x && startsName ts), r2)
          | none => none)
       | some (ann, r1) => some (.annAssign x ann none (isName x && startsName ts), r1)
       | none => none) := by
  rw [parseExprStmt, h]
  simp only [hx, Bool.false_eq_true, if_false]
  rfl

theorem small_expr {e : Expr} (he : ElemOK P0 e) : SmallRT (.expr e) (rx 1 e) := by
  obtain ⟨t, tr, ht, htk, hsc, hy, hf⟩ := elem_dispatch he 1 (Nat.le_refl _)
  refine ⟨fun r => by rw [ht, List.cons_append]; exact hsc _, fun rest => ?_⟩
  obtain ⟨n, hn⟩ := evT_commaList1 he endTok_newline ne_comma_newline rest
  refine ⟨n + 2, fun f hf' => ?_⟩
  obtain ⟨f1, rfl⟩ : ∃ f1, f = f1 + 2 := ⟨f - 2, by omega⟩
  have h1 := hn f1 (by omega)
  simp only [] at h1 ⊢
  rw [ht, List.cons_append] at h1 ⊢
  rw [parseSmall_plain htk hy hf, parseExprStmt_expr_nl h1]
  rfl

/-! ## del -/

theorem sepBy_one (s : Tok) (x : List Tok) : sepBy s [x] = x := rfl
theorem sepBy_cons2 (s : Tok) (x y : List Tok) (r : List (List Tok)) :
    sepBy s (x :: y :: r) = x ++ s :: sepBy s (y :: r) := rfl

/-- `ExpressionList2`: one or more targets at level 6, no trailing comma -/
theorem commaList_exprs : (ts : List Expr) → ts ≠ [] → (∀ x ∈ ts, ElemOK P0 x) → ∀ {c : Tok}, contTok 6 c = false →
    c ≠ .op .comma → ∀ rest,
      EvT (fun f => parseCommaList .exprOrStar f (sepBy tComma (ts.map (rx 6)) ++ c :: rest)) ((ts, false), c :: rest)
  | [], h, _, _, _, _, _ => absurd rfl h
  | [x], _, hx, c, hc, hcc, rest => by
    obtain ⟨n, hn⟩ := evT_exprOrStar (hx x (by simp)) hc rest
    refine ⟨n + 1, fun f hf => ?_⟩
    obtain ⟨f1, rfl⟩ : ∃ f1, f = f1 + 1 := ⟨f - 1, by omega⟩
    have h1 := hn f1 (by omega)
    simp only [] at h1 ⊢
    simp only [List.map, sepBy_one]
    unfold parseCommaList
    simp only [parseElem, h1]
    split
    · rename_i heq; simp only [Option.some.injEq, Prod.mk.injEq, List.cons.injEq] at heq; exact absurd heq.2.1 hcc
    · rename_i heq; simp only [Option.some.injEq, Prod.mk.injEq] at heq; obtain ⟨rfl, rfl⟩ := heq; rfl
    · rename_i heq; simp at heq
  | x :: y :: r, _, hx, c, hc, hcc, rest => by
    obtain ⟨n, hn⟩ := evT_exprOrStar (hx x (by simp)) (contTok_comma 6)
      (sepBy tComma ((y :: r).map (rx 6)) ++ c :: rest)
    obtain ⟨m, hm⟩ := commaList_exprs (y :: r) (by simp) (fun z hz => hx z (List.mem_cons_of_mem _ hz)) hc hcc rest
    refine ⟨max n m + 1, fun f hf => ?_⟩
    obtain ⟨f1, rfl⟩ : ∃ f1, f = f1 + 1 := ⟨f - 1, by omega⟩
    have h1 := hn f1 (by omega)
    have h2 := hm f1 (by omega)
    simp only [] at h1 h2 ⊢
    have hse : startsExpr (sepBy tComma ((y :: r).map (rx 6)) ++ c :: rest) = true := by
      cases r with
      | nil => simp only [List.map, sepBy_one]; exact startsExpr_rx (hx y (by simp)) 6 (by omega) _
      | cons z r' =>
        simp only [List.map, sepBy_cons2, List.append_assoc]
        exact startsExpr_rx (hx y (by simp)) 6 (by omega) _
    simp only [List.map, sepBy_cons2, List.append_assoc, List.cons_append, tComma] at h1 h2 hse ⊢
    unfold parseCommaList
    simp only [parseElem, h1, hse, if_true, h2]

theorem small_delete {ts : List Expr} (hne : ts ≠ []) (hts : ∀ x ∈ ts, ElemOK P0 x) :
    SmallRT (.delete ts) (HK.tok .del :: sepBy tComma (ts.map (rx 6))) :=
  ⟨fun r => startsCompound_hk (by decide) _, fun rest => by
    obtain ⟨n, hn⟩ := commaList_exprs ts hne hts (endTok_newline 6) ne_comma_newline rest
    refine ⟨n + 1, fun f hf => ?_⟩
    obtain ⟨f1, rfl⟩ : ∃ f1, f = f1 + 1 := ⟨f - 1, by omega⟩
    have h1 := hn f1 (by omega)
    simp only [] at h1 ⊢
    simp only [List.cons_append]
    rw [parseSmall_del, h1]⟩

/-! ## assignments -/

/-- `("=" TestListOrYieldExpr)*` -/
def sufToks : List Expr → List Tok
  | [] => []
  | e :: es => tAssign :: (rx 1 e ++ sufToks es)

theorem assignTargets_eq (t : Expr) (ts : List Expr) (v : Expr) (X : List Tok) :
    assignTargets (t :: ts) ++ (rx 1 v ++ X) = rx 1 t ++ (sufToks (ts ++ [v]) ++ X) := by
  induction ts generalizing t with
  | nil => simp [assignTargets, sufToks]
  | cons u us ih =>
    have := ih u
    simp only [assignTargets, List.cons_append, List.append_assoc, sufToks] at this ⊢
    rw [this]

theorem ne_comma_assign : Tok.op .assign ≠ .op .comma := by decide

/-- `AssignSuffix*` up to the NEWLINE -/
theorem suffixesRT : (es : List Expr) → (∀ x ∈ es, ElemOK P0 x) → ∀ rest,
    EvT (fun f => parseAssignSuffixes f (sufToks es ++ tNewline :: rest)) (es, tNewline :: rest)
  | [], _, rest => ⟨1, fun f hf => by
      obtain ⟨f1, rfl⟩ : ∃ f1, f = f1 + 1 := ⟨f - 1, by omega⟩
      simp [sufToks, parseAssignSuffixes, tNewline]⟩
  | e :: es, hx, rest => by
    obtain ⟨m, hm⟩ := suffixesRT es (fun z hz => hx z (List.mem_cons_of_mem _ hz)) rest
    have hnext : ∃ c r', sufToks es ++ tNewline :: rest = c :: r' ∧ EndTok c ∧ c ≠ .op .comma := by
      cases es with
      | nil => exact ⟨tNewline, rest, rfl, endTok_newline, ne_comma_newline⟩
      | cons u us => exact ⟨.op .assign, _, rfl, endTok_assign, ne_comma_assign⟩
    obtain ⟨c, r', hcr, hc, hcc⟩ := hnext
    obtain ⟨n, hn⟩ := evT_testListOrYield (hx e (by simp)) hc hcc r'
    refine ⟨max n m + 1, fun f hf => ?_⟩
    obtain ⟨f1, rfl⟩ : ∃ f1, f = f1 + 1 := ⟨f - 1, by omega⟩
    have h1 := hn f1 (by omega)
    have h2 := hm f1 (by omega)
    simp only [] at h1 h2 ⊢
    simp only [sufToks, List.cons_append, List.append_assoc, tAssign]
    rw [hcr] at h2 ⊢
    rw [parseAssignSuffixes, h1]
    simp only [h2]

theorem assignOf_snoc (t : Expr) (ts : List Expr) (v : Expr) :
    assignOf t (ts ++ [v]) = some (.assign (t :: ts) v) := by
  simp [assignOf]

theorem small_assign {ts : List Expr} {v : Expr} (hne : ts ≠ []) (hts : ∀ x ∈ ts, ElemOK P0 x) (hv : ElemOK P0 v) :
    SmallRT (.assign ts v) (assignTargets ts ++ rx 1 v) := by
  cases ts with
  | nil => exact absurd rfl hne
  | cons t ts' =>
    have ht := hts t (by simp)
    obtain ⟨t0, tr, ht0, htk, hsc, hy, hf⟩ := elem_dispatch ht 1 (Nat.le_refl _)
    have hform : ∀ X, (assignTargets (t :: ts') ++ rx 1 v) ++ X = rx 1 t ++ (sufToks (ts' ++ [v]) ++ X) := by
      intro X; rw [List.append_assoc]; exact assignTargets_eq t ts' v X
    refine ⟨fun r => by rw [hform, ht0, List.cons_append]; exact hsc _, fun rest => ?_⟩
    have hall : ∀ x ∈ ts' ++ [v], ElemOK P0 x := by
      intro x hx
      rcases List.mem_append.mp hx with h | h
      · exact hts x (List.mem_cons_of_mem _ h)
      · simp at h; subst h; exact hv
    obtain ⟨m, hm⟩ := suffixesRT (ts' ++ [v]) hall rest
    have hsuf : ∃ r', sufToks (ts' ++ [v]) ++ tNewline :: rest = .op .assign :: r' := by
      cases ts' <;> exact ⟨_, rfl⟩
    obtain ⟨r', hr'⟩ := hsuf
    obtain ⟨n, hn⟩ := evT_commaList1 ht endTok_assign ne_comma_assign r'
    refine ⟨max n m + 2, fun f hf' => ?_⟩
    obtain ⟨f1, rfl⟩ : ∃ f1, f = f1 + 2 := ⟨f - 2, by omega⟩
    have h1 := hn f1 (by omega)
    have h2 := hm f1 (by omega)
    simp only [] at h1 h2 ⊢
    rw [hform, hr']
    rw [hr'] at h2
    rw [ht0, List.cons_append] at h1 ⊢
    rw [parseSmall_plain htk hy hf, parseExprStmt_assign h1, h2]
    simp [genericList, assignOf_snoc]

theorem small_augAssign {t v : Expr} (o : BinOp) (ht : ElemOK P0 t) (hv : ElemOK P0 v) :
    SmallRT (.augAssign t o v) (rx 1 t ++ tAug o :: rx 1 v) := by
  obtain ⟨t0, tr, ht0, htk, hsc, hy, hf⟩ := elem_dispatch ht 1 (Nat.le_refl _)
  refine ⟨fun r => by rw [ht0]; exact hsc _, fun rest => ?_⟩
  obtain ⟨n, hn⟩ := evT_commaList1 ht (endTok_aug o) (by cases o <;> decide) (rx 1 v ++ tNewline :: rest)
  obtain ⟨m, hm⟩ := evT_testListOrYield hv endTok_newline ne_comma_newline rest
  refine ⟨max n m + 2, fun f hf' => ?_⟩
  obtain ⟨f1, rfl⟩ : ∃ f1, f = f1 + 2 := ⟨f - 2, by omega⟩
  have h1 := hn f1 (by omega)
  have h2 := hm f1 (by omega)
  simp only [] at h1 h2 ⊢
  simp only [List.append_assoc, List.cons_append]
  rw [ht0, List.cons_append] at h1 ⊢
  rw [parseSmall_plain htk hy hf, parseExprStmt_aug h1, h2]
  simp [genericList]

/-! ## annotated assignments -/

/-- `"=" TestListOrYieldExpr` or nothing, up to the NEWLINE -/
theorem annValue {a : Expr} (ha : GoodP P0 a) (v : Option Expr) (hv : ∀ x, v = some x → ElemOK P0 x) (rest : List Tok)
    (x : Expr) (b : Bool) :
    EvT (fun f =>
      (match parseTest f (rx 1 a ++ (optAssign v ++ tNewline :: rest)) with
       | some (ann, .op .assign :: r1) =>
         (match parseTestListOrYield f r1 with
          | some (w, r2) => some (Stmt.annAssign x ann (some w) b, r2)
          | none => none)
       | some (ann, r1) => some (.annAssign x ann none b, r1)
       | none => none)) (.annAssign x a v b, tNewline :: rest) := by
  cases v with
  | none =>
    obtain ⟨n, hn⟩ := evT_test ha endTok_newline rest
    refine ⟨n, fun f hf => ?_⟩
    have h1 := hn f hf
    simp only [] at h1 ⊢
    simp only [optAssign, List.nil_append, h1]
    simp [tNewline]
  | some w =>
    obtain ⟨n, hn⟩ := evT_test ha endTok_assign (rx 1 w ++ tNewline :: rest)
    obtain ⟨m, hm⟩ := evT_testListOrYield (hv w rfl) endTok_newline ne_comma_newline rest
    refine ⟨max n m, fun f hf => ?_⟩
    have h1 := hn f (by omega)
    have h2 := hm f (by omega)
    simp only [] at h1 h2 ⊢
    simp only [optAssign, tAssign, List.cons_append, List.append_assoc, h1, h2]

/-- a parenthesised name, as the one-element `TestList` in front of `:` -/
theorem commaList_paren_name (id : Ident) (rest : List Tok) :
    EvT (fun f => parseCommaList .testOrStar f (.op .lpar :: .name id :: .op .rpar :: .op .colon :: rest))
      (([.name id], false), .op .colon :: rest) := by
  have h0 : Parses parseTest ([.name id] ++ .op .rpar :: .op .colon :: rest) (.name id) (.op .rpar :: .op .colon :: rest) := by
    have := evT_test (good_name P0 id) endTok_rpar (.op .colon :: rest)
    simp only [rx, unparse, toks] at this
    exact this
  have h1 := parses_paren h0 ⟨_, _, rfl, rfl⟩ (by simp) rfl (lvl := 1) (Nat.le_refl _) (by omega)
    (Stop.cons (endTok_colon 1))
  rw [parseAt_1] at h1
  obtain ⟨n, hn⟩ := h1
  refine ⟨n + 2, fun f hf => ?_⟩
  obtain ⟨f1, rfl⟩ : ∃ f1, f = f1 + 2 := ⟨f - 2, by omega⟩
  have h2 := hn f1 (by omega)
  simp only [List.cons_append, List.nil_append] at h2
  simp [parseCommaList, parseElem, parseTestOrStar, h2]

theorem small_annAssign {t a : Expr} {v : Option Expr} {s : Bool} (ht : GoodP P0 t) (ha : GoodP P0 a)
    (hv : ∀ x, v = some x → ElemOK P0 x) (hs : s = true → isName t = true) :
    SmallRT (.annAssign t a v s) (annTargetToks t s ++ tColon :: (rx 1 a ++ optAssign v)) := by
  by_cases hp : (isName t && !s) = true
  · -- `(name): …`
    simp only [Bool.and_eq_true, Bool.not_eq_true'] at hp
    obtain ⟨hn, rfl⟩ := hp
    cases t with
    | name id =>
      have hform : annTargetToks (.name id) false = [.op .lpar, .name id, .op .rpar] := by
        simp [annTargetToks, isName, rx, unparse, toks]
      rw [hform]
      refine ⟨fun r => rfl, fun rest => ?_⟩
      obtain ⟨n, hn⟩ := commaList_paren_name id (rx 1 a ++ (optAssign v ++ tNewline :: rest))
      obtain ⟨m, hm⟩ := annValue ha v hv rest (.name id) false
      refine ⟨max n m + 2, fun f hf' => ?_⟩
      obtain ⟨f1, rfl⟩ : ∃ f1, f = f1 + 2 := ⟨f - 2, by omega⟩
      have h1 := hn f1 (by omega)
      have h2 := hm f1 (by omega)
      simp only [] at h1 h2 ⊢
      simp only [List.cons_append, List.nil_append, List.append_assoc, tColon]
      rw [parseSmall_plain (by rfl) (by simp) (by simp), parseExprStmt_ann rfl h1]
      simpa [isName, startsName] using h2
    | _ => simp [isName] at hn
  · have hform : annTargetToks t s = rx 1 t := by simp [annTargetToks, hp]
    rw [hform]
    obtain ⟨t0, tr, ht0, htk, hsc, hy, hf⟩ := elem_dispatch (.plain ht) 1 (Nat.le_refl _)
    refine ⟨fun r => by rw [ht0]; exact hsc _, fun rest => ?_⟩
    obtain ⟨n, hn⟩ := evT_commaList1 (.plain ht) endTok_colon (by decide) (rx 1 a ++ (optAssign v ++ tNewline :: rest))
    have hsimple : (isName t && startsName (rx 1 t ++ (tColon :: (rx 1 a ++ optAssign v) ++ tNewline :: rest))) = s := by
      cases t with
      | name id =>
        simp only [isName, Bool.true_and, Bool.not_eq_true'] at hp ⊢
        cases s with
        | true => simp [rx, unparse, toks, startsName]
        | false => simp at hp
      | _ =>
        cases s with
        | false => simp [isName]
        | true => simpa [isName] using hs rfl
    obtain ⟨m, hm⟩ := annValue ha v hv rest t s
    refine ⟨max n m + 2, fun f hf' => ?_⟩
    obtain ⟨f1, rfl⟩ : ∃ f1, f = f1 + 2 := ⟨f - 2, by omega⟩
    have h1 := hn f1 (by omega)
    have h2 := hm f1 (by omega)
    simp only [] at h1 h2 ⊢
    simp only [List.append_assoc, List.cons_append, tColon] at h1 hsimple ⊢
    rw [ht0, List.cons_append] at h1 hsimple ⊢
    rw [parseSmall_plain htk hy hf, parseExprStmt_ann ht.plain.ns h1, hsimple]
    exact h2

/-! ## assert, raise -/

/-- `(pre Test)?` -/
def optToks (pre : Tok) : Option Expr → List Tok
  | some x => pre :: rx 1 x
  | none => []

/-- the module of `from … import` -/
def modToks : Option Ident → List Tok
  | some nm => dottedToks nm
  | none => []

theorem small_assert {t : Expr} {m : Option Expr} (ht : GoodP P0 t) (hm : ∀ x, m = some x → GoodP P0 x) :
    SmallRT (.assert t m) (HK.tok .assert :: (rx 1 t ++ optToks tComma m)) :=
  ⟨fun r => startsCompound_hk (by decide) _, fun rest => by
    cases m with
    | none =>
      obtain ⟨n, hn⟩ := evT_test ht endTok_newline rest
      refine ⟨n + 1, fun f hf => ?_⟩
      obtain ⟨f1, rfl⟩ : ∃ f1, f = f1 + 1 := ⟨f - 1, by omega⟩
      have h1 := hn f1 (by omega)
      simp only [] at h1 ⊢
      simp only [optToks, List.cons_append, List.append_nil]
      rw [parseSmall_assert, h1]
      simp [tNewline]
    | some x =>
      obtain ⟨n, hn⟩ := evT_test ht endTok_comma (rx 1 x ++ tNewline :: rest)
      obtain ⟨k, hk⟩ := evT_test (hm x rfl) endTok_newline rest
      refine ⟨max n k + 1, fun f hf => ?_⟩
      obtain ⟨f1, rfl⟩ : ∃ f1, f = f1 + 1 := ⟨f - 1, by omega⟩
      have h1 := hn f1 (by omega)
      have h2 := hk f1 (by omega)
      simp only [] at h1 h2 ⊢
      simp only [optToks, List.cons_append, List.append_assoc, tComma]
      rw [parseSmall_assert, h1]
      simp only [h2]⟩

theorem small_raise_none : SmallRT (.raise none none) [HK.tok .raise] :=
  ⟨fun r => startsCompound_hk (by decide) _, fun rest => ⟨1, fun f hf => by
    obtain ⟨f1, rfl⟩ : ∃ f1, f = f1 + 1 := ⟨f - 1, by omega⟩
    simp only [List.cons_append, List.nil_append]
    rw [parseSmall_raise]
    simp [startsExpr_newline]⟩⟩

theorem small_raise {e : Expr} {c : Option Expr} (he : GoodP P0 e) (hc : ∀ x, c = some x → GoodP P0 x) :
    SmallRT (.raise (some e) c) (HK.tok .raise :: (rx 1 e ++ optToks (.kw .from) c)) :=
  ⟨fun r => startsCompound_hk (by decide) _, fun rest => by
    have hse : ∀ X, startsExpr (rx 1 e ++ X) = true := fun X => startsExpr_rx (.plain he) 1 (Nat.le_refl _) X
    cases c with
    | none =>
      obtain ⟨n, hn⟩ := evT_test he endTok_newline rest
      refine ⟨n + 1, fun f hf => ?_⟩
      obtain ⟨f1, rfl⟩ : ∃ f1, f = f1 + 1 := ⟨f - 1, by omega⟩
      have h1 := hn f1 (by omega)
      simp only [] at h1 ⊢
      simp only [optToks, List.cons_append, List.append_nil]
      rw [parseSmall_raise, hse, h1]
      simp [tNewline]
    | some x =>
      obtain ⟨n, hn⟩ := evT_test he endTok_from (rx 1 x ++ tNewline :: rest)
      obtain ⟨k, hk⟩ := evT_test (hc x rfl) endTok_newline rest
      refine ⟨max n k + 1, fun f hf => ?_⟩
      obtain ⟨f1, rfl⟩ : ∃ f1, f = f1 + 1 := ⟨f - 1, by omega⟩
      have h1 := hn f1 (by omega)
      have h2 := hk f1 (by omega)
      simp only [] at h1 h2 ⊢
      simp only [optToks, List.cons_append, List.append_assoc]
      rw [parseSmall_raise, hse, h1]
      simp only [if_true, h2]⟩

/-! ## global, nonlocal -/

theorem identsRT : (ns : List Ident) → ns ≠ [] → ∀ rest,
    EvT (fun f => parseIdents f (renderNames ns ++ tNewline :: rest)) (ns, tNewline :: rest)
  | [], h, _ => absurd rfl h
  | [n], _, rest => ⟨1, fun f hf => by
      obtain ⟨f1, rfl⟩ : ∃ f1, f = f1 + 1 := ⟨f - 1, by omega⟩
      simp [renderNames, sepBy, parseIdents, tNewline]⟩
  | n :: m :: r, _, rest => by
    obtain ⟨k, hk⟩ := identsRT (m :: r) (by simp) rest
    refine ⟨k + 1, fun f hf => ?_⟩
    obtain ⟨f1, rfl⟩ : ∃ f1, f = f1 + 1 := ⟨f - 1, by omega⟩
    have h1 := hk f1 (by omega)
    simp only [renderNames] at h1 ⊢
    simp only [List.map, sepBy_cons2, List.cons_append, List.nil_append, tComma, List.append_assoc] at h1 ⊢
    rw [parseIdents, h1]

theorem small_global {ns : List Ident} (hne : ns ≠ []) : SmallRT (.global ns) (HK.tok .global :: renderNames ns) :=
  ⟨fun r => startsCompound_hk (by decide) _, fun rest => by
    obtain ⟨n, hn⟩ := identsRT ns hne rest
    refine ⟨n + 1, fun f hf => ?_⟩
    obtain ⟨f1, rfl⟩ : ∃ f1, f = f1 + 1 := ⟨f - 1, by omega⟩
    have h1 := hn f1 (by omega)
    simp only [] at h1 ⊢
    simp only [List.cons_append]
    rw [parseSmall_global, h1]⟩

theorem small_nonlocal {ns : List Ident} (hne : ns ≠ []) : SmallRT (.nonlocal ns) (HK.tok .nonlocal :: renderNames ns) :=
  ⟨fun r => startsCompound_hk (by decide) _, fun rest => by
    obtain ⟨n, hn⟩ := identsRT ns hne rest
    refine ⟨n + 1, fun f hf => ?_⟩
    obtain ⟨f1, rfl⟩ : ∃ f1, f = f1 + 1 := ⟨f - 1, by omega⟩
    have h1 := hn f1 (by omega)
    simp only [] at h1 ⊢
    simp only [List.cons_append]
    rw [parseSmall_nonlocal, h1]⟩

/-! ## import -/

/-- the input does not go on with `.` -/
def NoDot : List Tok → Prop
  | .op .dot :: _ => False
  | _ => True

theorem dottedTail_stop (acc : Ident) (ts : List Tok) (h : NoDot ts) : dottedTail acc ts = some (acc, ts) := by
  unfold dottedTail
  split
  · simp [NoDot] at h
  · simp [NoDot] at h
  · rfl

/-- a dotted name printed as NAME and `.` tokens is joined back by `DottedName` -/
theorem dottedGo_spec : (r : List Nat) → (cur : Ident) → ∃ c0 tl, dottedGo cur r = .name c0 :: tl ∧
    ∀ (pre : Ident) (rest : List Tok), NoDot rest → dottedTail (pre ++ c0) (tl ++ rest) = some (pre ++ cur ++ r, rest)
  | [], cur => ⟨cur, [], rfl, fun pre rest h => by simpa using dottedTail_stop (pre ++ cur) rest h⟩
  | c :: r, cur => by
    by_cases hc : c = 46
    · subst hc
      obtain ⟨c1, tl1, h1, h2⟩ := dottedGo_spec r []
      refine ⟨cur, .op .dot :: .name c1 :: tl1, by simp [dottedGo, h1], fun pre rest hr => ?_⟩
      have := h2 (pre ++ cur ++ [46]) rest hr
      simp only [List.cons_append, dottedTail]
      simpa [List.append_assoc] using this
    · obtain ⟨c1, tl1, h1, h2⟩ := dottedGo_spec r (cur ++ [c])
      refine ⟨c1, tl1, by simp [dottedGo, hc, h1], fun pre rest hr => ?_⟩
      have := h2 pre rest hr
      simpa [List.append_assoc] using this

theorem dottedToks_spec (nm : Ident) : ∃ c0 tl, dottedToks nm = .name c0 :: tl ∧
    ∀ rest, NoDot rest → dottedTail c0 (tl ++ rest) = some (nm, rest) := by
  obtain ⟨c0, tl, h1, h2⟩ := dottedGo_spec nm []
  exact ⟨c0, tl, h1, fun rest hr => by simpa using h2 [] rest hr⟩

theorem parseAsOpt_none {c : Tok} (r : List Tok) (h : tk c ≠ .hk .as) : parseAsOpt (c :: r) = some (none, c :: r) := by
  unfold parseAsOpt
  split
  · rename_i heq; simp only [List.cons.injEq] at heq; obtain ⟨rfl, rfl⟩ := heq; simp [h]
  · rename_i heq; simp only [List.cons.injEq] at heq; obtain ⟨rfl, rfl⟩ := heq; simp [h]
  · rename_i heq; simp at heq

theorem parseAsOpt_some (n : Ident) (r : List Tok) : parseAsOpt (HK.tok .as :: .name n :: r) = some (some n, r) := by
  simp [parseAsOpt, tk_tok]

/-- `("as" NAME)?` followed by a token that is not `as` -/
theorem asOptRT (a : Option Ident) {c : Tok} (r : List Tok) (h : tk c ≠ .hk .as) :
    parseAsOpt (asToks a ++ c :: r) = some (a, c :: r) := by
  cases a with
  | none => exact parseAsOpt_none r h
  | some n => exact parseAsOpt_some n _

theorem noDot_asToks (a : Option Ident) {c : Tok} (r : List Tok) (h : c ≠ .op .dot) : NoDot (asToks a ++ c :: r) := by
  cases a with
  | none =>
    simp only [asToks, List.nil_append]
    unfold NoDot
    split
    · rename_i heq; simp only [List.cons.injEq] at heq; exact h heq.1
    · trivial
  | some n => simp [asToks, NoDot, HK.tok]

theorem tk_comma : tk (.op .comma) = .plain := rfl

theorem importNamesRT : (names : List Alias) → names ≠ [] → ∀ rest,
    EvT (fun f => parseImportNames f (sepBy tComma (names.map renderAliasDotted) ++ tNewline :: rest))
      (names, tNewline :: rest)
  | [], h, _ => absurd rfl h
  | [a], _, rest => by
    obtain ⟨c0, tl, h1, h2⟩ := dottedToks_spec a.name
    refine ⟨1, fun f hf => ?_⟩
    obtain ⟨f1, rfl⟩ : ∃ f1, f = f1 + 1 := ⟨f - 1, by omega⟩
    simp only [List.map, sepBy_one, renderAliasDotted, h1, List.cons_append, List.append_assoc]
    rw [parseImportNames, h2 _ (noDot_asToks a.asname rest (by decide))]
    simp only [asOptRT a.asname rest (by rw [tk_tNewline]; simp)]
    cases a
    simp [tNewline]
  | a :: b :: r, _, rest => by
    obtain ⟨c0, tl, h1, h2⟩ := dottedToks_spec a.name
    obtain ⟨k, hk⟩ := importNamesRT (b :: r) (by simp) rest
    refine ⟨k + 1, fun f hf => ?_⟩
    obtain ⟨f1, rfl⟩ : ∃ f1, f = f1 + 1 := ⟨f - 1, by omega⟩
    have h3 := hk f1 (by omega)
    simp only [] at h3 ⊢
    simp only [List.map, sepBy_cons2, renderAliasDotted, h1, List.cons_append, List.append_assoc, tComma] at h3 ⊢
    rw [parseImportNames, h2 _ (noDot_asToks a.asname _ (by decide))]
    simp only [asOptRT a.asname _ (by rw [tk_comma]; simp), h3]

theorem small_import {names : List Alias} (hne : names ≠ []) :
    SmallRT (.import names) (HK.tok .import :: sepBy tComma (names.map renderAliasDotted)) :=
  ⟨fun r => startsCompound_hk (by decide) _, fun rest => by
    obtain ⟨n, hn⟩ := importNamesRT names hne rest
    refine ⟨n + 1, fun f hf => ?_⟩
    obtain ⟨f1, rfl⟩ : ∃ f1, f = f1 + 1 := ⟨f - 1, by omega⟩
    have h1 := hn f1 (by omega)
    simp only [] at h1 ⊢
    simp only [List.cons_append]
    rw [parseSmall_import, h1]⟩

/-! ## from … import -/

/-- the input goes on with neither `.` nor `...` -/
def NoDots : List Tok → Prop
  | .op .dot :: _ => False
  | .op .ellipsis :: _ => False
  | _ => True

theorem importDots_stop (ts : List Tok) (h : NoDots ts) : importDots ts = (0, 0, ts) := by
  unfold importDots
  split
  · simp [NoDots] at h
  · simp [NoDots] at h
  · rfl

theorem importDots_dots (k : Nat) (ts : List Tok) (h : NoDots ts) :
    importDots (List.replicate k (.op .dot) ++ ts) = (k, k, ts) := by
  induction k with
  | zero => simpa using importDots_stop ts h
  | succ k ih => simp [List.replicate_succ, importDots, ih]

theorem importDots_level (lvl : Nat) (ts : List Tok) (h : NoDots ts) :
    importDots (levelToks lvl ++ ts) = (lvl, lvl / 3 + lvl % 3, ts) := by
  have : ∀ a b, importDots (List.replicate a (.op .ellipsis) ++ (List.replicate b (.op .dot) ++ ts)) = (3 * a + b, a + b, ts) := by
    intro a b
    induction a with
    | zero => simpa using importDots_dots b ts h
    | succ a ih =>
      simp only [List.replicate_succ, List.cons_append, importDots, ih]
      simp only [Prod.mk.injEq, and_true]
      omega
  unfold levelToks
  rw [List.append_assoc, this]
  simp only [Prod.mk.injEq, and_true]
  omega

theorem renderFromNames_star : renderFromNames [⟨[42], none⟩] = [.op .star] := rfl

theorem renderFromNames_plain (names : List Alias) (h : names ≠ [⟨[42], none⟩]) :
    renderFromNames names = sepBy tComma (names.map renderAliasPlain) := by
  unfold renderFromNames
  split
  · exact absurd rfl h
  · rfl

theorem fromNamesRT : (names : List Alias) → names ≠ [] → ∀ rest,
    EvT (fun f => parseFromNames false f (sepBy tComma (names.map renderAliasPlain) ++ tNewline :: rest))
      (names, tNewline :: rest)
  | [], h, _ => absurd rfl h
  | [a], _, rest => by
    refine ⟨1, fun f hf => ?_⟩
    obtain ⟨f1, rfl⟩ : ∃ f1, f = f1 + 1 := ⟨f - 1, by omega⟩
    simp only [List.map, sepBy_one, renderAliasPlain, List.cons_append]
    rw [parseFromNames, asOptRT a.asname rest (by rw [tk_tNewline]; simp)]
    cases a
    simp [tNewline]
  | a :: b :: r, _, rest => by
    obtain ⟨k, hk⟩ := fromNamesRT (b :: r) (by simp) rest
    refine ⟨k + 1, fun f hf => ?_⟩
    obtain ⟨f1, rfl⟩ : ∃ f1, f = f1 + 1 := ⟨f - 1, by omega⟩
    have h3 := hk f1 (by omega)
    simp only [] at h3 ⊢
    simp only [List.map, sepBy_cons2, List.cons_append, List.append_assoc, tComma] at h3 ⊢
    simp only [renderAliasPlain, List.cons_append] at h3 ⊢
    have : ∃ X, sepBy (Tok.op Op.comma) ((Tok.name b.name :: asToks b.asname) :: List.map renderAliasPlain r) ++
        tNewline :: rest = .name b.name :: X := by
      cases r <;> simp [sepBy]
    obtain ⟨X, hX⟩ := this
    rw [hX] at h3 ⊢
    rw [parseFromNames, asOptRT a.asname _ (by rw [tk_comma]; simp)]
    simp only [h3]

theorem importAsNamesRT (names : List Alias) (hne : names ≠ []) (rest : List Tok) :
    EvT (fun f => parseImportAsNames f (renderFromNames names ++ tNewline :: rest)) (names, tNewline :: rest) := by
  by_cases hs : names = [⟨[42], none⟩]
  · subst hs
    refine ⟨1, fun f hf => ?_⟩
    obtain ⟨f1, rfl⟩ : ∃ f1, f = f1 + 1 := ⟨f - 1, by omega⟩
    simp [renderFromNames_star, parseImportAsNames]
  · obtain ⟨n, hn⟩ := fromNamesRT names hne rest
    refine ⟨n + 1, fun f hf => ?_⟩
    obtain ⟨f1, rfl⟩ : ∃ f1, f = f1 + 1 := ⟨f - 1, by omega⟩
    have h1 := hn f1 (by omega)
    simp only [] at h1 ⊢
    rw [renderFromNames_plain names hs] at ⊢
    cases names with
    | nil => exact absurd rfl hne
    | cons a r =>
      have : ∃ X, sepBy tComma ((a :: r).map renderAliasPlain) ++ tNewline :: rest = .name a.name :: X := by
        cases r <;> simp [sepBy, renderAliasPlain]
      obtain ⟨X, hX⟩ := this
      rw [hX] at h1 ⊢
      rw [parseImportAsNames.eq_4]
      · exact h1
      · intro r' hh; cases hh
      · intro r' hh; cases hh

theorem small_importFrom {m : Option Ident} {names : List Alias} {lvl : Nat} (hne : names ≠ [])
    (hl : m.isSome = true ∨ 1 ≤ lvl) :
    SmallRT (.importFrom m names (some lvl))
      (.kw .from :: (levelToks lvl ++ (modToks m ++ HK.tok .import :: renderFromNames names))) :=
  ⟨fun r => rfl, fun rest => by
    obtain ⟨n, hn⟩ := importAsNamesRT names hne rest
    refine ⟨n + 2, fun f hf => ?_⟩
    obtain ⟨f1, rfl⟩ : ∃ f1, f = f1 + 2 := ⟨f - 2, by omega⟩
    have h1 := hn f1 (by omega)
    simp only [] at h1 ⊢
    simp only [List.cons_append, List.append_assoc]
    have hS : ∀ r, parseSmall (f1 + 2) (.kw .from :: r) = parseImportFrom (f1 + 1) r := by
      intro r; simp [parseSmall]
    rw [hS, parseImportFrom]
    cases m with
    | none =>
      simp only [modToks, List.nil_append]
      rw [importDots_level _ _ (by simp [NoDots, HK.tok])]
      have hl' : 1 ≤ lvl := by simpa using hl
      have : lvl / 3 + lvl % 3 ≠ 0 := by omega
      simp only [HK.tok] at h1 ⊢
      simp only [this, if_false, show tk (Tok.kw (Kw.other HK.import.text)) = TK.hk HK.import from tk_tok .import, if_true, h1]
    | some nm =>
      obtain ⟨c0, tl, h2, h3⟩ := dottedToks_spec nm
      simp only [modToks, h2, List.cons_append]
      rw [importDots_level _ _ (by simp [NoDots])]
      simp only [h3 _ (show NoDot (HK.tok .import :: _) by simp [NoDot, HK.tok]), tk_tok, if_true, h1]⟩

/-! ## type parameters -/

def fxTParam : TypeParam → Bool
  | .typeVar _ b => fxOpt b
  | _ => true

theorem fxTParams_cons (tp : TypeParam) (r : List TypeParam) : fxTParams (tp :: r) = (fxTParam tp && fxTParams r) := by
  cases tp <;> simp [fxTParams, fxTParam]

/-- first token of a type parameter -/
theorem renderTypeParam_head (tp : TypeParam) : ∃ t r, renderTypeParam tp = t :: r ∧ t ≠ .op .rsqb := by
  cases tp <;> exact ⟨_, _, rfl, by simp⟩

/-- the last type parameter, then `]` -/
theorem typeParam_last (tp : TypeParam) (h : fxTParam tp = true) (rest : List Tok) :
    EvT (fun f => parseTypeParams f (renderTypeParam tp ++ .op .rsqb :: rest)) ([tp], rest) := by
  cases tp with
  | typeVar n b =>
    cases b with
    | none =>
      refine ⟨1, fun f hf => ?_⟩
      obtain ⟨f1, rfl⟩ : ∃ f1, f = f1 + 1 := ⟨f - 1, by omega⟩
      simp [renderTypeParam, optColon, parseTypeParams]
    | some b =>
      obtain ⟨n1, hn1⟩ := evT_test (goodP_of_fx (by simpa [fxTParam, fxOpt] using h)) endTok_rsqb rest
      refine ⟨n1 + 1, fun f hf => ?_⟩
      obtain ⟨f1, rfl⟩ : ∃ f1, f = f1 + 1 := ⟨f - 1, by omega⟩
      have h1 := hn1 f1 (by omega)
      simp only [] at h1 ⊢
      simp only [renderTypeParam, optColon, tColon, List.cons_append]
      rw [parseTypeParams]
      simp only [h1]
  | paramSpec n =>
    refine ⟨1, fun f hf => ?_⟩
    obtain ⟨f1, rfl⟩ : ∃ f1, f = f1 + 1 := ⟨f - 1, by omega⟩
    simp [renderTypeParam, parseTypeParams]
  | typeVarTuple n =>
    refine ⟨1, fun f hf => ?_⟩
    obtain ⟨f1, rfl⟩ : ∃ f1, f = f1 + 1 := ⟨f - 1, by omega⟩
    simp [renderTypeParam, parseTypeParams]

/-- a type parameter, `,`, and more -/
theorem typeParam_more (tp : TypeParam) (h : fxTParam tp = true) (R : List Tok) (hR : ∀ r, R ≠ .op .rsqb :: r)
    (more : List TypeParam) (rest : List Tok) (hm : EvT (fun f => parseTypeParams f R) (more, rest)) :
    EvT (fun f => parseTypeParams f (renderTypeParam tp ++ .op .comma :: R)) (tp :: more, rest) := by
  obtain ⟨m, hm⟩ := hm
  cases tp with
  | typeVar n b =>
    cases b with
    | none =>
      refine ⟨m + 1, fun f hf => ?_⟩
      obtain ⟨f1, rfl⟩ : ∃ f1, f = f1 + 1 := ⟨f - 1, by omega⟩
      have h2 := hm f1 (by omega)
      simp only [] at h2 ⊢
      simp only [renderTypeParam, optColon, List.cons_append, List.nil_append]
      rw [parseTypeParams]
      · split
        · rename_i heq; simp at heq; exact absurd heq.2 (hR _)
        · rename_i heq; simp at heq; obtain ⟨rfl, rfl⟩ := heq; simp [h2]
        · rename_i heq; simp at heq
        · rename_i h1 h2 h3; exact absurd rfl (h2 _ _)
      all_goals (intro r hh; simp at hh)
    | some b =>
      obtain ⟨n1, hn1⟩ := evT_test (goodP_of_fx (by simpa [fxTParam, fxOpt] using h)) endTok_comma R
      refine ⟨max n1 m + 1, fun f hf => ?_⟩
      obtain ⟨f1, rfl⟩ : ∃ f1, f = f1 + 1 := ⟨f - 1, by omega⟩
      have h1 := hn1 f1 (by omega)
      have h2 := hm f1 (by omega)
      simp only [] at h1 h2 ⊢
      simp only [renderTypeParam, optColon, tColon, List.cons_append]
      rw [parseTypeParams]
      simp only [h1, h2]
  | paramSpec n =>
    refine ⟨m + 1, fun f hf => ?_⟩
    obtain ⟨f1, rfl⟩ : ∃ f1, f = f1 + 1 := ⟨f - 1, by omega⟩
    have h2 := hm f1 (by omega)
    simp only [] at h2 ⊢
    simp only [renderTypeParam, List.cons_append, List.nil_append]
    rw [parseTypeParams]
    split
    · rename_i heq; simp at heq; exact absurd heq.2 (hR _)
    · rename_i heq; simp at heq; obtain ⟨rfl, rfl⟩ := heq; simp [h2]
    · rename_i heq; simp at heq
    · rename_i h1 h2 h3; exact absurd rfl (h2 _ _)
  | typeVarTuple n =>
    refine ⟨m + 1, fun f hf => ?_⟩
    obtain ⟨f1, rfl⟩ : ∃ f1, f = f1 + 1 := ⟨f - 1, by omega⟩
    have h2 := hm f1 (by omega)
    simp only [] at h2 ⊢
    simp only [renderTypeParam, List.cons_append, List.nil_append]
    rw [parseTypeParams]
    split
    · rename_i heq; simp at heq; exact absurd heq.2 (hR _)
    · rename_i heq; simp at heq; obtain ⟨rfl, rfl⟩ := heq; simp [h2]
    · rename_i heq; simp at heq
    · rename_i h1 h2 h3; exact absurd rfl (h2 _ _)

theorem typeParamsRT : (tps : List TypeParam) → tps ≠ [] → fxTParams tps = true → ∀ rest,
    EvT (fun f => parseTypeParams f (sepBy tComma (tps.map renderTypeParam) ++ .op .rsqb :: rest)) (tps, rest)
  | [], h, _, _ => absurd rfl h
  | [tp], _, h, rest => by
    rw [fxTParams_cons] at h
    simp only [Bool.and_eq_true] at h
    simpa [sepBy] using typeParam_last tp h.1 rest
  | tp :: tp2 :: r, _, h, rest => by
    rw [fxTParams_cons] at h
    simp only [Bool.and_eq_true] at h
    have ih := typeParamsRT (tp2 :: r) (by simp) h.2 rest
    simp only [List.map, sepBy_cons2, List.append_assoc, List.cons_append, tComma] at ih ⊢
    refine typeParam_more tp h.1 _ ?_ (tp2 :: r) rest ih
    intro r' hh
    obtain ⟨t, tr, ht, hne⟩ := renderTypeParam_head tp2
    cases r with
    | nil => simp [sepBy, ht] at hh; exact hne hh.1
    | cons z zs => simp [sepBy, ht] at hh; exact hne hh.1

/-- `TypeParamList?` followed by a token that is not `[` -/
theorem typeParamsOptRT (tps : List TypeParam) (h : fxTParams tps = true) {c : Tok} (hc : c ≠ .op .lsqb)
    (rest : List Tok) :
    EvT (fun f => parseTypeParamsOpt f (renderTypeParams tps ++ c :: rest)) (tps, c :: rest) := by
  cases tps with
  | nil =>
    refine ⟨1, fun f hf => ?_⟩
    obtain ⟨f1, rfl⟩ : ∃ f1, f = f1 + 1 := ⟨f - 1, by omega⟩
    simp only [renderTypeParams, List.nil_append]
    rw [parseTypeParamsOpt.eq_3]
    intro r hh; cases hh; exact hc rfl
  | cons tp r =>
    obtain ⟨n, hn⟩ := typeParamsRT (tp :: r) (by simp) h (c :: rest)
    refine ⟨n + 1, fun f hf => ?_⟩
    obtain ⟨f1, rfl⟩ : ∃ f1, f = f1 + 1 := ⟨f - 1, by omega⟩
    have h1 := hn f1 (by omega)
    simp only [] at h1 ⊢
    simp only [renderTypeParams, List.cons_append, List.append_assoc, List.nil_append]
    rw [parseTypeParamsOpt]
    exact h1

theorem small_typeAlias {n : Ident} {tps : List TypeParam} {v : Expr} (htp : fxTParams tps = true) (hv : GoodP P0 v) :
    SmallRT (.typeAlias (.name n) tps v)
      (HK.tok .type :: (rx 1 (.name n) ++ (renderTypeParams tps ++ tAssign :: rx 1 v))) :=
  ⟨fun r => startsCompound_hk (by decide) _, fun rest => by
    obtain ⟨n1, hn1⟩ := typeParamsOptRT tps htp (c := .op .assign) (by decide) (rx 1 v ++ tNewline :: rest)
    obtain ⟨n2, hn2⟩ := evT_test hv endTok_newline rest
    refine ⟨max n1 n2 + 1, fun f hf => ?_⟩
    obtain ⟨f1, rfl⟩ : ∃ f1, f = f1 + 1 := ⟨f - 1, by omega⟩
    have h1 := hn1 f1 (by omega)
    have h2 := hn2 f1 (by omega)
    simp only [] at h1 h2 ⊢
    have : rx 1 (.name n) = [.name n] := by simp [rx, unparse, toks]
    simp only [this, List.cons_append, List.nil_append, List.append_assoc, tAssign]
    rw [parseSmall_type]
    simp only [h1, h2]⟩

end PV.Prog
