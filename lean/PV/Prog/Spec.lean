import PV.Prog.Parse
/-
  PV.Prog.Spec — the reference notions the theorems of `PV.Prog.Thm` compare the parser with (independent of the
  parser's control flow): the right-nested meaning of an `if` / `elif` / `else` chain, the number of dot characters in
  front of the module of a relative import, the domain of the expression/statement agreement, acceptance.
  Core Lean only.
-/
namespace PV.Prog
open PV.Expr PV.C11

/-- the reference meaning of `if t₁: b₁ elif t₂: b₂ … else: e`: nested to the right -/
def ifMeaning : List (Expr × List Stmt) → List Stmt → List Stmt
  | [], els => els
  | (t, b) :: cs, els => [.if t b (ifMeaning cs els)]

/-- `.` and `...` tokens -/
def isDotTok : Tok → Bool
  | .op .dot => true
  | .op .ellipsis => true
  | _ => false

/-- number of dot characters a dot token spells -/
def dotLen : Tok → Nat
  | .op .dot => 1
  | .op .ellipsis => 3
  | _ => 0

/-- the number of `.` CHARACTERS in the run of dot tokens at the front of the input -/
def dotChars (ts : List Tok) : Nat := ((ts.takeWhile isDotTok).map dotLen).sum

/-- `s` is an expression statement -/
def isExprStmt : Stmt → Bool
  | .expr _ => true
  | _ => false

/-- tokens with which something other than an expression statement starts: the first tokens of compound
    statements and of the keyword statements, and every token that is not an expression token at all -/
def stmtHead : Tok → Bool
  | .kw .if => true
  | .kw .for => true
  | .kw .async => true
  | .kw .yield => true
  | .kw .from => true
  | .op .at => true
  | .kw (.other _) => true
  | .op (.other _) => true
  | _ => false

/-- the mode accepts the token list with this result, for some (hence, by monotonicity, every larger) fuel -/
def AcceptsT (mode : Mode) (ts : List Tok) (m : Mod) : Prop := ∃ f, parseTopT mode f ts = some m

/-- the same on the parser's own alphabet -/
def Accepts (mode : Mode) (ts : List PTok) (m : Mod) : Prop := ∃ f, parseProgramFuel f mode ts = some m

/-- the domain of the agreement theorem: the tokens of ONE logical line in front of its NEWLINE — no NEWLINE and no
    `;` among them — that does not start with `yield` (a `yield` statement is not an expression: `YieldExpr` is
    only a `FlowStatement` and a parenthesised atom) -/
structure ExprLine (body : List Tok) : Prop where
  noNlSemi : ∀ t ∈ body, tk t ≠ .newline ∧ tk t ≠ .semi
  notYield : body.head? ≠ some (.kw .yield)

end PV.Prog
