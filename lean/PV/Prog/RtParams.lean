import PV.Prog.RtBase
/-
  PV.Prog.RtParams — the round trip through the printer, parameter lists of function definitions: the items
  `paramItems` writes (typed parameters with annotation and default, `/`, `*args` or the bare `*`, keyword-only
  parameters, `**kwargs`), separated by commas and closed by `)`, are read back by `parseParameters`.

  The proof follows the one for lambda parameter lists (`PV.C11.LemmasY`): `TItem` is an item, `TItem.step` what the
  loop `parseTypedParams` does to its accumulator and phase for one item (`item_then`), `typedRT` the induction over
  the items, `run_tItems` the run of the items of an `Arguments` from the empty accumulator.
-/
set_option linter.unusedSimpArgs false
namespace PV.Prog
open PV.Expr PV.C11

/-- what the fragment gives for an optional annotation (`star`: the annotation of `*args`) -/
def AnnOK (star : Bool) : Option Expr → Prop
  | none => True
  | some e => if star then ElemOK P0 e else GoodP P0 e

theorem evT_annOpt (star : Bool) (o : Option Expr) (ho : AnnOK star o) {c : Tok} (hc : EndTok c)
    (hcc : c ≠ .op .colon) (rest : List Tok) :
    EvT (fun f => parseAnnOpt star f (optColon o ++ c :: rest)) (o, c :: rest) := by
  cases o with
  | none =>
    refine ⟨1, fun f hf => ?_⟩
    obtain ⟨f1, rfl⟩ : ∃ f1, f = f1 + 1 := ⟨f - 1, by omega⟩
    simp only [optColon, List.nil_append]
    rw [parseAnnOpt.eq_3]
    intro r h
    simp only [List.cons.injEq] at h
    exact hcc h.1
  | some e =>
    cases star with
    | true =>
      obtain ⟨n, hn⟩ := evT_testOrStar (x := e) ho hc rest
      refine ⟨n + 1, fun f hf => ?_⟩
      obtain ⟨f1, rfl⟩ : ∃ f1, f = f1 + 1 := ⟨f - 1, by omega⟩
      have h1 := hn f1 (by omega)
      simp only [] at h1
      simp only [optColon, tColon, List.cons_append, parseAnnOpt, if_true, h1]
    | false =>
      obtain ⟨n, hn⟩ := evT_test (e := e) ho hc rest
      refine ⟨n + 1, fun f hf => ?_⟩
      obtain ⟨f1, rfl⟩ : ∃ f1, f = f1 + 1 := ⟨f - 1, by omega⟩
      have h1 := hn f1 (by omega)
      simp only [] at h1
      simp [optColon, tColon, List.cons_append, parseAnnOpt, h1]

theorem evT_defaultOpt (o : Option Expr) (ho : GoodOpt P0 o) {c : Tok} (hc : EndTok c)
    (hca : c ≠ .op .assign) (rest : List Tok) :
    EvT (fun f => parseDefaultOpt f (optAssign o ++ c :: rest)) (o, c :: rest) := by
  cases o with
  | none =>
    refine ⟨1, fun f hf => ?_⟩
    obtain ⟨f1, rfl⟩ : ∃ f1, f = f1 + 1 := ⟨f - 1, by omega⟩
    simp only [optAssign, List.nil_append]
    rw [parseDefaultOpt.eq_3]
    intro r h
    simp only [List.cons.injEq] at h
    exact hca h.1
  | some e =>
    obtain ⟨n, hn⟩ := evT_test (e := e) ho hc rest
    refine ⟨n + 1, fun f hf => ?_⟩
    obtain ⟨f1, rfl⟩ : ∃ f1, f = f1 + 1 := ⟨f - 1, by omega⟩
    have h1 := hn f1 (by omega)
    simp only [] at h1
    simp [optAssign, tAssign, List.cons_append, parseDefaultOpt, h1]


/-! ## one item of the list -/

/-- the `item` step inside `parseTypedParams` -/
def typedItem (f : Nat) (ts : List Tok) (ps : Arguments) (phase : Nat) : Option (Arguments × Nat × List Tok) :=
  match ts with
  | .name n :: r =>
    if phase ≤ 2 then
      (match parseAnnOpt false f r with
       | some (an, r1) =>
         (match parseDefaultOpt f r1 with
          | some (d, r2) =>
            let p : ArgWithDefault := ⟨⟨n, an⟩, d⟩
            if phase = 2 then some ({ ps with kwonly := ps.kwonly ++ [p] }, phase, r2)
            else some ({ ps with args := ps.args ++ [p] }, phase, r2)
          | none => none)
       | none => none)
    else none
  | .op .slash :: r =>
    if phase = 0 ∧ !ps.args.isEmpty then some ({ ps with posonly := ps.args, args := [] }, 1, r)
    else none
  | .op .star :: .name n :: r =>
    if phase ≤ 1 then
      (match parseAnnOpt true f r with
       | some (an, r1) => some ({ ps with vararg := some ⟨n, an⟩ }, 2, r1)
       | none => none)
    else none
  | .op .star :: r => if phase ≤ 1 then some (ps, 2, r) else none
  | .op .dstar :: .name n :: r =>
    if phase ≤ 2 then
      (match parseAnnOpt false f r with
       | some (an, r1) => some ({ ps with kwarg := some ⟨n, an⟩ }, 3, r1)
       | none => none)
    else none
  | .op .dstar :: r => if phase ≤ 2 then some (ps, 3, r) else none
  | _ => none

theorem parseTypedParams_succ (f : Nat) (ts : List Tok) (ps : Arguments) (phase : Nat) :
    parseTypedParams (f + 1) ts ps phase =
      match typedItem f ts ps phase with
      | none => none
      | some (ps', phase', r) =>
        match r with
        | .op .comma :: .op .rpar :: r2 => if bareStarOk ps' phase' then some (ps', r2) else none
        | .op .comma :: r2 => parseTypedParams f r2 ps' phase'
        | .op .rpar :: r2 => if bareStarOk ps' phase' then some (ps', r2) else none
        | _ => none := by
  rw [parseTypedParams.eq_def]; rfl


/-- an item of a typed parameter list -/
inductive TItem where
  | par (p : ArgWithDefault)
  | slash
  | star (v : Option Arg)
  | dstar (k : Arg)

def TItem.toks : TItem → List Tok
  | .par p => renderParam p
  | .slash => [.op .slash]
  | .star none => [.op .star]
  | .star (some v) => .op .star :: renderArg v
  | .dstar k => .op .dstar :: renderArg k

/-- what one item does to the collected parameters and the phase -/
def TItem.step : TItem → Arguments × Nat → Option (Arguments × Nat)
  | .par p, (ps, ph) =>
    if ph = 2 then some ({ ps with kwonly := ps.kwonly ++ [p] }, ph)
    else if ph ≤ 1 then some ({ ps with args := ps.args ++ [p] }, ph)
    else none
  | .slash, (ps, ph) =>
    if ph = 0 ∧ !ps.args.isEmpty then some ({ ps with posonly := ps.args, args := [] }, 1) else none
  | .star none, (ps, ph) => if ph ≤ 1 then some (ps, 2) else none
  | .star (some v), (ps, ph) => if ph ≤ 1 then some ({ ps with vararg := some v }, 2) else none
  | .dstar k, (ps, ph) => if ph ≤ 2 then some ({ ps with kwarg := some k }, 3) else none

def runItems : List TItem → Arguments × Nat → Option (Arguments × Nat)
  | [], s => some s
  | i :: is, s =>
    match i.step s with
    | some s' => runItems is s'
    | none => none

/-- what the fragment gives for the expressions of an item -/
def TItem.Good : TItem → Prop
  | .par p => AnnOK false p.arg.annotation ∧ GoodOpt P0 p.default
  | .slash => True
  | .star none => True
  | .star (some v) => AnnOK true v.annotation
  | .dstar k => AnnOK false k.annotation

/-- the first token of an item: a name, `/`, `*` or `**` -/
def itemHead (t : Tok) : Prop := (∃ n, t = .name n) ∨ t = .op .slash ∨ t = .op .star ∨ t = .op .dstar

theorem TItem.head (i : TItem) : ∃ t r, i.toks = t :: r ∧ itemHead t := by
  cases i with
  | par p => exact ⟨_, _, rfl, Or.inl ⟨_, rfl⟩⟩
  | slash => exact ⟨_, _, rfl, Or.inr (Or.inl rfl)⟩
  | star v => cases v <;> exact ⟨_, _, rfl, Or.inr (Or.inr (Or.inl rfl))⟩
  | dstar k => exact ⟨_, _, rfl, Or.inr (Or.inr (Or.inr rfl))⟩

/-- an item followed by `,` or `)` -/
theorem item_then (i : TItem) (hd : i.Good) (ps : Arguments) (ph : Nat) (ps' : Arguments) (ph' : Nat)
    (hs : i.step (ps, ph) = some (ps', ph')) {c : Tok} (hc : c = .op .comma ∨ c = .op .rpar) (K : List Tok) :
    EvT (fun f => typedItem f (i.toks ++ c :: K) ps ph) (ps', ph', c :: K) := by
  have hce : EndTok c := by rcases hc with rfl | rfl; exact endTok_comma; exact endTok_rpar
  have hcc : c ≠ .op .colon := by rcases hc with rfl | rfl <;> simp
  have hca : c ≠ .op .assign := by rcases hc with rfl | rfl <;> simp
  have hcn : ∀ n, c ≠ .name n := by rcases hc with rfl | rfl <;> simp
  cases i with
  | par p =>
    obtain ⟨⟨n, an⟩, d⟩ := p
    obtain ⟨han, hdd⟩ := hd
    simp only at han hdd
    obtain ⟨n2, hn2⟩ := evT_defaultOpt d hdd hce hca K
    have h1 : EvT (fun f => parseAnnOpt false f (optColon an ++ (optAssign d ++ c :: K))) (an, optAssign d ++ c :: K) := by
      cases d with
      | none => exact evT_annOpt false an han hce hcc K
      | some e => exact evT_annOpt false an han endTok_assign (by simp) _
    obtain ⟨n1, hn1⟩ := h1
    refine ⟨n1 + n2, fun f hf => ?_⟩
    have e1 := hn1 f (by omega)
    have e2 := hn2 f (by omega)
    simp only [] at e1 e2
    simp only [TItem.step] at hs
    simp only [TItem.toks, renderParam, renderArg, List.cons_append, List.append_assoc, typedItem, e1, e2]
    by_cases h2 : ph = 2
    · simp [h2] at hs; obtain ⟨rfl, rfl⟩ := hs
      simp [h2]
    · by_cases h1 : ph ≤ 1
      · simp [h2, h1] at hs; obtain ⟨rfl, rfl⟩ := hs
        have h3 : ph ≤ 2 := by omega
        simp [h2, h3]
      · simp [h2, h1] at hs
  | slash =>
    refine ⟨0, fun f _ => ?_⟩
    simp only [TItem.step] at hs
    split at hs
    · simp at hs; obtain ⟨rfl, rfl⟩ := hs
      rename_i hcnd
      simp only [TItem.toks, List.cons_append, List.nil_append, typedItem, hcnd, if_true]
      simp
    · simp at hs
  | star v =>
    cases v with
    | none =>
      refine ⟨0, fun f _ => ?_⟩
      simp only [TItem.step] at hs
      split at hs
      · rename_i hcnd
        simp at hs; obtain ⟨rfl, rfl⟩ := hs
        simp only [TItem.toks, List.cons_append, List.nil_append]
        rw [typedItem.eq_4]
        · simp [hcnd]
        · intro n r h; simp at h; exact hcn n h.1
      · simp at hs
    | some v =>
      obtain ⟨n, an⟩ := v
      obtain ⟨n1, hn1⟩ := evT_annOpt true an hd hce hcc K
      refine ⟨n1, fun f hf => ?_⟩
      have e1 := hn1 f hf
      simp only [] at e1
      simp only [TItem.step] at hs
      split at hs
      · rename_i hcnd
        simp at hs; obtain ⟨rfl, rfl⟩ := hs
        simp only [TItem.toks, renderArg, List.cons_append, typedItem, e1, hcnd, if_true]
      · simp at hs
  | dstar k =>
    obtain ⟨n, an⟩ := k
    obtain ⟨n1, hn1⟩ := evT_annOpt false an hd hce hcc K
    refine ⟨n1, fun f hf => ?_⟩
    have e1 := hn1 f hf
    simp only [] at e1
    simp only [TItem.step] at hs
    split at hs
    · rename_i hcnd
      simp at hs; obtain ⟨rfl, rfl⟩ := hs
      simp only [TItem.toks, renderArg, List.cons_append, typedItem, e1, hcnd, if_true]
    · simp at hs


/-! ## the loop -/

theorem itemHead_ne {t : Tok} (h : itemHead t) : t ≠ .op .rpar ∧ t ≠ .op .comma := by
  rcases h with ⟨n, rfl⟩ | rfl | rfl | rfl <;> simp

theorem sepBy_cons_cons (x y : List Tok) (r : List (List Tok)) :
    sepBy tComma (x :: y :: r) = x ++ .op .comma :: sepBy tComma (y :: r) := rfl

/-- a non-empty list of items begins with the first token of its first item -/
theorem sepBy_head (i : TItem) (is : List TItem) (rest : List Tok) :
    ∃ t r, sepBy tComma ((i :: is).map TItem.toks) ++ rest = t :: r ∧ itemHead t := by
  obtain ⟨t, r, ht, hh⟩ := i.head
  cases is with
  | nil => exact ⟨t, r ++ rest, by simp [sepBy, ht], hh⟩
  | cons j js => exact ⟨t, _, by simp only [List.map_cons, sepBy_cons_cons, ht, List.cons_append]; rfl, hh⟩

/-- the whole parameter list, up to and including the `)` -/
theorem typedRT : (its : List TItem) → (∀ i ∈ its, i.Good) → ∀ (ps : Arguments) (ph : Nat)
    (ps' : Arguments) (ph' : Nat) (rest : List Tok), its ≠ [] → runItems its (ps, ph) = some (ps', ph') →
    bareStarOk ps' ph' = true →
    EvT (fun f => parseTypedParams f (sepBy tComma (its.map TItem.toks) ++ .op .rpar :: rest) ps ph) (ps', rest)
  | [], _, _, _, _, _, _, hne, _, _ => absurd rfl hne
  | [i], hd, ps, ph, ps', ph', rest, _, hr, hb => by
    have hs : i.step (ps, ph) = some (ps', ph') := by
      simp only [runItems] at hr
      split at hr
      · rename_i s' hs'; simp at hr; rw [hs', hr]
      · simp at hr
    obtain ⟨n, hn⟩ := item_then i (hd i (List.mem_cons_self ..)) ps ph ps' ph' hs (Or.inr rfl) rest
    refine ⟨n + 1, fun fuel hf => ?_⟩
    obtain ⟨f, rfl⟩ : ∃ f, fuel = f + 1 := ⟨fuel - 1, by omega⟩
    have e := hn f (by omega)
    simp only [] at e
    simp only [List.map_cons, List.map_nil, sepBy, parseTypedParams_succ, e, hb, if_true]
  | i :: j :: js, hd, ps, ph, ps', ph', rest, _, hr, hb => by
    simp only [runItems] at hr
    split at hr
    · rename_i s1 hs1
      obtain ⟨ps1, ph1⟩ := s1
      obtain ⟨tj, rj, htj, hhj⟩ := sepBy_head j js (.op .rpar :: rest)
      obtain ⟨n1, hn1⟩ := item_then i (hd i (List.mem_cons_self ..)) ps ph ps1 ph1 hs1 (Or.inl rfl)
        (sepBy tComma ((j :: js).map TItem.toks) ++ .op .rpar :: rest)
      obtain ⟨n2, hn2⟩ := typedRT (j :: js) (fun k hk => hd k (List.mem_cons_of_mem _ hk)) ps1 ph1 ps' ph' rest
        (by simp) hr hb
      refine ⟨n1 + n2 + 1, fun fuel hf => ?_⟩
      obtain ⟨f, rfl⟩ : ∃ f, fuel = f + 1 := ⟨fuel - 1, by omega⟩
      have e1 := hn1 f (by omega)
      have e2 := hn2 f (by omega)
      simp only [] at e1 e2
      simp only [List.map_cons, sepBy_cons_cons, List.append_assoc, List.cons_append] at e1 ⊢
      rw [parseTypedParams_succ, e1]
      simp only [List.map_cons] at htj e2
      simp only [htj] at e2 ⊢
      split
      · rename_i heq; simp at heq; exact absurd heq.1 (itemHead_ne hhj).1
      · rename_i heq; simp at heq; obtain ⟨rfl, rfl, rfl⟩ := heq; exact e2
      · rename_i heq; simp at heq
      · rename_i h1 h2 h3; exact absurd rfl (h2 _)
    · simp at hr


/-! ## the items of an `Arguments` -/

/-- the items of a parameter list, in the order `paramItems` writes them -/
def tItems (a : Arguments) : List TItem :=
  a.posonly.map .par ++ (if a.posonly.isEmpty then [] else [.slash]) ++ a.args.map .par ++
  (match a.vararg with
   | some v => [.star (some v)]
   | none => if a.kwonly.isEmpty then [] else [.star none]) ++
  a.kwonly.map .par ++
  (match a.kwarg with
   | some k => [.dstar k]
   | none => [])

theorem paramItems_eq (a : Arguments) : paramItems a = (tItems a).map TItem.toks := by
  obtain ⟨po, ar, va, ko, kw⟩ := a
  simp only [paramItems, tItems, List.map_append, List.map_map]
  have hm : ∀ l : List ArgWithDefault, List.map (TItem.toks ∘ TItem.par) l = List.map renderParam l := fun l => rfl
  simp only [hm]
  cases va <;> cases kw <;> by_cases h1 : po.isEmpty <;> by_cases h2 : ko.isEmpty <;> simp [h1, h2, TItem.toks]

theorem runItems_append (a b : List TItem) (s : Arguments × Nat) :
    runItems (a ++ b) s = (runItems a s).bind (runItems b) := by
  induction a generalizing s with
  | nil => simp [runItems]
  | cons i is ih =>
    simp only [List.cons_append, runItems]
    cases i.step s with
    | none => simp
    | some s' => simp [ih]

theorem run_pars_args (as : List ArgWithDefault) (ps : Arguments) (ph : Nat) (h : ph ≤ 1) :
    runItems (as.map .par) (ps, ph) = some ({ ps with args := ps.args ++ as }, ph) := by
  induction as generalizing ps with
  | nil => simp [runItems]
  | cons a as ih =>
    have h2 : ph ≠ 2 := by omega
    simp [runItems, TItem.step, h2, h]
    have := ih { ps with args := ps.args ++ [a] }
    simp at this
    rw [this]

theorem run_pars_kw (as : List ArgWithDefault) (ps : Arguments) :
    runItems (as.map .par) (ps, 2) = some ({ ps with kwonly := ps.kwonly ++ as }, 2) := by
  induction as generalizing ps with
  | nil => simp [runItems]
  | cons a as ih =>
    simp [runItems, TItem.step]
    have := ih { ps with kwonly := ps.kwonly ++ [a] }
    simp at this
    rw [this]

/-- running the items of a parameter list from the empty state gives back its five fields, and the bare `*` is
    followed by a keyword-only parameter -/
theorem run_tItems (a : Arguments) :
    ∃ ph, runItems (tItems a) ({}, 0) = some (a, ph) ∧ bareStarOk a ph = true := by
  obtain ⟨po, ar, va, ko, kw⟩ := a
  have h1 : runItems (po.map .par ++ (if po.isEmpty then [] else [.slash]) ++ ar.map .par) ({}, 0) =
      some ({ posonly := po, args := ar }, if po.isEmpty then 0 else 1) := by
    cases po with
    | nil =>
      simp only [List.map_nil, List.isEmpty_nil, if_true, List.nil_append, List.append_nil]
      simpa using run_pars_args ar {} 0 (by omega)
    | cons a as =>
      rw [runItems_append, runItems_append, run_pars_args (a :: as) {} 0 (by omega)]
      simp [runItems, TItem.step]
      simpa using run_pars_args ar { posonly := a :: as, args := [] } 1 (by omega)
  have hph : (if po.isEmpty then 0 else 1) ≤ 1 := by split <;> omega
  generalize (if po.isEmpty then 0 else 1) = ph0 at h1 hph
  unfold tItems
  simp only
  rw [runItems_append, runItems_append, runItems_append, h1]
  simp only [Option.bind_some]
  cases va with
  | some v =>
    have h2 : runItems [TItem.star (some v)] ({ posonly := po, args := ar }, ph0) =
        some ({ posonly := po, args := ar, vararg := some v }, 2) := by simp [runItems, TItem.step, hph]
    simp only [h2, Option.bind_some, run_pars_kw, List.nil_append]
    cases kw with
    | none => exact ⟨2, by simp [runItems], by simp [bareStarOk]⟩
    | some k => exact ⟨3, by simp [runItems, TItem.step], by simp [bareStarOk]⟩
  | none =>
    by_cases hko : ko.isEmpty = true
    · have hko' : ko = [] := by simpa using hko
      subst hko'
      simp only [List.isEmpty_nil, if_true, List.map_nil, runItems, Option.bind_some]
      cases kw with
      | none => exact ⟨ph0, by simp [runItems], by simp [bareStarOk]; omega⟩
      | some k =>
        have : ph0 ≤ 2 := by omega
        exact ⟨3, by simp [runItems, TItem.step, this], by simp [bareStarOk]⟩
    · simp only [hko, if_false]
      have hko' : ko ≠ [] := by simpa using hko
      cases kw with
      | none => exact ⟨2, by simp [runItems, TItem.step, hph, run_pars_kw], by simp [bareStarOk, hko']⟩
      | some k => exact ⟨3, by simp [runItems, TItem.step, hph, run_pars_kw], by simp [bareStarOk]⟩


/-! ## from the fragment predicate -/

theorem annOK_of_fxOpt {o : Option Expr} (h : fxOpt o = true) : AnnOK false o := by
  cases o with
  | none => trivial
  | some e => exact goodP_of_fx (by simpa [fxOpt] using h)

theorem annOK_of_fxOptE {o : Option Expr} (h : fxOptE o = true) : AnnOK true o := by
  cases o with
  | none => trivial
  | some e => exact elemOK_of_fx (by simpa [fxOptE] using h)

theorem good_pars : (ps : List ArgWithDefault) → fxParamsT ps = true → ∀ i ∈ ps.map TItem.par, i.Good
  | [], _ => by simp
  | p :: r, h => by
    simp only [fxParamsT, Bool.and_eq_true] at h
    intro i hi
    rcases List.mem_cons.mp hi with rfl | hi'
    · exact ⟨annOK_of_fxOpt h.1.1, goodOpt_of_fx h.1.2⟩
    · exact good_pars r h.2 i hi'

theorem good_tItems (a : Arguments) (h : fxArguments a = true) : ∀ i ∈ tItems a, i.Good := by
  obtain ⟨po, ar, va, ko, kw⟩ := a
  simp only [fxArguments, Bool.and_eq_true] at h
  obtain ⟨⟨⟨⟨⟨⟨hpo, har⟩, hko⟩, hva⟩, hkw⟩, _⟩, _⟩ := h
  intro i hi
  simp only [tItems, List.mem_append] at hi
  rcases hi with ((((hi | hi) | hi) | hi) | hi) | hi
  · exact good_pars po hpo i hi
  · split at hi <;> simp at hi; subst hi; trivial
  · exact good_pars ar har i hi
  · cases va with
    | none => simp only at hi; split at hi <;> simp at hi; subst hi; trivial
    | some v => simp at hi; subst hi; exact annOK_of_fxOptE hva
  · exact good_pars ko hko i hi
  · cases kw with
    | none => simp at hi
    | some k => simp at hi; subst hi; exact annOK_of_fxOpt hkw

/-- the parameter list of the fragment, printed between the parentheses, is read back by `Parameters` -/
theorem rt_parameters (a : Arguments) (h : fxArguments a = true) (rest : List Tok) :
    EvT (fun f => parseParameters f (sepBy tComma (paramItems a) ++ .op .rpar :: rest)) (a, rest) := by
  obtain ⟨ph, hrun, hbare⟩ := run_tItems a
  have hvalid : (validPos (a.posonly ++ a.args) && validNames a) = true := by
    simp only [fxArguments, Bool.and_eq_true] at h ⊢
    exact ⟨h.1.2, h.2⟩
  rw [paramItems_eq]
  cases hits : tItems a with
  | nil =>
    rw [hits] at hrun
    simp only [runItems, Option.some.injEq, Prod.mk.injEq] at hrun
    refine ⟨1, fun fuel hf => ?_⟩
    obtain ⟨f, rfl⟩ : ∃ f, fuel = f + 1 := ⟨fuel - 1, by omega⟩
    simp only [List.map_nil, sepBy, List.nil_append, parseParameters, hrun.1]
  | cons i is =>
    obtain ⟨n, hn⟩ := typedRT (tItems a) (good_tItems a h) {} 0 a ph rest (by simp [hits]) hrun hbare
    obtain ⟨t, r, ht, hh⟩ := sepBy_head i is (.op .rpar :: rest)
    refine ⟨n + 1, fun fuel hf => ?_⟩
    obtain ⟨f, rfl⟩ : ∃ f, fuel = f + 1 := ⟨fuel - 1, by omega⟩
    have e := hn f (by omega)
    simp only [hits] at e
    simp only [ht] at e ⊢
    rw [parseParameters.eq_3]
    · simp only [e, hvalid, if_true]
    · intro r' hr'
      simp only [List.cons.injEq] at hr'
      exact (itemHead_ne hh).1 hr'.1


/-- non-vacuity: `def f(a, b=1, /, c: int = 2, *args: *Ts, d, e=3, **kw: T)` -/
def exArguments : Arguments :=
  { posonly := [⟨⟨[97], none⟩, none⟩, ⟨⟨[98], none⟩, some (.const (.int 1))⟩],
    args := [⟨⟨[99], some (.name [105, 110, 116])⟩, some (.const (.int 2))⟩],
    vararg := some ⟨[118], some (.starred (.name [84, 115]))⟩,
    kwonly := [⟨⟨[100], none⟩, none⟩, ⟨⟨[101], none⟩, some (.const (.int 3))⟩],
    kwarg := some ⟨[107], some (.name [84])⟩ }

example : fxArguments exArguments = true := by decide
example : parseParameters 80 (sepBy tComma (paramItems exArguments) ++ [.op .rpar]) = some (exArguments, []) := by rfl
example : ∃ n, ∀ f, n ≤ f →
    parseParameters f (sepBy tComma (paramItems exArguments) ++ [.op .rpar]) = some (exArguments, []) :=
  rt_parameters exArguments (by decide) []

/-- the bare `*` and the empty list: `def f(*, d)`, `def f()` -/
example : parseParameters 80 (sepBy tComma (paramItems { kwonly := [⟨⟨[100], none⟩, none⟩] }) ++ [.op .rpar]) =
    some ({ kwonly := [⟨⟨[100], none⟩, none⟩] }, []) := by rfl
example : parseParameters 80 (sepBy tComma (paramItems {}) ++ [.op .rpar]) = some ({}, []) := by rfl

end PV.Prog
