import PV.Prog.Lemmas
import PV.Prog.Render
import PV.C11.Thm
/-
  PV.Prog.RtBase — the round trip through the printer, expression positions: what the statement-level lemmas use of
  C11's induction over the extended fragment (`PV.C11.goodX`): an expression of the fragment, rendered at the level of
  its grammar position and followed by a token that cannot continue it, is read back by the function the statement
  parser calls at that position (`Test`, `NamedExpressionTest`, `TestOrStarExpr`, `TestOrStarNamedExpr`,
  `Expression`, `ExpressionOrStarExpression`, a one-element `TestList`).
-/
set_option linter.unusedSimpArgs false
namespace PV.Prog
open PV.Expr PV.C11

/-- `p` answers `some r` for every sufficiently large fuel -/
def EvT {β : Type} (p : Nat → Option β) (r : β) : Prop := ∃ n, ∀ f, n ≤ f → p f = some r

/-- the printable-character table of the printer (it only influences the text of f-string tokens, which are
    outside the fragment) -/
abbrev P0 : Nat → Bool := fun _ => true

theorem rx_eq (lvl : Nat) (e : Expr) : rx lvl e = toks (unparse P0 e lvl) := rfl
theorem renderExpr_eq (e : Expr) : renderExpr e = rx 1 e := rfl

/-! ## tokens that end an expression -/

/-- `c` continues an operand at no level -/
def EndTok (c : Tok) : Prop := ∀ lvl, contTok lvl c = false

theorem endTok_kwOther (s : List Nat) : EndTok (.kw (.other s)) := by
  intro lvl; simp [contTok, isTrailerStart, isStringTok, binLevelOf, isCmpStart]

theorem endTok_opOther (s : List Nat) : EndTok (.op (.other s)) := by
  intro lvl; simp [contTok, isTrailerStart, isStringTok, binLevelOf, isCmpStart, binOpOf]

theorem endTok_hk (k : HK) : EndTok k.tok := endTok_kwOther _
theorem endTok_newline : EndTok tNewline := endTok_opOther _
theorem endTok_aug (o : BinOp) : EndTok (tAug o) := endTok_opOther _
theorem endTok_arrow : EndTok tArrow := endTok_opOther _
theorem endTok_assign : EndTok (.op .assign) := by
  intro lvl; simp [contTok, isTrailerStart, isStringTok, binLevelOf, isCmpStart, binOpOf]
theorem endTok_colon : EndTok (.op .colon) := contTok_colon
theorem endTok_comma : EndTok (.op .comma) := contTok_comma
theorem endTok_rpar : EndTok (.op .rpar) := contTok_rpar
theorem endTok_rsqb : EndTok (.op .rsqb) := contTok_rsqb
theorem endTok_from : EndTok (.kw .from) := by
  intro lvl; simp [contTok, isTrailerStart, isStringTok, binLevelOf, isCmpStart]
theorem endTok_else : EndTok (.kw .else) := contTok_else

theorem tk_tok (k : HK) : tk k.tok = .hk k := by cases k <;> rfl
theorem tk_tIndent : tk tIndent = .indent := by decide
theorem tk_tDedent : tk tDedent = .dedent := by decide

theorem augOf_augText (o : BinOp) : augOf (augText o) = some o := by cases o <;> rfl
theorem tk_tAug (o : BinOp) : tk (tAug o) = .aug o := by cases o <;> rfl

/-! ## from the fragment predicate to C11's induction -/

theorem goodP_of_fx {e : Expr} (h : fx .plain e = true) : GoodP P0 e := goodX P0 e h

theorem elemOK_of_fx {e : Expr} (h : fx .elem e = true) : ElemOK P0 e :=
  elem_of P0 (esize e) (fun e' _ h' => goodX P0 e' h') e (Nat.le_refl _) h

theorem goodOpt_of_fx {o : Option Expr} (h : fxOpt o = true) : GoodOpt P0 o := by
  cases o with
  | none => trivial
  | some e => exact goodP_of_fx (by simpa [fxOpt] using h)

theorem elemsOK_of_fx : (es : List Expr) → fxList .elem es = true → ∀ x ∈ es, ElemOK P0 x
  | [], _ => by simp
  | e :: es, h => by
    simp only [fxList, Bool.and_eq_true] at h
    intro x hx
    rcases List.mem_cons.mp hx with rfl | hx'
    · exact elemOK_of_fx h.1
    · exact elemsOK_of_fx es h.2 x hx'

theorem goodKws_of_fx : (ks : List Keyword) → fxKeywords ks = true → GoodKws P0 ks
  | [], _ => trivial
  | .mk a v :: ks, h => by
    simp only [fxKeywords, Bool.and_eq_true] at h
    exact ⟨goodP_of_fx h.1, goodKws_of_fx ks h.2⟩

/-! ## first tokens -/

theorem goodP_head {e : Expr} (h : GoodP P0 e) (lvl : Nat) (h1 : 1 ≤ lvl) :
    ∃ t r, rx lvl e = t :: r ∧ goodHead lvl t = true := h.plain.head lvl h1

theorem elemOK_head {x : Expr} (h : ElemOK P0 x) (lvl : Nat) (h1 : 1 ≤ lvl) :
    ∃ t r, rx lvl x = t :: r ∧ (goodHead lvl t = true ∨ t = .op .star) := by
  cases h with
  | plain h =>
    obtain ⟨t, r, ht, hg⟩ := h.plain.head lvl h1
    exact ⟨t, r, ht, Or.inl hg⟩
  | star h => exact ⟨.op .star, _, toks_starred P0 _ lvl, Or.inr rfl⟩

theorem goodHead_le1 {lvl : Nat} {t : Tok} (h1 : 1 ≤ lvl) (h : goodHead lvl t = true) : goodHead 1 t = true :=
  goodHead_anti h1 h

theorem startsExpr_of_elemTok {t : Tok} (h : goodHead 1 t = true ∨ t = .op .star) (r : List Tok) :
    startsExpr (t :: r) = true := by
  rcases h with h | rfl
  · unfold goodHead at h
    split at h <;> simp_all [startsExpr]
  · rfl

theorem stmtHead_of_elemTok {t : Tok} (h : goodHead 1 t = true ∨ t = .op .star) : stmtHead t = false := by
  rcases h with h | rfl
  · unfold goodHead at h
    split at h <;> simp_all [stmtHead]
  · rfl

/-! ## `Test` -/

/-- an operand rendered at level 1 and followed by an ending token is read by `Test` -/
theorem evT_test {e : Expr} (he : GoodP P0 e) {c : Tok} (hc : EndTok c) (rest : List Tok) :
    EvT (fun f => parseTest f (rx 1 e ++ c :: rest)) (e, c :: rest) :=
  test_then P0 he hc rest

/-- `Expression` (level 6) -/
theorem evT_bin0 {e : Expr} (he : GoodP P0 e) {c : Tok} (hc : contTok 6 c = false) (rest : List Tok) :
    EvT (fun f => parseBin 0 f (rx 6 e ++ c :: rest)) (e, c :: rest) := by
  have h := he.good.rt 6 (c :: rest) (by omega) (by omega) (Stop.cons hc)
  rwa [parseAt_bin (k := 0) (by omega)] at h

/-- `NamedExpressionTest` on an operand (a named expression is rendered in parentheses at level 1) -/
theorem evT_namedTest {e : Expr} (he : GoodP P0 e) {c : Tok} (hc : EndTok c) (hcw : c ≠ .op .walrus)
    (hca : c ≠ .op .assign) (rest : List Tok) :
    EvT (fun f => parseNamedTest f (rx 1 e ++ c :: rest)) (e, c :: rest) := by
  obtain ⟨n, hn⟩ := evT_test he hc rest
  obtain ⟨t, r, ht, _⟩ := goodP_head he 1 (Nat.le_refl _)
  have hw := ((he.plain.nobind 1 (Nat.le_refl _)).append (he.plain.ne_nil 1 (Nat.le_refl _)) hcw hca rest).walrus
  refine ⟨n + 1, fun f hf => ?_⟩
  obtain ⟨f1, rfl⟩ : ∃ f1, f = f1 + 1 := ⟨f - 1, by omega⟩
  have h1 := hn f1 (by omega)
  simp only [] at h1 ⊢
  rw [rx_eq] at ht h1 ⊢
  rw [ht] at h1 hw ⊢
  exact namedTest_of_test h1 hw

/-- `TestOrStarExpr` -/
theorem evT_testOrStar {x : Expr} (hx : ElemOK P0 x) {c : Tok} (hc : EndTok c) (rest : List Tok) :
    EvT (fun f => parseTestOrStar f (rx 1 x ++ c :: rest)) (x, c :: rest) := by
  cases hx with
  | plain h =>
    obtain ⟨n, hn⟩ := evT_test h hc rest
    obtain ⟨t, r, ht, hg⟩ := goodP_head h 1 (Nat.le_refl _)
    refine ⟨n + 1, fun f hf => ?_⟩
    obtain ⟨f1, rfl⟩ : ∃ f1, f = f1 + 1 := ⟨f - 1, by omega⟩
    have h1 := hn f1 (by omega)
    simp only [] at h1 ⊢
    rw [ht] at h1 ⊢
    rw [List.cons_append] at h1 ⊢
    rw [parseTestOrStar.eq_3]
    · exact h1
    · intro r' hh
      cases hh
      simp [goodHead] at hg
  | star h =>
    rename_i v
    obtain ⟨n, hn⟩ := evT_bin0 h (hc 6) rest
    refine ⟨n + 1, fun f hf => ?_⟩
    obtain ⟨f1, rfl⟩ : ∃ f1, f = f1 + 1 := ⟨f - 1, by omega⟩
    have h1 := hn f1 (by omega)
    simp only [] at h1 ⊢
    rw [rx_eq, toks_starred, List.cons_append, parseTestOrStar]
    rw [rx_eq] at h1
    rw [h1]

/-- `ExpressionOrStarExpression` (level 6; a `Starred` is rendered alike at every level) -/
theorem evT_exprOrStar {x : Expr} (hx : ElemOK P0 x) {c : Tok} (hc : contTok 6 c = false) (rest : List Tok) :
    EvT (fun f => parseExprOrStar f (rx 6 x ++ c :: rest)) (x, c :: rest) := by
  cases hx with
  | plain h =>
    obtain ⟨n, hn⟩ := evT_bin0 h hc rest
    obtain ⟨t, r, ht, hg⟩ := goodP_head h 6 (by omega)
    refine ⟨n + 1, fun f hf => ?_⟩
    obtain ⟨f1, rfl⟩ : ∃ f1, f = f1 + 1 := ⟨f - 1, by omega⟩
    have h1 := hn f1 (by omega)
    simp only [] at h1 ⊢
    rw [ht] at h1 ⊢
    rw [List.cons_append] at h1 ⊢
    rw [parseExprOrStar.eq_3]
    · exact h1
    · intro r' hh
      cases hh
      simp [goodHead] at hg
  | star h =>
    rename_i v
    obtain ⟨n, hn⟩ := evT_bin0 h hc rest
    refine ⟨n + 1, fun f hf => ?_⟩
    obtain ⟨f1, rfl⟩ : ∃ f1, f = f1 + 1 := ⟨f - 1, by omega⟩
    have h1 := hn f1 (by omega)
    simp only [] at h1 ⊢
    rw [rx_eq, toks_starred, List.cons_append, parseExprOrStar]
    rw [rx_eq] at h1
    rw [h1]

/-- `TestOrStarNamedExpr` -/
theorem evT_starOrNamed {x : Expr} (hx : ElemOK P0 x) {c : Tok} (hc : EndTok c) (hcw : c ≠ .op .walrus)
    (hca : c ≠ .op .assign) (rest : List Tok) :
    EvT (fun f => parseStarOrNamed f (rx 1 x ++ c :: rest)) (x, c :: rest) :=
  elem_starOrNamed P0 hx hc hcw hca rest

/-! ## one-element lists -/

/-- `TestList` at statement level with ONE element: the element, no trailing comma -/
theorem evT_commaList1 {x : Expr} (hx : ElemOK P0 x) {c : Tok} (hc : EndTok c) (hcc : c ≠ .op .comma)
    (rest : List Tok) :
    EvT (fun f => parseCommaList .testOrStar f (rx 1 x ++ c :: rest)) (([x], false), c :: rest) := by
  obtain ⟨n, hn⟩ := evT_testOrStar hx hc rest
  refine ⟨n + 1, fun f hf => ?_⟩
  obtain ⟨f1, rfl⟩ : ∃ f1, f = f1 + 1 := ⟨f - 1, by omega⟩
  have h1 := hn f1 (by omega)
  simp only [] at h1 ⊢
  unfold parseCommaList
  simp only [parseElem, h1]
  split
  · rename_i heq; simp only [Option.some.injEq, Prod.mk.injEq, List.cons.injEq] at heq; exact absurd heq.2.1 hcc
  · rename_i heq; simp only [Option.some.injEq, Prod.mk.injEq] at heq; obtain ⟨rfl, rfl⟩ := heq; rfl
  · rename_i heq; simp at heq

/-- the same through `genericList` -/
theorem evT_testListS {x : Expr} (hx : ElemOK P0 x) {c : Tok} (hc : EndTok c) (hcc : c ≠ .op .comma)
    (rest : List Tok) : EvT (fun f => parseTestListS f (rx 1 x ++ c :: rest)) (x, c :: rest) := by
  obtain ⟨n, hn⟩ := evT_commaList1 hx hc hcc rest
  refine ⟨n, fun f hf => ?_⟩
  have h1 := hn f hf
  simp only [] at h1 ⊢
  simp [parseTestListS, h1, genericList]

/-- the subjects of `match` with ONE subject -/
theorem evT_subject1 {x : Expr} (hx : ElemOK P0 x) {c : Tok} (hc : EndTok c) (hcc : c ≠ .op .comma)
    (hcw : c ≠ .op .walrus) (hca : c ≠ .op .assign) (rest : List Tok) :
    EvT (fun f => parseCommaList .starOrNamed f (rx 1 x ++ c :: rest)) (([x], false), c :: rest) := by
  obtain ⟨n, hn⟩ := evT_starOrNamed hx hc hcw hca rest
  refine ⟨n + 1, fun f hf => ?_⟩
  obtain ⟨f1, rfl⟩ : ∃ f1, f = f1 + 1 := ⟨f - 1, by omega⟩
  have h1 := hn f1 (by omega)
  simp only [] at h1 ⊢
  unfold parseCommaList
  simp only [parseElem, h1]
  split
  · rename_i heq; simp only [Option.some.injEq, Prod.mk.injEq, List.cons.injEq] at heq; exact absurd heq.2.1 hcc
  · rename_i heq; simp only [Option.some.injEq, Prod.mk.injEq] at heq; obtain ⟨rfl, rfl⟩ := heq; rfl
  · rename_i heq; simp at heq

/-- `TestListOrYieldExpr`: a rendering never starts with the keyword `yield` (a `Yield` is the parenthesised atom) -/
theorem evT_testListOrYield {x : Expr} (hx : ElemOK P0 x) {c : Tok} (hc : EndTok c) (hcc : c ≠ .op .comma)
    (rest : List Tok) : EvT (fun f => parseTestListOrYield f (rx 1 x ++ c :: rest)) (x, c :: rest) := by
  obtain ⟨n, hn⟩ := evT_testListS hx hc hcc rest
  obtain ⟨t, r, ht, hg⟩ := elemOK_head hx 1 (Nat.le_refl _)
  refine ⟨n + 1, fun f hf => ?_⟩
  obtain ⟨f1, rfl⟩ : ∃ f1, f = f1 + 1 := ⟨f - 1, by omega⟩
  have h1 := hn f1 (by omega)
  simp only [] at h1 ⊢
  rw [ht, List.cons_append] at h1 ⊢
  rw [parseTestListOrYield.eq_3]
  · exact h1
  · intro r' hh
    cases hh
    rcases hg with hg | hg
    · simp [goodHead] at hg
    · cases hg

end PV.Prog
