import PV.Prog.Parse
/-
  PV.Prog.Thm — theorems about the reference parser for whole programs.
-/
namespace PV.Prog
open PV.Expr PV.C11

/-- **(b) The tree depends on the token kinds / values only, never on positions**: two spanned token streams
    with equal erasures have equal parses (in every mode).  Together with `PV.C08.lex_layout_invariant`
    (layout-equivalent texts have equal erased token streams) this is "layout never changes the tree" on the
    model. -/
theorem parseProgram_layout_free (mode : Mode) (a b : List STok) (h : eraseSpans a = eraseSpans b) :
    parseSpanned mode a = parseSpanned mode b := by
  unfold parseSpanned; rw [h]

example : parseSpanned .module [⟨.e (.name [120]), 0, 1⟩, ⟨.newline, 1, 2⟩]
    = parseSpanned .module [⟨.e (.name [120]), 4, 5⟩, ⟨.newline, 9, 11⟩] :=
  parseProgram_layout_free _ _ _ rfl

end PV.Prog
