import PV.Prog.Lemmas
import PV.Prog.RenderLemmas
/-
  PV.Prog.Thm — theorems about the reference parser for whole programs `PV.Prog.parseProgram`
  (lean/PV/Prog/Parse.lean; tied to the generated LR parser by the PROG correspondence streams).

  (a) `parseProgramFuel_mono`, `parseProgram_total`   fuel: the parser is a total function; an answer `some m` never
                                                      changes when more fuel is given (in particular for every fuel
                                                      above the driver's `fuelFor`)
  (b) `parseProgram_layout_free`                      the tree depends on token kinds / values only, never on positions
  (c) `parse_expr_stmt_agree`, `interactive_module_agree`
                                                      Expression mode and Module mode agree on one-expression lines (the
                                                      exceptions the grammar has are named, each with a witness);
                                                      Interactive mode = Module mode
  (d) `elif_chain_spec`, `import_level_spec`, `annassign_simple_spec` (+ `annassign_bare_name`, `annassign_paren_not_simple`), `match_subject_spec`
                                                      the hand-written action code at program level
  (e) `render_parse_partial`                          printing a program of the fragment `InFragmentP` (`PV.Prog.Render`: all 28
                                                      statement kinds, all 8 pattern kinds, over C11's `InFragmentX`) in
                                                      canonical layout and parsing it gives the program back
-/
namespace PV.Prog
open PV.Expr PV.C11

/-! ## (a) fuel -/

/-- **More fuel never changes an accepted answer.** -/
theorem parseProgramFuel_mono (mode : Mode) (ts : List PTok) (m : Mod) {f f' : Nat} (hle : f ≤ f')
    (h : parseProgramFuel f mode ts = some m) : parseProgramFuel f' mode ts = some m :=
  parseTopT_mono_le mode _ m hle h

/-- **`parseProgram` is a total function with an explicit fuel bound**, and its positive answers are stable: if it
    accepts with the tree `m` (using `fuelFor toks`), every larger fuel gives the same `some m`.  ("Never hangs" is a
    theorem of the model by construction: every function is structurally recursive on its fuel.) -/
theorem parseProgram_total (mode : Mode) (ts : List PTok) (m : Mod) (h : parseProgram mode ts = some m) :
    ∀ fuel, fuelFor (ts.map PTok.toTok) ≤ fuel → parseProgramFuel fuel mode ts = some m :=
  fun _ hle => parseProgramFuel_mono mode ts m hle h

/-- the other half, stated and NOT proved: `fuelFor` is always enough, i.e. a rejection is never an out-of-fuel
    artefact.  (Exercised by every request of the correspondence streams: the driver uses exactly `fuelFor`.) -/
def parseProgram_fuel_adequate_full : Prop :=
  ∀ (mode : Mode) (ts : List PTok) (fuel : Nat), fuelFor (ts.map PTok.toTok) ≤ fuel →
    parseProgramFuel fuel mode ts = parseProgram mode ts

/-- acceptance for SOME fuel is acceptance for every sufficiently large fuel -/
theorem accepts_iff_eventually (mode : Mode) (ts : List PTok) (m : Mod) :
    Accepts mode ts m ↔ ∃ n, ∀ f, n ≤ f → parseProgramFuel f mode ts = some m :=
  ⟨fun ⟨f, h⟩ => ⟨f, fun _ hle => parseProgramFuel_mono mode ts m hle h⟩, fun ⟨n, h⟩ => ⟨n, h n (Nat.le_refl n)⟩⟩

theorem accepts_of_parseProgram (mode : Mode) (ts : List PTok) (m : Mod) (h : parseProgram mode ts = some m) :
    Accepts mode ts m := ⟨_, h⟩

/-- `x = 1⏎`: accepted with 128 + 40·4 fuel, hence with any larger fuel -/
example : ∀ fuel, 288 ≤ fuel →
    parseProgramFuel fuel .module [.e (.name [120]), .e (.op .assign), .e (.int 1), .newline]
      = some (.module [.assign [.name [120]] (.const (.int 1))]) :=
  fun fuel h => parseProgram_total .module [.e (.name [120]), .e (.op .assign), .e (.int 1), .newline]
    (.module [.assign [.name [120]] (.const (.int 1))]) (by rfl) fuel h

/-! ## (b) positions do not matter -/

/-- **The tree depends on the token kinds / values only, never on positions**: two spanned token streams with equal
    erasures have equal parses (in every mode).  Together with `PV.C08.lex_layout_invariant` (layout-equivalent texts
    have equal erased token streams) this is "layout never changes the tree" on the model. -/
theorem parseProgram_layout_free (mode : Mode) (a b : List STok) (h : eraseSpans a = eraseSpans b) :
    parseSpanned mode a = parseSpanned mode b := by
  unfold parseSpanned; rw [h]

example : parseSpanned .module [⟨.e (.name [120]), 0, 1⟩, ⟨.newline, 1, 2⟩]
    = parseSpanned .module [⟨.e (.name [120]), 4, 5⟩, ⟨.newline, 9, 11⟩] :=
  parseProgram_layout_free _ _ _ rfl

/-! ## (c) entry points agree -/

/-- Tok-level form of the agreement (the statement on the parser's own alphabet follows) -/
theorem parse_expr_stmt_agreeT (body : List Tok) (e : Expr) (hd : ExprLine body) :
    AcceptsT .expression (body ++ [tNewline]) (.expression e) ↔
      AcceptsT .module (body ++ [tNewline]) (.module [.expr e]) := by
  constructor
  · -- expression mode ⇒ module mode
    rintro ⟨f, h⟩
    simp only [parseTopT, parseTestListS] at h
    cases hp : parseCommaList .testOrStar f (body ++ [tNewline]) with
    | none => simp [hp] at h
    | some x =>
      obtain ⟨l, rest⟩ := x
      simp only [hp] at h
      split at h
      · rename_i hall
        simp only [Option.some.injEq, Mod.expression.injEq] at h
        subst h
        -- the rest is exactly the NEWLINE
        have hl := parseCommaList_lastNL _ _ _ _ _ hp (lastNL_concat body)
        cases rest with
        | nil => simp [LastNL] at hl
        | cons t rest' =>
          have htk : tk t = .newline := by
            have := List.all_eq_true.mp hall t List.mem_cons_self
            simpa using this
          have hr := rest_is_newline hd hp (Or.inl htk)
          simp only [List.cons.injEq] at hr
          obtain ⟨rfl, rfl⟩ := hr
          -- the first token starts an expression
          cases body with
          | nil =>
            rw [List.nil_append, parseCommaList_none_of_stmtHead (by rfl)] at hp
            cases hp
          | cons b bs =>
            have hb : stmtHead b = false := by
              cases hsb : stmtHead b with
              | false => rfl
              | true => rw [List.cons_append, parseCommaList_none_of_stmtHead hsb] at hp; cases hp
            obtain ⟨h1, h2, h3, h4⟩ := dispatch_of_not_stmtHead hb (bs ++ [tNewline])
            refine ⟨f + 4, ?_⟩
            rw [List.cons_append] at hp ⊢
            have hE : parseExprStmt (f + 1) (b :: (bs ++ [tNewline])) = some (.expr (genericList l), [tNewline]) := by
              rw [parseExprStmt, hp]
              simp [tNewline, tk]
            have hS : parseSmall (f + 2) (b :: (bs ++ [tNewline])) = some (.expr (genericList l), [tNewline]) := by
              unfold parseSmall
              split <;> simp_all
            have hL : parseSimpleLine (f + 3) (b :: (bs ++ [tNewline])) = some ([.expr (genericList l)], []) := by
              rw [parseSimpleLine, hS]
              simp [tk_tNewline]
            simp [parseTopT, parseProgramBody, h1, h2, hL]
      · simp at h
  · -- module mode ⇒ expression mode
    rintro ⟨F, h⟩
    simp only [parseTopT] at h
    cases hp : parseProgramBody F (body ++ [tNewline]) with
    | none => simp [hp] at h
    | some ss =>
      simp only [hp, Option.some.injEq, Mod.module.injEq] at h
      subst h
      cases F with
      | zero => simp [parseProgramBody] at hp
      | succ F =>
        cases body with
        | nil =>
          -- only the NEWLINE: an empty program
          simp only [List.nil_append] at hp
          unfold parseProgramBody at hp
          simp only [tk_tNewline, if_true] at hp
          cases F <;> simp [parseProgramBody] at hp
        | cons b bs =>
          rw [List.cons_append] at hp
          have hbn : tk b ≠ .newline := (hd.noNlSemi b List.mem_cons_self).1
          have hby : b ≠ .kw .yield := by
            intro e; exact hd.notYield (by simp [e])
          unfold parseProgramBody at hp
          simp only [hbn, if_false] at hp
          split at hp
          · -- a compound statement is not an expression statement
            repeat' (first | split_any | (simp only [] at hp))
            all_goals (try (simp at hp; done))
            rename_i s r1 hc _ more hm
            simp only [Option.some.injEq, List.cons.injEq] at hp
            have := parseCompound_not_expr _ _ _ _ hc
            rw [hp.1] at this
            simp [isExprStmt] at this
          · repeat' (first | split_any | (simp only [] at hp))
            all_goals (try (simp at hp; done))
            rename_i sl r1 hl _ more hm
            simp only [Option.some.injEq] at hp
            have hne := parseSimpleLine_ne_nil _ _ _ _ hl
            have hsl : sl = [.expr e] := by
              cases sl with
              | nil => exact absurd rfl hne
              | cons a as =>
                simp only [List.cons_append, List.cons.injEq, List.append_eq_nil_iff] at hp
                rw [hp.1, hp.2.1]
            subst hsl
            obtain ⟨f1, t, rest, rfl, hsm, htk⟩ := parseSimpleLine_single _ _ _ _ hl
            obtain ⟨f2, rfl, hes⟩ := parseSmall_expr _ _ _ _ _ hsm (by rfl) hby
            obtain ⟨f3, l, rfl, hcl, he⟩ := parseExprStmt_expr _ _ _ _ hes (by rfl)
            simp only [Stmt.expr.injEq] at he
            subst he
            rw [← List.cons_append] at hcl
            have hr := rest_is_newline hd hcl htk
            refine ⟨f3, ?_⟩
            simp only [parseTopT, parseTestListS, hcl, hr]
            simp [tk_tNewline]


/-- **Expression mode and Module mode agree on one-expression lines**: for the tokens of one logical line
    (`ExprLine`: no NEWLINE, no `;`, not starting with `yield`) followed by its NEWLINE,
    Expression mode yields `Expression e` iff Module mode yields `Module [Expr e]`. -/
theorem parse_expr_stmt_agree (body : List PTok) (e : Expr) (hd : ExprLine (body.map PTok.toTok)) :
    Accepts .expression (body ++ [.newline]) (.expression e) ↔
      Accepts .module (body ++ [.newline]) (.module [.expr e]) := by
  have := parse_expr_stmt_agreeT (body.map PTok.toTok) e hd
  simpa [Accepts, AcceptsT, parseProgramFuel, PTok.toTok] using this

/-- `a + b⏎` is in the domain and is accepted both ways -/
example : ExprLine ([PTok.e (.name [97]), .e (.op .plus), .e (.name [98])].map PTok.toTok) :=
  ⟨by decide, by decide⟩
example : Accepts .expression ([.e (.name [97]), .e (.op .plus), .e (.name [98])] ++ [.newline])
    (.expression (.binOp (.name [97]) .add (.name [98]))) := ⟨64, by rfl⟩

/-- **Interactive mode is Module mode**: the same body, for every fuel -/
theorem interactive_module_agree (fuel : Nat) (ts : List PTok) (b : List Stmt) :
    parseProgramFuel fuel .interactive ts = some (.interactive b) ↔
      parseProgramFuel fuel .module ts = some (.module b) := by
  simp only [parseProgramFuel, parseTopT]
  cases parseProgramBody fuel (ts.map PTok.toTok) <;> simp

example : parseProgram .interactive [.e (.name [120]), .newline] = some (.interactive [.expr (.name [120])]) := by rfl

/-! the exceptions the grammar really has, each with a witness (`parseProgram` = the driver's fuel) -/

/-- `yield x⏎` is a statement (`FlowStatement`) but not an expression (`YieldExpr` is not a `Test`) -/
theorem yield_is_statement_only :
    parseProgram .module [.e (.kw .yield), .e (.name [120]), .newline] = some (.module [.expr (.yield (some (.name [120])))]) ∧
    parseProgram .expression [.e (.kw .yield), .e (.name [120]), .newline] = none := ⟨by rfl, by rfl⟩

/-- `x;⏎` is a statement line; Expression mode has no `;` -/
theorem semicolon_is_statement_only :
    parseProgram .module [.e (.name [120]), .e tSemi, .newline] = some (.module [.expr (.name [120])]) ∧
    parseProgram .expression [.e (.name [120]), .e tSemi, .newline] = none := ⟨by rfl, by rfl⟩

/-- empty lines may precede a statement, not an expression -/
theorem leading_newline_is_statement_only :
    parseProgram .module [.newline, .e (.name [120]), .newline] = some (.module [.expr (.name [120])]) ∧
    parseProgram .expression [.newline, .e (.name [120]), .newline] = none := ⟨by rfl, by rfl⟩

/-- a starred expression is NOT an exception: `*a⏎` is accepted both ways (`TestList` takes `StarExpr` at its top) -/
theorem starred_both_ways :
    parseProgram .expression [.e (.op .star), .e (.name [97]), .newline] = some (.expression (.starred (.name [97]))) ∧
    parseProgram .module [.e (.op .star), .e (.name [97]), .newline] = some (.module [.expr (.starred (.name [97]))]) :=
  ⟨by rfl, by rfl⟩

/-- an unparenthesised named expression is rejected both ways (`TestList` has no `NamedExpression`) -/
theorem walrus_neither_way :
    parseProgram .expression [.e (.name [97]), .e (.op .walrus), .e (.int 1), .newline] = none ∧
    parseProgram .module [.e (.name [97]), .e (.op .walrus), .e (.int 1), .newline] = none := ⟨by rfl, by rfl⟩

/-! ## (d) the hand-written action code at program level -/

/-- **elif chains**: whenever the parser reads an `if` statement off a token list, the clauses are the
    `NamedExpressionTest ":" Suite` groups it read in order and the node is the right-nested reference meaning. -/
theorem elif_chain_spec (f : Nat) (r : List Tok) (s : Stmt) (r' : List Tok)
    (h : parseCompound (f + 1) (.kw .if :: r) = some (s, r')) :
    ∃ test body clauses els r1 r2 r3,
      parseNamedTest f r = some (test, .op .colon :: r1) ∧ parseSuite f r1 = some (body, r2) ∧
      parseElifs f r2 = some (clauses, r3) ∧ parseElse f r3 = some (els, r') ∧
      [s] = ifMeaning ((test, body) :: clauses) (els.getD []) := by
  rw [parseCompound] at h
  repeat' (first | split_any | (simp only [] at h))
  all_goals (try (simp at h; done))
  simp only [Option.some.injEq, Prod.mk.injEq] at h
  obtain ⟨rfl, rfl⟩ := h
  rename_i test r1 h1 _ body r2 h2 _ s2 r3 h3 _ s3 r4 h4
  exact ⟨test, body, s2, s3, r1, r2, r3, h1, h2, h3, h4, ifAssemble_spec _ _ _ _⟩


/-- `if a: b⏎elif c: d⏎else: e⏎` -/
example : parseProgram .module
    [.e (.kw .if), .e (.name [97]), .e (.op .colon), .e (.name [98]), .newline,
     .e (HK.tok .elif), .e (.name [99]), .e (.op .colon), .e (.name [100]), .newline,
     .e (.kw .else), .e (.op .colon), .e (.name [101]), .newline]
    = some (.module (ifMeaning [(.name [97], [.expr (.name [98])]), (.name [99], [.expr (.name [100])])]
        [.expr (.name [101])])) := by rfl

/-- **import level**: whatever way the lexer cut the dots into `.` and `...` tokens, the `level` of the
    `ImportFrom` node is the number of dot characters in front of the module name -/
theorem import_level_spec (f : Nat) (ts : List Tok) (s : Stmt) (r : List Tok)
    (h : parseImportFrom f ts = some (s, r)) :
    ∃ m names, s = .importFrom m names (some (dotChars ts)) := by
  cases f with
  | zero => simp [parseImportFrom] at h
  | succ f =>
    rw [parseImportFrom, importDots_spec] at h
    repeat' (first | split_any | (simp only [] at h))
    all_goals (try (simp at h; done))
    all_goals (
      simp only [Option.some.injEq, Prod.mk.injEq] at *
      obtain ⟨rfl, _⟩ := h
      simp_all)

example : parseProgram .module
    [.e (.kw .from), .e (.op .ellipsis), .e (.op .dot), .e (.name [97]), .e (HK.tok .import), .e (.name [98]), .newline]
    = some (.module [.importFrom (some [97]) [⟨[98], none⟩] (some 4)]) := by rfl


/-- **`simple` of an annotated assignment** is `target.is_name_expr() && target.start() == location` (/repo fix
    "a parenthesised name is not a simple annotated-assignment target"): the TREE of the target is a `Name` and the
    statement starts with a NAME token, i.e. the name is not written in parentheses -/
theorem annassign_simple_spec (f : Nat) (ts : List Tok) (t a : Expr) (v : Option Expr) (s : Bool) (r : List Tok)
    (h : parseExprStmt f ts = some (.annAssign t a v s, r)) : s = (isName t && startsName ts) := by
  cases f with
  | zero => simp [parseExprStmt] at h
  | succ f =>
    rw [parseExprStmt] at h
    simp only [assignOf] at h
    repeat' (first | split_any | (simp only [] at h))
    all_goals (try (simp_all; done))
    all_goals (simp only [Option.some.injEq, Prod.mk.injEq, Stmt.annAssign.injEq] at h; obtain ⟨⟨rfl, _, _, rfl⟩, _⟩ := h; rfl)

/-- **a target written in parentheses is never `simple`** (the reference rule: `simple = 1` only for the
    alternative `NAME ':' expression`); before the /repo fix `(x): int` had `simple = true` (former finding
    `annassign-parenthesised-name-simple` of C01) -/
theorem annassign_paren_not_simple (f : Nat) (ts : List Tok) (t a : Expr) (v : Option Expr) (s : Bool) (r : List Tok)
    (h : parseExprStmt f (.op .lpar :: ts) = some (.annAssign t a v s, r)) : s = false := by
  rw [annassign_simple_spec f _ t a v s r h]; simp [startsName]

/-- **a bare NAME target gives `simple = true`**: whenever a statement that starts `NAME :` is read as an
    annotated assignment, its target is that name and `simple` is set -/
theorem annassign_bare_name (id : Ident) (r : List Tok) :
    ∃ n, ∀ f, n ≤ f → ∀ s r', parseExprStmt f (.name id :: .op .colon :: r) = some (s, r') →
      ∃ a v, s = .annAssign (.name id) a v true := by
  obtain ⟨n, hn⟩ := commaList_bare_name id r
  refine ⟨n + 1, fun f hf s r' h => ?_⟩
  obtain ⟨f1, rfl⟩ : ∃ f1, f = f1 + 1 := ⟨f - 1, by omega⟩
  rw [parseExprStmt, hn f1 (by omega)] at h
  simp only [isStarred, isName, startsName, Bool.and_self, Bool.false_eq_true, if_false] at h
  repeat' (first | split_any | (simp only [] at h))
  all_goals (try (simp_all; done))
  all_goals (simp only [Option.some.injEq, Prod.mk.injEq] at h; obtain ⟨rfl, _⟩ := h; exact ⟨_, _, rfl⟩)

/-- `x: int` — simple -/
example : parseProgram .module [.e (.name [120]), .e (.op .colon), .e (.name [105]), .newline]
    = some (.module [.annAssign (.name [120]) (.name [105]) none true]) := by rfl
/-- `x.y: int` — not simple -/
example : parseProgram .module [.e (.name [120]), .e (.op .dot), .e (.name [121]), .e (.op .colon), .e (.name [105]), .newline]
    = some (.module [.annAssign (.attribute (.name [120]) [121]) (.name [105]) none false]) := by rfl

/-- `(x): int` — not simple, as in CPython (regression example for the repaired finding; non-vacuity of
    `annassign_paren_not_simple`) -/
theorem annassign_paren_name_not_simple :
    parseProgram .module [.e (.op .lpar), .e (.name [120]), .e (.op .rpar), .e (.op .colon), .e (.name [105]), .newline]
    = some (.module [.annAssign (.name [120]) (.name [105]) none false]) := by rfl


/-- **the subject of a `match` statement** is `genericList` of the comma-separated subjects: the subject itself when
    there is one subject and no trailing comma, otherwise the tuple of the subjects (the reference rule; before the
    /repo fix of the second `MatchStatement` alternative `match x,:` had the bare `x` as subject) -/
theorem match_subject_spec (f : Nat) (t : Tok) (ts : List Tok) (subj : Expr) (cs : List MatchCase) (r : List Tok)
    (ht : tk t = .hk .match)
    (h : parseCompound (f + 1) (t :: ts) = some (.match subj cs, r)) :
    ∃ es tc rest, parseCommaList .starOrNamed f ts = some ((es, tc), rest) ∧ subj = genericList (es, tc) := by
  unfold parseCompound at h
  split at h
  all_goals (try (rename_i heq; simp only [List.cons.injEq] at heq; obtain ⟨rfl, _⟩ := heq; simp [tk] at ht; done))
  all_goals (try (simp at h; done))
  rename_i heq1 heq2
  simp only [List.cons.injEq] at heq2
  obtain ⟨rfl, rfl⟩ := heq2
  obtain rfl : f = _ := Nat.succ.inj heq1
  simp only [ht] at h
  split at h
  · split at h
    · split at h
      · simp only [Option.some.injEq, Prod.mk.injEq, Stmt.match.injEq] at h
        obtain ⟨⟨rfl, _⟩, _⟩ := h
        exact ⟨_, _, _, by assumption, rfl⟩
      · simp at h
    · simp at h
  · simp at h

/-- `match x,:⏎ case _: pass` -/
def matchCommaToks : List PTok :=
  [.e (HK.tok .match), .e (.name [120]), .e (.op .comma), .e (.op .colon), .newline, .indent,
   .e (HK.tok .case), .e (.name [95]), .e (.op .colon), .e (HK.tok .pass), .newline, .dedent]

/-- **`match x,:` has the one-element tuple as its subject** (former finding `match-subject-single-trailing-comma`
    of C01, repaired in /repo; regression example and non-vacuity of `match_subject_spec`) -/
theorem match_subject_trailing_comma :
    parseProgram .module matchCommaToks
      = some (.module [.match (.tuple [.name [120]]) [.mk (.matchAs none none) none [.pass]]]) := by rfl

/-- `match x:` — the subject itself -/
example : parseProgram .module (matchCommaToks.filter (· != .e (.op .comma)))
      = some (.module [.match (.name [120]) [.mk (.matchAs none none) none [.pass]]]) := by rfl


/-! ## (e) print, then parse -/

/-- **Round trip through the printer, on the fragment `InFragmentP`** (`inFragM`, lean/PV/Prog/Render.lean): for a
    module / interactive body made of ANY of the 28 statement kinds — simple statements (expression statements,
    assignments with several targets, augmented and annotated assignments, `del`, `assert`, `raise`, `global`,
    `nonlocal`, `import`, `from … import`, `type` aliases, `pass` / `break` / `continue` / `return`), `if` / `while` /
    `for` / `async for` with `else`, `try` and `try*` with handlers, `else` and `finally`, `with` / `async with`,
    function and class definitions with decorators, type parameters, every parameter kind with annotations and
    defaults, `match` with every pattern kind and guards — nested arbitrarily, over C11's extended expression
    fragment `InFragmentX` (`fx`: starred elements, keyword arguments, slices, lambda, comprehensions, named
    expressions, `yield`), or an expression (list element) of that fragment in Expression mode: the rendering in
    canonical layout is accepted (by every sufficiently large fuel) and parses back to the same tree.

    The side conditions of `inFragM` beyond "expressions in `fx`" are conditions every parser-built tree satisfies
    (non-empty bodies / target lists / name lists / case lists; `validate_pos_params`, `validate_arguments`, no repeated
    keyword; a handler name needs a type and the handlers of `try*` have types; `simple` only for a `Name` target; `_` is
    never a capture name; the shapes of `MatchValue` / `MatchSingleton` / mapping-key expressions; equal lengths of
    the parallel lists of `MatchMapping` / `MatchClass`; an `ImportFrom` has a level and a module or a dot). -/
theorem render_parse_partial (m : Mod) (h : inFragM m = true) : Accepts (modeOf m) (render m) m := by
  cases m with
  | module ss =>
    obtain ⟨n, hn⟩ := progRT ss h
    refine ⟨n, ?_⟩
    have h1 := hn n (Nat.le_refl n)
    simp only [] at h1
    simp only [modeOf, render, parseProgramFuel, map_toTok_ofTok, parseTopT, h1]
  | interactive ss =>
    obtain ⟨n, hn⟩ := progRT ss h
    refine ⟨n, ?_⟩
    have h1 := hn n (Nat.le_refl n)
    simp only [] at h1
    simp only [modeOf, render, parseProgramFuel, map_toTok_ofTok, parseTopT, h1]
  | expression e =>
    obtain ⟨n, hn⟩ := evT_commaList1 (elemOK_of_fx h) endTok_newline ne_comma_newline []
    refine ⟨n, ?_⟩
    have h1 := hn n (Nat.le_refl n)
    simp only [] at h1
    simp only [modeOf, render, parseProgramFuel, map_toTok_ofTok, parseTopT, parseTestListS, renderExpr_eq, h1]
    simp [genericList, tk_tNewline]

/-- the same, with the fragment as a (decidable) proposition and the conclusion for every sufficiently large fuel:
    **every program of the fragment has a text (token sequence) that parses back to it** -/
theorem render_parse_partial_ev (m : Mod) (h : InFragmentP m) :
    ∃ n, ∀ f, n ≤ f → parseProgramFuel f (modeOf m) (render m) = some m :=
  (accepts_iff_eventually _ _ _).mp (render_parse_partial m h)

/-- the fragment contains the old one: statements over the operator core `InFragment` of C11 -/
theorem inFragment_core_sub (e : Expr) (h : InFragment e) : inFragM (.expression e) = true := by
  have h1 : fx .plain e = true := inFrag_fx e h
  cases e with
  | yield v => cases v <;> simp_all [inFragM, fx]
  | _ => simp_all [inFragM, fx, XPos.notTarget, XPos.tupleElem]

/-- the full statement, NOT proved: every tree the parser can produce is read back from its rendering.
    What is outside `InFragmentP` although the parser can produce it:
    * every tree that contains an f-string (`JoinedStr` / `FormattedValue`) anywhere — outside C11's `InFragmentX`
      (their round trip is not a token-level statement, see design/C11.md), in particular f-strings as `MatchValue`
      patterns / mapping keys;
    * every tree with a comprehension whose target is not an `Expression`-level operand (`[x for (a if b else c) in y]`;
      likewise a parenthesised lambda / `and` / `or` / `not` / comparison / named expression as a comprehension target or as
      an element of its bare tuple) — excluded by `fx .target` of C11: unparse.rs writes comprehension targets without
      parentheses, and that rendering does not re-parse (statement-level `for` / `with` / `del` targets are inside: the
      printer writes them at `Expression` level).
    Everything else the grammar can build is inside; trees the grammar can NOT build are outside by the side
    conditions listed at `render_parse_partial` (for them the statement is vacuous or false: e.g. an empty body has
    no text at all). -/
def render_parse_full : Prop :=
  ∀ (m : Mod), (∃ ts, Accepts (modeOf m) ts m) → Accepts (modeOf m) (render m) m

/-- `while a:⏎ if b:⏎  return c⏎ else:⏎  break⏎x⏎` -/
def sampleProgram : Mod :=
  .module [.while (.name [97]) [.if (.name [98]) [.return (some (.name [99]))] [.break]] [], .expr (.name [120])]

example : inFragM sampleProgram = true := by decide
example : parseProgram .module (render sampleProgram) = some sampleProgram := by rfl

/-- simple statements, nested in a `for … else`:
    `for (i, *r) in xs:⏎ a = (b, c) = (yield)⏎ x.y += f(*z, k=1)⏎ (t): int = 1⏎ u: int⏎ del p[0], q.r⏎ assert a, m⏎
     raise E from None⏎ global g, h⏎ import a.b as c, d⏎ from ...m.n import (p as q), r⏎ from . import *⏎ type T[A: int, *B, **C] = A⏎ *s⏎else:⏎ nonlocal v⏎ raise⏎` -/
def sampleSimple : Mod :=
  .module [.for (.tuple [.name [105], .starred (.name [114])]) (.name [120, 115])
    [.assign [.name [97], .tuple [.name [98], .name [99]]] (.yield none),
     .augAssign (.attribute (.name [120]) [121]) .add
       (.call (.name [102]) [.starred (.name [122])] [.mk (some [107]) (.const (.int 1))]),
     .annAssign (.name [116]) (.name [105, 110, 116]) (some (.const (.int 1))) false,
     .annAssign (.name [117]) (.name [105, 110, 116]) none true,
     .delete [.subscript (.name [112]) (.const (.int 0)), .attribute (.name [113]) [114]],
     .assert (.name [97]) (some (.name [109])),
     .raise (some (.name [69])) (some (.const .none)),
     .global [[103], [104]],
     .import [⟨[97, 46, 98], some [99]⟩, ⟨[100], none⟩],
     .importFrom (some [109, 46, 110]) [⟨[112], some [113]⟩, ⟨[114], none⟩] (some 3),
     .importFrom none [⟨[42], none⟩] (some 1),
     .typeAlias (.name [84]) [.typeVar [65] (some (.name [105, 110, 116])), .typeVarTuple [66], .paramSpec [67]] (.name [65]),
     .expr (.starred (.name [115]))]
    [.nonlocal [[118]], .raise none none]]

example : inFragM sampleSimple = true := by decide
set_option maxRecDepth 20000 in
example : parseProgram .module (render sampleSimple) = some sampleSimple := by rfl

/-- compound statements:
    `@d⏎async def f[T](a, b=1, /, c: int = 2, *args: *Ts, d, e=3, **kw: T) -> R:⏎ try:⏎  with (open(p) as q, r):⏎   pass⏎
     except E as e:⏎  pass⏎ except:⏎  pass⏎ else:⏎  async with (s):⏎   continue⏎ finally:⏎  try:⏎   async for x in y:⏎    break⏎  except* (A, B):⏎   pass⏎
    @e⏎class C[U](B, metaclass=M):⏎ def g(): ⏎  try:⏎   pass⏎  finally:⏎   return⏎` -/
def sampleCompound : Mod :=
  .module
    [.asyncFunctionDef [102]
      { posonly := [⟨⟨[97], none⟩, none⟩, ⟨⟨[98], none⟩, some (.const (.int 1))⟩],
        args := [⟨⟨[99], some (.name [105, 110, 116])⟩, some (.const (.int 2))⟩],
        vararg := some ⟨[97, 114, 103, 115], some (.starred (.name [84, 115]))⟩,
        kwonly := [⟨⟨[100], none⟩, none⟩, ⟨⟨[101], none⟩, some (.const (.int 3))⟩],
        kwarg := some ⟨[107, 119], some (.name [84])⟩ }
      [.try
        [.with [⟨.call (.name [111, 112, 101, 110]) [.name [112]] [], some (.name [113])⟩, ⟨.name [114], none⟩] [.pass]]
        [.mk (some (.name [69])) (some [101]) [.pass], .mk none none [.pass]]
        [.asyncWith [⟨.name [115], none⟩] [.continue]]
        [.tryStar [.asyncFor (.name [120]) (.name [121]) [.break] []]
           [.mk (some (.tuple [.name [65], .name [66]])) none [.pass]] [] []]]
      [.name [100]] (some (.name [82])) [.typeVar [84] none],
     .classDef [67] [.name [66]] [.mk (some [109, 101, 116, 97, 99, 108, 97, 115, 115]) (.name [77])]
      [.functionDef [103] {} [.try [.pass] [] [] [.return none]] [] none []]
      [.name [101]] [.typeVar [85] none]]

example : inFragM sampleCompound = true := by decide
set_option maxRecDepth 20000 in
example : parseProgram .module (render sampleCompound) = some sampleCompound := by rfl

/-- `match (x, y):⏎ case m.P(a, [*r, -1+2j], y=n.K | None as z) if g:⏎  pass⏎ case {"k": _, True: *_, **kw}:⏎  match z:⏎   case (1 | 2) as w:⏎    pass⏎` -/
def sampleMatch : Mod :=
  .interactive
    [.match (.tuple [.name [120], .name [121]])
      [.mk (.matchClass (.attribute (.name [109]) [80])
              [.matchAs none (some [97]),
               .matchSequence [.matchStar (some [114]),
                 .matchValue (.binOp (.unaryOp .uSub (.const (.int 1))) .add (.const (.imag 0x4000000000000000)))]]
              [[121]]
              [.matchAs (some (.matchOr [.matchValue (.attribute (.name [110]) [75]), .matchSingleton .none])) (some [122])])
           (some (.name [103])) [.pass],
       .mk (.matchMapping [.const (.str [107] false), .const (.bool true)] [.matchAs none none, .matchStar none] (some [107, 119]))
           none
           [.match (.name [122])
             [.mk (.matchAs (some (.matchOr [.matchValue (.const (.int 1)), .matchValue (.const (.int 2))])) (some [119]))
                none [.pass]]]]]

example : inFragM sampleMatch = true := by decide
example : parseProgram .interactive (render sampleMatch) = some sampleMatch := by rfl

/-- Expression mode: `*f(x for x in y)[a:b, ::c]` (a starred element of the extended fragment) -/
def sampleExpression : Mod :=
  .expression (.starred (.subscript (.call (.name [102]) [.genExp (.name [120]) [.mk (.name [120]) (.name [121]) [] false]] [])
    (.tuple [.slice (some (.name [97])) (some (.name [98])) none, .slice none none (some (.name [99]))])))

example : inFragM sampleExpression = true := by decide
example : parseProgram .expression (render sampleExpression) = some sampleExpression := by rfl
example : InFragmentP sampleCompound := by decide

end PV.Prog
