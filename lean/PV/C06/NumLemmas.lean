import PV.C06.Lemmas
/-
  C06 — helper lemmas about the number scanner (`radix_run`, `lex_number_radix`,
  `lex_normal_number`).
-/
namespace PV.C06
open Spec

theorem not_digit_95 (r : Radix) : isDigitOfRadix r 95 = false := by cases r <;> decide

theorem radixRun_split (r : Radix) : ∀ cs : List Nat, ∃ pre, cs = pre ++ (radixRun r cs).2 ∧
    (radixRun r cs).1 = pre.filter (· ≠ 95) ∧ (∀ x ∈ pre, isDigitOfRadix r x = true ∨ x = 95) ∧
    (∀ x ∈ (radixRun r cs).1, isDigitOfRadix r x = true) := by
  intro cs
  induction cs with
  | nil => exact ⟨[], by simp [radixRun]⟩
  | cons c cs ih =>
    obtain ⟨pre, h1, h2, h3, h4⟩ := ih
    unfold radixRun
    by_cases hd : isDigitOfRadix r c = true
    · have hc : c ≠ 95 := fun h => by rw [h, not_digit_95] at hd; cases hd
      refine ⟨c :: pre, ?_⟩
      simp only [hd, if_true]
      refine ⟨by simp; exact h1, by simp [hc, h2], ?_, ?_⟩
      · intro x hx; simp at hx; rcases hx with rfl | hx
        · exact Or.inl hd
        · exact h3 x hx
      · intro x hx; simp at hx; rcases hx with rfl | hx
        · exact hd
        · exact h4 x hx
    · simp only [hd, Bool.false_eq_true, if_false]
      by_cases hu : c = 95
      · subst hu
        simp only [if_true]
        cases cs with
        | nil => exact ⟨[], by simp⟩
        | cons d ds =>
          simp only
          by_cases hdd : isDigitOfRadix r d = true
          · simp only [hdd, if_true]
            refine ⟨95 :: pre, by simp; exact h1, by simp [h2], ?_, h4⟩
            intro x hx; simp at hx; rcases hx with rfl | hx
            · exact Or.inr rfl
            · exact h3 x hx
          · simp only [hdd, Bool.false_eq_true, if_false]
            exact ⟨[], by simp⟩
      · simp only [hu, if_false]
        exact ⟨[], by simp⟩

theorem radixRun_all (r : Radix) (cs : List Nat) (h : (radixRun r cs).2 = []) :
    (radixRun r cs).1 = cs.filter (· ≠ 95) := by
  obtain ⟨pre, h1, h2, _, _⟩ := radixRun_split r cs
  rw [h, List.append_nil] at h1
  rw [h2, ← h1]

theorem bigInt_spec (r : Radix) (t : List Nat) (v : Nat) (h : bigIntOfDigits r t = some v) :
    v = ofDigits r.base t := by
  unfold bigIntOfDigits at h
  split at h
  · cases h
  · cases h; rfl

theorem lexNumberRadix_int (r : Radix) (cs : List Nat) (loc v : Nat)
    (h : lexNumberRadix r cs loc = .ok (.int v, [])) : v = ofDigits r.base (cs.filter (· ≠ 95)) := by
  unfold lexNumberRadix at h
  generalize hrr : radixRun r cs = p at h
  obtain ⟨t, rest⟩ := p
  simp only at h
  split at h
  · cases h
  · rename_i v' hv
    cases h
    have := radixRun_all r cs (by rw [hrr])
    rw [hrr] at this
    simp only at this
    rw [← this]
    exact bigInt_spec r t v hv

theorem cleanFloat_append (a b : List Nat) : cleanFloat (a ++ b) = cleanFloat a ++ cleanFloat b := by
  simp [cleanFloat]

theorem cleanFloat_digits (pre : List Nat) (h : ∀ x ∈ pre, isDigitOfRadix .dec x = true ∨ x = 95) :
    cleanFloat pre = pre.filter (· ≠ 95) := by
  unfold cleanFloat
  have : ∀ x ∈ pre.filter (· ≠ 95), (if x = 69 then 101 else x) = x := by
    intro x hx
    simp at hx
    rcases h x hx.1 with hd | hu
    · simp [isDigitOfRadix] at hd; rw [if_neg (by omega)]
    · exact absurd hu hx.2
  conv => rhs; rw [← List.map_id (pre.filter (· ≠ 95))]
  exact List.map_congr_left this

theorem rr_clean (cs : List Nat) : ∃ pre, cs = pre ++ (radixRun .dec cs).2 ∧
    (radixRun .dec cs).1 = cleanFloat pre := by
  obtain ⟨pre, h1, h2, h3, _⟩ := radixRun_split .dec cs
  exact ⟨pre, h1, by rw [h2, cleanFloat_digits pre h3]⟩

theorem numFrac_inv (loc total : Nat) (cs pre0 r0 t1 r1 : List Nat) (hp0 : cs = pre0 ++ r0)
    (h : numFrac loc total (cleanFloat pre0) r0 = .ok (t1, r1)) :
    ∃ pre, cs = pre ++ r1 ∧ t1 = cleanFloat pre := by
  unfold numFrac at h
  split at h
  · rename_i r1'
    split at h
    · cases h
    · cases h
      obtain ⟨pre1, hp1, hq1⟩ := rr_clean r1'
      refine ⟨pre0 ++ [46] ++ pre1, ?_, ?_⟩
      · rw [hp0]; simp; exact hp1
      · rw [cleanFloat_append, cleanFloat_append, hq1]; rfl
  · cases h; exact ⟨pre0, hp0, rfl⟩

theorem numExpo_inv (loc total : Nat) (cs pre1 r1 t r : List Nat) (hp1 : cs = pre1 ++ r1)
    (h : numExpo loc total (cleanFloat pre1) r1 = .ok (t, r)) :
    ∃ pre, cs = pre ++ r ∧ t = cleanFloat pre := by
  unfold numExpo at h
  split at h
  · rename_i e r2
    split at h
    · rename_i he
      have hce : cleanFloat [e] = [101] := by
        rcases he with rfl | rfl <;> rfl
      split at h
      · cases h
      · simp only at h
        split at h
        · rename_i s r3 _
          split at h
          · rename_i hs
            have hcs : cleanFloat [s] = [s] := by
              rcases hs with rfl | rfl <;> rfl
            split at h
            · cases h
            · cases h
              obtain ⟨pre3, hp3, hq3⟩ := rr_clean r3
              refine ⟨pre1 ++ [e] ++ [s] ++ pre3, ?_, ?_⟩
              · rw [hp1]; simp; exact hp3
              · rw [cleanFloat_append, cleanFloat_append, cleanFloat_append, hq3, hce, hcs]
          · cases h
            obtain ⟨pre3, hp3, hq3⟩ := rr_clean (s :: r3)
            refine ⟨pre1 ++ [e] ++ pre3, ?_, ?_⟩
            · rw [hp1]; simp; exact hp3
            · rw [cleanFloat_append, cleanFloat_append, hq3, hce]
        · cases h
          refine ⟨pre1 ++ [e], by rw [hp1]; simp, ?_⟩
          rw [cleanFloat_append, hce]
    · cases h; exact ⟨pre1, hp1, rfl⟩
  · cases h; exact ⟨pre1, by simpa using hp1, rfl⟩

/-- what `lex_normal_number` returns, as a relation between the input, the token and the rest -/
theorem lexNormalNumber_shape (cs : List Nat) (loc : Nat) (tok : NumTok) (rest : List Nat)
    (h : lexNormalNumber cs loc = .ok (tok, rest)) :
    (∃ v, tok = .int v ∧ (rest = [] → v = ofDigits 10 (cs.filter (· ≠ 95)))) ∨
    (∃ t pre, tok = .float t ∧ cs = pre ++ rest ∧ t = cleanFloat pre) ∨
    (∃ t pre j, tok = .complex t ∧ (j = 106 ∨ j = 74) ∧ cs = pre ++ j :: rest ∧ t = cleanFloat pre) := by
  unfold lexNormalNumber at h
  obtain ⟨pre0, hp0, hq0⟩ := rr_clean cs
  simp only at h
  rw [hq0] at h
  split at h
  · -- float branch
    split at h
    · cases h
    · rename_i t1 r1 hf
      obtain ⟨pre1, hp1, hq1⟩ := numFrac_inv _ _ cs pre0 _ t1 r1 hp0 hf
      subst hq1
      split at h
      · cases h
      · rename_i t r he
        obtain ⟨pre2, hp2, hq2⟩ := numExpo_inv _ _ cs pre1 _ t r hp1 he
        unfold numFloatFinish at h
        split at h
        · cases h
        · split at h
          · rename_i j r'
            split at h
            · rename_i hj
              cases h
              exact Or.inr (Or.inr ⟨_, pre2, j, rfl, hj, hp2, hq2⟩)
            · cases h
              exact Or.inr (Or.inl ⟨_, pre2, rfl, hp2, hq2⟩)
          · cases h
            exact Or.inr (Or.inl ⟨_, pre2, rfl, hp2, hq2⟩)
  · -- integer / imaginary integer
    unfold numIntFinish at h
    simp only at h
    have hint : ∀ v, bigIntOfDigits .dec (cleanFloat pre0) = some v → (radixRun .dec cs).2 = [] →
        v = ofDigits 10 (cs.filter (· ≠ 95)) := by
      intro v hv hr
      have := radixRun_all .dec cs hr
      rw [hq0] at this
      rw [← this]
      exact bigInt_spec .dec _ v hv
    split at h
    · rename_i j r' hr0
      split at h
      · rename_i hj
        split at h
        · cases h
          exact Or.inr (Or.inr ⟨_, pre0, j, rfl, hj, by rw [hr0] at hp0; exact hp0, rfl⟩)
        · cases h
      · split at h
        · cases h
        · split at h
          · cases h
          · cases h; exact Or.inl ⟨_, rfl, fun hr => by rw [hr0] at hr; cases hr⟩
    · rename_i hr0
      split at h
      · cases h
      · rename_i v hv
        split at h
        · cases h
        · cases h; exact Or.inl ⟨_, rfl, fun _ => hint v hv hr0⟩

theorem lexNormalNumber_int (cs : List Nat) (loc v : Nat)
    (h : lexNormalNumber cs loc = .ok (.int v, [])) : v = ofDigits 10 (cs.filter (· ≠ 95)) := by
  rcases lexNormalNumber_shape cs loc _ _ h with ⟨v', hv, hh⟩ | ⟨t, pre, hv, _⟩ | ⟨t, pre, j, hv, _⟩
  · cases hv; exact hh rfl
  · cases hv
  · cases hv

theorem int_value' (text : List Nat) (loc v : Nat)
    (h : lexNumber text loc = .ok (.int v, [])) : v = Spec.intValue text := by
  unfold lexNumber at h
  unfold Spec.intValue
  split at h
  · rename_i x rest
    have hl := lower_cases x
    simp only
    by_cases h16 : x = 120 ∨ x = 88
    · rw [if_pos h16] at h
      rw [if_pos (by omega)]
      exact lexNumberRadix_int .hex rest loc v h
    · rw [if_neg h16] at h
      rw [if_neg (by omega)]
      by_cases h8 : x = 111 ∨ x = 79
      · rw [if_pos h8] at h
        rw [if_pos (by omega)]
        exact lexNumberRadix_int .oct rest loc v h
      · rw [if_neg h8] at h
        rw [if_neg (by omega)]
        by_cases h2 : x = 98 ∨ x = 66
        · rw [if_pos h2] at h
          rw [if_pos (by omega)]
          exact lexNumberRadix_int .bin rest loc v h
        · rw [if_neg h2] at h
          rw [if_neg (by omega)]
          exact lexNormalNumber_int _ loc v h
  · rename_i hne
    have := lexNormalNumber_int _ loc v h
    split
    · rename_i x rest
      exact absurd rfl (hne x rest)
    · exact this


end PV.C06
