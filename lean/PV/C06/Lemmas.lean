import PV.C06.Model
import PV.C06.Spec
/-
  C06 — helper lemmas: every loop of the model is related to the corresponding clause of the
  reference decoder.  The property theorems are in `PV/C06/Thm.lean`.
-/
namespace PV.C06
open Spec

theorem toDigit16_none {c : Nat} (h : toDigit16 c = none) : isHex c = false := by
  unfold toDigit16 at h; unfold isHex
  split at h <;> try cases h
  split at h <;> try cases h
  split at h <;> try cases h
  simp; omega

theorem toDigit16_some {c d : Nat} (h : toDigit16 c = some d) :
    isHex c = true ∧ d = hexDigitVal c ∧ d < 16 ∧ csize c = 1 := by
  unfold toDigit16 at h; unfold isHex hexDigitVal csize
  split at h
  · cases h; refine ⟨by simp; omega, ?_, by omega, ?_⟩ <;> grind
  · split at h
    · cases h; refine ⟨by simp; omega, ?_, by omega, ?_⟩ <;> grind
    · split at h
      · cases h; refine ⟨by simp; omega, ?_, by omega, ?_⟩ <;> grind
      · cases h

theorem pow2_4 (n : Nat) : 2 ^ (n * 4) = 16 ^ n := by
  rw [Nat.mul_comm, Nat.pow_mul]

theorem uniGo_spec (n : Nat) : ∀ (m q : Nat) (cs : List Nat) (loc : Nat), n + m ≤ 8 → q < 16 ^ m →
    unicodeLiteralGo n (q * 16 ^ n) cs loc =
      .ok (if (cs.take n).length = n ∧ (cs.take n).all isHex = true then
             some ((cs.take n).foldl (fun a d => 16 * a + hexDigitVal d) q, cs.drop n, loc + n)
           else none) := by
  induction n with
  | zero => intro m q cs loc _ _; simp [unicodeLiteralGo]
  | succ n ih =>
    intro m q cs loc hm hq
    cases cs with
    | nil => simp [unicodeLiteralGo]
    | cons c cs =>
      unfold unicodeLiteralGo
      cases hd : toDigit16 c with
      | none =>
        have := toDigit16_none hd
        simp [this]
      | some d =>
        obtain ⟨h1, h2, h3, h4⟩ := toDigit16_some hd
        have e1 : q * 16 ^ (n + 1) + d * 2 ^ (n * 4) = (16 * q + d) * 16 ^ n := by
          rw [pow2_4, Nat.pow_succ]; grind
        have hq' : 16 * q + d < 16 ^ (m + 1) := by rw [Nat.pow_succ]; omega
        have hb : (16 * q + d) * 16 ^ n < u32Lim := by
          have h5 : (16 * q + d) * 16 ^ n < 16 ^ (m + 1) * 16 ^ n :=
            Nat.mul_lt_mul_of_lt_of_le hq' (Nat.le_refl _) (Nat.pow_pos (by omega))
          rw [← Nat.pow_add] at h5
          have h6 : 16 ^ (m + 1 + n) ≤ 16 ^ 8 := Nat.pow_le_pow_right (by omega) (by omega)
          have : (16:Nat) ^ 8 = u32Lim := by decide
          omega
        simp only [e1]
        rw [if_pos ⟨by omega, hb⟩, ih (m + 1) (16 * q + d) cs (loc + csize c) (by omega) hq']
        simp [h1, h2, h4]
        congr 1
        grind

theorem charFromU32_ok {v : Nat} (h1 : ¬ (0xD800 ≤ v ∧ v ≤ 0xDFFF)) (h2 : v < 0x110000) :
    charFromU32 v = some v := by
  unfold charFromU32
  by_cases h3 : v < 0xD800
  · simp [h3]
  · rw [if_neg h3, if_neg (by omega), if_pos h2]

theorem charFromU32_big {v : Nat} (h2 : ¬ v < 0x110000) : charFromU32 v = none := by
  unfold charFromU32
  rw [if_neg (by omega), if_neg (by omega), if_neg h2]

theorem fffd_id {v : Nat} (h1 : ¬ (0xD800 ≤ v ∧ v ≤ 0xDFFF)) : fffd v = v := by
  unfold fffd; rw [if_neg h1]

theorem fffd_surr {v : Nat} (h1 : 0xD800 ≤ v ∧ v ≤ 0xDFFF) : fffd v = 0xFFFD := by
  unfold fffd; rw [if_pos h1]

theorem parseUnicodeLiteral_spec (n : Nat) (hn : n ≤ 8) (cs : List Nat) (loc : Nat) :
    parseUnicodeLiteral n cs loc =
      match hexEscape n cs with
      | some (v, r) => .ok (fffd v, r, loc + n)
      | none => .error ⟨.unicodeError, loc⟩ := by
  have h := uniGo_spec n 0 0 cs loc (by omega) (by decide)
  simp only [Nat.zero_mul] at h
  unfold parseUnicodeLiteral hexEscape ofDigits
  rw [h]
  by_cases hc : (cs.take n).length = n ∧ (cs.take n).all isHex = true
  · rw [if_pos hc]
    by_cases hv : (cs.take n).foldl (fun a d => 16 * a + hexDigitVal d) 0 < 0x110000
    · rw [if_pos ⟨hc.1, hc.2, hv⟩]
      by_cases hs : 0xD800 ≤ (cs.take n).foldl (fun a d => 16 * a + hexDigitVal d) 0 ∧
          (cs.take n).foldl (fun a d => 16 * a + hexDigitVal d) 0 ≤ 0xDFFF
      · simp [hs, fffd_surr hs]
      · simp [hs, fffd_id hs, charFromU32_ok hs hv]
    · rw [if_neg (fun ⟨_, _, c⟩ => hv c)]
      have hs : ¬ (0xD800 ≤ (cs.take n).foldl (fun a d => 16 * a + hexDigitVal d) 0 ∧
          (cs.take n).foldl (fun a d => 16 * a + hexDigitVal d) 0 ≤ 0xDFFF) := by omega
      simp [hs, charFromU32_big hv]
  · rw [if_neg hc]
    have : ¬ ((cs.take n).length = n ∧ (cs.take n).all isHex = true ∧
        (cs.take n).foldl (fun a d => 16 * a + hexDigitVal d) 0 < 0x110000) := fun ⟨a, b, _⟩ => hc ⟨a, b⟩
    simp only [this, if_false]
theorem isOctDigit_eq : isOctDigit = isOct := rfl

theorem oct_val {c : Nat} (h : isOct c = true) : hexDigitVal c = c - 48 ∧ c - 48 < 8 := by
  unfold isOct at h; unfold hexDigitVal
  simp at h
  rw [if_pos (by omega)]; omega

theorem octetGo_spec (room : Nat) : ∀ (cs : List Nat) (loc : Nat),
    octetGo room cs loc =
      ((cs.take room).takeWhile isOct, cs.drop ((cs.take room).takeWhile isOct).length,
       loc + ((cs.take room).takeWhile isOct).length) := by
  induction room with
  | zero => intro cs loc; simp [octetGo]
  | succ room ih =>
    intro cs loc
    cases cs with
    | nil => simp [octetGo]
    | cons c cs =>
      unfold octetGo
      by_cases hc : isOct c = true
      · simp [isOctDigit_eq, hc, ih, List.takeWhile_cons]; omega
      · simp [isOctDigit_eq, hc, List.takeWhile_cons]

theorem fromStrRadix8_spec (ds : List Nat) (h1 : ds.all isOct = true) (h2 : ds ≠ []) (h3 : ds.length ≤ 3) :
    fromStrRadix8 ds = some (ofDigits 8 ds) ∧ ofDigits 8 ds < 512 := by
  unfold fromStrRadix8 ofDigits
  match ds, h2, h3 with
  | [a], _, _ =>
    simp at h1
    have := oct_val h1
    simp [isOctDigit_eq, h1, this.1, u32Lim]; omega
  | [a, b], _, _ =>
    simp at h1
    have ha := oct_val h1.1
    have hb := oct_val h1.2
    simp [isOctDigit_eq, h1, ha.1, hb.1, u32Lim]; omega
  | [a, b, c], _, _ =>
    simp at h1
    have ha := oct_val h1.1
    have hb := oct_val h1.2.1
    have hc := oct_val h1.2.2
    simp [isOctDigit_eq, h1, ha.1, hb.1, hc.1, u32Lim]; omega

theorem takeWhile_all {α} (p : α → Bool) (l : List α) : (l.takeWhile p).all p = true := by
  induction l with
  | nil => simp
  | cons a l ih => by_cases h : p a = true <;> simp [List.takeWhile_cons, h, ih]

theorem length_takeWhile_le {α} (p : α → Bool) (l : List α) : (l.takeWhile p).length ≤ l.length :=
  (List.takeWhile_sublist p).length_le

theorem parseOctet_spec (first : Nat) (hf : isOct first = true) (cs : List Nat) (loc : Nat) :
    ∃ l', parseOctet first cs loc = some ((octEscape (first :: cs)).1, (octEscape (first :: cs)).2, l') ∧
      (octEscape (first :: cs)).1 < 512 ∧ (octEscape (first :: cs)).2.length ≤ cs.length := by
  unfold parseOctet octEscape
  rw [octetGo_spec]
  simp only [List.take_succ_cons, List.takeWhile_cons, hf, if_true, List.length_cons, List.drop_succ_cons]
  have hall : (first :: (cs.take 2).takeWhile isOct).all isOct = true := by
    simp only [List.all_cons, hf, Bool.true_and, takeWhile_all]
  have hlen : (first :: (cs.take 2).takeWhile isOct).length ≤ 3 := by
    have := length_takeWhile_le isOct (cs.take 2)
    have := List.length_take_le 2 cs
    simp only [List.length_cons]; omega
  obtain ⟨e1, e2⟩ := fromStrRadix8_spec _ hall (by simp) hlen
  have h512 : charFromU32 (ofDigits 8 (first :: (cs.take 2).takeWhile isOct)) =
      some (ofDigits 8 (first :: (cs.take 2).takeWhile isOct)) := by
    unfold charFromU32; rw [if_pos (by omega)]
  rw [e1]
  simp only [h512]
  exact ⟨_, rfl, e2, by simp⟩
/-- the model result agrees with the reference result: both succeed with related values, or the
    reference rejects and the model returns a (non-panic) error -/
def Agree {α β : Type} (rel : α → β → Prop) : Except Err α → Option β → Prop
  | .ok a, some b => rel a b
  | .error e, none => e.kind ≠ .panic
  | _, _ => False

/-- what the theorems need to know about the name-lookup function: names longer than 88 bytes are
    unknown (the Rust code refuses them before looking them up) and results are scalar values -/
structure LookupOk (lookup : List Nat → Option Nat) : Prop where
  long : ∀ name, utf8Len name > maxUnicodeName → lookup name = none
  scalar : ∀ name c, lookup name = some c → fffd c = c

theorem nameGo_ok : ∀ (cs : List Nat) (loc : Nat) (r : List Nat),
    cs.drop (cs.takeWhile nameChar).length = 125 :: r →
    ∃ l, nameGo cs loc = .ok (cs.takeWhile nameChar, r, l) := by
  intro cs
  induction cs with
  | nil => intro loc r h; simp at h
  | cons c cs ih =>
    intro loc r h
    unfold nameGo
    by_cases hc : c = 125
    · subst hc; simp [nameChar] at h; simp [h, nameChar]
    · have hn : nameChar c = true := by simp [nameChar, hc]
      simp [List.takeWhile_cons, hn] at h
      obtain ⟨l, hl⟩ := ih (loc + csize c) r h
      simp [hc, hl, List.takeWhile_cons, hn]

theorem nameGo_err : ∀ (cs : List Nat) (loc : Nat),
    (∀ r, cs.drop (cs.takeWhile nameChar).length ≠ 125 :: r) →
    ∃ l, nameGo cs loc = .error l := by
  intro cs
  induction cs with
  | nil => intro loc _; exact ⟨loc, rfl⟩
  | cons c cs ih =>
    intro loc h
    unfold nameGo
    by_cases hc : c = 125
    · subst hc; simp [nameChar] at h
    · have hn : nameChar c = true := by simp [nameChar, hc]
      simp [List.takeWhile_cons, hn] at h
      obtain ⟨l, hl⟩ := ih (loc + csize c) h
      simp [hc, hl]

theorem parseUnicodeName_spec (lookup : List Nat → Option Nat) (hl : LookupOk lookup)
    (cs : List Nat) (loc : Nat) :
    Agree (fun (a : Nat × List Nat × Nat) (b : Nat × List Nat) => a.1 = fffd b.1 ∧ a.2.1 = b.2)
      (parseUnicodeName lookup cs loc) (nameEscape lookup cs) := by
  unfold parseUnicodeName nameEscape
  match cs with
  | [] => simp [Agree]
  | c :: cs1 =>
    by_cases hc : c = 123
    · subst hc
      simp only
      cases hd : cs1.drop (cs1.takeWhile nameChar).length with
      | nil =>
        obtain ⟨l, e⟩ := nameGo_err cs1 (loc + 1) (by simp [hd])
        simp [e, Agree]
      | cons d r =>
        by_cases hd2 : d = 125
        · subst hd2
          obtain ⟨l, e⟩ := nameGo_ok cs1 (loc + 1) r hd
          simp only [e]
          by_cases hlen : utf8Len (cs1.takeWhile nameChar) > maxUnicodeName
          · simp [hlen, hl.long _ hlen, Agree]
          · simp only [hlen, if_false]
            cases hlk : lookup (cs1.takeWhile nameChar) with
            | none => simp [Agree]
            | some v => simp [Agree, hl.scalar _ _ hlk]
        · obtain ⟨l, e⟩ := nameGo_err cs1 (loc + 1) (by simp [hd, hd2])
          simp [e, Agree, hd2]
    · split
      · rename_i h; cases h; exact absurd rfl hc
      · split
        · rename_i h; cases h; exact absurd rfl hc
        · simp [Agree]

/-- relation between what the model pushes for one escape and the reference items -/
def EscRel (bytes : Bool) (a : List Nat × List Nat × Nat) (b : List Nat × List Nat) : Prop :=
  a.2.1 = b.2 ∧ (if bytes then a.1.map (· % 256) = b.1 else a.1 = b.1.map fffd)

theorem hexEscape_len {n : Nat} {cs : List Nat} {v : Nat} {r : List Nat}
    (h : hexEscape n cs = some (v, r)) : r.length ≤ cs.length ∧ v < 0x110000 ∧ (n = 2 → v < 256) := by
  unfold hexEscape at h
  simp only at h
  split at h
  · rename_i hc
    cases h
    refine ⟨by simp, hc.2.2, ?_⟩
    intro hn; subst hn
    obtain ⟨h1, h2, _⟩ := hc
    match hcs : cs.take 2, h1 with
    | [a, b], _ =>
      rw [hcs] at h2
      simp at h2
      have : ∀ c, isHex c = true → hexDigitVal c < 16 := by
        intro c hc; unfold isHex at hc; unfold hexDigitVal; simp at hc; grind
      have ha := this a h2.1
      have hb := this b h2.2
      simp [ofDigits]; omega
  · cases h

theorem nameEscape_len {lookup : List Nat → Option Nat} {cs : List Nat} {v : Nat} {r : List Nat}
    (h : nameEscape lookup cs = some (v, r)) : r.length ≤ cs.length := by
  unfold nameEscape at h
  split at h
  · rename_i r0
    simp only at h
    split at h
    · rename_i r' hd
      split at h
      · cases h
        have := congrArg List.length hd
        simp at this
        simp; omega
      · cases h
    · cases h
  · cases h

theorem escape_spec (lookup : List Nat → Option Nat) (hl : LookupOk lookup) (kind : Kind)
    (cs : List Nat) (hcs : ∀ x ∈ cs, fffd x = x) (loc : Nat) :
    Agree (EscRel kind.isAnyBytes) (parseEscapedChar lookup kind cs loc)
      (escape lookup kind.isAnyBytes cs) := by
  unfold parseEscapedChar
  split
  · simp [escape, Agree]
  · rename_i c cs1
    simp only
    split
    all_goals try (simp [escape, simpleEscape, Agree, EscRel, fffd]; done)
    · -- \x
      rw [parseUnicodeLiteral_spec 2 (by omega)]
      simp only [escape, simpleEscape, isOct]
      cases hh : hexEscape 2 cs1 with
      | none => simp [Agree]
      | some p =>
        obtain ⟨v, r⟩ := p
        have := (hexEscape_len hh).2.2 rfl
        have hf : fffd v = v := fffd_id (by omega)
        simp [Agree, EscRel, hf]
        intro _; omega
    · -- \u
      cases hb : kind.isAnyBytes with
      | true => simp [escape, simpleEscape, isOct, Agree, EscRel]
      | false =>
        rw [parseUnicodeLiteral_spec 4 (by omega)]
        simp only [escape, simpleEscape, isOct]
        cases hh : hexEscape 4 cs1 with
        | none => simp [Agree]
        | some p => simp [Agree, EscRel]
    · -- \U
      cases hb : kind.isAnyBytes with
      | true => simp [escape, simpleEscape, isOct, Agree, EscRel]
      | false =>
        rw [parseUnicodeLiteral_spec 8 (by omega)]
        simp only [escape, simpleEscape, isOct]
        cases hh : hexEscape 8 cs1 with
        | none => simp [Agree]
        | some p => simp [Agree, EscRel]
    · -- \N
      cases hb : kind.isAnyBytes with
      | true => simp [escape, simpleEscape, isOct, Agree, EscRel]
      | false =>
        have hn := parseUnicodeName_spec lookup hl cs1 (loc + csize 78)
        simp only [escape, simpleEscape, isOct]
        cases hh : nameEscape lookup cs1 with
        | none =>
          rw [hh] at hn
          cases hp : parseUnicodeName lookup cs1 (loc + csize 78) with
          | ok a => rw [hp] at hn; simp [Agree] at hn
          | error e => rw [hp] at hn; simpa [Agree] using hn
        | some p =>
          rw [hh] at hn
          cases hp : parseUnicodeName lookup cs1 (loc + csize 78) with
          | ok a => rw [hp] at hn; simp [Agree] at hn; simp [Agree, EscRel, hn]
          | error e => rw [hp] at hn; simp [Agree] at hn
    · -- octal digits and unrecognised escapes
      rename_i c _ h1 h2 h3 h4 h5 h6 h7 h8 h9 h10 h11 h12 h13 h14 h15
      have hs : simpleEscape c = none := by
        unfold simpleEscape; split <;> simp_all
      have e10 : ¬ c = 10 := fun h => h15 h
      have e120 : ¬ c = 120 := fun h => h11 h
      have e117 : ¬ c = 117 := fun h => h12 h
      have e85 : ¬ c = 85 := fun h => h13 h
      have e78 : ¬ c = 78 := fun h => h14 h
      simp only [escape, hs, e10, e120, e117, e85, e78, if_false, false_and]
      by_cases ho : isOct c = true
      · obtain ⟨l', e, hv, hlen⟩ := parseOctet_spec c ho cs1 (loc + csize c)
        simp only [isOctDigit_eq, ho, if_true, e]
        cases hb : kind.isAnyBytes with
        | true => simp [Agree, EscRel]
        | false =>
          have hf : fffd (octEscape (c :: cs1)).1 = (octEscape (c :: cs1)).1 := fffd_id (by omega)
          simp [Agree, EscRel, hf]
      · simp only [isOctDigit_eq, ho]
        by_cases hb : kind.isAnyBytes = true ∧ ¬ c < 128
        · simp [hb, Agree]
        · simp only [hb, if_false]
          cases hb2 : kind.isAnyBytes with
          | true =>
            have : c < 128 := by
              rw [hb2] at hb; simp at hb; exact hb
            simp [Agree, EscRel]
            omega
          | false =>
            have := hcs c (by simp)
            simp [Agree, EscRel, this]; simp [fffd]

theorem hexEscape_suffix {n : Nat} {cs : List Nat} {v : Nat} {r : List Nat}
    (h : hexEscape n cs = some (v, r)) : r <:+ cs := by
  unfold hexEscape at h
  simp only at h
  split at h
  · cases h; exact List.drop_suffix _ _
  · cases h

theorem nameEscape_suffix {lookup : List Nat → Option Nat} {cs : List Nat} {v : Nat} {r : List Nat}
    (h : nameEscape lookup cs = some (v, r)) : r <:+ cs := by
  unfold nameEscape at h
  split at h
  · rename_i r0
    simp only at h
    split at h
    · rename_i r' hd
      split at h
      · cases h
        have h1 : (125 :: r) <:+ r0 := hd ▸ List.drop_suffix _ _
        exact ((List.suffix_cons 125 r).trans h1).trans (List.suffix_cons _ _)
      · cases h
    · cases h
  · cases h

theorem escape_suffix {lookup : List Nat → Option Nat} {bytes : Bool} {cs items r : List Nat}
    (h : escape lookup bytes cs = some (items, r)) : r <:+ cs ∧ r.length < cs.length := by
  suffices hs : ∃ c cs1, cs = c :: cs1 ∧ r <:+ cs1 by
    obtain ⟨c, cs1, e, hs⟩ := hs
    subst e
    exact ⟨hs.trans (List.suffix_cons _ _), by have := hs.length_le; simp; omega⟩
  unfold escape at h
  split at h
  · cases h
  · rename_i c rest
    refine ⟨c, rest, rfl, ?_⟩
    split at h
    · cases h; exact List.suffix_refl _
    · split at h
      · cases h; exact List.suffix_refl _
      · split at h
        · simp only [octEscape] at h
          cases h
          rename_i ho
          simp only [List.take_succ_cons, List.takeWhile_cons, ho, if_true, List.length_cons, List.drop_succ_cons]
          exact List.drop_suffix _ _
        · split at h
          · split at h
            · rename_i hh; cases h; exact hexEscape_suffix hh
            · cases h
          · split at h
            · split at h
              · rename_i hh; cases h; exact hexEscape_suffix hh
              · cases h
            · split at h
              · split at h
                · rename_i hh; cases h; exact hexEscape_suffix hh
                · cases h
              · split at h
                · split at h
                  · rename_i hh; cases h; exact nameEscape_suffix hh
                  · cases h
                · split at h
                  · cases h
                  · cases h; exact List.suffix_refl _

theorem suffix_nosurr {r cs : List Nat} (h : r <:+ cs) (hcs : ∀ x ∈ cs, fffd x = x) :
    ∀ x ∈ r, fffd x = x := fun x hx => hcs x (h.subset hx)

theorem parseStringGo_spec (lookup : List Nat → Option Nat) (hl : LookupOk lookup) (kind : Kind)
    (hraw : kind.isRaw = false) (hb : kind.isAnyBytes = false) :
    ∀ (n : Nat) (cs : List Nat), cs.length ≤ n → (∀ x ∈ cs, fffd x = x) →
      ∀ (fuel fuel' loc : Nat), cs.length < fuel → cs.length < fuel' →
      Agree (fun (a b : List Nat) => a = b.map fffd)
        (parseStringGo lookup kind fuel cs loc) (cooked lookup false fuel' cs) := by
  intro n
  induction n with
  | zero =>
    intro cs hn _ fuel fuel' loc hf hf'
    have : cs = [] := List.eq_nil_of_length_eq_zero (by omega)
    subst this
    match fuel, fuel', hf, hf' with
    | f + 1, f' + 1, _, _ => simp [parseStringGo, cooked, Agree]
  | succ n ih =>
    intro cs hn hcs fuel fuel' loc hf hf'
    match fuel, fuel', hf, hf' with
    | f + 1, f' + 1, hf, hf' =>
      cases cs with
      | nil => simp [parseStringGo, cooked, Agree]
      | cons c rest =>
        simp only [List.length_cons] at hn hf hf'
        have hrest : ∀ x ∈ rest, fffd x = x := fun x hx => hcs x (List.mem_cons_of_mem _ hx)
        unfold parseStringGo cooked
        by_cases hc : c = 92
        · subst hc
          simp only [hraw, true_and, Bool.false_eq_true, not_false_eq_true, if_true]
          have he := escape_spec lookup hl kind rest hrest (loc + 1)
          rw [hb] at he
          cases hs : escape lookup false rest with
          | none =>
            rw [hs] at he
            cases hp : parseEscapedChar lookup kind rest (loc + 1) with
            | ok a => rw [hp] at he; simp [Agree] at he
            | error e => rw [hp] at he; simpa [Agree] using he
          | some p =>
            obtain ⟨items, r⟩ := p
            rw [hs] at he
            cases hp : parseEscapedChar lookup kind rest (loc + 1) with
            | error e => rw [hp] at he; simp [Agree] at he
            | ok a =>
              obtain ⟨s, cs', loc'⟩ := a
              rw [hp] at he
              simp [Agree, EscRel] at he
              obtain ⟨e1, e2⟩ := he
              subst e1 e2
              obtain ⟨hsuf, hlen⟩ := escape_suffix hs
              have := ih cs' (by omega) (suffix_nosurr hsuf hrest) f f' loc' (by omega) (by omega)
              simp only
              cases hm : parseStringGo lookup kind f cs' loc' with
              | error e =>
                rw [hm] at this
                cases hc2 : cooked lookup false f' cs' with
                | none => rw [hc2] at this; simpa [Agree] using this
                | some t' => rw [hc2] at this; simp [Agree] at this
              | ok t =>
                rw [hm] at this
                cases hc2 : cooked lookup false f' cs' with
                | none => rw [hc2] at this; simp [Agree] at this
                | some t' => rw [hc2] at this; simp [Agree] at this; simp [Agree, this]
        · simp only [hc, false_and, if_false, Bool.false_eq_true]
          have := ih rest (by omega) hrest f f' (loc + csize c) (by omega) (by omega)
          cases hm : parseStringGo lookup kind f rest (loc + csize c) with
          | error e =>
            rw [hm] at this
            cases hc2 : cooked lookup false f' rest with
            | none => rw [hc2] at this; simpa [Agree] using this
            | some t' => rw [hc2] at this; simp [Agree] at this
          | ok t =>
            rw [hm] at this
            cases hc2 : cooked lookup false f' rest with
            | none => rw [hc2] at this; simp [Agree] at this
            | some t' =>
              rw [hc2] at this; simp [Agree] at this
              simp [Agree, this, hcs c (by simp)]

theorem parseBytesGo_spec (lookup : List Nat → Option Nat) (hl : LookupOk lookup) (kind : Kind)
    (hraw : kind.isRaw = false) (hb : kind.isAnyBytes = true) :
    ∀ (n : Nat) (cs : List Nat), cs.length ≤ n → (∀ x ∈ cs, fffd x = x) →
      ∀ (fuel fuel' loc : Nat), cs.length < fuel → cs.length < fuel' →
      Agree (fun (a b : List Nat) => a.map (· % 256) = b)
        (parseBytesGo lookup kind fuel cs loc) (cooked lookup true fuel' cs) := by
  intro n
  induction n with
  | zero =>
    intro cs hn _ fuel fuel' loc hf hf'
    have : cs = [] := List.eq_nil_of_length_eq_zero (by omega)
    subst this
    match fuel, fuel', hf, hf' with
    | f + 1, f' + 1, _, _ => simp [parseBytesGo, cooked, Agree]
  | succ n ih =>
    intro cs hn hcs fuel fuel' loc hf hf'
    match fuel, fuel', hf, hf' with
    | f + 1, f' + 1, hf, hf' =>
      cases cs with
      | nil => simp [parseBytesGo, cooked, Agree]
      | cons c rest =>
        simp only [List.length_cons] at hn hf hf'
        have hrest : ∀ x ∈ rest, fffd x = x := fun x hx => hcs x (List.mem_cons_of_mem _ hx)
        unfold parseBytesGo cooked
        by_cases hc : c = 92
        · subst hc
          simp only [hraw, true_and, Bool.false_eq_true, not_false_eq_true, if_true]
          have he := escape_spec lookup hl kind rest hrest (loc + 1)
          rw [hb] at he
          cases hs : escape lookup true rest with
          | none =>
            rw [hs] at he
            cases hp : parseEscapedChar lookup kind rest (loc + 1) with
            | ok a => rw [hp] at he; simp [Agree] at he
            | error e => rw [hp] at he; simpa [Agree] using he
          | some p =>
            obtain ⟨items, r⟩ := p
            rw [hs] at he
            cases hp : parseEscapedChar lookup kind rest (loc + 1) with
            | error e => rw [hp] at he; simp [Agree] at he
            | ok a =>
              obtain ⟨s, cs', loc'⟩ := a
              rw [hp] at he
              simp [Agree, EscRel] at he
              obtain ⟨e1, e2⟩ := he
              subst e1 e2
              obtain ⟨hsuf, hlen⟩ := escape_suffix hs
              have := ih cs' (by omega) (suffix_nosurr hsuf hrest) f f' loc' (by omega) (by omega)
              simp only
              cases hm : parseBytesGo lookup kind f cs' loc' with
              | error e =>
                rw [hm] at this
                cases hc2 : cooked lookup true f' cs' with
                | none => rw [hc2] at this; simpa [Agree] using this
                | some t' => rw [hc2] at this; simp [Agree] at this
              | ok t =>
                rw [hm] at this
                cases hc2 : cooked lookup true f' cs' with
                | none => rw [hc2] at this; simp [Agree] at this
                | some t' => rw [hc2] at this; simp [Agree] at this; simp [Agree, this]
        · simp only [hc, false_and, if_false]
          by_cases h128 : c < 128
          · simp only [h128, not_true_eq_false, and_false, if_false]
            have := ih rest (by omega) hrest f f' (loc + csize c) (by omega) (by omega)
            cases hm : parseBytesGo lookup kind f rest (loc + csize c) with
            | error e =>
              rw [hm] at this
              cases hc2 : cooked lookup true f' rest with
              | none => rw [hc2] at this; simpa [Agree] using this
              | some t' => rw [hc2] at this; simp [Agree] at this
            | ok t =>
              rw [hm] at this
              cases hc2 : cooked lookup true f' rest with
              | none => rw [hc2] at this; simp [Agree] at this
              | some t' =>
                rw [hc2] at this; simp [Agree] at this
                simp [Agree, this]; omega
          · simp [h128, Agree]

theorem parseStringGo_raw (lookup : List Nat → Option Nat) (kind : Kind) (hraw : kind.isRaw = true) :
    ∀ (cs : List Nat) (fuel loc : Nat), cs.length < fuel →
      parseStringGo lookup kind fuel cs loc = .ok cs := by
  intro cs
  induction cs with
  | nil => intro fuel loc h; match fuel, h with | f + 1, _ => simp [parseStringGo]
  | cons c rest ih =>
    intro fuel loc h
    match fuel, h with
    | f + 1, h =>
      simp only [List.length_cons] at h
      unfold parseStringGo
      simp [hraw, ih f (loc + csize c) (by omega)]

theorem parseBytesGo_raw (lookup : List Nat → Option Nat) (kind : Kind) (hraw : kind.isRaw = true) :
    ∀ (cs : List Nat) (fuel loc : Nat), cs.length < fuel →
      Agree (fun (a b : List Nat) => a.map (· % 256) = b) (parseBytesGo lookup kind fuel cs loc)
        (if cs.all (· < 128) then some cs else none) := by
  intro cs
  induction cs with
  | nil => intro fuel loc h; match fuel, h with | f + 1, _ => simp [parseBytesGo, Agree]
  | cons c rest ih =>
    intro fuel loc h
    match fuel, h with
    | f + 1, h =>
      simp only [List.length_cons] at h
      unfold parseBytesGo
      have := ih f (loc + csize c) (by omega)
      by_cases h128 : c < 128
      · simp only [hraw, h128, not_true_eq_false, and_false, if_false, List.all_cons, decide_true, Bool.true_and]
        cases hm : parseBytesGo lookup kind f rest (loc + csize c) with
        | error e =>
          rw [hm] at this
          by_cases ha : rest.all (· < 128) = true
          · rw [if_pos ha] at this; simp [Agree] at this
          · rw [if_neg ha] at this; simp only [ha]; simpa [Agree] using this
        | ok t =>
          rw [hm] at this
          by_cases ha : rest.all (· < 128) = true
          · rw [if_pos ha] at this; simp [Agree] at this; simp [Agree, ha, this]; omega
          · rw [if_neg ha] at this; simp [Agree] at this
      · simp [hraw, h128, Agree]

theorem map_fffd_id {body : List Nat} (hbody : ∀ x ∈ body, fffd x = x) : body.map fffd = body := by
  induction body with
  | nil => rfl
  | cons c r ih =>
    simp only [List.map_cons, hbody c (by simp)]
    rw [ih (fun x hx => hbody x (List.mem_cons_of_mem _ hx))]

theorem parseString_agree (lookup : List Nat → Option Nat) (hl : LookupOk lookup) (kind : Kind)
    (hb : kind.isAnyBytes = false) (body : List Nat) (hbody : ∀ x ∈ body, fffd x = x) (loc : Nat) :
    Agree (fun (a b : List Nat) => a = b.map fffd)
      (parseString lookup kind body loc) (Spec.decode lookup false kind.isRaw body) := by
  unfold Spec.decode
  cases hr : kind.isRaw
  · exact parseStringGo_spec lookup hl kind hr hb body.length body (Nat.le_refl _) hbody
      (body.length + 1) (body.length + 1) loc (by omega) (by omega)
  · simp [parseString, parseStringGo_raw lookup kind hr body (body.length + 1) loc (by omega), Agree,
      map_fffd_id hbody]

theorem parseBytes_agree (lookup : List Nat → Option Nat) (hl : LookupOk lookup) (kind : Kind)
    (hb : kind.isAnyBytes = true) (body : List Nat) (hbody : ∀ x ∈ body, fffd x = x) (loc : Nat) :
    Agree (fun (a b : List Nat) => a = b)
      (parseBytes lookup kind body loc) (Spec.decode lookup true kind.isRaw body) := by
  unfold Spec.decode parseBytes
  cases hr : kind.isRaw
  · have := parseBytesGo_spec lookup hl kind hr hb body.length body (Nat.le_refl _) hbody
      (body.length + 1) (body.length + 1) loc (by omega) (by omega)
    simp only [Bool.false_eq_true, if_false]
    cases hm : parseBytesGo lookup kind (body.length + 1) body loc with
    | error e =>
      rw [hm] at this
      cases hc : cooked lookup true (body.length + 1) body with
      | none => rw [hc] at this; simpa [Agree] using this
      | some t => rw [hc] at this; simp [Agree] at this
    | ok s =>
      rw [hm] at this
      cases hc : cooked lookup true (body.length + 1) body with
      | none => rw [hc] at this; simp [Agree] at this
      | some t => rw [hc] at this; simp [Agree] at this; simp [Agree, this]
  · have := parseBytesGo_raw lookup kind hr body (body.length + 1) loc (by omega)
    simp only [if_true]
    cases hm : parseBytesGo lookup kind (body.length + 1) body loc with
    | error e =>
      rw [hm] at this
      by_cases ha : body.all (· < 128) = true
      · rw [if_pos ha] at this; simp [Agree] at this
      · rw [if_neg ha] at this; simp [Agree] at this; simp [Agree, ha, this]
    | ok s =>
      rw [hm] at this
      by_cases ha : body.all (· < 128) = true
      · rw [if_pos ha] at this; simp [Agree] at this; simp [Agree, ha, this]
      · rw [if_neg ha] at this; simp [Agree] at this

/-- how the tree stores a reference value of a literal of this kind -/
def storedAs (kind : Kind) (items : List Nat) : Value :=
  if kind.isAnyBytes then .bytes items else .str (items.map fffd) kind.isUnicode

theorem decode_agree (lookup : List Nat → Option Nat) (hl : LookupOk lookup) (kind : Kind)
    (body : List Nat) (hbody : ∀ x ∈ body, fffd x = x) (loc : Nat) :
    Agree (fun v items => v = storedAs kind items)
      (decode lookup kind body loc) (Spec.decode lookup kind.isAnyBytes kind.isRaw body) := by
  unfold decode storedAs
  cases hb : kind.isAnyBytes
  · have := parseString_agree lookup hl kind hb body hbody loc
    simp only [Bool.false_eq_true, if_false]
    cases hm : parseString lookup kind body loc with
    | error e =>
      rw [hm] at this
      cases hc : Spec.decode lookup false kind.isRaw body with
      | none => rw [hc] at this; simpa [Agree] using this
      | some t => rw [hc] at this; simp [Agree] at this
    | ok s =>
      rw [hm] at this
      cases hc : Spec.decode lookup false kind.isRaw body with
      | none => rw [hc] at this; simp [Agree] at this
      | some t => rw [hc] at this; simp [Agree] at this; simp [Agree, this]
  · have := parseBytes_agree lookup hl kind hb body hbody loc
    simp only [if_true]
    cases hm : parseBytes lookup kind body loc with
    | error e =>
      rw [hm] at this
      cases hc : Spec.decode lookup true kind.isRaw body with
      | none => rw [hc] at this; simpa [Agree] using this
      | some t => rw [hc] at this; simp [Agree] at this
    | ok s =>
      rw [hm] at this
      cases hc : Spec.decode lookup true kind.isRaw body with
      | none => rw [hc] at this; simp [Agree] at this
      | some t => rw [hc] at this; simp [Agree] at this; simp [Agree, this]

def Kind.toPrefix : Kind → Spec.Prefix
  | .str => ⟨false, false, false, false⟩
  | .fstr => ⟨false, false, true, false⟩
  | .bytes => ⟨true, false, false, false⟩
  | .rawStr => ⟨false, true, false, false⟩
  | .rawFStr => ⟨false, true, true, false⟩
  | .rawBytes => ⟨true, true, false, false⟩
  | .unicode => ⟨false, false, false, true⟩

theorem lower_cases (c : Nat) : (c ≤ 64 ∧ lower c = c) ∨ (65 ≤ c ∧ c ≤ 90 ∧ lower c = c + 32) ∨ (91 ≤ c ∧ lower c = c) := by
  unfold lower; split <;> omega

theorem kindOfChar_spec (c : Nat) (hc : c ≠ 85) : (kindOfChar c).map Kind.toPrefix = prefixKind [c] := by
  unfold kindOfChar
  split <;> try (first | rfl | contradiction)
  rename_i h1 h2 h3 h4 h5 h6 h7 h8
  have := lower_cases c
  unfold prefixKind
  simp only [List.map_cons, List.map_nil]
  split <;> simp_all <;> omega

theorem kindOfChars_small : ∀ c1 < 128, ∀ c2 < 128,
    (kindOfChars c1 c2).map Kind.toPrefix = prefixKind [c1, c2] := by decide +kernel

theorem kindOfChars_big (c1 c2 : Nat) (h : 128 ≤ c1 ∨ 128 ≤ c2) : kindOfChars c1 c2 = none := by
  unfold kindOfChars
  split <;> first | rfl | omega

theorem prefixKind_big (c1 c2 : Nat) (h : 128 ≤ c1 ∨ 128 ≤ c2) : prefixKind [c1, c2] = none := by
  have h1 := lower_cases c1
  have h2 := lower_cases c2
  unfold prefixKind
  simp only [List.map_cons, List.map_nil]
  split <;> first | rfl | (simp_all <;> omega)

theorem kindOfChars_spec (c1 c2 : Nat) : (kindOfChars c1 c2).map Kind.toPrefix = prefixKind [c1, c2] := by
  by_cases h : c1 < 128 ∧ c2 < 128
  · exact kindOfChars_small c1 h.1 c2 h.2
  · rw [kindOfChars_big c1 c2 (by omega), prefixKind_big c1 c2 (by omega)]; rfl

/-! ## implicit concatenation -/

def partOf (t : StrTok) : Part := ⟨t.kind.toPrefix, t.body⟩

theorem toPrefix_bytes (k : Kind) : k.toPrefix.bytes = k.isAnyBytes := by cases k <;> rfl
theorem toPrefix_raw (k : Kind) : k.toPrefix.raw = k.isRaw := by cases k <;> rfl
theorem toPrefix_u (k : Kind) : k.toPrefix.u = k.isUnicode := by cases k <;> rfl

theorem concatStr_agree (lookup : List Nat → Option Nat) (hl : LookupOk lookup) :
    ∀ (toks : List StrTok), (∀ t ∈ toks, t.kind.isAnyBytes = false) →
      (∀ t ∈ toks, ∀ x ∈ t.body, fffd x = x) →
      Agree (fun (a b : List Nat) => a = b.map fffd)
        (concatStr lookup toks) (concatItems lookup (toks.map partOf)) := by
  intro toks
  induction toks with
  | nil => intro _ _; simp [concatStr, concatItems, Agree]
  | cons t ts ih =>
    intro hb hs
    have h1 := parseString_agree lookup hl t.kind (hb t (by simp)) t.body (hs t (by simp)) t.bodyLoc
    have h2 := ih (fun t ht => hb t (List.mem_cons_of_mem _ ht)) (fun t ht => hs t (List.mem_cons_of_mem _ ht))
    simp only [concatStr, concatItems, List.map_cons]
    rw [show (partOf t).pre.bytes = false from (toPrefix_bytes _).trans (hb t (by simp)), show (partOf t).pre.raw = t.kind.isRaw from toPrefix_raw _, show (partOf t).body = t.body from rfl]
    cases hm : parseString lookup t.kind t.body t.bodyLoc with
    | error e =>
      rw [hm] at h1
      cases hc : Spec.decode lookup false t.kind.isRaw t.body with
      | none => rw [hc] at h1; simpa [Agree] using h1
      | some v => rw [hc] at h1; simp [Agree] at h1
    | ok s =>
      rw [hm] at h1
      cases hc : Spec.decode lookup false t.kind.isRaw t.body with
      | none => rw [hc] at h1; simp [Agree] at h1
      | some v =>
        rw [hc] at h1; simp [Agree] at h1
        cases hm2 : concatStr lookup ts with
        | error e =>
          rw [hm2] at h2
          cases hc2 : concatItems lookup (ts.map partOf) with
          | none => rw [hc2] at h2; simpa [Agree] using h2
          | some v2 => rw [hc2] at h2; simp [Agree] at h2
        | ok s2 =>
          rw [hm2] at h2
          cases hc2 : concatItems lookup (ts.map partOf) with
          | none => rw [hc2] at h2; simp [Agree] at h2
          | some v2 => rw [hc2] at h2; simp [Agree] at h2; simp [Agree, h1, h2]

theorem concatBytes_agree (lookup : List Nat → Option Nat) (hl : LookupOk lookup) :
    ∀ (toks : List StrTok), (∀ t ∈ toks, t.kind.isAnyBytes = true) →
      (∀ t ∈ toks, ∀ x ∈ t.body, fffd x = x) →
      Agree (fun (a b : List Nat) => a = b)
        (concatBytes lookup toks) (concatItems lookup (toks.map partOf)) := by
  intro toks
  induction toks with
  | nil => intro _ _; simp [concatBytes, concatItems, Agree]
  | cons t ts ih =>
    intro hb hs
    have h1 := parseBytes_agree lookup hl t.kind (hb t (by simp)) t.body (hs t (by simp)) t.bodyLoc
    have h2 := ih (fun t ht => hb t (List.mem_cons_of_mem _ ht)) (fun t ht => hs t (List.mem_cons_of_mem _ ht))
    simp only [concatBytes, concatItems, List.map_cons]
    rw [show (partOf t).pre.bytes = true from (toPrefix_bytes _).trans (hb t (by simp)), show (partOf t).pre.raw = t.kind.isRaw from toPrefix_raw _, show (partOf t).body = t.body from rfl]
    cases hm : parseBytes lookup t.kind t.body t.bodyLoc with
    | error e =>
      rw [hm] at h1
      cases hc : Spec.decode lookup true t.kind.isRaw t.body with
      | none => rw [hc] at h1; simpa [Agree] using h1
      | some v => rw [hc] at h1; simp [Agree] at h1
    | ok s =>
      rw [hm] at h1
      cases hc : Spec.decode lookup true t.kind.isRaw t.body with
      | none => rw [hc] at h1; simp [Agree] at h1
      | some v =>
        rw [hc] at h1; simp [Agree] at h1
        cases hm2 : concatBytes lookup ts with
        | error e =>
          rw [hm2] at h2
          cases hc2 : concatItems lookup (ts.map partOf) with
          | none => rw [hc2] at h2; simpa [Agree] using h2
          | some v2 => rw [hc2] at h2; simp [Agree] at h2
        | ok s2 =>
          rw [hm2] at h2
          cases hc2 : concatItems lookup (ts.map partOf) with
          | none => rw [hc2] at h2; simp [Agree] at h2
          | some v2 => rw [hc2] at h2; simp [Agree] at h2; simp [Agree, h1, h2]

theorem filter_len_all {α} (p : α → Bool) (l : List α) : (l.filter p).length = l.length ↔ l.all p = true := by
  induction l with
  | nil => simp
  | cons a l ih =>
    have := List.length_filter_le p l
    by_cases h : p a = true
    · simp [List.filter_cons, h, ih]
    · simp [List.filter_cons, h]; omega

theorem filter_len_zero {α} (p : α → Bool) (l : List α) : (l.filter p).length = 0 ↔ l.all (fun x => !p x) = true := by
  induction l with
  | nil => simp
  | cons a l ih =>
    by_cases h : p a = true
    · simp [List.filter_cons, h]
    · simp [List.filter_cons, h, ih]

/-- how the tree stores the reference value `(isBytes, items, uMarker)` of a concatenation -/
def storedConcat (b : Bool × List Nat × Bool) : Value :=
  if b.1 then .bytes b.2.1 else .str (b.2.1.map fffd) b.2.2

theorem concat_agree (lookup : List Nat → Option Nat) (hl : LookupOk lookup) (toks : List StrTok)
    (hne : toks ≠ []) (hf : ∀ t ∈ toks, t.kind.isAnyFString = false)
    (hs : ∀ t ∈ toks, ∀ x ∈ t.body, fffd x = x) :
    ∃ r, parseStrings lookup toks = some r ∧
      Agree (fun v b => v = storedConcat b) r (Spec.concat lookup (toks.map partOf)) := by
  match toks, hne with
  | t0 :: ts, _ =>
    have hany : (t0 :: ts).any (·.kind.isAnyFString) = false := by
      rw [List.any_eq_false]; intro t ht; simp [hf t ht]
    have hallB : ((t0 :: ts).map partOf).all (·.pre.bytes) = (t0 :: ts).all (·.kind.isAnyBytes) := by
      rw [List.all_map]; congr 1; funext t; exact toPrefix_bytes _
    have hallN : ((t0 :: ts).map partOf).all (fun p => !p.pre.bytes) = (t0 :: ts).all (fun t => !t.kind.isAnyBytes) := by
      rw [List.all_map]; congr 1; funext t; simp [Function.comp, partOf, toPrefix_bytes]
    have hle := List.length_filter_le (·.kind.isAnyBytes) (t0 :: ts)
    have e1 := filter_len_all (·.kind.isAnyBytes) (t0 :: ts)
    have e0 := filter_len_zero (·.kind.isAnyBytes) (t0 :: ts)
    unfold parseStrings Spec.concat
    simp only [List.map_cons, hany]
    rw [← List.map_cons, hallB, hallN]
    by_cases hA : 0 < ((t0 :: ts).filter (·.kind.isAnyBytes)).length ∧
        ((t0 :: ts).filter (·.kind.isAnyBytes)).length < (t0 :: ts).length
    · have n1 : ¬ (t0 :: ts).all (·.kind.isAnyBytes) = true := fun h => by have := e1.2 h; omega
      have n0 : ¬ (t0 :: ts).all (fun t => !t.kind.isAnyBytes) = true := fun h => by have := e0.2 h; omega
      refine ⟨_, by rw [if_pos hA], ?_⟩
      simp [n1, n0, Agree]
    · rw [if_neg hA]
      by_cases hB : 0 < ((t0 :: ts).filter (·.kind.isAnyBytes)).length
      · rw [if_pos hB]
        have hall : (t0 :: ts).all (·.kind.isAnyBytes) = true := e1.1 (by omega)
        have hb : ∀ t ∈ (t0 :: ts), t.kind.isAnyBytes = true := by simpa using hall
        have := concatBytes_agree lookup hl (t0 :: ts) hb hs
        have hp0 : (partOf t0).pre.bytes = true := (toPrefix_bytes _).trans (hb t0 (by simp))
        cases hm : concatBytes lookup (t0 :: ts) with
        | error e =>
          rw [hm] at this
          refine ⟨_, rfl, ?_⟩
          cases hc : concatItems lookup ((t0 :: ts).map partOf) with
          | none => rw [hc] at this; simpa [Agree, hall] using this
          | some v => rw [hc] at this; simp [Agree] at this
        | ok s =>
          rw [hm] at this
          refine ⟨_, rfl, ?_⟩
          cases hc : concatItems lookup ((t0 :: ts).map partOf) with
          | none => rw [hc] at this; simp [Agree] at this
          | some v => rw [hc] at this; simp [Agree] at this; simp [Agree, hall, storedConcat, hp0, this]
      · rw [if_neg hB]
        have hall : (t0 :: ts).all (fun t => !t.kind.isAnyBytes) = true := e0.1 (by omega)
        have hb : ∀ t ∈ (t0 :: ts), t.kind.isAnyBytes = false := by simpa using hall
        have := concatStr_agree lookup hl (t0 :: ts) hb hs
        have hp0 : (partOf t0).pre.bytes = false := (toPrefix_bytes _).trans (hb t0 (by simp))
        have hu : (partOf t0).pre.u = t0.kind.isUnicode := toPrefix_u _
        simp only [Bool.false_eq_true, not_false_eq_true, if_true]
        cases hm : concatStr lookup (t0 :: ts) with
        | error e =>
          rw [hm] at this
          refine ⟨_, rfl, ?_⟩
          cases hc : concatItems lookup ((t0 :: ts).map partOf) with
          | none => rw [hc] at this; simpa [Agree, hall] using this
          | some v => rw [hc] at this; simp [Agree] at this
        | ok s =>
          rw [hm] at this
          refine ⟨_, rfl, ?_⟩
          cases hc : concatItems lookup ((t0 :: ts).map partOf) with
          | none => rw [hc] at this; simp [Agree] at this
          | some v => rw [hc] at this; simp [Agree] at this; simp [Agree, hall, storedConcat, hp0, hu, this]

end PV.C06
