/-
  C06 — reference definitions, written from the Python language reference (Lexical analysis,
  "String and Bytes literals", "Integer literals", "Floating point literals", "Imaginary
  literals"), not from the Rust control flow.

  A literal body is the list of the scalar values between the quotes (after the universal-newline
  translation every Python source undergoes).  A decoded text is a list of code points — Python
  strings may contain lone surrogates (`'\ud800'`), so code points here range over 0 … 0x10FFFF
  including 0xD800 … 0xDFFF.  A decoded bytes value is a list of numbers < 256.

  `none` means "not a valid literal" (CPython raises SyntaxError).
-/
namespace PV.C06.Spec

/-! ## escape sequences -/

/-- The table of the reference: `\\ \' \" \a \b \f \n \r \t \v`. -/
def simpleEscape : Nat → Option Nat
  | 92 => some 92     -- \\  backslash
  | 39 => some 39     -- \'  single quote
  | 34 => some 34     -- \"  double quote
  | 97 => some 7      -- \a  BEL
  | 98 => some 8      -- \b  BS
  | 102 => some 12    -- \f  FF
  | 110 => some 10    -- \n  LF
  | 114 => some 13    -- \r  CR
  | 116 => some 9     -- \t  TAB
  | 118 => some 11    -- \v  VT
  | _ => none

def isOct (c : Nat) : Bool := decide (48 ≤ c ∧ c ≤ 55)

def isHex (c : Nat) : Bool :=
  decide (48 ≤ c ∧ c ≤ 57) || decide (65 ≤ c ∧ c ≤ 70) || decide (97 ≤ c ∧ c ≤ 102)

/-- value of a hexadecimal (or octal, decimal) digit character -/
def hexDigitVal (c : Nat) : Nat :=
  if c ≤ 57 then c - 48 else if c ≤ 70 then c - 55 else c - 87

/-- positional value of a digit string, most significant first -/
def ofDigits (base : Nat) (ds : List Nat) : Nat := ds.foldl (fun a d => base * a + hexDigitVal d) 0

/-- `\xhh`, `\uXXXX`, `\UXXXXXXXX`: exactly `n` hex digits are required; the value must be a code
    point (≤ 0x10FFFF).  Returns the code point and the rest. -/
def hexEscape (n : Nat) (rest : List Nat) : Option (Nat × List Nat) :=
  let ds := rest.take n
  if ds.length = n ∧ ds.all isHex ∧ ofDigits 16 ds < 0x110000 then some (ofDigits 16 ds, rest.drop n)
  else none

/-- `\ooo`: one to three octal digits (the first is known to be one) -/
def octEscape (rest : List Nat) : Nat × List Nat :=
  let ds := (rest.take 3).takeWhile isOct
  (ofDigits 8 ds, rest.drop ds.length)

/-- a character that can be part of a `\N{…}` name: anything but `}` -/
def nameChar (c : Nat) : Bool := c != 125

/-- `\N{name}`: the name runs to the next `}`; it must be a known character name. -/
def nameEscape (lookup : List Nat → Option Nat) (rest : List Nat) : Option (Nat × List Nat) :=
  match rest with
  | 123 :: r =>
    let name := r.takeWhile nameChar
    match r.drop name.length with
    | 125 :: r' =>
      match lookup name with
      | some c => some (c, r')
      | none => none
    | _ => none
  | _ => none

/-- One escape sequence; the input is what follows the backslash.
    Returns the decoded items (code points, or byte values when `bytes`) and the rest. -/
def escape (lookup : List Nat → Option Nat) (bytes : Bool) : List Nat → Option (List Nat × List Nat)
  | [] => none                                   -- a lone backslash cannot end a literal
  | c :: rest =>
    match simpleEscape c with
    | some v => some ([v], rest)
    | none =>
      if c = 10 then some ([], rest)              -- backslash-newline: ignored
      else if isOct c then
        let (v, r) := octEscape (c :: rest)
        some ([if bytes then v % 256 else v], r)
      else if c = 120 then                        -- \xhh
        match hexEscape 2 rest with
        | some (v, r) => some ([v], r)
        | none => none
      else if c = 117 ∧ ¬ bytes then              -- \uXXXX   (text only)
        match hexEscape 4 rest with
        | some (v, r) => some ([v], r)
        | none => none
      else if c = 85 ∧ ¬ bytes then               -- \UXXXXXXXX (text only)
        match hexEscape 8 rest with
        | some (v, r) => some ([v], r)
        | none => none
      else if c = 78 ∧ ¬ bytes then               -- \N{name}  (text only)
        match nameEscape lookup rest with
        | some (v, r) => some ([v], r)
        | none => none
      else if bytes ∧ ¬ c < 128 then none         -- bytes: ASCII characters only
      else some ([92, c], rest)                   -- unrecognised: backslash is left in the result

/-- Left-to-right decoding of a cooked (non-raw) body.  `fuel > body.length` suffices. -/
def cooked (lookup : List Nat → Option Nat) (bytes : Bool) : Nat → List Nat → Option (List Nat)
  | 0, _ => none
  | _ + 1, [] => some []
  | fuel + 1, c :: rest =>
    if c = 92 then
      match escape lookup bytes rest with
      | none => none
      | some (items, rest') =>
        match cooked lookup bytes fuel rest' with
        | none => none
        | some t => some (items ++ t)
    else if bytes ∧ ¬ c < 128 then none
    else
      match cooked lookup bytes fuel rest with
      | none => none
      | some t => some (c :: t)

/-- The value of a literal body: `raw` bodies are taken verbatim (bytes: ASCII only). -/
def decode (lookup : List Nat → Option Nat) (bytes raw : Bool) (body : List Nat) : Option (List Nat) :=
  if raw then
    if bytes ∧ ¬ body.all (· < 128) then none else some body
  else cooked lookup bytes (body.length + 1) body

/-- The documented representation difference: Rust `String` cannot hold a lone surrogate, the
    parser stores U+FFFD instead. -/
def fffd (c : Nat) : Nat := if 0xD800 ≤ c ∧ c ≤ 0xDFFF then 0xFFFD else c

/-! ## prefixes

`stringprefix ::= "r" | "u" | "R" | "U" | "f" | "F" | "fr" | "Fr" | "fR" | "FR" | "rf" | "rF" | "Rf" | "RF"`
`bytesprefix  ::= "b" | "B" | "br" | "Br" | "bR" | "BR" | "rb" | "rB" | "Rb" | "RB"` -/

def lower (c : Nat) : Nat := if 65 ≤ c ∧ c ≤ 90 then c + 32 else c

/-- what a prefix says about the literal -/
structure Prefix where
  bytes : Bool
  raw : Bool
  fstring : Bool
  u : Bool
deriving DecidableEq, Repr

/-- the prefix (any case) as a list of letters → its meaning; `none` = not a string prefix.
    The `u` marker (`ast.Constant.kind == 'u'`) is set by the reference only for a prefix spelled
    with a lower-case `u`; `U'…'` is accepted as a text literal without the marker. -/
def prefixKind (p : List Nat) : Option Prefix :=
  match p.map lower with
  | [] => some ⟨false, false, false, false⟩
  | [114] => some ⟨false, true, false, false⟩                   -- r
  | [117] => some ⟨false, false, false, p == [117]⟩             -- u (marker only for lower case)
  | [102] => some ⟨false, false, true, false⟩                   -- f
  | [98] => some ⟨true, false, false, false⟩                    -- b
  | [102, 114] | [114, 102] => some ⟨false, true, true, false⟩  -- fr rf
  | [98, 114] | [114, 98] => some ⟨true, true, false, false⟩    -- br rb
  | _ => none

/-! ## implicit concatenation -/

/-- one literal of a concatenation: prefix meaning and body -/
structure Part where
  pre : Prefix
  body : List Nat

/-- the decoded items of all parts, concatenated; `none` if any part is not a valid literal -/
def concatItems (lookup : List Nat → Option Nat) : List Part → Option (List Nat)
  | [] => some []
  | p :: ps =>
    match decode lookup p.pre.bytes p.pre.raw p.body, concatItems lookup ps with
    | some a, some b => some (a ++ b)
    | _, _ => none

/-- The value of adjacent literals (no f-strings): bytes and text cannot be mixed; the values are
    concatenated; the `u` marker is that of the first literal.
    Result: `(isBytes, items, uMarker)`. -/
def concat (lookup : List Nat → Option Nat) (parts : List Part) : Option (Bool × List Nat × Bool) :=
  match parts with
  | [] => none
  | p0 :: _ =>
    if parts.all (·.pre.bytes) ∨ parts.all (fun p => !p.pre.bytes) then
      match concatItems lookup parts with
      | some items => some (p0.pre.bytes, items, p0.pre.u)
      | none => none
    else none

/-! ## numbers -/

/-- integer value of an integer literal: base from the `0x`/`0o`/`0b` prefix (any case), decimal
    otherwise; underscores are ignored -/
def intValue (text : List Nat) : Nat :=
  let noUnderscore := fun (t : List Nat) => t.filter (· ≠ 95)
  match text with
  | 48 :: x :: rest =>
    if lower x = 120 then ofDigits 16 (noUnderscore rest)
    else if lower x = 111 then ofDigits 8 (noUnderscore rest)
    else if lower x = 98 then ofDigits 2 (noUnderscore rest)
    else ofDigits 10 (noUnderscore text)
  | _ => ofDigits 10 (noUnderscore text)

/-- the decimal numeral of a float literal: underscores removed, `E` written `e` -/
def cleanFloat (text : List Nat) : List Nat :=
  (text.filter (· ≠ 95)).map (fun c => if c = 69 then 101 else c)

/-! ## the finite tables (compared with the behaviourally extracted ones) -/

/-- kinds of the escape table: 0 str, 1 u, 2 bytes, 3 r, 4 rb → (bytes, raw) -/
def tableKind : Nat → Bool × Bool
  | 2 => (true, false)
  | 3 => (false, true)
  | 4 => (true, true)
  | _ => (false, false)

/-- the value of the literal whose body is `\c`, for every kind and every ASCII `c` except CR
    (a CR in a source is read as LF).  No name lookup is involved (`\N` alone is malformed). -/
def escapeTable : List (Nat × Nat × Option (List Nat)) :=
  (List.range 5).flatMap fun k =>
    ((List.range 128).filter (· ≠ 13)).map fun c =>
      (k, c, decode (fun _ => none) (tableKind k).1 (tableKind k).2 [92, c])

/-- numbering of the literal kinds used by the prefix table:
    0 str, 1 f, 2 bytes, 3 raw str, 4 raw f, 5 raw bytes, 6 u -/
def prefixId (p : Prefix) : Nat :=
  if p.bytes then (if p.raw then 5 else 2)
  else if p.fstring then (if p.raw then 4 else 1)
  else if p.raw then 3
  else if p.u then 6 else 0

def prefixLetters : List Nat := [98, 66, 102, 70, 114, 82, 117, 85]     -- b B f F r R u U

/-- every one- and two-letter candidate over `bBfFrRuU` with what the reference says about it -/
def prefixTable : List (List Nat × Option Nat) :=
  prefixLetters.map (fun a => ([a], (prefixKind [a]).map prefixId)) ++
  prefixLetters.flatMap (fun a => prefixLetters.map fun b => ([a, b], (prefixKind [a, b]).map prefixId))

end PV.C06.Spec
