/-
  C06 — executable model of literal decoding in
    parser/src/string.rs   StringParser::{next_char, parse_unicode_literal, parse_octet,
                           parse_unicode_name, parse_escaped_char, parse_bytes, parse_string, parse},
                           parse_strings (the branches without f-strings)
    parser/src/token.rs    StringKind::try_from(char) / ([char; 2]), is_raw, is_any_bytes, …
    parser/src/lexer.rs    next_char (CR / CRLF folding), lex_identifier (prefix detection),
                           lex_string (what is captured as the token value), lex_number,
                           lex_number_radix, lex_normal_number, radix_run, at_exponent

  * A text is the list of its Unicode scalar values (`List Nat`): both the lexer and `StringParser`
    iterate `chars()`.  Offsets are UTF-8 byte offsets, so every consumed character advances the
    location by `csize c` (`char::text_len`).
  * Every Rust error is `Except.error ⟨kind, location⟩`; every Rust panic (`unwrap`, `char::from_u32`
    failing, `u32` overflow with overflow checks, indexing `values[0]`) is the error kind `.panic`.
  * `unicode_names2::character` is the PARAMETER `lookup : List Nat → Option Nat` (name as scalar
    values → scalar value); the harness supplies the lookups per request, theorems quantify over it.
  * `BigInt::from_str_radix` / `str::parse::<BigInt>` are modelled by their contract (positional
    value of a non-empty digit string); `f64::from_str` is not modelled here: the scanner returns the
    cleaned numeral text and the driver evaluates it with `PV.Dec.ofDecimal`.

  Core Lean only.
-/
namespace PV.C06

/-! ## StringKind (token.rs) -/

inductive Kind where
  | str | fstr | bytes | rawStr | rawFStr | rawBytes | unicode
deriving DecidableEq, Repr

def Kind.isRaw : Kind → Bool
  | .rawStr | .rawFStr | .rawBytes => true
  | _ => false

def Kind.isAnyFString : Kind → Bool
  | .fstr | .rawFStr => true
  | _ => false

def Kind.isAnyBytes : Kind → Bool
  | .bytes | .rawBytes => true
  | _ => false

def Kind.isUnicode : Kind → Bool
  | .unicode => true
  | _ => false

def Kind.prefixLen : Kind → Nat
  | .str => 0
  | .rawStr | .fstr | .unicode | .bytes => 1
  | .rawFStr | .rawBytes => 2

/-- `StringKind::try_from(char)` -/
def kindOfChar : Nat → Option Kind
  | 114 | 82 => some .rawStr      -- r R
  | 102 | 70 => some .fstr        -- f F
  | 117 | 85 => some .unicode     -- u U
  | 98 | 66 => some .bytes        -- b B
  | _ => none

/-- `StringKind::try_from([char; 2])` -/
def kindOfChars : Nat → Nat → Option Kind
  | 114, 102 | 114, 70 | 82, 102 | 82, 70 => some .rawFStr     -- r f
  | 102, 114 | 102, 82 | 70, 114 | 70, 82 => some .rawFStr     -- f r
  | 114, 98 | 114, 66 | 82, 98 | 82, 66 => some .rawBytes      -- r b
  | 98, 114 | 98, 82 | 66, 114 | 66, 82 => some .rawBytes      -- b r
  | _, _ => none

/-! ## errors -/

/-- `FStringErrorType` (payloads of `InvalidExpression` dropped) -/
inductive FErr where
  | unclosedLbrace | unopenedRbrace | expectedRbrace | invalidExpression | invalidConversionFlag
  | emptyExpression | mismatchedDelimiter (opened closed : Nat) | expressionNestedTooDeeply
  | expressionCannotInclude | singleRbrace | unmatched (c : Nat) | unterminatedString
deriving DecidableEq, Repr

/-- `LexicalErrorType` as far as literals can raise it; `.panic` stands for a Rust panic. -/
inductive ErrKind where
  | stringError | unicodeError | eof | otherError | fstring (e : FErr) | panic
deriving DecidableEq, Repr

structure Err where
  kind : ErrKind
  loc : Nat
deriving DecidableEq, Repr

/-! ## characters -/

/-- `char::text_len()` = UTF-8 length of a scalar value -/
def csize (c : Nat) : Nat :=
  if c < 0x80 then 1 else if c < 0x800 then 2 else if c < 0x10000 then 3 else 4

/-- `char::from_u32` -/
def charFromU32 (n : Nat) : Option Nat :=
  if n < 0xD800 then some n
  else if n < 0xE000 then none
  else if n < 0x110000 then some n
  else none

/-- `char::to_digit(16)` -/
def toDigit16 (c : Nat) : Option Nat :=
  if 48 ≤ c ∧ c ≤ 57 then some (c - 48)
  else if 97 ≤ c ∧ c ≤ 102 then some (c - 87)
  else if 65 ≤ c ∧ c ≤ 70 then some (c - 55)
  else none

def isOctDigit (c : Nat) : Bool := decide (48 ≤ c ∧ c ≤ 55)

def u32Lim : Nat := 4294967296

/-! ## StringParser: escapes (string.rs)

Every function takes the remaining characters `cs` and the current `location` and returns the
result together with the remaining characters and the new location. -/

/-- the `for i in 1..=literal_number` loop of `parse_unicode_literal`; `n` digits still to read
    (so the shift of the next digit is `(n - 1) * 4`).  `none` = the `unicode_error` return. -/
def unicodeLiteralGo : Nat → Nat → List Nat → Nat → Except Unit (Option (Nat × List Nat × Nat))
  | 0, p, cs, loc => .ok (some (p, cs, loc))
  | _ + 1, _, [], _ => .ok none
  | n + 1, p, c :: cs, loc =>
    match toDigit16 c with
    | none => .ok none
    | some d =>
      let p' := p + d * 2 ^ (n * 4)                      -- `p += d << ((literal_number - i) * 4)`
      if n * 4 < 32 ∧ p' < u32Lim then unicodeLiteralGo n p' cs (loc + csize c)
      else .error ()                                     -- shift / add overflow: panic

/-- `parse_unicode_literal(literal_number)` -/
def parseUnicodeLiteral (n : Nat) (cs : List Nat) (loc : Nat) : Except Err (Nat × List Nat × Nat) :=
  match unicodeLiteralGo n 0 cs loc with
  | .error () => .error ⟨.panic, loc⟩
  | .ok none => .error ⟨.unicodeError, loc⟩
  | .ok (some (p, cs', loc')) =>
    if 0xD800 ≤ p ∧ p ≤ 0xDFFF then .ok (0xFFFD, cs', loc')      -- REPLACEMENT_CHARACTER
    else match charFromU32 p with
      | some c => .ok (c, cs', loc')
      | none => .error ⟨.unicodeError, loc⟩

/-- the `while octet_content.len() < 3` loop: `room` more digits may be taken -/
def octetGo : Nat → List Nat → Nat → List Nat × List Nat × Nat
  | 0, cs, loc => ([], cs, loc)
  | _ + 1, [], loc => ([], [], loc)
  | room + 1, c :: cs, loc =>
    if isOctDigit c then
      let (ds, cs', loc') := octetGo room cs (loc + 1)
      (c :: ds, cs', loc')
    else ([], c :: cs, loc)

/-- contract of `u32::from_str_radix(s, 8)` on ASCII text: `none` on an empty text, a non-octal
    character or a value that does not fit `u32` -/
def fromStrRadix8 (ds : List Nat) : Option Nat :=
  if ds.isEmpty ∨ !ds.all isOctDigit then none
  else
    let v := ds.foldl (fun a d => 8 * a + (d - 48)) 0
    if v < u32Lim then some v else none

/-- `parse_octet(first)`; `none` = panic (one of the two `unwrap`s) -/
def parseOctet (first : Nat) (cs : List Nat) (loc : Nat) : Option (Nat × List Nat × Nat) :=
  let (ds, cs', loc') := octetGo 2 cs loc
  match fromStrRadix8 (first :: ds) with
  | none => none
  | some v =>
    match charFromU32 v with
    | none => none
    | some c => some (c, cs', loc')

/-- the `loop` of `parse_unicode_name`: collect up to `}`.
    `ok (name, rest, loc)` or `error loc` (end of text reached) -/
def nameGo : List Nat → Nat → Except Nat (List Nat × List Nat × Nat)
  | [], loc => .error loc
  | c :: cs, loc =>
    if c = 125 then .ok ([], cs, loc + 1)
    else match nameGo cs (loc + csize c) with
      | .ok (name, rest, loc') => .ok (c :: name, rest, loc')
      | .error l => .error l

/-- `String::len` of the collected name -/
def utf8Len (cs : List Nat) : Nat := (cs.map csize).sum

def maxUnicodeName : Nat := 88

/-- `parse_unicode_name()` -/
def parseUnicodeName (lookup : List Nat → Option Nat) (cs : List Nat) (loc : Nat) :
    Except Err (Nat × List Nat × Nat) :=
  match cs with
  | 123 :: cs1 =>
    let startPos := loc + 1
    match nameGo cs1 startPos with
    | .error l => .error ⟨.stringError, l⟩
    | .ok (name, rest, loc') =>
      if utf8Len name > maxUnicodeName then .error ⟨.unicodeError, loc'⟩
      else match lookup name with
        | some c => .ok (c, rest, loc')
        | none => .error ⟨.unicodeError, startPos⟩
  | _ => .error ⟨.stringError, loc⟩

/-- `parse_escaped_char()`: the characters to push, the rest, the new location -/
def parseEscapedChar (lookup : List Nat → Option Nat) (kind : Kind) (cs : List Nat) (loc : Nat) :
    Except Err (List Nat × List Nat × Nat) :=
  match cs with
  | [] => .error ⟨.stringError, loc⟩
  | c :: cs1 =>
    let loc1 := loc + csize c
    let one (x : Nat) : Except Err (List Nat × List Nat × Nat) := .ok ([x], cs1, loc1)
    let lit (r : Except Err (Nat × List Nat × Nat)) : Except Err (List Nat × List Nat × Nat) :=
      match r with
      | .ok (x, cs', loc') => .ok ([x], cs', loc')
      | .error e => .error e
    let other : Except Err (List Nat × List Nat × Nat) :=
      if kind.isAnyBytes ∧ ¬ c < 128 then .error ⟨.otherError, loc1⟩
      else .ok ([92, c], cs1, loc1)
    match c with
    | 92 => one 92
    | 39 => one 39
    | 34 => one 34
    | 97 => one 7
    | 98 => one 8
    | 102 => one 12
    | 110 => one 10
    | 114 => one 13
    | 116 => one 9
    | 118 => one 11
    | 120 => lit (parseUnicodeLiteral 2 cs1 loc1)
    | 117 => if kind.isAnyBytes then other else lit (parseUnicodeLiteral 4 cs1 loc1)
    | 85 => if kind.isAnyBytes then other else lit (parseUnicodeLiteral 8 cs1 loc1)
    | 78 => if kind.isAnyBytes then other else lit (parseUnicodeName lookup cs1 loc1)
    | 10 => .ok ([], cs1, loc1)
    | _ =>
      if isOctDigit c then
        match parseOctet c cs1 loc1 with
        | some (x, cs', loc') => .ok ([x], cs', loc')
        | none => .error ⟨.panic, loc1⟩
      else other

/-! ## StringParser: parse_string / parse_bytes -/

/-- the `while let Some(ch) = self.next_char()` loop of `parse_string`; `fuel > cs.length` suffices -/
def parseStringGo (lookup : List Nat → Option Nat) (kind : Kind) :
    Nat → List Nat → Nat → Except Err (List Nat)
  | 0, _, loc => .error ⟨.panic, loc⟩
  | _ + 1, [], _ => .ok []
  | fuel + 1, c :: cs, loc =>
    if c = 92 ∧ ¬ kind.isRaw then
      match parseEscapedChar lookup kind cs (loc + 1) with
      | .error e => .error e
      | .ok (s, cs', loc') =>
        match parseStringGo lookup kind fuel cs' loc' with
        | .error e => .error e
        | .ok t => .ok (s ++ t)
    else
      match parseStringGo lookup kind fuel cs (loc + csize c) with
      | .error e => .error e
      | .ok t => .ok (c :: t)

/-- the loop of `parse_bytes` (characters still as scalar values) -/
def parseBytesGo (lookup : List Nat → Option Nat) (kind : Kind) :
    Nat → List Nat → Nat → Except Err (List Nat)
  | 0, _, loc => .error ⟨.panic, loc⟩
  | _ + 1, [], _ => .ok []
  | fuel + 1, c :: cs, loc =>
    if c = 92 ∧ ¬ kind.isRaw then
      match parseEscapedChar lookup kind cs (loc + 1) with
      | .error e => .error e
      | .ok (s, cs', loc') =>
        match parseBytesGo lookup kind fuel cs' loc' with
        | .error e => .error e
        | .ok t => .ok (s ++ t)
    else if ¬ c < 128 then .error ⟨.otherError, loc + csize c⟩
    else
      match parseBytesGo lookup kind fuel cs (loc + csize c) with
      | .error e => .error e
      | .ok t => .ok (c :: t)

/-- A literal value: `Constant::Str` with the `kind: Some("u")` marker, or `Constant::Bytes`. -/
inductive Value where
  | str (s : List Nat) (u : Bool)
  | bytes (b : List Nat)
deriving DecidableEq, Repr

/-- one string token as the parser hands it to `parse_strings`:
    `(start, (value, kind, triple_quoted), end)` -/
structure StrTok where
  start : Nat
  body : List Nat
  kind : Kind
  triple : Bool
  stop : Nat
deriving DecidableEq, Repr

/-- `StringParser::new(..).location` -/
def StrTok.bodyLoc (t : StrTok) : Nat := t.start + t.kind.prefixLen + (if t.triple then 3 else 1)

/-- `parse_string` on the body: the decoded text -/
def parseString (lookup : List Nat → Option Nat) (kind : Kind) (body : List Nat) (loc : Nat) :
    Except Err (List Nat) :=
  parseStringGo lookup kind (body.length + 1) body loc

/-- `parse_bytes` on the body: `content.chars().map(|c| c as u8)` -/
def parseBytes (lookup : List Nat → Option Nat) (kind : Kind) (body : List Nat) (loc : Nat) :
    Except Err (List Nat) :=
  match parseBytesGo lookup kind (body.length + 1) body loc with
  | .error e => .error e
  | .ok cs => .ok (cs.map (· % 256))

/-- `StringParser::parse` for the kinds that are not f-strings (those live in `PV.C07`). -/
def decode (lookup : List Nat → Option Nat) (kind : Kind) (body : List Nat) (loc : Nat) :
    Except Err Value :=
  if kind.isAnyBytes then
    match parseBytes lookup kind body loc with
    | .error e => .error e
    | .ok b => .ok (.bytes b)
  else
    match parseString lookup kind body loc with
    | .error e => .error e
    | .ok s => .ok (.str s kind.isUnicode)

/-! ## parse_strings without f-strings -/

def concatBytes (lookup : List Nat → Option Nat) : List StrTok → Except Err (List Nat)
  | [] => .ok []
  | t :: ts =>
    match parseBytes lookup t.kind t.body t.bodyLoc with
    | .error e => .error e
    | .ok b =>
      match concatBytes lookup ts with
      | .error e => .error e
      | .ok bs => .ok (b ++ bs)

def concatStr (lookup : List Nat → Option Nat) : List StrTok → Except Err (List Nat)
  | [] => .ok []
  | t :: ts =>
    match parseString lookup t.kind t.body t.bodyLoc with
    | .error e => .error e
    | .ok b =>
      match concatStr lookup ts with
      | .error e => .error e
      | .ok bs => .ok (b ++ bs)

/-- `parse_strings(values)` as long as no value is an f-string; `none` when one is (third branch,
    modelled in `PV.C07`).  `values[0]` on an empty vector panics. -/
def parseStrings (lookup : List Nat → Option Nat) (toks : List StrTok) : Option (Except Err Value) :=
  match toks with
  | [] => some (.error ⟨.panic, 0⟩)
  | t0 :: _ =>
    let initialKind := t0.kind.isUnicode
    let hasFString := toks.any (·.kind.isAnyFString)
    let numBytes := (toks.filter (·.kind.isAnyBytes)).length
    if 0 < numBytes ∧ numBytes < toks.length then
      some (.error ⟨.otherError, t0.start⟩)
    else if 0 < numBytes then
      match concatBytes lookup toks with
      | .error e => some (.error e)
      | .ok b => some (.ok (.bytes b))
    else if ¬ hasFString then
      match concatStr lookup toks with
      | .error e => some (.error e)
      | .ok s => some (.ok (.str s initialKind))
    else none

/-! ## Lexer: next_char, prefix detection, lex_string (lexer.rs) -/

/-- `Lexer::next_char` on the remaining source: CR and CR LF are returned as LF. -/
def nextChar : List Nat → Nat → Option (Nat × List Nat × Nat)
  | [], _ => none
  | 13 :: 10 :: rest, loc => some (10, rest, loc + 2)
  | 13 :: rest, loc => some (10, rest, loc + 1)
  | c :: rest, loc => some (c, rest, loc + csize c)

def isQuote (c : Nat) : Bool := c = 34 || c = 39

/-- the prefix test at the top of `lex_identifier` (the window of three), plus the plain-quote arm
    of `consume_character` -/
def detectString : List Nat → Option Kind
  | c :: rest =>
    if isQuote c then some .str
    else match rest with
      | q :: rest2 =>
        if isQuote q then kindOfChar c
        else match rest2 with
          | q2 :: _ => if isQuote q2 then kindOfChars c q else none
          | [] => none
      | [] => none
  | [] => none

/-- the `loop` of `lex_string`; returns the captured value, the rest of the source and the end
    location.  `fuel > cs.length` suffices. -/
def lexStringGo (quote : Nat) (triple : Bool) :
    Nat → List Nat → Nat → Except Err (List Nat × List Nat × Nat)
  | 0, _, loc => .error ⟨.panic, loc⟩
  | fuel + 1, cs, loc =>
    match nextChar cs loc with
    | none => .error ⟨if triple then .eof else .stringError, loc⟩
    | some (c, cs1, loc1) =>
      let push (x : List Nat) (r : Except Err (List Nat × List Nat × Nat)) :=
        match r with
        | .error e => Except.error e
        | .ok (v, rest, l) => Except.ok (x ++ v, rest, l)
      match (if c = 92 then nextChar cs1 loc1 else none) with
      | some (n, cs2, loc2) => push [92, n] (lexStringGo quote triple fuel cs2 loc2)
      | none =>
        if c = 10 ∧ ¬ triple then .error ⟨.otherError, loc1⟩
        else if c = quote then
          if triple then
            match cs1 with
            | q1 :: q2 :: rest =>
              if q1 = quote ∧ q2 = quote then .ok ([], rest, loc1 + 2)
              else push [c] (lexStringGo quote triple fuel cs1 loc1)
            | _ => push [c] (lexStringGo quote triple fuel cs1 loc1)
          else .ok ([], cs1, loc1)
        else push [c] (lexStringGo quote triple fuel cs1 loc1)

/-- `lex_string(kind)` at `cs` (which starts with the prefix): the token and the rest -/
def lexString (kind : Kind) (cs : List Nat) (loc : Nat) : Except Err (StrTok × List Nat) :=
  let cs0 := cs.drop kind.prefixLen           -- prefix letters are ASCII: one byte each
  let loc0 := loc + kind.prefixLen
  match cs0 with
  | [] => .error ⟨.panic, loc0⟩               -- `self.next_char().unwrap()`
  | q :: cs1 =>
    let loc1 := loc0 + 1
    let (triple, cs2, loc2) :=
      match cs1 with
      | a :: b :: rest => if a = q ∧ b = q then (true, rest, loc1 + 2) else (false, cs1, loc1)
      | _ => (false, cs1, loc1)
    match lexStringGo q triple (cs2.length + 1) cs2 loc2 with
    | .error e => .error e
    | .ok (v, rest, stop) => .ok ({ start := loc, body := v, kind, triple, stop }, rest)

/-! ## Lexer: numbers -/

inductive Radix where
  | bin | oct | dec | hex
deriving DecidableEq, Repr

def Radix.base : Radix → Nat
  | .bin => 2 | .oct => 8 | .dec => 10 | .hex => 16

/-- `is_digit_of_radix` -/
def isDigitOfRadix (r : Radix) (c : Nat) : Bool :=
  match r with
  | .bin => decide (48 ≤ c ∧ c ≤ 49)
  | .oct => decide (48 ≤ c ∧ c ≤ 55)
  | .dec => decide (48 ≤ c ∧ c ≤ 57)
  | .hex => decide (48 ≤ c ∧ c ≤ 57) || decide (97 ≤ c ∧ c ≤ 102) || decide (65 ≤ c ∧ c ≤ 70)

/-- `radix_run(radix)`: the collected digits (underscores dropped) and the rest of the source -/
def radixRun (r : Radix) : List Nat → List Nat × List Nat
  | [] => ([], [])
  | c :: cs =>
    if isDigitOfRadix r c then
      let (t, rest) := radixRun r cs
      (c :: t, rest)
    else if c = 95 then
      match cs with
      | d :: _ => if isDigitOfRadix r d then radixRun r cs else ([], c :: cs)
      | [] => ([], c :: cs)
    else ([], c :: cs)

/-- value of one digit character in any radix up to 16 -/
def digitVal (c : Nat) : Nat :=
  if c ≤ 57 then c - 48 else if c ≤ 70 then c - 55 else c - 87

/-- contract of `BigInt::from_str_radix(text, radix)` / `text.parse::<BigInt>()` on a text made of
    digits of that radix: `none` (an `Err`) on the empty text -/
def bigIntOfDigits (r : Radix) (text : List Nat) : Option Nat :=
  if text.isEmpty then none else some (text.foldl (fun a d => r.base * a + digitVal d) 0)

/-- `at_exponent` -/
def atExponent : List Nat → Bool
  | e :: s :: rest =>
    (e = 101 || e = 69) &&
      (if s = 43 || s = 45 then
        match rest with
        | d :: _ => decide (48 ≤ d ∧ d ≤ 57)
        | [] => false
       else decide (48 ≤ s ∧ s ≤ 57))
  | _ => false

/-- a numeric token: `Tok::Int`, or the text handed to `f64::from_str` for `Tok::Float` /
    the imaginary part of `Tok::Complex` -/
inductive NumTok where
  | int (v : Nat)
  | float (text : List Nat)
  | complex (text : List Nat)
deriving DecidableEq, Repr

/-- contract of `f64::from_str` as to WHICH texts it accepts, on the alphabet the scanner can
    produce: `digits* [. digits*] [e [+-] digits+]` with at least one mantissa digit -/
def floatTextOk (t : List Nat) : Bool :=
  let isD := fun c => decide (48 ≤ c ∧ c ≤ 57)
  let mant := t.takeWhile (fun c => isD c || c = 46)
  let rest := t.dropWhile (fun c => isD c || c = 46)
  let mantOk := mant.any isD && (mant.filter (· = 46)).length ≤ 1
  let expOk :=
    match rest with
    | [] => true
    | 101 :: r =>
      let r := match r with
        | 43 :: r' => r'
        | 45 :: r' => r'
        | _ => r
      !r.isEmpty && r.all isD
    | _ => false
  mantOk && expOk

/-- `lex_number_radix` after the two prefix characters -/
def lexNumberRadix (r : Radix) (cs : List Nat) (startPos : Nat) : Except Err (NumTok × List Nat) :=
  let (text, rest) := radixRun r cs
  match bigIntOfDigits r text with
  | none => .error ⟨.otherError, startPos⟩
  | some v => .ok (.int v, rest)

/-- position of the lexer when `rest` is what remains of a `total`-character ASCII text that
    started at `loc` -/
def numPos (loc total : Nat) (rest : List Nat) : Nat := loc + (total - rest.length)

/-- the `'.'` part of the float branch of `lex_normal_number` -/
def numFrac (loc total : Nat) (t0 r0 : List Nat) : Except Err (List Nat × List Nat) :=
  match r0 with
  | 46 :: r1 =>
    if r1.head? = some 95 then .error ⟨.otherError, numPos loc total r0⟩
    else .ok (t0 ++ [46] ++ (radixRun .dec r1).1, (radixRun .dec r1).2)
  | _ => .ok (t0, r0)

/-- the exponent part of the float branch (`if let Some('e' | 'E') = self.window[0]`) -/
def numExpo (loc total : Nat) (t1 r1 : List Nat) : Except Err (List Nat × List Nat) :=
  match r1 with
  | e :: r2 =>
    if e = 101 ∨ e = 69 then
      if r2.head? = some 95 then .error ⟨.otherError, numPos loc total r1⟩
      else
        let t2 := t1 ++ [101]                       -- `to_ascii_lowercase`
        match r2 with
        | s :: r3 =>
          if s = 43 ∨ s = 45 then
            if r3.head? = some 95 then .error ⟨.otherError, numPos loc total r2⟩
            else .ok (t2 ++ [s] ++ (radixRun .dec r3).1, (radixRun .dec r3).2)
          else .ok (t2 ++ (radixRun .dec r2).1, (radixRun .dec r2).2)
        | [] => .ok (t2, [])
    else .ok (t1, r1)
  | [] => .ok (t1, [])

/-- `f64::from_str` and the trailing `j` of the float branch -/
def numFloatFinish (loc total : Nat) (t r : List Nat) : Except Err (NumTok × List Nat) :=
  if ¬ floatTextOk t then .error ⟨.otherError, numPos loc total r⟩
  else match r with
    | j :: r' => if j = 106 ∨ j = 74 then .ok (.complex t, r') else .ok (.float t, r)
    | [] => .ok (.float t, r)

/-- the integer branch: trailing `j` or `parse::<BigInt>()` with the leading-zero rule -/
def numIntFinish (loc total : Nat) (startIsZero : Bool) (t0 r0 : List Nat) : Except Err (NumTok × List Nat) :=
  let int : Except Err (NumTok × List Nat) :=
    match bigIntOfDigits .dec t0 with
    | none => .error ⟨.panic, numPos loc total r0⟩                                 -- `.unwrap()`
    | some v => if startIsZero ∧ v ≠ 0 then .error ⟨.otherError, numPos loc total r0⟩ else .ok (.int v, r0)
  match r0 with
  | j :: r' =>
    if j = 106 ∨ j = 74 then
      if floatTextOk t0 then .ok (.complex t0, r') else .error ⟨.panic, numPos loc total r'⟩   -- `.unwrap()`
    else int
  | [] => int

/-- `lex_normal_number`; `loc` is the location of the first character of `cs` -/
def lexNormalNumber (cs : List Nat) (loc : Nat) : Except Err (NumTok × List Nat) :=
  let total := cs.length                               -- ASCII only: bytes = chars
  let startIsZero := decide (cs.head? = some 48)
  let t0 := (radixRun .dec cs).1
  let r0 := (radixRun .dec cs).2
  if r0.head? = some 46 ∨ atExponent r0 then
    match numFrac loc total t0 r0 with
    | .error e => .error e
    | .ok (t1, r1) =>
      match numExpo loc total t1 r1 with
      | .error e => .error e
      | .ok (t, r) => numFloatFinish loc total t r
  else numIntFinish loc total startIsZero t0 r0

/-- `lex_number` -/
def lexNumber (cs : List Nat) (loc : Nat) : Except Err (NumTok × List Nat) :=
  match cs with
  | 48 :: x :: rest =>
    if x = 120 ∨ x = 88 then lexNumberRadix .hex rest loc
    else if x = 111 ∨ x = 79 then lexNumberRadix .oct rest loc
    else if x = 98 ∨ x = 66 then lexNumberRadix .bin rest loc
    else lexNormalNumber cs loc
  | _ => lexNormalNumber cs loc

/-! ## a one-expression literal lexer (only what a literal expression needs)

`consume_normal` restricted to: blanks between tokens, string literals with or without prefix,
numbers.  Anything else is outside this model (`none`). -/

inductive LitTok where
  | string (t : StrTok)
  | num (n : NumTok)
deriving DecidableEq, Repr

def startsNumber : List Nat → Bool
  | c :: rest =>
    decide (48 ≤ c ∧ c ≤ 57) ||
      (c = 46 && match rest with
        | d :: _ => decide (48 ≤ d ∧ d ≤ 57)
        | [] => false)
  | [] => false

/-- tokens of a source that consists of literals separated by blanks; `none` = outside the model -/
def lexLits : Nat → List Nat → Nat → Option (Except Err (List LitTok))
  | 0, _, _ => none
  | _ + 1, [], _ => some (.ok [])
  | fuel + 1, c :: cs, loc =>
    if c = 32 ∨ c = 9 then lexLits fuel cs (loc + 1)
    else if startsNumber (c :: cs) then
      match lexNumber (c :: cs) loc with
      | .error e => some (.error e)
      | .ok (n, rest) =>
        match lexLits fuel rest (loc + ((c :: cs).length - rest.length)) with
        | some (.ok ts) => some (.ok (.num n :: ts))
        | r => r
    else
      match detectString (c :: cs) with
      | none => none
      | some kind =>
        match lexString kind (c :: cs) loc with
        | .error e => some (.error e)
        | .ok (t, rest) =>
          match lexLits fuel rest t.stop with
          | some (.ok ts) => some (.ok (.string t :: ts))
          | r => r

/-- what the one-literal expression evaluates to -/
inductive Lit where
  | value (v : Value)
  | num (n : NumTok)
  | fstring (toks : List StrTok)      -- handled by `PV.C07`
deriving DecidableEq, Repr

def allStrings : List LitTok → Option (List StrTok)
  | [] => some []
  | .string t :: ts =>
    match allStrings ts with
    | some r => some (t :: r)
    | none => none
  | .num _ :: _ => none

/-- parse of a source consisting of one number or of adjacent string literals -/
def parseLit (lookup : List Nat → Option Nat) (src : List Nat) : Option (Except Err Lit) :=
  match lexLits (src.length + 1) src 0 with
  | none => none
  | some (.error e) => some (.error e)
  | some (.ok [.num n]) => some (.ok (.num n))
  | some (.ok toks) =>
    match allStrings toks with
    | none => none
    | some [] => none
    | some sts =>
      match parseStrings lookup sts with
      | none => some (.ok (.fstring sts))
      | some (.error e) => some (.error e)
      | some (.ok v) => some (.ok (.value v))

end PV.C06
