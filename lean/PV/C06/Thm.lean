import PV.C06.Model
import PV.C06.Spec
import PV.Gen.C06Tables
namespace PV.C06

theorem escape_table_eq : Gen.escapeTable = Spec.escapeTable := by decide +kernel

theorem prefix_table_eq : Gen.prefixTable = Spec.prefixTable := by decide +kernel

end PV.C06
