import PV.C06.Model
import PV.C06.Spec
import PV.C06.Lemmas
import PV.C06.NumLemmas
import PV.Gen.C06Tables
/-
  C06 — property theorems: string, bytes and numeric literals decode to their Python values.

  Reading guide.  `Agree rel m s` (Lemmas.lean) says: the model result `m` and the reference result
  `s` either both succeed with `rel`-related values, or the reference rejects (`none`) and the
  model returns a Rust error that is not a panic.  `LookupOk lookup` is the only thing assumed about
  the `\N{…}` name table (a parameter): names longer than 88 bytes are unknown and results are
  scalar values.  `fffd` is the documented representation difference (a lone surrogate escape is
  stored as U+FFFD).  A body "is a Rust `str`" when it contains no surrogate: `∀ x ∈ body, fffd x = x`.
-/
namespace PV.C06
open Spec

/-! ### escape decoding: model = reference, for ALL bodies -/

/-- For every non-f-string kind (text or bytes, raw or cooked), every body and every start
    location: the value `StringParser::parse` builds is the reference value of the literal
    (`storedAs`: bytes as they are; text with surrogates replaced by U+FFFD, `u` marker from the
    kind), and the reference rejects exactly when the parser reports a (non-panic) error. -/
theorem decode_eq_spec (lookup : List Nat → Option Nat) (hl : LookupOk lookup) (kind : Kind)
    (_hk : kind.isAnyFString = false) (body : List Nat) (hbody : ∀ x ∈ body, fffd x = x) (loc : Nat) :
    Agree (fun v items => v = storedAs kind items)
      (decode lookup kind body loc) (Spec.decode lookup kind.isAnyBytes kind.isRaw body) :=
  decode_agree lookup hl kind body hbody loc

/-- No `unwrap`, `char::from_u32(..).unwrap()` or checked `u32` operation in the escape decoder can
    fail: the decoder never returns the model's `panic` outcome. -/
theorem decode_no_panic (lookup : List Nat → Option Nat) (hl : LookupOk lookup) (kind : Kind)
    (body : List Nat) (hbody : ∀ x ∈ body, fffd x = x) (loc : Nat) (e : Err)
    (h : decode lookup kind body loc = .error e) : e.kind ≠ .panic := by
  have := decode_agree lookup hl kind body hbody loc
  rw [h] at this
  cases hs : Spec.decode lookup kind.isAnyBytes kind.isRaw body with
  | none => rw [hs] at this; exact this
  | some v => rw [hs] at this; exact this.elim

-- non-vacuity: a body with every kind of escape, text and bytes
example : decode (fun n => if n = [65] then some 8226 else none) .str
    [97, 92, 110, 92, 120, 52, 49, 92, 117, 100, 56, 48, 48, 92, 78, 123, 65, 125, 92, 55, 55, 55, 92, 113, 92, 10] 1
    = .ok (.str [97, 10, 65, 0xFFFD, 8226, 511, 92, 113] false) := by rfl
example : Spec.decode (fun n => if n = [65] then some 8226 else none) false false
    [97, 92, 110, 92, 120, 52, 49, 92, 117, 100, 56, 48, 48, 92, 78, 123, 65, 125, 92, 55, 55, 55, 92, 113, 92, 10]
    = some [97, 10, 65, 0xD800, 8226, 511, 92, 113] := by decide
example : decode (fun _ => none) .bytes [92, 55, 55, 55, 92, 117, 92, 120, 102, 70] 2
    = .ok (.bytes [255, 92, 117, 255]) := by rfl
example : decode (fun _ => none) .str [92, 120, 52] 1 = .error ⟨.unicodeError, 3⟩ := by rfl

/-! ### behaviourally extracted tables (regenerated from the real parser on every run) -/

/-- The one-character escape table of the real parser (every ASCII `c` × {str, u, bytes, r, rb},
    obtained by running the parser) is the reference table. -/
theorem escape_table_eq : Gen.escapeTable = Spec.escapeTable := by decide +kernel

/-- The full prefix statement: what the real parser recognises for every 1- and 2-letter prefix
    over `bBfFrRuU` is what the reference says. -/
def prefix_table_full : Prop := Gen.prefixTable = Spec.prefixTable

/-- … which holds for every row except `U` (known finding `kind-marker-uppercase-U`): -/
theorem prefix_table_eq_partial :
    Gen.prefixTable.filter (fun r => r.1 != [85]) = Spec.prefixTable.filter (fun r => r.1 != [85]) := by
  decide +kernel

/-- … and fails on the unchanged code: the real parser marks `U'…'` with kind `u` (row 6), the
    reference treats it as a plain text literal (row 0). -/
theorem prefix_table_fails : ¬ prefix_table_full := by
  unfold prefix_table_full; decide +kernel

theorem prefix_table_witness :
    Gen.prefixTable.lookup [85] = some (some 6) ∧ Spec.prefixTable.lookup [85] = some (some 0) := by
  decide +kernel

/-! ### prefix recognition of the model (`lex_identifier` window test + `StringKind::try_from`) -/

/-- full statement: for every candidate prefix `p` of at most two characters in front of a quote,
    the model recognises exactly the reference prefixes with the reference meaning -/
def detect_full : Prop :=
  ∀ (p : List Nat) (q : Nat) (rest : List Nat), p.length ≤ 2 → isQuote q = true →
    (∀ c ∈ p, isQuote c = false) →
    (detectString (p ++ q :: rest)).map Kind.toPrefix = Spec.prefixKind p

theorem detect_eq_spec_partial (p : List Nat) (q : Nat) (rest : List Nat) (hp : p.length ≤ 2)
    (hq : isQuote q = true) (hnq : ∀ c ∈ p, isQuote c = false) (hU : p ≠ [85]) :
    (detectString (p ++ q :: rest)).map Kind.toPrefix = Spec.prefixKind p := by
  match p, hp with
  | [], _ => simp [detectString, hq, Spec.prefixKind, Kind.toPrefix]
  | [c], _ =>
    have hc : isQuote c = false := hnq c (by simp)
    simp only [List.cons_append, List.nil_append, detectString, hc, hq, Bool.false_eq_true, if_false, if_true]
    exact kindOfChar_spec c (fun h => hU (by rw [h]))
  | [c1, c2], _ =>
    have h1 : isQuote c1 = false := hnq c1 (by simp)
    have h2 : isQuote c2 = false := hnq c2 (by simp)
    simp only [List.cons_append, List.nil_append, detectString, h1, h2, hq, Bool.false_eq_true, if_false, if_true]
    exact kindOfChars_spec c1 c2

/-- the `U` row: the model (like the code) gives the `u` marker, the reference does not -/
theorem detect_fails : ¬ detect_full := by
  intro h
  have := h [85] 39 [] (by decide) (by decide) (by decide)
  revert this
  decide

example : (detectString [82, 98, 39, 39]).map Kind.toPrefix = Spec.prefixKind [82, 98] := by decide

/-! ### implicit concatenation (`parse_strings` without f-strings) -/

/-- Adjacent literals: `parse_strings` answers (never the third, f-string, branch); mixing bytes and
    text is rejected by both; otherwise the values are concatenated in order and the `u` marker is
    that of the first literal. -/
theorem concat_spec (lookup : List Nat → Option Nat) (hl : LookupOk lookup) (toks : List StrTok)
    (hne : toks ≠ []) (hf : ∀ t ∈ toks, t.kind.isAnyFString = false)
    (hs : ∀ t ∈ toks, ∀ x ∈ t.body, fffd x = x) :
    ∃ r, parseStrings lookup toks = some r ∧
      Agree (fun v b => v = storedConcat b) r (Spec.concat lookup (toks.map partOf)) :=
  concat_agree lookup hl toks hne hf hs

example : parseStrings (fun _ => none)
    [⟨0, [97], .unicode, false, 4⟩, ⟨5, [92, 110], .rawStr, false, 10⟩, ⟨11, [92, 110], .str, true, 19⟩]
    = some (.ok (.str [97, 92, 110, 10] true)) := by rfl
example : parseStrings (fun _ => none) [⟨0, [97], .str, false, 3⟩, ⟨4, [98], .bytes, false, 8⟩]
    = some (.error ⟨.otherError, 0⟩) := by rfl

/-! ### numbers -/

/-- Whenever the number scanner reads a whole text as an integer token, its value is the
    positional value of the digits in the base given by the prefix, underscores ignored
    (arbitrary precision). -/
theorem int_value (text : List Nat) (loc v : Nat)
    (h : lexNumber text loc = .ok (.int v, [])) : v = Spec.intValue text :=
  int_value' text loc v h

example : lexNumber [48, 88, 95, 102, 70, 95, 49] 0 = .ok (.int 4081, []) := by rfl
example : lexNumber [49, 95, 48, 48, 48] 7 = .ok (.int 1000, []) := by rfl

/-- Float and imaginary literals: the text handed to `f64::from_str` is the numeral with the
    underscores removed and the exponent marker in lower case (for an imaginary literal: the
    numeral without its `j`).  That `f64::from_str` rounds correctly is trusted and sampled
    (against exact arithmetic `PV.Dec.ofDecimal` and CPython) — hence `_partial`. -/
theorem float_scan_partial (text : List Nat) (loc : Nat) (t : List Nat) :
    (lexNormalNumber text loc = .ok (.float t, []) → t = Spec.cleanFloat text) ∧
    (lexNormalNumber text loc = .ok (.complex t, []) →
      ∃ body j, (j = 106 ∨ j = 74) ∧ text = body ++ [j] ∧ t = Spec.cleanFloat body) := by
  constructor
  · intro h
    rcases lexNormalNumber_shape text loc _ _ h with ⟨v, hv, _⟩ | ⟨t', pre, hv, hp, ht⟩ | ⟨t', pre, j, hv, _⟩
    · cases hv
    · cases hv; rw [List.append_nil] at hp; rw [hp]; exact ht
    · cases hv
  · intro h
    rcases lexNormalNumber_shape text loc _ _ h with ⟨v, hv, _⟩ | ⟨t', pre, hv, _⟩ | ⟨t', pre, j, hv, hj, hp, ht⟩
    · cases hv
    · cases hv
    · cases hv; exact ⟨pre, j, hj, hp, ht⟩

example : lexNormalNumber [49, 95, 48, 46, 53, 69, 43, 48, 95, 49] 0
    = .ok (.float [49, 48, 46, 53, 101, 43, 48, 49], []) := by rfl
example : lexNormalNumber [49, 101, 53, 74] 0 = .ok (.complex [49, 101, 53], []) := by rfl

end PV.C06
