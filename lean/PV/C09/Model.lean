import PV.C09.Types
/-
  C09 — executable model of the hand-written entry points of `parser/src/parser.rs`
  and of the 55 generated ones of `parser/src/gen/parse.rs` (interpreted from the regenerated
  table `PV.C09.Gen.typedParsers`).

  The LALRPOP parser and the lexer are PARAMETERS of the model (`Env.parseTop`, `Env.lexTop`):
  everything here is a function over an arbitrary `parseTop : Mode → tokens → Res Mod`, exactly as
  every Rust entry point is a function over `python::TopParser` and `lexer::lex_starts_at`.

  The model follows the code AFTER the repairs 9f7255d (`not_before` in both `parse_starts_at`),
  e8203b1 (start marker = empty range at the start of the first token) and 582d03b (the cfg(full-lexer)
  Comment/NonLogicalNewline filter sits inside `parse_filtered_tokens`, before the peek; neither
  `pub fn parse_tokens` nor the trait's `parse_starts_at` filters).
  Core Lean only.
-/
namespace PV.C09

/-- result of an entry point: `Ok`, `Err(ParseError { error, offset, .. })`, or a Rust panic
    (`unreachable!()` arms).  The error kind is the `ParseErrorType` rendered as text. -/
inductive Res (α : Type) where
  | ok (a : α)
  | err (kind : String) (offset : Nat)
  | panic
  deriving Repr

namespace Res
def bind {α β} (r : Res α) (f : α → Res β) : Res β :=
  match r with
  | ok a => f a
  | err k o => err k o
  | panic => panic

def map {α β} (f : α → β) (r : Res α) : Res β := r.bind (fun a => ok (f a))

def isErr {α} : Res α → Bool
  | err _ _ => true
  | _ => false
end Res

/-- the types the model is polymorphic in -/
structure Sig where
  Src : Type   -- source text
  T : Type     -- one item of a token stream (`LexResult`: spanned token or lexical error)
  R : Type     -- the `range` field of the `Mod*` nodes (`OptionalRange<TextRange>`)
  S : Type     -- `ast::Stmt`
  E : Type     -- `ast::Expr`
  I : Type     -- `ast::Identifier`
  C : Type     -- `ast::Constant`
  P : Type     -- payload struct of one `Stmt`/`Expr` variant (`ast::StmtFunctionDef`, …)
  TI : Type    -- `Vec<TypeIgnore>`

structure ModModule (σ : Sig) where
  range : σ.R
  body : List σ.S
  typeIgnores : σ.TI

structure ModInteractive (σ : Sig) where
  range : σ.R
  body : List σ.S

structure ModExpression (σ : Sig) where
  range : σ.R
  body : σ.E

/-- `ast::Mod` (`other` = `Mod::FunctionType`, never built for the three start markers) -/
inductive Mod (σ : Sig) where
  | module (m : ModModule σ)
  | interactive (m : ModInteractive σ)
  | expression (m : ModExpression σ)
  | other

/-- what the entry points need to see of statements and expressions -/
structure View (σ : Sig) where
  stmtKind : σ.S → Nat          -- position of the variant in `enum Stmt`
  stmtStart : σ.S → Nat         -- `stmt.range().start()`
  stmtEnd : σ.S → Nat
  stmtPayload : σ.S → σ.P       -- the struct inside the variant
  exprKind : σ.E → Nat
  exprStart : σ.E → Nat
  exprEnd : σ.E → Nat
  exprPayload : σ.E → σ.P
  nameId : σ.E → Option σ.I     -- `Some(name.id)` iff the expression is `Expr::Name`
  constValue : σ.E → Option σ.C -- `Some(c.value)` iff the expression is `Expr::Constant`

/-- the environment of the entry points: build configuration, lexer, LALRPOP parser -/
structure Env (σ : Sig) where
  fullLexer : Bool                                   -- cfg(feature = "full-lexer")
  isTrivia : σ.T → Bool                              -- `Ok((Tok::Comment{..} | Tok::NonLogicalNewline, _))`
  tokStart : σ.T → Option Nat                        -- `Ok((_, range))` ↦ `some range.start()`; a lexical-error item ↦ `none`
  marker : Mode → Nat → Nat → σ.T                    -- `Ok((Tok::start_marker(mode), start..end))`
  lexTop : Mode → Nat → σ.Src → List σ.T             -- `lexer::lex_starts_at(source, mode, offset)` collected
  parseTop : Mode → List σ.T → Res (Mod σ)           -- `python::TopParser::new().parse(..)` + `parse_error_from_lalrpop`
  view : View σ

/-- every value an entry point can return -/
inductive Out (σ : Sig) where
  | mod (m : Mod σ)
  | modModule (m : ModModule σ)
  | modExpression (m : ModExpression σ)
  | modInteractive (m : ModInteractive σ)
  | suite (b : List σ.S)
  | stmt (s : σ.S)
  | expr (e : σ.E)
  | ident (i : σ.I)
  | const (c : σ.C)
  | payload (p : σ.P)

section
variable {σ : Sig} (env : Env σ)

/-- `filter_ok(|(tok, _)| !matches!(tok, Comment | NonLogicalNewline))`, compiled only with `full-lexer` -/
def filterTrivia (toks : List σ.T) : List σ.T :=
  if env.fullLexer then toks.filter (fun t => !env.isTrivia t) else toks

/-- `match lxr.peek() { Some(Ok((_, range))) => range.start(), _ => TextSize::default() }` -/
def markerStart (toks : List σ.T) : Nat :=
  match toks with
  | [] => 0
  | t :: _ =>
    match env.tokStart t with
    | some s => s
    | none => 0

/-- `fn not_before(err, offset)`: `if err.offset < offset { err.offset = offset }`, under `map_err` -/
def notBefore {α : Type} (k : Nat) : Res α → Res α
  | .ok a => .ok a
  | .err kind o => .err kind (if o < k then k else o)
  | .panic => .panic

/-- `parse_filtered_tokens`: drops comment / non-logical-newline tokens (cfg `full-lexer`), peeks the
    first remaining item, gives the start marker the EMPTY range at that item's start (`0..0` when the
    stream is empty or starts with a lexical error) and runs the LALRPOP parser on marker + stream -/
def parseFiltered (mode : Mode) (toks : List σ.T) : Res (Mod σ) :=
  let lxr := filterTrivia env toks
  let ms := markerStart env lxr
  env.parseTop mode (env.marker mode ms ms :: lxr)

/-- `pub fn parse_tokens` (nothing but the call of `parse_filtered_tokens`) -/
def freeParseTokens (mode : Mode) (toks : List σ.T) : Res (Mod σ) :=
  parseFiltered env mode toks

/-- `pub fn parse_starts_at`: `parse_tokens(lex_starts_at(..)).map_err(|err| not_before(err, offset))` -/
def freeParseStartsAt (mode : Mode) (src : σ.Src) (k : Nat) : Res (Mod σ) :=
  notBefore k (freeParseTokens env mode (env.lexTop mode k src))

/-- `pub fn parse` -/
def freeParse (mode : Mode) (src : σ.Src) : Res (Mod σ) :=
  freeParseStartsAt env mode src 0

/-! ### `Parse::parse_tokens` of the eight hand-written implementations -/

def modModuleTokens (toks : List σ.T) : Res (ModModule σ) :=
  match parseFiltered env .module toks with
  | .ok (.module m) => .ok m
  | .ok _ => .panic                -- unreachable!("Mode::Module doesn't return other variant")
  | .err k o => .err k o
  | .panic => .panic

def modExpressionTokens (toks : List σ.T) : Res (ModExpression σ) :=
  match parseFiltered env .expression toks with
  | .ok (.expression m) => .ok m
  | .ok _ => .panic
  | .err k o => .err k o
  | .panic => .panic

def modInteractiveTokens (toks : List σ.T) : Res (ModInteractive σ) :=
  match parseFiltered env .interactive toks with
  | .ok (.interactive m) => .ok m
  | .ok _ => .panic
  | .err k o => .err k o
  | .panic => .panic

def suiteTokens (toks : List σ.T) : Res (List σ.S) :=
  (modModuleTokens env toks).map (·.body)

/-- `impl Parse for ast::Stmt`: zero statements → `Eof` at `TextSize::default()` (lifted to the start
    offset by `not_before` in `parse_starts_at`, not here: `parse_tokens` has no offset argument);
    two or more → `InvalidToken` at the start of the second statement -/
def stmtTokens (toks : List σ.T) : Res σ.S :=
  (modModuleTokens env toks).bind fun m =>
    match m.body with
    | [] => .err "Eof" 0
    | [s] => .ok s
    | _ :: s2 :: _ => .err "InvalidToken" (env.view.stmtStart s2)

def exprTokens (toks : List σ.T) : Res σ.E :=
  (modExpressionTokens env toks).map (·.body)

def identifierTokens (toks : List σ.T) : Res σ.I :=
  (exprTokens env toks).bind fun e =>
    match env.view.nameId e with
    | some i => .ok i
    | none => .err "InvalidToken" (env.view.exprStart e)

def constantTokens (toks : List σ.T) : Res σ.C :=
  (exprTokens env toks).bind fun e =>
    match env.view.constValue e with
    | some c => .ok c
    | none => .err "InvalidToken" (env.view.exprStart e)

/-! ### the generated implementations, interpreted from one table row -/

def errKindOf (p : TypedParser) : String :=
  if p.errInvalidToken then "InvalidToken" else "Other"

def errOffOf (p : TypedParser) (start stop : Nat) : Nat :=
  match p.errOff with
  | .nodeStart => start
  | .nodeEnd => stop
  | .zero => 0

def typedTokens (p : TypedParser) (toks : List σ.T) : Res σ.P :=
  match p.parseVia with
  | .stmt =>
    (stmtTokens env toks).bind fun s =>
      if p.matchEnum = .stmt ∧ env.view.stmtKind s = p.matchIdx then .ok (env.view.stmtPayload s)
      else .err (errKindOf p) (errOffOf p (env.view.stmtStart s) (env.view.stmtEnd s))
  | .expr =>
    (exprTokens env toks).bind fun e =>
      if p.matchEnum = .expr ∧ env.view.exprKind e = p.matchIdx then .ok (env.view.exprPayload e)
      else .err (errKindOf p) (errOffOf p (env.view.exprStart e) (env.view.exprEnd e))

/-! ### the `Parse` trait -/

/-- the implementing types -/
inductive Ty where
  | modModule | modExpression | modInteractive | suite | stmt | expr | identifier | constant
  | typed (p : TypedParser)
  deriving Repr

/-- mode handed to `lexer::lex_starts_at` at the end of the `lex_starts_at` delegation chain:
    Suite, Stmt → ModModule; Identifier, Constant → Expr → ModExpression; generated → Stmt / Expr -/
def Ty.lexMode : Ty → Mode
  | .modModule => .module
  | .modExpression => .expression
  | .modInteractive => .interactive
  | .suite => .module
  | .stmt => .module
  | .expr => .expression
  | .identifier => .expression
  | .constant => .expression
  | .typed p => match p.lexVia with
    | .stmt => .module
    | .expr => .expression

/-- `T::lex_starts_at(source, offset)` -/
def Ty.lexStartsAt (ty : Ty) (src : σ.Src) (k : Nat) : List σ.T := env.lexTop ty.lexMode k src

/-- `T::parse_tokens(lxr, path)`: every implementation ends in `parse_filtered_tokens`, which filters -/
def Ty.parseTokens (ty : Ty) (toks : List σ.T) : Res (Out σ) :=
  match ty with
  | .modModule => (modModuleTokens env toks).map .modModule
  | .modExpression => (modExpressionTokens env toks).map .modExpression
  | .modInteractive => (modInteractiveTokens env toks).map .modInteractive
  | .suite => (suiteTokens env toks).map .suite
  | .stmt => (stmtTokens env toks).map .stmt
  | .expr => (exprTokens env toks).map .expr
  | .identifier => (identifierTokens env toks).map .ident
  | .constant => (constantTokens env toks).map .const
  | .typed p => (typedTokens env p toks).map .payload

/-- the trait's provided method `parse_starts_at`:
    `Self::parse_tokens(Self::lex_starts_at(source, offset), path).map_err(|err| not_before(err, offset))` -/
def Ty.parseStartsAt (ty : Ty) (src : σ.Src) (k : Nat) : Res (Out σ) :=
  notBefore k (ty.parseTokens env (ty.lexStartsAt env src k))

/-- provided methods `parse` and `parse_without_path` (the path only labels errors) -/
def Ty.parse (ty : Ty) (src : σ.Src) : Res (Out σ) := ty.parseStartsAt env src 0

/-! ### deprecated helpers -/

def parseProgram (src : σ.Src) : Res (Out σ) :=
  match freeParse env .module src with
  | .ok (.module m) => .ok (.suite m.body)
  | .ok _ => .panic
  | .err k o => .err k o
  | .panic => .panic

def parseExpression (src : σ.Src) : Res (Out σ) := Ty.expr.parse env src

def parseExpressionStartsAt (src : σ.Src) (k : Nat) : Res (Out σ) := Ty.expr.parseStartsAt env src k

end

end PV.C09
