import PV.C09.RProgShift1
/-
  PV.C09.RProgShift3 — the ranged program parser commutes with a shift of the span table, part 3: the parameter list of
  a definition (`parseRParameters`: `Arg` / `ArgWithDefault` / `Arguments` ranges), decorators, with-items (plain and
  parenthesised), and the headers of compound statements (`except` clauses, `->` annotations, class arguments, guards).
-/
set_option linter.unusedSimpArgs false
set_option linter.unusedVariables false
namespace PV.C09
open PV.Expr PV.C11 PV.C02 PV.Prog

section
variable {k N : Nat} {σ σ' : SpanTab}

/-! ### parameters -/

theorem annOpt_sh (hrel : TabRel k N σ σ') : ∀ star f ts o r, ts.length ≤ N → parseRAnnOpt σ star f ts = some (o, r) →
    r.length ≤ ts.length ∧ parseRAnnOpt σ' star f ts = some (shO k o, r) := by
  intro star f ts o r hN
  fun_cases parseRAnnOpt σ star f ts
  all_goals intro h
  all_goals try (cases star <;> simp only [Bool.false_eq_true, ↓reduceIte] at *)
  pcore h parseRAnnOpt [testOrStar_sh hrel, test_sh hrel]

theorem defaultOpt_sh (hrel : TabRel k N σ σ') : ∀ f ts o r, ts.length ≤ N → parseRDefaultOpt σ f ts = some (o, r) →
    r.length ≤ ts.length ∧ parseRDefaultOpt σ' f ts = some (shO k o, r) := by
  intro f ts o r hN
  fun_cases parseRDefaultOpt σ f ts
  all_goals intro h
  pcore h parseRDefaultOpt [test_sh hrel]

theorem typedItemR_sh (hrel : TabRel k N σ σ') : ∀ f ts ps ph ps' ph' r, ts.length ≤ N →
    typedItemR σ f ts ps ph = some (ps', ph', r) →
    r.length < ts.length ∧ typedItemR σ' f ts (shArgItems k ps) ph = some (shArgItems k ps', ph', r) := by
  intro f ts ps ph ps' ph' r hN
  fun_cases typedItemR σ f ts ps ph
  all_goals intro h
  pcore h typedItemR [annOpt_sh hrel, defaultOpt_sh hrel] [shArgItems, argDR_shift', shArg]

theorem typedParams_sh (hrel : TabRel k N σ σ') : ∀ f ts ps ph ps' r, ts.length ≤ N →
    parseRTypedParams σ f ts ps ph = some (ps', r) →
    r.length + 2 ≤ ts.length ∧ parseRTypedParams σ' f ts (shArgItems k ps) ph = some (shArgItems k ps', r) := by
  refine below_rec' (fun n ih => ?_)
  intro ts ps ph ps' r hN
  fun_cases parseRTypedParams σ n ts ps ph
  all_goals intro h
  pcore h parseRTypedParams [typedItemR_sh hrel, ih _ rfl] [bareStarOkRA_shArgItems]

theorem shArguments_withRg (k : Nat) (a : RArguments) (x y : Nat) :
    ({ shArgItems k a with rg := (x + k, y + k) } : RArguments) = shArguments k { a with rg := (x, y) } := by
  simp [shArguments, shArgItems, shRg]

theorem shArgItems_empty (k : Nat) (rg : Rg) : shArgItems k { rg := rg } = { rg := rg } := rfl

theorem parameters_unfold (σ : SpanTab) (f : Nat) (ts : List Tok) (hc : ∀ r0, ts = .op .rpar :: r0 → False) :
    parseRParameters σ (f + 1) ts =
      match parseRTypedParams σ f ts { rg := (0, 0) } 0 with
      | some (a, r) =>
        if validPosR (a.posonly ++ a.args) && validNamesR a then some ({ a with rg := (L σ ts, (σ (r.length + 2)).2) }, r)
        else none
      | none => none := by
  rw [parseRParameters]
  · rfl
  · exact hc

theorem parameters_sh (hrel : TabRel k N σ σ') : ∀ f ts a r, ts.length + 1 ≤ N → parseRParameters σ f ts = some (a, r) →
    r.length < ts.length ∧ parseRParameters σ' f ts = some (shArguments k a, r) := by
  intro f ts a r hN h
  cases f with
  | zero => simp [parseRParameters] at h
  | succ f =>
    by_cases hc : ∃ r0, ts = .op .rpar :: r0
    · obtain ⟨r0, rfl⟩ := hc
      simp only [parseRParameters, Option.some.injEq, Prod.mk.injEq] at h ⊢
      obtain ⟨rfl, rfl⟩ := h
      simp only [List.length_cons] at hN
      refine ⟨by simp, ?_, rfl⟩
      simp only [shArguments, shArgItems, P, R, List.length_cons, shRg, List.map_nil, Option.map_none]
      rw [hrel.fst (by omega) (by omega), hrel.snd (by omega) (by omega)]
    · have hc' : ∀ r0, ts = .op .rpar :: r0 → False := fun r0 h => hc ⟨r0, h⟩
      rw [parameters_unfold σ f ts hc'] at h
      rw [parameters_unfold σ' f ts hc']
      cases hp : parseRTypedParams σ f ts { rg := (0, 0) } 0 with
      | none => simp [hp] at h
      | some q =>
        obtain ⟨a0, r0⟩ := q
        obtain ⟨g1, g2⟩ := typedParams_sh hrel f ts _ _ a0 r0 (by omega) hp
        rw [shArgItems_empty] at g2
        rw [hp] at h
        rw [g2]
        simp only [] at h ⊢
        simp only [shArgItems_posonly, shArgItems_args, ← List.map_append, validPosR_map, validNamesR_shArgItems]
        split at h
        · rename_i hv
          simp only [Option.some.injEq, Prod.mk.injEq] at h
          obtain ⟨rfl, rfl⟩ := h
          refine ⟨by omega, ?_⟩
          rw [if_pos hv]
          simp only [L]
          rw [hrel.fst (by omega) (by omega), hrel.snd (by omega) (by omega)]
          simp [shArguments, shArgItems, shRg]
        · cases h

theorem decorators_sh (hrel : TabRel k N σ σ') : ∀ f ts ds r, ts.length ≤ N → parseRDecorators σ f ts = some (ds, r) →
    r.length ≤ ts.length ∧ parseRDecorators σ' f ts = some (shL k ds, r) := by
  refine below_rec' (fun n ih => ?_)
  intro ts ds r hN
  fun_cases parseRDecorators σ n ts
  all_goals intro h
  pcore h parseRDecorators [namedTest_sh hrel, ih _ rfl]

/-! ### with items -/

theorem withItem_sh (hrel : TabRel k N σ σ') : ∀ f ts it r, ts.length ≤ N → parseRWithItem σ f ts = some (it, r) →
    r.length < ts.length ∧ parseRWithItem σ' f ts = some (shWithItem k it, r) := by
  intro f ts it r hN
  fun_cases parseRWithItem σ f ts
  all_goals intro h
  pcore h parseRWithItem [test_sh hrel, bin_sh hrel]

theorem withPlain_sh (hrel : TabRel k N σ σ') : ∀ f ts its r, ts.length ≤ N → parseRWithPlain σ f ts = some (its, r) →
    r.length < ts.length ∧ parseRWithPlain σ' f ts = some (its.map (shWithItem k), r) := by
  refine below_rec' (fun n ih => ?_)
  intro ts its r hN
  fun_cases parseRWithPlain σ n ts
  all_goals intro h
  pcore h parseRWithPlain [withItem_sh hrel, ih _ rfl]

theorem asPartR_sh (hrel : TabRel k N σ σ') : ∀ f ts v r, ts.length ≤ N → asPartR σ f ts = some (v, r) →
    r.length ≤ ts.length ∧ asPartR σ' f ts = some (shO k v, r) := by
  intro f ts v r hN
  fun_cases asPartR σ f ts
  all_goals intro h
  pcore h asPartR [bin_sh hrel]

theorem withParenElems_sh (hrel : TabRel k N σ σ') : ∀ f ts els tc r, ts.length ≤ N →
    parseRWithParenElems σ f ts = some ((els, tc), r) →
    r.length < ts.length ∧ parseRWithParenElems σ' f ts = some ((els.map (shWElem k), tc), r) := by
  refine below_rec' (fun n ih => ?_)
  intro ts els tc r hN
  fun_cases parseRWithParenElems σ n ts
  all_goals intro h
  pcore h parseRWithParenElems [starOrNamed_sh hrel, asPartR_sh hrel, ih _ rfl] [shWElem]

theorem withParenItemsR_shift' (k a b : Nat) (els : List RWElem) (tc : Bool) :
    withParenItemsR (a + k, b + k) (els.map (shWElem k)) tc = (withParenItemsR (a, b) els tc).map (·.map (shWithItem k)) :=
  withParenItemsR_shift k (a, b) els tc

theorem withParen_sh (hrel : TabRel k N σ σ') : ∀ f ts its r, ts.length + 1 ≤ N → parseRWithParen σ f ts = some (its, r) →
    r.length < ts.length ∧ parseRWithParen σ' f ts = some (its.map (shWithItem k), r) := by
  intro f ts its r hN
  fun_cases parseRWithParen σ f ts
  all_goals intro h
  pcore h parseRWithParen [yieldAtom_sh hrel, starOrNamed_sh hrel, compFor_sh hrel, withParenElems_sh hrel]
    [withParenItemsR_shift', isStarredR_shE, shWithItem]

theorem withItems_sh (hrel : TabRel k N σ σ') : ∀ f ts its r, ts.length ≤ N → parseRWithItems σ f ts = some (its, r) →
    r.length < ts.length ∧ parseRWithItems σ' f ts = some (its.map (shWithItem k), r) := by
  intro f ts its r hN
  fun_cases parseRWithItems σ f ts
  all_goals intro h
  pcore h parseRWithItems [withParen_sh hrel, withPlain_sh hrel]

/-! ### headers of compound statements -/

theorem retOfR_sh (hrel : TabRel k N σ σ') : ∀ f ts o r, ts.length ≤ N → retOfR σ f ts = some (o, r) →
    r.length ≤ ts.length ∧ retOfR σ' f ts = some (shO k o, r) := by
  intro f ts o r hN
  fun_cases retOfR σ f ts
  all_goals intro h
  pcore h retOfR [test_sh hrel]

theorem classArgsOfR_sh (hrel : TabRel k N σ σ') : ∀ f ts bs ks r, ts.length ≤ N → classArgsOfR σ f ts = some ((bs, ks), r) →
    r.length ≤ ts.length ∧ classArgsOfR σ' f ts = some ((shL k bs, shKs k ks), r) := by
  intro f ts bs ks r hN
  fun_cases classArgsOfR σ f ts
  all_goals intro h
  pcore h classArgsOfR [args_sh hrel]

theorem guardOfR_sh (hrel : TabRel k N σ σ') : ∀ f ts o r, ts.length ≤ N → guardOfR σ f ts = some (o, r) →
    r.length ≤ ts.length ∧ guardOfR σ' f ts = some (shO k o, r) := by
  intro f ts o r hN
  fun_cases guardOfR σ f ts
  all_goals intro h
  pcore h guardOfR [namedTest_sh hrel]

theorem exceptHeader_sh (hrel : TabRel k N σ σ') : ∀ f star ts ty nm r, ts.length ≤ N →
    parseRExceptHeader σ f star ts = some ((ty, nm), r) →
    r.length < ts.length ∧ parseRExceptHeader σ' f star ts = some ((shO k ty, nm), r) := by
  intro f star ts ty nm r hN
  fun_cases parseRExceptHeader σ f star ts
  all_goals intro h
  all_goals try simp (config := { zetaDelta := true }) only [] at *
  all_goals try (cases star <;> try simp only [Bool.false_eq_true, ↓reduceIte] at *)
  pcore h parseRExceptHeader [test_sh hrel]

end
end PV.C09
