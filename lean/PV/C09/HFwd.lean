import Lean
/-!
  PV.C09.HFwd — the forward-reasoning tactic of `PV.C02.Fwd` (`fwd t`), with one more way of closing a side condition:
  `simp only [List.length_cons]; omega` (the cursor of a call may be written `tok :: rest`).

  `hfwd t` with `t : ∀ xs, A₁ → … → Aₙ → C`: for every hypothesis `h : call = some v` of the context that unifies with
  one of the `Aᵢ`, add the instance `C` of `t` to the context (conjunctions split into their parts) — provided the
  variables are all determined and the fact is not there already; every other `Aⱼ` is closed by `assumption`, `omega`,
  `simp only [List.length_cons]; omega` or `rfl`, or stays as a hypothesis of the added fact.
-/
open Lean Elab Tactic Meta


/-- the conjuncts of a proof of a conjunction (unfolding reducible definitions); `fuel` bounds the nesting -/
def splitAnd' : Nat → Expr → Expr → MetaM (Array (Expr × Expr))
  | 0, ty, pf => return #[(ty, pf)]
  | fuel + 1, ty, pf => do
    let ty' ← whnfR ty
    if ty'.isAppOfArity ``And 2 then
      let a := ty'.getArg! 0
      let b := ty'.getArg! 1
      let l ← splitAnd' fuel a (mkApp3 (mkConst ``And.left) a b pf)
      let r ← splitAnd' fuel b (mkApp3 (mkConst ``And.right) a b pf)
      return l ++ r
    else
      return #[(ty, pf)]

elab "hfwd " t:term : tactic => withMainContext do
  let e ← elabTerm t none
  let ty ← instantiateMVars (← inferType e)
  let lctx ← getLCtx
  let mut newFacts : Array (Expr × Expr) := #[]
  for ldecl in lctx do
    if ldecl.isImplementationDetail then continue
    let hty ← instantiateMVars ldecl.type
    unless hty.isAppOfArity ``Eq 3 do continue
    unless (hty.getArg! 2).isAppOf ``Option.some do continue
    let s ← saveState
    try
      let (mvars, _, _) ← forallMetaTelescopeReducing ty
      let mut found := false
      for mv in mvars do
        let mty ← instantiateMVars (← inferType mv)
        if mty.isAppOfArity ``Eq 3 && (mty.getArg! 2).isAppOf ``Option.some then
          if ← isDefEq mty hty then
            mv.mvarId!.assign ldecl.toExpr
            found := true
            break
      unless found do throwError "no match"
      let mut open_ : Array Expr := #[]
      for mv in mvars do
        if ← mv.mvarId!.isAssigned then continue
        let mty ← instantiateMVars (← inferType mv)
        if ← isProp mty then
          let s2 ← saveState
          try
            let gs ← Tactic.run mv.mvarId! (evalTactic (← `(tactic| first | assumption | omega | (simp only [List.length_cons]; omega) | rfl)))
            unless gs.isEmpty do throwError "left"
          catch _ =>
            restoreState s2
            open_ := open_.push mv
      -- every variable must be determined; side conditions that are still open become hypotheses of the new fact
      for mv in mvars do
        unless ← isProp (← inferType mv) do
          let v ← instantiateMVars mv
          if v.hasExprMVar then throwError "unassigned variable"
      let pf ← instantiateMVars (mkAppN e mvars)
      if open_.isEmpty then
        if pf.hasExprMVar then throwError "mvars left"
        let pfTy ← instantiateMVars (← inferType pf)
        for (cty, cpf) in ← splitAnd' 16 pfTy pf do
          let mut known := false
          for d in lctx do
            if d.isImplementationDetail then continue
            if (← instantiateMVars d.type) == cty then known := true
          for (t', _) in newFacts do
            if t' == cty then known := true
          unless known do newFacts := newFacts.push (cty, cpf)
      else
        let r ← abstractMVars pf
        if r.paramNames.size != 0 then throwError "universe mvars"
        let cpf := r.expr
        let cty ← instantiateMVars (← inferType cpf)
        let mut known := false
        for d in lctx do
          if d.isImplementationDetail then continue
          if (← instantiateMVars d.type) == cty then known := true
        for (t', _) in newFacts do
          if t' == cty then known := true
        unless known do newFacts := newFacts.push (cty, cpf)
    catch _ =>
      restoreState s
  for (pfTy, pf) in newFacts do
    liftMetaTactic fun g => do
      let g ← g.assert `hfwd pfTy pf
      let (_, g) ← g.intro1P
      return [g]
