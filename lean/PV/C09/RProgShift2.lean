import PV.C09.RProgShift1
/-
  PV.C09.RProgShift2 — the ranged program parser commutes with a shift of the span table, part 2: patterns
  (`parseRConstExpr`, `attrChainR`, `parseRMapKey`, the eight mutually recursive pattern functions, `parseRPatterns`).
-/
set_option linter.unusedSimpArgs false
set_option linter.unusedVariables false
namespace PV.C09
open PV.Expr PV.C11 PV.C02 PV.Prog

section
variable {k N : Nat} {σ σ' : SpanTab}

theorem constAtomR_sh (hrel : TabRel k N σ σ') : ∀ i t e, 1 ≤ i → i ≤ N → constAtomR σ i t = some e →
    constAtomR σ' i t = some (shE k e) := by
  intro i t e h1 h2 h
  cases t <;> simp only [constAtomR, Option.some.injEq, reduceCtorEq] at h ⊢ <;> subst h <;> simp [shE, hrel i h1 h2]

theorem addTailR_sh (hrel : TabRel k N σ σ') : ∀ st left ts e r, ts.length ≤ N → addTailR σ st left ts = some (e, r) →
    r.length ≤ ts.length ∧ addTailR σ' (st + k) (shE k left) ts = some (shE k e, r) := by
  intro st left ts e r hN
  fun_cases addTailR σ st left ts
  all_goals intro h
  pcore h addTailR [constAtomR_sh hrel]

theorem constExpr_sh (hrel : TabRel k N σ σ') : ∀ ts e r, ts.length ≤ N → parseRConstExpr σ ts = some (e, r) →
    r.length < ts.length ∧ parseRConstExpr σ' ts = some (shE k e, r) := by
  intro ts e r hN
  fun_cases parseRConstExpr σ ts
  all_goals intro h
  pcore h parseRConstExpr [constAtomR_sh hrel, addTailR_sh hrel]

theorem attrChainR_sh (hrel : TabRel k N σ σ') : ∀ st acc d ts e d' r, ts.length ≤ N →
    attrChainR σ st acc d ts = some (e, d', r) →
    r.length ≤ ts.length ∧ attrChainR σ' (st + k) (shE k acc) d ts = some (shE k e, d', r) := by
  intro st acc d ts
  fun_induction attrChainR σ st acc d ts
  · rename_i ih
    intro e d' r hN h
    simp only [List.length_cons] at hN
    obtain ⟨g1, g2⟩ := ih e d' r (by omega) h
    refine ⟨by simp only [List.length_cons]; omega, ?_⟩
    rw [attrChainR]
    simp only [shE, shRg, R] at g2 ⊢
    rw [hrel.snd (by omega) (by omega)]
    exact g2
  · intro e d' r hN h; cases h
  · intro e d' r hN h
    simp only [Option.some.injEq, Prod.mk.injEq] at h
    obtain ⟨rfl, rfl, rfl⟩ := h
    refine ⟨Nat.le_refl _, ?_⟩
    rw [attrChainR] <;> simp_all

theorem mapKey_sh (hrel : TabRel k N σ σ') : ∀ f ts e r, ts.length ≤ N → parseRMapKey σ f ts = some (e, r) →
    r.length < ts.length ∧ parseRMapKey σ' f ts = some (shE k e, r) := by
  intro f ts e r hN
  fun_cases parseRMapKey σ f ts
  all_goals intro h
  pcore h parseRMapKey [strings_sh hrel, attrChainR_sh hrel, constExpr_sh hrel]

/-- what is proved of every pattern function of the ranged program parser, at fuel `f` -/
structure PatShAt (k N : Nat) (σ σ' : SpanTab) (f : Nat) : Prop where
  pattern : ∀ ts p rest, ts.length ≤ N → parseRPattern σ f ts = some (p, rest) →
    rest.length < ts.length ∧ parseRPattern σ' f ts = some (shPat k p, rest)
  orPattern : ∀ ts p rest, ts.length ≤ N → parseROrPattern σ f ts = some (p, rest) →
    rest.length < ts.length ∧ parseROrPattern σ' f ts = some (shPat k p, rest)
  orPatRest : ∀ ts ps rest, ts.length ≤ N → parseROrPatRest σ f ts = some (ps, rest) →
    rest.length < ts.length ∧ parseROrPatRest σ' f ts = some (shPats k ps, rest)
  closed : ∀ ts p rest, ts.length ≤ N → parseRClosed σ f ts = some (p, rest) →
    rest.length < ts.length ∧ parseRClosed σ' f ts = some (shPat k p, rest)
  patternList : ∀ ts ps tc rest, ts.length ≤ N → parseRPatternList σ f ts = some ((ps, tc), rest) →
    rest.length < ts.length ∧ parseRPatternList σ' f ts = some ((shPats k ps, tc), rest)
  classArgs : ∀ st cls ts p rest, ts.length ≤ N → parseRClassArgs σ f st cls ts = some (p, rest) →
    rest.length < ts.length ∧ parseRClassArgs σ' f (st + k) (shE k cls) ts = some (shPat k p, rest)
  classItems : ∀ ts ps ka kp ps' ka' kp' rest, ts.length ≤ N →
    parseRClassItems σ f ts ps ka kp = some ((ps', ka', kp'), rest) →
    rest.length < ts.length ∧
      parseRClassItems σ' f ts (shPats k ps) ka (shPats k kp) = some ((shPats k ps', ka', shPats k kp'), rest)
  mapItems : ∀ st ts ks ps p rest, ts.length ≤ N → parseRMapItems σ f st ts ks ps = some (p, rest) →
    rest.length < ts.length ∧ parseRMapItems σ' f (st + k) ts (shL k ks) (shPats k ps) = some (shPat k p, rest)

def BelowPatSh (k N : Nat) (σ σ' : SpanTab) (n : Nat) : Prop := ∀ f, n = f + 1 → PatShAt k N σ σ' f

theorem pstep_pattern (hrel : TabRel k N σ σ') {n} (ih : BelowPatSh k N σ σ' n) : ∀ ts p rest, ts.length ≤ N →
    parseRPattern σ n ts = some (p, rest) →
    rest.length < ts.length ∧ parseRPattern σ' n ts = some (shPat k p, rest) := by
  intro ts p rest hN
  fun_cases parseRPattern σ n ts
  all_goals intro h
  pcoreM h parseRPattern [(ih _ rfl).orPattern]

theorem pstep_orPattern (hrel : TabRel k N σ σ') {n} (ih : BelowPatSh k N σ σ' n) : ∀ ts p rest, ts.length ≤ N →
    parseROrPattern σ n ts = some (p, rest) →
    rest.length < ts.length ∧ parseROrPattern σ' n ts = some (shPat k p, rest) := by
  intro ts p rest hN
  fun_cases parseROrPattern σ n ts
  all_goals intro h
  pcoreM h parseROrPattern [(ih _ rfl).closed, (ih _ rfl).orPatRest]

theorem pstep_orPatRest (hrel : TabRel k N σ σ') {n} (ih : BelowPatSh k N σ σ' n) : ∀ ts ps rest, ts.length ≤ N →
    parseROrPatRest σ n ts = some (ps, rest) →
    rest.length < ts.length ∧ parseROrPatRest σ' n ts = some (shPats k ps, rest) := by
  intro ts ps rest hN
  fun_cases parseROrPatRest σ n ts
  all_goals intro h
  pcoreM h parseROrPatRest [(ih _ rfl).closed, (ih _ rfl).orPatRest]

theorem pstep_closed (hrel : TabRel k N σ σ') {n} (ih : BelowPatSh k N σ σ' n) : ∀ ts p rest, ts.length ≤ N →
    parseRClosed σ n ts = some (p, rest) →
    rest.length < ts.length ∧ parseRClosed σ' n ts = some (shPat k p, rest) := by
  intro ts p rest hN
  fun_cases parseRClosed σ n ts
  case case17 =>
    -- `( p )`: the group pattern is returned unchanged (by hand: `grind` builds an ill-typed proof term here)
    intro h
    rename_i f r hne p0 r1 hpl
    simp only [Option.some.injEq, Prod.mk.injEq] at h
    obtain ⟨rfl, rfl⟩ := h
    simp only [List.length_cons] at hN
    obtain ⟨g1, g2⟩ := (ih _ rfl).patternList _ _ _ _ (by omega) hpl
    refine ⟨by simp only [List.length_cons] at g1 ⊢; omega, ?_⟩
    rw [parseRClosed.eq_def]
    split <;> simp_all
  all_goals intro h
  pcoreM h parseRClosed [strings_sh hrel, attrChainR_sh hrel, constExpr_sh hrel, (ih _ rfl).classArgs, (ih _ rfl).patternList,
    (ih _ rfl).mapItems] [shPats_eq_singleton]

theorem pstep_patternList (hrel : TabRel k N σ σ') {n} (ih : BelowPatSh k N σ σ' n) : ∀ ts ps tc rest, ts.length ≤ N →
    parseRPatternList σ n ts = some ((ps, tc), rest) →
    rest.length < ts.length ∧ parseRPatternList σ' n ts = some ((shPats k ps, tc), rest) := by
  intro ts ps tc rest hN
  fun_cases parseRPatternList σ n ts
  all_goals intro h
  pcoreM h parseRPatternList [(ih _ rfl).pattern, (ih _ rfl).patternList]

theorem pstep_classArgs (hrel : TabRel k N σ σ') {n} (ih : BelowPatSh k N σ σ' n) : ∀ st cls ts p rest, ts.length ≤ N →
    parseRClassArgs σ n st cls ts = some (p, rest) →
    rest.length < ts.length ∧ parseRClassArgs σ' n (st + k) (shE k cls) ts = some (shPat k p, rest) := by
  intro st cls ts p rest hN
  fun_cases parseRClassArgs σ n st cls ts
  all_goals intro h
  pcoreM h parseRClassArgs [(ih _ rfl).classItems]

theorem pstep_classItems (hrel : TabRel k N σ σ') {n} (ih : BelowPatSh k N σ σ' n) : ∀ ts ps ka kp ps' ka' kp' rest,
    ts.length ≤ N → parseRClassItems σ n ts ps ka kp = some ((ps', ka', kp'), rest) →
    rest.length < ts.length ∧
      parseRClassItems σ' n ts (shPats k ps) ka (shPats k kp) = some ((shPats k ps', ka', shPats k kp'), rest) := by
  intro ts ps ka kp ps' ka' kp' rest hN
  fun_cases parseRClassItems σ n ts ps ka kp
  all_goals intro h
  pcoreM h parseRClassItems [(ih _ rfl).pattern, (ih _ rfl).classItems]

theorem pstep_mapItems (hrel : TabRel k N σ σ') {n} (ih : BelowPatSh k N σ σ' n) : ∀ st ts ks ps p rest, ts.length ≤ N →
    parseRMapItems σ n st ts ks ps = some (p, rest) →
    rest.length < ts.length ∧ parseRMapItems σ' n (st + k) ts (shL k ks) (shPats k ps) = some (shPat k p, rest) := by
  intro st ts ks ps p rest hN
  fun_cases parseRMapItems σ n st ts ks ps
  all_goals intro h
  pcoreM h parseRMapItems [mapKey_sh hrel, (ih _ rfl).pattern, (ih _ rfl).mapItems]

theorem patShAt_of_below (hrel : TabRel k N σ σ') {n : Nat} (b : BelowPatSh k N σ σ' n) : PatShAt k N σ σ' n :=
  ⟨pstep_pattern hrel b, pstep_orPattern hrel b, pstep_orPatRest hrel b, pstep_closed hrel b, pstep_patternList hrel b,
    pstep_classArgs hrel b, pstep_classItems hrel b, pstep_mapItems hrel b⟩

/-- every pattern function of the ranged program parser commutes with the shift, at every fuel -/
theorem patShAt (hrel : TabRel k N σ σ') : ∀ n, PatShAt k N σ σ' n
  | 0 => patShAt_of_below hrel (fun f h => absurd h (by omega))
  | n + 1 => patShAt_of_below hrel (fun f h => by cases h; exact patShAt hrel n)

theorem patterns_sh (hrel : TabRel k N σ σ') : ∀ f ts p rest, ts.length ≤ N → parseRPatterns σ f ts = some (p, rest) →
    rest.length < ts.length ∧ parseRPatterns σ' f ts = some (shPat k p, rest) := by
  intro f ts p rest hN
  fun_cases parseRPatterns σ f ts
  all_goals intro h
  pcore h parseRPatterns [(patShAt hrel _).patternList] [shPats_eq_singleton]

end
end PV.C09
