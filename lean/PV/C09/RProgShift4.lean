import PV.C09.RProgShift2
import PV.C09.RProgShift3
/-
  PV.C09.RProgShift4 — the ranged program parser commutes with a shift of the span table, part 4: the twelve mutually
  recursive functions of compound statements (`parseRSuite` … `parseRWith`).  The ends of compound statements, handlers
  and match cases are DERIVED from a child (`lastEnd body`, `loopEndR`, `tryEndR`, `ifEndR`, `casesEnd`): they move with
  that child, which is why every lemma about a block also says that the block is not empty.
-/
set_option linter.unusedSimpArgs false
set_option linter.unusedVariables false
namespace PV.C09
open PV.Expr PV.C11 PV.C02 PV.Prog

section
variable {k N : Nat} {σ σ' : SpanTab}

/-- what is proved of every compound-statement function of the ranged program parser, at fuel `f` -/
structure CompShAt (k N : Nat) (σ σ' : SpanTab) (f : Nat) : Prop where
  suite : ∀ ts ss rest, ts.length ≤ N → parseRSuite σ f ts = some (ss, rest) →
    rest.length < ts.length ∧ ss ≠ [] ∧ parseRSuite σ' f ts = some (shSs k ss, rest)
  block : ∀ ts ss rest, ts.length ≤ N → parseRBlock σ f ts = some (ss, rest) →
    rest.length < ts.length ∧ ss ≠ [] ∧ parseRBlock σ' f ts = some (shSs k ss, rest)
  else_ : ∀ ts oe rest, ts.length ≤ N → parseRElse σ f ts = some (oe, rest) →
    rest.length ≤ ts.length ∧ (∀ l, oe = some l → l ≠ []) ∧ parseRElse σ' f ts = some (oe.map (shSs k), rest)
  finally_ : ∀ ts oe rest, ts.length ≤ N → parseRFinally σ f ts = some (oe, rest) →
    rest.length ≤ ts.length ∧ (∀ l, oe = some l → l ≠ []) ∧ parseRFinally σ' f ts = some (oe.map (shSs k), rest)
  elifs : ∀ ts cs rest, ts.length ≤ N → parseRElifs σ f ts = some (cs, rest) →
    rest.length ≤ ts.length ∧ ElifsNE cs ∧ parseRElifs σ' f ts = some (cs.map (shElif k), rest)
  handlers : ∀ star ts hs rest, ts.length ≤ N → parseRHandlers σ f star ts = some (hs, rest) →
    rest.length < ts.length ∧ hs ≠ [] ∧ parseRHandlers σ' f star ts = some (shHs k hs, rest)
  cases : ∀ ts cs rest, ts.length ≤ N → parseRCases σ f ts = some (cs, rest) →
    rest.length < ts.length ∧ cs ≠ [] ∧ CasesNE cs ∧ parseRCases σ' f ts = some (shCases k cs, rest)
  def_ : ∀ st isAsync decos ts s rest, ts.length ≤ N → parseRDef σ f st isAsync decos ts = some (s, rest) →
    rest.length < ts.length ∧ parseRDef σ' f (st + k) isAsync (shL k decos) ts = some (shS k s, rest)
  class_ : ∀ st decos ts s rest, ts.length ≤ N → parseRClass σ f st decos ts = some (s, rest) →
    rest.length < ts.length ∧ parseRClass σ' f (st + k) (shL k decos) ts = some (shS k s, rest)
  compound : ∀ ts s rest, ts.length ≤ N → parseRCompound σ f ts = some (s, rest) →
    rest.length < ts.length ∧ parseRCompound σ' f ts = some (shS k s, rest)
  for_ : ∀ st isAsync ts s rest, ts.length ≤ N → parseRFor σ f st isAsync ts = some (s, rest) →
    rest.length < ts.length ∧ parseRFor σ' f (st + k) isAsync ts = some (shS k s, rest)
  with_ : ∀ st isAsync ts s rest, ts.length ≤ N → parseRWith σ f st isAsync ts = some (s, rest) →
    rest.length < ts.length ∧ parseRWith σ' f (st + k) isAsync ts = some (shS k s, rest)

def BelowCompSh (k N : Nat) (σ σ' : SpanTab) (n : Nat) : Prop := ∀ f, n = f + 1 → CompShAt k N σ σ' f

theorem cstep_suite (hrel : TabRel k N σ σ') {n} (ih : BelowCompSh k N σ σ' n) : ∀ ts ss rest, ts.length ≤ N →
    parseRSuite σ n ts = some (ss, rest) →
    rest.length < ts.length ∧ ss ≠ [] ∧ parseRSuite σ' n ts = some (shSs k ss, rest) := by
  intro ts ss rest hN
  fun_cases parseRSuite σ n ts
  all_goals intro h
  pcoreM h parseRSuite [(ih _ rfl).block, simpleLine_sh hrel]

theorem first_sh (hrel : TabRel k N σ σ') {f} (ih : CompShAt k N σ σ' f) : ∀ ts ss rest, ts.length ≤ N →
    firstR σ f ts = some (ss, rest) →
    rest.length < ts.length ∧ ss ≠ [] ∧ firstR σ' f ts = some (shSs k ss, rest) := by
  intro ts ss rest hN h
  unfold firstR at h ⊢
  split at h
  · rename_i hc
    rw [if_pos hc]
    split at h
    · rename_i s r hp
      simp only [Option.some.injEq, Prod.mk.injEq] at h
      obtain ⟨rfl, rfl⟩ := h
      obtain ⟨g1, g2⟩ := ih.compound ts s _ hN hp
      rw [g2]
      exact ⟨g1, by simp, by simp⟩
    · cases h
  · rename_i hc
    rw [if_neg hc]
    exact simpleLine_sh hrel f ts ss rest hN h

theorem cstep_block (hrel : TabRel k N σ σ') {n} (ih : BelowCompSh k N σ σ' n) : ∀ ts ss rest, ts.length ≤ N →
    parseRBlock σ n ts = some (ss, rest) →
    rest.length < ts.length ∧ ss ≠ [] ∧ parseRBlock σ' n ts = some (shSs k ss, rest) := by
  intro ts ss rest hN h
  cases n with
  | zero => simp [parseRBlock] at h
  | succ f =>
    have ih := ih _ rfl
    rw [blockR_unfold] at h ⊢
    cases hf : firstR σ f ts with
    | none => simp [hf] at h
    | some p =>
      obtain ⟨s1, r1⟩ := p
      obtain ⟨g1, g2, g3⟩ := first_sh hrel ih ts s1 r1 hN hf
      rw [hf] at h
      rw [g3]
      rcases r1 with _ | ⟨t, r⟩
      · simp at h
      · simp only [] at h ⊢
        split at h
        · rename_i hd
          simp only [Option.some.injEq, Prod.mk.injEq] at h
          obtain ⟨rfl, rfl⟩ := h
          rw [if_pos hd]
          simp only [List.length_cons] at g1
          exact ⟨by omega, g2, rfl⟩
        · rename_i hd
          rw [if_neg hd]
          cases hb : parseRBlock σ f (t :: r) with
          | none => simp [hb] at h
          | some q =>
            obtain ⟨more, r2⟩ := q
            obtain ⟨q1, q2, q3⟩ := ih.block (t :: r) more r2 (by omega) hb
            rw [hb] at h
            rw [q3]
            simp only [Option.some.injEq, Prod.mk.injEq] at h ⊢
            obtain ⟨rfl, rfl⟩ := h
            exact ⟨by omega, by simp [g2], by simp⟩

theorem cstep_else (hrel : TabRel k N σ σ') {n} (ih : BelowCompSh k N σ σ' n) : ∀ ts oe rest, ts.length ≤ N →
    parseRElse σ n ts = some (oe, rest) →
    rest.length ≤ ts.length ∧ (∀ l, oe = some l → l ≠ []) ∧ parseRElse σ' n ts = some (oe.map (shSs k), rest) := by
  intro ts oe rest hN
  fun_cases parseRElse σ n ts
  all_goals intro h
  pcoreM h parseRElse [(ih _ rfl).suite]

theorem cstep_finally (hrel : TabRel k N σ σ') {n} (ih : BelowCompSh k N σ σ' n) : ∀ ts oe rest, ts.length ≤ N →
    parseRFinally σ n ts = some (oe, rest) →
    rest.length ≤ ts.length ∧ (∀ l, oe = some l → l ≠ []) ∧ parseRFinally σ' n ts = some (oe.map (shSs k), rest) := by
  intro ts oe rest hN
  fun_cases parseRFinally σ n ts
  all_goals intro h
  pcoreM h parseRFinally [(ih _ rfl).suite]

theorem cstep_elifs (hrel : TabRel k N σ σ') {n} (ih : BelowCompSh k N σ σ' n) : ∀ ts cs rest, ts.length ≤ N →
    parseRElifs σ n ts = some (cs, rest) →
    rest.length ≤ ts.length ∧ ElifsNE cs ∧ parseRElifs σ' n ts = some (cs.map (shElif k), rest) := by
  intro ts cs rest hN
  fun_cases parseRElifs σ n ts
  all_goals intro h
  pcoreM h parseRElifs [namedTest_sh hrel, (ih _ rfl).suite, (ih _ rfl).elifs] [shElif]

theorem cstep_handlers (hrel : TabRel k N σ σ') {n} (ih : BelowCompSh k N σ σ' n) : ∀ star ts hs rest, ts.length ≤ N →
    parseRHandlers σ n star ts = some (hs, rest) →
    rest.length < ts.length ∧ hs ≠ [] ∧ parseRHandlers σ' n star ts = some (shHs k hs, rest) := by
  intro star ts hs rest hN
  fun_cases parseRHandlers σ n star ts
  all_goals intro h
  pcoreM h parseRHandlers [exceptHeader_sh hrel, (ih _ rfl).suite, (ih _ rfl).handlers] [lastEnd_shSs]

theorem cstep_cases (hrel : TabRel k N σ σ') {n} (ih : BelowCompSh k N σ σ' n) : ∀ ts cs rest, ts.length ≤ N →
    parseRCases σ n ts = some (cs, rest) →
    rest.length < ts.length ∧ cs ≠ [] ∧ CasesNE cs ∧ parseRCases σ' n ts = some (shCases k cs, rest) := by
  intro ts cs rest hN
  fun_cases parseRCases σ n ts
  all_goals intro h
  pcoreM h parseRCases [patterns_sh hrel, guardOfR_sh hrel, (ih _ rfl).suite, (ih _ rfl).cases]
    [lastEnd_shSs]

theorem cstep_def (hrel : TabRel k N σ σ') {n} (ih : BelowCompSh k N σ σ' n) : ∀ st isAsync decos ts s rest,
    ts.length ≤ N → parseRDef σ n st isAsync decos ts = some (s, rest) →
    rest.length < ts.length ∧ parseRDef σ' n (st + k) isAsync (shL k decos) ts = some (shS k s, rest) := by
  intro st isAsync decos ts s rest hN
  fun_cases parseRDef σ n st isAsync decos ts
  all_goals intro h
  pcoreM h parseRDef [typeParamsOpt_sh hrel, parameters_sh hrel, retOfR_sh hrel, (ih _ rfl).suite] [lastEnd_shSs]

theorem cstep_class (hrel : TabRel k N σ σ') {n} (ih : BelowCompSh k N σ σ' n) : ∀ st decos ts s rest,
    ts.length ≤ N → parseRClass σ n st decos ts = some (s, rest) →
    rest.length < ts.length ∧ parseRClass σ' n (st + k) (shL k decos) ts = some (shS k s, rest) := by
  intro st decos ts s rest hN
  fun_cases parseRClass σ n st decos ts
  all_goals intro h
  pcoreM h parseRClass [typeParamsOpt_sh hrel, classArgsOfR_sh hrel, (ih _ rfl).suite] [lastEnd_shSs]

theorem cstep_for (hrel : TabRel k N σ σ') {n} (ih : BelowCompSh k N σ σ' n) : ∀ st isAsync ts s rest,
    ts.length ≤ N → parseRFor σ n st isAsync ts = some (s, rest) →
    rest.length < ts.length ∧ parseRFor σ' n (st + k) isAsync ts = some (shS k s, rest) := by
  intro st isAsync ts s rest hN
  fun_cases parseRFor σ n st isAsync ts
  all_goals intro h
  pcoreM h parseRFor [targetList_sh hrel, testListS_sh hrel, (ih _ rfl).suite, (ih _ rfl).else_]
    [loopEndR_shift, getD_map_shSs]

theorem cstep_with (hrel : TabRel k N σ σ') {n} (ih : BelowCompSh k N σ σ' n) : ∀ st isAsync ts s rest,
    ts.length ≤ N → parseRWith σ n st isAsync ts = some (s, rest) →
    rest.length < ts.length ∧ parseRWith σ' n (st + k) isAsync ts = some (shS k s, rest) := by
  intro st isAsync ts s rest hN
  fun_cases parseRWith σ n st isAsync ts
  all_goals intro h
  pcoreM h parseRWith [withItems_sh hrel, (ih _ rfl).suite] [lastEnd_shSs]

theorem ifAssembleR_shift' (k st : Nat) (test : RExpr) {body : List RStmt} {s2 : List (Nat × RExpr × List RStmt)}
    {s3 : Option (List RStmt)} (hb : body ≠ []) (h2 : ElifsNE s2) (h3 : ∀ l, s3 = some l → l ≠ []) :
    ifAssembleR (st + k) (shE k test) (shSs k body) (s2.map (shElif k)) (s3.map (shSs k)) =
      shS k (ifAssembleR st test body s2 s3) := ifAssembleR_shift k st test hb h2 h3

/-- the last alternative of `parseRCompound` (same text): the statement is decided by the kind of its first token -/
def compTail (σ : SpanTab) (f : Nat) (t : Tok) (r : List Tok) : PR RStmt :=
    match tk t with
    | .hk .while =>
      (match parseRNamedTest σ f r with
       | some (test, .op .colon :: r1) =>
         (match parseRSuite σ f r1 with
          | some (body, r2) =>
            (match parseRElse σ f r2 with
             | some (oe, r3) => some (.while (L σ (t :: r), loopEndR body oe) test body (oe.getD []), r3)
             | none => none)
          | none => none)
       | _ => none)
    | .hk .try =>
      (match r with
       | .op .colon :: r1 =>
         (match parseRSuite σ f r1 with
          | some (body, t2 :: r2) =>
            (match tk t2 with
             | .hk .finally =>
               (match r2 with
                | .op .colon :: r3 =>
                  (match parseRSuite σ f r3 with
                   | some (fb, r4) => some (.try (L σ (t :: r), lastEnd fb) body [] [] fb, r4)
                   | none => none)
                | _ => none)
             | .hk .except =>
               let star : Bool := match r2 with | .op .star :: _ => true | _ => false
               (match parseRHandlers σ f star (t2 :: r2) with
                | some (hs, r3) =>
                  (match parseRElse σ f r3 with
                   | some (oe, r4) =>
                     (match parseRFinally σ f r4 with
                      | some (fb, r5) =>
                        if star then
                          some (.tryStar (L σ (t :: r), tryEndR hs oe fb) body hs (oe.getD []) (fb.getD []), r5)
                        else some (.try (L σ (t :: r), tryEndR hs oe fb) body hs (oe.getD []) (fb.getD []), r5)
                      | none => none)
                   | none => none)
                | none => none)
             | _ => none)
          | _ => none)
       | _ => none)
    | .hk .with => parseRWith σ f (L σ (t :: r)) false r
    | .hk .def => parseRDef σ f (L σ (t :: r)) false [] r
    | .hk .class => parseRClass σ f (L σ (t :: r)) [] r
    | .hk .match =>
      (match parseRCommaList σ .starOrNamed f r with
       | some ((es, tc), .op .colon :: t1 :: t2 :: r1) =>
         if tk t1 = .newline ∧ tk t2 = .indent then
           (match parseRCases σ f r1 with
            | some (cs, r2) => some (.match (L σ (t :: r), casesEnd cs) (matchSubjectR (es, tc)) cs, r2)
            | none => none)
         else none
       | _ => none)
    | _ => none

theorem compound_tail_unfold (σ : SpanTab) (f : Nat) (t : Tok) (r : List Tok) (h1 : t ≠ .kw .if) (h2 : t ≠ .kw .for)
    (h3 : t ≠ .kw .async) (h4 : t ≠ .op .at) : parseRCompound σ (f + 1) (t :: r) = compTail σ f t r := by
  rw [parseRCompound.eq_def]
  split
  all_goals first
    | (simp_all; done)
    | (rename_i heq1 heq2
       simp only [Nat.succ.injEq, Nat.add_left_inj, Nat.add_right_cancel_iff, List.cons.injEq] at heq1 heq2
       obtain ⟨rfl, rfl⟩ := heq2
       subst heq1
       rfl)

theorem compTail_sh (hrel : TabRel k N σ σ') {f} (ih : CompShAt k N σ σ' f) : ∀ t r s rest, r.length + 1 ≤ N →
    compTail σ f t r = some (s, rest) →
    rest.length < r.length + 1 ∧ compTail σ' f t r = some (shS k s, rest) := by
  intro t r s rest hN
  fun_cases compTail σ f t r
  all_goals intro h
  pcore h compTail [namedTest_sh hrel, commaList_sh hrel, ih.suite, ih.else_, ih.finally_, ih.handlers, ih.cases, ih.def_,
    ih.class_, ih.with_]
    [lastEnd_shSs, loopEndR_shift, tryEndR_shift, casesEnd_shCases, matchSubjectR_shift, getD_map_shSs]

theorem not_async_of (t : Tok) (r : List Tok) (h3 : ∀ (t2 : Tok) (r2 : List Tok), t = .kw .async → r = t2 :: r2 → False)
    (h4 : t = .kw .async → r = [] → False) : t ≠ .kw .async := by
  intro e
  cases r with
  | nil => exact h4 e rfl
  | cons a b => exact h3 a b e rfl

theorem cstep_compound (hrel : TabRel k N σ σ') {n} (ih : BelowCompSh k N σ σ' n) : ∀ ts s rest, ts.length ≤ N →
    parseRCompound σ n ts = some (s, rest) →
    rest.length < ts.length ∧ parseRCompound σ' n ts = some (shS k s, rest) := by
  intro ts s rest hN
  by_cases hT : ∃ t r, ts = t :: r ∧ t ≠ .kw .if ∧ t ≠ .kw .for ∧ t ≠ .kw .async ∧ t ≠ .op .at
  · obtain ⟨t, r, rfl, h1, h2, h3, h4⟩ := hT
    intro h
    cases n with
    | zero => simp [parseRCompound] at h
    | succ f =>
      rw [compound_tail_unfold σ f t r h1 h2 h3 h4] at h
      rw [compound_tail_unfold σ' f t r h1 h2 h3 h4]
      exact compTail_sh hrel (ih _ rfl) t r s rest hN h
  · fun_cases parseRCompound σ n ts
    all_goals intro h
    all_goals try (exfalso; apply hT; exact ⟨_, _, rfl, by assumption, by assumption, not_async_of _ _ (by assumption) (by assumption), by assumption⟩)
    pcoreM h parseRCompound [namedTest_sh hrel, decorators_sh hrel, (ih _ rfl).suite, (ih _ rfl).elifs,
      (ih _ rfl).else_, (ih _ rfl).def_, (ih _ rfl).class_, (ih _ rfl).for_, (ih _ rfl).with_]
      [ifAssembleR_shift']

theorem compShAt_of_below (hrel : TabRel k N σ σ') {n : Nat} (b : BelowCompSh k N σ σ' n) : CompShAt k N σ σ' n :=
  ⟨cstep_suite hrel b, cstep_block hrel b, cstep_else hrel b, cstep_finally hrel b, cstep_elifs hrel b,
    cstep_handlers hrel b, cstep_cases hrel b, cstep_def hrel b, cstep_class hrel b, cstep_compound hrel b,
    cstep_for hrel b, cstep_with hrel b⟩

/-- every compound-statement function of the ranged program parser commutes with the shift, at every fuel -/
theorem compShAt (hrel : TabRel k N σ σ') : ∀ n, CompShAt k N σ σ' n
  | 0 => compShAt_of_below hrel (fun f h => absurd h (by omega))
  | n + 1 => compShAt_of_below hrel (fun f h => by cases h; exact compShAt hrel n)

end
end PV.C09
