import PV.C02.EraseSteps
import PV.C09.HFwd
/-
  PV.C09.RShiftBase — definitions and helper lemmas for `PV.C09.parseR_shift` (lean/PV/C09/RShift.lean): the map `shE k`
  that moves every range of a ranged expression `PV.C02.RExpr` by `k`, span tables related by a shift (`TabRel`), the
  statement proved of every function of the ranged parser (`ShiftAt`) and the tactic of the induction (`hstep`).
-/
set_option linter.unusedSimpArgs false
set_option linter.unusedVariables false
namespace PV.C09
open PV.Expr PV.C11 PV.C02

/-- move a range by `k` -/
def shRg (k : Nat) (r : Rg) : Rg := (r.1 + k, r.2 + k)

mutual
/-- move every range of a ranged expression by `k`; nothing else changes -/
def shE (k : Nat) : RExpr → RExpr
  | .name rg id => .name (shRg k rg) id
  | .const rg c => .const (shRg k rg) c
  | .boolOp rg op vs => .boolOp (shRg k rg) op (shL k vs)
  | .namedExpr rg t v => .namedExpr (shRg k rg) (shE k t) (shE k v)
  | .binOp rg l op r => .binOp (shRg k rg) (shE k l) op (shE k r)
  | .unaryOp rg op e => .unaryOp (shRg k rg) op (shE k e)
  | .lambda rg argsRg po ar va ko kw b =>
    .lambda (shRg k rg) (shRg k argsRg) (shPs k po) (shPs k ar) (va.map fun p => (shRg k p.1, p.2)) (shPs k ko)
      (kw.map fun p => (shRg k p.1, p.2)) (shE k b)
  | .ifExp rg t b o => .ifExp (shRg k rg) (shE k t) (shE k b) (shE k o)
  | .dict rg items => .dict (shRg k rg) (shIs k items)
  | .set rg es => .set (shRg k rg) (shL k es)
  | .listComp rg e gs => .listComp (shRg k rg) (shE k e) (shCs k gs)
  | .setComp rg e gs => .setComp (shRg k rg) (shE k e) (shCs k gs)
  | .dictComp rg ke v gs => .dictComp (shRg k rg) (shE k ke) (shE k v) (shCs k gs)
  | .genExp rg e gs => .genExp (shRg k rg) (shE k e) (shCs k gs)
  | .await rg e => .await (shRg k rg) (shE k e)
  | .yield rg e => .yield (shRg k rg) (shO k e)
  | .yieldFrom rg e => .yieldFrom (shRg k rg) (shE k e)
  | .compare rg l ops cs => .compare (shRg k rg) (shE k l) ops (shL k cs)
  | .call rg f as ks => .call (shRg k rg) (shE k f) (shL k as) (shKs k ks)
  | .formattedValue rg v c spec => .formattedValue (shRg k rg) (shE k v) c (shO k spec)
  | .joinedStr rg vs => .joinedStr (shRg k rg) (shL k vs)
  | .attribute rg e a => .attribute (shRg k rg) (shE k e) a
  | .subscript rg e s => .subscript (shRg k rg) (shE k e) (shE k s)
  | .starred rg e => .starred (shRg k rg) (shE k e)
  | .list rg es => .list (shRg k rg) (shL k es)
  | .tuple rg es => .tuple (shRg k rg) (shL k es)
  | .slice rg a b c => .slice (shRg k rg) (shO k a) (shO k b) (shO k c)
def shL (k : Nat) : List RExpr → List RExpr
  | [] => []
  | e :: es => shE k e :: shL k es
def shO (k : Nat) : Option RExpr → Option RExpr
  | none => none
  | some e => some (shE k e)
def shCs (k : Nat) : List RComp → List RComp
  | [] => []
  | .mk rg t i ifs a :: gs => .mk (shRg k rg) (shE k t) (shE k i) (shL k ifs) a :: shCs k gs
def shPs (k : Nat) : List RParam → List RParam
  | [] => []
  | .mk rg d n x :: ps => .mk (shRg k rg) (shRg k d) n (shO k x) :: shPs k ps
def shKs (k : Nat) : List RKeyword → List RKeyword
  | [] => []
  | .mk rg a v :: ks => .mk (shRg k rg) a (shE k v) :: shKs k ks
def shIs (k : Nat) : List RDictItem → List RDictItem
  | [] => []
  | .mk ke v :: is => .mk (shO k ke) (shE k v) :: shIs k is
end


@[simp] theorem shL_nil (k : Nat) : shL k [] = [] := by rw [shL]
@[simp] theorem shL_cons (k : Nat) (e : RExpr) (es : List RExpr) : shL k (e :: es) = shE k e :: shL k es := by rw [shL]
@[simp] theorem shL_append (k : Nat) (a b : List RExpr) : shL k (a ++ b) = shL k a ++ shL k b := by
  induction a with
  | nil => simp
  | cons x xs ih => simp [ih]
@[simp] theorem shO_none (k : Nat) : shO k none = none := by rw [shO]
@[simp] theorem shO_some (k : Nat) (e : RExpr) : shO k (some e) = some (shE k e) := by rw [shO]
@[simp] theorem shPs_nil (k : Nat) : shPs k [] = [] := by rw [shPs]
@[simp] theorem shPs_cons (k : Nat) (rg d : Rg) (n : Ident) (x : Option RExpr) (ps : List RParam) :
    shPs k (.mk rg d n x :: ps) = .mk (shRg k rg) (shRg k d) n (shO k x) :: shPs k ps := by rw [shPs]
@[simp] theorem shPs_append (k : Nat) (a b : List RParam) : shPs k (a ++ b) = shPs k a ++ shPs k b := by
  induction a with
  | nil => simp
  | cons x xs ih => cases x; simp [ih]
@[simp] theorem shKs_nil (k : Nat) : shKs k [] = [] := by rw [shKs]
@[simp] theorem shKs_cons (k : Nat) (rg : Rg) (a : Option Ident) (v : RExpr) (ks : List RKeyword) :
    shKs k (.mk rg a v :: ks) = .mk (shRg k rg) a (shE k v) :: shKs k ks := by rw [shKs]
@[simp] theorem shKs_append (k : Nat) (a b : List RKeyword) : shKs k (a ++ b) = shKs k a ++ shKs k b := by
  induction a with
  | nil => simp
  | cons x xs ih => cases x; simp [ih]
@[simp] theorem shIs_nil (k : Nat) : shIs k [] = [] := by rw [shIs]
@[simp] theorem shIs_cons (k : Nat) (ke : Option RExpr) (v : RExpr) (is : List RDictItem) :
    shIs k (.mk ke v :: is) = .mk (shO k ke) (shE k v) :: shIs k is := by rw [shIs]
@[simp] theorem shCs_nil (k : Nat) : shCs k [] = [] := by rw [shCs]
@[simp] theorem shCs_cons (k : Nat) (rg : Rg) (t i : RExpr) (ifs : List RExpr) (a : Bool) (gs : List RComp) :
    shCs k (.mk rg t i ifs a :: gs) = .mk (shRg k rg) (shE k t) (shE k i) (shL k ifs) a :: shCs k gs := by rw [shCs]

@[simp] theorem shL_isEmpty (k : Nat) (a : List RExpr) : (shL k a).isEmpty = a.isEmpty := by cases a <;> simp
@[simp] theorem shKs_isEmpty (k : Nat) (a : List RKeyword) : (shKs k a).isEmpty = a.isEmpty := by
  cases a with
  | nil => simp
  | cons x xs => cases x; simp
@[simp] theorem shPs_isEmpty (k : Nat) (a : List RParam) : (shPs k a).isEmpty = a.isEmpty := by
  cases a with
  | nil => simp
  | cons x xs => cases x; simp
@[simp] theorem shL_length (k : Nat) (a : List RExpr) : (shL k a).length = a.length := by
  induction a with
  | nil => simp
  | cons x xs ih => simp [ih]

@[simp] theorem shL_eq_nil (k : Nat) (a : List RExpr) : shL k a = [] ↔ a = [] := by cases a <;> simp
@[simp] theorem shKs_eq_nil (k : Nat) (a : List RKeyword) : shKs k a = [] ↔ a = [] := by
  cases a with
  | nil => simp
  | cons x xs => cases x; simp
@[simp] theorem shPs_eq_nil (k : Nat) (a : List RParam) : shPs k a = [] ↔ a = [] := by
  cases a with
  | nil => simp
  | cons x xs => cases x; simp

@[simp] theorem any_rkwHasName_shKs (k : Nat) (n : Ident) (ks : List RKeyword) :
    (shKs k ks).any (rkwHasName n) = ks.any (rkwHasName n) := by
  induction ks with
  | nil => simp
  | cons x xs ih => obtain ⟨rg, a, v⟩ := x; cases a <;> simp [rkwHasName, ih]

@[simp] theorem isStarredR_shE (k : Nat) (e : RExpr) : isStarredR (shE k e) = isStarredR e := by
  cases e <;> simp [shE, isStarredR]

@[simp] theorem range_shE (k : Nat) (e : RExpr) : (shE k e).range = shRg k e.range := by
  cases e <;> simp [shE, RExpr.range]

@[simp] theorem shRg_fst (k : Nat) (r : Rg) : (shRg k r).1 = r.1 + k := rfl
@[simp] theorem shRg_snd (k : Nat) (r : Rg) : (shRg k r).2 = r.2 + k := rfl
theorem shRg_mk (k a b : Nat) : shRg k (a, b) = (a + k, b + k) := rfl



mutual
/-- nothing but the ranges changes: the range-erased tree is the same -/
theorem erase_shE (k : Nat) : ∀ e : RExpr, (shE k e).erase = e.erase
  | .name rg id => by simp [shE, RExpr.erase]
  | .const rg c => by simp [shE, RExpr.erase]
  | .boolOp rg op vs => by simp [shE, RExpr.erase, eraseList_shL k vs]
  | .namedExpr rg t v => by simp [shE, RExpr.erase, erase_shE k t, erase_shE k v]
  | .binOp rg l op r => by simp [shE, RExpr.erase, erase_shE k l, erase_shE k r]
  | .unaryOp rg op e => by simp [shE, RExpr.erase, erase_shE k e]
  | .lambda rg argsRg po ar va ko kw b => by
    simp [shE, RExpr.erase, eraseParams_shPs k po, eraseParams_shPs k ar, eraseParams_shPs k ko, erase_shE k b,
      Function.comp_def]
  | .ifExp rg t b o => by simp [shE, RExpr.erase, erase_shE k t, erase_shE k b, erase_shE k o]
  | .dict rg items => by simp [shE, RExpr.erase, eraseItems_shIs k items]
  | .set rg es => by simp [shE, RExpr.erase, eraseList_shL k es]
  | .listComp rg e gs => by simp [shE, RExpr.erase, erase_shE k e, eraseComps_shCs k gs]
  | .setComp rg e gs => by simp [shE, RExpr.erase, erase_shE k e, eraseComps_shCs k gs]
  | .dictComp rg ke v gs => by simp [shE, RExpr.erase, erase_shE k ke, erase_shE k v, eraseComps_shCs k gs]
  | .genExp rg e gs => by simp [shE, RExpr.erase, erase_shE k e, eraseComps_shCs k gs]
  | .await rg e => by simp [shE, RExpr.erase, erase_shE k e]
  | .yield rg e => by simp [shE, RExpr.erase, eraseOpt_shO k e]
  | .yieldFrom rg e => by simp [shE, RExpr.erase, erase_shE k e]
  | .compare rg l ops cs => by simp [shE, RExpr.erase, erase_shE k l, eraseList_shL k cs]
  | .call rg f as ks => by simp [shE, RExpr.erase, erase_shE k f, eraseList_shL k as, eraseKws_shKs k ks]
  | .formattedValue rg v c spec => by simp [shE, RExpr.erase, erase_shE k v, eraseOpt_shO k spec]
  | .joinedStr rg vs => by simp [shE, RExpr.erase, eraseList_shL k vs]
  | .attribute rg e a => by simp [shE, RExpr.erase, erase_shE k e]
  | .subscript rg e s => by simp [shE, RExpr.erase, erase_shE k e, erase_shE k s]
  | .starred rg e => by simp [shE, RExpr.erase, erase_shE k e]
  | .list rg es => by simp [shE, RExpr.erase, eraseList_shL k es]
  | .tuple rg es => by simp [shE, RExpr.erase, eraseList_shL k es]
  | .slice rg a b c => by simp [shE, RExpr.erase, eraseOpt_shO k a, eraseOpt_shO k b, eraseOpt_shO k c]
theorem eraseList_shL (k : Nat) : ∀ l : List RExpr, eraseList (shL k l) = eraseList l
  | [] => by simp
  | e :: es => by simp [erase_shE k e, eraseList_shL k es]
theorem eraseOpt_shO (k : Nat) : ∀ o : Option RExpr, eraseOpt (shO k o) = eraseOpt o
  | none => by simp
  | some e => by simp [erase_shE k e]
theorem eraseComps_shCs (k : Nat) : ∀ l : List RComp, eraseComps (shCs k l) = eraseComps l
  | [] => by simp
  | .mk rg t i ifs a :: gs => by simp [erase_shE k t, erase_shE k i, eraseList_shL k ifs, eraseComps_shCs k gs]
theorem eraseParams_shPs (k : Nat) : ∀ l : List RParam, eraseParams (shPs k l) = eraseParams l
  | [] => by simp
  | .mk rg d n x :: ps => by simp [eraseOpt_shO k x, eraseParams_shPs k ps]
theorem eraseKws_shKs (k : Nat) : ∀ l : List RKeyword, eraseKws (shKs k l) = eraseKws l
  | [] => by simp
  | .mk rg a v :: ks => by simp [erase_shE k v, eraseKws_shKs k ks]
theorem eraseItems_shIs (k : Nat) : ∀ l : List RDictItem, eraseItems (shIs k l) = eraseItems l
  | [] => by simp
  | .mk ke v :: is => by simp [eraseOpt_shO k ke, erase_shE k v, eraseItems_shIs k is]
end


attribute [simp] erase_shE eraseList_shL eraseOpt_shO eraseComps_shCs eraseParams_shPs eraseKws_shKs eraseItems_shIs

/-! ## span tables related by a shift -/

/-- the spans of the `N` tokens of the input are moved by `k` (entries outside `1..N` are never looked at) -/
def TabRel (k N : Nat) (σ σ' : SpanTab) : Prop := ∀ i, 1 ≤ i → i ≤ N → σ' i = shRg k (σ i)

theorem TabRel.fst {k N : Nat} {σ σ' : SpanTab} (h : TabRel k N σ σ') {i : Nat} (h1 : 1 ≤ i) (h2 : i ≤ N) :
    (σ' i).1 = (σ i).1 + k := by rw [h i h1 h2]; rfl
theorem TabRel.snd {k N : Nat} {σ σ' : SpanTab} (h : TabRel k N σ σ') {i : Nat} (h1 : 1 ≤ i) (h2 : i ≤ N) :
    (σ' i).2 = (σ i).2 + k := by rw [h i h1 h2]; rfl

def shParams (k : Nat) (ps : RParams) : RParams :=
  { posonly := shPs k ps.posonly, args := shPs k ps.args, vararg := ps.vararg.map fun p => (shRg k p.1, p.2),
    kwonly := shPs k ps.kwonly, kwarg := ps.kwarg.map fun p => (shRg k p.1, p.2) }

@[simp] theorem shParams_empty (k : Nat) : shParams k {} = {} := rfl
@[simp] theorem shParams_posonly (k : Nat) (ps : RParams) : (shParams k ps).posonly = shPs k ps.posonly := rfl
@[simp] theorem shParams_args (k : Nat) (ps : RParams) : (shParams k ps).args = shPs k ps.args := rfl
@[simp] theorem shParams_vararg (k : Nat) (ps : RParams) :
    (shParams k ps).vararg = ps.vararg.map fun p => (shRg k p.1, p.2) := rfl
@[simp] theorem shParams_kwonly (k : Nat) (ps : RParams) : (shParams k ps).kwonly = shPs k ps.kwonly := rfl
@[simp] theorem shParams_kwarg (k : Nat) (ps : RParams) :
    (shParams k ps).kwarg = ps.kwarg.map fun p => (shRg k p.1, p.2) := rfl
@[simp] theorem erase_shParams (k : Nat) (ps : RParams) : (shParams k ps).erase = ps.erase := by
  simp [RParams.erase, shParams, Function.comp_def]

def shPiece (k : Nat) : (List Nat ⊕ RExpr) → (List Nat ⊕ RExpr)
  | .inl s => .inl s
  | .inr e => .inr (shE k e)

/-- what is proved of every function of the ranged parser, at fuel `f`: if it returns an answer for the table `σ`, it
    returns the shifted answer (same rest) for every table `σ'` whose first `N` spans are those of `σ` moved by `k` — and
    how many tokens it consumed at least (which is what keeps every table look-up inside `1..N`) -/
structure ShiftAt (k f : Nat) : Prop where
  test : ∀ N σ σ', TabRel k N σ σ' → ∀ ts e rest, ts.length ≤ N → parseRTest σ f ts = some (e, rest) →
    rest.length < ts.length ∧ parseRTest σ' f ts = some (shE k e, rest)
  namedTest : ∀ N σ σ', TabRel k N σ σ' → ∀ ts e rest, ts.length ≤ N → parseRNamedTest σ f ts = some (e, rest) →
    rest.length < ts.length ∧ parseRNamedTest σ' f ts = some (shE k e, rest)
  starOrNamed : ∀ N σ σ', TabRel k N σ σ' → ∀ ts e rest, ts.length ≤ N → parseRStarOrNamed σ f ts = some (e, rest) →
    rest.length < ts.length ∧ parseRStarOrNamed σ' f ts = some (shE k e, rest)
  testOrStar : ∀ N σ σ', TabRel k N σ σ' → ∀ ts e rest, ts.length ≤ N → parseRTestOrStar σ f ts = some (e, rest) →
    rest.length < ts.length ∧ parseRTestOrStar σ' f ts = some (shE k e, rest)
  orTest : ∀ N σ σ', TabRel k N σ σ' → ∀ ts e rest, ts.length ≤ N → parseROrTest σ f ts = some (e, rest) →
    rest.length < ts.length ∧ parseROrTest σ' f ts = some (shE k e, rest)
  andTest : ∀ N σ σ', TabRel k N σ σ' → ∀ ts e rest, ts.length ≤ N → parseRAndTest σ f ts = some (e, rest) →
    rest.length < ts.length ∧ parseRAndTest σ' f ts = some (shE k e, rest)
  notTest : ∀ N σ σ', TabRel k N σ σ' → ∀ ts e rest, ts.length ≤ N → parseRNotTest σ f ts = some (e, rest) →
    rest.length < ts.length ∧ parseRNotTest σ' f ts = some (shE k e, rest)
  cmp : ∀ N σ σ', TabRel k N σ σ' → ∀ ts e rest, ts.length ≤ N → parseRCmp σ f ts = some (e, rest) →
    rest.length < ts.length ∧ parseRCmp σ' f ts = some (shE k e, rest)
  factor : ∀ N σ σ', TabRel k N σ σ' → ∀ ts e rest, ts.length ≤ N → parseRFactor σ f ts = some (e, rest) →
    rest.length < ts.length ∧ parseRFactor σ' f ts = some (shE k e, rest)
  power : ∀ N σ σ', TabRel k N σ σ' → ∀ ts e rest, ts.length ≤ N → parseRPower σ f ts = some (e, rest) →
    rest.length < ts.length ∧ parseRPower σ' f ts = some (shE k e, rest)
  atomExpr : ∀ N σ σ', TabRel k N σ σ' → ∀ ts e rest, ts.length ≤ N → parseRAtomExpr σ f ts = some (e, rest) →
    rest.length < ts.length ∧ parseRAtomExpr σ' f ts = some (shE k e, rest)
  atomExpr2 : ∀ N σ σ', TabRel k N σ σ' → ∀ ts e rest, ts.length ≤ N → parseRAtomExpr2 σ f ts = some (e, rest) →
    rest.length < ts.length ∧ parseRAtomExpr2 σ' f ts = some (shE k e, rest)
  subscript : ∀ N σ σ', TabRel k N σ σ' → ∀ ts e rest, ts.length ≤ N → parseRSubscript σ f ts = some (e, rest) →
    rest.length < ts.length ∧ parseRSubscript σ' f ts = some (shE k e, rest)
  atom : ∀ N σ σ', TabRel k N σ σ' → ∀ ts e rest, ts.length ≤ N → parseRAtom σ f ts = some (e, rest) →
    rest.length < ts.length ∧ parseRAtom σ' f ts = some (shE k e, rest)
  exprOrStar : ∀ N σ σ', TabRel k N σ σ' → ∀ ts e rest, ts.length ≤ N → parseRExprOrStar σ f ts = some (e, rest) →
    rest.length < ts.length ∧ parseRExprOrStar σ' f ts = some (shE k e, rest)
  targetList : ∀ N σ σ', TabRel k N σ σ' → ∀ ts e rest, ts.length ≤ N → parseRTargetList σ f ts = some (e, rest) →
    rest.length < ts.length ∧ parseRTargetList σ' f ts = some (shE k e, rest)
  testList : ∀ N σ σ', TabRel k N σ σ' → ∀ ts e rest, ts.length ≤ N → parseRTestList σ f ts = some (e, rest) →
    rest.length < ts.length ∧ parseRTestList σ' f ts = some (shE k e, rest)
  lambda : ∀ N σ σ', TabRel k N σ σ' → ∀ ts e rest, ts.length + 1 ≤ N → parseRLambda σ f ts = some (e, rest) →
    rest.length < ts.length ∧ parseRLambda σ' f ts = some (shE k e, rest)
  listAtom : ∀ N σ σ', TabRel k N σ σ' → ∀ ts e rest, ts.length + 1 ≤ N → parseRListAtom σ f ts = some (e, rest) →
    rest.length < ts.length ∧ parseRListAtom σ' f ts = some (shE k e, rest)
  parenAtom : ∀ N σ σ', TabRel k N σ σ' → ∀ ts e rest, ts.length + 1 ≤ N → parseRParenAtom σ f ts = some (e, rest) →
    rest.length < ts.length ∧ parseRParenAtom σ' f ts = some (shE k e, rest)
  yieldAtom : ∀ N σ σ', TabRel k N σ σ' → ∀ ts e rest, ts.length + 1 ≤ N → parseRYieldAtom σ f ts = some (e, rest) →
    rest.length < ts.length ∧ parseRYieldAtom σ' f ts = some (shE k e, rest)
  braceAtom : ∀ N σ σ', TabRel k N σ σ' → ∀ ts e rest, ts.length + 1 ≤ N → parseRBraceAtom σ f ts = some (e, rest) →
    rest.length < ts.length ∧ parseRBraceAtom σ' f ts = some (shE k e, rest)
  params : ∀ N σ σ', TabRel k N σ σ' → ∀ ts ps ph ps' rest, ts.length ≤ N → parseRParams σ f ts ps ph = some (ps', rest) →
    rest.length ≤ ts.length ∧ parseRParams σ' f ts (shParams k ps) ph = some (shParams k ps', rest)
  orRest : ∀ N σ σ', TabRel k N σ σ' → ∀ ts es rest, ts.length ≤ N → parseROrRest σ f ts = some (es, rest) →
    rest.length < ts.length ∧ parseROrRest σ' f ts = some (shL k es, rest)
  andRest : ∀ N σ σ', TabRel k N σ σ' → ∀ ts es rest, ts.length ≤ N → parseRAndRest σ f ts = some (es, rest) →
    rest.length < ts.length ∧ parseRAndRest σ' f ts = some (shL k es, rest)
  cmpRest : ∀ N σ σ', TabRel k N σ σ' → ∀ ts ops cs rest, ts.length ≤ N → parseRCmpRest σ f ts = some ((ops, cs), rest) →
    rest.length ≤ ts.length ∧ parseRCmpRest σ' f ts = some ((ops, shL k cs), rest)
  bin : ∀ N σ σ', TabRel k N σ σ' → ∀ lvl ts e rest, ts.length ≤ N → parseRBin σ lvl f ts = some (e, rest) →
    rest.length < ts.length ∧ parseRBin σ' lvl f ts = some (shE k e, rest)
  binLoop : ∀ N σ σ', TabRel k N σ σ' → ∀ lvl st acc ts e rest, ts.length ≤ N → parseRBinLoop σ lvl f st acc ts = some (e, rest) →
    rest.length ≤ ts.length ∧ parseRBinLoop σ' lvl f (st + k) (shE k acc) ts = some (shE k e, rest)
  trailers : ∀ N σ σ', TabRel k N σ σ' → ∀ st acc ts e rest, ts.length ≤ N → parseRTrailers σ f st acc ts = some (e, rest) →
    rest.length ≤ ts.length ∧ parseRTrailers σ' f (st + k) (shE k acc) ts = some (shE k e, rest)
  args : ∀ N σ σ', TabRel k N σ σ' → ∀ ts as ks d as' ks' rest, ts.length ≤ N → parseRArgs σ f ts as ks d = some ((as', ks'), rest) →
    rest.length < ts.length ∧ parseRArgs σ' f ts (shL k as) (shKs k ks) d = some ((shL k as', shKs k ks'), rest)
  arg : ∀ N σ σ', TabRel k N σ σ' → ∀ ts as ks d as' ks' d' rest, ts.length ≤ N → parseRArg σ f ts as ks d = some (as', ks', d', rest) →
    rest.length < ts.length ∧ parseRArg σ' f ts (shL k as) (shKs k ks) d = some (shL k as', shKs k ks', d', rest)
  subscriptList : ∀ N σ σ', TabRel k N σ σ' → ∀ ts e rest, ts.length ≤ N → parseRSubscriptList σ f ts = some (e, rest) →
    rest.length + 2 ≤ ts.length ∧ parseRSubscriptList σ' f ts = some (shE k e, rest)
  subscripts : ∀ N σ σ', TabRel k N σ σ' → ∀ ts es rest, ts.length ≤ N → parseRSubscripts σ f ts = some (es, rest) →
    rest.length + 2 ≤ ts.length ∧ parseRSubscripts σ' f ts = some (shL k es, rest)
  sliceRest : ∀ N σ σ', TabRel k N σ σ' → ∀ st lower ts e rest, ts.length ≤ N → parseRSliceRest σ f st lower ts = some (e, rest) →
    rest.length < ts.length ∧ parseRSliceRest σ' f (st + k) (shO k lower) ts = some (shE k e, rest)
  braceFirst : ∀ N σ σ', TabRel k N σ σ' → ∀ ts e b rest, ts.length ≤ N → parseRBraceFirst σ f ts = some (e, b, rest) →
    rest.length < ts.length ∧ parseRBraceFirst σ' f ts = some (shE k e, b, rest)
  elems : ∀ N σ σ', TabRel k N σ σ' → ∀ close ts es tc rest, ts.length ≤ N → parseRElems σ f close ts = some ((es, tc), rest) →
    rest.length < ts.length ∧ parseRElems σ' f close ts = some ((shL k es, tc), rest)
  dictRest : ∀ N σ σ', TabRel k N σ σ' → ∀ ts is rest, ts.length ≤ N → parseRDictRest σ f ts = some (is, rest) →
    rest.length < ts.length ∧ parseRDictRest σ' f ts = some (shIs k is, rest)
  compFor : ∀ N σ σ', TabRel k N σ σ' → ∀ ts gs rest, ts.length ≤ N → parseRCompFor σ f ts = some (gs, rest) →
    rest.length < ts.length ∧ parseRCompFor σ' f ts = some (shCs k gs, rest)
  compIfs : ∀ N σ σ', TabRel k N σ σ' → ∀ ts cs rest, ts.length ≤ N → parseRCompIfs σ f ts = some (cs, rest) →
    rest.length ≤ ts.length ∧ parseRCompIfs σ' f ts = some (shL k cs, rest)
  targetRest : ∀ N σ σ', TabRel k N σ σ' → ∀ ts es rest, ts.length ≤ N → parseRTargetRest σ f ts = some (es, rest) →
    rest.length ≤ ts.length ∧ parseRTargetRest σ' f ts = some (shL k es, rest)
  testListRest : ∀ N σ σ', TabRel k N σ σ' → ∀ ts es rest, ts.length ≤ N → parseRTestListRest σ f ts = some (es, rest) →
    rest.length ≤ ts.length ∧ parseRTestListRest σ' f ts = some (shL k es, rest)
  strings : ∀ N σ σ', TabRel k N σ σ' → ∀ t r e rest, (t :: r).length ≤ N → isStringTok t = true → parseRStrings σ f (t :: r) = some (e, rest) →
    rest.length < (t :: r).length ∧ parseRStrings σ' f (t :: r) = some (shE k e, rest)
  stringPieces : ∀ N σ σ', TabRel k N σ σ' → ∀ after ts pieces, ts.length + after ≤ N → parseRStringPieces σ f after ts = some pieces →
    parseRStringPieces σ' f after ts = some (pieces.map (shPiece k))
  fbody : ∀ lit base whole raw nested cs content vs r, 1 ≤ base →
    fstrRBody f lit base whole raw nested cs content = some (vs, r) →
    fstrRBody f (shRg k lit) (base + k) whole raw nested cs content = some (shL k vs, r)
  ffield : ∀ lit base whole raw nested cs vs r, 1 ≤ base →
    fstrRField f lit base whole raw nested cs = some (vs, r) →
    fstrRField f (shRg k lit) (base + k) whole raw nested cs = some (shL k vs, r)
  fspec : ∀ lit base whole raw nested cs piece vs r, 1 ≤ base →
    fstrRSpec f lit base whole raw nested cs piece = some (vs, r) →
    fstrRSpec f (shRg k lit) (base + k) whole raw nested cs piece = some (shL k vs, r)
  top : ∀ N σ σ', TabRel k N σ σ' → ∀ ts e, ts.length ≤ N → parseRTop σ f ts = some e → parseRTop σ' f ts = some (shE k e)

def BelowH (k n : Nat) : Prop := ∀ f, n = f + 1 → ShiftAt k f

/-! ### how many tokens the token-level helpers take (as in `PV.C02.SoundIdx`) -/

theorem binOpAt_len {lvl ts o r} (h : binOpAt lvl ts = some (o, r)) : ts.length = r.length + 1 := by
  unfold binOpAt at h
  split at h
  · split at h
    · split at h <;> simp_all
    · simp at h
  · simp at h

theorem unaryOpAt_len {ts o r} (h : unaryOpAt ts = some (o, r)) : ts.length = r.length + 1 := by
  unfold unaryOpAt at h
  split at h <;> simp_all

theorem cmpOpAt_len {ts o r} (h : cmpOpAt ts = some (o, r)) : r.length < ts.length := by
  unfold cmpOpAt at h
  split at h <;> simp_all <;> omega

theorem dropWhile_len {α} (p : α → Bool) (l : List α) : (l.dropWhile p).length ≤ l.length := by
  induction l with
  | nil => simp
  | cons x xs ih => simp only [List.dropWhile]; split <;> simp <;> omega

/-! ### `parseRSliceRest` binds its upper bound with `let`: the same text as two functions (as in `PV.C02.SoundSteps`) -/

/-- the upper bound of a slice, as `parseRSliceRest` computes it (same text) -/
def sliceUp (σ : SpanTab) (f : Nat) (r : List Tok) : Option (Option RExpr × List Tok) :=
  match r with
  | .op .colon :: _ => some (none, r)
  | .op .rsqb :: _ => some (none, r)
  | .op .comma :: _ => some (none, r)
  | _ => (match parseRTest σ f r with
          | some (e, r') => some (some e, r')
          | none => none)

theorem sliceUp_spec {σ : SpanTab} {f r upper r2} (h : sliceUp σ f r = some (upper, r2)) :
    (upper = none ∧ r2 = r ∧ ∀ σ', sliceUp σ' f r = some (none, r)) ∨
      ∃ e, upper = some e ∧ parseRTest σ f r = some (e, r2) ∧
        ∀ σ' e', parseRTest σ' f r = some (e', r2) → sliceUp σ' f r = some (some e', r2) := by
  unfold sliceUp at h
  split at h
  · simp at h; left; exact ⟨h.1.symm, h.2.symm, fun σ' => by simp [sliceUp]⟩
  · simp at h; left; exact ⟨h.1.symm, h.2.symm, fun σ' => by simp [sliceUp]⟩
  · simp at h; left; exact ⟨h.1.symm, h.2.symm, fun σ' => by simp [sliceUp]⟩
  · rename_i h1 h2 h3
    split at h
    · rename_i e r' he
      simp at h; right
      refine ⟨e, h.1.symm, by rw [he, h.2], fun σ' e' he' => ?_⟩
      unfold sliceUp
      split
      · exact absurd rfl (h1 _)
      · exact absurd rfl (h2 _)
      · exact absurd rfl (h3 _)
      · rw [he']
    · cases h

/-- the rest of `parseRSliceRest` once the upper bound is known (same text) -/
def sliceTail (σ : SpanTab) (f st : Nat) (lower : Option RExpr) (up : Option (Option RExpr × List Tok)) : PR RExpr :=
  match up with
  | none => none
  | some (upper, .op .colon :: r2) =>
    (match r2 with
     | .op .rsqb :: _ => some (.slice (st, R σ r2) lower upper none, r2)
     | .op .comma :: _ => some (.slice (st, R σ r2) lower upper none, r2)
     | _ => (match parseRTest σ f r2 with
             | some (stp, r3) => some (.slice (st, R σ r3) lower upper (some stp), r3)
             | none => none))
  | some (upper, r2) => some (.slice (st, R σ r2) lower upper none, r2)

theorem sliceRest_unfold (σ : SpanTab) (f st : Nat) (lower : Option RExpr) (r : List Tok) :
    parseRSliceRest σ (f + 1) st lower (.op .colon :: r) = sliceTail σ f st lower (sliceUp σ f r) := by
  rw [parseRSliceRest.eq_def]
  rfl

open Lean Elab Tactic Meta in
/-- `split` at the first hypothesis `(match … with …) = v` of the context (the value of a `let` of the function, once
    `simp (zetaDelta := true)` has put it into the case hypothesis that mentions it) -/
elab "split_match_hyp" : tactic => do
  let g ← getMainGoal
  g.withContext do
    for ldecl in ← getLCtx do
      if ldecl.isImplementationDetail then continue
      let ty ← instantiateMVars ldecl.type
      if ty.isAppOfArity ``Eq 3 then
        let lhs := ty.getArg! 1
        if (← isMatcherApp lhs) then
          if let some gs ← splitLocalDecl? g ldecl.fvarId then
            replaceMainGoal gs
            return
    throwError "no hypothesis to split"

open Lean Elab Tactic Meta in
/-- destruct the first hypothesis that is a conjunction -/
elab "and_hyp" : tactic => do
  let g ← getMainGoal
  g.withContext do
    for ldecl in ← getLCtx do
      if ldecl.isImplementationDetail then continue
      let ty ← instantiateMVars ldecl.type
      if ty.isAppOfArity ``And 2 then
        let r ← g.cases ldecl.fvarId
        replaceMainGoal (r.toList.map (·.mvarId))
        return
    throwError "no conjunction"

/-- split a nest of conjunctions into its parts -/
syntax "hsplit " ident : tactic
macro_rules
  | `(tactic| hsplit $h) =>
    `(tactic| (have hc : _ ∧ _ := $h; clear $h; obtain ⟨h1, h2⟩ := hc; (try hsplit h1); (try hsplit h2)))

macro "hfin" : tactic => `(tactic| (
  first
  | (simp_all [shE, L, R, P]; done)
  | (simp_all [shE, L, R, P]; grind [TabRel, shRg])
  | grind [shE, shL, shO, shCs, shPs, shKs, shIs, L, R, P, TabRel, shRg, shParams_empty, shParams_posonly, shParams_args,
      shParams_vararg, shParams_kwonly, shParams_kwarg, erase_shParams, eraseParams_shPs, shPs_append]
  | (simp_all [shE, shParams, L, R, P]; done)
  | (simp_all [shE, shParams, L, R, P]; grind [TabRel, shRg])))

open Lean in
/-- `hcore ih hrel fn [fields]`: the calls that were made are hypotheses `call = some v` of the context (left there by
    `fun_cases`, or by splitting the unfolded hypothesis `h`), `h` is the equation between the value the function built
    and the answer: instantiate the named induction hypotheses (fields of `ShiftAt`) at those calls (three rounds, so that
    what one call consumed is known when the next one's precondition is checked), unfold the function on the `σ'` side
    and close the case -/
macro "hcore" ih:ident hrel:ident h:ident fn:ident "[" fs:ident,* "]" : tactic => do
  let mut round : Array (TSyntax `tactic) := #[]
  for f in fs.getElems do
    let p := mkIdent (`PV.C09.ShiftAt ++ f.getId)
    round := round.push (← `(tactic| hfwd ($p:ident ($ih _ rfl) _ _ _ $hrel)))
  let eqd := mkIdent (fn.getId ++ `eq_def)
  `(tactic| (
    all_goals try simp (config := { zetaDelta := true }) only [] at *
    all_goals try (repeat' split_match_hyp)
    all_goals try (repeat' (split at $h:ident))
    all_goals try simp only [Option.some.injEq, Prod.mk.injEq, List.cons.injEq, Tok.op.injEq, Tok.kw.injEq, reduceCtorEq,
      false_and, and_false, true_and, and_true, ↓reduceIte] at *
    all_goals try (repeat' and_hyp)
    all_goals try subst_vars
    all_goals try simp only [Option.some.injEq, Prod.mk.injEq, List.cons.injEq, Tok.op.injEq, Tok.kw.injEq, reduceCtorEq,
      false_and, and_false, true_and, and_true, ↓reduceIte] at *
    all_goals try (repeat' and_hyp)
    all_goals try subst_vars
    all_goals try simp only [List.length_cons] at *
    all_goals (
      hfwd @PV.C09.binOpAt_len; hfwd @PV.C09.unaryOpAt_len; hfwd @PV.C09.cmpOpAt_len
      $[$round]*
      try simp only [List.length_cons] at *
      $[$round]*
      try simp only [List.length_cons] at *
      $[$round]*
      try simp only [List.length_cons] at *)
    all_goals try (repeat' and_hyp)
    all_goals (try subst_vars)
    all_goals try simp only [List.length_cons] at *
    all_goals (
      refine ⟨by omega, ?_⟩
      first
      | (rw [$eqd:ident]; done)
      | (rw [$eqd:ident]; (repeat' split) <;> hfin))))


/-! ## f-string pieces, the span table of a replacement field -/

theorem rexprToPiece_shift (k : Nat) (e : RExpr) : rexprToPiece (shE k e) = shPiece k (rexprToPiece e) := by
  cases e <;> simp [rexprToPiece, shE, shPiece]
  rename_i rg c
  cases c <;> simp [rexprToPiece, shPiece, shE]

theorem pieces_shift (k : Nat) (vs : List RExpr) :
    (shL k vs).map rexprToPiece = (vs.map rexprToPiece).map (shPiece k) := by
  induction vs with
  | nil => simp
  | cons v vs ih => simp [rexprToPiece_shift, ih]

theorem dedup_shift (k : Nat) (rg : Rg) (u : Bool) : ∀ (ps : List (List Nat ⊕ RExpr)) (cur : Option (List Nat)),
    dedupRPieces (shRg k rg) u (ps.map (shPiece k)) cur = shL k (dedupRPieces rg u ps cur)
  | [], none => by simp [dedupRPieces]
  | [], some c => by simp [dedupRPieces, shE]
  | .inl s :: r, none => by
    simp only [dedupRPieces, List.map_cons, shPiece]
    split <;> exact dedup_shift k rg u r _
  | .inl s :: r, some c => by
    simp only [dedupRPieces, List.map_cons, shPiece]; exact dedup_shift k rg u r _
  | .inr e :: r, none => by
    simp only [dedupRPieces, List.map_cons, shPiece, shL_cons, dedup_shift k rg u r none]
  | .inr e :: r, some c => by
    simp only [dedupRPieces, List.map_cons, shPiece, shL_cons, dedup_shift k rg u r none, shE]

/-! ### the span table of a replacement field -/

theorem ulen_posIn (base k : Nat) (text : List Nat) (a : Nat) : posIn (base + k) text a = posIn base text a + k := by
  unfold posIn; omega

theorem lexSpans_shift (base k : Nat) (text : List Nat) :
    lexSpans (base + k) text = (lexSpans base text).map (shRg k) := by
  unfold lexSpans
  cases lexSpansGo (text.length + 1) 0 text with
  | none => rfl
  | some l => simp [ulen_posIn, shRg, Function.comp_def]

theorem tabOf_get (spans : List Rg) (i : Nat) (h1 : 1 ≤ i) (h2 : i ≤ spans.length) :
    tabOf spans i = spans[spans.length - i]'(by omega) := by
  unfold tabOf
  have : ¬(i = 0 ∨ i > spans.length) := by omega
  simp only [this, if_false, List.getD_eq_getElem?_getD]
  rw [List.getElem?_eq_getElem (by omega)]
  rfl

/-- tables of span lists: shifting the list shifts the table on its range -/
theorem tabRel_tabOf (k : Nat) (spans : List Rg) : TabRel k spans.length (tabOf spans) (tabOf (spans.map (shRg k))) := by
  intro i h1 h2
  rw [tabOf_get _ i h1 (by simpa using h2), tabOf_get _ i h1 h2]
  simp

/-- `lexSpansGo` runs the same loop as `PV.C11.lexGo`: one span per token -/
theorem map_cons_len {α β} (a : α) (b : β) (x : Option (List α)) (y : Option (List β))
    (h : x.map List.length = y.map List.length) :
    (x.map (a :: ·)).map List.length = (y.map (b :: ·)).map List.length := by
  cases x <;> cases y <;> simp_all

theorem nl_len {α β} (x : Option (List α)) (y : Option (List β)) (h : x.map List.length = y.map List.length) :
    (match x with | some [] => some ([] : List α) | _ => none).map List.length =
      (match y with | some [] => some ([] : List β) | _ => none).map List.length := by
  cases x with
  | none => cases y <;> simp_all
  | some l =>
    cases y with
    | none => simp_all
    | some l' => cases l <;> cases l' <;> simp_all

theorem lexSpansGo_length : ∀ (fuel nest : Nat) (cs : List Nat),
    (lexSpansGo fuel nest cs).map List.length = (lexGo fuel nest cs).map List.length := by
  intro fuel
  induction fuel with
  | zero => intro nest cs; simp [lexSpansGo, lexGo]
  | succ f ih =>
    intro nest cs
    cases cs with
    | nil => simp [lexSpansGo, lexGo]
    | cons c rest =>
      rcases rest with _ | ⟨d, r⟩
      all_goals (
        simp only [lexSpansGo, lexGo]
        by_cases h1 : c = 32 ∨ c = 9 ∨ c = 12
        · simp only [if_pos h1]; exact ih _ _
        · simp only [if_neg h1]
          by_cases h2 : c = 10 ∨ c = 13
          · simp only [if_pos h2]
            by_cases h3 : nest > 0
            · simp only [if_pos h3]; exact ih _ _
            · simp only [if_neg h3]
              first
              | (have h := ih nest []; revert h; generalize lexSpansGo f nest [] = x; generalize lexGo f nest [] = y
                 (intro h
                  cases x with
                  | none => cases y <;> simp_all
                  | some l =>
                    cases y with
                    | none => simp_all
                    | some l' => cases l <;> cases l' <;> simp_all))
              | (have h := ih nest (d :: r); revert h; generalize lexSpansGo f nest (d :: r) = x
                 generalize lexGo f nest (d :: r) = y
                 (intro h
                  cases x with
                  | none => cases y <;> simp_all
                  | some l =>
                    cases y with
                    | none => simp_all
                    | some l' => cases l <;> cases l' <;> simp_all))
          · simp only [if_neg h2]
            by_cases h3 : c = 35
            · simp only [if_pos h3]; exact ih _ _
            · simp only [if_neg h3]
              by_cases h4 : c = 92
              · simp only [if_pos h4]
                first
                | rfl
                | (by_cases hd : d = 10
                   · subst hd; exact ih _ _
                   · split
                     · rename_i heq; simp only [List.cons.injEq] at heq; exact absurd heq.1 hd
                     · split
                       · rename_i heq; simp only [List.cons.injEq] at heq; exact absurd heq.1 hd
                       · rfl)
              · simp only [if_neg h4]
                by_cases h5 : isIdStart c = true
                · simp only [if_pos h5]
                  cases hl : lexString (c :: _) with
                  | some p => obtain ⟨tk, r⟩ := p; simp only []; exact map_cons_len _ _ _ _ (ih _ _)
                  | none =>
                    simp only []
                    split
                    · rfl
                    · exact map_cons_len _ _ _ _ (ih _ _)
                · simp only [if_neg h5]
                  split
                  · cases hl : lexNumber (c :: _) with
                    | some p => obtain ⟨tk, r⟩ := p; simp only []; exact map_cons_len _ _ _ _ (ih _ _)
                    | none => rfl
                  · by_cases h7 : c = 34 ∨ c = 39
                    · simp only [if_pos h7]
                      cases hl : lexString (c :: _) with
                      | some p => obtain ⟨tk, r⟩ := p; simp only []; exact map_cons_len _ _ _ _ (ih _ _)
                      | none => rfl
                    · simp only [if_neg h7]
                      cases hl : lexOp (c :: _) with
                      | some p =>
                        obtain ⟨o, r⟩ := p
                        simp only []
                        split
                        · rfl
                        · exact map_cons_len _ _ _ _ (ih _ _)
                      | none =>
                        simp only []
                        split
                        · exact map_cons_len _ _ _ _ (ih _ _)
                        · rfl)


end PV.C09
