import PV.C09.RShiftBase
/-
  PV.C09.RShift — **the ranged expression parser commutes with a shift of the span table** (`parseR_shift`): C09's "a
  start offset only translates positions" on the MODEL of range computation `PV.C02.parseR` (lean/PV/C02/RParse.lean).

  If the spans of the input's tokens are all moved by `k` (`TabRel k N σ σ'`: the first `N` entries of the span table,
  `N` ≥ the number of tokens), every one of the 48 functions of the ranged parser returns the same answer with every
  range moved by `k` (`shE k`, `PV/C09/RShiftBase.lean`) and the same unconsumed rest — including the f-string
  sub-parser, whose replacement fields are parsed with their own span table `fieldTab` at a location computed from the
  literal's start (`field_top`: that table moves with the location; `lexSpansGo_length`: it has one entry per token).

  One lemma per function (`hstep_*`: case analysis of the function on `σ` by `fun_cases`, the induction hypotheses
  instantiated at the calls that were made by `fwd`, the function unfolded on `σ'`: tactic `hcore`), assembled by
  induction on the fuel (`shiftAt`).  Every lemma also states how many tokens the function consumed at least: that is
  what keeps the table look-ups inside `1..N`, where the two tables are related (outside, `PV.C02.tabOf` answers
  `(0, 0)` for both).  That a rejection is a rejection for both tables is `PV.C02.eraseAt` (acceptance and rest do not
  depend on the span table at all).
-/
set_option linter.unusedSimpArgs false
set_option linter.unusedVariables false
namespace PV.C09
open PV.Expr PV.C11 PV.C02

macro "bylvl" lvl:ident : tactic => `(tactic| (
  by_cases hl : $lvl ≥ 5 <;> (first | simp only [if_pos hl] at * | simp only [if_neg hl] at * | skip)))

theorem hstep_test {k n} (ih : BelowH k n) : ∀ N σ σ', TabRel k N σ σ' → ∀ ts e rest, ts.length ≤ N → parseRTest σ n ts = some (e, rest) →
    rest.length < ts.length ∧ parseRTest σ' n ts = some (shE k e, rest) := by
  intro N σ σ' hrel ts e rest hN
  fun_cases parseRTest σ n ts
  all_goals intro h
  hcore ih hrel h parseRTest [lambda, orTest, test]

theorem hstep_namedTest {k n} (ih : BelowH k n) : ∀ N σ σ', TabRel k N σ σ' → ∀ ts e rest, ts.length ≤ N → parseRNamedTest σ n ts = some (e, rest) →
    rest.length < ts.length ∧ parseRNamedTest σ' n ts = some (shE k e, rest) := by
  intro N σ σ' hrel ts e rest hN
  fun_cases parseRNamedTest σ n ts
  all_goals intro h
  hcore ih hrel h parseRNamedTest [test]

theorem hstep_starOrNamed {k n} (ih : BelowH k n) : ∀ N σ σ', TabRel k N σ σ' → ∀ ts e rest, ts.length ≤ N → parseRStarOrNamed σ n ts = some (e, rest) →
    rest.length < ts.length ∧ parseRStarOrNamed σ' n ts = some (shE k e, rest) := by
  intro N σ σ' hrel ts e rest hN
  fun_cases parseRStarOrNamed σ n ts
  all_goals intro h
  hcore ih hrel h parseRStarOrNamed [bin, namedTest]

theorem hstep_testOrStar {k n} (ih : BelowH k n) : ∀ N σ σ', TabRel k N σ σ' → ∀ ts e rest, ts.length ≤ N → parseRTestOrStar σ n ts = some (e, rest) →
    rest.length < ts.length ∧ parseRTestOrStar σ' n ts = some (shE k e, rest) := by
  intro N σ σ' hrel ts e rest hN
  fun_cases parseRTestOrStar σ n ts
  all_goals intro h
  hcore ih hrel h parseRTestOrStar [bin, test]

theorem hstep_orTest {k n} (ih : BelowH k n) : ∀ N σ σ', TabRel k N σ σ' → ∀ ts e rest, ts.length ≤ N → parseROrTest σ n ts = some (e, rest) →
    rest.length < ts.length ∧ parseROrTest σ' n ts = some (shE k e, rest) := by
  intro N σ σ' hrel ts e rest hN
  fun_cases parseROrTest σ n ts
  all_goals intro h
  hcore ih hrel h parseROrTest [andTest, orRest]

theorem hstep_orRest {k n} (ih : BelowH k n) : ∀ N σ σ', TabRel k N σ σ' → ∀ ts es rest, ts.length ≤ N → parseROrRest σ n ts = some (es, rest) →
    rest.length < ts.length ∧ parseROrRest σ' n ts = some (shL k es, rest) := by
  intro N σ σ' hrel ts es rest hN
  fun_cases parseROrRest σ n ts
  all_goals intro h
  hcore ih hrel h parseROrRest [andTest, orRest]

theorem hstep_andTest {k n} (ih : BelowH k n) : ∀ N σ σ', TabRel k N σ σ' → ∀ ts e rest, ts.length ≤ N → parseRAndTest σ n ts = some (e, rest) →
    rest.length < ts.length ∧ parseRAndTest σ' n ts = some (shE k e, rest) := by
  intro N σ σ' hrel ts e rest hN
  fun_cases parseRAndTest σ n ts
  all_goals intro h
  hcore ih hrel h parseRAndTest [notTest, andRest]

theorem hstep_andRest {k n} (ih : BelowH k n) : ∀ N σ σ', TabRel k N σ σ' → ∀ ts es rest, ts.length ≤ N → parseRAndRest σ n ts = some (es, rest) →
    rest.length < ts.length ∧ parseRAndRest σ' n ts = some (shL k es, rest) := by
  intro N σ σ' hrel ts es rest hN
  fun_cases parseRAndRest σ n ts
  all_goals intro h
  hcore ih hrel h parseRAndRest [notTest, andRest]

theorem hstep_notTest {k n} (ih : BelowH k n) : ∀ N σ σ', TabRel k N σ σ' → ∀ ts e rest, ts.length ≤ N → parseRNotTest σ n ts = some (e, rest) →
    rest.length < ts.length ∧ parseRNotTest σ' n ts = some (shE k e, rest) := by
  intro N σ σ' hrel ts e rest hN
  fun_cases parseRNotTest σ n ts
  all_goals intro h
  hcore ih hrel h parseRNotTest [notTest, cmp]

theorem hstep_cmp {k n} (ih : BelowH k n) : ∀ N σ σ', TabRel k N σ σ' → ∀ ts e rest, ts.length ≤ N → parseRCmp σ n ts = some (e, rest) →
    rest.length < ts.length ∧ parseRCmp σ' n ts = some (shE k e, rest) := by
  intro N σ σ' hrel ts e rest hN
  fun_cases parseRCmp σ n ts
  all_goals intro h
  hcore ih hrel h parseRCmp [bin, cmpRest]

theorem hstep_cmpRest {k n} (ih : BelowH k n) : ∀ N σ σ', TabRel k N σ σ' → ∀ ts ops cs rest, ts.length ≤ N → parseRCmpRest σ n ts = some ((ops, cs), rest) →
    rest.length ≤ ts.length ∧ parseRCmpRest σ' n ts = some ((ops, shL k cs), rest) := by
  intro N σ σ' hrel ts ops cs rest hN
  fun_cases parseRCmpRest σ n ts
  all_goals intro h
  hcore ih hrel h parseRCmpRest [bin, cmpRest]

theorem hstep_bin {k n} (ih : BelowH k n) : ∀ N σ σ', TabRel k N σ σ' → ∀ lvl ts e rest, ts.length ≤ N → parseRBin σ lvl n ts = some (e, rest) →
    rest.length < ts.length ∧ parseRBin σ' lvl n ts = some (shE k e, rest) := by
  intro N σ σ' hrel lvl ts e rest hN
  fun_cases parseRBin σ lvl n ts
  all_goals bylvl lvl
  all_goals intro h
  hcore ih hrel h parseRBin [bin, factor, binLoop]

theorem hstep_binLoop {k n} (ih : BelowH k n) : ∀ N σ σ', TabRel k N σ σ' → ∀ lvl st acc ts e rest, ts.length ≤ N → parseRBinLoop σ lvl n st acc ts = some (e, rest) →
    rest.length ≤ ts.length ∧ parseRBinLoop σ' lvl n (st + k) (shE k acc) ts = some (shE k e, rest) := by
  intro N σ σ' hrel lvl st acc ts e rest hN
  fun_cases parseRBinLoop σ lvl n st acc ts
  all_goals bylvl lvl
  all_goals intro h
  hcore ih hrel h parseRBinLoop [bin, factor, binLoop]

theorem hstep_factor {k n} (ih : BelowH k n) : ∀ N σ σ', TabRel k N σ σ' → ∀ ts e rest, ts.length ≤ N → parseRFactor σ n ts = some (e, rest) →
    rest.length < ts.length ∧ parseRFactor σ' n ts = some (shE k e, rest) := by
  intro N σ σ' hrel ts e rest hN
  fun_cases parseRFactor σ n ts
  all_goals intro h
  hcore ih hrel h parseRFactor [factor, power]

theorem hstep_power {k n} (ih : BelowH k n) : ∀ N σ σ', TabRel k N σ σ' → ∀ ts e rest, ts.length ≤ N → parseRPower σ n ts = some (e, rest) →
    rest.length < ts.length ∧ parseRPower σ' n ts = some (shE k e, rest) := by
  intro N σ σ' hrel ts e rest hN
  fun_cases parseRPower σ n ts
  all_goals intro h
  hcore ih hrel h parseRPower [factor, atomExpr]

theorem hstep_atomExpr {k n} (ih : BelowH k n) : ∀ N σ σ', TabRel k N σ σ' → ∀ ts e rest, ts.length ≤ N → parseRAtomExpr σ n ts = some (e, rest) →
    rest.length < ts.length ∧ parseRAtomExpr σ' n ts = some (shE k e, rest) := by
  intro N σ σ' hrel ts e rest hN
  fun_cases parseRAtomExpr σ n ts
  all_goals intro h
  hcore ih hrel h parseRAtomExpr [atomExpr2]

theorem hstep_atomExpr2 {k n} (ih : BelowH k n) : ∀ N σ σ', TabRel k N σ σ' → ∀ ts e rest, ts.length ≤ N → parseRAtomExpr2 σ n ts = some (e, rest) →
    rest.length < ts.length ∧ parseRAtomExpr2 σ' n ts = some (shE k e, rest) := by
  intro N σ σ' hrel ts e rest hN
  fun_cases parseRAtomExpr2 σ n ts
  all_goals intro h
  hcore ih hrel h parseRAtomExpr2 [atom, trailers]

theorem hstep_trailers {k n} (ih : BelowH k n) : ∀ N σ σ', TabRel k N σ σ' → ∀ st acc ts e rest, ts.length ≤ N → parseRTrailers σ n st acc ts = some (e, rest) →
    rest.length ≤ ts.length ∧ parseRTrailers σ' n (st + k) (shE k acc) ts = some (shE k e, rest) := by
  intro N σ σ' hrel st acc ts e rest hN
  fun_cases parseRTrailers σ n st acc ts
  all_goals intro h
  hcore ih hrel h parseRTrailers [args, subscriptList, trailers]

theorem hstep_args {k n} (ih : BelowH k n) : ∀ N σ σ', TabRel k N σ σ' → ∀ ts as ks d as' ks' rest, ts.length ≤ N → parseRArgs σ n ts as ks d = some ((as', ks'), rest) →
    rest.length < ts.length ∧ parseRArgs σ' n ts (shL k as) (shKs k ks) d = some ((shL k as', shKs k ks'), rest) := by
  intro N σ σ' hrel ts as ks d as' ks' rest hN
  fun_cases parseRArgs σ n ts as ks d
  all_goals intro h
  hcore ih hrel h parseRArgs [arg, args]

theorem hstep_arg {k n} (ih : BelowH k n) : ∀ N σ σ', TabRel k N σ σ' → ∀ ts as ks d as' ks' d' rest, ts.length ≤ N → parseRArg σ n ts as ks d = some (as', ks', d', rest) →
    rest.length < ts.length ∧ parseRArg σ' n ts (shL k as) (shKs k ks) d = some (shL k as', shKs k ks', d', rest) := by
  intro N σ σ' hrel ts as ks d as' ks' d' rest hN
  fun_cases parseRArg σ n ts as ks d
  all_goals intro h
  hcore ih hrel h parseRArg [test, namedTest, compFor]

theorem hstep_subscriptList {k n} (ih : BelowH k n) : ∀ N σ σ', TabRel k N σ σ' → ∀ ts e rest, ts.length ≤ N → parseRSubscriptList σ n ts = some (e, rest) →
    rest.length + 2 ≤ ts.length ∧ parseRSubscriptList σ' n ts = some (shE k e, rest) := by
  intro N σ σ' hrel ts e rest hN
  fun_cases parseRSubscriptList σ n ts
  all_goals intro h
  hcore ih hrel h parseRSubscriptList [subscript, subscripts]

theorem hstep_subscripts {k n} (ih : BelowH k n) : ∀ N σ σ', TabRel k N σ σ' → ∀ ts es rest, ts.length ≤ N → parseRSubscripts σ n ts = some (es, rest) →
    rest.length + 2 ≤ ts.length ∧ parseRSubscripts σ' n ts = some (shL k es, rest) := by
  intro N σ σ' hrel ts es rest hN
  fun_cases parseRSubscripts σ n ts
  all_goals intro h
  hcore ih hrel h parseRSubscripts [subscript, subscripts]

theorem hstep_subscript {k n} (ih : BelowH k n) : ∀ N σ σ', TabRel k N σ σ' → ∀ ts e rest, ts.length ≤ N → parseRSubscript σ n ts = some (e, rest) →
    rest.length < ts.length ∧ parseRSubscript σ' n ts = some (shE k e, rest) := by
  intro N σ σ' hrel ts e rest hN
  fun_cases parseRSubscript σ n ts
  all_goals intro h
  hcore ih hrel h parseRSubscript [test, starOrNamed, namedTest, sliceRest]

theorem hstep_sliceRest {k n} (ih : BelowH k n) : ∀ N σ σ', TabRel k N σ σ' → ∀ st lower ts e rest, ts.length ≤ N → parseRSliceRest σ n st lower ts = some (e, rest) →
    rest.length < ts.length ∧ parseRSliceRest σ' n (st + k) (shO k lower) ts = some (shE k e, rest) := by
  intro N σ σ' hrel st lower ts e rest hN
  fun_cases parseRSliceRest σ n st lower ts
  all_goals intro h
  hcore ih hrel h parseRSliceRest [test]

theorem hstep_atom {k n} (ih : BelowH k n) : ∀ N σ σ', TabRel k N σ σ' → ∀ ts e rest, ts.length ≤ N → parseRAtom σ n ts = some (e, rest) →
    rest.length < ts.length ∧ parseRAtom σ' n ts = some (shE k e, rest) := by
  intro N σ σ' hrel ts e rest hN
  fun_cases parseRAtom σ n ts
  all_goals intro h
  all_goals try (
    simp only [Option.some.injEq, Prod.mk.injEq] at h
    obtain ⟨h1, h2⟩ := h
    subst h1; subst h2
    simp only [List.length_cons] at hN
    exact ⟨by simp, by simp [parseRAtom, shE, hrel _ (Nat.le_add_left 1 _) hN]⟩)
  hcore ih hrel h parseRAtom [strings, listAtom, parenAtom, braceAtom]

theorem hstep_listAtom {k n} (ih : BelowH k n) : ∀ N σ σ', TabRel k N σ σ' → ∀ ts e rest, ts.length + 1 ≤ N → parseRListAtom σ n ts = some (e, rest) →
    rest.length < ts.length ∧ parseRListAtom σ' n ts = some (shE k e, rest) := by
  intro N σ σ' hrel ts e rest hN
  fun_cases parseRListAtom σ n ts
  all_goals intro h
  hcore ih hrel h parseRListAtom [starOrNamed, compFor, elems]

theorem hstep_parenAtom {k n} (ih : BelowH k n) : ∀ N σ σ', TabRel k N σ σ' → ∀ ts e rest, ts.length + 1 ≤ N → parseRParenAtom σ n ts = some (e, rest) →
    rest.length < ts.length ∧ parseRParenAtom σ' n ts = some (shE k e, rest) := by
  intro N σ σ' hrel ts e rest hN
  fun_cases parseRParenAtom σ n ts
  all_goals intro h
  hcore ih hrel h parseRParenAtom [starOrNamed, compFor, elems, yieldAtom]

theorem hstep_yieldAtom {k n} (ih : BelowH k n) : ∀ N σ σ', TabRel k N σ σ' → ∀ ts e rest, ts.length + 1 ≤ N → parseRYieldAtom σ n ts = some (e, rest) →
    rest.length < ts.length ∧ parseRYieldAtom σ' n ts = some (shE k e, rest) := by
  intro N σ σ' hrel ts e rest hN
  fun_cases parseRYieldAtom σ n ts
  all_goals intro h
  hcore ih hrel h parseRYieldAtom [test, testList]

theorem hstep_braceAtom {k n} (ih : BelowH k n) : ∀ N σ σ', TabRel k N σ σ' → ∀ ts e rest, ts.length + 1 ≤ N → parseRBraceAtom σ n ts = some (e, rest) →
    rest.length < ts.length ∧ parseRBraceAtom σ' n ts = some (shE k e, rest) := by
  intro N σ σ' hrel ts e rest hN
  fun_cases parseRBraceAtom σ n ts
  all_goals intro h
  hcore ih hrel h parseRBraceAtom [bin, dictRest, braceFirst, test, compFor, elems]

theorem hstep_braceFirst {k n} (ih : BelowH k n) : ∀ N σ σ', TabRel k N σ σ' → ∀ ts e b rest, ts.length ≤ N → parseRBraceFirst σ n ts = some (e, b, rest) →
    rest.length < ts.length ∧ parseRBraceFirst σ' n ts = some (shE k e, b, rest) := by
  intro N σ σ' hrel ts e b rest hN
  fun_cases parseRBraceFirst σ n ts
  all_goals intro h
  hcore ih hrel h parseRBraceFirst [starOrNamed, namedTest, test]

theorem hstep_elems {k n} (ih : BelowH k n) : ∀ N σ σ', TabRel k N σ σ' → ∀ close ts es tc rest, ts.length ≤ N → parseRElems σ n close ts = some ((es, tc), rest) →
    rest.length < ts.length ∧ parseRElems σ' n close ts = some ((shL k es, tc), rest) := by
  intro N σ σ' hrel close ts es tc rest hN
  fun_cases parseRElems σ n close ts
  all_goals intro h
  hcore ih hrel h parseRElems [starOrNamed, elems]

theorem hstep_dictRest {k n} (ih : BelowH k n) : ∀ N σ σ', TabRel k N σ σ' → ∀ ts is rest, ts.length ≤ N → parseRDictRest σ n ts = some (is, rest) →
    rest.length < ts.length ∧ parseRDictRest σ' n ts = some (shIs k is, rest) := by
  intro N σ σ' hrel ts is rest hN
  fun_cases parseRDictRest σ n ts
  all_goals intro h
  hcore ih hrel h parseRDictRest [bin, dictRest, test]

theorem hstep_compFor {k n} (ih : BelowH k n) : ∀ N σ σ', TabRel k N σ σ' → ∀ ts gs rest, ts.length ≤ N → parseRCompFor σ n ts = some (gs, rest) →
    rest.length < ts.length ∧ parseRCompFor σ' n ts = some (shCs k gs, rest) := by
  intro N σ σ' hrel ts gs rest hN
  fun_cases parseRCompFor σ n ts
  all_goals intro h
  hcore ih hrel h parseRCompFor [targetList, orTest, compIfs, compFor]

theorem hstep_compIfs {k n} (ih : BelowH k n) : ∀ N σ σ', TabRel k N σ σ' → ∀ ts cs rest, ts.length ≤ N → parseRCompIfs σ n ts = some (cs, rest) →
    rest.length ≤ ts.length ∧ parseRCompIfs σ' n ts = some (shL k cs, rest) := by
  intro N σ σ' hrel ts cs rest hN
  fun_cases parseRCompIfs σ n ts
  all_goals intro h
  hcore ih hrel h parseRCompIfs [orTest, compIfs]

theorem hstep_exprOrStar {k n} (ih : BelowH k n) : ∀ N σ σ', TabRel k N σ σ' → ∀ ts e rest, ts.length ≤ N → parseRExprOrStar σ n ts = some (e, rest) →
    rest.length < ts.length ∧ parseRExprOrStar σ' n ts = some (shE k e, rest) := by
  intro N σ σ' hrel ts e rest hN
  fun_cases parseRExprOrStar σ n ts
  all_goals intro h
  hcore ih hrel h parseRExprOrStar [bin]

theorem hstep_targetList {k n} (ih : BelowH k n) : ∀ N σ σ', TabRel k N σ σ' → ∀ ts e rest, ts.length ≤ N → parseRTargetList σ n ts = some (e, rest) →
    rest.length < ts.length ∧ parseRTargetList σ' n ts = some (shE k e, rest) := by
  intro N σ σ' hrel ts e rest hN
  fun_cases parseRTargetList σ n ts
  all_goals intro h
  hcore ih hrel h parseRTargetList [exprOrStar, targetRest]

theorem hstep_targetRest {k n} (ih : BelowH k n) : ∀ N σ σ', TabRel k N σ σ' → ∀ ts es rest, ts.length ≤ N → parseRTargetRest σ n ts = some (es, rest) →
    rest.length ≤ ts.length ∧ parseRTargetRest σ' n ts = some (shL k es, rest) := by
  intro N σ σ' hrel ts es rest hN
  fun_cases parseRTargetRest σ n ts
  all_goals intro h
  hcore ih hrel h parseRTargetRest [exprOrStar, targetRest]

theorem hstep_testList {k n} (ih : BelowH k n) : ∀ N σ σ', TabRel k N σ σ' → ∀ ts e rest, ts.length ≤ N → parseRTestList σ n ts = some (e, rest) →
    rest.length < ts.length ∧ parseRTestList σ' n ts = some (shE k e, rest) := by
  intro N σ σ' hrel ts e rest hN
  fun_cases parseRTestList σ n ts
  all_goals intro h
  hcore ih hrel h parseRTestList [testOrStar, testListRest]

theorem hstep_testListRest {k n} (ih : BelowH k n) : ∀ N σ σ', TabRel k N σ σ' → ∀ ts es rest, ts.length ≤ N → parseRTestListRest σ n ts = some (es, rest) →
    rest.length ≤ ts.length ∧ parseRTestListRest σ' n ts = some (shL k es, rest) := by
  intro N σ σ' hrel ts es rest hN
  fun_cases parseRTestListRest σ n ts
  all_goals intro h
  hcore ih hrel h parseRTestListRest [testOrStar, testListRest]

theorem hstep_top {k n} (ih : BelowH k n) : ∀ N σ σ', TabRel k N σ σ' → ∀ ts e, ts.length ≤ N → parseRTop σ n ts = some e →
    parseRTop σ' n ts = some (shE k e) := by
  intro N σ σ' hrel ts e hN h
  cases n with
  | zero => simp [parseRTop] at h
  | succ f =>
    rw [parseRTop.eq_def] at h ⊢
    simp only [] at h ⊢
    split at h
    · rename_i e' ht
      simp only [Option.some.injEq] at h
      subst h
      rw [((ih _ rfl).testList N σ σ' hrel ts _ _ hN ht).2]
    · cases h

theorem hstep_lambda {k n} (ih : BelowH k n) : ∀ N σ σ', TabRel k N σ σ' → ∀ ts e rest, ts.length + 1 ≤ N → parseRLambda σ n ts = some (e, rest) →
    rest.length < ts.length ∧ parseRLambda σ' n ts = some (shE k e, rest) := by
  intro N σ σ' hrel ts e rest hN
  fun_cases parseRLambda σ n ts
  all_goals intro h
  hcore ih hrel h parseRLambda [params, test]

theorem itemR_shift {k N : Nat} {σ σ' : SpanTab} (hrel : TabRel k N σ σ') {f : Nat} (ih : BelowH k (f + 1))
    (ts : List Tok) (ps : RParams) (ph : Nat) (ps' : RParams) (ph' : Nat) (r : List Tok) (hN : ts.length ≤ N) :
    itemR σ f ts ps ph = some (ps', ph', r) →
    r.length < ts.length ∧ itemR σ' f ts (shParams k ps) ph = some (shParams k ps', ph', r) := by
  fun_cases itemR σ f ts ps ph
  all_goals intro h
  hcore ih hrel h itemR [test]

theorem bareStar_shift (k : Nat) (q : RParams) (ph : Nat) : bareStarOkR (shParams k q) ph = bareStarOkR q ph := by
  simp [bareStarOkR]

theorem hstep_params {k n} (ih : BelowH k n) : ∀ N σ σ', TabRel k N σ σ' → ∀ ts ps ph ps' rest, ts.length ≤ N → parseRParams σ n ts ps ph = some (ps', rest) →
    rest.length ≤ ts.length ∧ parseRParams σ' n ts (shParams k ps) ph = some (shParams k ps', rest) := by
  intro N σ σ' hrel ts ps ph ps' rest hN h
  cases n with
  | zero => simp [parseRParams] at h
  | succ f =>
    by_cases hc : ∃ r, ts = .op .colon :: r
    · obtain ⟨r, rfl⟩ := hc
      simp only [parseRParams, Option.some.injEq, Prod.mk.injEq] at h ⊢
      obtain ⟨rfl, rfl⟩ := h
      exact ⟨Nat.le_refl _, rfl, rfl⟩
    · have hc' : ∀ r, ts = .op .colon :: r → False := fun r h => hc ⟨r, h⟩
      rw [paramsR_unfold σ f ts ps ph hc'] at h
      rw [paramsR_unfold σ' f ts _ ph hc']
      cases hi : itemR σ f ts ps ph with
      | none => simp [hi, tailR] at h
      | some p =>
        obtain ⟨ps1, ph1, r⟩ := p
        obtain ⟨hl, hi'⟩ := itemR_shift hrel ih ts ps ph ps1 ph1 r hN hi
        rw [hi] at h
        rw [hi']
        simp only [tailR, bareStar_shift] at h ⊢
        split at h
        · split at h
          · simp only [Option.some.injEq, Prod.mk.injEq] at h; obtain ⟨rfl, rfl⟩ := h
            simp only [List.length_cons] at hl ⊢
            simp_all
            omega
          · cases h
        · rename_i r2 hne
          simp only [List.length_cons] at hl
          obtain ⟨g1, g2⟩ := (ih _ rfl).params N σ σ' hrel _ _ _ _ _ (by omega) h
          exact ⟨by omega, g2⟩
        · split at h
          · simp only [Option.some.injEq, Prod.mk.injEq] at h; obtain ⟨rfl, rfl⟩ := h
            simp_all
            omega
          · cases h
        · cases h

theorem hstep_fbody {k n} (ih : BelowH k n) : ∀ lit base whole raw nested cs content vs r, 1 ≤ base →
    fstrRBody n lit base whole raw nested cs content = some (vs, r) →
    fstrRBody n (shRg k lit) (base + k) whole raw nested cs content = some (shL k vs, r) := by
  intro lit base whole raw nested cs content vs r hb
  fun_cases fstrRBody n lit base whole raw nested cs content
  all_goals intro h
  all_goals try simp only [*] at h
  all_goals try simp only [Option.some.injEq, Prod.mk.injEq, reduceCtorEq] at h
  all_goals (
    hfwd (ShiftAt.fbody (ih _ rfl))
    hfwd (ShiftAt.ffield (ih _ rfl)))
  all_goals try (repeat' and_hyp)
  all_goals try subst_vars
  all_goals (
    first
    | (rw [fstrRBody.eq_def]; done)
    | (rw [fstrRBody.eq_def]; (repeat' split) <;> first | (simp_all [shE]; done) | grind [shE, shL, shL_append]))

theorem hstep_fspec {k n} (ih : BelowH k n) : ∀ lit base whole raw nested cs piece vs r, 1 ≤ base →
    fstrRSpec n lit base whole raw nested cs piece = some (vs, r) →
    fstrRSpec n (shRg k lit) (base + k) whole raw nested cs piece = some (shL k vs, r) := by
  intro lit base whole raw nested cs piece vs r hb
  fun_cases fstrRSpec n lit base whole raw nested cs piece
  all_goals intro h
  all_goals try simp only [*] at h
  all_goals try simp only [Option.some.injEq, Prod.mk.injEq, reduceCtorEq] at h
  all_goals (
    hfwd (ShiftAt.fbody (ih _ rfl))
    hfwd (ShiftAt.fspec (ih _ rfl)))
  all_goals try (repeat' and_hyp)
  all_goals try subst_vars
  all_goals (
    first
    | (rw [fstrRSpec.eq_def]; done)
    | (rw [fstrRSpec.eq_def]; (repeat' split) <;> first | (simp_all [shE]; done) | grind [shE, shL, shL_append]))

theorem lexSpans_length {w : List Nat} {tks : List Tok} (hw : w.head? ≠ some 0xFEFF) (hl : lex w = some tks) (b : Nat) :
    (lexSpans b w).length = tks.length := by
  have hl' : lexGo (w.length + 1) 0 w = some tks := by
    unfold lex at hl
    split at hl
    · simp at hw
    · exact hl
  have := lexSpansGo_length (w.length + 1) 0 w
  rw [hl'] at this
  unfold lexSpans
  cases hs : lexSpansGo (w.length + 1) 0 w with
  | none => simp [hs] at this
  | some l => simp [hs] at this ⊢; exact this

/-- the expression of a replacement field: its span table is `fieldTab`, which moves with the field's location -/
theorem field_top {k f : Nat} (ih : ShiftAt k f) (loc : Nat) (hloc : 1 ≤ loc) (text : List Nat) (tks : List Tok)
    (hl : lex (40 :: (text ++ [41])) = some tks) (e : RExpr)
    (h : parseRTop (fieldTab loc text) f tks = some e) :
    parseRTop (fieldTab (loc + k) text) f tks = some (shE k e) := by
  have e1 : fieldTab (loc + k) text = tabOf ((lexSpans (loc - 1) (40 :: (text ++ [41]))).map (shRg k)) := by
    unfold fieldTab
    rw [show loc + k - 1 = (loc - 1) + k by omega, lexSpans_shift]
  rw [e1]
  refine ih.top _ _ _ (tabRel_tabOf k _) tks e ?_ h
  rw [lexSpans_length (by simp) hl]
  exact Nat.le_refl _

theorem hstep_ffield {k n} (ih : BelowH k n) : ∀ lit base whole raw nested cs vs r, 1 ≤ base →
    fstrRField n lit base whole raw nested cs = some (vs, r) →
    fstrRField n (shRg k lit) (base + k) whole raw nested cs = some (shL k vs, r) := by
  intro lit base whole raw nested cs vs r hb h
  cases n with
  | zero => simp [fstrRField] at h
  | succ f =>
    have ih := ih _ rfl
    rw [fstrRField.eq_def] at h ⊢
    simp only [] at h ⊢
    cases hs : scanField (cs.length + 1) {} cs with
    | none => simp [hs] at h
    | some p =>
      obtain ⟨st, stop, r0⟩ := p
      simp only [hs] at h ⊢
      have hloc : 1 ≤ posIn base whole cs.length := by unfold posIn; omega
      have hpos : posIn (base + k) whole cs.length = posIn base whole cs.length + k := ulen_posIn _ _ _ _
      rw [hpos]
      -- first the format spec: afterwards both configurations are at the field's expression
      have step : (stop = .close ∧ True) ∨ (stop = .spec ∧ ∃ vs' rr, fstrRSpec f lit base whole raw nested r0 [] = some (vs', rr)) := by
        cases stop with
        | close => exact Or.inl ⟨rfl, trivial⟩
        | spec =>
          right
          refine ⟨rfl, ?_⟩
          cases hsp : fstrRSpec f lit base whole raw nested r0 [] with
          | none => simp [hsp] at h
          | some q => exact ⟨q.1, q.2, rfl⟩
      rcases step with ⟨rfl, _⟩ | ⟨rfl, vs', rr, hsp⟩
      · simp only [] at h ⊢
        cases hlx : lex (40 :: (st.expr.reverse ++ [41])) with
        | none => simp [hlx] at h
        | some tks =>
          simp only [hlx] at h ⊢
          cases hp : parseRTop (fieldTab (posIn base whole cs.length) st.expr.reverse) f tks with
          | none => simp [hp] at h
          | some value =>
            rw [field_top ih _ hloc _ _ hlx _ hp]
            simp only [hp] at h ⊢
            split at h <;> (rename_i hc; simp only [Option.some.injEq, Prod.mk.injEq] at h; obtain ⟨rfl, rfl⟩ := h; simp [shE, hc])
      · simp only [] at h ⊢
        rw [ih.fspec lit base whole raw nested r0 [] vs' rr hb hsp]
        simp only [hsp] at h ⊢
        rcases rr with _ | ⟨c, rr'⟩
        · simp at h
        · by_cases hc : c = 125
          · subst hc
            simp only [] at h ⊢
            cases hlx : lex (40 :: (st.expr.reverse ++ [41])) with
            | none => simp [hlx] at h
            | some tks =>
              simp only [hlx] at h ⊢
              cases hp : parseRTop (fieldTab (posIn base whole cs.length) st.expr.reverse) f tks with
              | none => simp [hp] at h
              | some value =>
                rw [field_top ih _ hloc _ _ hlx _ hp]
                simp only [hp] at h ⊢
                split at h <;> (rename_i hc; simp only [Option.some.injEq, Prod.mk.injEq] at h; obtain ⟨rfl, rfl⟩ := h; simp [shE, hc])
          · exfalso
            split at h
            · cases h
            · rename_i heq
              split at heq
              · rename_i heq2
                simp only [Option.some.injEq, Prod.mk.injEq, List.cons.injEq] at heq2
                exact hc heq2.2.1
              · cases heq

theorem hstep_stringPieces {k n} (ih : BelowH k n) : ∀ N σ σ', TabRel k N σ σ' → ∀ after ts pieces, ts.length + after ≤ N →
    parseRStringPieces σ n after ts = some pieces →
    parseRStringPieces σ' n after ts = some (pieces.map (shPiece k)) := by
  intro N σ σ' hrel after ts pieces hN h
  cases n with
  | zero => simp [parseRStringPieces] at h
  | succ f =>
    have ih := ih _ rfl
    rw [parseRStringPieces.eq_def] at h ⊢
    rcases ts with _ | ⟨t, r⟩
    · simp only [Option.some.injEq] at h ⊢; subst h; rfl
    · simp only [List.length_cons] at hN
      cases t <;> simp only [] at h ⊢ <;> try (simp at h; done)
      · -- str
        cases hp : parseRStringPieces σ f after r with
        | none => simp [hp] at h
        | some ps =>
          rw [ih.stringPieces N σ σ' hrel after r ps (by omega) hp]
          simp only [hp, Option.map_some, Option.some.injEq] at h ⊢
          subst h
          simp [shPiece]
      · -- fstr
        rename_i q triple raw body
        have hlit : σ' (r.length + 1 + after) = shRg k (σ (r.length + 1 + after)) := hrel _ (by omega) (by omega)
        rw [hlit]
        have hbase : (shRg k (σ (r.length + 1 + after))).1 + (if raw then 2 else 1) + (if triple then 3 else 1) =
            ((σ (r.length + 1 + after)).1 + (if raw then 2 else 1) + (if triple then 3 else 1)) + k := by
          simp only [shRg_fst]; omega
        rw [hbase]
        cases hb : fstrRBody f (σ (r.length + 1 + after))
            ((σ (r.length + 1 + after)).1 + (if raw then 2 else 1) + (if triple then 3 else 1)) body raw 0 body [] with
        | none => simp [hb] at h
        | some p =>
          obtain ⟨vs, rr⟩ := p
          rw [ih.fbody _ _ _ _ _ _ _ vs rr (by split <;> split <;> omega) hb]
          simp only [hb] at h ⊢
          cases rr with
          | cons c cs => simp at h
          | nil =>
            simp only [] at h ⊢
            cases hp : parseRStringPieces σ f after r with
            | none => simp [hp] at h
            | some ps =>
              rw [ih.stringPieces N σ σ' hrel after r ps (by omega) hp]
              simp only [hp, Option.map_some, Option.some.injEq] at h ⊢
              subst h
              simp [pieces_shift]

theorem hstep_strings {k n} (ih : BelowH k n) : ∀ N σ σ', TabRel k N σ σ' → ∀ t r e rest, (t :: r).length ≤ N →
    isStringTok t = true → parseRStrings σ n (t :: r) = some (e, rest) →
    rest.length < (t :: r).length ∧ parseRStrings σ' n (t :: r) = some (shE k e, rest) := by
  intro N σ σ' hrel t r e rest hN ht h
  cases n with
  | zero => simp [parseRStrings] at h
  | succ f =>
    have ih := ih _ rfl
    rw [parseRStrings.eq_def] at h ⊢
    simp only [List.dropWhile, ht, List.takeWhile] at h ⊢
    have hd := dropWhile_len isStringTok r
    simp only [List.length_cons] at hN
    have hL : L σ' (t :: r) = L σ (t :: r) + k := by
      simp only [L, List.length_cons]; exact hrel.fst (by omega) hN
    have hR : R σ' (List.dropWhile isStringTok r) = R σ (List.dropWhile isStringTok r) + k := by
      simp only [R]; exact hrel.snd (by omega) (by omega)
    have hlen : (List.takeWhile isStringTok r).length + (List.dropWhile isStringTok r).length = r.length := by
      rw [← List.length_append, List.takeWhile_append_dropWhile]
    rw [hL, hR]
    split at h
    · rename_i h1
      split at h
      · cases h
      · rename_i h2
        simp only [Option.some.injEq, Prod.mk.injEq] at h
        obtain ⟨rfl, rfl⟩ := h
        refine ⟨by simp only [List.length_cons]; omega, ?_⟩
        rw [if_pos h1, if_neg h2]
        rfl
    · rename_i h1
      split at h
      · rename_i h2
        simp only [Option.some.injEq, Prod.mk.injEq] at h
        obtain ⟨rfl, rfl⟩ := h
        refine ⟨by simp only [List.length_cons]; omega, ?_⟩
        rw [if_neg h1, if_pos h2]
        rfl
      · rename_i h2
        split at h
        · rename_i pieces hp
          simp only [Option.some.injEq, Prod.mk.injEq] at h
          obtain ⟨rfl, rfl⟩ := h
          refine ⟨by simp only [List.length_cons]; omega, ?_⟩
          rw [if_neg h1, if_neg h2]
          rw [ih.stringPieces N σ σ' hrel _ _ pieces (by simp only [List.length_cons]; omega) hp]
          simp only [shE, shRg, ← dedup_shift]
        · cases h

theorem shiftAt_of_below {k n : Nat} (b : BelowH k n) : ShiftAt k n :=
  ⟨hstep_test b, hstep_namedTest b, hstep_starOrNamed b, hstep_testOrStar b, hstep_orTest b, hstep_andTest b, hstep_notTest b, hstep_cmp b, hstep_factor b, hstep_power b, hstep_atomExpr b, hstep_atomExpr2 b, hstep_subscript b, hstep_atom b, hstep_exprOrStar b, hstep_targetList b, hstep_testList b, hstep_lambda b, hstep_listAtom b, hstep_parenAtom b, hstep_yieldAtom b, hstep_braceAtom b, hstep_params b, hstep_orRest b, hstep_andRest b, hstep_cmpRest b, hstep_bin b, hstep_binLoop b, hstep_trailers b, hstep_args b, hstep_arg b, hstep_subscriptList b, hstep_subscripts b, hstep_sliceRest b, hstep_braceFirst b, hstep_elems b, hstep_dictRest b, hstep_compFor b, hstep_compIfs b, hstep_targetRest b, hstep_testListRest b, hstep_strings b, hstep_stringPieces b, hstep_fbody b, hstep_ffield b, hstep_fspec b, hstep_top b⟩

/-- every function of the ranged parser commutes with the shift, at every fuel -/
theorem shiftAt (k : Nat) : ∀ n, ShiftAt k n
  | 0 => shiftAt_of_below (fun f h => absurd h (by omega))
  | n + 1 => shiftAt_of_below (fun f h => by cases h; exact shiftAt k n)

/-! ## the theorems -/

/-- the result of a parsing function, shifted: the tree's ranges move, the unconsumed rest stays -/
def shP (k : Nat) (p : RExpr × List Tok) : RExpr × List Tok := (shE k p.1, p.2)

/-- **The ranged parser commutes with a shift of the span table.**  If the spans of the (at most `N`) tokens of the
    input are all moved by `k`, then `Test` (the nonterminal `PV.C02.parseR` reads) accepts alike, returns the same
    rest, and the tree it returns is the old tree with every range moved by `k` — and nothing else changed
    (`erase_shE`). -/
theorem parseRTest_shift {k N : Nat} {σ σ' : SpanTab} (h : TabRel k N σ σ') (f : Nat) (ts : List Tok)
    (hN : ts.length ≤ N) : parseRTest σ' f ts = (parseRTest σ f ts).map (shP k) := by
  cases hp : parseRTest σ f ts with
  | some p =>
    obtain ⟨e, r⟩ := p
    exact ((shiftAt k f).test N σ σ' h ts e r hN hp).2
  | none =>
    have e1 := (eraseAt f).test σ ts
    have e2 := (eraseAt f).test σ' ts
    rw [hp] at e1
    rw [e1] at e2
    cases h' : parseRTest σ' f ts <;> simp_all

/-- the same for whole-input parsing in expression mode (`Top`) -/
theorem parseRTop_shift {k N : Nat} {σ σ' : SpanTab} (h : TabRel k N σ σ') (f : Nat) (ts : List Tok)
    (hN : ts.length ≤ N) : parseRTop σ' f ts = (parseRTop σ f ts).map (shE k) := by
  cases hp : parseRTop σ f ts with
  | some e => exact (shiftAt k f).top N σ σ' h ts e hN hp
  | none =>
    have e1 := (eraseAt f).top σ ts
    have e2 := (eraseAt f).top σ' ts
    rw [hp] at e1
    rw [e1] at e2
    cases h' : parseRTop σ' f ts <;> simp_all

/-- move the span of a token by `k` -/
def shiftRTok (k : Nat) (t : RTok) : RTok := ⟨t.tok, t.s + k, t.e + k⟩

theorem spanTab_shift (k : Nat) (toks : List RTok) :
    TabRel k toks.length (spanTab toks) (spanTab (toks.map (shiftRTok k))) := by
  have e : (toks.map (shiftRTok k)).map (fun t => (t.s, t.e)) = (toks.map fun t => (t.s, t.e)).map (shRg k) := by
    simp [shiftRTok, shRg, Function.comp_def]
  unfold spanTab
  rw [e]
  simpa using tabRel_tabOf k (toks.map fun t => (t.s, t.e))

theorem map_tok_shift (k : Nat) (toks : List RTok) : (toks.map (shiftRTok k)).map (·.tok) = toks.map (·.tok) := by
  simp [shiftRTok, Function.comp_def]

/-- **`parseR` on tokens whose spans are all moved by `k`** returns the tree with every range moved by `k`, and the
    same rest; it rejects iff it rejected. -/
theorem parseR_shift (k fuel : Nat) (toks : List RTok) :
    parseR fuel (toks.map (shiftRTok k)) = (parseR fuel toks).map (shP k) := by
  unfold parseR
  rw [map_tok_shift]
  exact parseRTest_shift (spanTab_shift k toks) fuel _ (by simp)

/-- … and for whole-input parsing in expression mode -/
theorem parseRExpression_shift (k : Nat) (toks : List RTok) :
    parseRExpression (toks.map (shiftRTok k)) = (parseRExpression toks).map (shE k) := by
  unfold parseRExpression
  rw [map_tok_shift]
  exact parseRTop_shift (spanTab_shift k toks) _ _ (by simp)

/-- `f(a, k=1)` with spans 0..1, 1..2, 2..3, 3..4, 5..6, 6..7, 7..8, 8..9 and the same moved by 400: the `Call` is ranged
    0..9 resp. 400..409, the `Keyword` 5..8 resp. 405..408 -/
def exToks : List RTok :=
  [⟨.name [102], 0, 1⟩, ⟨.op .lpar, 1, 2⟩, ⟨.name [97], 2, 3⟩, ⟨.op .comma, 3, 4⟩, ⟨.name [107], 5, 6⟩,
   ⟨.op .assign, 6, 7⟩, ⟨.int 1, 7, 8⟩, ⟨.op .rpar, 8, 9⟩]

example : (parseRExpression exToks).map (·.range) = some (0, 9) ∧
    (parseRExpression (exToks.map (shiftRTok 400))).map (·.range) = some (400, 409) := by decide

example : parseRExpression (exToks.map (shiftRTok 400)) = (parseRExpression exToks).map (shE 400) :=
  parseRExpression_shift 400 exToks

end PV.C09
