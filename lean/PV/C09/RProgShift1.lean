import PV.C09.RProgShiftBase
/-
  PV.C09.RProgShift1 — the ranged program parser commutes with a shift of the span table, part 1: expression lists at
  statement level, `ExpressionStatement`, import names, type parameter lists (the functions of `PV/C02/RProg.lean` up to
  `parseRTypeParamsOpt`).  One lemma per function, `*_sh`: if the function returns an answer for the table `σ`, it
  consumed so many tokens and returns the shifted answer (same rest) for every table `σ'` with `TabRel k N σ σ'`.
-/
set_option linter.unusedSimpArgs false
set_option linter.unusedVariables false
namespace PV.C09
open PV.Expr PV.C11 PV.C02 PV.Prog

/-- induction on the fuel with the hypothesis in the form the case analysis of a function leaves it -/
theorem below_rec' {P : Nat → Prop} (step : ∀ n, (∀ f, n = f + 1 → P f) → P n) : ∀ n, P n
  | 0 => step 0 (fun f h => absurd h (by omega))
  | n + 1 => step (n + 1) (fun f h => by cases h; exact below_rec' step n)

section
variable {k N : Nat} {σ σ' : SpanTab}

theorem commaList_sh (hrel : TabRel k N σ σ') : ∀ f ek ts es tc rest, ts.length ≤ N →
    parseRCommaList σ ek f ts = some ((es, tc), rest) →
    rest.length < ts.length ∧ es ≠ [] ∧ parseRCommaList σ' ek f ts = some ((shL k es, tc), rest) := by
  refine below_rec' (fun n ih => ?_)
  intro ek ts es tc rest hN
  fun_cases parseRCommaList σ ek n ts
  all_goals intro h
  pcore h parseRCommaList [elem_sh hrel, ih _ rfl]

theorem testListS_sh (hrel : TabRel k N σ σ') : ∀ f ts e rest, ts.length ≤ N → parseRTestListS σ f ts = some (e, rest) →
    rest.length < ts.length ∧ parseRTestListS σ' f ts = some (shE k e, rest) := by
  intro f ts e rest hN h
  unfold parseRTestListS at h ⊢
  split at h
  · rename_i l r hc
    obtain ⟨es, tc⟩ := l
    simp only [Option.some.injEq, Prod.mk.injEq] at h
    obtain ⟨rfl, rfl⟩ := h
    obtain ⟨g1, _, g3⟩ := commaList_sh hrel f _ ts es tc _ hN hc
    refine ⟨g1, ?_⟩
    rw [g3]
    simp only [← genericListR_shift, shRg, L, R]
    rw [hrel.fst (by omega) hN, hrel.snd (by omega) (by omega)]
  · cases h


theorem yieldS_sh (hrel : TabRel k N σ σ') : ∀ f ts e rest, ts.length + 1 ≤ N → parseRYieldS σ f ts = some (e, rest) →
    rest.length ≤ ts.length ∧ parseRYieldS σ' f ts = some (shE k e, rest) := by
  intro f ts e rest hN
  fun_cases parseRYieldS σ f ts
  all_goals intro h
  pcore h parseRYieldS [test_sh hrel, testListS_sh hrel]

theorem testListOrYield_sh (hrel : TabRel k N σ σ') : ∀ f ts e rest, ts.length ≤ N →
    parseRTestListOrYield σ f ts = some (e, rest) →
    rest.length < ts.length ∧ parseRTestListOrYield σ' f ts = some (shE k e, rest) := by
  intro f ts e rest hN
  fun_cases parseRTestListOrYield σ f ts
  all_goals intro h
  pcore h parseRTestListOrYield [yieldS_sh hrel, testListS_sh hrel]

theorem assignSuffixes_sh (hrel : TabRel k N σ σ') : ∀ f ts es rest, ts.length ≤ N →
    parseRAssignSuffixes σ f ts = some (es, rest) →
    rest.length ≤ ts.length ∧ parseRAssignSuffixes σ' f ts = some (shL k es, rest) := by
  refine below_rec' (fun n ih => ?_)
  intro ts es rest hN
  fun_cases parseRAssignSuffixes σ n ts
  all_goals intro h
  pcore h parseRAssignSuffixes [testListOrYield_sh hrel, ih _ rfl]

/-- the part of `parseRExprStmt` behind the first expression list (same text) -/
def exprStmtTail (σ : SpanTab) (f : Nat) (ts : List Tok) (e : RExpr) (es : List RExpr) (tc : Bool) (rest : List Tok) : PR RStmt :=
      match rest with
      | .op .assign :: _ =>
        (match parseRAssignSuffixes σ f rest with
         | some (vals, r) =>
           (match assignOfR (L σ ts, R σ r) e vals with
            | some s => some (s, r)
            | none => none)
         | none => none)
      | .op .colon :: r =>
        (match es, tc with
         | [x], false =>
           if isStarredR x then none else
           (match parseRTest σ f r with
            | some (ann, .op .assign :: r1) =>
              (match parseRTestListOrYield σ f r1 with
               | some (v, r2) => some (.annAssign (L σ ts, R σ r2) x ann (some v) (isNameR x && startsName ts), r2)
               | none => none)
            | some (ann, r1) => some (.annAssign (L σ ts, R σ r1) x ann none (isNameR x && startsName ts), r1)
            | none => none)
         | _, _ => none)
      | t :: r =>
        (match tk t with
         | .aug op =>
           (match parseRTestListOrYield σ f r with
            | some (v, r1) => some (.augAssign (L σ ts, R σ r1) e op v, r1)
            | none => none)
         | _ => some (.expr (L σ ts, R σ (t :: r)) e, t :: r))
      | [] => some (.expr (L σ ts, R σ []) e, [])

theorem exprStmt_unfold (σ : SpanTab) (f : Nat) (ts : List Tok) : parseRExprStmt σ (f + 1) ts =
    match parseRCommaList σ .testOrStar f ts with
    | none => none
    | some ((es, tc), rest) => exprStmtTail σ f ts (genericListR (L σ ts, R σ rest) (es, tc)) es tc rest := by
  rw [parseRExprStmt]
  rfl

theorem exprStmtTail_sh (hrel : TabRel k N σ σ') : ∀ f ts e es tc rest s r, ts.length ≤ N → 1 ≤ ts.length → rest.length < ts.length →
    exprStmtTail σ f ts e es tc rest = some (s, r) →
    r.length ≤ rest.length ∧ exprStmtTail σ' f ts (shE k e) (shL k es) tc rest = some (shS k s, r) := by
  intro f ts e es tc rest s r hN h1 h2
  fun_cases exprStmtTail σ f ts e es tc rest
  all_goals intro h
  pcore h exprStmtTail [assignSuffixes_sh hrel, testListOrYield_sh hrel, test_sh hrel]
    [assignOfR_shift', isStarredR_shE, isNameR_shE]

theorem exprStmt_sh (hrel : TabRel k N σ σ') : ∀ f ts s rest, ts.length ≤ N → parseRExprStmt σ f ts = some (s, rest) →
    rest.length < ts.length ∧ parseRExprStmt σ' f ts = some (shS k s, rest) := by
  intro f ts s rest hN h
  cases f with
  | zero => simp [parseRExprStmt] at h
  | succ f =>
    rw [exprStmt_unfold] at h ⊢
    cases hc : parseRCommaList σ .testOrStar f ts with
    | none => simp [hc] at h
    | some p =>
      obtain ⟨⟨es, tc⟩, r0⟩ := p
      obtain ⟨g1, g2, g3⟩ := commaList_sh hrel f _ ts es tc r0 hN hc
      rw [hc] at h; rw [g3]
      simp only [] at h ⊢
      obtain ⟨q1, q2⟩ := exprStmtTail_sh hrel f ts _ es tc r0 s rest hN (by omega) g1 h
      refine ⟨by omega, ?_⟩
      rw [← q2]
      simp only [L, R]
      rw [hrel.fst (by omega) hN, hrel.snd (by omega) (by omega), genericListR_shift']

/-! ### imports, type parameters -/

theorem dottedTail_len : ∀ {acc ts nm r}, dottedTail acc ts = some (nm, r) → r.length ≤ ts.length := by
  intro acc ts
  fun_induction dottedTail acc ts <;> intro nm r h
  · rename_i ih
    have := ih h
    simp only [List.length_cons]; omega
  · cases h
  · simp only [Option.some.injEq, Prod.mk.injEq] at h
    obtain ⟨_, rfl⟩ := h
    exact Nat.le_refl _

theorem parseAsOpt_len {ts a r} (h : parseAsOpt ts = some (a, r)) : r.length ≤ ts.length := by
  unfold parseAsOpt at h
  split at h
  · split at h <;> simp only [Option.some.injEq, Prod.mk.injEq] at h <;> obtain ⟨_, rfl⟩ := h <;>
      simp only [List.length_cons] <;> omega
  · split at h
    · cases h
    · simp only [Option.some.injEq, Prod.mk.injEq] at h; obtain ⟨_, rfl⟩ := h; exact Nat.le_refl _
  · simp only [Option.some.injEq, Prod.mk.injEq] at h; obtain ⟨_, rfl⟩ := h; exact Nat.le_refl _

theorem importDots_len : ∀ ts, (importDots ts).2.2.length ≤ ts.length := by
  intro ts
  fun_induction importDots ts <;> simp_all <;> omega

theorem parseIdents_len : ∀ f ts ns r, parseIdents f ts = some (ns, r) → r.length < ts.length := by
  intro f
  induction f with
  | zero => intro ts ns r h; simp [parseIdents] at h
  | succ f ih =>
    intro ts ns r h
    rw [parseIdents.eq_def] at h
    split at h
    · cases h
    · rename_i f' n r0 heq
      simp only [Nat.succ.injEq] at heq; subst heq
      split at h
      · rename_i ns' r' h'
        simp only [Option.some.injEq, Prod.mk.injEq] at h
        obtain ⟨_, rfl⟩ := h
        have := ih _ _ _ h'
        simp only [List.length_cons]; omega
      · cases h
    · simp only [Option.some.injEq, Prod.mk.injEq] at h
      obtain ⟨_, rfl⟩ := h
      simp only [List.length_cons]; omega
    · cases h

theorem importNames_sh (hrel : TabRel k N σ σ') : ∀ f ts as rest, ts.length ≤ N → parseRImportNames σ f ts = some (as, rest) →
    rest.length < ts.length ∧ parseRImportNames σ' f ts = some (as.map (shAlias k), rest) := by
  refine below_rec' (fun n ih => ?_)
  intro ts as rest hN
  fun_cases parseRImportNames σ n ts
  all_goals intro h
  pcore h parseRImportNames [@dottedTail_len, @parseAsOpt_len, ih _ rfl]

theorem fromNames_sh (hrel : TabRel k N σ σ') : ∀ f paren ts as rest, ts.length ≤ N →
    parseRFromNames σ paren f ts = some (as, rest) →
    rest.length < ts.length ∧ parseRFromNames σ' paren f ts = some (as.map (shAlias k), rest) := by
  refine below_rec' (fun n ih => ?_)
  intro paren ts as rest hN
  fun_cases parseRFromNames σ paren n ts
  all_goals intro h
  pcore h parseRFromNames [@parseAsOpt_len, ih _ rfl]

theorem importAsNames_sh (hrel : TabRel k N σ σ') : ∀ f ts as rest, ts.length ≤ N →
    parseRImportAsNames σ f ts = some (as, rest) →
    rest.length < ts.length ∧ parseRImportAsNames σ' f ts = some (as.map (shAlias k), rest) := by
  intro f ts as rest hN
  fun_cases parseRImportAsNames σ f ts
  all_goals intro h
  pcore h parseRImportAsNames [fromNames_sh hrel]

theorem importFrom_sh (hrel : TabRel k N σ σ') : ∀ f ts s rest, ts.length + 1 ≤ N → parseRImportFrom σ f ts = some (s, rest) →
    rest.length < ts.length ∧ parseRImportFrom σ' f ts = some (shS k s, rest) := by
  intro f ts s rest hN
  have hd := importDots_len ts
  fun_cases parseRImportFrom σ f ts
  all_goals intro h
  all_goals try simp only [*] at hd
  pcore h parseRImportFrom [@dottedTail_len, importAsNames_sh hrel]

theorem typeParamItemR_sh (hrel : TabRel k N σ σ') : ∀ f ts tp rest, ts.length ≤ N → typeParamItemR σ f ts = some (tp, rest) →
    rest.length < ts.length ∧ typeParamItemR σ' f ts = some (shTypeParam k tp, rest) := by
  intro f ts tp rest hN
  fun_cases typeParamItemR σ f ts
  all_goals intro h
  pcore h typeParamItemR [test_sh hrel]

theorem typeParams_sh (hrel : TabRel k N σ σ') : ∀ f ts tps rest, ts.length ≤ N → parseRTypeParams σ f ts = some (tps, rest) →
    rest.length + 1 < ts.length ∧ parseRTypeParams σ' f ts = some (tps.map (shTypeParam k), rest) := by
  refine below_rec' (fun n ih => ?_)
  intro ts tps rest hN
  fun_cases parseRTypeParams σ n ts
  all_goals intro h
  pcore h parseRTypeParams [typeParamItemR_sh hrel, ih _ rfl]

theorem typeParamsOpt_sh (hrel : TabRel k N σ σ') : ∀ f ts tps rest, ts.length ≤ N →
    parseRTypeParamsOpt σ f ts = some (tps, rest) →
    rest.length ≤ ts.length ∧ parseRTypeParamsOpt σ' f ts = some (tps.map (shTypeParam k), rest) := by
  intro f ts tps rest hN
  fun_cases parseRTypeParamsOpt σ f ts
  all_goals intro h
  pcore h parseRTypeParamsOpt [typeParams_sh hrel]

/-! ### small statements -/

theorem small_sh (hrel : TabRel k N σ σ') : ∀ f ts s rest, ts.length ≤ N → parseRSmall σ f ts = some (s, rest) →
    rest.length < ts.length ∧ parseRSmall σ' f ts = some (shS k s, rest) := by
  intro f ts s rest hN
  fun_cases parseRSmall σ f ts
  all_goals intro h
  pcore h parseRSmall [yieldS_sh hrel, importFrom_sh hrel, commaList_sh hrel, testListS_sh hrel, test_sh hrel,
    importNames_sh hrel, parseIdents_len, typeParamsOpt_sh hrel, exprStmt_sh hrel]

theorem simpleLine_sh (hrel : TabRel k N σ σ') : ∀ f ts ss rest, ts.length ≤ N → parseRSimpleLine σ f ts = some (ss, rest) →
    rest.length < ts.length ∧ ss ≠ [] ∧ parseRSimpleLine σ' f ts = some (shSs k ss, rest) := by
  refine below_rec' (fun n ih => ?_)
  intro ts ss rest hN
  fun_cases parseRSimpleLine σ n ts
  all_goals intro h
  pcore h parseRSimpleLine [small_sh hrel, ih _ rfl]

end
end PV.C09
