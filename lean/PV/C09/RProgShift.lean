import PV.C09.RProgShift4
/-
  PV.C09.RProgShift — **the ranged PROGRAM parser commutes with a shift of the span table** (`parseRProgram_shift`): C09's
  "a start offset only translates positions" on the MODEL of range computation for whole programs, `PV.C02.parseRProgram`
  (lean/PV/C02/RProg.lean: all 28 statement kinds, patterns, parameters, with-items, type parameters, decorators, the
  `Mod*` node; 47 functions calling the ranged expression parser at expression positions).

  If the spans of the input's tokens are all moved by `k` (`TabRel k N σ σ'`, `N` ≥ the number of tokens), every function of
  the ranged program parser returns the same answer with EVERY range moved by `k` (`shiftRMod k`, `shS k`, … of
  `RProgShiftBase.lean`; nothing else changes: `erase_shiftRMod`) and the same unconsumed rest:
    parts 1–4 (`RProgShift1..4.lean`) one lemma per function, re-using `shiftAt` (`RShift.lean`) at expression positions;
    here `Program`, `Top` and the theorems.
  Included: the DERIVED ends (a compound statement ends where its last body statement ends — a range of a child, which
  moves with the child), the start-marker based `Mod*` range (start of the first token .. end of the last one), and the
  shapes the model copies from the code as findings (implicit `match` subject tuple, `ArgWithDefault` ending at its
  default's node, …).  NOT translated, exactly as in the code: the `Mod*` node of a TOKEN-LESS input, which is ranged
  `0..0` at every start offset (`parseRProgram_shift_fails`; listed finding `start-marker-mod-range-no-token`).
  That a rejection is a rejection for both tables is `PV.C02.topT_erase`.
-/
set_option linter.unusedSimpArgs false
set_option linter.unusedVariables false
namespace PV.C09
open PV.Expr PV.C11 PV.C02 PV.Prog

section
variable {k N : Nat} {σ σ' : SpanTab}

theorem programBody_sh (hrel : TabRel k N σ σ') : ∀ f ts b, ts.length ≤ N → parseRProgramBody σ f ts = some b →
    parseRProgramBody σ' f ts = some (shSs k b) := by
  refine below_rec' (fun n ih => ?_)
  intro ts b hN
  fun_cases parseRProgramBody σ n ts
  all_goals intro h
  pcore h parseRProgramBody [(compShAt hrel _).compound, simpleLine_sh hrel, ih _ rfl]

/-- `Top` on an input with at least one token: the `Mod*` node runs from the start of the first token to the end of the
    last one, both of which move by `k` -/
theorem parseRTopT_sh (hrel : TabRel k N σ σ') (mode : Mode) (fuel : Nat) (ts : List Tok) (hN : ts.length ≤ N)
    (hne : ts ≠ []) (m : RMod) (h : parseRTopT σ mode fuel ts = some m) :
    parseRTopT σ' mode fuel ts = some (shiftRMod k m) := by
  have h1 : 1 ≤ ts.length := by cases ts <;> simp_all
  have hL : L σ' ts = L σ ts + k := by simp only [L]; exact hrel.fst h1 hN
  have hR : R σ' [] = R σ [] + k := by simp only [R, List.length_nil]; exact hrel.snd (by omega) (by omega)
  unfold parseRTopT at h ⊢
  cases mode with
  | module =>
    simp only at h ⊢
    split at h
    · rename_i b hb
      simp only [Option.some.injEq] at h; subst h
      rw [programBody_sh hrel fuel ts b hN hb, hL, hR]
      rfl
    · cases h
  | interactive =>
    simp only at h ⊢
    split at h
    · rename_i b hb
      simp only [Option.some.injEq] at h; subst h
      rw [programBody_sh hrel fuel ts b hN hb, hL, hR]
      rfl
    · cases h
  | expression =>
    simp only at h ⊢
    split at h
    · rename_i e r he
      split at h
      · rename_i hall
        simp only [Option.some.injEq] at h; subst h
        rw [(testListS_sh hrel fuel ts e r hN he).2]
        simp only [hall, if_true, hL, hR]
        rfl
      · cases h
    · cases h

/-- **`Top` of the ranged program parser commutes with a shift of the span table** (input with at least one token):
    accepted alike; the tree for the shifted table is the old tree with every range moved by `k` -/
theorem parseRTopT_shift (hrel : TabRel k N σ σ') (mode : Mode) (fuel : Nat) (ts : List Tok) (hN : ts.length ≤ N)
    (hne : ts ≠ []) : parseRTopT σ' mode fuel ts = (parseRTopT σ mode fuel ts).map (shiftRMod k) := by
  cases hp : parseRTopT σ mode fuel ts with
  | some m => exact parseRTopT_sh hrel mode fuel ts hN hne m hp
  | none =>
    have e1 := topT_erase σ mode fuel ts
    have e2 := topT_erase σ' mode fuel ts
    rw [hp] at e1
    rw [e1] at e2
    cases h' : parseRTopT σ' mode fuel ts <;> simp_all

end

/-! ## the theorems -/

/-- move the span of a program token by `k` -/
def shiftRPTok (k : Nat) (t : RPTok) : RPTok := ⟨t.tok, t.s + k, t.e + k⟩

theorem pspanTab_shift (k : Nat) (toks : List RPTok) :
    TabRel k toks.length (pspanTab toks) (pspanTab (toks.map (shiftRPTok k))) := by
  have e : (toks.map (shiftRPTok k)).map (fun t => (t.s, t.e)) = (toks.map fun t => (t.s, t.e)).map (shRg k) := by
    simp [shiftRPTok, shRg, Function.comp_def]
  unfold pspanTab
  rw [e]
  simpa using tabRel_tabOf k (toks.map fun t => (t.s, t.e))

theorem map_ptok_shift (k : Nat) (toks : List RPTok) :
    (toks.map (shiftRPTok k)).map (fun t => t.tok.toTok) = toks.map (fun t => t.tok.toTok) := by
  simp [shiftRPTok, Function.comp_def]

/-- explicit fuel -/
theorem parseRProgramFuel_shift (k fuel : Nat) (mode : Mode) (toks : List RPTok) (hne : toks ≠ []) :
    parseRProgramFuel fuel mode (toks.map (shiftRPTok k)) = (parseRProgramFuel fuel mode toks).map (shiftRMod k) := by
  unfold parseRProgramFuel
  rw [map_ptok_shift]
  exact parseRTopT_shift (pspanTab_shift k toks) mode fuel _ (by simp) (by cases toks <;> simp_all)

/-- **The ranged program parser on tokens whose spans are all moved by `k`** (at least one token) returns the tree with
    EVERY range moved by `k` — every statement, pattern, handler, match case, alias, with-item, type parameter,
    parameter, `Arguments`, expression node and the `Mod*` node, derived ends included — and nothing else changed
    (`erase_shiftRMod`); it rejects iff it rejected.  In every mode. -/
theorem parseRProgram_shift (k : Nat) (mode : Mode) (toks : List RPTok) (hne : toks ≠ []) :
    parseRProgram mode (toks.map (shiftRPTok k)) = (parseRProgram mode toks).map (shiftRMod k) := by
  unfold parseRProgram
  rw [map_ptok_shift]
  exact parseRProgramFuel_shift k _ mode toks hne

/-- the statement without the hypothesis that there is a token -/
def parseRProgram_shift_full : Prop :=
  ∀ (k : Nat) (mode : Mode) (toks : List RPTok),
    parseRProgram mode (toks.map (shiftRPTok k)) = (parseRProgram mode toks).map (shiftRMod k)

/-- a token-less input has nothing whose span could move: the answer is the same for every `k` — `Module` / `Interactive`
    ranged `0..0`, as the real parser does (the start marker has no token to follow) -/
theorem parseRProgram_shift_tokenless (k : Nat) (mode : Mode) :
    parseRProgram mode (([] : List RPTok).map (shiftRPTok k)) = parseRProgram mode [] := rfl

theorem parseRProgram_tokenless_module : parseRProgram .module [] = some (.module (0, 0) []) := rfl

/-- … so the unrestricted statement FAILS, exactly in the shape of the listed finding `start-marker-mod-range-no-token`:
    the token-less module is ranged `0..0`, not `1..1`, when everything is moved by 1 -/
theorem parseRProgram_shift_fails : ¬ parseRProgram_shift_full := by
  intro h
  have := h 1 .module []
  rw [parseRProgram_shift_tokenless, parseRProgram_tokenless_module] at this
  simp [shiftRMod, shRg] at this

/-- both cases in one statement -/
theorem parseRProgram_shift_all (k : Nat) (mode : Mode) (toks : List RPTok) :
    parseRProgram mode (toks.map (shiftRPTok k)) =
      (parseRProgram mode toks).map (if toks = [] then id else shiftRMod k) := by
  by_cases h : toks = []
  · subst h; simp
  · rw [if_neg h]; exact parseRProgram_shift k mode toks h

/-- the statements of a module / interactive parse -/
def modBody : RMod → List RStmt
  | .module _ b => b
  | .interactive _ b => b
  | .expression _ _ => []

/-- `if a:⏎    b;⏎c⏎` with the byte spans of its tokens -/
def ifToks : List RPTok :=
  [⟨.e (.kw .if), 0, 2⟩, ⟨.e (.name [97]), 3, 4⟩, ⟨.e (.op .colon), 4, 5⟩, ⟨.newline, 5, 6⟩, ⟨.indent, 6, 10⟩,
   ⟨.e (.name [98]), 10, 11⟩, ⟨.e (.op (.other [59])), 11, 12⟩, ⟨.newline, 12, 13⟩, ⟨.dedent, 13, 13⟩,
   ⟨.e (.name [99]), 13, 14⟩, ⟨.newline, 14, 15⟩]

/-- at offset 0 the statements are ranged 0..11 (the `If` ends where its last body statement ends — the derived end) and
    13..14, the module 0..15 … -/
theorem ifToks_ranges : ((parseRProgram .module ifToks).map fun m => (m.range, (modBody m).map RStmt.range)) =
    some ((0, 15), [(0, 11), (13, 14)]) := by decide

/-- … with every span moved by 400 every range is moved by 400 (evaluated) … -/
example : ((parseRProgram .module (ifToks.map (shiftRPTok 400))).map fun m => (m.range, (modBody m).map RStmt.range)) =
    some ((400, 415), [(400, 411), (413, 414)]) := by decide

/-- … which is what the theorem says (its hypothesis holds: there are tokens) -/
example : parseRProgram .module (ifToks.map (shiftRPTok 400)) = (parseRProgram .module ifToks).map (shiftRMod 400) :=
  parseRProgram_shift 400 .module ifToks (by simp [ifToks])

end PV.C09
