import PV.C09.Spec
/-! C09 — helper lemmas for `PV/C09/Thm.lean`. -/
namespace PV.C09
open Spec
variable {σ : Sig}

theorem typed_agree (env : Env σ) (p : TypedParser) (hwf : p.WF) (toks : List σ.T) :
    Agrees env.view (Ty.typed p).target (parseFiltered env (Ty.typed p).target.mode toks)
      ((Ty.typed p).parseTokens env toks) := by
  obtain ⟨h1, h2, h3, h4, h5, h6⟩ := hwf
  rcases p with ⟨te, ti, lv, pv, me, mi, eit, eo⟩
  simp only at h1 h2 h3 h4 h5 h6
  subst h1 h2 h3 h4 h5 h6
  cases me
  · simp only [Agrees, Ty.target, Target.mode, Ty.parseTokens, typedTokens, stmtTokens,
      modModuleTokens, errKindOf, errOffOf]
    generalize parseFiltered env _ toks = top
    rcases top with (m | ⟨k, o⟩ | _)
    · cases m with
      | module m =>
        rcases hb : m.body with _ | ⟨s1, _ | ⟨s2, tl⟩⟩ <;> simp [Res.map, Res.bind, Res.isErr, hb]
        constructor <;> intro h <;> simp [h]
      | _ => simp [Res.map, Res.bind]
    · simp [Res.map, Res.bind]
    · simp [Res.map, Res.bind]
  · simp only [Agrees, Ty.target, Target.mode, Ty.parseTokens, typedTokens, exprTokens,
      modExpressionTokens, errKindOf, errOffOf]
    generalize parseFiltered env _ toks = top
    rcases top with (m | ⟨k, o⟩ | _)
    · cases m with
      | expression m =>
        simp [Res.map, Res.bind]
        constructor <;> intro h <;> simp [h]
      | _ => simp [Res.map, Res.bind]
    · simp [Res.map, Res.bind]
    · simp [Res.map, Res.bind]

theorem lexMode_eq_target_mode (ty : Ty) (hwf : ty.WF) : ty.lexMode = ty.target.mode := by
  cases ty with
  | typed p =>
    obtain ⟨h1, -, -, -, -, -⟩ := hwf
    rcases p with ⟨te, ti, lv, pv, me, mi, eit, eo⟩
    simp only at h1
    subst h1
    cases lv <;> rfl
  | _ => rfl

theorem filterTrivia_shift (env : Env σ) (sh : Shift σ) (k : Nat) (h : ShiftEnv env sh k) (toks : List σ.T) :
    filterTrivia env (toks.map (sh.tok k)) = (filterTrivia env toks).map (sh.tok k) := by
  unfold filterTrivia
  split
  · rw [List.filter_map]
    congr 1
    apply List.filter_congr
    intro t _
    simp [h.trivia]
  · rfl

theorem filterTrivia_id (env : Env σ) (toks : List σ.T)
    (h : env.fullLexer = false ∨ ∀ t ∈ toks, env.isTrivia t = false) : filterTrivia env toks = toks := by
  unfold filterTrivia
  split
  · rename_i hf
    rcases h with h | h
    · simp [h] at hf
    · apply List.filter_eq_self.mpr
      intro t ht
      simp [h t ht]
  · rfl

end PV.C09
