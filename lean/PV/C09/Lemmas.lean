import PV.C09.Spec
/-! C09 — helper lemmas for `PV/C09/Thm.lean`. -/
namespace PV.C09
open Spec
variable {σ : Sig}

/-! ### `not_before` -/

theorem notBefore_zero {α} (r : Res α) : notBefore 0 r = r := by
  cases r <;> simp [notBefore]

theorem notBefore_shiftRes {α} (k : Nat) (f : α → α) (r : Res α) :
    notBefore k (shiftRes k f r) = shiftRes k f r := by
  cases r <;> simp [notBefore, shiftRes]
  omega

/-- the clamp is the identity on a result whose error offset (if any) is not below `k` -/
theorem notBefore_id {α} (k : Nat) (r : Res α) (h : ∀ kind o, r = .err kind o → k ≤ o) : notBefore k r = r := by
  cases r with
  | err kind o => have := h kind o rfl; simp [notBefore]; omega
  | _ => rfl

/-! ### every `T::parse_tokens` is one function of the result of `parse_filtered_tokens` -/

/-- `T::parse_tokens` with the result of `parse_filtered_tokens` replaced by `top` (the model itself,
    run in an environment whose parser answers `top`) -/
def ofTop (env : Env σ) (ty : Ty) (top : Res (Mod σ)) : Res (Out σ) :=
  ty.parseTokens { env with parseTop := fun _ _ => top } []

theorem parseTokens_eq_ofTop (env : Env σ) (ty : Ty) (toks : List σ.T) :
    ty.parseTokens env toks = ofTop env ty (parseFiltered env ty.parseMode toks) := by
  cases ty with
  | typed p =>
    rcases p with ⟨te, ti, lv, pv, me, mi, eit, eo⟩
    cases pv <;> rfl
  | _ => rfl

theorem ofTop_err (env : Env σ) (ty : Ty) (kind : String) (o : Nat) : ofTop env ty (.err kind o) = .err kind o := by
  cases ty with
  | typed p =>
    rcases p with ⟨te, ti, lv, pv, me, mi, eit, eo⟩
    cases pv <;> rfl
  | _ => rfl

theorem ofTop_panic (env : Env σ) (ty : Ty) : ofTop env ty .panic = .panic := by
  cases ty with
  | typed p =>
    rcases p with ⟨te, ti, lv, pv, me, mi, eit, eo⟩
    cases pv <;> rfl
  | _ => rfl

/-- results that agree after the clamp are projected to results that agree after the clamp -/
theorem ofTop_clamp_congr (env : Env σ) (ty : Ty) (k : Nat) (a b : Res (Mod σ))
    (h : notBefore k a = notBefore k b) : notBefore k (ofTop env ty a) = notBefore k (ofTop env ty b) := by
  cases a with
  | ok x =>
    cases b with
    | ok y => simp [notBefore] at h; subst h; rfl
    | err _ _ => simp [notBefore] at h
    | panic => simp [notBefore] at h
  | err ka oa =>
    cases b with
    | ok y => simp [notBefore] at h
    | err kb ob =>
      simp only [ofTop_err]
      simp only [notBefore, Res.err.injEq] at h ⊢
      exact h
    | panic => simp [notBefore] at h
  | panic =>
    cases b with
    | ok y => simp [notBefore] at h
    | err _ _ => simp [notBefore] at h
    | panic => rfl


/-- the projection commutes with translation once the result is clamped (the zero-statement `Eof` of
    `Stmt` sits at offset 0 whatever the tokens) -/
theorem ofTop_shift (env : Env σ) (sh : Shift σ) (k : Nat) (laws : ShiftLaws env.view sh) (ty : Ty) (hwf : ty.WF)
    (top : Res (Mod σ)) :
    notBefore k (ofTop env ty (shiftRes k (shiftMod sh k) top)) = shiftRes k (Spec.shiftOut sh k) (ofTop env ty top) := by
  cases ty with
  | typed p =>
    obtain ⟨h1, h2, h3, h4, h5, h6⟩ := hwf
    rcases p with ⟨te, ti, lv, pv, me, mi, eit, eo⟩
    simp only at h1 h2 h3 h4 h5 h6
    subst h1 h2 h3 h4 h5 h6
    cases me
    · simp only [ofTop, Ty.parseTokens, typedTokens, stmtTokens, modModuleTokens, parseFiltered, errKindOf, errOffOf]
      rcases top with (m | ⟨kd, o⟩ | _)
      · cases m with
        | module m =>
          rcases hb : m.body with _ | ⟨s1, _ | ⟨s2, tl⟩⟩
          · simp [Res.map, Res.bind, shiftRes, shiftMod, notBefore, hb] <;> omega
          · by_cases hk : env.view.stmtKind s1 = mi <;>
              simp [Res.map, Res.bind, shiftRes, shiftMod, Spec.shiftOut, notBefore, hb, hk, laws.stmtKind,
                laws.stmtStart, laws.stmtPayload] <;> omega
          · simp [Res.map, Res.bind, shiftRes, shiftMod, notBefore, hb, laws.stmtStart] <;> omega
        | _ => simp [Res.map, Res.bind, shiftRes, shiftMod, notBefore] <;> omega
      · simp [Res.map, Res.bind, shiftRes, notBefore] <;> omega
      · simp [Res.map, Res.bind, shiftRes, notBefore] <;> omega
    · simp only [ofTop, Ty.parseTokens, typedTokens, exprTokens, modExpressionTokens, parseFiltered, errKindOf, errOffOf]
      rcases top with (m | ⟨kd, o⟩ | _)
      · cases m with
        | expression m =>
          by_cases hk : env.view.exprKind m.body = mi <;>
            simp [Res.map, Res.bind, shiftRes, shiftMod, Spec.shiftOut, notBefore, hk, laws.exprKind,
              laws.exprStart, laws.exprPayload] <;> omega
        | _ => simp [Res.map, Res.bind, shiftRes, shiftMod, notBefore] <;> omega
      · simp [Res.map, Res.bind, shiftRes, notBefore] <;> omega
      · simp [Res.map, Res.bind, shiftRes, notBefore] <;> omega
  | stmt =>
    simp only [ofTop, Ty.parseTokens, stmtTokens, modModuleTokens, parseFiltered]
    rcases top with (m | ⟨kd, o⟩ | _)
    · cases m with
      | module m =>
        rcases hb : m.body with _ | ⟨s1, _ | ⟨s2, tl⟩⟩
        · simp [Res.map, Res.bind, shiftRes, shiftMod, notBefore, hb] <;> omega
        · simp [Res.map, Res.bind, shiftRes, shiftMod, Spec.shiftOut, notBefore, hb] <;> omega
        · simp [Res.map, Res.bind, shiftRes, shiftMod, notBefore, hb, laws.stmtStart] <;> omega
      | _ => simp [Res.map, Res.bind, shiftRes, shiftMod, notBefore] <;> omega
    · simp [Res.map, Res.bind, shiftRes, notBefore] <;> omega
    · simp [Res.map, Res.bind, shiftRes, notBefore] <;> omega
  | identifier =>
    simp only [ofTop, Ty.parseTokens, identifierTokens, exprTokens, modExpressionTokens, parseFiltered]
    rcases top with (m | ⟨kd, o⟩ | _)
    · cases m with
      | expression m =>
        rcases hn : env.view.nameId m.body with _ | i <;>
          simp [Res.map, Res.bind, shiftRes, shiftMod, Spec.shiftOut, notBefore, hn, laws.nameId, laws.exprStart] <;> omega
      | _ => simp [Res.map, Res.bind, shiftRes, shiftMod, notBefore] <;> omega
    · simp [Res.map, Res.bind, shiftRes, notBefore] <;> omega
    · simp [Res.map, Res.bind, shiftRes, notBefore] <;> omega
  | constant =>
    simp only [ofTop, Ty.parseTokens, constantTokens, exprTokens, modExpressionTokens, parseFiltered]
    rcases top with (m | ⟨kd, o⟩ | _)
    · cases m with
      | expression m =>
        rcases hn : env.view.constValue m.body with _ | i <;>
          simp [Res.map, Res.bind, shiftRes, shiftMod, Spec.shiftOut, notBefore, hn, laws.constValue, laws.exprStart] <;> omega
      | _ => simp [Res.map, Res.bind, shiftRes, shiftMod, notBefore] <;> omega
    · simp [Res.map, Res.bind, shiftRes, notBefore] <;> omega
    · simp [Res.map, Res.bind, shiftRes, notBefore] <;> omega
  | _ =>
    simp only [ofTop, Ty.parseTokens, suiteTokens, exprTokens, modModuleTokens,
      modExpressionTokens, modInteractiveTokens, parseFiltered]
    rcases top with (m | ⟨kd, o⟩ | _)
    · cases m <;> simp [Res.map, Res.bind, shiftRes, shiftMod, Spec.shiftOut, notBefore] <;> omega
    · simp [Res.map, Res.bind, shiftRes, notBefore] <;> omega
    · simp [Res.map, Res.bind, shiftRes, notBefore] <;> omega

/-- … and without the clamp when the zero-statement arm of `Stmt` is not taken -/
theorem ofTop_shift_exact (env : Env σ) (sh : Shift σ) (k : Nat) (laws : ShiftLaws env.view sh) (ty : Ty) (hwf : ty.WF)
    (top : Res (Mod σ)) (hne : ty.usesStmt = true → ∀ m, top = .ok (.module m) → m.body ≠ []) :
    ofTop env ty (shiftRes k (shiftMod sh k) top) = shiftRes k (Spec.shiftOut sh k) (ofTop env ty top) := by
  cases ty with
  | typed p =>
    obtain ⟨h1, h2, h3, h4, h5, h6⟩ := hwf
    rcases p with ⟨te, ti, lv, pv, me, mi, eit, eo⟩
    simp only at h1 h2 h3 h4 h5 h6
    subst h1 h2 h3 h4 h5 h6
    cases me
    · simp only [ofTop, Ty.parseTokens, typedTokens, stmtTokens, modModuleTokens, parseFiltered, errKindOf, errOffOf]
      rcases top with (m | ⟨kd, o⟩ | _)
      · cases m with
        | module m =>
          rcases hb : m.body with _ | ⟨s1, _ | ⟨s2, tl⟩⟩
          · exact absurd hb (hne (by simp [Ty.usesStmt]) m rfl)
          · by_cases hk : env.view.stmtKind s1 = mi <;>
              simp [Res.map, Res.bind, shiftRes, shiftMod, Spec.shiftOut, hb, hk, laws.stmtKind,
                laws.stmtStart, laws.stmtPayload]
          · simp [Res.map, Res.bind, shiftRes, shiftMod, hb, laws.stmtStart]
        | _ => simp [Res.map, Res.bind, shiftRes, shiftMod]
      · simp [Res.map, Res.bind, shiftRes]
      · simp [Res.map, Res.bind, shiftRes]
    · simp only [ofTop, Ty.parseTokens, typedTokens, exprTokens, modExpressionTokens, parseFiltered, errKindOf, errOffOf]
      rcases top with (m | ⟨kd, o⟩ | _)
      · cases m with
        | expression m =>
          by_cases hk : env.view.exprKind m.body = mi <;>
            simp [Res.map, Res.bind, shiftRes, shiftMod, Spec.shiftOut, hk, laws.exprKind,
              laws.exprStart, laws.exprPayload]
        | _ => simp [Res.map, Res.bind, shiftRes, shiftMod]
      · simp [Res.map, Res.bind, shiftRes]
      · simp [Res.map, Res.bind, shiftRes]
  | stmt =>
    simp only [ofTop, Ty.parseTokens, stmtTokens, modModuleTokens, parseFiltered]
    rcases top with (m | ⟨kd, o⟩ | _)
    · cases m with
      | module m =>
        rcases hb : m.body with _ | ⟨s1, _ | ⟨s2, tl⟩⟩
        · exact absurd hb (hne (by simp [Ty.usesStmt]) m rfl)
        · simp [Res.map, Res.bind, shiftRes, shiftMod, Spec.shiftOut, hb]
        · simp [Res.map, Res.bind, shiftRes, shiftMod, hb, laws.stmtStart]
      | _ => simp [Res.map, Res.bind, shiftRes, shiftMod]
    · simp [Res.map, Res.bind, shiftRes]
    · simp [Res.map, Res.bind, shiftRes]
  | identifier =>
    simp only [ofTop, Ty.parseTokens, identifierTokens, exprTokens, modExpressionTokens, parseFiltered]
    rcases top with (m | ⟨kd, o⟩ | _)
    · cases m with
      | expression m =>
        rcases hn : env.view.nameId m.body with _ | i <;>
          simp [Res.map, Res.bind, shiftRes, shiftMod, Spec.shiftOut, hn, laws.nameId, laws.exprStart]
      | _ => simp [Res.map, Res.bind, shiftRes, shiftMod]
    · simp [Res.map, Res.bind, shiftRes]
    · simp [Res.map, Res.bind, shiftRes]
  | constant =>
    simp only [ofTop, Ty.parseTokens, constantTokens, exprTokens, modExpressionTokens, parseFiltered]
    rcases top with (m | ⟨kd, o⟩ | _)
    · cases m with
      | expression m =>
        rcases hn : env.view.constValue m.body with _ | i <;>
          simp [Res.map, Res.bind, shiftRes, shiftMod, Spec.shiftOut, hn, laws.constValue, laws.exprStart]
      | _ => simp [Res.map, Res.bind, shiftRes, shiftMod]
    · simp [Res.map, Res.bind, shiftRes]
    · simp [Res.map, Res.bind, shiftRes]
  | _ =>
    simp only [ofTop, Ty.parseTokens, suiteTokens, exprTokens, modModuleTokens,
      modExpressionTokens, modInteractiveTokens, parseFiltered]
    rcases top with (m | ⟨kd, o⟩ | _)
    · cases m <;> simp [Res.map, Res.bind, shiftRes, shiftMod, Spec.shiftOut]
    · simp [Res.map, Res.bind, shiftRes]
    · simp [Res.map, Res.bind, shiftRes]



/-! ### agreement with the one tree -/

theorem ofTop_agrees (env : Env σ) (ty : Ty) (hwf : ty.WF) (top : Res (Mod σ)) :
    Agrees env.view ty.target top (ofTop env ty top) := by
  cases ty with
  | typed p =>
    obtain ⟨h1, h2, h3, h4, h5, h6⟩ := hwf
    rcases p with ⟨te, ti, lv, pv, me, mi, eit, eo⟩
    simp only at h1 h2 h3 h4 h5 h6
    subst h1 h2 h3 h4 h5 h6
    cases me
    · simp only [Agrees, Ty.target, ofTop, Ty.parseTokens, typedTokens, stmtTokens,
        modModuleTokens, parseFiltered, errKindOf, errOffOf]
      rcases top with (m | ⟨k, o⟩ | _)
      · cases m with
        | module m =>
          rcases hb : m.body with _ | ⟨s1, _ | ⟨s2, tl⟩⟩ <;> simp [Res.map, Res.bind, Res.isErr, hb]
          constructor <;> intro h <;> simp [h]
        | _ => simp [Res.map, Res.bind]
      · simp [Res.map, Res.bind]
      · simp [Res.map, Res.bind]
    · simp only [Agrees, Ty.target, ofTop, Ty.parseTokens, typedTokens, exprTokens,
        modExpressionTokens, parseFiltered, errKindOf, errOffOf]
      rcases top with (m | ⟨k, o⟩ | _)
      · cases m with
        | expression m =>
          simp [Res.map, Res.bind]
          constructor <;> intro h <;> simp [h]
        | _ => simp [Res.map, Res.bind]
      · simp [Res.map, Res.bind]
      · simp [Res.map, Res.bind]
  | stmt =>
    simp only [Agrees, Ty.target, ofTop, Ty.parseTokens, stmtTokens, modModuleTokens, parseFiltered]
    rcases top with (m | ⟨k, o⟩ | _)
    · cases m with
      | module m =>
        rcases hb : m.body with _ | ⟨s1, _ | ⟨s2, tl⟩⟩ <;> simp [Res.map, Res.bind, Res.isErr, hb]
      | _ => simp [Res.map, Res.bind]
    · simp [Res.map, Res.bind]
    · simp [Res.map, Res.bind]
  | identifier =>
    simp only [Agrees, Ty.target, ofTop, Ty.parseTokens, identifierTokens, exprTokens, modExpressionTokens,
      parseFiltered]
    rcases top with (m | ⟨k, o⟩ | _)
    · cases m with
      | expression m =>
        rcases hn : env.view.nameId m.body with _ | i <;> simp [Res.map, Res.bind, hn]
      | _ => simp [Res.map, Res.bind]
    · simp [Res.map, Res.bind]
    · simp [Res.map, Res.bind]
  | constant =>
    simp only [Agrees, Ty.target, ofTop, Ty.parseTokens, constantTokens, exprTokens, modExpressionTokens,
      parseFiltered]
    rcases top with (m | ⟨k, o⟩ | _)
    · cases m with
      | expression m =>
        rcases hn : env.view.constValue m.body with _ | i <;> simp [Res.map, Res.bind, hn]
      | _ => simp [Res.map, Res.bind]
    · simp [Res.map, Res.bind]
    · simp [Res.map, Res.bind]
  | _ =>
    simp only [Agrees, Ty.target, ofTop, Ty.parseTokens, suiteTokens, exprTokens, modModuleTokens,
      modExpressionTokens, modInteractiveTokens, parseFiltered]
    rcases top with (m | ⟨k, o⟩ | _)
    · cases m <;> simp [Res.map, Res.bind]
    · simp [Res.map, Res.bind]
    · simp [Res.map, Res.bind]

theorem lexMode_eq_target_mode (ty : Ty) (hwf : ty.WF) : ty.lexMode = ty.target.mode := by
  cases ty with
  | typed p =>
    obtain ⟨h1, -, -, -, -, -⟩ := hwf
    rcases p with ⟨te, ti, lv, pv, me, mi, eit, eo⟩
    simp only at h1
    subst h1
    cases lv <;> rfl
  | _ => rfl

theorem parseMode_eq_target_mode (ty : Ty) (hwf : ty.WF) : ty.parseMode = ty.target.mode := by
  cases ty with
  | typed p =>
    obtain ⟨-, h2, -, -, -, -⟩ := hwf
    rcases p with ⟨te, ti, lv, pv, me, mi, eit, eo⟩
    simp only at h2
    subst h2
    cases pv <;> rfl
  | _ => rfl

/-- agreement survives the clamp of both sides when the nodes that `InvalidToken` is reported at do
    not start before `k` -/
theorem agrees_notBefore (v : View σ) (t : Target) (k : Nat) (top : Res (Mod σ)) (out : Res (Out σ))
    (h : Agrees v t top out) (hs : StartsNotBefore v k top) : Agrees v t (notBefore k top) (notBefore k out) := by
  obtain ⟨herr, hok⟩ := h
  obtain ⟨hse, hss⟩ := hs
  rcases top with (m | ⟨kd, o⟩ | _)
  · refine ⟨by simp [notBefore], ?_⟩
    cases t with
    | stmt =>
      intro m' hm; simp only [notBefore] at hm
      obtain ⟨h1, h2⟩ := hok m' hm
      refine ⟨fun s hs => by rw [h1 s hs]; rfl, fun hl => ?_⟩
      have := h2 hl
      revert this; cases out <;> simp [notBefore, Res.isErr]
    | identifier =>
      intro m' hm; simp only [notBefore] at hm
      obtain ⟨h1, h2⟩ := hok m' hm
      have := hse m' hm
      refine ⟨fun i hi => by rw [h1 i hi]; rfl, fun hn => ?_⟩
      rw [h2 hn]; simp [notBefore]; omega
    | constant =>
      intro m' hm; simp only [notBefore] at hm
      obtain ⟨h1, h2⟩ := hok m' hm
      have := hse m' hm
      refine ⟨fun i hi => by rw [h1 i hi]; rfl, fun hn => ?_⟩
      rw [h2 hn]; simp [notBefore]; omega
    | variant en i =>
      cases en with
      | stmt =>
        intro m' hm; simp only [notBefore] at hm
        obtain ⟨h1, h2⟩ := hok m' hm
        refine ⟨fun s hs => ⟨fun hk => by rw [(h1 s hs).1 hk]; rfl, fun hk => ?_⟩, fun hl => ?_⟩
        · have := hss m' s hm hs
          rw [(h1 s hs).2 hk]; simp [notBefore]; omega
        · have := h2 hl
          revert this; cases out <;> simp [notBefore, Res.isErr]
      | expr =>
        intro m' hm; simp only [notBefore] at hm
        obtain ⟨h1, h2⟩ := hok m' hm
        have := hse m' hm
        refine ⟨fun hk => by rw [h1 hk]; rfl, fun hk => ?_⟩
        rw [h2 hk]; simp [notBefore]; omega
    | _ =>
      intro m' hm; simp only [notBefore] at hm
      rw [hok m' hm]; rfl
  · have := herr kd o rfl
    subst this
    refine ⟨by intro k' o' h; simp only [notBefore, Res.err.injEq] at h ⊢; exact h, ?_⟩
    cases t with
    | variant en i => cases en <;> simp [notBefore]
    | _ => simp [notBefore]
  · refine ⟨by simp [notBefore], ?_⟩
    cases t with
    | variant en i => cases en <;> simp [notBefore]
    | _ => simp [notBefore]


/-! ### the token stream: filter, marker position -/

theorem filterTrivia_shift (env : Env σ) (sh : Shift σ) (k : Nat) (h : ShiftEnv env sh k) (toks : List σ.T) :
    filterTrivia env (toks.map (sh.tok k)) = (filterTrivia env toks).map (sh.tok k) := by
  unfold filterTrivia
  split
  · rw [List.filter_map]
    congr 1
    apply List.filter_congr
    intro t _
    simp [h.trivia]
  · rfl

theorem filterTrivia_id (env : Env σ) (toks : List σ.T)
    (h : env.fullLexer = false ∨ ∀ t ∈ toks, env.isTrivia t = false) : filterTrivia env toks = toks := by
  unfold filterTrivia
  split
  · rename_i hf
    rcases h with h | h
    · simp [h] at hf
    · apply List.filter_eq_self.mpr
      intro t ht
      simp [h t ht]
  · rfl

theorem filterTrivia_idem (env : Env σ) (toks : List σ.T) :
    filterTrivia env (filterTrivia env toks) = filterTrivia env toks := by
  unfold filterTrivia
  split <;> simp

/-- dropping the trivia beforehand (as `parse_starts_at` used to) changes nothing: `parse_filtered_tokens`
    filters itself -/
theorem parseFiltered_filter (env : Env σ) (m : Mode) (toks : List σ.T) :
    parseFiltered env m (filterTrivia env toks) = parseFiltered env m toks := by
  simp only [parseFiltered, filterTrivia_idem]

theorem headless_shift (env : Env σ) (sh : Shift σ) (k : Nat) (h : ShiftEnv env sh k) (toks : List σ.T) :
    Headless env (toks.map (sh.tok k)) ↔ Headless env toks := by
  cases toks with
  | nil => simp [Headless]
  | cons t rest => simp [Headless, h.tokStart]

theorem markerStart_headless (env : Env σ) (toks : List σ.T) (h : Headless env toks) : markerStart env toks = 0 := by
  cases toks with
  | nil => rfl
  | cons t rest => simp only [Headless] at h; simp [markerStart, h]

theorem markerStart_shift (env : Env σ) (sh : Shift σ) (k : Nat) (h : ShiftEnv env sh k) (toks : List σ.T)
    (hh : ¬ Headless env toks) : markerStart env (toks.map (sh.tok k)) = markerStart env toks + k := by
  cases toks with
  | nil => simp [Headless] at hh
  | cons t rest =>
    simp only [Headless] at hh
    rcases hs : env.tokStart t with _ | s
    · exact absurd hs hh
    · simp [markerStart, h.tokStart, hs]

/-- `parse_filtered_tokens` on a translated stream whose first item has a position: exact translation,
    with no assumption on how the parser uses the marker -/
theorem parseFiltered_shift_of_head (env : Env σ) (sh : Shift σ) (k : Nat) (h : ShiftEnv env sh k)
    (m : Mode) (toks : List σ.T) (hh : ¬ Headless env (filterTrivia env toks)) :
    parseFiltered env m (toks.map (sh.tok k)) = shiftRes k (shiftMod sh k) (parseFiltered env m toks) := by
  simp only [parseFiltered]
  rw [filterTrivia_shift env sh k h, markerStart_shift env sh k h _ hh, ← h.parse, List.map_cons, h.marker]

/-- … on ANY translated stream, after the clamp, if the marker in front of a position-less stream is
    irrelevant up to the clamp -/
theorem parseFiltered_shift_clamped (env : Env σ) (sh : Shift σ) (k : Nat) (h : ShiftEnv env sh k)
    (m : Mode) (toks : List σ.T) (hm : Headless env (filterTrivia env toks) → HeadlessMarkerIrrelevant env k) :
    notBefore k (parseFiltered env m (toks.map (sh.tok k))) = shiftRes k (shiftMod sh k) (parseFiltered env m toks) := by
  by_cases hh : Headless env (filterTrivia env toks)
  · have hm := hm hh
    have hh' := (headless_shift env sh k h _).mpr hh
    simp only [parseFiltered]
    rw [filterTrivia_shift env sh k h, markerStart_headless env _ hh, markerStart_headless env _ hh',
      ← hm m _ hh', ← notBefore_shiftRes, ← h.parse, List.map_cons, h.marker]
    simp
  · rw [parseFiltered_shift_of_head env sh k h m toks hh, notBefore_shiftRes]

end PV.C09
