import PV.Lexer.SoftKw
/-
  C09, lexer part (b-c05): the start offset only translates byte positions.

    * `lexAll_shift`, `lexRaw_shift` : the lexer proper
    * `softKwGo_shift`               : the soft-keyword pass looks at token kinds only
    * `lex_shift`                    : `lex k src = shift k (lex 0 src)` (tokens and first error), up to the
                                       `u32` overflow check; `lex_shift_of_fit` is the overflow-free form

  Imports only PV.Lexer.*; `PV/C09/Thm.lean` (b-c0910) re-exports the theorems.
-/
namespace PV.C09
open PV.Lexer

/-- move the byte span of a token by `k` -/
def shiftTok (k : Nat) (t : Spanned) : Spanned := { t with bs := t.bs + k, be := t.be + k }

def shiftEnd (k : Nat) : LexEnd → LexEnd
  | .err kind c b => .err kind c (b + k)
  | e => e

/-- move every byte position of a lexer result by `k` (character indices are unaffected) -/
def shiftOut (k : Nat) (o : LexOut) : LexOut :=
  ⟨o.toks.map (shiftTok k), shiftEnd k o.fin, o.reachedB + k⟩

theorem absTok_shift (inp : List Nat) (cb bb k : Nat) (t : RelTok) :
    absTok inp cb (bb + k) t = shiftTok k (absTok inp cb bb t) := by
  simp [absTok, shiftTok]; omega

theorem lexAll_shift (cfg : Cfg) (fuel : Nat) (st : LexState) (inp : List Nat) (cb bb k : Nat) :
    lexAll cfg fuel st inp cb (bb + k) = shiftOut k (lexAll cfg fuel st inp cb bb) := by
  induction fuel generalizing st inp cb bb with
  | zero => simp [lexAll, shiftOut, shiftEnd]
  | succ fuel ih =>
    unfold lexAll
    cases hs : step cfg st inp with
    | error e => simp [shiftOut, shiftEnd]; omega
    | ok o =>
      simp only []
      have e : List.map (absTok inp cb (bb + k)) o.toks = (List.map (absTok inp cb bb) o.toks).map (shiftTok k) := by
        simp [absTok_shift]
      by_cases hd : o.done = true
      · simp only [hd, if_true, e, shiftOut, shiftEnd]
        congr 1; omega
      · have hd' : o.done = false := by simpa using hd
        have e2 : bb + k + utf8Len (inp.take o.consumed) = (bb + utf8Len (inp.take o.consumed)) + k := by omega
        simp only [hd', Bool.false_eq_true, if_false, e, e2, ih, shiftOut, List.map_append]


/-- the final check of `lexRawFuel` -/
def finish (o : LexOut) : Option LexOut :=
  if o.reachedB > u32Max then none
  else match o.fin with
    | .err .panic _ _ => none
    | _ => some o

theorem lexRawFuel_eq (cfg : Cfg) (fuel k : Nat) (src : List Nat) :
    lexRawFuel cfg fuel k src = finish (match src with
      | 0xFEFF :: rest => lexAll cfg fuel .init rest 1 (k + 3)
      | _ => lexAll cfg fuel .init src 0 k) := rfl

theorem finish_shift (k : Nat) (o : LexOut) :
    finish (shiftOut k o) = (finish o).bind (fun o => if o.reachedB + k > u32Max then none else some (shiftOut k o)) := by
  unfold finish
  by_cases h : o.reachedB > u32Max
  · have : (shiftOut k o).reachedB > u32Max := by simp [shiftOut]; omega
    simp [h, this]
  · simp only [h, if_false]
    cases hf : o.fin with
    | eof => simp [shiftOut, shiftEnd, hf]
    | outOfFuel => simp [shiftOut, shiftEnd, hf]
    | err kind c b =>
      cases kind <;> simp [shiftOut, shiftEnd, hf]

/-- C09, lexer part: lexing at start offset `k` is lexing at offset 0 with every byte position (token
    ranges, error offset) moved by `k`; the only other effect of `k` is the `u32` overflow check. -/
theorem lexRaw_shift (cfg : Cfg) (k : Nat) (src : List Nat) :
    lexRaw cfg k src =
      (lexRaw cfg 0 src).bind (fun o => if o.reachedB + k > u32Max then none else some (shiftOut k o)) := by
  unfold lexRaw
  rw [lexRawFuel_eq, lexRawFuel_eq]
  split
  · rename_i rest
    have := lexAll_shift cfg ((65279 :: rest).length + 1) .init rest 1 (0 + 3) k
    have e : k + 3 = 0 + 3 + k := by omega
    rw [e, this]; exact finish_shift k _
  · have := lexAll_shift cfg (src.length + 1) .init src 0 0 k
    have e : k = 0 + k := by omega
    rw [e, this]; simpa using finish_shift (0 + k) _

/-! ### the soft-keyword pass looks at tokens only -/

theorem matchCaseLook_shift (k : Nat) (ts : List Spanned) (n : Int) (f sc sl : Bool) :
    matchCaseLook (ts.map (shiftTok k)) n f sc sl = matchCaseLook ts n f sc sl := by
  induction ts generalizing n f sc sl with
  | nil => rfl
  | cons t ts ih =>
    simp only [List.map_cons]
    unfold matchCaseLook
    simp only [shiftTok]
    split <;> simp only [ih]
    all_goals (repeat' split) <;> simp only [ih]

theorem typeLoop_shift (k : Nat) (ts : List Spanned) (n : Int) :
    typeLoop (ts.map (shiftTok k)) n = typeLoop ts n := by
  induction ts generalizing n with
  | nil => rfl
  | cons t ts ih =>
    simp only [List.map_cons]
    unfold typeLoop
    simp only [shiftTok]
    split <;> simp only [ih]

theorem typeLook_shift (k : Nat) (ts : List Spanned) : typeLook (ts.map (shiftTok k)) = typeLook ts := by
  cases ts with
  | nil => rfl
  | cons t ts => simp only [List.map_cons, typeLook, shiftTok, typeLoop_shift]

theorem softTok_shift (k : Nat) (sol sos : Bool) (t : Spanned) (ts : List Spanned) :
    softTok sol sos (shiftTok k t) (ts.map (shiftTok k)) = softTok sol sos t ts := by
  unfold softTok
  simp only [shiftTok, matchCaseLook_shift, typeLook_shift]

theorem softKwGo_shift (k : Nat) (ts : List Spanned) (st : SoftSt) :
    softKwGo (ts.map (shiftTok k)) st = (softKwGo ts st).map (shiftTok k) := by
  induction ts generalizing st with
  | nil => rfl
  | cons t ts ih =>
    simp only [List.map_cons, softKwGo, softTok_shift, ih]
    rfl

/-- C09 `lex_shift`: `lex k src = shift k (lex 0 src)` — tokens (payloads unchanged, ranges moved by `k`),
    first error (same kind, offset moved by `k`); `none` (panic) exactly when `lex 0 src` panics or a
    position exceeds `u32::MAX`. -/
theorem lex_shift (cfg : Cfg) (mode : Mode) (k : Nat) (src : List Nat) :
    lex cfg mode k src =
      (lex cfg mode 0 src).bind (fun o => if o.reachedB + k > u32Max then none else some (shiftOut k o)) := by
  unfold lex
  rw [lexRaw_shift]
  cases lexRaw cfg 0 src with
  | none => rfl
  | some o =>
    simp only [Option.bind_some, Option.map_some]
    split
    · rfl
    · simp only [Option.map_some, shiftOut, softKw, softKwGo_shift]

/-- when nothing overflows: -/
theorem lex_shift_of_fit (cfg : Cfg) (mode : Mode) (k : Nat) (src : List Nat) (o : LexOut)
    (h0 : lex cfg mode 0 src = some o) (hfit : o.reachedB + k ≤ u32Max) :
    lex cfg mode k src = some (shiftOut k o) := by
  rw [lex_shift, h0]
  have : ¬ (o.reachedB + k > u32Max) := by omega
  simp [this]

def exParams : UParams := ⟨fun _ => false, fun _ => false, fun _ => false⟩
example : lex ⟨false, exParams⟩ .module 400 [120, 61, 49] =
    (lex ⟨false, exParams⟩ .module 0 [120, 61, 49]).map (shiftOut 400) := by decide

end PV.C09
