import PV.C09.RShiftBase
/-
  PV.C09.RShiftTree — the shift of a ranged expression (`shE k`, PV/C09/RShiftBase.lean) seen on the generic ranged tree
  `PV.C02.Tree` (kinds / slots / ranges of the Rust `{:?}` dump, the object `PV.C02.rangesOk` is evaluated on):
  `toTree_shE : (shE k e).toTree slot il = shiftTree k (e.toTree slot il)` — same kinds, slots and shape, every range
  moved by `k`.
-/
namespace PV.C09
open PV.Expr PV.C11 PV.C02

mutual
/-- move every range of a generic ranged tree by `k` -/
def shiftTree (k : Nat) : Tree → Tree
  | .node kd sl il rg cs => .node kd sl il (rg.map (shRg k)) (shiftTrees k cs)
def shiftTrees (k : Nat) : List Tree → List Tree
  | [] => []
  | t :: ts => shiftTree k t :: shiftTrees k ts
end

@[simp] theorem shiftTrees_nil (k : Nat) : shiftTrees k [] = [] := by rw [shiftTrees]
@[simp] theorem shiftTrees_cons (k : Nat) (t : Tree) (ts : List Tree) :
    shiftTrees k (t :: ts) = shiftTree k t :: shiftTrees k ts := by rw [shiftTrees]
@[simp] theorem shiftTrees_append (k : Nat) (a b : List Tree) : shiftTrees k (a ++ b) = shiftTrees k a ++ shiftTrees k b := by
  induction a with
  | nil => simp
  | cons x xs ih => simp [ih]
@[simp] theorem shiftTree_node (k : Nat) (kd sl : String) (il : Bool) (rg : Option Rg) (cs : List Tree) :
    shiftTree k (.node kd sl il rg cs) = .node kd sl il (rg.map (shRg k)) (shiftTrees k cs) := by rw [shiftTree]

@[simp] theorem kind_shE (k : Nat) (e : RExpr) : (shE k e).kind = e.kind := by
  cases e <;> simp [shE, RExpr.kind]

theorem argTree_shift (k : Nat) (slot : String) (a : Rg × Ident) :
    argTree slot (shRg k a.1, a.2) = shiftTree k (argTree slot a) := by simp [argTree]

mutual
theorem children_shE (k : Nat) : ∀ e : RExpr, (shE k e).children = shiftTrees k e.children
  | .name rg id => by simp [shE, RExpr.children]
  | .const rg c => by simp [shE, RExpr.children]
  | .boolOp rg op vs => by simp [shE, RExpr.children, toTrees_shL k "values" vs]
  | .namedExpr rg t v => by simp [shE, RExpr.children, children_shE k t, children_shE k v]
  | .binOp rg l op r => by simp [shE, RExpr.children, children_shE k l, children_shE k r]
  | .unaryOp rg op e => by simp [shE, RExpr.children, children_shE k e]
  | .lambda rg argsRg po ar va ko kw b => by
    simp [shE, RExpr.children, children_shE k b, paramTrees_shPs k "posonlyargs" po, paramTrees_shPs k "args" ar,
      paramTrees_shPs k "kwonlyargs" ko]
    cases va <;> cases kw <;> simp [argTree]
  | .ifExp rg t b o => by simp [shE, RExpr.children, children_shE k t, children_shE k b, children_shE k o]
  | .dict rg items => by simp [shE, RExpr.children, keyTrees_shIs k items, valueTrees_shIs k items]
  | .set rg es => by simp [shE, RExpr.children, toTrees_shL k "elts" es]
  | .listComp rg e gs => by simp [shE, RExpr.children, children_shE k e, compTrees_shCs k gs]
  | .setComp rg e gs => by simp [shE, RExpr.children, children_shE k e, compTrees_shCs k gs]
  | .dictComp rg ke v gs => by simp [shE, RExpr.children, children_shE k ke, children_shE k v, compTrees_shCs k gs]
  | .genExp rg e gs => by simp [shE, RExpr.children, children_shE k e, compTrees_shCs k gs]
  | .await rg e => by simp [shE, RExpr.children, children_shE k e]
  | .yield rg e => by simp [shE, RExpr.children, optTree_shO k "value" e]
  | .yieldFrom rg e => by simp [shE, RExpr.children, children_shE k e]
  | .compare rg l ops cs => by simp [shE, RExpr.children, children_shE k l, toTrees_shL k "comparators" cs]
  | .call rg f as ks => by simp [shE, RExpr.children, children_shE k f, toTrees_shL k "args" as, kwTrees_shKs k ks]
  | .formattedValue rg v c spec => by simp [shE, RExpr.children, children_shE k v, optTree_shO k "format_spec" spec]
  | .joinedStr rg vs => by simp [shE, RExpr.children, toTrees_shL k "values" vs]
  | .attribute rg e a => by simp [shE, RExpr.children, children_shE k e]
  | .subscript rg e s => by simp [shE, RExpr.children, children_shE k e, children_shE k s]
  | .starred rg e => by simp [shE, RExpr.children, children_shE k e]
  | .list rg es => by simp [shE, RExpr.children, toTrees_shL k "elts" es]
  | .tuple rg es => by simp [shE, RExpr.children, toTrees_shL k "elts" es]
  | .slice rg a b c => by
    simp [shE, RExpr.children, optTree_shO k "lower" a, optTree_shO k "upper" b, optTree_shO k "step" c]
theorem toTrees_shL (k : Nat) (slot : String) : ∀ l : List RExpr, toTrees slot (shL k l) = shiftTrees k (toTrees slot l)
  | [] => by simp [toTrees]
  | e :: es => by simp [toTrees, children_shE k e, toTrees_shL k slot es]
theorem optTree_shO (k : Nat) (slot : String) : ∀ o : Option RExpr, optTree slot (shO k o) = shiftTrees k (optTree slot o)
  | none => by simp [optTree]
  | some e => by simp [optTree, children_shE k e]
theorem compTrees_shCs (k : Nat) : ∀ l : List RComp, compTrees (shCs k l) = shiftTrees k (compTrees l)
  | [] => by simp [compTrees]
  | .mk rg t i ifs a :: gs => by
    simp [compTrees, children_shE k t, children_shE k i, toTrees_shL k "ifs" ifs, compTrees_shCs k gs]
theorem paramTrees_shPs (k : Nat) (slot : String) : ∀ l : List RParam,
    paramTrees slot (shPs k l) = shiftTrees k (paramTrees slot l)
  | [] => by simp [paramTrees]
  | .mk rg d n x :: ps => by simp [paramTrees, optTree_shO k "default" x, paramTrees_shPs k slot ps]
theorem kwTrees_shKs (k : Nat) : ∀ l : List RKeyword, kwTrees (shKs k l) = shiftTrees k (kwTrees l)
  | [] => by simp [kwTrees]
  | .mk rg a v :: ks => by simp [kwTrees, children_shE k v, kwTrees_shKs k ks]
theorem keyTrees_shIs (k : Nat) : ∀ l : List RDictItem, keyTrees (shIs k l) = shiftTrees k (keyTrees l)
  | [] => by simp [keyTrees]
  | .mk none v :: is => by simp [keyTrees, keyTrees_shIs k is]
  | .mk (some ke) v :: is => by simp [keyTrees, children_shE k ke, keyTrees_shIs k is]
theorem valueTrees_shIs (k : Nat) : ∀ l : List RDictItem, valueTrees (shIs k l) = shiftTrees k (valueTrees l)
  | [] => by simp [valueTrees]
  | .mk ke v :: is => by simp [valueTrees, children_shE k v, valueTrees_shIs k is]
end

/-- the generic ranged tree (`PV.C02.Tree`, what `rangesOk` is evaluated on) of the shifted expression is the shifted
    tree: same kinds, slots and shape, every range moved by `k` -/
theorem toTree_shE (k : Nat) (slot : String) (il : Bool) (e : RExpr) :
    (shE k e).toTree slot il = shiftTree k (e.toTree slot il) := by
  simp [RExpr.toTree, children_shE]

end PV.C09
