import PV.C09.RProgShiftBase
import PV.C09.RShiftTree
/-
  PV.C09.RProgShiftTree — the shift of a ranged program (`shiftRMod k`, `shS k`, … of PV/C09/RProgShiftBase.lean) seen on
  the generic ranged tree `PV.C02.Tree` (kinds / slots / ranges of the Rust `{:?}` dump, the object `PV.C02.rangesOk` is
  evaluated on): `toTree_shiftRMod : (shiftRMod k m).tree = shiftTree k m.tree` — same kinds, slots and shape, every
  range moved by `k`.
-/
set_option linter.unusedSimpArgs false
namespace PV.C09
open PV.Expr PV.C11 PV.C02 PV.Prog

theorem shiftTrees_eq_map (k : Nat) (l : List Tree) : shiftTrees k l = l.map (shiftTree k) := by
  induction l with
  | nil => simp
  | cons x xs ih => simp [ih]

theorem shiftTrees_map {α : Type} (k : Nat) (f g : α → Tree) (h : ∀ a, g a = shiftTree k (f a)) (l : List α) :
    l.map g = shiftTrees k (l.map f) := by
  rw [shiftTrees_eq_map, List.map_map]
  exact List.map_congr_left (fun a _ => h a)

theorem tree_shArg (k : Nat) (slot : String) (il : Bool) (a : RArg) :
    (shArg k a).tree slot il = shiftTree k (a.tree slot il) := by
  simp [RArg.tree, shArg, optTree_shO]

theorem tree_shArgD (k : Nat) (slot : String) (p : RArgD) : (shArgD k p).tree slot = shiftTree k (p.tree slot) := by
  simp [RArgD.tree, shArgD, tree_shArg, optTree_shO]

theorem argOptTree_shift (k : Nat) (slot : String) (o : Option RArg) :
    argOptTree slot (o.map (shArg k)) = shiftTrees k (argOptTree slot o) := by
  cases o <;> simp [argOptTree, tree_shArg]

theorem tree_shArguments (k : Nat) (a : RArguments) : (shArguments k a).tree = shiftTree k a.tree := by
  simp only [RArguments.tree, RArguments.children, shArguments, shArgItems, shiftTree_node, Option.map_some,
    shiftTrees_append, argOptTree_shift, List.map_map]
  congr 1
  simp only [shiftTrees_eq_map, List.map_map]
  congr 1
  · exact List.map_congr_left (fun p _ => tree_shArgD k _ p)
  congr 1
  · exact List.map_congr_left (fun p _ => tree_shArgD k _ p)
  congr 2
  exact List.map_congr_left (fun p _ => tree_shArgD k _ p)

theorem tree_shAlias (k : Nat) (a : RAlias) : (shAlias k a).tree = shiftTree k a.tree := by
  simp [RAlias.tree, shAlias]

theorem tree_shWithItem (k : Nat) (w : RWithItem) : (shWithItem k w).tree = shiftTree k w.tree := by
  simp [RWithItem.tree, shWithItem, toTree_shE, optTree_shO]

theorem tree_shTypeParam (k : Nat) (t : RTypeParam) : (shTypeParam k t).tree = shiftTree k t.tree := by
  cases t <;> simp [RTypeParam.tree, RTypeParam.children, RTypeParam.kind, RTypeParam.range, shTypeParam, optTree_shO]

@[simp] theorem kind_shPat (k : Nat) (p : RPattern) : (shPat k p).kind = p.kind := by
  cases p <;> simp [shPat, RPattern.kind]
@[simp] theorem kind_shS (k : Nat) (s : RStmt) : (shS k s).kind = s.kind := by
  cases s <;> simp [shS, RStmt.kind]

mutual
theorem children_shPat (k : Nat) : ∀ p : RPattern, (shPat k p).children = shiftTrees k p.children
  | .matchValue rg v => by simp [shPat, RPattern.children, children_shE]
  | .matchSingleton rg c => by simp [shPat, RPattern.children]
  | .matchSequence rg ps => by simp [shPat, RPattern.children, patTrees_shPats k "patterns" ps]
  | .matchMapping rg ks ps r => by simp [shPat, RPattern.children, patTrees_shPats k "patterns" ps, toTrees_shL]
  | .matchClass rg c ps ka kp => by
    simp [shPat, RPattern.children, patTrees_shPats k "patterns" ps, patTrees_shPats k "kwd_patterns" kp, children_shE]
  | .matchStar rg n => by simp [shPat, RPattern.children]
  | .matchAs rg p n => by simp [shPat, RPattern.children, patOptTree_shPatO k "pattern" p]
  | .matchOr rg ps => by simp [shPat, RPattern.children, patTrees_shPats k "patterns" ps]
theorem patTrees_shPats (k : Nat) (slot : String) : ∀ l : List RPattern,
    patTrees slot (shPats k l) = shiftTrees k (patTrees slot l)
  | [] => by simp [patTrees]
  | p :: ps => by simp [patTrees, children_shPat k p, patTrees_shPats k slot ps]
theorem patOptTree_shPatO (k : Nat) (slot : String) : ∀ o : Option RPattern,
    patOptTree slot (shPatO k o) = shiftTrees k (patOptTree slot o)
  | none => by simp [patOptTree]
  | some p => by simp [patOptTree, children_shPat k p]
end

theorem map_tree_typeParams (k : Nat) (tp : List RTypeParam) :
    tp.map (RTypeParam.tree ∘ shTypeParam k) = shiftTrees k (tp.map RTypeParam.tree) := by
  exact shiftTrees_map k RTypeParam.tree _ (fun a => tree_shTypeParam k a) tp

theorem map_tree_aliases (k : Nat) (ns : List RAlias) :
    ns.map (RAlias.tree ∘ shAlias k) = shiftTrees k (ns.map RAlias.tree) := by
  exact shiftTrees_map k RAlias.tree _ (fun a => tree_shAlias k a) ns

theorem map_tree_withItems (k : Nat) (ws : List RWithItem) :
    ws.map (RWithItem.tree ∘ shWithItem k) = shiftTrees k (ws.map RWithItem.tree) := by
  exact shiftTrees_map k RWithItem.tree _ (fun a => tree_shWithItem k a) ws

mutual
theorem children_shS (k : Nat) : ∀ s : RStmt, (shS k s).children = shiftTrees k s.children
  | .functionDef rg n a b d r tp => by
    simp [shS, RStmt.children, tree_shArguments, stmtTrees_shSs k "body" b, toTrees_shL, optTree_shO, map_tree_typeParams]
  | .asyncFunctionDef rg n a b d r tp => by
    simp [shS, RStmt.children, tree_shArguments, stmtTrees_shSs k "body" b, toTrees_shL, optTree_shO, map_tree_typeParams]
  | .classDef rg n bs ks b d tp => by
    simp [shS, RStmt.children, stmtTrees_shSs k "body" b, toTrees_shL, kwTrees_shKs, map_tree_typeParams]
  | .return rg v => by simp [shS, RStmt.children, optTree_shO]
  | .delete rg ts => by simp [shS, RStmt.children, toTrees_shL]
  | .assign rg ts v => by simp [shS, RStmt.children, toTrees_shL, children_shE]
  | .typeAlias rg n tp v => by simp [shS, RStmt.children, children_shE, map_tree_typeParams]
  | .augAssign rg t o v => by simp [shS, RStmt.children, children_shE]
  | .annAssign rg t a v s => by simp [shS, RStmt.children, children_shE, optTree_shO]
  | .for rg t i b o => by
    simp [shS, RStmt.children, children_shE, stmtTrees_shSs k "body" b, stmtTrees_shSs k "orelse" o]
  | .asyncFor rg t i b o => by
    simp [shS, RStmt.children, children_shE, stmtTrees_shSs k "body" b, stmtTrees_shSs k "orelse" o]
  | .while rg t b o => by simp [shS, RStmt.children, children_shE, stmtTrees_shSs k "body" b, stmtTrees_shSs k "orelse" o]
  | .if rg t b o => by simp [shS, RStmt.children, children_shE, stmtTrees_shSs k "body" b, stmtTrees_shSs k "orelse" o]
  | .with rg items b => by simp [shS, RStmt.children, stmtTrees_shSs k "body" b, map_tree_withItems]
  | .asyncWith rg items b => by simp [shS, RStmt.children, stmtTrees_shSs k "body" b, map_tree_withItems]
  | .match rg s cs => by simp [shS, RStmt.children, children_shE, caseTrees_shCases k cs]
  | .raise rg e c => by simp [shS, RStmt.children, optTree_shO]
  | .try rg b hs o f => by
    simp [shS, RStmt.children, stmtTrees_shSs k "body" b, stmtTrees_shSs k "orelse" o, stmtTrees_shSs k "finalbody" f,
      handlerTrees_shHs k hs]
  | .tryStar rg b hs o f => by
    simp [shS, RStmt.children, stmtTrees_shSs k "body" b, stmtTrees_shSs k "orelse" o, stmtTrees_shSs k "finalbody" f,
      handlerTrees_shHs k hs]
  | .assert rg t m => by simp [shS, RStmt.children, children_shE, optTree_shO]
  | .import rg ns => by simp [shS, RStmt.children, map_tree_aliases]
  | .importFrom rg m ns l => by simp [shS, RStmt.children, map_tree_aliases]
  | .global rg ns => by simp [shS, RStmt.children]
  | .nonlocal rg ns => by simp [shS, RStmt.children]
  | .expr rg e => by simp [shS, RStmt.children, children_shE]
  | .pass rg => by simp [shS, RStmt.children]
  | .break rg => by simp [shS, RStmt.children]
  | .continue rg => by simp [shS, RStmt.children]
theorem stmtTrees_shSs (k : Nat) (slot : String) : ∀ l : List RStmt,
    stmtTrees slot (shSs k l) = shiftTrees k (stmtTrees slot l)
  | [] => by simp [stmtTrees]
  | s :: ss => by simp [stmtTrees, children_shS k s, stmtTrees_shSs k slot ss]
theorem handlerTrees_shHs (k : Nat) : ∀ l : List RHandler, handlerTrees (shHs k l) = shiftTrees k (handlerTrees l)
  | [] => by simp [handlerTrees]
  | .mk rg ty nm b :: hs => by simp [handlerTrees, optTree_shO, stmtTrees_shSs k "body" b, handlerTrees_shHs k hs]
theorem caseTrees_shCases (k : Nat) : ∀ l : List RCase, caseTrees (shCases k l) = shiftTrees k (caseTrees l)
  | [] => by simp [caseTrees]
  | .mk rg p g b :: cs => by
    simp [caseTrees, children_shPat, optTree_shO, stmtTrees_shSs k "body" b, caseTrees_shCases k cs]
end

/-- the generic ranged tree of a shifted statement is the shifted tree -/
theorem toTree_shS (k : Nat) (slot : String) (il : Bool) (s : RStmt) :
    (shS k s).tree slot il = shiftTree k (s.tree slot il) := by
  simp [RStmt.tree, children_shS]

/-- **the generic ranged tree (`PV.C02.Tree`, what `rangesOk` is evaluated on) of the shifted parse result is the shifted
    tree**: same kinds, slots and shape, every range moved by `k` — nothing else changes -/
theorem toTree_shiftRMod (k : Nat) (m : RMod) : (shiftRMod k m).tree = shiftTree k m.tree := by
  cases m <;> simp [shiftRMod, RMod.tree, stmtTrees_shSs, toTree_shE]

end PV.C09
