import PV.C09.Model
/-
  C09 — reference definitions, written from the property text (not from the Rust control flow):

  * `Target`/`Agrees`: what each implementing type is *documented* to return, as a relation between
    the result `top` of the one parser (run in the target's mode on the same tokens) and the entry
    point's own result: module/expression/interactive node, module body, the single statement,
    the expression, the identifier of a `Name`, the value of a `Constant`, the payload of variant
    `i` of `Stmt`/`Expr` — "or report InvalidToken at the node start" when the variant is another one.
  * translation by a start offset on results (`shiftRes`, `shiftMod`, `shiftOut`), the hypotheses of the
    translation theorems (`ShiftEnv`, `HeadlessMarkerIrrelevant`, `StartsNotBefore`, `StmtNonEmpty`).
  * the mode names (`modeNameOk`).
-/
namespace PV.C09.Spec
open PV.C09

/-- an entry point named by what it is documented to return -/
inductive Target where
  | modModule | modExpression | modInteractive
  | suite        -- the statements of the module
  | stmt         -- the single statement of the module
  | expr         -- the expression
  | identifier   -- the identifier, if the expression is a name
  | constant     -- the value, if the expression is a constant
  | variant (en : Parent) (idx : Nat)   -- the payload of variant `idx` of `Stmt` / `Expr`
  deriving Repr

/-- statements are parsed as a module, expressions in expression mode -/
def Target.mode : Target → Mode
  | .modModule => .module
  | .modExpression => .expression
  | .modInteractive => .interactive
  | .suite => .module
  | .stmt => .module
  | .expr => .expression
  | .identifier => .expression
  | .constant => .expression
  | .variant .stmt _ => .module
  | .variant .expr _ => .expression

variable {σ : Sig}

/-- "returns the corresponding part of that same tree" -/
def Agrees (v : View σ) (t : Target) (top : Res (Mod σ)) (out : Res (Out σ)) : Prop :=
  (∀ k o, top = .err k o → out = .err k o) ∧
  match t with
  | .modModule => ∀ m, top = .ok (.module m) → out = .ok (.modModule m)
  | .modExpression => ∀ m, top = .ok (.expression m) → out = .ok (.modExpression m)
  | .modInteractive => ∀ m, top = .ok (.interactive m) → out = .ok (.modInteractive m)
  | .suite => ∀ m, top = .ok (.module m) → out = .ok (.suite m.body)
  | .stmt => ∀ m, top = .ok (.module m) →
      (∀ s, m.body = [s] → out = .ok (.stmt s)) ∧ (m.body.length ≠ 1 → out.isErr = true)
  | .expr => ∀ m, top = .ok (.expression m) → out = .ok (.expr m.body)
  | .identifier => ∀ m, top = .ok (.expression m) →
      (∀ i, v.nameId m.body = some i → out = .ok (.ident i)) ∧
      (v.nameId m.body = none → out = .err "InvalidToken" (v.exprStart m.body))
  | .constant => ∀ m, top = .ok (.expression m) →
      (∀ c, v.constValue m.body = some c → out = .ok (.const c)) ∧
      (v.constValue m.body = none → out = .err "InvalidToken" (v.exprStart m.body))
  | .variant .stmt i => ∀ m, top = .ok (.module m) →
      (∀ s, m.body = [s] →
        (v.stmtKind s = i → out = .ok (.payload (v.stmtPayload s))) ∧
        (v.stmtKind s ≠ i → out = .err "InvalidToken" (v.stmtStart s))) ∧
      (m.body.length ≠ 1 → out.isErr = true)
  | .variant .expr i => ∀ m, top = .ok (.expression m) →
      (v.exprKind m.body = i → out = .ok (.payload (v.exprPayload m.body))) ∧
      (v.exprKind m.body ≠ i → out = .err "InvalidToken" (v.exprStart m.body))

/-! ### translation by a start offset -/

/-- how the position-carrying types move -/
structure Shift (σ : Sig) where
  tok : Nat → σ.T → σ.T
  r : Nat → σ.R → σ.R
  s : Nat → σ.S → σ.S
  e : Nat → σ.E → σ.E
  p : Nat → σ.P → σ.P
  ti : Nat → σ.TI → σ.TI

/-- the view commutes with translation; identifiers and constant values carry no position -/
structure ShiftLaws (v : View σ) (sh : Shift σ) : Prop where
  stmtKind : ∀ k x, v.stmtKind (sh.s k x) = v.stmtKind x
  stmtStart : ∀ k x, v.stmtStart (sh.s k x) = v.stmtStart x + k
  stmtEnd : ∀ k x, v.stmtEnd (sh.s k x) = v.stmtEnd x + k
  stmtPayload : ∀ k x, v.stmtPayload (sh.s k x) = sh.p k (v.stmtPayload x)
  exprKind : ∀ k x, v.exprKind (sh.e k x) = v.exprKind x
  exprStart : ∀ k x, v.exprStart (sh.e k x) = v.exprStart x + k
  exprEnd : ∀ k x, v.exprEnd (sh.e k x) = v.exprEnd x + k
  exprPayload : ∀ k x, v.exprPayload (sh.e k x) = sh.p k (v.exprPayload x)
  nameId : ∀ k x, v.nameId (sh.e k x) = v.nameId x
  constValue : ∀ k x, v.constValue (sh.e k x) = v.constValue x

def shiftRes {α} (k : Nat) (f : α → α) : Res α → Res α
  | .ok a => .ok (f a)
  | .err kind o => .err kind (o + k)
  | .panic => .panic

def shiftMod (sh : Shift σ) (k : Nat) : Mod σ → Mod σ
  | .module m => .module ⟨sh.r k m.range, m.body.map (sh.s k), sh.ti k m.typeIgnores⟩
  | .interactive m => .interactive ⟨sh.r k m.range, m.body.map (sh.s k)⟩
  | .expression m => .expression ⟨sh.r k m.range, sh.e k m.body⟩
  | .other => .other

def shiftOut (sh : Shift σ) (k : Nat) : Out σ → Out σ
  | .mod m => .mod (shiftMod sh k m)
  | .modModule m => .modModule ⟨sh.r k m.range, m.body.map (sh.s k), sh.ti k m.typeIgnores⟩
  | .modExpression m => .modExpression ⟨sh.r k m.range, sh.e k m.body⟩
  | .modInteractive m => .modInteractive ⟨sh.r k m.range, m.body.map (sh.s k)⟩
  | .suite b => .suite (b.map (sh.s k))
  | .stmt s => .stmt (sh.s k s)
  | .expr e => .expr (sh.e k e)
  | .ident i => .ident i
  | .const c => .const c
  | .payload p => .payload (sh.p k p)

/-! ### which target each implementing type stands for -/

def _root_.PV.C09.Ty.target : Ty → Target
  | .modModule => .modModule
  | .modExpression => .modExpression
  | .modInteractive => .modInteractive
  | .suite => .suite
  | .stmt => .stmt
  | .expr => .expr
  | .identifier => .identifier
  | .constant => .constant
  | .typed p => .variant p.typeEnum p.typeIdx

/-- the hand-written implementations are fixed; a generated one must be a well-formed table row -/
def _root_.PV.C09.Ty.WF : Ty → Prop
  | .typed p => p.WF
  | _ => True

/-- implementations that go through `impl Parse for ast::Stmt` -/
def _root_.PV.C09.Ty.usesStmt : Ty → Bool
  | .stmt => true
  | .typed p => decide (p.parseVia = .stmt)
  | _ => false

/-- mode that `T::parse_tokens` hands to `parse_filtered_tokens` at the end of ITS delegation chain
    (for a well-formed table row the same as `Ty.lexMode` and `Ty.target.mode`) -/
def _root_.PV.C09.Ty.parseMode : Ty → Mode
  | .modModule => .module
  | .modExpression => .expression
  | .modInteractive => .interactive
  | .suite => .module
  | .stmt => .module
  | .expr => .expression
  | .identifier => .expression
  | .constant => .expression
  | .typed p => match p.parseVia with
    | .stmt => .module
    | .expr => .expression

/-- domain predicate of the translation theorem for `T::parse_tokens` (NOT needed for
    `T::parse_starts_at` any more): the tokens contain at least one statement.  Only asked of the
    implementations that go through `Stmt`, whose zero-statement error sits at `TextSize::default()`
    because `parse_tokens` is not told the start offset. -/
def StmtNonEmpty (env : Env σ) (ty : Ty) (toks : List σ.T) : Prop :=
  ty.usesStmt = true → ∀ m, parseFiltered env .module toks = .ok (.module m) → m.body ≠ []

/-- hypotheses under which translation can be discussed at all: the lexer threads the start offset
    additively (`PV.C09.lex_shift`, proved on the lexer model), the LALRPOP parser computes every
    position from the token ranges it is given, the marker moves like a token, trivia stay trivia,
    a token's start moves with the token (a lexical-error item has none) -/
structure ShiftEnv (env : Env σ) (sh : Shift σ) (k : Nat) : Prop where
  lex : ∀ m src, env.lexTop m k src = (env.lexTop m 0 src).map (sh.tok k)
  parse : ∀ m toks, env.parseTop m (toks.map (sh.tok k)) = shiftRes k (shiftMod sh k) (env.parseTop m toks)
  marker : ∀ m a b, sh.tok k (env.marker m a b) = env.marker m (a + k) (b + k)
  trivia : ∀ t, env.isTrivia (sh.tok k t) = env.isTrivia t
  tokStart : ∀ t, env.tokStart (sh.tok k t) = (env.tokStart t).map (· + k)

/-- a (filtered) stream from which `parse_filtered_tokens` cannot read a position for the start
    marker: it is empty or begins with a lexical error.  The marker then sits at `0..0`. -/
def Headless (env : Env σ) (toks : List σ.T) : Prop :=
  match toks with
  | [] => True
  | t :: _ => env.tokStart t = none

instance (env : Env σ) (toks : List σ.T) : Decidable (Headless env toks) := by
  unfold Headless; split <;> infer_instance

/-- What is still asked of the parser about the marker: in front of a stream that gives the marker no
    position, moving the marker from `0..0` to `k..k` changes at most an error offset below `k`
    (which `not_before` lifts to `k`).  True of the real parser without `all-nodes-with-ranges`
    (empty stream in expression mode: `Eof` at the marker's end; a leading lexical error is reported at
    its own location); with `all-nodes-with-ranges` the `Mod*` node of a token-less text has the
    marker's range `0..0`, which is the remaining listed finding. -/
def HeadlessMarkerIrrelevant (env : Env σ) (k : Nat) : Prop :=
  ∀ m toks, Headless env toks →
    notBefore k (env.parseTop m (env.marker m k k :: toks)) =
    notBefore k (env.parseTop m (env.marker m 0 0 :: toks))

/-- positions of the nodes that the typed parsers report `InvalidToken` at are not before the start
    offset (true of the real code: the lexer starts counting at `k`) -/
def StartsNotBefore (v : View σ) (k : Nat) (top : Res (Mod σ)) : Prop :=
  (∀ m, top = .ok (.expression m) → k ≤ v.exprStart m.body) ∧
  (∀ m s, top = .ok (.module m) → m.body = [s] → k ≤ v.stmtStart s)

/-! ### mode names

  `"exec"` is a statement sequence, `"eval"` one expression.  `"single"` is CPython's interactive
  grammar; the property only requires interactive and module mode to have the same body, so either
  statement-sequence mode is accepted for it.  Every other name is rejected. -/

def modeNameOk (name : List Nat) (r : Option Mode) : Bool :=
  if name = [101, 120, 101, 99] then r == some .module                       -- "exec"
  else if name = [101, 118, 97, 108] then r == some .expression              -- "eval"
  else if name = [115, 105, 110, 103, 108, 101] then
    r == some .module || r == some .interactive                              -- "single"
  else r == none

end PV.C09.Spec
