import PV.C09.Model
import PV.C09.Spec
import PV.C09.Lemmas
import PV.Gen.C09TypedParsers
import PV.Gen.C09ModeNames
import PV.C09.LexShift   -- lexer model: PV.C09.lex_shift, lex_shift_of_fit (the `ShiftEnv.lex` hypothesis below, proved there)
import PV.C09.Pipeline   -- text → answer on the models (lexer model, filter, token conversion, PV.Prog.parseProgram)
import PV.C09.RShift     -- the ranged expression parser PV.C02.parseR commutes with a shift of the span table
import PV.C09.RShiftTree -- … and what the shift is on the generic ranged tree PV.C02.Tree
import PV.C09.RProgShift -- the ranged PROGRAM parser PV.C02.parseRProgram commutes with a shift of the span table
import PV.C09.RProgShiftTree -- … and what that shift is on the generic ranged tree
import PV.Prog.Thm       -- PV.Prog.parseProgram_layout_free
/-
  C09 — property theorems: "start offsets only translate positions; all entry points agree".

  Everything is proved for an ARBITRARY LALRPOP parser `env.parseTop` and lexer `env.lexTop`
  (the two parameters of the model), so the statements are about how the public entry points of
  `parser/src/parser.rs` and `parser/src/gen/parse.rs` are wired to them — which is what the property
  is about.  The lexer-level statement `lex k src = shift k (lex 0 src)` is `PV.C09.lex_shift`
  (lean/PV/C09/LexShift.lean, owned by the lexer model); here it appears as hypothesis `ShiftEnv.lex`.

  The model is the code AFTER the three repairs 9f7255d (`not_before`), e8203b1 (start marker at the
  first token), 582d03b (trivia filter inside `parse_filtered_tokens`).

  END TO END ON THE MODELS (last section, after the sections about the wiring): with the lexer model `PV.Lexer.lex`, the
  reference parser for programs `PV.Prog.parseProgram` and the ranged expression parser `PV.C02.parseR` in place of the
  parameters — `lex_parse_shift_model` (the range-erased answer at start offset `k` is the answer at 0, a lexical error
  offset moved by `k`), `parseR_shift` / `lex_parseR_shift_model` (the RANGED tree of an expression lexed at offset `k` is
  the ranged tree at 0 with every range moved by `k`: the first sentence of the property, for the expression fragment),
  and `parseRProgram_shift` / `lex_parseRProgram_shift_model` (section 5: the same for WHOLE PROGRAMS in every mode, on the
  ranged program parser `PV.C02.parseRProgram`: every range of every statement, pattern, parameter, … and of the `Mod*`
  node moves by `k`, a lexical error's offset moves by `k`; the token-less text, whose `Mod*` node stays at `0..0`, is
  proved to be the one exception: `parseRProgram_shift_fails`, `lex_parseRProgram_tokenless_model`).
-/
namespace PV.C09
open Spec
variable {σ : Sig}

/-! ## 1. All entry points are views of one parser -/

/-- Every `Parse::parse_tokens` returns the documented part of the tree that the one parser builds
    for the same tokens in the target's mode — for ANY parser, any build configuration, any tokens
    (comments included: `parse_filtered_tokens` is the free `parse_tokens`) and any well-formed table row. -/
theorem entry_points_agree (env : Env σ) (ty : Ty) (hwf : ty.WF) (toks : List σ.T) :
    Agrees env.view ty.target (freeParseTokens env ty.target.mode toks) (ty.parseTokens env toks) := by
  unfold freeParseTokens
  rw [parseTokens_eq_ofTop, parseMode_eq_target_mode ty hwf]
  exact ofTop_agrees env ty hwf _

/-- The regenerated table of `parser/src/gen/parse.rs`: every generated parser unwraps exactly the
    variant that carries its own type, through that variant's enum, and reports `InvalidToken` at the
    node start otherwise.  Re-proved on every run against the freshly translated table. -/
theorem typed_parsers_wf : ∀ p ∈ Gen.typedParsers, p.WF := by decide

/-- … and the table has one parser for every variant of `Stmt` and of `Expr`, in definition order. -/
theorem typed_parsers_cover :
    Gen.typedParsers.map (fun p => (p.typeEnum, p.typeIdx)) =
      (List.range Gen.stmtVariantCount).map (fun i => (Parent.stmt, i)) ++
      (List.range Gen.exprVariantCount).map (fun i => (Parent.expr, i)) := by decide

/-- hence each of the 55 generated parsers returns the payload of "its" variant of the one tree -/
theorem generated_parsers_agree (env : Env σ) (p : TypedParser) (hp : p ∈ Gen.typedParsers) (toks : List σ.T) :
    Agrees env.view (.variant p.typeEnum p.typeIdx)
      (freeParseTokens env (Target.mode (.variant p.typeEnum p.typeIdx)) toks)
      ((Ty.typed p).parseTokens env toks) :=
  entry_points_agree env (.typed p) (typed_parsers_wf p hp) toks

/-- `T::parse_starts_at` is the same view of the free function `parse_starts_at` run in the target's
    mode at the same offset.  Both clamp their error offset with `not_before`; the hypothesis says that
    the node a typed parser reports `InvalidToken` at does not start before the start offset (so that
    the clamp leaves "at the node start" alone) — true whenever the lexer counts from `k`. -/
theorem typed_views_of_free_parse (env : Env σ) (ty : Ty) (hwf : ty.WF) (src : σ.Src) (k : Nat)
    (hs : StartsNotBefore env.view k (freeParseTokens env ty.target.mode (env.lexTop ty.target.mode k src))) :
    Agrees env.view ty.target (freeParseStartsAt env ty.target.mode src k) (ty.parseStartsAt env src k) := by
  unfold freeParseStartsAt Ty.parseStartsAt Ty.lexStartsAt
  rw [lexMode_eq_target_mode ty hwf]
  exact agrees_notBefore _ _ _ _ _ (entry_points_agree env ty hwf _) hs

/-- … and unconditionally for `T::parse` / `T::parse_without_path` against `parse` (offset 0) -/
theorem typed_parse_views_of_free_parse (env : Env σ) (ty : Ty) (hwf : ty.WF) (src : σ.Src) :
    Agrees env.view ty.target (freeParse env ty.target.mode src) (ty.parse env src) :=
  typed_views_of_free_parse env ty hwf src 0 ⟨fun _ _ => Nat.zero_le _, fun _ _ _ _ => Nat.zero_le _⟩

/-- deprecated `parse_program` is the module body of `parse(.., Mode::Module, ..)` -/
theorem parseProgram_agrees (env : Env σ) (src : σ.Src) :
    Agrees env.view .suite (freeParse env .module src) (parseProgram env src) := by
  unfold parseProgram Agrees
  generalize freeParse env .module src = top
  rcases top with (m | ⟨k, o⟩ | _)
  · cases m <;> simp
  · simp
  · simp

/-- deprecated `parse_expression(_starts_at)` are `Expr::parse(_starts_at)` -/
theorem parseExpression_eq (env : Env σ) (src : σ.Src) (k : Nat) :
    parseExpression env src = Ty.expr.parse env src ∧
    parseExpressionStartsAt env src k = Ty.expr.parseStartsAt env src k := ⟨rfl, rfl⟩

/-! ### parsing a pre-lexed token stream equals parsing the text

  `parse_tokens` is not told the start offset, `parse_starts_at` is and lifts an error offset below it
  (`not_before`).  So the two are equal up to that clamp, and exactly equal at offset 0 or whenever
  the error offset of `parse_tokens` is not below `k` (the only way it can be: no token gave the
  marker a position, or `Stmt` found no statement).  No condition on `full-lexer` or on comments. -/

/-- the free `parse_tokens` applied to the output of the free lexer vs. `parse_starts_at` / `parse` -/
theorem free_parse_tokens_of_lex (env : Env σ) (m : Mode) (src : σ.Src) (k : Nat) :
    freeParseStartsAt env m src k = notBefore k (freeParseTokens env m (env.lexTop m k src)) ∧
    ((∀ kind o, freeParseTokens env m (env.lexTop m k src) = .err kind o → k ≤ o) →
      freeParseTokens env m (env.lexTop m k src) = freeParseStartsAt env m src k) ∧
    freeParseTokens env m (env.lexTop m 0 src) = freeParse env m src :=
  ⟨rfl, fun h => (notBefore_id k _ h).symm, (notBefore_zero _).symm⟩

/-- the trait method `T::parse_tokens` fed with `T::lex_starts_at` vs. `T::parse_starts_at` / `T::parse`,
    in every build configuration (replaces the refuted `parse_tokens_of_lex_full` of the unrepaired code) -/
theorem parse_tokens_of_lex (env : Env σ) (ty : Ty) (src : σ.Src) (k : Nat) :
    ty.parseStartsAt env src k = notBefore k (ty.parseTokens env (ty.lexStartsAt env src k)) ∧
    ((∀ kind o, ty.parseTokens env (ty.lexStartsAt env src k) = .err kind o → k ≤ o) →
      ty.parseTokens env (ty.lexStartsAt env src k) = ty.parseStartsAt env src k) ∧
    ty.parseTokens env (ty.lexStartsAt env src 0) = ty.parse env src :=
  ⟨rfl, fun h => (notBefore_id k _ h).symm, (notBefore_zero _).symm⟩

/-- whether the caller has already dropped the comment / non-logical-newline tokens makes no difference
    to any `parse_tokens` (582d03b: the filter lives in `parse_filtered_tokens`) -/
theorem parse_tokens_filter_invariant (env : Env σ) (ty : Ty) (m : Mode) (toks : List σ.T) :
    ty.parseTokens env (filterTrivia env toks) = ty.parseTokens env toks ∧
    freeParseTokens env m (filterTrivia env toks) = freeParseTokens env m toks := by
  refine ⟨?_, parseFiltered_filter env m toks⟩
  rw [parseTokens_eq_ofTop, parseTokens_eq_ofTop, parseFiltered_filter]

/-- witness environment with `full-lexer`: tokens are booleans (`true` = a comment, position 7),
    the lexer yields a comment then a token, the parser rejects comments -/
def triviaWitness : Env ⟨Unit, Bool, Nat, Unit, Unit, Unit, Unit, Unit, Unit⟩ where
  fullLexer := true
  isTrivia := id
  tokStart := fun t => some (if t then 7 else 9)
  marker := fun _ _ _ => false
  lexTop := fun _ _ _ => [true, false]
  parseTop := fun _ toks => if toks.any id then .err "UnrecognizedToken" 0 else .ok (.module ⟨toks.length, [], ()⟩)
  view := ⟨fun _ => 0, fun _ => 0, fun _ => 0, id, fun _ => 0, fun _ => 0, fun _ => 0, id, fun _ => none, fun _ => none⟩

/-- non-vacuity: the former counterexample (`ModModule::parse_tokens` on a stream with a comment, with
    `full-lexer`) is now accepted, with marker + one token reaching the parser -/
example : (Ty.modModule.parseTokens triviaWitness (Ty.modModule.lexStartsAt triviaWitness () 3) : Res (Out _)) =
    .ok (.modModule ⟨2, [], ()⟩) ∧
    Ty.modModule.parseStartsAt triviaWitness () 3 = .ok (.modModule ⟨2, [], ()⟩) := ⟨rfl, rfl⟩

/-! ## 2. Start offsets only translate positions -/

/-- `parse_filtered_tokens` (= the free `parse_tokens`) commutes with translation of the token stream
    whenever the first (non-trivia) item has a position — with NO assumption on what the parser does
    with the marker: the marker follows the first token (e8203b1). -/
theorem parseFiltered_shift (env : Env σ) (sh : Shift σ) (k : Nat) (h : ShiftEnv env sh k)
    (m : Mode) (toks : List σ.T) (hh : ¬ Headless env (filterTrivia env toks)) :
    freeParseTokens env m (toks.map (sh.tok k)) = shiftRes k (shiftMod sh k) (freeParseTokens env m toks) :=
  parseFiltered_shift_of_head env sh k h m toks hh

theorem usesStmt_parseMode (ty : Ty) (h : ty.usesStmt = true) : ty.parseMode = .module := by
  cases ty with
  | typed p =>
    rcases p with ⟨te, ti, lv, pv, me, mi, eit, eo⟩
    cases pv <;> simp [Ty.usesStmt] at h ⊢ <;> rfl
  | stmt => rfl
  | _ => simp [Ty.usesStmt] at h

/-- `T::parse_tokens` on a translated stream.  `parse_tokens` has no offset argument, so two things
    cannot follow the tokens: the marker in front of a stream without a positioned first item
    (hypothesis `hh`) and the `Eof` that `Stmt` reports at `TextSize::default()` for zero statements
    (hypothesis `StmtNonEmpty`).  Both are genuinely needed here; neither is needed for
    `parse_starts_at` (`entry_shift_partial`). -/
theorem parseTokens_shift_partial (env : Env σ) (sh : Shift σ) (k : Nat) (h : ShiftEnv env sh k)
    (laws : ShiftLaws env.view sh) (ty : Ty) (hwf : ty.WF) (toks : List σ.T)
    (hh : ¬ Headless env (filterTrivia env toks)) (hne : StmtNonEmpty env ty toks) :
    ty.parseTokens env (toks.map (sh.tok k)) = shiftRes k (Spec.shiftOut sh k) (ty.parseTokens env toks) := by
  rw [parseTokens_eq_ofTop, parseTokens_eq_ofTop, parseFiltered_shift_of_head env sh k h _ toks hh]
  apply ofTop_shift_exact env sh k laws ty hwf
  intro hu m hm
  rw [usesStmt_parseMode ty hu] at hm
  exact hne hu m hm

/-- … and after the clamp of `parse_starts_at` on every stream -/
theorem parseTokens_shift_clamped (env : Env σ) (sh : Shift σ) (k : Nat) (h : ShiftEnv env sh k)
    (laws : ShiftLaws env.view sh) (ty : Ty) (hwf : ty.WF) (toks : List σ.T)
    (hm : Headless env (filterTrivia env toks) → HeadlessMarkerIrrelevant env k) :
    notBefore k (ty.parseTokens env (toks.map (sh.tok k))) =
      shiftRes k (Spec.shiftOut sh k) (ty.parseTokens env toks) := by
  rw [parseTokens_eq_ofTop, parseTokens_eq_ofTop]
  have c := parseFiltered_shift_clamped env sh k h ty.parseMode toks hm
  rw [← notBefore_shiftRes] at c
  rw [ofTop_clamp_congr env ty k _ _ c]
  exact ofTop_shift env sh k laws ty hwf _

/-- The full statement: whenever lexer and LALRPOP parser are translation-equivariant, so is every
    `T::parse_starts_at`. -/
def entry_shift_full : Prop :=
  ∀ (σ : Sig) (env : Env σ) (sh : Shift σ) (k : Nat), ShiftEnv env sh k → ShiftLaws env.view sh →
    ∀ (ty : Ty), ty.WF → ∀ (src : σ.Src),
      ty.parseStartsAt env src k = shiftRes k (Spec.shiftOut sh k) (ty.parseStartsAt env src 0)

/-- Translation invariance of every `T::parse_starts_at` — for every text, with or without statements,
    tokens, comments.  The only thing still asked about the marker: IF the text has no positioned
    first token (token-less text, or a lexical error right at its start), the marker's position may
    change at most an error offset below `k` (`HeadlessMarkerIrrelevant`). -/
theorem entry_shift_partial (env : Env σ) (sh : Shift σ) (k : Nat) (h : ShiftEnv env sh k)
    (laws : ShiftLaws env.view sh) (ty : Ty) (hwf : ty.WF) (src : σ.Src)
    (hm : Headless env (filterTrivia env (ty.lexStartsAt env src 0)) → HeadlessMarkerIrrelevant env k) :
    ty.parseStartsAt env src k = shiftRes k (Spec.shiftOut sh k) (ty.parseStartsAt env src 0) := by
  unfold Ty.parseStartsAt
  have : ty.lexStartsAt env src k = (ty.lexStartsAt env src 0).map (sh.tok k) := h.lex _ _
  rw [this, notBefore_zero]
  exact parseTokens_shift_clamped env sh k h laws ty hwf _ hm

/-- corollary: a text whose first (non-trivia) token has a position translates with NO assumption on the
    marker at all -/
theorem entry_shift_of_first_token (env : Env σ) (sh : Shift σ) (k : Nat) (h : ShiftEnv env sh k)
    (laws : ShiftLaws env.view sh) (ty : Ty) (hwf : ty.WF) (src : σ.Src)
    (hh : ¬ Headless env (filterTrivia env (ty.lexStartsAt env src 0))) :
    ty.parseStartsAt env src k = shiftRes k (Spec.shiftOut sh k) (ty.parseStartsAt env src 0) :=
  entry_shift_partial env sh k h laws ty hwf src (fun hd => absurd hd hh)

/-- the same for the free function `parse_starts_at` -/
theorem free_shift_partial (env : Env σ) (sh : Shift σ) (k : Nat) (h : ShiftEnv env sh k)
    (m : Mode) (src : σ.Src)
    (hm : Headless env (filterTrivia env (env.lexTop m 0 src)) → HeadlessMarkerIrrelevant env k) :
    freeParseStartsAt env m src k = shiftRes k (shiftMod sh k) (freeParseStartsAt env m src 0) := by
  unfold freeParseStartsAt freeParseTokens
  rw [h.lex, notBefore_zero]
  exact parseFiltered_shift_clamped env sh k h m _ hm

theorem free_shift_of_first_token (env : Env σ) (sh : Shift σ) (k : Nat) (h : ShiftEnv env sh k)
    (m : Mode) (src : σ.Src) (hh : ¬ Headless env (filterTrivia env (env.lexTop m 0 src))) :
    freeParseStartsAt env m src k = shiftRes k (shiftMod sh k) (freeParseStartsAt env m src 0) :=
  free_shift_partial env sh k h m src (fun hd => absurd hd hh)

/-! ### toy instances: non-vacuity, the repaired witnesses, and the one place left -/

/-- toy instance: a token is its range; source `false` is blank (no tokens), `true` is one token `0..1`;
    the parser builds a module whose range runs from the first symbol (the marker) to the end of the
    first token and reports an end-of-input error at the end of the last symbol it has seen. -/
abbrev toySig : Sig := ⟨Bool, Nat × Nat, Nat × Nat, Nat, Nat, Unit, Unit, Nat, Unit⟩

def toyEnv (blankIsModule : Bool) : Env toySig where
  fullLexer := false
  isTrivia := fun _ => false
  tokStart := fun t => some t.1
  marker := fun _ a b => (a, b)
  lexTop := fun _ k src => if src then [(k, k + 1)] else []
  parseTop := fun _ toks =>
    match toks with
    | [] => .panic
    | [mk] => if blankIsModule then .ok (.module ⟨(mk.1, mk.2), [], ()⟩) else .err "Eof" mk.2
    | mk :: t :: _ => .ok (.module ⟨(mk.1, t.2), [], ()⟩)
  view := ⟨fun _ => 0, id, id, id, fun _ => 0, id, id, id, fun _ => none, fun _ => none⟩

/-- variant of `toyEnv` whose module carries no range at all (default features) -/
def toyEnvNoRange : Env ⟨Bool, Nat × Nat, Unit, Nat, Nat, Unit, Unit, Nat, Unit⟩ where
  fullLexer := false
  isTrivia := fun _ => false
  tokStart := fun t => some t.1
  marker := fun _ a b => (a, b)
  lexTop := fun _ k src => if src then [(k, k + 1)] else []
  parseTop := fun _ toks =>
    match toks with
    | [] => .panic
    | _ :: rest => .ok (.module ⟨(), rest.map (·.1), ()⟩)
  view := ⟨fun _ => 0, id, id, id, fun _ => 0, id, id, id, fun _ => none, fun _ => none⟩

def toyShift : Shift toySig :=
  ⟨fun k t => (t.1 + k, t.2 + k), fun k r => (r.1 + k, r.2 + k), fun k s => s + k, fun k e => e + k,
   fun k p => p + k, fun _ t => t⟩

def toyShiftNoRange : Shift ⟨Bool, Nat × Nat, Unit, Nat, Nat, Unit, Unit, Nat, Unit⟩ :=
  ⟨fun k t => (t.1 + k, t.2 + k), fun _ r => r, fun k s => s + k, fun k e => e + k,
   fun k p => p + k, fun _ t => t⟩

theorem toyNoRange_shiftEnv (k : Nat) : ShiftEnv toyEnvNoRange toyShiftNoRange k where
  lex := by intro m src; cases src <;> simp [toyEnvNoRange, toyShiftNoRange, Nat.add_comm]
  parse := by
    intro m toks
    rcases toks with _ | ⟨a, rest⟩ <;>
      simp [toyEnvNoRange, toyShiftNoRange, shiftRes, shiftMod, Function.comp_def]
  marker := by intro m a b; rfl
  trivia := by intro t; rfl
  tokStart := by intro t; rfl

theorem toyNoRange_laws : ShiftLaws toyEnvNoRange.view toyShiftNoRange := by
  constructor <;> intros <;> rfl

theorem toyNoRange_markerIrrelevant (k : Nat) : HeadlessMarkerIrrelevant toyEnvNoRange k := by
  intro m toks _; rfl

theorem toy_shiftEnv (b : Bool) (k : Nat) : ShiftEnv (toyEnv b) toyShift k where
  lex := by intro m src; cases src <;> simp [toyEnv, toyShift, Nat.add_comm]
  parse := by
    intro m toks
    rcases toks with _ | ⟨a, _ | ⟨t, rest⟩⟩
    · simp [toyEnv, shiftRes]
    · cases b <;> simp [toyEnv, toyShift, shiftRes, shiftMod]
    · simp [toyEnv, toyShift, shiftRes, shiftMod]
  marker := by intro m a b; rfl
  trivia := by intro t; rfl
  tokStart := by intro t; rfl

theorem toy_laws (b : Bool) : ShiftLaws (toyEnv b).view toyShift := by
  constructor <;> intros <;> rfl

/-- the parser that reports end of input at the marker's end satisfies the remaining marker hypothesis
    (this is what `not_before` is for) -/
theorem toy_markerIrrelevant (k : Nat) : HeadlessMarkerIrrelevant (toyEnv false) k := by
  intro m toks hd
  cases toks with
  | nil => simp [toyEnv, notBefore]
  | cons t rest => simp [Headless, toyEnv] at hd

/-- non-vacuity of `entry_shift_partial` and the former `Stmt` finding, repaired: on an instance with a
    perfectly translating lexer and parser, `Stmt::parse_starts_at` of a BLANK text (all hypotheses hold,
    the stream is head-less) reports `Eof` at the start offset, and a text with one statement moves. -/
example : (Ty.stmt.parseStartsAt toyEnvNoRange false 5 : Res (Out _)) = .err "Eof" 5 ∧
    (Ty.stmt.parseStartsAt toyEnvNoRange false 0 : Res (Out _)) = .err "Eof" 0 ∧
    (Ty.stmt.parseStartsAt toyEnvNoRange true 5 : Res (Out _)) = .ok (.stmt 5) ∧
    (Ty.stmt.parseStartsAt toyEnvNoRange true 0 : Res (Out _)) = .ok (.stmt 0) ∧
    Headless toyEnvNoRange (filterTrivia toyEnvNoRange (Ty.stmt.lexStartsAt toyEnvNoRange false 0)) ∧
    ¬ Headless toyEnvNoRange (filterTrivia toyEnvNoRange (Ty.stmt.lexStartsAt toyEnvNoRange true 0)) := by
  refine ⟨rfl, rfl, rfl, rfl, ?_, ?_⟩ <;> decide

/-- the former marker findings, repaired: the module range of a one-token text starts at `k` (the marker
    sits at the first token), and a token-less text in a mode that rejects it reports `Eof` at `k` -/
example :
    freeParseStartsAt (toyEnv true) .module true 5 = .ok (.module ⟨(5, 6), [], ()⟩) ∧
    shiftRes 5 (shiftMod toyShift 5) (freeParseStartsAt (toyEnv true) .module true 0) = .ok (.module ⟨(5, 6), [], ()⟩) ∧
    freeParseStartsAt (toyEnv false) .expression false 5 = .err "Eof" 5 ∧
    shiftRes 5 (shiftMod toyShift 5) (freeParseStartsAt (toyEnv false) .expression false 0) = .err "Eof" 5 :=
  ⟨rfl, rfl, rfl, rfl⟩

/-- non-vacuity of `parseTokens_shift_partial`: positioned head, one statement -/
example : ¬ Headless toyEnvNoRange (filterTrivia toyEnvNoRange [(0, 1)]) ∧
    StmtNonEmpty toyEnvNoRange .stmt [(0, 1)] ∧
    (Ty.stmt.parseTokens toyEnvNoRange ([(0, 1)].map (toyShiftNoRange.tok 5)) : Res (Out _)) = .ok (.stmt 5) := by
  refine ⟨by decide, ?_, rfl⟩
  intro _ m hm
  simp [parseFiltered, filterTrivia, markerStart, toyEnvNoRange] at hm
  subst hm
  simp

/-- … and why it needs `StmtNonEmpty`: `Stmt::parse_tokens` is not told the offset; for a module
    without statements it answers `Eof` at 0 whatever offset the caller lexed at -/
example : (Ty.stmt.parseTokens toyEnvNoRange [] : Res (Out _)) = .err "Eof" 0 := rfl

/-- **Remaining finding (token-less text, `all-nodes-with-ranges`)**: `entry_shift_full` — without the
    marker hypothesis — is still false.  For a text without tokens the marker has no token to follow and
    sits at `0..0`; a parser that puts the marker's range into the `Mod` node (the real one does with
    `all-nodes-with-ranges`) then returns the range `0..0` at every start offset, and `not_before` only
    repairs errors.  Code: `parse_starts_at("", Mode::Module, _, 100)` gives `Module { range: 0..0, .. }`. -/
theorem entry_shift_fails : ¬ entry_shift_full := by
  intro h
  have := h _ (toyEnv true) toyShift 5 (toy_shiftEnv true 5) (toy_laws true) .modModule trivial false
  simp [Ty.parseStartsAt, Ty.lexStartsAt, Ty.parseTokens, modModuleTokens, parseFiltered, markerStart,
    filterTrivia, notBefore, toyEnv, toyShift, Res.map, Res.bind, shiftRes, Spec.shiftOut] at this

/-- … and this is exactly the hypothesis of `entry_shift_partial` failing on that instance -/
example : ¬ HeadlessMarkerIrrelevant (toyEnv true) 5 := by
  intro h
  have := h .module [] trivial
  simp [toyEnv, notBefore] at this

/-! ## 3. Mode names -/

/-- `Mode::from_str`, evaluated by the real code on the candidate names of `tools/props/c09.py` on every
    run, agrees with the reference reading of the names (on those candidates — the domain of all
    strings is not finite; this is a table check, not a universal statement). -/
theorem mode_names : ∀ row ∈ Gen.modeTable, modeNameOk row.1 row.2 = true := by decide

/-! ## non-vacuity of section 1 -/

/-- a generated row, a one-statement module of the matching kind: the hypotheses of
    `generated_parsers_agree` hold and its conclusion pins the result down -/
example : (⟨.stmt, 24, .stmt, .stmt, .stmt, 24, true, .nodeStart⟩ : TypedParser) ∈ Gen.typedParsers := by decide

example : ((Ty.typed ⟨.stmt, 0, .stmt, .stmt, .stmt, 0, true, .nodeStart⟩).parseTokens toyEnvNoRange [(3, 4)]
    : Res (Out _)) = .ok (.payload 3) := rfl

example : ((Ty.typed ⟨.stmt, 1, .stmt, .stmt, .stmt, 1, true, .nodeStart⟩).parseTokens toyEnvNoRange [(3, 4)]
    : Res (Out _)) = .err "InvalidToken" 3 := rfl

/-- non-vacuity of `typed_views_of_free_parse`: `StartsNotBefore` holds for the toy lexer started at 5
    (the single statement starts at 5) -/
example : StartsNotBefore toyEnvNoRange.view 5
    (freeParseTokens toyEnvNoRange .module (toyEnvNoRange.lexTop .module 5 true)) := by
  refine ⟨fun m hm => ?_, fun m s hm hb => ?_⟩
  · simp [freeParseTokens, parseFiltered, filterTrivia, markerStart, toyEnvNoRange] at hm
  · simp [freeParseTokens, parseFiltered, filterTrivia, markerStart, toyEnvNoRange] at hm
    subst hm
    simp at hb
    subst hb
    simp [toyEnvNoRange]

end PV.C09

/-! ## 4. Start offsets only translate positions — end to end on the models

  Sections 1–3 hold for an ARBITRARY lexer and parser.  Here the lexer is the lexer model `PV.Lexer.lex` (for which
  `lex_shift` is a theorem), the parser is the reference parser for whole programs `PV.Prog.parseProgram` (range-erased
  trees: `PV.Prog.parseProgram_layout_free`) resp. the ranged expression parser `PV.C02.parseR` (`parseR_shift`,
  lean/PV/C09/RShift.lean).  The token conversion between the models' alphabets is a parameter that cannot see positions,
  as in `PV.C08.layout_tree_invariant`. -/

namespace PV.C09
open PV.Lexer PV.Pipeline

/-- move the one position a range-erased answer carries — the offset of a lexical error — by `k` -/
def shiftAnswer (k : Nat) : Answer → Answer
  | .lexError kind off => .lexError kind (off + k)
  | a => a

/-- move the span of a parser token by `k` -/
def shiftSTok (k : Nat) (t : PV.Prog.STok) : PV.Prog.STok := ⟨t.tok, t.start + k, t.stop + k⟩

theorem pipe_filterTrivia_shift (k : Nat) (toks : List Spanned) :
    Pipeline.filterTrivia (toks.map (shiftTok k)) = (Pipeline.filterTrivia toks).map (shiftTok k) := by
  simp [Pipeline.filterTrivia, List.filter_map, shiftTok, Function.comp_def]

theorem convAll_shift (conv : Conv) (k : Nat) : ∀ toks : List Spanned,
    convAll conv (toks.map (shiftTok k)) = (convAll conv toks).map (·.map (shiftSTok k))
  | [] => rfl
  | t :: ts => by
    simp only [List.map_cons, convAll, convAll_shift conv k ts]
    have e : (shiftTok k t).tok = t.tok := rfl
    rw [e]
    cases h1 : conv t.tok <;> cases h2 : convAll conv ts <;> simp [shiftTok, shiftSTok]

theorem eraseSpans_shift (k : Nat) (ts : List PV.Prog.STok) :
    PV.Prog.eraseSpans (ts.map (shiftSTok k)) = PV.Prog.eraseSpans ts := by
  simp [PV.Prog.eraseSpans, shiftSTok, Function.comp_def]

theorem parserInput_shift (conv : Conv) (k : Nat) (toks : List Spanned) :
    parserInput conv (toks.map (shiftTok k)) = (parserInput conv toks).map (·.map (shiftSTok k)) := by
  simp only [parserInput, pipe_filterTrivia_shift, convAll_shift]

/-- the parser's answer on a translated token stream: the streams differ in positions only, so the trees are EQUAL
    (`PV.Prog.parseProgram_layout_free`); a lexical error keeps its kind and moves by `k` -/
theorem answerOf_shift (conv : Conv) (pmode : PV.Prog.Mode) (k : Nat) (o : LexOut) :
    answerOf conv pmode (some (shiftOut k o)) = shiftAnswer k (answerOf conv pmode (some o)) := by
  cases hf : o.fin with
  | eof =>
    have hf' : (shiftOut k o).fin = .eof := by simp [shiftOut, shiftEnd, hf]
    rw [answerOf_eof conv pmode _ hf', answerOf_eof conv pmode _ hf]
    simp only [shiftOut, parserInput_shift]
    cases parserInput conv o.toks with
    | none => rfl
    | some ts =>
      simp only [Option.map_some, Option.bind_some]
      rw [PV.Prog.parseProgram_layout_free pmode _ ts (eraseSpans_shift k ts)]
      cases PV.Prog.parseSpanned pmode ts <;> rfl
  | outOfFuel => simp [answerOf, answerOfFuel, shiftOut, shiftEnd, hf, shiftAnswer]
  | err kd c b => simp [answerOf, answerOfFuel, shiftOut, shiftEnd, hf, shiftAnswer]

/-- **Parsing at start offset `k` gives the result of parsing at offset 0** (on the models, range-erased trees): for every
    token conversion, lexer configuration, mode and source — the same tree (EQUAL: `PV.Prog.Mod` carries no ranges), the
    same rejection, or the same lexical error with its offset moved by `k`.  Composition of `lex_shift` (the whole token
    stream at offset `k` is the stream at 0 with every position moved by `k`) with `PV.Prog.parseProgram_layout_free`.
    The hypothesis says that nothing overflows `u32` (`PV.C03.offset_arith_u32`: `reachedB ≤ start + utf8Len src`, so it
    holds whenever `k + utf8Len src ≤ u32::MAX`, the property's quantifier). -/
theorem lex_parse_shift_model (conv : Conv) (cfg : Cfg) (mode : PV.Lexer.Mode) (k : Nat) (src : List Nat)
    (hfit : ∀ o, lex cfg mode 0 src = some o → o.reachedB + k ≤ u32Max) :
    parseText conv cfg mode k src = shiftAnswer k (parseText conv cfg mode 0 src) := by
  unfold parseText
  cases h0 : lex cfg mode 0 src with
  | none => rw [lex_shift, h0]; rfl
  | some o => rw [lex_shift_of_fit cfg mode k src o h0 (hfit o h0), answerOf_shift]

/-- `x = (1,⏎ 2)⏎` -/
def shiftSrc : List Nat := [120, 32, 61, 32, 40, 49, 44, 10, 32, 50, 41, 10]

theorem shiftSrc_lex0 : lex ⟨false, asciiUp⟩ .module 0 shiftSrc = some
    ⟨[⟨.name [120], 0, 1, 0, 1⟩, ⟨.op .Equal, 2, 3, 2, 3⟩, ⟨.op .Lpar, 4, 5, 4, 5⟩, ⟨.int 1, 5, 6, 5, 6⟩,
      ⟨.op .Comma, 6, 7, 6, 7⟩, ⟨.int 2, 9, 10, 9, 10⟩, ⟨.op .Rpar, 10, 11, 10, 11⟩, ⟨.newline, 11, 12, 11, 12⟩],
     .eof, 12⟩ := by decide +kernel

/-- lexed at offset 400 the text gives the tree it gives at offset 0 (the hypothesis of the theorem holds: 12 + 400 fits) -/
example : parseText sampleConv ⟨false, asciiUp⟩ .module 400 shiftSrc =
    .tree (.module [.assign [.name [120]] (.tuple [.const (.int 1), .const (.int 2)])]) := by
  rw [lex_parse_shift_model sampleConv _ .module 400 shiftSrc
    (fun o h => by rw [shiftSrc_lex0] at h; cases h; decide)]
  unfold parseText
  rw [shiftSrc_lex0]
  rfl

/-- `x $` at offset 400: the lexical error of offset 0 (byte 3), moved by 400 -/
example : parseText sampleConv ⟨false, asciiUp⟩ .module 400 [120, 32, 36] = .lexError (.unrecognizedToken 36) 403 := by
  have h : lex ⟨false, asciiUp⟩ .module 0 [120, 32, 36] = some
      ⟨[⟨.name [120], 0, 1, 0, 1⟩], .err (.unrecognizedToken 36) 3 3, 3⟩ := by decide +kernel
  rw [lex_parse_shift_model sampleConv _ .module 400 _ (fun o h' => by rw [h] at h'; cases h'; decide)]
  unfold parseText
  rw [h]
  rfl

/-! ### the ranged half, for the expression fragment -/

open PV.C02 in
/-- every token converted to the expression parser's alphabet, with its byte range (`none` if some token has no
    counterpart); the conversion sees the token only -/
def convR (conv : PV.Lexer.Tok → Option PV.Expr.Tok) : List Spanned → Option (List PV.C02.RTok)
  | [] => some []
  | t :: ts =>
    match conv t.tok, convR conv ts with
    | some p, some r => some (⟨p, t.bs, t.be⟩ :: r)
    | _, _ => none

/-- `Top` in expression mode is `StartExpression TestList "\n"*`: the NEWLINE tokens at the end of the stream are not part
    of the expression -/
def dropTrailingNewlines (toks : List Spanned) : List Spanned :=
  (toks.reverse.dropWhile (fun t => t.tok == .newline)).reverse

/-- the ranged tokens of a text that lexes (trivia filtered, as in front of the parser; trailing NEWLINEs dropped) -/
def rangedInput (conv : PV.Lexer.Tok → Option PV.Expr.Tok) : Option LexOut → Option (List PV.C02.RTok)
  | some o =>
    (match o.fin with
     | .eof => convR conv (dropTrailingNewlines (Pipeline.filterTrivia o.toks))
     | _ => none)
  | none => none

/-- text → ranged expression tree on the models: lexer model from start offset `start`, token conversion, the ranged
    reference parser `PV.C02.parseRExpression` (whole input, expression mode); `none` = rejected -/
def parseRText (conv : PV.Lexer.Tok → Option PV.Expr.Tok) (cfg : Cfg) (mode : PV.Lexer.Mode) (start : Nat) (src : List Nat) :
    Option PV.C02.RExpr :=
  (rangedInput conv (lex cfg mode start src)).bind PV.C02.parseRExpression

theorem convR_shift (conv : PV.Lexer.Tok → Option PV.Expr.Tok) (k : Nat) : ∀ toks : List Spanned,
    convR conv (toks.map (shiftTok k)) = (convR conv toks).map (·.map (shiftRTok k))
  | [] => rfl
  | t :: ts => by
    simp only [List.map_cons, convR, convR_shift conv k ts]
    have e : (shiftTok k t).tok = t.tok := rfl
    rw [e]
    cases h1 : conv t.tok <;> cases h2 : convR conv ts <;> simp [shiftTok, shiftRTok]

theorem dropTrailingNewlines_shift (k : Nat) (toks : List Spanned) :
    dropTrailingNewlines (toks.map (shiftTok k)) = (dropTrailingNewlines toks).map (shiftTok k) := by
  have h : ∀ l : List Spanned, (l.map (shiftTok k)).dropWhile (fun t => t.tok == .newline) =
      (l.dropWhile (fun t => t.tok == .newline)).map (shiftTok k) := by
    intro l
    induction l with
    | nil => rfl
    | cons t ts ih =>
      simp only [List.map_cons, List.dropWhile_cons]
      have e : (shiftTok k t).tok = t.tok := rfl
      rw [e]
      split <;> simp [ih]
  simp only [dropTrailingNewlines, ← List.map_reverse, h]

theorem rangedInput_shift (conv : PV.Lexer.Tok → Option PV.Expr.Tok) (k : Nat) (o : LexOut) :
    rangedInput conv (some (shiftOut k o)) = (rangedInput conv (some o)).map (·.map (shiftRTok k)) := by
  unfold rangedInput
  cases hf : o.fin <;> simp [shiftOut, shiftEnd, hf, pipe_filterTrivia_shift, dropTrailingNewlines_shift, convR_shift]

/-- **The ranged tree of an expression lexed at start offset `k` is the ranged tree at offset 0 with every range moved
    by `k`** — and nothing else changed (`erase_shE`); a text rejected at 0 is rejected at `k`.  The first sentence of the
    property at model level, for the expression fragment: composition of `lex_shift` with `parseR_shift`
    (`parseRExpression_shift`). -/
theorem lex_parseR_shift_model (conv : PV.Lexer.Tok → Option PV.Expr.Tok) (cfg : Cfg) (mode : PV.Lexer.Mode) (k : Nat) (src : List Nat)
    (hfit : ∀ o, lex cfg mode 0 src = some o → o.reachedB + k ≤ u32Max) :
    parseRText conv cfg mode k src = (parseRText conv cfg mode 0 src).map (shE k) := by
  unfold parseRText
  cases h0 : lex cfg mode 0 src with
  | none => rw [lex_shift, h0]; rfl
  | some o =>
    rw [lex_shift_of_fit cfg mode k src o h0 (hfit o h0), rangedInput_shift]
    cases rangedInput conv (some o) with
    | none => rfl
    | some toks => simp only [Option.map_some, Option.bind_some]; exact parseRExpression_shift k toks

/-- a conversion for the example: names, integers, `(`, `)`, `,`, `=` -/
def sampleConvE : PV.Lexer.Tok → Option PV.Expr.Tok
  | .name n => some (.name n)
  | .int v => some (.int v)
  | .op .Lpar => some (.op .lpar)
  | .op .Rpar => some (.op .rpar)
  | .op .Comma => some (.op .comma)
  | .op .Equal => some (.op .assign)
  | _ => none

/-- `f(a, k=1)` -/
def callSrc : List Nat := [102, 40, 97, 44, 32, 107, 61, 49, 41]

theorem callSrc_lex0 : lex ⟨false, asciiUp⟩ .expression 0 callSrc = some
    ⟨[⟨.name [102], 0, 1, 0, 1⟩, ⟨.op .Lpar, 1, 2, 1, 2⟩, ⟨.name [97], 2, 3, 2, 3⟩, ⟨.op .Comma, 3, 4, 3, 4⟩,
      ⟨.name [107], 5, 6, 5, 6⟩, ⟨.op .Equal, 6, 7, 6, 7⟩, ⟨.int 1, 7, 8, 7, 8⟩, ⟨.op .Rpar, 8, 9, 8, 9⟩,
      ⟨.newline, 9, 9, 9, 9⟩], .eof, 9⟩ := by decide +kernel

/-- at offset 0 the `Call` is ranged 0..9 and its `Keyword` 5..8 … -/
theorem callSrc_tree0 : parseRText sampleConvE ⟨false, asciiUp⟩ .expression 0 callSrc =
    some (.call (0, 9) (.name (0, 1) [102]) [.name (2, 3) [97]] [.mk (5, 8) (some [107]) (.const (7, 8) (.int 1))]) := by
  unfold parseRText
  rw [callSrc_lex0]
  rfl

/-- … and at offset 400 every range is moved by 400 -/
example : parseRText sampleConvE ⟨false, asciiUp⟩ .expression 400 callSrc =
    some (.call (400, 409) (.name (400, 401) [102]) [.name (402, 403) [97]]
      [.mk (405, 408) (some [107]) (.const (407, 408) (.int 1))]) := by
  rw [lex_parseR_shift_model sampleConvE _ .expression 400 callSrc
    (fun o h => by rw [callSrc_lex0] at h; cases h; decide), callSrc_tree0]
  rfl

/-! ## 5. Start offsets only translate positions — whole programs, every range

  The first sentence of the property at model level for whole programs: the parser is the RANGED program parser
  `PV.C02.parseRProgram` (lean/PV/C02/RProg.lean; its tie to the real parser under `all-nodes-with-ranges` is C02's
  `ranged-program-model-*` correspondence, the lexer model's tie to lexer.rs is C05's).  `parseRProgram_shift`
  (lean/PV/C09/RProgShift.lean, induction over its 47 functions in `RProgShift1..4.lean`) is composed with `lex_shift`. -/

/-- what the ranged pipeline answers: as `PV.Pipeline.Answer`, the tree with the range of every node -/
inductive RAnswer
  /-- `Ok(tree)`, every node with its range (as under `all-nodes-with-ranges`) -/
  | tree (m : PV.C02.RMod)
  /-- the text lexes, the parser rejects the token stream (or a token has no conversion) -/
  | rejected
  /-- the token stream ends in its first lexical error: kind and byte offset -/
  | lexError (kind : ErrKind) (offset : Nat)
  /-- the lexer model ran out of fuel (never: `PV.C03.lex_parse_total_model`) -/
  | lexOutOfFuel
  /-- the Rust code would panic: a modelled `unwrap` fails or `location` overflows `u32` -/
  | panic

/-- a parser token with its byte span, as the ranged program parser takes it -/
def stokToR (t : PV.Prog.STok) : PV.C02.RPTok := ⟨t.tok, t.start, t.stop⟩

/-- the ranged parser applied to the result of the lexer (the parser input is `PV.Pipeline.parserInput`: trivia
    filtered, every token converted by the position-blind `conv`) -/
def ranswerOf (conv : Conv) (pmode : PV.Prog.Mode) : Option LexOut → RAnswer
  | none => .panic
  | some o =>
    match o.fin with
    | .eof =>
      (match parserInput conv o.toks with
       | some ts =>
         (match PV.C02.parseRProgram pmode (ts.map stokToR) with
          | some m => .tree m
          | none => .rejected)
       | none => .rejected)
    | .err k _ b => .lexError k b
    | .outOfFuel => .lexOutOfFuel

/-- **text → ranged answer on the models**: `parse_starts_at(src, mode, start)` with `all-nodes-with-ranges`, in the lexer
    configuration `cfg` -/
def parseRProgText (conv : Conv) (cfg : Cfg) (mode : PV.Lexer.Mode) (start : Nat) (src : List Nat) : RAnswer :=
  ranswerOf conv (progMode mode) (lex cfg mode start src)

/-- forgetting the ranges -/
def RAnswer.erase : RAnswer → Answer
  | .tree m => .tree m.erase
  | .rejected => .rejected
  | .lexError k b => .lexError k b
  | .lexOutOfFuel => .lexOutOfFuel
  | .panic => .panic

theorem map_tok_stokToR (ts : List PV.Prog.STok) : (ts.map stokToR).map (·.tok) = PV.Prog.eraseSpans ts := by
  simp [stokToR, PV.Prog.eraseSpans, Function.comp_def]

/-- the ranged pipeline is the pipeline of C03 / C10 / section 4 plus ranges: erasing them gives `PV.Pipeline.parseText` -/
theorem parseRProgText_erase (conv : Conv) (cfg : Cfg) (mode : PV.Lexer.Mode) (start : Nat) (src : List Nat) :
    (parseRProgText conv cfg mode start src).erase = parseText conv cfg mode start src := by
  unfold parseRProgText parseText answerOf answerOfFuel ranswerOf
  cases lex cfg mode start src with
  | none => rfl
  | some o =>
    simp only
    cases o.fin with
    | eof =>
      simp only
      cases parserInput conv o.toks with
      | none => rfl
      | some ts =>
        simp only [Nat.add_zero]
        have e := PV.C02.parseRProgram_erase (progMode mode) (ts.map stokToR)
        rw [map_tok_stokToR] at e
        unfold PV.Prog.parseProgram at e
        rw [← e]
        cases PV.C02.parseRProgram (progMode mode) (ts.map stokToR) <;> rfl
    | err kd c b => rfl
    | outOfFuel => rfl

/-- move every position of a ranged answer by `k`: every range of the tree, the offset of a lexical error -/
def shiftRAnswer (k : Nat) : RAnswer → RAnswer
  | .tree m => .tree (shiftRMod k m)
  | .lexError kind off => .lexError kind (off + k)
  | a => a

theorem map_stokToR_shift (k : Nat) (ts : List PV.Prog.STok) :
    (ts.map (shiftSTok k)).map stokToR = (ts.map stokToR).map (shiftRPTok k) := by
  simp [stokToR, shiftSTok, shiftRPTok, Function.comp_def]

/-- the ranged parser's answer on a translated token stream with at least one (non-trivia) token -/
theorem ranswerOf_shift (conv : Conv) (pmode : PV.Prog.Mode) (k : Nat) (o : LexOut)
    (htok : o.fin = .eof → Pipeline.filterTrivia o.toks ≠ []) :
    ranswerOf conv pmode (some (shiftOut k o)) = shiftRAnswer k (ranswerOf conv pmode (some o)) := by
  unfold ranswerOf
  cases hf : o.fin with
  | eof =>
    have hf' : (shiftOut k o).fin = .eof := by simp [shiftOut, shiftEnd, hf]
    simp only [hf', hf]
    simp only [shiftOut, parserInput_shift]
    cases hp : parserInput conv o.toks with
    | none => rfl
    | some ts =>
      have hne : ts ≠ [] := by
        intro e
        subst e
        have := htok hf
        unfold parserInput at hp
        cases hft : Pipeline.filterTrivia o.toks with
        | nil => exact this hft
        | cons t r =>
          rw [hft] at hp
          simp only [convAll] at hp
          split at hp <;> cases hp
      simp only [Option.map_some]
      rw [map_stokToR_shift, parseRProgram_shift k pmode _ (by simpa using hne)]
      cases PV.C02.parseRProgram pmode (ts.map stokToR) <;> rfl
  | outOfFuel => simp [shiftOut, shiftEnd, hf, shiftRAnswer]
  | err kd c b => simp [shiftOut, shiftEnd, hf, shiftRAnswer]

/-- **Parsing a text at start offset `k` gives exactly the result of parsing it at offset 0 with every range and every
    error offset moved by `k`** — the first sentence of the property, on the models, for WHOLE PROGRAMS in every mode:
    for every token conversion, lexer configuration, mode and source that has at least one (non-trivia) token, the ranged
    tree at offset `k` is the ranged tree at offset 0 with every range of every node moved by `k` and nothing else changed
    (`erase_shiftRMod`, `toTree_shiftRMod`), a rejection stays a rejection, a lexical error keeps its kind and its offset
    moves by `k`.  Composition of `lex_shift` with `parseRProgram_shift`.  `hfit`: nothing overflows `u32` (implied by
    `k + utf8Len src ≤ u32::MAX`, the property's quantifier: `PV.C03.offset_arith_u32`).  `htok`: asked only of texts that
    lex without error — token-less texts are the listed finding (next theorem). -/
theorem lex_parseRProgram_shift_model (conv : Conv) (cfg : Cfg) (mode : PV.Lexer.Mode) (k : Nat) (src : List Nat)
    (hfit : ∀ o, lex cfg mode 0 src = some o → o.reachedB + k ≤ u32Max)
    (htok : ∀ o, lex cfg mode 0 src = some o → o.fin = .eof → Pipeline.filterTrivia o.toks ≠ []) :
    parseRProgText conv cfg mode k src = shiftRAnswer k (parseRProgText conv cfg mode 0 src) := by
  unfold parseRProgText
  cases h0 : lex cfg mode 0 src with
  | none => rw [lex_shift, h0]; rfl
  | some o => rw [lex_shift_of_fit cfg mode k src o h0 (hfit o h0), ranswerOf_shift conv _ k o (htok o h0)]

/-- **The token-less text is NOT translated** (the model reproduces the listed finding `start-marker-mod-range-no-token`):
    a text that lexes to no token at all (empty, blank, comments only) gives the same answer at every start offset that
    fits `u32` — with a position-blind conversion the parser is handed the same empty stream, and `Module` / `Interactive`
    come out ranged `0..0`, not `k..k`. -/
theorem lex_parseRProgram_tokenless_model (conv : Conv) (cfg : Cfg) (mode : PV.Lexer.Mode) (k : Nat) (src : List Nat)
    (o : LexOut) (h0 : lex cfg mode 0 src = some o) (hfit : o.reachedB + k ≤ u32Max) (heof : o.fin = .eof)
    (hno : Pipeline.filterTrivia o.toks = []) :
    parseRProgText conv cfg mode k src = parseRProgText conv cfg mode 0 src := by
  unfold parseRProgText
  rw [lex_shift_of_fit cfg mode k src o h0 hfit, h0]
  unfold ranswerOf
  have hf' : (shiftOut k o).fin = .eof := by simp [shiftOut, shiftEnd, heof]
  simp only [hf', heof]
  have e1 : parserInput conv (shiftOut k o).toks = some [] := by
    simp [shiftOut, parserInput, pipe_filterTrivia_shift, hno, convAll]
  have e2 : parserInput conv o.toks = some [] := by simp [parserInput, hno, convAll]
  rw [e1, e2]

/-- the empty text in module mode: `Module { range: 0..0 }` at offset 0 and at offset 100 -/
example : parseRProgText sampleConv ⟨false, asciiUp⟩ .module 100 [] = .tree (.module (0, 0) []) ∧
    parseRProgText sampleConv ⟨false, asciiUp⟩ .module 0 [] = .tree (.module (0, 0) []) := by
  have h : lex ⟨false, asciiUp⟩ .module 0 [] = some ⟨[], .eof, 0⟩ := by decide +kernel
  have h2 : parseRProgText sampleConv ⟨false, asciiUp⟩ .module 0 [] = .tree (.module (0, 0) []) := by
    unfold parseRProgText; rw [h]; rfl
  exact ⟨by rw [lex_parseRProgram_tokenless_model sampleConv _ .module 100 [] _ h (by decide) rfl rfl, h2], h2⟩

/-- `x = (1,⏎ 2)⏎` at offset 0: `Module` 0..12, `Assign` 0..11, `Tuple` 4..11 … -/
theorem shiftSrc_rtree0 : parseRProgText sampleConv ⟨false, asciiUp⟩ .module 0 shiftSrc =
    .tree (.module (0, 12) [.assign (0, 11) [.name (0, 1) [120]]
      (.tuple (4, 11) [.const (5, 6) (.int 1), .const (9, 10) (.int 2)])]) := by
  unfold parseRProgText
  rw [shiftSrc_lex0]
  rfl

/-- … and lexed at offset 400 every range is moved by 400 (the hypotheses of the theorem hold: 12 + 400 fits, the text has
    tokens) -/
example : parseRProgText sampleConv ⟨false, asciiUp⟩ .module 400 shiftSrc =
    .tree (.module (400, 412) [.assign (400, 411) [.name (400, 401) [120]]
      (.tuple (404, 411) [.const (405, 406) (.int 1), .const (409, 410) (.int 2)])]) := by
  rw [lex_parseRProgram_shift_model sampleConv _ .module 400 shiftSrc
    (fun o h => by rw [shiftSrc_lex0] at h; cases h; decide)
    (fun o h _ => by rw [shiftSrc_lex0] at h; cases h; decide), shiftSrc_rtree0]
  rfl

/-- `x $` at offset 400: the lexical error of offset 0 (byte 3), moved by 400 -/
example : parseRProgText sampleConv ⟨false, asciiUp⟩ .module 400 [120, 32, 36] = .lexError (.unrecognizedToken 36) 403 := by
  have h : lex ⟨false, asciiUp⟩ .module 0 [120, 32, 36] = some
      ⟨[⟨.name [120], 0, 1, 0, 1⟩], .err (.unrecognizedToken 36) 3 3, 3⟩ := by decide +kernel
  rw [lex_parseRProgram_shift_model sampleConv _ .module 400 _ (fun o h' => by rw [h] at h'; cases h'; decide)
    (fun o h' he => by rw [h] at h'; cases h'; cases he)]
  unfold parseRProgText
  rw [h]
  rfl

/-! ### entry points as views, on the ranged model -/

/-- **Interactive mode is Module mode, ranges included**: the same body with the same ranges and the same range of the
    `Mod*` node, for every fuel and every spanned token list.  (The third view — expression mode = the value of the
    module's expression statement — is proved range-erased only, `PV.Prog.parse_expr_stmt_agree`: the two modes reach the
    expression list with different fuel, and fuel-monotonicity of the RANGED parser is not proved; what
    `parseRProgram_erase` transfers is the tree without ranges.) -/
theorem interactive_module_agreeR (fuel : Nat) (toks : List PV.C02.RPTok) (rg : PV.C02.Rg) (b : List PV.C02.RStmt) :
    PV.C02.parseRProgramFuel fuel .interactive toks = some (.interactive rg b) ↔
      PV.C02.parseRProgramFuel fuel .module toks = some (.module rg b) := by
  simp only [PV.C02.parseRProgramFuel, PV.C02.parseRTopT]
  cases PV.C02.parseRProgramBody (PV.C02.pspanTab toks) fuel (toks.map fun t => t.tok.toTok) <;> simp

/-- … with the driver's fuel -/
theorem interactive_module_agreeR' (toks : List PV.C02.RPTok) (rg : PV.C02.Rg) (b : List PV.C02.RStmt) :
    PV.C02.parseRProgram .interactive toks = some (.interactive rg b) ↔
      PV.C02.parseRProgram .module toks = some (.module rg b) :=
  interactive_module_agreeR _ toks rg b

example : ((PV.C02.parseRProgram .interactive ifToks).map fun m => (m.range, (modBody m).map PV.C02.RStmt.range)) =
    ((PV.C02.parseRProgram .module ifToks).map fun m => (m.range, (modBody m).map PV.C02.RStmt.range)) := by decide

end PV.C09
