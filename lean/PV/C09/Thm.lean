import PV.C09.Model
import PV.C09.Spec
import PV.C09.Lemmas
import PV.Gen.C09TypedParsers
import PV.Gen.C09ModeNames
import PV.C09.LexShift   -- lexer model: PV.C09.lex_shift, lex_shift_of_fit (the `ShiftEnv.lex` hypothesis below, proved there)
/-
  C09 — property theorems: "start offsets only translate positions; all entry points agree".

  Everything is proved for an ARBITRARY LALRPOP parser `env.parseTop` and lexer `env.lexTop`
  (the two parameters of the model), so the statements are about how the public entry points of
  `parser/src/parser.rs` and `parser/src/gen/parse.rs` are wired to them — which is what the property
  is about.  The lexer-level statement `lex k src = shift k (lex 0 src)` is `PV.C09.lex_shift`
  (lean/PV/C09/LexShift.lean, owned by the lexer model); here it appears as hypothesis `ShiftEnv.lex`.
-/
namespace PV.C09
open Spec
variable {σ : Sig}

/-! ## 1. All entry points are views of one parser -/

/-- Every `Parse::parse_tokens` returns the documented part of the tree that the one parser builds
    for the same tokens in the target's mode — for ANY parser and any well-formed table row. -/
theorem entry_points_agree (env : Env σ) (ty : Ty) (hwf : ty.WF) (toks : List σ.T) :
    Agrees env.view ty.target (parseFiltered env ty.target.mode toks) (ty.parseTokens env toks) := by
  cases ty with
  | typed p => exact typed_agree env p hwf toks
  | stmt =>
    simp only [Agrees, Ty.target, Target.mode, Ty.parseTokens, stmtTokens, modModuleTokens]
    generalize parseFiltered env _ toks = top
    rcases top with (m | ⟨k, o⟩ | _)
    · cases m with
      | module m =>
        rcases hb : m.body with _ | ⟨s1, _ | ⟨s2, tl⟩⟩ <;> simp [Res.map, Res.bind, Res.isErr, hb]
      | _ => simp [Res.map, Res.bind]
    · simp [Res.map, Res.bind]
    · simp [Res.map, Res.bind]
  | identifier =>
    simp only [Agrees, Ty.target, Target.mode, Ty.parseTokens, identifierTokens, exprTokens, modExpressionTokens]
    generalize parseFiltered env _ toks = top
    rcases top with (m | ⟨k, o⟩ | _)
    · cases m with
      | expression m =>
        rcases hn : env.view.nameId m.body with _ | i <;> simp [Res.map, Res.bind, hn]
      | _ => simp [Res.map, Res.bind]
    · simp [Res.map, Res.bind]
    · simp [Res.map, Res.bind]
  | constant =>
    simp only [Agrees, Ty.target, Target.mode, Ty.parseTokens, constantTokens, exprTokens, modExpressionTokens]
    generalize parseFiltered env _ toks = top
    rcases top with (m | ⟨k, o⟩ | _)
    · cases m with
      | expression m =>
        rcases hn : env.view.constValue m.body with _ | i <;> simp [Res.map, Res.bind, hn]
      | _ => simp [Res.map, Res.bind]
    · simp [Res.map, Res.bind]
    · simp [Res.map, Res.bind]
  | _ =>
    simp only [Agrees, Ty.target, Target.mode, Ty.parseTokens, suiteTokens, exprTokens, modModuleTokens,
      modExpressionTokens, modInteractiveTokens]
    generalize parseFiltered env _ toks = top
    rcases top with (m | ⟨k, o⟩ | _)
    · cases m <;> simp [Res.map, Res.bind]
    · simp [Res.map, Res.bind]
    · simp [Res.map, Res.bind]

/-- The regenerated table of `parser/src/gen/parse.rs`: every generated parser unwraps exactly the
    variant that carries its own type, through that variant's enum, and reports `InvalidToken` at the
    node start otherwise.  Re-proved on every run against the freshly translated table. -/
theorem typed_parsers_wf : ∀ p ∈ Gen.typedParsers, p.WF := by decide

/-- … and the table has one parser for every variant of `Stmt` and of `Expr`, in definition order. -/
theorem typed_parsers_cover :
    Gen.typedParsers.map (fun p => (p.typeEnum, p.typeIdx)) =
      (List.range Gen.stmtVariantCount).map (fun i => (Parent.stmt, i)) ++
      (List.range Gen.exprVariantCount).map (fun i => (Parent.expr, i)) := by decide

/-- hence each of the 55 generated parsers returns the payload of "its" variant of the one tree -/
theorem generated_parsers_agree (env : Env σ) (p : TypedParser) (hp : p ∈ Gen.typedParsers) (toks : List σ.T) :
    Agrees env.view (.variant p.typeEnum p.typeIdx)
      (parseFiltered env (Target.mode (.variant p.typeEnum p.typeIdx)) toks)
      ((Ty.typed p).parseTokens env toks) :=
  entry_points_agree env (.typed p) (typed_parsers_wf p hp) toks

/-- `T::parse_starts_at` (hence `parse`, `parse_without_path`) is the same view of the free function
    `parse_starts_at` run in the target's mode at the same offset. -/
theorem typed_views_of_free_parse (env : Env σ) (ty : Ty) (hwf : ty.WF) (src : σ.Src) (k : Nat) :
    Agrees env.view ty.target (freeParseStartsAt env ty.target.mode src k) (ty.parseStartsAt env src k) := by
  unfold freeParseStartsAt freeParseTokens Ty.parseStartsAt Ty.lexStartsAt
  rw [lexMode_eq_target_mode ty hwf]
  exact entry_points_agree env ty hwf _

/-- the free `parse_tokens` applied to the output of the free lexer IS `parse_starts_at` (both filter) -/
theorem free_parse_tokens_of_lex (env : Env σ) (m : Mode) (src : σ.Src) (k : Nat) :
    freeParseTokens env m (env.lexTop m k src) = freeParseStartsAt env m src k := rfl

/-- deprecated `parse_program` is the module body of `parse(.., Mode::Module, ..)` -/
theorem parseProgram_agrees (env : Env σ) (src : σ.Src) :
    Agrees env.view .suite (freeParse env .module src) (parseProgram env src) := by
  unfold parseProgram Agrees
  generalize freeParse env .module src = top
  rcases top with (m | ⟨k, o⟩ | _)
  · cases m <;> simp
  · simp
  · simp

/-- deprecated `parse_expression(_starts_at)` are `Expr::parse(_starts_at)` -/
theorem parseExpression_eq (env : Env σ) (src : σ.Src) (k : Nat) :
    parseExpression env src = Ty.expr.parse env src ∧
    parseExpressionStartsAt env src k = Ty.expr.parseStartsAt env src k := ⟨rfl, rfl⟩

/-! ### parsing a pre-lexed token stream equals parsing the text -/

/-- full statement for the trait method `T::parse_tokens` fed with `T::lex_starts_at` -/
def parse_tokens_of_lex_full : Prop :=
  ∀ (σ : Sig) (env : Env σ) (ty : Ty) (src : σ.Src) (k : Nat),
    ty.parseTokens env (ty.lexStartsAt env src k) = ty.parseStartsAt env src k

/-- it holds without `full-lexer`, and with it whenever the text has no comment / blank-line token -/
theorem parse_tokens_of_lex_partial (env : Env σ) (ty : Ty) (src : σ.Src) (k : Nat)
    (h : env.fullLexer = false ∨ ∀ t ∈ ty.lexStartsAt env src k, env.isTrivia t = false) :
    ty.parseTokens env (ty.lexStartsAt env src k) = ty.parseStartsAt env src k := by
  unfold Ty.parseStartsAt
  rw [filterTrivia_id env _ h]

/-- witness environment: tokens are booleans (`true` = a comment), the parser rejects comments -/
def unfilteredWitness : Env ⟨Unit, Bool, Unit, Unit, Unit, Unit, Unit, Unit, Unit⟩ where
  fullLexer := true
  isTrivia := id
  marker := fun _ _ _ => false
  lexTop := fun _ _ _ => [true]
  parseTop := fun _ toks => if toks.any id then .err "UnrecognizedToken" 0 else .ok (.module ⟨(), [], ()⟩)
  view := ⟨fun _ => 0, fun _ => 0, fun _ => 0, id, fun _ => 0, fun _ => 0, fun _ => 0, id, fun _ => none, fun _ => none⟩

/-- … and fails with `full-lexer` (the trait's `parse_tokens` does not filter; the free one does) -/
theorem parse_tokens_of_lex_fails : ¬ parse_tokens_of_lex_full := by
  intro h
  have := h _ unfilteredWitness .modModule () 0
  simp [Ty.parseTokens, Ty.parseStartsAt, Ty.lexStartsAt, modModuleTokens, parseFiltered, filterTrivia,
    unfilteredWitness, Res.map, Res.bind] at this

/-! ## 2. Start offsets only translate positions -/

/-- `parse_filtered_tokens` commutes with translation when the marker's range is irrelevant -/
theorem parseFiltered_shift_partial (env : Env σ) (sh : Shift σ) (k : Nat) (h : ShiftEnv env sh k)
    (hm : MarkerIrrelevant env) (m : Mode) (toks : List σ.T) :
    parseFiltered env m (toks.map (sh.tok k)) = shiftRes k (shiftMod sh k) (parseFiltered env m toks) := by
  unfold parseFiltered
  rw [← h.parse, List.map_cons, h.marker, hm m (0 + k) (0 + k)]

theorem parseTokens_shift_partial (env : Env σ) (sh : Shift σ) (k : Nat) (h : ShiftEnv env sh k)
    (hm : MarkerIrrelevant env) (laws : ShiftLaws env.view sh) (ty : Ty) (hwf : ty.WF)
    (toks : List σ.T) (hne : StmtNonEmpty env ty toks) :
    ty.parseTokens env (toks.map (sh.tok k)) = shiftRes k (Spec.shiftOut sh k) (ty.parseTokens env toks) := by
  have hp := fun m => parseFiltered_shift_partial env sh k h hm m toks
  cases ty with
  | typed p =>
    obtain ⟨h1, h2, h3, h4, h5, h6⟩ := hwf
    rcases p with ⟨te, ti, lv, pv, me, mi, eit, eo⟩
    simp only at h1 h2 h3 h4 h5 h6
    subst h1 h2 h3 h4 h5 h6
    cases me
    · simp only [Ty.parseTokens, typedTokens, stmtTokens, modModuleTokens, errKindOf, errOffOf, hp]
      have hne' := hne (by simp [Ty.usesStmt])
      revert hne'
      generalize parseFiltered env _ toks = top
      intro hne'
      rcases top with (m | ⟨k, o⟩ | _)
      · cases m with
        | module m =>
          have := hne' m rfl
          rcases hb : m.body with _ | ⟨s1, _ | ⟨s2, tl⟩⟩
          · exact absurd hb this
          · by_cases hk : env.view.stmtKind s1 = mi <;>
              simp [Res.map, Res.bind, shiftRes, shiftMod, Spec.shiftOut, hb, hk, laws.stmtKind, laws.stmtStart, laws.stmtPayload]
          · simp [Res.map, Res.bind, shiftRes, shiftMod, hb, laws.stmtStart]
        | _ => simp [Res.map, Res.bind, shiftRes, shiftMod]
      · simp [Res.map, Res.bind, shiftRes]
      · simp [Res.map, Res.bind, shiftRes]
    · simp only [Ty.parseTokens, typedTokens, exprTokens, modExpressionTokens, errKindOf, errOffOf, hp]
      generalize parseFiltered env _ toks = top
      rcases top with (m | ⟨k, o⟩ | _)
      · cases m with
        | expression m =>
          by_cases hk : env.view.exprKind m.body = mi <;>
            simp [Res.map, Res.bind, shiftRes, shiftMod, Spec.shiftOut, hk, laws.exprKind, laws.exprStart, laws.exprPayload]
        | _ => simp [Res.map, Res.bind, shiftRes, shiftMod]
      · simp [Res.map, Res.bind, shiftRes]
      · simp [Res.map, Res.bind, shiftRes]
  | stmt =>
    simp only [Ty.parseTokens, stmtTokens, modModuleTokens, hp]
    have hne' := hne (by simp [Ty.usesStmt])
    revert hne'
    generalize parseFiltered env _ toks = top
    intro hne'
    rcases top with (m | ⟨k, o⟩ | _)
    · cases m with
      | module m =>
        have := hne' m rfl
        rcases hb : m.body with _ | ⟨s1, _ | ⟨s2, tl⟩⟩
        · exact absurd hb this
        · simp [Res.map, Res.bind, shiftRes, shiftMod, Spec.shiftOut, hb]
        · simp [Res.map, Res.bind, shiftRes, shiftMod, hb, laws.stmtStart]
      | _ => simp [Res.map, Res.bind, shiftRes, shiftMod]
    · simp [Res.map, Res.bind, shiftRes]
    · simp [Res.map, Res.bind, shiftRes]
  | identifier =>
    simp only [Ty.parseTokens, identifierTokens, exprTokens, modExpressionTokens, hp]
    generalize parseFiltered env _ toks = top
    rcases top with (m | ⟨k, o⟩ | _)
    · cases m with
      | expression m =>
        rcases hn : env.view.nameId m.body with _ | i <;>
          simp [Res.map, Res.bind, shiftRes, shiftMod, Spec.shiftOut, hn, laws.nameId, laws.exprStart]
      | _ => simp [Res.map, Res.bind, shiftRes, shiftMod]
    · simp [Res.map, Res.bind, shiftRes]
    · simp [Res.map, Res.bind, shiftRes]
  | constant =>
    simp only [Ty.parseTokens, constantTokens, exprTokens, modExpressionTokens, hp]
    generalize parseFiltered env _ toks = top
    rcases top with (m | ⟨k, o⟩ | _)
    · cases m with
      | expression m =>
        rcases hn : env.view.constValue m.body with _ | i <;>
          simp [Res.map, Res.bind, shiftRes, shiftMod, Spec.shiftOut, hn, laws.constValue, laws.exprStart]
      | _ => simp [Res.map, Res.bind, shiftRes, shiftMod]
    · simp [Res.map, Res.bind, shiftRes]
    · simp [Res.map, Res.bind, shiftRes]
  | _ =>
    simp only [Ty.parseTokens, suiteTokens, exprTokens, modModuleTokens,
      modExpressionTokens, modInteractiveTokens, hp]
    generalize parseFiltered env _ toks = top
    rcases top with (m | ⟨k, o⟩ | _)
    · cases m <;> simp [Res.map, Res.bind, shiftRes, shiftMod, Spec.shiftOut]
    · simp [Res.map, Res.bind, shiftRes]
    · simp [Res.map, Res.bind, shiftRes]

/-- The full statement: whenever lexer and LALRPOP parser are translation-equivariant, so is every
    `T::parse_starts_at`. -/
def entry_shift_full : Prop :=
  ∀ (σ : Sig) (env : Env σ) (sh : Shift σ) (k : Nat), ShiftEnv env sh k → ShiftLaws env.view sh →
    ∀ (ty : Ty), ty.WF → ∀ (src : σ.Src),
      ty.parseStartsAt env src k = shiftRes k (Spec.shiftOut sh k) (ty.parseStartsAt env src 0)

/-- What holds of the code as it is: translation invariance of every `T::parse_starts_at`, PROVIDED the
    start marker's `0..0` range is not observable and (for the parsers going through `Stmt`) the text
    has at least one statement. -/
theorem entry_shift_partial (env : Env σ) (sh : Shift σ) (k : Nat) (h : ShiftEnv env sh k)
    (hm : MarkerIrrelevant env) (laws : ShiftLaws env.view sh) (ty : Ty) (hwf : ty.WF) (src : σ.Src)
    (hne : StmtNonEmpty env ty (filterTrivia env (ty.lexStartsAt env src 0))) :
    ty.parseStartsAt env src k = shiftRes k (Spec.shiftOut sh k) (ty.parseStartsAt env src 0) := by
  unfold Ty.parseStartsAt
  have : ty.lexStartsAt env src k = (ty.lexStartsAt env src 0).map (sh.tok k) := h.lex _ _
  rw [this, filterTrivia_shift env sh k h]
  exact parseTokens_shift_partial env sh k h hm laws ty hwf _ hne

/-- the same for the free functions `parse_starts_at` / `parse_tokens ∘ lex_starts_at` -/
theorem free_shift_partial (env : Env σ) (sh : Shift σ) (k : Nat) (h : ShiftEnv env sh k)
    (hm : MarkerIrrelevant env) (m : Mode) (src : σ.Src) :
    freeParseStartsAt env m src k = shiftRes k (shiftMod sh k) (freeParseStartsAt env m src 0) := by
  unfold freeParseStartsAt freeParseTokens
  rw [h.lex, filterTrivia_shift env sh k h]
  exact parseFiltered_shift_partial env sh k h hm m _

/-! ### the two places where the code does not translate -/

/-- toy instance: a token is its range; source `false` is blank (no tokens), `true` is one token `0..1`;
    the parser builds a module whose range runs from the first symbol (the marker) to the end of the
    first token and reports an end-of-input error at the end of the last symbol it has seen. -/
abbrev toySig : Sig := ⟨Bool, Nat × Nat, Nat × Nat, Nat, Nat, Unit, Unit, Nat, Unit⟩

def toyEnv (blankIsModule : Bool) : Env toySig where
  fullLexer := false
  isTrivia := fun _ => false
  marker := fun _ a b => (a, b)
  lexTop := fun _ k src => if src then [(k, k + 1)] else []
  parseTop := fun _ toks =>
    match toks with
    | [] => .panic
    | [mk] => if blankIsModule then .ok (.module ⟨(mk.1, mk.2), [], ()⟩) else .err "Eof" mk.2
    | mk :: t :: _ => .ok (.module ⟨(mk.1, t.2), [], ()⟩)
  view := ⟨fun _ => 0, id, id, id, fun _ => 0, id, id, id, fun _ => none, fun _ => none⟩

/-- variant of `toyEnv` whose module carries no range at all (default features) -/
def toyEnvNoRange : Env ⟨Bool, Nat × Nat, Unit, Nat, Nat, Unit, Unit, Nat, Unit⟩ where
  fullLexer := false
  isTrivia := fun _ => false
  marker := fun _ a b => (a, b)
  lexTop := fun _ k src => if src then [(k, k + 1)] else []
  parseTop := fun _ toks =>
    match toks with
    | [] => .panic
    | _ :: rest => .ok (.module ⟨(), rest.map (·.1), ()⟩)
  view := ⟨fun _ => 0, id, id, id, fun _ => 0, id, id, id, fun _ => none, fun _ => none⟩

def toyShift : Shift toySig :=
  ⟨fun k t => (t.1 + k, t.2 + k), fun k r => (r.1 + k, r.2 + k), fun k s => s + k, fun k e => e + k,
   fun k p => p + k, fun _ t => t⟩

def toyShiftNoRange : Shift ⟨Bool, Nat × Nat, Unit, Nat, Nat, Unit, Unit, Nat, Unit⟩ :=
  ⟨fun k t => (t.1 + k, t.2 + k), fun _ r => r, fun k s => s + k, fun k e => e + k,
   fun k p => p + k, fun _ t => t⟩

theorem toyNoRange_shiftEnv (k : Nat) : ShiftEnv toyEnvNoRange toyShiftNoRange k where
  lex := by intro m src; cases src <;> simp [toyEnvNoRange, toyShiftNoRange, Nat.add_comm]
  parse := by
    intro m toks
    rcases toks with _ | ⟨a, rest⟩ <;>
      simp [toyEnvNoRange, toyShiftNoRange, shiftRes, shiftMod, Function.comp_def]
  marker := by intro m a b; rfl
  trivia := by intro t; rfl

theorem toyNoRange_laws : ShiftLaws toyEnvNoRange.view toyShiftNoRange := by
  constructor <;> intros <;> rfl

theorem toyNoRange_markerIrrelevant : MarkerIrrelevant toyEnvNoRange := by
  intro m a b toks; rfl

/-- **Finding (Stmt)**: with a lexer and parser that translate perfectly and a marker range that
    cannot be seen, `Stmt::parse_starts_at` of a blank text still reports offset 0 instead of `k`:
    the full statement is false of the model (and of the code: `Stmt::parse_starts_at("", _, 100)`). -/
theorem entry_shift_fails : ¬ entry_shift_full := by
  intro h
  have := h _ toyEnvNoRange toyShiftNoRange 5 (toyNoRange_shiftEnv 5) toyNoRange_laws .stmt trivial false
  simp [Ty.parseStartsAt, Ty.lexStartsAt, Ty.parseTokens, stmtTokens, modModuleTokens, parseFiltered,
    filterTrivia, toyEnvNoRange, Res.map, Res.bind, shiftRes] at this

/-- non-vacuity of `entry_shift_partial`: on the same instance and a text with one statement all
    hypotheses hold and the statement's position moves from 0 to 5 -/
example : (Ty.stmt.parseStartsAt toyEnvNoRange true 5 : Res (Out _)) = .ok (.stmt 5) ∧
    (Ty.stmt.parseStartsAt toyEnvNoRange true 0 : Res (Out _)) = .ok (.stmt 0) ∧
    StmtNonEmpty toyEnvNoRange .stmt (filterTrivia toyEnvNoRange (Ty.stmt.lexStartsAt toyEnvNoRange true 0)) := by
  refine ⟨rfl, rfl, ?_⟩
  intro _ m hm
  simp [parseFiltered, filterTrivia, Ty.lexStartsAt, toyEnvNoRange] at hm
  subst hm
  simp

theorem toy_shiftEnv (b : Bool) (k : Nat) : ShiftEnv (toyEnv b) toyShift k where
  lex := by intro m src; cases src <;> simp [toyEnv, toyShift, Nat.add_comm]
  parse := by
    intro m toks
    rcases toks with _ | ⟨a, _ | ⟨t, rest⟩⟩
    · simp [toyEnv, shiftRes]
    · cases b <;> simp [toyEnv, toyShift, shiftRes, shiftMod]
    · simp [toyEnv, toyShift, shiftRes, shiftMod]
  marker := by intro m a b; rfl
  trivia := by intro t; rfl

/-- **Finding (marker, range)**: the lexer and the parser translate, yet `parse_starts_at` does not:
    the module range starts at the marker's `0`, not at `k`
    (code: `parse_starts_at("x\n", Mode::Module, _, 100)` with `all-nodes-with-ranges` gives `0..102`). -/
theorem marker_range_breaks_module_range :
    freeParseStartsAt (toyEnv true) .module true 5 = .ok (.module ⟨(0, 6), [], ()⟩) ∧
    shiftRes 5 (shiftMod toyShift 5) (freeParseStartsAt (toyEnv true) .module true 0) = .ok (.module ⟨(5, 6), [], ()⟩) := by
  constructor <;> rfl

/-- **Finding (marker, error offset)**: a text without tokens is rejected at the marker's end, offset
    0, whatever the start offset (code: `parse_starts_at("", Mode::Expression, _, 100)` = `Eof` at 0). -/
theorem marker_range_breaks_eof_offset :
    freeParseStartsAt (toyEnv false) .expression false 5 = .err "Eof" 0 ∧
    shiftRes 5 (shiftMod toyShift 5) (freeParseStartsAt (toyEnv false) .expression false 0) = .err "Eof" 5 := by
  constructor <;> rfl

/-! ## 3. Mode names -/

/-- `Mode::from_str`, evaluated by the real code on the candidate names of `tools/props/c09.py` on every
    run, agrees with the reference reading of the names (on those candidates — the domain of all
    strings is not finite; this is a table check, not a universal statement). -/
theorem mode_names : ∀ row ∈ Gen.modeTable, modeNameOk row.1 row.2 = true := by decide

/-! ## non-vacuity of section 1 -/

/-- a generated row, a one-statement module of the matching kind: the hypotheses of
    `generated_parsers_agree` hold and its conclusion pins the result down -/
example : (⟨.stmt, 24, .stmt, .stmt, .stmt, 24, true, .nodeStart⟩ : TypedParser) ∈ Gen.typedParsers := by decide

example : ((Ty.typed ⟨.stmt, 0, .stmt, .stmt, .stmt, 0, true, .nodeStart⟩).parseTokens toyEnvNoRange [(3, 4)]
    : Res (Out _)) = .ok (.payload 3) := rfl

example : ((Ty.typed ⟨.stmt, 1, .stmt, .stmt, .stmt, 1, true, .nodeStart⟩).parseTokens toyEnvNoRange [(3, 4)]
    : Res (Out _)) = .err "InvalidToken" 3 := rfl

end PV.C09
