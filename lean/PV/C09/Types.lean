/-
  C09 — basic types shared by the hand-written model and the regenerated tables
  (`PV/Gen/C09TypedParsers.lean`, `PV/Gen/C09ModeNames.lean`).  Core Lean only.
-/
namespace PV.C09

/-- `rustpython_parser_core::Mode` -/
inductive Mode where
  | module | interactive | expression
  deriving DecidableEq, Repr, Inhabited

/-- which of the two sum types a generated parser belongs to / delegates to / matches on -/
inductive Parent where
  | stmt | expr
  deriving DecidableEq, Repr, Inhabited

/-- class of the offset expression in the `Err(ParseError { offset: … })` arm of a generated parser -/
inductive ErrOff where
  | nodeStart   -- `node.range().start()`
  | nodeEnd     -- `node.range().end()`
  | zero        -- `TextSize::default()` / `0.into()`
  deriving DecidableEq, Repr, Inhabited

/-- One `impl Parse for ast::<Enum><Variant>` of `parser/src/gen/parse.rs`, as read by
    `tools/c09_translate.py`.  Variants are numbered by their position in the enum definition in
    `ast/src/gen/generic.rs`; `typeIdx` is the position of the variant whose payload type is the
    implementing type. -/
structure TypedParser where
  typeEnum : Parent      -- enum that has a variant carrying the implementing type
  typeIdx : Nat          -- … and which variant that is
  lexVia : Parent        -- `ast::Stmt::lex_starts_at` or `ast::Expr::lex_starts_at`
  parseVia : Parent      -- `ast::Stmt::parse_tokens` or `ast::Expr::parse_tokens`
  matchEnum : Parent     -- enum named in the `Ok` arm pattern
  matchIdx : Nat         -- variant named in the `Ok` arm pattern
  errInvalidToken : Bool -- the error arm reports `ParseErrorType::InvalidToken`
  errOff : ErrOff
  deriving DecidableEq, Repr, Inhabited

/-- the row is the parser the property describes: it unwraps exactly the variant that carries the
    implementing type, through the parser of that variant's enum, and reports `InvalidToken` at the
    node start otherwise -/
def TypedParser.WF (p : TypedParser) : Prop :=
  p.lexVia = p.typeEnum ∧ p.parseVia = p.typeEnum ∧ p.matchEnum = p.typeEnum ∧
  p.matchIdx = p.typeIdx ∧ p.errInvalidToken = true ∧ p.errOff = ErrOff.nodeStart

instance (p : TypedParser) : Decidable p.WF := by unfold TypedParser.WF; infer_instance

end PV.C09
