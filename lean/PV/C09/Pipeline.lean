import PV.Lexer.SoftKw
import PV.Prog.Parse
/-
  PV.Pipeline — text → answer ON THE MODELS: the lexer model (`PV.Lexer.lex`: lexer + soft-keyword pass, in either lexer
  configuration, from any start offset), the trivia filter of `parse_filtered_tokens`, a token conversion, and the
  reference parser for whole programs `PV.Prog.parseProgram` (tied to the generated LR parser by the PROG correspondence).

  This is the object about which the end-to-end corollaries of C03 (`lex_parse_total_model`), C09 (`lex_parse_shift_model`)
  and C10 (`feature_tree_invariant`) speak.  As in `PV.C08.layout_tree_invariant`, the map from the lexer model's tokens to
  the parser's alphabet (string literals decoded, float numerals converted; the one the PROG correspondence uses is
  `decodeTok` of `lean/Drv/Prog.lean` on the harness's token dump) is a PARAMETER `conv`: the corollaries hold for EVERY
  such map.  What `conv` cannot do by its type: look at a token's position.

  What the pipeline does NOT model: the error the LR parser reports (kind, offset) when it rejects, and what it does with
  the tokens in front of a lexical error (it may report a syntax error before it reaches the error item) — for a text
  that does not lex the answer is just that first lexical error.

  Core Lean only.
-/
namespace PV.Pipeline
open PV.Lexer

/-- token conversion: sees the token, never its position -/
abbrev Conv := Tok → Option PV.Prog.PTok

/-- the parser is run in the mode the text was lexed in -/
def progMode : Mode → PV.Prog.Mode
  | .module => .module
  | .interactive => .interactive
  | .expression => .expression

/-- `parse_filtered_tokens`: comment / non-logical-newline tokens (emitted only with `full-lexer`) never reach the parser -/
def filterTrivia (toks : List Spanned) : List Spanned := toks.filter (fun t => !t.tok.isTrivia)

/-- every token converted, with its byte range (`none` if some token has no counterpart) -/
def convAll (conv : Conv) : List Spanned → Option (List PV.Prog.STok)
  | [] => some []
  | t :: ts =>
    match conv t.tok, convAll conv ts with
    | some p, some r => some (⟨p, t.bs, t.be⟩ :: r)
    | _, _ => none

/-- the spanned token stream handed to the parser -/
def parserInput (conv : Conv) (toks : List Spanned) : Option (List PV.Prog.STok) := convAll conv (filterTrivia toks)

/-- what the pipeline answers -/
inductive Answer
  /-- `Ok(tree)` (ranges and ctx erased, as `PV.Prog.Mod` is) -/
  | tree (m : PV.Prog.Mod)
  /-- the text lexes, the parser rejects the token stream (or a token has no conversion) -/
  | rejected
  /-- the token stream ends in its first lexical error: kind and byte offset -/
  | lexError (kind : ErrKind) (offset : Nat)
  /-- the lexer model ran out of fuel (never: `PV.C03.lex_parse_total_model`) -/
  | lexOutOfFuel
  /-- the Rust code would panic: a modelled `unwrap` fails or `location` overflows `u32` -/
  | panic

/-- the parser applied to the result of the lexer; `extra` = parser fuel on top of the driver's `fuelFor` -/
def answerOfFuel (extra : Nat) (conv : Conv) (pmode : PV.Prog.Mode) : Option LexOut → Answer
  | none => .panic
  | some o =>
    match o.fin with
    | .eof =>
      (match parserInput conv o.toks with
       | some ts =>
         (match PV.Prog.parseProgramFuel
             (PV.Prog.fuelFor ((PV.Prog.eraseSpans ts).map PV.Prog.PTok.toTok) + extra) pmode (PV.Prog.eraseSpans ts) with
          | some m => .tree m
          | none => .rejected)
       | none => .rejected)
    | .err k _ b => .lexError k b
    | .outOfFuel => .lexOutOfFuel

/-- with the driver's fuel: `PV.Prog.parseSpanned` on the parser input -/
def answerOf (conv : Conv) (pmode : PV.Prog.Mode) (r : Option LexOut) : Answer := answerOfFuel 0 conv pmode r

/-- **text → answer on the models**: `parse_starts_at(src, mode, start)` in the lexer configuration `cfg` -/
def parseText (conv : Conv) (cfg : Cfg) (mode : Mode) (start : Nat) (src : List Nat) : Answer :=
  answerOf conv (progMode mode) (lex cfg mode start src)

/-- the same with `extra` more parser fuel -/
def parseTextFuel (extra : Nat) (conv : Conv) (cfg : Cfg) (mode : Mode) (start : Nat) (src : List Nat) : Answer :=
  answerOfFuel extra conv (progMode mode) (lex cfg mode start src)

theorem parseTextFuel_zero (conv : Conv) (cfg : Cfg) (mode : Mode) (start : Nat) (src : List Nat) :
    parseTextFuel 0 conv cfg mode start src = parseText conv cfg mode start src := rfl

/-- on a text that lexes, the answer is the reference parser's on the converted stream -/
theorem answerOf_eof (conv : Conv) (pmode : PV.Prog.Mode) (o : LexOut) (h : o.fin = .eof) :
    answerOf conv pmode (some o) =
      match (parserInput conv o.toks).bind (PV.Prog.parseSpanned pmode) with
      | some m => .tree m
      | none => .rejected := by
  unfold answerOf answerOfFuel
  simp only [h]
  cases parserInput conv o.toks with
  | none => rfl
  | some ts => simp [PV.Prog.parseSpanned, PV.Prog.parseProgram]

/-- the answer is a lexical error exactly when the lexer's stream ends in that error -/
theorem answerOfFuel_lexError_iff (extra : Nat) (conv : Conv) (pmode : PV.Prog.Mode) (r : Option LexOut) (kind : ErrKind)
    (offset : Nat) :
    answerOfFuel extra conv pmode r = .lexError kind offset ↔ ∃ c, r.map (·.fin) = some (.err kind c offset) := by
  cases r with
  | none => simp [answerOfFuel]
  | some o =>
    simp only [answerOfFuel, Option.map_some, Option.some.injEq]
    cases o.fin with
    | eof =>
      simp only [reduceCtorEq, exists_false, iff_false]
      intro h'
      repeat' (split at h')
      all_goals cases h'
    | outOfFuel => simp
    | err kd c b =>
      simp only [Answer.lexError.injEq, LexEnd.err.injEq]
      constructor
      · rintro ⟨rfl, rfl⟩; exact ⟨c, rfl, rfl, rfl⟩
      · rintro ⟨_, rfl, _, rfl⟩; exact ⟨rfl, rfl⟩

/-! ### the filter -/

theorem filterTrivia_idem (toks : List Spanned) : filterTrivia (filterTrivia toks) = filterTrivia toks := by
  simp [filterTrivia, List.filter_filter]

theorem parserInput_filter (conv : Conv) (toks : List Spanned) :
    parserInput conv (filterTrivia toks) = parserInput conv toks := by
  simp [parserInput, filterTrivia_idem]

/-- a conversion for the tokens of the examples: names, integers, `=`, `(`, `)`, `,`, the keywords `if` / `type`, `:`, and
    the layout tokens -/
def sampleConv : Conv
  | .name n => some (.e (.name n))
  | .int v => some (.e (.int v))
  | .kw .If => some (.e (.kw .if))
  | .kw .Type_ => some (.e (PV.Prog.HK.tok .type))
  | .op .Colon => some (.e (.op .colon))
  | .op .Equal => some (.e (.op .assign))
  | .op .Lpar => some (.e (.op .lpar))
  | .op .Rpar => some (.e (.op .rpar))
  | .op .Comma => some (.e (.op .comma))
  | .newline => some .newline
  | .indent => some .indent
  | .dedent => some .dedent
  | _ => none

/-- the ASCII instantiation of the Unicode parameters (non-ASCII: nothing) -/
def asciiUp : UParams where
  xidStart c := isAsciiLetter c
  xidContinue c := isAsciiLetter c || isDigit c || c == 95
  emoji _ := false

end PV.Pipeline
