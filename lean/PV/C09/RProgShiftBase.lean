import PV.Prog.Thm
import PV.C02.RProgErase
import PV.C09.RShift
/-
  PV.C09.RProgShiftBase — definitions and helper lemmas for `PV.C09.parseRProgram_shift` (lean/PV/C09/RProgShift.lean):
  the maps that move EVERY range of a ranged program `PV.C02.RMod` by `k` (`shiftRMod k`, `shS k` = `shiftRStmt k`,
  `shPat k`, `shArguments k`, …: one per node type of `PV/C02/RProgSyntax.lean`, expressions by `shE k`), that nothing
  but the ranges changes (`erase_shS`, `erase_shiftRMod`), how the DERIVED ends of the grammar actions move (`lastEnd`,
  `handlersEnd`, `casesEnd`, `ifEndR`, `loopEndR`, `tryEndR`: they are ranges of children, so they move with the child —
  provided the block is not empty, which is why the lemmas about suites also say that the list is not empty), the
  expression-level facts in the shape the program-level induction uses them (`test_sh`, … : `shiftAt` with the fuel
  quantified), and the tactic of that induction (`pcore`).
-/
set_option linter.unusedSimpArgs false
set_option linter.unusedVariables false
namespace PV.C09
open PV.Expr PV.C11 PV.C02 PV.Prog

/-! ## the shift of every node type -/

def shArg (k : Nat) (a : RArg) : RArg := ⟨shRg k a.rg, a.name, shO k a.annotation⟩
def shArgD (k : Nat) (p : RArgD) : RArgD := ⟨shRg k p.rg, shArg k p.arg, shO k p.default⟩
/-- the parameters moved, the range of the `Arguments` node itself kept (the accumulator of `parseRTypedParams` carries a
    dummy range until `parseRParameters` sets it) -/
def shArgItems (k : Nat) (a : RArguments) : RArguments :=
  { rg := a.rg, posonly := a.posonly.map (shArgD k), args := a.args.map (shArgD k), vararg := a.vararg.map (shArg k),
    kwonly := a.kwonly.map (shArgD k), kwarg := a.kwarg.map (shArg k) }
def shArguments (k : Nat) (a : RArguments) : RArguments := { shArgItems k a with rg := shRg k a.rg }
def shAlias (k : Nat) (a : RAlias) : RAlias := ⟨shRg k a.rg, a.name, a.asname⟩
def shWithItem (k : Nat) (w : RWithItem) : RWithItem := ⟨shRg k w.rg, shE k w.contextExpr, shO k w.optionalVars⟩
def shTypeParam (k : Nat) : RTypeParam → RTypeParam
  | .typeVar rg n b => .typeVar (shRg k rg) n (shO k b)
  | .paramSpec rg n => .paramSpec (shRg k rg) n
  | .typeVarTuple rg n => .typeVarTuple (shRg k rg) n

mutual
def shPat (k : Nat) : RPattern → RPattern
  | .matchValue rg v => .matchValue (shRg k rg) (shE k v)
  | .matchSingleton rg c => .matchSingleton (shRg k rg) c
  | .matchSequence rg ps => .matchSequence (shRg k rg) (shPats k ps)
  | .matchMapping rg ks ps r => .matchMapping (shRg k rg) (shL k ks) (shPats k ps) r
  | .matchClass rg c ps ka kp => .matchClass (shRg k rg) (shE k c) (shPats k ps) ka (shPats k kp)
  | .matchStar rg n => .matchStar (shRg k rg) n
  | .matchAs rg p n => .matchAs (shRg k rg) (shPatO k p) n
  | .matchOr rg ps => .matchOr (shRg k rg) (shPats k ps)
def shPats (k : Nat) : List RPattern → List RPattern
  | [] => []
  | p :: ps => shPat k p :: shPats k ps
def shPatO (k : Nat) : Option RPattern → Option RPattern
  | none => none
  | some p => some (shPat k p)
end

mutual
/-- move every range of a ranged statement by `k`; nothing else changes -/
def shS (k : Nat) : RStmt → RStmt
  | .functionDef rg n a b d r tp =>
    .functionDef (shRg k rg) n (shArguments k a) (shSs k b) (shL k d) (shO k r) (tp.map (shTypeParam k))
  | .asyncFunctionDef rg n a b d r tp =>
    .asyncFunctionDef (shRg k rg) n (shArguments k a) (shSs k b) (shL k d) (shO k r) (tp.map (shTypeParam k))
  | .classDef rg n bs ks b d tp =>
    .classDef (shRg k rg) n (shL k bs) (shKs k ks) (shSs k b) (shL k d) (tp.map (shTypeParam k))
  | .return rg v => .return (shRg k rg) (shO k v)
  | .delete rg ts => .delete (shRg k rg) (shL k ts)
  | .assign rg ts v => .assign (shRg k rg) (shL k ts) (shE k v)
  | .typeAlias rg n tp v => .typeAlias (shRg k rg) (shE k n) (tp.map (shTypeParam k)) (shE k v)
  | .augAssign rg t o v => .augAssign (shRg k rg) (shE k t) o (shE k v)
  | .annAssign rg t a v s => .annAssign (shRg k rg) (shE k t) (shE k a) (shO k v) s
  | .for rg t i b o => .for (shRg k rg) (shE k t) (shE k i) (shSs k b) (shSs k o)
  | .asyncFor rg t i b o => .asyncFor (shRg k rg) (shE k t) (shE k i) (shSs k b) (shSs k o)
  | .while rg t b o => .while (shRg k rg) (shE k t) (shSs k b) (shSs k o)
  | .if rg t b o => .if (shRg k rg) (shE k t) (shSs k b) (shSs k o)
  | .with rg items b => .with (shRg k rg) (items.map (shWithItem k)) (shSs k b)
  | .asyncWith rg items b => .asyncWith (shRg k rg) (items.map (shWithItem k)) (shSs k b)
  | .match rg s cs => .match (shRg k rg) (shE k s) (shCases k cs)
  | .raise rg e c => .raise (shRg k rg) (shO k e) (shO k c)
  | .try rg b hs o f => .try (shRg k rg) (shSs k b) (shHs k hs) (shSs k o) (shSs k f)
  | .tryStar rg b hs o f => .tryStar (shRg k rg) (shSs k b) (shHs k hs) (shSs k o) (shSs k f)
  | .assert rg t m => .assert (shRg k rg) (shE k t) (shO k m)
  | .import rg ns => .import (shRg k rg) (ns.map (shAlias k))
  | .importFrom rg m ns l => .importFrom (shRg k rg) m (ns.map (shAlias k)) l
  | .global rg ns => .global (shRg k rg) ns
  | .nonlocal rg ns => .nonlocal (shRg k rg) ns
  | .expr rg e => .expr (shRg k rg) (shE k e)
  | .pass rg => .pass (shRg k rg)
  | .break rg => .break (shRg k rg)
  | .continue rg => .continue (shRg k rg)
def shSs (k : Nat) : List RStmt → List RStmt
  | [] => []
  | s :: ss => shS k s :: shSs k ss
def shHs (k : Nat) : List RHandler → List RHandler
  | [] => []
  | .mk rg ty nm b :: hs => .mk (shRg k rg) (shO k ty) nm (shSs k b) :: shHs k hs
def shCases (k : Nat) : List RCase → List RCase
  | [] => []
  | .mk rg p g b :: cs => .mk (shRg k rg) (shPat k p) (shO k g) (shSs k b) :: shCases k cs
end

/-- `shiftRStmt k` — every range of every node of a statement moved by `k`, nothing else changed -/
abbrev shiftRStmt (k : Nat) : RStmt → RStmt := shS k

/-- **`shiftRMod k`** — every range of every node of a parse result moved by `k`, nothing else changed -/
def shiftRMod (k : Nat) : RMod → RMod
  | .module rg b => .module (shRg k rg) (shSs k b)
  | .interactive rg b => .interactive (shRg k rg) (shSs k b)
  | .expression rg e => .expression (shRg k rg) (shE k e)

/-- an `elif` clause with the start of its keyword -/
def shElif (k : Nat) (c : Nat × RExpr × List RStmt) : Nat × RExpr × List RStmt := (c.1 + k, shE k c.2.1, shSs k c.2.2)

/-- an element between the parentheses after `with (` -/
def shWElem (k : Nat) (el : RWElem) : RWElem := ⟨shE k el.e, el.special, shO k el.v, shRg k el.ext⟩

/-! ### list lemmas -/

@[simp] theorem shPats_nil (k : Nat) : shPats k [] = [] := by rw [shPats]
@[simp] theorem shPats_cons (k : Nat) (p : RPattern) (ps : List RPattern) : shPats k (p :: ps) = shPat k p :: shPats k ps := by
  rw [shPats]
@[simp] theorem shPats_append (k : Nat) (a b : List RPattern) : shPats k (a ++ b) = shPats k a ++ shPats k b := by
  induction a with
  | nil => simp
  | cons x xs ih => simp [ih]
@[simp] theorem shPatO_none (k : Nat) : shPatO k none = none := by rw [shPatO]
@[simp] theorem shPatO_some (k : Nat) (p : RPattern) : shPatO k (some p) = some (shPat k p) := by rw [shPatO]
@[simp] theorem shSs_nil (k : Nat) : shSs k [] = [] := by rw [shSs]
@[simp] theorem shSs_cons (k : Nat) (s : RStmt) (ss : List RStmt) : shSs k (s :: ss) = shS k s :: shSs k ss := by rw [shSs]
@[simp] theorem shSs_append (k : Nat) (a b : List RStmt) : shSs k (a ++ b) = shSs k a ++ shSs k b := by
  induction a with
  | nil => simp
  | cons x xs ih => simp [ih]
@[simp] theorem shHs_nil (k : Nat) : shHs k [] = [] := by rw [shHs]
@[simp] theorem shHs_cons (k : Nat) (rg : Rg) (ty : Option RExpr) (nm : Option Ident) (b : List RStmt) (hs : List RHandler) :
    shHs k (.mk rg ty nm b :: hs) = .mk (shRg k rg) (shO k ty) nm (shSs k b) :: shHs k hs := by rw [shHs]
@[simp] theorem shCases_nil (k : Nat) : shCases k [] = [] := by rw [shCases]
@[simp] theorem shCases_cons (k : Nat) (rg : Rg) (p : RPattern) (g : Option RExpr) (b : List RStmt) (cs : List RCase) :
    shCases k (.mk rg p g b :: cs) = .mk (shRg k rg) (shPat k p) (shO k g) (shSs k b) :: shCases k cs := by rw [shCases]

@[simp] theorem shSs_eq_nil (k : Nat) (a : List RStmt) : shSs k a = [] ↔ a = [] := by cases a <;> simp
@[simp] theorem shHs_eq_nil (k : Nat) (a : List RHandler) : shHs k a = [] ↔ a = [] := by
  cases a with
  | nil => simp
  | cons x xs => cases x; simp
@[simp] theorem shCases_eq_nil (k : Nat) (a : List RCase) : shCases k a = [] ↔ a = [] := by
  cases a with
  | nil => simp
  | cons x xs => cases x; simp
@[simp] theorem shPats_eq_nil (k : Nat) (a : List RPattern) : shPats k a = [] ↔ a = [] := by cases a <;> simp

theorem shPats_eq_singleton (k : Nat) (ps : List RPattern) (q : RPattern) :
    shPats k ps = [q] ↔ ∃ p, ps = [p] ∧ shPat k p = q := by
  rcases ps with _ | ⟨p, _ | ⟨p2, ps⟩⟩ <;> simp
theorem shL_eq_singleton (k : Nat) (es : List RExpr) (q : RExpr) :
    shL k es = [q] ↔ ∃ e, es = [e] ∧ shE k e = q := by
  rcases es with _ | ⟨p, _ | ⟨p2, ps⟩⟩ <;> simp

theorem shSs_eq_map (k : Nat) (a : List RStmt) : shSs k a = a.map (shS k) := by
  induction a with
  | nil => simp
  | cons x xs ih => simp [ih]
theorem shL_eq_map (k : Nat) (a : List RExpr) : shL k a = a.map (shE k) := by
  induction a with
  | nil => simp
  | cons x xs ih => simp [ih]
theorem shPats_eq_map (k : Nat) (a : List RPattern) : shPats k a = a.map (shPat k) := by
  induction a with
  | nil => simp
  | cons x xs ih => simp [ih]

@[simp] theorem shL_getLast? (k : Nat) (l : List RExpr) : (shL k l).getLast? = l.getLast?.map (shE k) := by
  rw [shL_eq_map, List.getLast?_map]
@[simp] theorem shL_head? (k : Nat) (l : List RExpr) : (shL k l).head? = l.head?.map (shE k) := by
  rw [shL_eq_map, List.head?_map]
@[simp] theorem shL_dropLast (k : Nat) (l : List RExpr) : (shL k l).dropLast = shL k l.dropLast := by
  simp [shL_eq_map, List.map_dropLast]
@[simp] theorem shSs_getLast? (k : Nat) (l : List RStmt) : (shSs k l).getLast? = l.getLast?.map (shS k) := by
  rw [shSs_eq_map, List.getLast?_map]

/-! ### ranges -/

@[simp] theorem range_shS (k : Nat) (s : RStmt) : (shS k s).range = shRg k s.range := by
  cases s <;> simp [shS, RStmt.range]
@[simp] theorem range_shPat (k : Nat) (p : RPattern) : (shPat k p).range = shRg k p.range := by
  cases p <;> simp [shPat, RPattern.range]
@[simp] theorem range_shTypeParam (k : Nat) (t : RTypeParam) : (shTypeParam k t).range = shRg k t.range := by
  cases t <;> simp [shTypeParam, RTypeParam.range]
@[simp] theorem range_shiftRMod (k : Nat) (m : RMod) : (shiftRMod k m).range = shRg k m.range := by
  cases m <;> simp [shiftRMod, RMod.range]

/-! ### the derived ends move with the child they are read from -/

theorem lastEnd_shSs (k : Nat) {ss : List RStmt} (h : ss ≠ []) : lastEnd (shSs k ss) = lastEnd ss + k := by
  unfold lastEnd
  rw [shSs_getLast?]
  cases hl : ss.getLast? with
  | none => simp [List.getLast?_eq_none_iff] at hl; exact absurd hl h
  | some s => simp

theorem getLast?_shHs (k : Nat) : ∀ hs : List RHandler, (shHs k hs).getLast?.map RHandler.range =
    hs.getLast?.map (fun h => shRg k h.range)
  | [] => by simp
  | [.mk rg ty nm b] => by simp [RHandler.range]
  | .mk rg ty nm b :: h2 :: hs => by
    obtain ⟨rg2, ty2, nm2, b2⟩ := h2
    have := getLast?_shHs k (.mk rg2 ty2 nm2 b2 :: hs)
    simp only [shHs_cons, List.getLast?_cons_cons] at this ⊢
    exact this

theorem handlersEnd_shHs (k : Nat) {hs : List RHandler} (h : hs ≠ []) : handlersEnd (shHs k hs) = handlersEnd hs + k := by
  have e := getLast?_shHs k hs
  unfold handlersEnd
  cases hl : hs.getLast? with
  | none => simp [List.getLast?_eq_none_iff] at hl; exact absurd hl h
  | some x =>
    rw [hl] at e
    cases hl' : (shHs k hs).getLast? with
    | none => simp [hl'] at e
    | some y => simp [hl'] at e; simp [e]

/-- every case has a body -/
def CasesNE (cs : List RCase) : Prop := ∀ c ∈ cs, c.body ≠ []

@[simp] theorem CasesNE_nil : CasesNE [] := by simp [CasesNE]
@[simp] theorem CasesNE_cons (rg : Rg) (p : RPattern) (g : Option RExpr) (b : List RStmt) (cs : List RCase) :
    CasesNE (.mk rg p g b :: cs) ↔ b ≠ [] ∧ CasesNE cs := by simp [CasesNE, RCase.body]

theorem casesEnd_shCases (k : Nat) : ∀ {cs : List RCase}, cs ≠ [] → CasesNE cs → casesEnd (shCases k cs) = casesEnd cs + k
  | [], h, _ => absurd rfl h
  | [.mk rg p g b], _, hb => by
    have : b ≠ [] := hb (.mk rg p g b) (by simp)
    simp [casesEnd, RCase.body, lastEnd_shSs k this]
  | .mk rg p g b :: c2 :: cs, _, hb => by
    obtain ⟨rg2, p2, g2, b2⟩ := c2
    have ih := casesEnd_shCases k (cs := .mk rg2 p2 g2 b2 :: cs) (by simp) (fun c hc => hb c (by simp at hc ⊢; right; exact hc))
    simp only [casesEnd, shCases_cons, List.getLast?_cons_cons] at ih ⊢
    exact ih

/-- every `elif` clause has a body -/
def ElifsNE (cs : List (Nat × RExpr × List RStmt)) : Prop := ∀ c ∈ cs, c.2.2 ≠ []

@[simp] theorem ElifsNE_nil : ElifsNE [] := by simp [ElifsNE]
@[simp] theorem ElifsNE_cons (st : Nat) (t : RExpr) (b : List RStmt) (cs : List (Nat × RExpr × List RStmt)) :
    ElifsNE ((st, t, b) :: cs) ↔ b ≠ [] ∧ ElifsNE cs := by simp [ElifsNE]

theorem ifEndR_shift (k : Nat) {body : List RStmt} {s2 : List (Nat × RExpr × List RStmt)} {s3 : Option (List RStmt)}
    (hb : body ≠ []) (h2 : ElifsNE s2) (h3 : ∀ l, s3 = some l → l ≠ []) :
    ifEndR (shSs k body) (s2.map (shElif k)) (s3.map (shSs k)) = ifEndR body s2 s3 + k := by
  unfold ifEndR
  cases s3 with
  | some l => simp [lastEnd_shSs k (h3 l rfl)]
  | none =>
    simp only [Option.map_none, List.getLast?_map]
    cases hl : s2.getLast? with
    | none => simp [lastEnd_shSs k hb]
    | some c =>
      have : c ∈ s2 := List.mem_of_getLast? hl
      simp [shElif, lastEnd_shSs k (h2 c this)]

theorem elifFoldR_shift (k e : Nat) : ∀ (cs : List (Nat × RExpr × List RStmt)) (last : List RStmt),
    elifFoldR (e + k) (cs.map (shElif k)) (shSs k last) = shSs k (elifFoldR e cs last)
  | [], last => by simp [elifFoldR]
  | (st, t, b) :: cs, last => by
    simp only [List.map_cons, shElif, elifFoldR]
    rw [← elifFoldR_shift k e cs]
    simp [shS, shRg]

theorem ifAssembleR_shift (k st : Nat) (test : RExpr) {body : List RStmt} {s2 : List (Nat × RExpr × List RStmt)}
    {s3 : Option (List RStmt)} (hb : body ≠ []) (h2 : ElifsNE s2) (h3 : ∀ l, s3 = some l → l ≠ []) :
    ifAssembleR (st + k) (shE k test) (shSs k body) (s2.map (shElif k)) (s3.map (shSs k)) =
      shS k (ifAssembleR st test body s2 s3) := by
  unfold ifAssembleR
  rw [ifEndR_shift k hb h2 h3, ← List.map_reverse]
  have e : (s3.map (shSs k)).getD [] = shSs k (s3.getD []) := by cases s3 <;> simp
  rw [e, elifFoldR_shift]
  simp [shS, shRg]

theorem loopEndR_shift (k : Nat) {body : List RStmt} {oe : Option (List RStmt)} (hb : body ≠ [])
    (h3 : ∀ l, oe = some l → l ≠ []) : loopEndR (shSs k body) (oe.map (shSs k)) = loopEndR body oe + k := by
  unfold loopEndR
  cases oe with
  | some l => simp [lastEnd_shSs k (h3 l rfl)]
  | none => simp [lastEnd_shSs k hb]

theorem tryEndR_shift (k : Nat) {hs : List RHandler} {oe fb : Option (List RStmt)} (hh : hs ≠ [])
    (h3 : ∀ l, oe = some l → l ≠ []) (h4 : ∀ l, fb = some l → l ≠ []) :
    tryEndR (shHs k hs) (oe.map (shSs k)) (fb.map (shSs k)) = tryEndR hs oe fb + k := by
  unfold tryEndR
  cases fb with
  | some l => simp [lastEnd_shSs k (h4 l rfl)]
  | none =>
    cases oe with
    | some l => simp [lastEnd_shSs k (h3 l rfl)]
    | none => simp [handlersEnd_shHs k hh]

@[simp] theorem getD_map_shSs (k : Nat) (o : Option (List RStmt)) : (o.map (shSs k)).getD [] = shSs k (o.getD []) := by
  cases o <;> simp

theorem matchSubjectR_shift (k : Nat) {es : List RExpr} (tc : Bool) (h : es ≠ []) :
    matchSubjectR (shL k es, tc) = shE k (matchSubjectR (es, tc)) := by
  rcases es with _ | ⟨e, _ | ⟨e2, es⟩⟩
  · exact absurd rfl h
  · cases tc <;> simp [matchSubjectR, shE, shRg]
  · simp only [matchSubjectR, shL_cons, shE, shRg]
    simp only [← shL_cons, shL_getLast?, shL_head?]
    cases hl : (e :: e2 :: es).getLast? with
    | none => simp at hl
    | some x => simp

/-! ### the small helpers of the grammar actions -/

theorem genericListR_shift (k : Nat) (rg : Rg) (es : List RExpr) (tc : Bool) :
    genericListR (shRg k rg) (shL k es, tc) = shE k (genericListR rg (es, tc)) := by
  rcases es with _ | ⟨e, _ | ⟨e2, es⟩⟩ <;> cases tc <;> simp [genericListR, shE]

theorem assignOfR_shift (k : Nat) (rg : Rg) (first : RExpr) (suffix : List RExpr) :
    assignOfR (shRg k rg) (shE k first) (shL k suffix) = (assignOfR rg first suffix).map (shS k) := by
  unfold assignOfR
  rw [shL_getLast?]
  cases suffix.getLast? <;> simp [shS]

@[simp] theorem isNameR_shE (k : Nat) (e : RExpr) : isNameR (shE k e) = isNameR e := by
  cases e <;> simp [shE, isNameR]

theorem argDR_shift (k : Nat) (rg : Rg) (n : Ident) (an d : Option RExpr) :
    argDR (shRg k rg) n (shO k an) (shO k d) = shArgD k (argDR rg n an d) := by
  cases d <;> simp [argDR, shArgD, shArg, shRg]

@[simp] theorem shArgItems_rg (k : Nat) (a : RArguments) : (shArgItems k a).rg = a.rg := rfl
@[simp] theorem shArgItems_posonly (k : Nat) (a : RArguments) : (shArgItems k a).posonly = a.posonly.map (shArgD k) := rfl
@[simp] theorem shArgItems_args (k : Nat) (a : RArguments) : (shArgItems k a).args = a.args.map (shArgD k) := rfl
@[simp] theorem shArgItems_vararg (k : Nat) (a : RArguments) : (shArgItems k a).vararg = a.vararg.map (shArg k) := rfl
@[simp] theorem shArgItems_kwonly (k : Nat) (a : RArguments) : (shArgItems k a).kwonly = a.kwonly.map (shArgD k) := rfl
@[simp] theorem shArgItems_kwarg (k : Nat) (a : RArguments) : (shArgItems k a).kwarg = a.kwarg.map (shArg k) := rfl

@[simp] theorem argNamesR_shArgItems (k : Nat) (a : RArguments) : argNamesR (shArgItems k a) = argNamesR a := by
  simp [argNamesR, shArgItems, shArgD, shArg, Function.comp_def, ← List.map_append]

@[simp] theorem validNamesR_shArgItems (k : Nat) (a : RArguments) : validNamesR (shArgItems k a) = validNamesR a := by
  simp [validNamesR]

theorem dropWhile_map_shArgD (k : Nat) (p : Option RExpr → Bool) (hp : ∀ o, p (shO k o) = p o) :
    ∀ l : List RArgD, (l.map (shArgD k)).dropWhile (fun a => p a.default) = (l.dropWhile (fun a => p a.default)).map (shArgD k)
  | [] => rfl
  | x :: xs => by
    simp only [List.map_cons, List.dropWhile_cons]
    have : p (shArgD k x).default = p x.default := hp _
    rw [this]
    split
    · exact dropWhile_map_shArgD k p hp xs
    · rfl

@[simp] theorem isNone_shO (k : Nat) (o : Option RExpr) : (shO k o).isNone = o.isNone := by cases o <;> simp
@[simp] theorem isSome_shO (k : Nat) (o : Option RExpr) : (shO k o).isSome = o.isSome := by cases o <;> simp

@[simp] theorem validPosR_map (k : Nat) (l : List RArgD) : validPosR (l.map (shArgD k)) = validPosR l := by
  unfold validPosR
  rw [dropWhile_map_shArgD k (fun o => o.isNone) (isNone_shO k), dropWhile_map_shArgD k (fun o => o.isSome) (isSome_shO k)]
  simp

@[simp] theorem bareStarOkRA_shArgItems (k : Nat) (a : RArguments) (ph : Nat) :
    bareStarOkRA (shArgItems k a) ph = bareStarOkRA a ph := by
  simp [bareStarOkRA]

/-! ### with items -/

theorem asItemsR_shift (k : Nat) : ∀ (seen : Bool) (els : List RWElem),
    asItemsR seen (els.map (shWElem k)) = (asItemsR seen els).map (shWithItem k)
  | _, [] => rfl
  | seen, el :: els => by
    simp only [List.map_cons, asItemsR, shWElem, isSome_shO]
    rw [← asItemsR_shift k _ els]
    cases hs : (seen || el.v.isSome) <;> simp [shWithItem, shWElem]

theorem withParenItemsR_shift (k : Nat) (pr : Rg) (els : List RWElem) (tc : Bool) :
    withParenItemsR (shRg k pr) (els.map (shWElem k)) tc = (withParenItemsR pr els tc).map (·.map (shWithItem k)) := by
  unfold withParenItemsR
  simp only [List.any_map, List.all_map, Function.comp_def, shWElem, isSome_shO]
  split
  · split
    · rfl
    · simp [asItemsR_shift, shWElem]
  · split
    · simp [shWithItem, Function.comp_def, shWElem]
    · rcases els with _ | ⟨el, _ | ⟨el2, els⟩⟩ <;> cases tc <;>
        simp [shWithItem, shE, shWElem, Function.comp_def, shL_eq_map]
      split <;> simp [shWithItem]

/-! ### nothing but the ranges changes -/

@[simp] theorem erase_shArg (k : Nat) (a : RArg) : (shArg k a).erase = a.erase := by simp [shArg, RArg.erase]
@[simp] theorem erase_shArgD (k : Nat) (a : RArgD) : (shArgD k a).erase = a.erase := by simp [shArgD, RArgD.erase]
@[simp] theorem erase_shArguments (k : Nat) (a : RArguments) : (shArguments k a).erase = a.erase := by
  simp [shArguments, shArgItems, RArguments.erase, Function.comp_def]
@[simp] theorem erase_shAlias (k : Nat) (a : RAlias) : (shAlias k a).erase = a.erase := by simp [shAlias, RAlias.erase]
@[simp] theorem erase_shWithItem (k : Nat) (a : RWithItem) : (shWithItem k a).erase = a.erase := by
  simp [shWithItem, RWithItem.erase]
@[simp] theorem erase_shTypeParam (k : Nat) (a : RTypeParam) : (shTypeParam k a).erase = a.erase := by
  cases a <;> simp [shTypeParam, RTypeParam.erase]

mutual
theorem erase_shPat (k : Nat) : ∀ p : RPattern, (shPat k p).erase = p.erase
  | .matchValue rg v => by simp [shPat, RPattern.erase]
  | .matchSingleton rg c => by simp [shPat, RPattern.erase]
  | .matchSequence rg ps => by simp [shPat, RPattern.erase, erasePats_shPats k ps]
  | .matchMapping rg ks ps r => by simp [shPat, RPattern.erase, erasePats_shPats k ps]
  | .matchClass rg c ps ka kp => by simp [shPat, RPattern.erase, erasePats_shPats k ps, erasePats_shPats k kp]
  | .matchStar rg n => by simp [shPat, RPattern.erase]
  | .matchAs rg p n => by simp [shPat, RPattern.erase, erasePatOpt_shPatO k p]
  | .matchOr rg ps => by simp [shPat, RPattern.erase, erasePats_shPats k ps]
theorem erasePats_shPats (k : Nat) : ∀ l : List RPattern, erasePats (shPats k l) = erasePats l
  | [] => by simp
  | p :: ps => by simp [erasePats, erase_shPat k p, erasePats_shPats k ps]
theorem erasePatOpt_shPatO (k : Nat) : ∀ o : Option RPattern, erasePatOpt (shPatO k o) = erasePatOpt o
  | none => by simp
  | some p => by simp [erasePatOpt, erase_shPat k p]
end

attribute [simp] erase_shPat erasePats_shPats erasePatOpt_shPatO

mutual
/-- nothing but the ranges changes: the range-erased statement is the same -/
theorem erase_shS (k : Nat) : ∀ s : RStmt, (shS k s).erase = s.erase
  | .functionDef rg n a b d r tp => by simp [shS, RStmt.erase, eraseStmts_shSs k b, Function.comp_def]
  | .asyncFunctionDef rg n a b d r tp => by simp [shS, RStmt.erase, eraseStmts_shSs k b, Function.comp_def]
  | .classDef rg n bs ks b d tp => by simp [shS, RStmt.erase, eraseStmts_shSs k b, Function.comp_def]
  | .return rg v => by simp [shS, RStmt.erase]
  | .delete rg ts => by simp [shS, RStmt.erase]
  | .assign rg ts v => by simp [shS, RStmt.erase]
  | .typeAlias rg n tp v => by simp [shS, RStmt.erase, Function.comp_def]
  | .augAssign rg t o v => by simp [shS, RStmt.erase]
  | .annAssign rg t a v s => by simp [shS, RStmt.erase]
  | .for rg t i b o => by simp [shS, RStmt.erase, eraseStmts_shSs k b, eraseStmts_shSs k o]
  | .asyncFor rg t i b o => by simp [shS, RStmt.erase, eraseStmts_shSs k b, eraseStmts_shSs k o]
  | .while rg t b o => by simp [shS, RStmt.erase, eraseStmts_shSs k b, eraseStmts_shSs k o]
  | .if rg t b o => by simp [shS, RStmt.erase, eraseStmts_shSs k b, eraseStmts_shSs k o]
  | .with rg items b => by simp [shS, RStmt.erase, eraseStmts_shSs k b, Function.comp_def]
  | .asyncWith rg items b => by simp [shS, RStmt.erase, eraseStmts_shSs k b, Function.comp_def]
  | .match rg s cs => by simp [shS, RStmt.erase, eraseCases_shCases k cs]
  | .raise rg e c => by simp [shS, RStmt.erase]
  | .try rg b hs o f => by
    simp [shS, RStmt.erase, eraseStmts_shSs k b, eraseStmts_shSs k o, eraseStmts_shSs k f, eraseHandlers_shHs k hs]
  | .tryStar rg b hs o f => by
    simp [shS, RStmt.erase, eraseStmts_shSs k b, eraseStmts_shSs k o, eraseStmts_shSs k f, eraseHandlers_shHs k hs]
  | .assert rg t m => by simp [shS, RStmt.erase]
  | .import rg ns => by simp [shS, RStmt.erase, Function.comp_def]
  | .importFrom rg m ns l => by simp [shS, RStmt.erase, Function.comp_def]
  | .global rg ns => by simp [shS, RStmt.erase]
  | .nonlocal rg ns => by simp [shS, RStmt.erase]
  | .expr rg e => by simp [shS, RStmt.erase]
  | .pass rg => by simp [shS, RStmt.erase]
  | .break rg => by simp [shS, RStmt.erase]
  | .continue rg => by simp [shS, RStmt.erase]
theorem eraseStmts_shSs (k : Nat) : ∀ l : List RStmt, eraseStmts (shSs k l) = eraseStmts l
  | [] => by simp
  | s :: ss => by simp [erase_shS k s, eraseStmts_shSs k ss]
theorem eraseHandlers_shHs (k : Nat) : ∀ l : List RHandler, eraseHandlers (shHs k l) = eraseHandlers l
  | [] => by simp [eraseHandlers]
  | .mk rg ty nm b :: hs => by simp [eraseHandlers, eraseStmts_shSs k b, eraseHandlers_shHs k hs]
theorem eraseCases_shCases (k : Nat) : ∀ l : List RCase, eraseCases (shCases k l) = eraseCases l
  | [] => by simp [eraseCases]
  | .mk rg p g b :: cs => by simp [eraseCases, eraseStmts_shSs k b, eraseCases_shCases k cs]
end

attribute [simp] erase_shS eraseStmts_shSs eraseHandlers_shHs eraseCases_shCases

/-- **nothing but the ranges changes**: the range-erased parse result (`PV.Prog.Mod`) of the shifted tree is the same -/
theorem erase_shiftRMod (k : Nat) (m : RMod) : (shiftRMod k m).erase = m.erase := by
  cases m <;> simp [shiftRMod, RMod.erase]

/-! ## the expression level, in the shape the program-level induction uses it -/

section
variable {k N : Nat} {σ σ' : SpanTab}

theorem test_sh (h : TabRel k N σ σ') : ∀ f ts e rest, ts.length ≤ N → parseRTest σ f ts = some (e, rest) →
    rest.length < ts.length ∧ parseRTest σ' f ts = some (shE k e, rest) :=
  fun f => (shiftAt k f).test N σ σ' h
theorem namedTest_sh (h : TabRel k N σ σ') : ∀ f ts e rest, ts.length ≤ N → parseRNamedTest σ f ts = some (e, rest) →
    rest.length < ts.length ∧ parseRNamedTest σ' f ts = some (shE k e, rest) :=
  fun f => (shiftAt k f).namedTest N σ σ' h
theorem starOrNamed_sh (h : TabRel k N σ σ') : ∀ f ts e rest, ts.length ≤ N → parseRStarOrNamed σ f ts = some (e, rest) →
    rest.length < ts.length ∧ parseRStarOrNamed σ' f ts = some (shE k e, rest) :=
  fun f => (shiftAt k f).starOrNamed N σ σ' h
theorem testOrStar_sh (h : TabRel k N σ σ') : ∀ f ts e rest, ts.length ≤ N → parseRTestOrStar σ f ts = some (e, rest) →
    rest.length < ts.length ∧ parseRTestOrStar σ' f ts = some (shE k e, rest) :=
  fun f => (shiftAt k f).testOrStar N σ σ' h
theorem exprOrStar_sh (h : TabRel k N σ σ') : ∀ f ts e rest, ts.length ≤ N → parseRExprOrStar σ f ts = some (e, rest) →
    rest.length < ts.length ∧ parseRExprOrStar σ' f ts = some (shE k e, rest) :=
  fun f => (shiftAt k f).exprOrStar N σ σ' h
theorem targetList_sh (h : TabRel k N σ σ') : ∀ f ts e rest, ts.length ≤ N → parseRTargetList σ f ts = some (e, rest) →
    rest.length < ts.length ∧ parseRTargetList σ' f ts = some (shE k e, rest) :=
  fun f => (shiftAt k f).targetList N σ σ' h
theorem bin_sh (h : TabRel k N σ σ') : ∀ lvl f ts e rest, ts.length ≤ N → parseRBin σ lvl f ts = some (e, rest) →
    rest.length < ts.length ∧ parseRBin σ' lvl f ts = some (shE k e, rest) :=
  fun lvl f => (shiftAt k f).bin N σ σ' h lvl
theorem yieldAtom_sh (h : TabRel k N σ σ') : ∀ f ts e rest, ts.length + 1 ≤ N → parseRYieldAtom σ f ts = some (e, rest) →
    rest.length < ts.length ∧ parseRYieldAtom σ' f ts = some (shE k e, rest) :=
  fun f => (shiftAt k f).yieldAtom N σ σ' h
theorem compFor_sh (h : TabRel k N σ σ') : ∀ f ts gs rest, ts.length ≤ N → parseRCompFor σ f ts = some (gs, rest) →
    rest.length < ts.length ∧ parseRCompFor σ' f ts = some (shCs k gs, rest) :=
  fun f => (shiftAt k f).compFor N σ σ' h
theorem args_sh (h : TabRel k N σ σ') : ∀ f ts as ks d as' ks' rest, ts.length ≤ N →
    parseRArgs σ f ts as ks d = some ((as', ks'), rest) →
    rest.length < ts.length ∧ parseRArgs σ' f ts (shL k as) (shKs k ks) d = some ((shL k as', shKs k ks'), rest) :=
  fun f => (shiftAt k f).args N σ σ' h
theorem strings_sh (h : TabRel k N σ σ') : ∀ f t r e rest, (t :: r).length ≤ N → isStringTok t = true →
    parseRStrings σ f (t :: r) = some (e, rest) →
    rest.length < (t :: r).length ∧ parseRStrings σ' f (t :: r) = some (shE k e, rest) :=
  fun f => (shiftAt k f).strings N σ σ' h

theorem elem_sh (h : TabRel k N σ σ') : ∀ ek f ts e rest, ts.length ≤ N → parseRElem σ ek f ts = some (e, rest) →
    rest.length < ts.length ∧ parseRElem σ' ek f ts = some (shE k e, rest) := by
  intro ek f ts e rest hN hp
  cases ek <;> simp only [parseRElem] at hp ⊢
  · exact testOrStar_sh h f ts e rest hN hp
  · exact exprOrStar_sh h f ts e rest hN hp
  · exact starOrNamed_sh h f ts e rest hN hp
  · exact test_sh h f ts e rest hN hp

end

/-! ## the tactic of the program-level induction -/

/-- the forms in which the lemmas about the helpers of the grammar actions are used by `simp` / `grind`: ranges written as
    pairs of shifted components -/
theorem genericListR_shift' (k a b : Nat) (es : List RExpr) (tc : Bool) :
    genericListR (a + k, b + k) (shL k es, tc) = shE k (genericListR (a, b) (es, tc)) := genericListR_shift k (a, b) es tc
theorem assignOfR_shift' (k a b : Nat) (first : RExpr) (suffix : List RExpr) :
    assignOfR (a + k, b + k) (shE k first) (shL k suffix) = (assignOfR (a, b) first suffix).map (shS k) :=
  assignOfR_shift k (a, b) first suffix
theorem argDR_shift' (k a b : Nat) (n : Ident) (an d : Option RExpr) :
    argDR (a + k, b + k) n (shO k an) (shO k d) = shArgD k (argDR (a, b) n an d) := argDR_shift k (a, b) n an d

open Lean in
macro "pfin" "[" gs:term,* "]" : tactic => do
  let sl : TSyntaxArray `term := #[← `(shS), ← `(shE), ← `(shPat), ← `(L), ← `(R), ← `(P)] ++ gs.getElems
  let gl : TSyntaxArray `term := #[← `(TabRel), ← `(shRg)] ++ gs.getElems
  let gl2 : TSyntaxArray `term := #[← `(shE), ← `(shL), ← `(shO), ← `(shS), ← `(shSs), ← `(shPat), ← `(shPats), ← `(shPatO),
    ← `(shTypeParam), ← `(shAlias), ← `(shWithItem), ← `(shArg), ← `(shArgD), ← `(L), ← `(R), ← `(P), ← `(TabRel), ← `(shRg)] ++
    gs.getElems
  `(tactic| (
    first
    | (simp_all [$[$sl:term],*]; done)
    | (simp_all [$[$sl:term],*]; grind [$[$gl:term],*])
    | grind [$[$gl2:term],*]))

open Lean in
/-- the first half of `pcore`: the calls that were made are hypotheses `call = some v` of the context (left there by
    `fun_cases`), `h` is the equation between the value the function built and the answer; instantiate the given facts
    (terms `∀ args, side conditions → call = some v → consumption ∧ call' = some (shift v)`) at those calls, three rounds -/
macro "ppre" h:ident "[" fs:term,* "]" : tactic => do
  let mut round : Array (TSyntax `tactic) := #[]
  for f in fs.getElems do
    round := round.push (← `(tactic| hfwd $f))
  `(tactic| (
    all_goals try simp (config := { zetaDelta := true }) only [] at *
    all_goals try (repeat' split_match_hyp)
    all_goals try (repeat' (split at $h:ident))
    all_goals try simp only [Option.some.injEq, Prod.mk.injEq, List.cons.injEq, Tok.op.injEq, Tok.kw.injEq, reduceCtorEq,
      false_and, and_false, true_and, and_true, ↓reduceIte] at *
    all_goals try (repeat' and_hyp)
    all_goals try subst_vars
    all_goals try simp only [Option.some.injEq, Prod.mk.injEq, List.cons.injEq, Tok.op.injEq, Tok.kw.injEq, reduceCtorEq,
      false_and, and_false, true_and, and_true, ↓reduceIte] at *
    all_goals try (repeat' and_hyp)
    all_goals try subst_vars
    all_goals try simp only [List.length_cons] at *
    all_goals (
      $[$round]*
      try simp only [List.length_cons] at *
      $[$round]*
      try simp only [List.length_cons] at *
      $[$round]*
      try simp only [List.length_cons] at *)
    all_goals try (repeat' and_hyp)
    all_goals (try subst_vars)
    all_goals try simp only [List.length_cons] at *))

open Lean in
/-- `pcore h fn [facts] [extra]`: as `hcore` of `RShiftBase`; the goal may be a conjunction (consumption, non-emptiness, the
    equation).  The equation for `σ'`: evaluate the function by `simp` with the facts of the context, else rewrite with the
    equation lemma of the case (its side conditions are in the context) and split what is left, else unfold and split.
    `extra`: more lemmas for the closing `simp` / `simp_all` / `grind` -/
macro "pcore" h:ident fn:ident "[" fs:term,* "]" "[" gs:term,* "]" : tactic => do
  let eqd := mkIdent (fn.getId ++ `eq_def)
  let sl : TSyntaxArray `term := #[← `($fn:ident), ← `(shS), ← `(shE), ← `(shPat), ← `(L), ← `(R), ← `(P)] ++ gs.getElems
  let gl : TSyntaxArray `term := #[← `(shE), ← `(shL), ← `(shO), ← `(shS), ← `(shSs), ← `(shPat), ← `(shPats), ← `(shPatO),
    ← `(shTypeParam), ← `(shAlias), ← `(shWithItem), ← `(shArg), ← `(shArgD), ← `(L), ← `(R), ← `(P), ← `(TabRel), ← `(shRg)] ++
    gs.getElems
  `(tactic| (
    ppre $h [$fs,*]
    all_goals (
      and_intros
      all_goals (
        first
        | omega
        | (simp only [List.length_cons]; omega)
        | (simp; done)
        | (simp [*]; done)
        | (simp [$[$sl:term],*, *]; first | done | ((repeat' split) <;> grind [$[$gl:term],*]))
        | (rw [$fn:ident] <;> try assumption) <;> (first | done | ((repeat' split) <;> pfin [$gs,*]))
        | (rw [$eqd:ident]; done)
        | (rw [$eqd:ident]; (repeat' split) <;> pfin [$gs,*])))))

macro "pcore" h:ident fn:ident "[" fs:term,* "]" : tactic => `(tactic| pcore $h $fn [$fs,*] [])

open Lean in
/-- `pcoreM`: `pcore` without the evaluation by `simp` — for the functions of the two `mutual` blocks (patterns, compound
    statements), where `simp [fn]` with side conditions of overlapping patterns builds proof terms the kernel rejects -/
macro "pcoreM" h:ident fn:ident "[" fs:term,* "]" "[" gs:term,* "]" : tactic => do
  let eqd := mkIdent (fn.getId ++ `eq_def)
  `(tactic| (
    ppre $h [$fs,*]
    all_goals (
      and_intros
      all_goals (
        first
        | omega
        | (simp only [List.length_cons]; omega)
        | (simp; done)
        | (simp [*]; done)
        | (rw [$fn:ident] <;> try assumption) <;> (first | done | ((repeat' split) <;> pfin [$gs,*]))
        | (rw [$eqd:ident]; done)
        | (rw [$eqd:ident]; (repeat' split) <;> pfin [$gs,*])))))

macro "pcoreM" h:ident fn:ident "[" fs:term,* "]" : tactic => `(tactic| pcoreM $h $fn [$fs,*] [])

end PV.C09
