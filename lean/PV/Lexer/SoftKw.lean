import PV.Lexer.Model
/-
  PV.Lexer.SoftKw — model of `parser/src/soft_keywords.rs` (`SoftKeywordTransformer::next`) and the
  public entry point `lexer::lex_starts_at` = soft-keyword pass over the lexer.

  The Rust transformer wraps the lexer in an `itertools::MultiPeek` (which fuses the iterator) and,
  when it meets `match` / `case` / `type`, peeks ahead over the following tokens until a `Newline`,
  the first `Err`, or the end.  On the finite list "tokens up to the first error" this is a
  function of the rest of the list, so the pass is modelled as a list function: it never changes
  spans, the number of tokens, or the final error, only rewrites soft keywords to `Name`.

  `start_of_line` tracking: the Rust code has a `#[cfg(feature = "full-lexer")]` guard that keeps
  the flag unchanged across `Comment` / `NonLogicalNewline`.  Without the feature these variants do
  not exist, so the same function describes both configurations.

  Repaired code (/repo 11fc6d4, C01 finding `type-alias-not-at-line-start`): the transformer carries three state
  fields, `start_of_line` (used by `match` / `case`), `start_of_statement` (used by `type`: a type
  alias is a simple statement, so it may also follow a `;` or the `:` of a one-line compound
  statement) and `nesting` (open brackets after the last returned token; `;` / `:` count only outside
  brackets).  `SoftSt` is that state, `SoftSt.next` the update at the end of `next()`.
-/
namespace PV.Lexer

/-- `soft_to_name` -/
def softToName : Kw → Tok
  | .Match => .name [109, 97, 116, 99, 104]
  | .Case => .name [99, 97, 115, 101]
  | .Type_ => .name [116, 121, 112, 101]
  | k => .kw k            -- `unreachable!` (never called on other keywords)

/-- the look-ahead loop of the `Tok::Match | Tok::Case` arm over the tokens that follow; returns
    `seen_colon`.  `nesting` is a signed counter in the Rust code. -/
def matchCaseLook : List Spanned → (nesting : Int) → (first seenColon seenLambda : Bool) → Bool
  | [], _, _, sc, _ => sc
  | t :: ts, n, first, sc, sl =>
    match t.tok with
    | .newline => sc
    | .kw .Lambda =>
      if n = 0 then matchCaseLook ts n false sc true else matchCaseLook ts n false sc sl
    | .op .Colon =>
      if n = 0 then
        if sl then matchCaseLook ts n false sc false
        else if !first then matchCaseLook ts n false true sl
        else matchCaseLook ts n false sc sl
      else matchCaseLook ts n false sc sl
    | .op .Lpar | .op .Lsqb | .op .Lbrace => matchCaseLook ts (n + 1) false sc sl
    | .op .Rpar | .op .Rsqb | .op .Rbrace => matchCaseLook ts (n - 1) false sc sl
    | _ => matchCaseLook ts n false sc sl

/-- the inner loop of the `Tok::Type` arm (after the name token); returns `is_type_alias` -/
def typeLoop : List Spanned → (nesting : Int) → Bool
  | [], _ => false
  | t :: ts, n =>
    match t.tok with
    | .newline => false
    | .op .Equal => if n = 0 then true else if n > 0 then typeLoop ts n else false
    | .op .Lsqb => typeLoop ts (n + 1)
    | .op .Rsqb => typeLoop ts (n - 1)
    -- `#[cfg(feature = "full-lexer")] Tok::Comment(_) | Tok::NonLogicalNewline => {}` (repaired code,
    -- commit e335017; without `full-lexer` these tokens never occur)
    | .comment _ | .nonLogicalNewline => typeLoop ts n
    | _ => if n > 0 then typeLoop ts n else false

/-- the `Tok::Type` look-ahead: the next token must be a name (or a soft keyword) -/
def typeLook : List Spanned → Bool
  | [] => false
  | t :: ts =>
    match t.tok with
    | .name _ | .kw .Type_ | .kw .Match | .kw .Case => typeLoop ts 0
    | _ => false

/-- what `next()` returns for the token `t` followed by `ts`, given `start_of_line` (consulted by the
    `Match | Case` arm) and `start_of_statement` (consulted by the `Type` arm) -/
def softTok (sol sos : Bool) (t : Spanned) (ts : List Spanned) : Tok :=
  match t.tok with
  | .kw .Match => if !sol then softToName .Match else
      if matchCaseLook ts 0 true false false then t.tok else softToName .Match
  | .kw .Case => if !sol then softToName .Case else
      if matchCaseLook ts 0 true false false then t.tok else softToName .Case
  | .kw .Type_ => if !sos then softToName .Type_ else
      if typeLook ts then t.tok else softToName .Type_
  | x => x

/-- the update of `start_of_line` after returning `tok` -/
def nextSol (sol : Bool) (tok : Tok) : Bool :=
  if tok.isTrivia then sol else
  match tok with
  | .startModule | .startInteractive | .newline | .indent | .dedent => true
  | _ => false

/-- the update of `nesting` after returning `tok` (`u32`: `+= 1` / `saturating_sub(1)`; a text inside
    the 32-bit offset space has fewer than 2^32 brackets, so the addition cannot overflow) -/
def nextNesting (n : Nat) (tok : Tok) : Nat :=
  match tok with
  | .op .Lpar | .op .Lsqb | .op .Lbrace => n + 1
  | .op .Rpar | .op .Rsqb | .op .Rbrace => n - 1
  | _ => n

/-- the update of `start_of_statement` after returning `tok`; `n` is the ALREADY UPDATED `nesting` -/
def nextSos (sos : Bool) (n : Nat) (tok : Tok) : Bool :=
  if tok.isTrivia then sos else
  match tok with
  | .startModule | .startInteractive | .newline | .indent | .dedent => true
  | .op .Semi | .op .Colon => n == 0
  | _ => false

/-- the fields `start_of_line`, `start_of_statement`, `nesting` of `SoftKeywordTransformer` -/
structure SoftSt where
  sol : Bool
  sos : Bool
  nesting : Nat
  deriving DecidableEq, Repr

/-- `SoftKeywordTransformer::new(_, mode)` -/
def SoftSt.init (mode : Mode) : SoftSt := ⟨mode != .expression, mode != .expression, 0⟩

/-- the state after `next()` has returned `tok` -/
def SoftSt.next (st : SoftSt) (tok : Tok) : SoftSt :=
  let n := nextNesting st.nesting tok
  { sol := nextSol st.sol tok, sos := nextSos st.sos n tok, nesting := n }

def softKwGo : List Spanned → (st : SoftSt) → List Spanned
  | [], _ => []
  | t :: ts, st =>
    let tok := softTok st.sol st.sos t ts
    { t with tok := tok } :: softKwGo ts (st.next tok)

/-- `SoftKeywordTransformer::new(lexer, mode)` drained -/
def softKw (mode : Mode) (toks : List Spanned) : List Spanned :=
  softKwGo toks (SoftSt.init mode)

/-- `lexer::lex_starts_at(src, mode, start)` drained up to and including the first error.
    `none` = the Rust code panics. -/
def lex (cfg : Cfg) (mode : Mode) (start : Nat) (src : List Nat) : Option LexOut :=
  (lexRaw cfg start src).map fun o => { o with toks := softKw mode o.toks }

end PV.Lexer
