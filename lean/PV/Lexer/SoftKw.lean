import PV.Lexer.Model
/-
  PV.Lexer.SoftKw — model of `parser/src/soft_keywords.rs` (`SoftKeywordTransformer::next`) and the
  public entry point `lexer::lex_starts_at` = soft-keyword pass over the lexer.

  The Rust transformer wraps the lexer in an `itertools::MultiPeek` (which fuses the iterator) and,
  when it meets `match` / `case` / `type`, peeks ahead over the following tokens until a `Newline`,
  the first `Err`, or the end.  On the finite list "tokens up to the first error" this is a
  function of the rest of the list, so the pass is modelled as a list function: it never changes
  spans, the number of tokens, or the final error, only rewrites soft keywords to `Name`.

  `start_of_line` tracking: the Rust code has a `#[cfg(feature = "full-lexer")]` guard that keeps
  the flag unchanged across `Comment` / `NonLogicalNewline`.  Without the feature these variants do
  not exist, so the same function describes both configurations.
-/
namespace PV.Lexer

/-- `soft_to_name` -/
def softToName : Kw → Tok
  | .Match => .name [109, 97, 116, 99, 104]
  | .Case => .name [99, 97, 115, 101]
  | .Type_ => .name [116, 121, 112, 101]
  | k => .kw k            -- `unreachable!` (never called on other keywords)

/-- the look-ahead loop of the `Tok::Match | Tok::Case` arm over the tokens that follow; returns
    `seen_colon`.  `nesting` is a signed counter in the Rust code. -/
def matchCaseLook : List Spanned → (nesting : Int) → (first seenColon seenLambda : Bool) → Bool
  | [], _, _, sc, _ => sc
  | t :: ts, n, first, sc, sl =>
    match t.tok with
    | .newline => sc
    | .kw .Lambda =>
      if n = 0 then matchCaseLook ts n false sc true else matchCaseLook ts n false sc sl
    | .op .Colon =>
      if n = 0 then
        if sl then matchCaseLook ts n false sc false
        else if !first then matchCaseLook ts n false true sl
        else matchCaseLook ts n false sc sl
      else matchCaseLook ts n false sc sl
    | .op .Lpar | .op .Lsqb | .op .Lbrace => matchCaseLook ts (n + 1) false sc sl
    | .op .Rpar | .op .Rsqb | .op .Rbrace => matchCaseLook ts (n - 1) false sc sl
    | _ => matchCaseLook ts n false sc sl

/-- the inner loop of the `Tok::Type` arm (after the name token); returns `is_type_alias` -/
def typeLoop : List Spanned → (nesting : Int) → Bool
  | [], _ => false
  | t :: ts, n =>
    match t.tok with
    | .newline => false
    | .op .Equal => if n = 0 then true else if n > 0 then typeLoop ts n else false
    | .op .Lsqb => typeLoop ts (n + 1)
    | .op .Rsqb => typeLoop ts (n - 1)
    -- `#[cfg(feature = "full-lexer")] Tok::Comment(_) | Tok::NonLogicalNewline => {}` (repaired code,
    -- commit e335017; without `full-lexer` these tokens never occur)
    | .comment _ | .nonLogicalNewline => typeLoop ts n
    | _ => if n > 0 then typeLoop ts n else false

/-- the `Tok::Type` look-ahead: the next token must be a name (or a soft keyword) -/
def typeLook : List Spanned → Bool
  | [] => false
  | t :: ts =>
    match t.tok with
    | .name _ | .kw .Type_ | .kw .Match | .kw .Case => typeLoop ts 0
    | _ => false

/-- what `next()` returns for the token `t` followed by `ts`, given `start_of_line` -/
def softTok (sol : Bool) (t : Spanned) (ts : List Spanned) : Tok :=
  match t.tok with
  | .kw .Match => if !sol then softToName .Match else
      if matchCaseLook ts 0 true false false then t.tok else softToName .Match
  | .kw .Case => if !sol then softToName .Case else
      if matchCaseLook ts 0 true false false then t.tok else softToName .Case
  | .kw .Type_ => if !sol then softToName .Type_ else
      if typeLook ts then t.tok else softToName .Type_
  | x => x

/-- the update of `start_of_line` after returning `tok` -/
def nextSol (sol : Bool) (tok : Tok) : Bool :=
  if tok.isTrivia then sol else
  match tok with
  | .startModule | .startInteractive | .newline | .indent | .dedent => true
  | _ => false

def softKwGo : List Spanned → (sol : Bool) → List Spanned
  | [], _ => []
  | t :: ts, sol =>
    let tok := softTok sol t ts
    { t with tok := tok } :: softKwGo ts (nextSol sol tok)

/-- `SoftKeywordTransformer::new(lexer, mode)` drained -/
def softKw (mode : Mode) (toks : List Spanned) : List Spanned :=
  softKwGo toks (mode != .expression)

/-- `lexer::lex_starts_at(src, mode, start)` drained up to and including the first error.
    `none` = the Rust code panics. -/
def lex (cfg : Cfg) (mode : Mode) (start : Nat) (src : List Nat) : Option LexOut :=
  (lexRaw cfg start src).map fun o => { o with toks := softKw mode o.toks }

end PV.Lexer
