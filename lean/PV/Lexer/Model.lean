import PV.Lexer.Tok
/-
  PV.Lexer.Model — executable model of the hand-written lexer `parser/src/lexer.rs`
  (`Lexer::new`, `inner_next`, `handle_indentations`, `eat_indentation`, `consume_normal`,
  `consume_character`, `lex_identifier`, `lex_number*`, `lex_string`, `lex_comment`, `next_char`).
  The soft-keyword pass that `lexer::lex_starts_at` wraps around the lexer is in `SoftKw.lean`.

  Structure (DESIGN.md Appendix B):

  * the source is the list of its Unicode scalar values (`List Nat`; Rust iterates `chars()`);
    the three-element look-ahead window of the Rust lexer is the first three elements of the
    remaining input, matched by literal patterns;
  * `step cfg st inp` is ONE iteration of the `while self.pending.is_empty()` loop of `inner_next`
    (`handle_indentations` when at the beginning of a line, then `consume_normal`).  It returns the
    tokens pushed to `pending` with spans RELATIVE to `inp` (character indices), the number of
    characters consumed, the new `LexState` (`at_begin_of_line`, `nesting`, indentation stack) and
    whether `EndOfFile` was emitted.  When the iteration fails the tokens it had pushed are
    dropped: the Rust iterator hands out the `Err` *before* anything left in `pending`, and this
    model describes the stream up to and including the first error;
  * `lexAll` iterates `step` with fuel (`inp.length + 1` always suffices — theorem
    `PV.C05.lex_terminates`) and converts relative character spans to absolute character indices and
    byte offsets: byte offsets are accumulated exactly like `self.location += c.text_len()`;
  * `lexRaw` adds the BOM skip of `Lexer::new`; `PV.Lexer.lex` (SoftKw.lean) adds the soft-keyword pass.

  Every Rust `unwrap` / `expect` / `unreachable` / `TextSize` subtraction is a checked operation;
  failure is the pseudo error kind `ErrKind.panic`.  `u32` overflow of `location` is checked once at
  the end (`lexRaw`), which is equivalent because `location` only grows.

  Unicode data used by the Rust code (`unic_ucd_ident::{is_xid_start,is_xid_continue}`,
  `unic_emoji_char::is_emoji_presentation`) are PARAMETERS (`UParams`).

  Core Lean only.
-/
namespace PV.Lexer

/-! ## parameters and configuration -/

/-- external Unicode predicates, called exactly where the Rust code calls them -/
structure UParams where
  xidStart : Nat → Bool
  xidContinue : Nat → Bool
  emoji : Nat → Bool

/-- What the theorems need to know about the Unicode tables (true of the real ones; checked
    exhaustively over all scalar values on every run by the C05 `pre_build`):
    identifier-start characters are identifier characters (otherwise `lex_identifier` would emit an
    empty name without consuming anything), and line breaks, the quote characters, `#`, blanks and
    the backslash are not identifier characters. -/
structure UParams.Sane (up : UParams) : Prop where
  start_continue : ∀ c, up.xidStart c = true → up.xidContinue c = true
  cr : up.xidContinue 13 = false
  lf : up.xidContinue 10 = false

/-- `fullLexer` = `#[cfg(feature = "full-lexer")]` -/
structure Cfg where
  fullLexer : Bool
  up : UParams

/-! ## UTF-8 sizes (`char::len_utf8`, `TextLen for char`) -/

def csize (c : Nat) : Nat :=
  if c < 0x80 then 1 else if c < 0x800 then 2 else if c < 0x10000 then 3 else 4

def utf8Len : List Nat → Nat
  | [] => 0
  | c :: cs => csize c + utf8Len cs

def u32Max : Nat := 4294967295

/-! ## errors -/

/-- `LexicalErrorType` as far as the lexer produces it.  The five `other*` kinds are
    `OtherError(msg)` with different messages; `panic` marks a place where the Rust code would
    panic (never reached — `PV.C03`). -/
inductive ErrKind
  | stringError | nestingError | indentationError | tabError | tabsAfterSpaces
  | unrecognizedToken (c : Nat) | lineContinuationError | eof
  | otherInvalidSyntax      -- "Invalid Syntax"            (`_` after `.`, `e`, exponent sign)
  | otherInvalidDecimal     -- "Invalid decimal literal"   (`f64::from_str` failed)
  | otherInvalidToken       -- "Invalid Token"             (leading zeros)
  | otherEol                -- "EOL while scanning string literal"
  | otherRadix              -- `BigInt::from_str_radix` failed (no digits after `0x`/`0o`/`0b`)
  | panic
  deriving DecidableEq, Repr, Inhabited

/-- Rust variant name (messages are never compared) -/
def ErrKind.rustName : ErrKind → String
  | .stringError => "StringError" | .nestingError => "NestingError"
  | .indentationError => "IndentationError" | .tabError => "TabError"
  | .tabsAfterSpaces => "TabsAfterSpaces" | .unrecognizedToken _ => "UnrecognizedToken"
  | .lineContinuationError => "LineContinuationError" | .eof => "Eof"
  | .otherInvalidSyntax | .otherInvalidDecimal | .otherInvalidToken | .otherEol | .otherRadix => "OtherError"
  | .panic => "panic"

/-- error of a step or sub-lexer, relative to its input: `off` is the reported location, `reached`
    the number of characters consumed when it was raised (`off ≤ reached`) -/
structure ErrRel where
  kind : ErrKind
  off : Nat
  reached : Nat
  deriving DecidableEq, Repr, Inhabited

def ErrRel.shift (e : ErrRel) (p : Nat) : ErrRel := { e with off := e.off + p, reached := e.reached + p }

def panicErr (reached : Nat) : ErrRel := ⟨.panic, reached, reached⟩

/-! ## characters -/

/-- `Lexer::next_char` on the remaining input: the character returned (CR and CRLF are folded to
    LF), the number of characters taken from the input, and the rest.  The loops below
    (`scanFold`, `strLoop`, `eatIndent`) inline these three patterns so that they stay structurally
    recursive; every non-loop site calls this function. -/
def nextChar : List Nat → Option (Nat × Nat × List Nat)
  | [] => none
  | 13 :: 10 :: r => some (10, 2, r)
  | 13 :: r => some (10, 1, r)
  | c :: r => some (c, 1, r)

def isAsciiLetter (c : Nat) : Bool := (97 ≤ c && c ≤ 122) || (65 ≤ c && c ≤ 90)
def isDigit (c : Nat) : Bool := 48 ≤ c && c ≤ 57

/-- `Lexer::is_identifier_start` -/
def isIdStart (up : UParams) (c : Nat) : Bool :=
  if isAsciiLetter c || c == 95 then true else up.xidStart c

/-- `Lexer::is_identifier_continuation` on `window[0] = Some(c)` -/
def isIdCont (up : UParams) (c : Nat) : Bool :=
  if isAsciiLetter c || c == 95 || isDigit c then true else up.xidContinue c

/-- `Lexer::is_digit_of_radix` (`none`/other radix is not used) -/
def isDigitOf (radix : Nat) (c : Nat) : Bool :=
  match radix with
  | 2 => 48 ≤ c && c ≤ 49
  | 8 => 48 ≤ c && c ≤ 55
  | 10 => isDigit c
  | 16 => isDigit c || (97 ≤ c && c ≤ 102) || (65 ≤ c && c ≤ 70)
  | _ => false

def isLineBreak (c : Nat) : Bool := c == 10 || c == 13
/-- `' ' | '\t' | '\x0C'` -/
def isBlank (c : Nat) : Bool := c == 32 || c == 9 || c == 12
def isQuote (c : Nat) : Bool := c == 34 || c == 39

/-- number of leading characters satisfying `p` -/
def spanLen (p : Nat → Bool) : List Nat → Nat
  | [] => 0
  | c :: cs => if p c then spanLen p cs + 1 else 0

/-- `while p(window[0]) { acc.push(self.next_char().unwrap()) }`: the characters pushed (folded) and
    the number of characters consumed -/
def scanFold (p : Nat → Bool) : List Nat → List Nat × Nat
  | [] => ([], 0)
  | 13 :: 10 :: r => if p 13 then ((10 :: (scanFold p r).1), (scanFold p r).2 + 2) else ([], 0)
  | c :: r =>
    if p c then (((if c = 13 then 10 else c) :: (scanFold p r).1), (scanFold p r).2 + 1) else ([], 0)

/-! ## tokens with relative spans, lexer state -/

/-- a token pushed by one step; `s`, `e` are character indices into the step's own input -/
structure RelTok where
  tok : Tok
  s : Nat
  e : Nat
  deriving DecidableEq, Repr, Inhabited

def RelTok.shift (t : RelTok) (p : Nat) : RelTok := { t with s := t.s + p, e := t.e + p }

/-- `IndentationLevel` -/
structure IndentLevel where
  tabs : Nat
  spaces : Nat
  deriving DecidableEq, Repr, Inhabited

/-- `IndentationLevel::compare_strict`; `none` = `TabError` -/
def compareStrict (a b : IndentLevel) : Option Ordering :=
  match compare a.tabs b.tabs with
  | .lt => if a.spaces ≤ b.spaces then some .lt else none
  | .gt => if a.spaces ≥ b.spaces then some .gt else none
  | .eq => some (compare a.spaces b.spaces)

/-- the part of `Lexer` that survives between steps.  `indents` is `Indentations.indent_stack`
    with the TOP FIRST; it always ends with the base level `⟨0, 0⟩`. -/
structure LexState where
  atBol : Bool
  nesting : Nat
  indents : List IndentLevel
  deriving DecidableEq, Repr, Inhabited

/-- state after `Lexer::new` -/
def LexState.init : LexState := ⟨true, 0, [⟨0, 0⟩]⟩

/-- result of one step -/
structure StepOut where
  toks : List RelTok
  consumed : Nat
  st : LexState
  /-- `Tok::EndOfFile` was emitted (it is not part of `toks`: `Iterator::next` turns it into `None`) -/
  done : Bool
  deriving DecidableEq, Repr, Inhabited

/-! ## sub-lexers: input starts at the token start; result is the token and its length -/

abbrev Sub := Except ErrRel (Tok × Nat)

/-- `lex_comment` (both cfgs): number of characters up to, not including, the line break / EOF.
    `inp` starts with `#`. -/
def commentLen (inp : List Nat) : Nat := spanLen (fun c => !isLineBreak c) inp

/-- `lex_identifier` after the string-prefix test: the name loop and the keyword table -/
def lexName (up : UParams) (inp : List Nat) : Tok × Nat :=
  let r := scanFold (isIdCont up) inp
  match Kw.ofName r.1 with
  | some k => (.kw k, r.2)
  | none => (.name r.1, r.2)

/-! ### numbers -/

def digitVal (c : Nat) : Nat :=
  if isDigit c then c - 48 else if 97 ≤ c && c ≤ 102 then c - 87 else c - 55

/-- `BigInt::from_str_radix(text, radix)` / `text.parse::<BigInt>()` on a run of digits of that
    radix; `none` (= `Err`) on the empty text -/
def natOfDigits (radix : Nat) (ds : List Nat) : Option Nat :=
  if ds.isEmpty then none else some (ds.foldl (fun a d => a * radix + digitVal d) 0)

/-- `radix_run`: digits collected (underscores between digits dropped) and characters consumed -/
def radixRun (radix : Nat) : List Nat → List Nat × Nat
  | [] => ([], 0)
  | c :: cs =>
    if isDigitOf radix c then (c :: (radixRun radix cs).1, (radixRun radix cs).2 + 1)
    else if c = 95 then
      match cs with
      | d :: _ => if isDigitOf radix d then ((radixRun radix cs).1, (radixRun radix cs).2 + 1) else ([], 0)
      | [] => ([], 0)
    else ([], 0)

/-- `at_exponent` -/
def atExponent : List Nat → Bool
  | e :: s :: d :: _ =>
    (e == 101 || e == 69) && (((s == 43 || s == 45) && isDigit d) || isDigit s)
  | [e, s] => (e == 101 || e == 69) && isDigit s
  | _ => false

/-- `f64::from_str(text).is_ok()` for the texts the lexer builds
    (`digits* [. digits*] [e [+-] digits*]`): at least one mantissa digit, and an exponent marker
    must be followed by at least one digit. -/
def floatTextOk (t : List Nat) : Bool :=
  let n1 := spanLen isDigit t
  let r1 := t.drop n1
  let n2 := match r1 with
    | 46 :: r => spanLen isDigit r
    | _ => 0
  let r2 := match r1 with
    | 46 :: r => r.drop (spanLen isDigit r)
    | _ => r1
  if n1 + n2 = 0 then false else
  match r2 with
  | [] => true
  | e :: r =>
    if e = 101 || e = 69 then
      let r' := match r with
        | 43 :: x => x
        | 45 :: x => x
        | _ => r
      let n3 := spanLen isDigit r'
      decide (1 ≤ n3) && (r'.drop n3).isEmpty
    else false

/-- `lex_number_radix` after the two prefix characters -/
def lexNumberRadix (radix : Nat) (rest : List Nat) : Sub :=
  let r := radixRun radix rest
  match natOfDigits radix r.1 with
  | some v => .ok (.int v, 2 + r.2)
  | none => .error ⟨.otherRadix, 0, 2 + r.2⟩

/-- the optional `.digits` part of `lex_normal_number`: text and position after it -/
def fracPart (v : List Nat) (n : Nat) (r : List Nat) : Except ErrRel (List Nat × Nat) :=
  match r with
  | 46 :: rest =>
    if rest.head? = some 95 then .error ⟨.otherInvalidSyntax, n, n⟩
    else .ok (v ++ 46 :: (radixRun 10 rest).1, n + 1 + (radixRun 10 rest).2)
  | _ => .ok (v, n)

/-- the body of the exponent branch of `lex_normal_number` -/
def expPartBody (v : List Nat) (n : Nat) (r : List Nat) : Except ErrRel (List Nat × Nat) :=
  match r with
  | e :: rest =>
    if e = 101 || e = 69 then
      if rest.head? = some 95 then .error ⟨.otherInvalidSyntax, n, n⟩ else
      match rest with
      | s :: rest2 =>
        if s = 45 || s = 43 then
          if rest2.head? = some 95 then .error ⟨.otherInvalidSyntax, n + 1, n + 1⟩
          else .ok (v ++ 101 :: s :: (radixRun 10 rest2).1, n + 2 + (radixRun 10 rest2).2)
        else .ok (v ++ 101 :: (radixRun 10 rest).1, n + 1 + (radixRun 10 rest).2)
      | [] => .ok (v ++ [101], n + 1)
    else .ok (v, n)
  | [] => .ok (v, n)

/-- the optional exponent part of `lex_normal_number`, entered only `if self.at_exponent()`
    (repaired code, commit be24063: `1.else` is `1.` then `else`) -/
def expPart (v : List Nat) (n : Nat) (r : List Nat) : Except ErrRel (List Nat × Nat) :=
  if atExponent r then expPartBody v n r else .ok (v, n)

def isJ (c : Nat) : Bool := c == 106 || c == 74

/-- the integer branch of `lex_normal_number`: `value_text.parse::<BigInt>().unwrap()` and the
    leading-zero rule -/
def intTok (startIsZero : Bool) (ds : List Nat) (n : Nat) : Sub :=
  match natOfDigits 10 ds with
  | none => .error (panicErr n)
  | some v => if startIsZero && v != 0 then .error ⟨.otherInvalidToken, n, n⟩ else .ok (.int v, n)

/-- the float branch of `lex_normal_number`, after the leading `radix_run(10)` produced the digits
    `v1` and consumed `n1` characters of `inp` -/
def floatTail (inp : List Nat) (v1 : List Nat) (n1 : Nat) : Sub :=
  match fracPart v1 n1 (inp.drop n1) with
  | .error e => .error e
  | .ok (v2, n2) =>
    match expPart v2 n2 (inp.drop n2) with
    | .error e => .error e
    | .ok (v3, n3) =>
      if !floatTextOk v3 then .error ⟨.otherInvalidDecimal, n3, n3⟩
      else match inp.drop n3 with
        | c :: _ => if isJ c then .ok (.complex v3, n3 + 1) else .ok (.float v3, n3)
        | [] => .ok (.float v3, n3)

/-- the integer / imaginary-integer branch of `lex_normal_number` -/
def intTail (inp : List Nat) (startIsZero : Bool) (v1 : List Nat) (n1 : Nat) : Sub :=
  match inp.drop n1 with
  | c :: _ =>
    if isJ c then
      -- `f64::from_str(&value_text).unwrap()`
      if floatTextOk v1 then .ok (.complex v1, n1 + 1) else .error (panicErr (n1 + 1))
    else intTok startIsZero v1 n1
  | [] => intTok startIsZero v1 n1

/-- `lex_normal_number` -/
def lexNormalNumber (inp : List Nat) : Sub :=
  let r := radixRun 10 inp
  let r1 := inp.drop r.2
  if r1.head? = some 46 || atExponent r1 then floatTail inp r.1 r.2
  else intTail inp (inp.head? = some 48) r.1 r.2

/-- `lex_number` -/
def lexNumber (inp : List Nat) : Sub :=
  match inp with
  | 48 :: x :: rest =>
    if x = 120 || x = 88 then lexNumberRadix 16 rest
    else if x = 111 || x = 79 then lexNumberRadix 8 rest
    else if x = 98 || x = 66 then lexNumberRadix 2 rest
    else lexNormalNumber inp
  | _ => lexNormalNumber inp

/-! ### strings -/

def bump (k : Nat) (pre : List Nat) :
    Except (ErrKind × Nat) (List Nat × Nat) → Except (ErrKind × Nat) (List Nat × Nat)
  | .ok (v, n) => .ok (pre ++ v, n + k)
  | .error (e, off) => .error (e, off + k)

/-- the body loop of `lex_string` (input: after the opening quote(s)): the captured value and the
    number of characters consumed including the closing quote(s); errors carry the position.
    `q` is the quote character (`"` or `'`). -/
def strLoop (q : Nat) (triple : Bool) : List Nat → Except (ErrKind × Nat) (List Nat × Nat)
  | [] => .error (if triple then .eof else .stringError, 0)
  | [92] => .error (if triple then .eof else .stringError, 1)
  | 92 :: 13 :: 10 :: r => bump 3 [92, 10] (strLoop q triple r)
  | 92 :: 13 :: r => bump 2 [92, 10] (strLoop q triple r)
  | 92 :: c :: r => bump 2 [92, c] (strLoop q triple r)
  | 13 :: 10 :: r => if triple then bump 2 [10] (strLoop q triple r) else .error (.otherEol, 2)
  | 13 :: r => if triple then bump 1 [10] (strLoop q triple r) else .error (.otherEol, 1)
  | 10 :: r => if triple then bump 1 [10] (strLoop q triple r) else .error (.otherEol, 1)
  | c :: r =>
    if c = q then
      if triple then
        match r with
        | a :: b :: _ => if a = q && b = q then .ok ([], 3) else bump 1 [c] (strLoop q triple r)
        | _ => bump 1 [c] (strLoop q triple r)
      else .ok ([], 1)
    else bump 1 [c] (strLoop q triple r)

/-- `self.window[..2] == [Some(quote_char); 2]` right after the opening quote -/
def isTripleOpen (q : Nat) : List Nat → Bool
  | a :: b :: _ => a = q && b = q
  | _ => false

/-- `lex_string(kind)`; the caller guarantees that the character after the prefix is a quote -/
def lexString (kind : StringKind) (inp : List Nat) : Sub :=
  match inp.drop kind.prefixLen with
  | [] => .error (panicErr kind.prefixLen)                       -- `self.next_char().unwrap()`
  | q :: r =>
    if isTripleOpen q r then
      match strLoop q true (r.drop 2) with
      | .ok (value, n) => .ok (.string value kind true, kind.prefixLen + 3 + n)
      | .error (k, off) => .error ⟨k, kind.prefixLen + 3 + off, kind.prefixLen + 3 + off⟩
    else
      match strLoop q false r with
      | .ok (value, n) => .ok (.string value kind false, kind.prefixLen + 1 + n)
      | .error (k, off) => .error ⟨k, kind.prefixLen + 1 + off, kind.prefixLen + 1 + off⟩

/-- `lex_identifier`: string-prefix detection, then name / keyword -/
def lexIdentifier (up : UParams) (inp : List Nat) : Sub :=
  match inp with
  | c :: q :: rest =>
    if isQuote q then
      match StringKind.ofChar c with
      | some kind => lexString kind inp
      | none => .ok (lexName up inp)
    else
      match rest with
      | q2 :: _ =>
        if isQuote q2 then
          match StringKind.ofChars c q with
          | some kind => lexString kind inp
          | none => .ok (lexName up inp)
        else .ok (lexName up inp)
      | [] => .ok (lexName up inp)
  | _ => .ok (lexName up inp)

/-! ### operators -/

/-- the operator / delimiter arms of `consume_character` that neither touch `nesting` nor fail
    (`=`, `+`, `*`, `/`, `%`, `|`, `^`, `&`, `-`, `@`, `!=`, `~`, `:`, `;`, `<`, `>`, `,`, `.`):
    token and length.  (`.` followed by a digit is a number; the caller tests that first.) -/
def lexOp : List Nat → Option (Op × Nat)
  | 61 :: 61 :: _ => some (.EqEqual, 2)
  | 61 :: _ => some (.Equal, 1)
  | 43 :: 61 :: _ => some (.PlusEqual, 2)
  | 43 :: _ => some (.Plus, 1)
  | 42 :: 61 :: _ => some (.StarEqual, 2)
  | 42 :: 42 :: 61 :: _ => some (.DoubleStarEqual, 3)
  | 42 :: 42 :: _ => some (.DoubleStar, 2)
  | 42 :: _ => some (.Star, 1)
  | 47 :: 61 :: _ => some (.SlashEqual, 2)
  | 47 :: 47 :: 61 :: _ => some (.DoubleSlashEqual, 3)
  | 47 :: 47 :: _ => some (.DoubleSlash, 2)
  | 47 :: _ => some (.Slash, 1)
  | 37 :: 61 :: _ => some (.PercentEqual, 2)
  | 37 :: _ => some (.Percent, 1)
  | 124 :: 61 :: _ => some (.VbarEqual, 2)
  | 124 :: _ => some (.Vbar, 1)
  | 94 :: 61 :: _ => some (.CircumflexEqual, 2)
  | 94 :: _ => some (.CircumFlex, 1)
  | 38 :: 61 :: _ => some (.AmperEqual, 2)
  | 38 :: _ => some (.Amper, 1)
  | 45 :: 61 :: _ => some (.MinusEqual, 2)
  | 45 :: 62 :: _ => some (.Rarrow, 2)
  | 45 :: _ => some (.Minus, 1)
  | 64 :: 61 :: _ => some (.AtEqual, 2)
  | 64 :: _ => some (.At, 1)
  | 33 :: 61 :: _ => some (.NotEqual, 2)
  | 126 :: _ => some (.Tilde, 1)
  | 58 :: 61 :: _ => some (.ColonEqual, 2)
  | 58 :: _ => some (.Colon, 1)
  | 59 :: _ => some (.Semi, 1)
  | 60 :: 60 :: 61 :: _ => some (.LeftShiftEqual, 3)
  | 60 :: 60 :: _ => some (.LeftShift, 2)
  | 60 :: 61 :: _ => some (.LessEqual, 2)
  | 60 :: _ => some (.Less, 1)
  | 62 :: 62 :: 61 :: _ => some (.RightShiftEqual, 3)
  | 62 :: 62 :: _ => some (.RightShift, 2)
  | 62 :: 61 :: _ => some (.GreaterEqual, 2)
  | 62 :: _ => some (.Greater, 1)
  | 44 :: _ => some (.Comma, 1)
  | 46 :: 46 :: 46 :: _ => some (.Ellipsis, 3)
  | 46 :: _ => some (.Dot, 1)
  | _ => none

/-- opening brackets `(`, `[`, `{` -/
def openBracket : Nat → Option Op
  | 40 => some .Lpar
  | 91 => some .Lsqb
  | 123 => some .Lbrace
  | _ => none

/-- closing brackets `)`, `]`, `}` -/
def closeBracket : Nat → Option Op
  | 41 => some .Rpar
  | 93 => some .Rsqb
  | 125 => some .Rbrace
  | _ => none

/-! ## `consume_normal` / `consume_character` -/

def one (tok : Tok) (n : Nat) (st : LexState) : StepOut := ⟨[⟨tok, 0, n⟩], n, st, false⟩
def skip (n : Nat) (st : LexState) : StepOut := ⟨[], n, st, false⟩

def ofSub (st : LexState) : Sub → Except ErrRel StepOut
  | .ok (tok, n) => .ok (one tok n st)
  | .error e => .error e

/-- `while !self.indentations.is_empty() { pop; emit Dedent }`: number of `Dedent`s and the stack left -/
def flushIndents : List IndentLevel → Nat × List IndentLevel
  | [] => (0, [])
  | [b] => (0, [b])
  | _ :: r => ((flushIndents r).1 + 1, (flushIndents r).2)

/-- `matches!(self.window[1], Some('0'..='9'))` seen from the tail -/
def headIsDigit : List Nat → Bool
  | d :: _ => isDigit d
  | [] => false

/-- `consume_character(c)` with `inp = c :: cs` -/
def consumeCharacter (cfg : Cfg) (st : LexState) (c : Nat) (cs : List Nat) : Except ErrRel StepOut :=
  if isDigit c then ofSub st (lexNumber (c :: cs))
  else if c = 35 then                                              -- '#'
    let n := commentLen (c :: cs)
    if cfg.fullLexer then .ok (one (.comment ((c :: cs).take n)) n st) else .ok (skip n st)
  else if isQuote c then ofSub st (lexString .string (c :: cs))
  else if c = 33 then                                              -- '!'
    match cs with
    | 61 :: _ => .ok (one (.op .NotEqual) 2 st)
    | _ => .error ⟨.unrecognizedToken 33, 0, 1⟩
  else if c = 46 && headIsDigit cs then                           -- '.' digit
    ofSub st (lexNumber (c :: cs))
  else match lexOp (c :: cs) with
  | some (o, n) => .ok (one (.op o) n st)
  | none =>
  match openBracket c with
  | some o => .ok (one (.op o) 1 { st with nesting := st.nesting + 1 })
  | none =>
  match closeBracket c with
  | some o =>
    if st.nesting = 0 then .error ⟨.nestingError, 1, 1⟩
    else .ok (one (.op o) 1 { st with nesting := st.nesting - 1 })
  | none =>
  if isLineBreak c then                                            -- '\n' | '\r'
    match nextChar (c :: cs) with
    | none => .error (panicErr 0)
    | some (_, n, _) =>
      if st.nesting = 0 then .ok (one .newline n { st with atBol := true })
      else if cfg.fullLexer then .ok (one .nonLogicalNewline n st) else .ok (skip n st)
  else if isBlank c then .ok (skip (spanLen isBlank (c :: cs)) st)  -- ' ' | '\t' | '\x0C'
  else if c = 92 then                                              -- '\\'
    match cs with
    | d :: _ =>
      if isLineBreak d then
        match nextChar cs with
        | none => .error (panicErr 1)
        | some (_, n, rest) =>
          if rest.isEmpty then .error ⟨.eof, 1 + n, 1 + n⟩ else .ok (skip (1 + n) st)
      else .error ⟨.lineContinuationError, 1, 1⟩
    | [] => .error ⟨.lineContinuationError, 1, 1⟩
  else if cfg.up.emoji c then .ok (one (.name [c]) 1 st)
  else .error ⟨.unrecognizedToken c, 1, 1⟩

/-- the end-of-file branch of `consume_normal` -/
def consumeEof (st : LexState) : Except ErrRel StepOut :=
  if st.nesting > 0 then .error ⟨.eof, 0, 0⟩ else
  let nl : List RelTok := if st.atBol then [] else [⟨.newline, 0, 0⟩]
  let f := flushIndents st.indents
  .ok ⟨nl ++ List.replicate f.1 ⟨.dedent, 0, 0⟩, 0, { st with atBol := true, indents := f.2 }, true⟩

/-- `consume_normal` -/
def consumeNormal (cfg : Cfg) (st : LexState) (inp : List Nat) : Except ErrRel StepOut :=
  match inp with
  | [] => consumeEof st
  | c :: cs =>
    if isIdStart cfg.up c then ofSub st (lexIdentifier cfg.up inp)
    else consumeCharacter cfg st c cs

/-! ## indentation -/

/-- result of `eat_indentation` -/
structure EatOut where
  /-- `Comment` / `NonLogicalNewline` tokens (full lexer only) -/
  toks : List RelTok
  /-- characters consumed -/
  pos : Nat
  spaces : Nat
  tabs : Nat
  /-- `at_begin_of_line` afterwards: `false` when stopped in front of a significant character,
      unchanged (`true`) at end of input -/
  atBol : Bool
  deriving DecidableEq, Repr, Inhabited

def EatOut.addTok (full : Bool) (t : RelTok) : Except ErrRel EatOut → Except ErrRel EatOut
  | .ok o => .ok (if full then { o with toks := t :: o.toks } else o)
  | .error e => .error e

/-- `eat_indentation`: the loop over the blank prefix of a line.  `pos` is the index of the head of
    the list; `skip > 0` means the head belongs to a comment already lexed (by the `#` arm, which
    calls `lex_comment` and then continues the loop behind the comment). -/
def eatIndent (full : Bool) : List Nat → (skip pos spaces tabs : Nat) → Except ErrRel EatOut
  | [], _, pos, _, _ => .ok ⟨[], pos, 0, 0, true⟩                                  -- `None`
  | _ :: cs, k + 1, pos, s, t => eatIndent full cs k (pos + 1) s t
  | 32 :: cs, 0, pos, s, t => eatIndent full cs 0 (pos + 1) (s + 1) t
  | 9 :: cs, 0, pos, s, t =>
    if s ≠ 0 then .error ⟨.tabsAfterSpaces, pos, pos⟩ else eatIndent full cs 0 (pos + 1) s (t + 1)
  | 35 :: cs, 0, pos, _, _ =>
    let m := spanLen (fun c => !isLineBreak c) cs
    EatOut.addTok full ⟨.comment (35 :: cs.take m), pos, pos + 1 + m⟩ (eatIndent full cs m (pos + 1) 0 0)
  | 12 :: cs, 0, pos, _, _ => eatIndent full cs 0 (pos + 1) 0 0
  | 13 :: 10 :: cs, 0, pos, _, _ =>
    EatOut.addTok full ⟨.nonLogicalNewline, pos, pos + 2⟩ (eatIndent full cs 0 (pos + 2) 0 0)
  | 13 :: cs, 0, pos, _, _ =>
    EatOut.addTok full ⟨.nonLogicalNewline, pos, pos + 1⟩ (eatIndent full cs 0 (pos + 1) 0 0)
  | 10 :: cs, 0, pos, _, _ =>
    EatOut.addTok full ⟨.nonLogicalNewline, pos, pos + 1⟩ (eatIndent full cs 0 (pos + 1) 0 0)
  | _ :: _, 0, pos, s, t => .ok ⟨[], pos, s, t, false⟩

/-- the `Ordering::Less` loop of `handle_indentations`: pop levels until the level is found.
    Returns the number of `Dedent`s and the stack left. -/
def dedentLoop (level : IndentLevel) (pos : Nat) : List IndentLevel → Except ErrRel (Nat × List IndentLevel)
  | [] => .error (panicErr pos)                           -- `current()` on an empty stack
  | cur :: rest =>
    match compareStrict level cur with
    | none => .error ⟨.tabError, pos, pos⟩
    | some .lt =>
      match rest with
      | [] => .error (panicErr pos)                       -- `pop()` refuses to pop the base level
      | _ :: _ =>
        match dedentLoop level pos rest with
        | .ok (n, stack) => .ok (n + 1, stack)
        | .error e => .error e
    | some .eq => .ok (0, cur :: rest)
    | some .gt => .error ⟨.indentationError, pos, pos⟩

/-- `handle_indentations`: tokens, characters consumed, new state -/
def handleIndentations (cfg : Cfg) (st : LexState) (inp : List Nat) :
    Except ErrRel (List RelTok × Nat × LexState) :=
  match eatIndent cfg.fullLexer inp 0 0 0 0 with
  | .error e => .error e
  | .ok o =>
    let st1 := { st with atBol := o.atBol }
    if st.nesting ≠ 0 then .ok (o.toks, o.pos, st1) else
    let level : IndentLevel := ⟨o.tabs, o.spaces⟩
    match st.indents with
    | [] => .error (panicErr o.pos)
    | cur :: _ =>
      match compareStrict level cur with
      | none => .error ⟨.tabError, o.pos, o.pos⟩
      | some .eq => .ok (o.toks, o.pos, st1)
      | some .gt =>
        -- `tok_pos - TextSize::new(spaces) - TextSize::new(tabs)` (checked)
        if o.spaces + o.tabs ≤ o.pos then
          .ok (o.toks ++ [⟨.indent, o.pos - o.spaces - o.tabs, o.pos⟩], o.pos,
               { st1 with indents := level :: st.indents })
        else .error (panicErr o.pos)
      | some .lt =>
        match dedentLoop level o.pos st.indents with
        | .error e => .error e
        | .ok (n, stack) =>
          .ok (o.toks ++ List.replicate n ⟨.dedent, o.pos, o.pos⟩, o.pos, { st1 with indents := stack })

/-! ## one step, and the whole token stream -/

/-- one iteration of the `while self.pending.is_empty()` loop of `inner_next` -/
def step (cfg : Cfg) (st : LexState) (inp : List Nat) : Except ErrRel StepOut :=
  if st.atBol then
    match handleIndentations cfg st inp with
    | .error e => .error e
    | .ok (toks1, p, st1) =>
      match consumeNormal cfg st1 (inp.drop p) with
      | .error e => .error (e.shift p)
      | .ok o => .ok ⟨toks1 ++ o.toks.map (·.shift p), p + o.consumed, o.st, o.done⟩
  else consumeNormal cfg st inp

/-- a token of the stream: absolute character span `cs..ce` (index into the source, BOM
    included) and absolute byte span `bs..be` (what the Rust `TextRange` holds) -/
structure Spanned where
  tok : Tok
  cs : Nat
  ce : Nat
  bs : Nat
  be : Nat
  deriving DecidableEq, Repr, Inhabited

/-- how the stream ends -/
inductive LexEnd
  /-- `None` from the iterator (after `EndOfFile`) -/
  | eof
  /-- first `Err`: kind, character index, byte offset -/
  | err (kind : ErrKind) (coff boff : Nat)
  /-- the fuel ran out (never happens with `fuel ≥ length + 1`) -/
  | outOfFuel
  deriving DecidableEq, Repr, Inhabited

structure LexOut where
  toks : List Spanned
  fin : LexEnd
  /-- byte offset reached when the stream ended (for the `u32` overflow check) -/
  reachedB : Nat
  deriving DecidableEq, Repr, Inhabited

def absTok (inp : List Nat) (cbase bbase : Nat) (t : RelTok) : Spanned :=
  ⟨t.tok, cbase + t.s, cbase + t.e, bbase + utf8Len (inp.take t.s), bbase + utf8Len (inp.take t.e)⟩

/-- iterate `step`; `cbase` / `bbase` are the absolute character index / byte offset of the head
    of `inp` (`bbase` is `self.location`) -/
def lexAll (cfg : Cfg) : (fuel : Nat) → LexState → List Nat → (cbase bbase : Nat) → LexOut
  | 0, _, _, _, bbase => ⟨[], .outOfFuel, bbase⟩
  | fuel + 1, st, inp, cbase, bbase =>
    match step cfg st inp with
    | .error e => ⟨[], .err e.kind (cbase + e.off) (bbase + utf8Len (inp.take e.off)),
                    bbase + utf8Len (inp.take e.reached)⟩
    | .ok o =>
      let here := o.toks.map (absTok inp cbase bbase)
      if o.done then ⟨here, .eof, bbase + utf8Len (inp.take o.consumed)⟩ else
      let r := lexAll cfg fuel o.st (inp.drop o.consumed) (cbase + o.consumed)
                 (bbase + utf8Len (inp.take o.consumed))
      ⟨here ++ r.toks, r.fin, r.reachedB⟩

/-- `Lexer::new(src.chars(), start)` followed by draining the iterator up to and including the first
    error: the BOM skip, then `lexAll`.  `none` = the Rust code panics (a modelled `unwrap` fails, or
    `location` overflows `u32`). -/
def lexRawFuel (cfg : Cfg) (fuel : Nat) (start : Nat) (src : List Nat) : Option LexOut :=
  let out := match src with
    | 0xFEFF :: rest => lexAll cfg fuel .init rest 1 (start + 3)
    | _ => lexAll cfg fuel .init src 0 start
  if out.reachedB > u32Max then none
  else match out.fin with
    | .err .panic _ _ => none
    | _ => some out

def lexRaw (cfg : Cfg) (start : Nat) (src : List Nat) : Option LexOut :=
  lexRawFuel cfg (src.length + 1) start src

end PV.Lexer
