/-
  PV.Lexer.Tok — token type of the lexer model (mirrors `parser/src/token.rs`).

  Text is `List Nat` of Unicode scalar values (the Rust lexer iterates `chars()`).

  The Rust `enum Tok` is flat.  Here the payload-free operator/delimiter tokens are grouped in the
  enumeration `Op` and the keyword tokens in `Kw`, so that spelling tables are functions on small
  enumerations and case analyses on `Tok` stay small.  `Tok.rustName` gives back the Rust variant
  name (this is what both the harness and the driver print).

  Payloads:
    * `int v`        — `Tok::Int { value }`, arbitrary precision (`Nat`; the lexer never produces a sign)
    * `float text`   — `Tok::Float { value }` where `value = f64::from_str(text)`; `text` is the
                       cleaned numeral the Rust code hands to `f64::from_str` (underscores removed,
                       exponent marker lower-cased).  `PV.Lexer.floatBits` (FloatVal.lean) converts.
    * `complex text` — `Tok::Complex { real: 0.0, imag: f64::from_str(text) }`
    * `string value kind triple` — `Tok::String { value, kind, triple_quoted }`; `value` is the raw
                       body (escapes not decoded, CR / CRLF already folded to LF by `next_char`)
    * `comment text` — `Tok::Comment(text)`  (only with `fullLexer`)
-/
namespace PV.Lexer

/-- `token.rs` `enum StringKind` -/
inductive StringKind
  | string | fstring | bytes | rawString | rawFString | rawBytes | unicode
  deriving DecidableEq, Repr, Inhabited

namespace StringKind

/-- Rust variant name -/
def rustName : StringKind → String
  | string => "String" | fstring => "FString" | bytes => "Bytes" | rawString => "RawString"
  | rawFString => "RawFString" | rawBytes => "RawBytes" | unicode => "Unicode"

/-- `StringKind::prefix_len` -/
def prefixLen : StringKind → Nat
  | string => 0
  | rawString | fstring | unicode | bytes => 1
  | rawFString | rawBytes => 2

/-- `impl TryFrom<char> for StringKind` (`none` = `Err`) -/
def ofChar (c : Nat) : Option StringKind :=
  match c with
  | 114 | 82 => some rawString     -- r R
  | 102 | 70 => some fstring       -- f F
  | 117 | 85 => some unicode       -- u U
  | 98 | 66 => some bytes          -- b B
  | _ => none

/-- `impl TryFrom<[char; 2]> for StringKind` (`none` = `Err`) -/
def ofChars (c1 c2 : Nat) : Option StringKind :=
  let isR (c : Nat) := c == 114 || c == 82
  let isF (c : Nat) := c == 102 || c == 70
  let isB (c : Nat) := c == 98 || c == 66
  if isR c1 && isF c2 then some rawFString
  else if isF c1 && isR c2 then some rawFString
  else if isR c1 && isB c2 then some rawBytes
  else if isB c1 && isR c2 then some rawBytes
  else none

def isRaw : StringKind → Bool
  | rawString | rawFString | rawBytes => true
  | _ => false

def isAnyFString : StringKind → Bool
  | fstring | rawFString => true
  | _ => false

def isAnyBytes : StringKind → Bool
  | bytes | rawBytes => true
  | _ => false

end StringKind

/-- operator and delimiter tokens (payload-free `Tok` variants `Lpar` … `Ellipsis`) -/
inductive Op
  | Lpar | Rpar | Lsqb | Rsqb | Colon | Comma | Semi | Plus | Minus | Star | Slash | Vbar | Amper
  | Less | Greater | Equal | Dot | Percent | Lbrace | Rbrace | EqEqual | NotEqual | LessEqual
  | GreaterEqual | Tilde | CircumFlex | LeftShift | RightShift | DoubleStar | DoubleStarEqual
  | PlusEqual | MinusEqual | StarEqual | SlashEqual | PercentEqual | AmperEqual | VbarEqual
  | CircumflexEqual | LeftShiftEqual | RightShiftEqual | DoubleSlash | DoubleSlashEqual
  | ColonEqual | At | AtEqual | Rarrow | Ellipsis
  deriving DecidableEq, Repr, Inhabited

namespace Op

def all : List Op :=
  [Lpar, Rpar, Lsqb, Rsqb, Colon, Comma, Semi, Plus, Minus, Star, Slash, Vbar, Amper,
   Less, Greater, Equal, Dot, Percent, Lbrace, Rbrace, EqEqual, NotEqual, LessEqual,
   GreaterEqual, Tilde, CircumFlex, LeftShift, RightShift, DoubleStar, DoubleStarEqual,
   PlusEqual, MinusEqual, StarEqual, SlashEqual, PercentEqual, AmperEqual, VbarEqual,
   CircumflexEqual, LeftShiftEqual, RightShiftEqual, DoubleSlash, DoubleSlashEqual,
   ColonEqual, At, AtEqual, Rarrow, Ellipsis]

/-- Rust variant name -/
def rustName : Op → String
  | Lpar => "Lpar" | Rpar => "Rpar" | Lsqb => "Lsqb" | Rsqb => "Rsqb" | Colon => "Colon"
  | Comma => "Comma" | Semi => "Semi" | Plus => "Plus" | Minus => "Minus" | Star => "Star"
  | Slash => "Slash" | Vbar => "Vbar" | Amper => "Amper" | Less => "Less" | Greater => "Greater"
  | Equal => "Equal" | Dot => "Dot" | Percent => "Percent" | Lbrace => "Lbrace" | Rbrace => "Rbrace"
  | EqEqual => "EqEqual" | NotEqual => "NotEqual" | LessEqual => "LessEqual"
  | GreaterEqual => "GreaterEqual" | Tilde => "Tilde" | CircumFlex => "CircumFlex"
  | LeftShift => "LeftShift" | RightShift => "RightShift" | DoubleStar => "DoubleStar"
  | DoubleStarEqual => "DoubleStarEqual" | PlusEqual => "PlusEqual" | MinusEqual => "MinusEqual"
  | StarEqual => "StarEqual" | SlashEqual => "SlashEqual" | PercentEqual => "PercentEqual"
  | AmperEqual => "AmperEqual" | VbarEqual => "VbarEqual" | CircumflexEqual => "CircumflexEqual"
  | LeftShiftEqual => "LeftShiftEqual" | RightShiftEqual => "RightShiftEqual"
  | DoubleSlash => "DoubleSlash" | DoubleSlashEqual => "DoubleSlashEqual"
  | ColonEqual => "ColonEqual" | At => "At" | AtEqual => "AtEqual" | Rarrow => "Rarrow"
  | Ellipsis => "Ellipsis"

end Op

/-- keyword tokens (`Tok::False` … `Tok::Yield`), incl. the soft keywords `Match`, `Type_` (Rust `Tok::Type`), `Case` -/
inductive Kw
  | False | None | True | And | As | Assert | Async | Await | Break | Class | Continue | Def | Del
  | Elif | Else | Except | Finally | For | From | Global | If | Import | In | Is | Lambda
  | Nonlocal | Not | Or | Pass | Raise | Return | Try | While | Match | Type_ | Case | With | Yield
  deriving DecidableEq, Repr, Inhabited

namespace Kw

def all : List Kw :=
  [False, None, True, And, As, Assert, Async, Await, Break, Class, Continue, Def, Del,
   Elif, Else, Except, Finally, For, From, Global, If, Import, In, Is, Lambda,
   Nonlocal, Not, Or, Pass, Raise, Return, Try, While, Match, Type_, Case, With, Yield]

/-- Rust variant name -/
def rustName : Kw → String
  | False => "False" | None => "None" | True => "True" | And => "And" | As => "As"
  | Assert => "Assert" | Async => "Async" | Await => "Await" | Break => "Break" | Class => "Class"
  | Continue => "Continue" | Def => "Def" | Del => "Del" | Elif => "Elif" | Else => "Else"
  | Except => "Except" | Finally => "Finally" | For => "For" | From => "From" | Global => "Global"
  | If => "If" | Import => "Import" | In => "In" | Is => "Is" | Lambda => "Lambda"
  | Nonlocal => "Nonlocal" | Not => "Not" | Or => "Or" | Pass => "Pass" | Raise => "Raise"
  | Return => "Return" | Try => "Try" | While => "While" | Match => "Match" | Type_ => "Type"
  | Case => "Case" | With => "With" | Yield => "Yield"

/-- the `KEYWORDS` table generated by `parser/build.rs gen_phf`: key text (as code points) of
    each keyword token.  (The table's `"..."` entry can never be looked up with an identifier
    and is not a keyword; it is left out.) -/
def text : Kw → List Nat
  | False => [70, 97, 108, 115, 101]
  | None => [78, 111, 110, 101]
  | True => [84, 114, 117, 101]
  | And => [97, 110, 100]
  | As => [97, 115]
  | Assert => [97, 115, 115, 101, 114, 116]
  | Async => [97, 115, 121, 110, 99]
  | Await => [97, 119, 97, 105, 116]
  | Break => [98, 114, 101, 97, 107]
  | Class => [99, 108, 97, 115, 115]
  | Continue => [99, 111, 110, 116, 105, 110, 117, 101]
  | Def => [100, 101, 102]
  | Del => [100, 101, 108]
  | Elif => [101, 108, 105, 102]
  | Else => [101, 108, 115, 101]
  | Except => [101, 120, 99, 101, 112, 116]
  | Finally => [102, 105, 110, 97, 108, 108, 121]
  | For => [102, 111, 114]
  | From => [102, 114, 111, 109]
  | Global => [103, 108, 111, 98, 97, 108]
  | If => [105, 102]
  | Import => [105, 109, 112, 111, 114, 116]
  | In => [105, 110]
  | Is => [105, 115]
  | Lambda => [108, 97, 109, 98, 100, 97]
  | Nonlocal => [110, 111, 110, 108, 111, 99, 97, 108]
  | Not => [110, 111, 116]
  | Or => [111, 114]
  | Pass => [112, 97, 115, 115]
  | Raise => [114, 97, 105, 115, 101]
  | Return => [114, 101, 116, 117, 114, 110]
  | Try => [116, 114, 121]
  | While => [119, 104, 105, 108, 101]
  | Match => [109, 97, 116, 99, 104]
  | Type_ => [116, 121, 112, 101]
  | Case => [99, 97, 115, 101]
  | With => [119, 105, 116, 104]
  | Yield => [121, 105, 101, 108, 100]

/-- `KEYWORDS.get(&name)` -/
def ofName (name : List Nat) : Option Kw := all.find? (fun k => k.text == name)

end Kw

/-- `token.rs` `enum Tok` -/
inductive Tok
  | name (name : List Nat)
  | int (value : Nat)
  | float (text : List Nat)
  | complex (text : List Nat)
  | string (value : List Nat) (kind : StringKind) (triple : Bool)
  | comment (text : List Nat)
  | newline
  | nonLogicalNewline
  | indent
  | dedent
  | endOfFile
  | op (o : Op)
  | kw (k : Kw)
  | startModule
  | startInteractive
  | startExpression
  deriving DecidableEq, Repr, Inhabited

namespace Tok

/-- Rust variant name -/
def rustName : Tok → String
  | name _ => "Name" | int _ => "Int" | float _ => "Float" | complex _ => "Complex"
  | string .. => "String" | comment _ => "Comment" | newline => "Newline"
  | nonLogicalNewline => "NonLogicalNewline" | indent => "Indent" | dedent => "Dedent"
  | endOfFile => "EndOfFile" | op o => o.rustName | kw k => k.rustName
  | startModule => "StartModule" | startInteractive => "StartInteractive"
  | startExpression => "StartExpression"

/-- tokens that `parser.rs` filters out before parsing under `full-lexer`
    (`Tok::Comment { .. } | Tok::NonLogicalNewline`) -/
def isTrivia : Tok → Bool
  | comment _ | nonLogicalNewline => true
  | _ => false

end Tok

/-- `core/src/mode.rs` `enum Mode` -/
inductive Mode
  | module | interactive | expression
  deriving DecidableEq, Repr, Inhabited

/-- `Tok::start_marker(mode)` -/
def Tok.startMarker : Mode → Tok
  | .module => .startModule
  | .interactive => .startInteractive
  | .expression => .startExpression

end PV.Lexer
