import PV.Lexer.SoftKw
/-
  PV.Lexer.Lemmas — bounds lemmas about the lexer model, shared by C05 / C03 / C08 / C09 / C10.

  * `SubOk inp r`   : contract of a sub-lexer result (`ok (_, n)`: `1 ≤ n ≤ |inp|`;
                      `error e`: not a panic, `e.off ≤ e.reached ≤ |inp|`)
  * `Chain lo hi ts`: relative token spans are ordered and lie within `[lo, hi]`
  * `StInv st`      : state invariant (the indentation stack ends with the base level)
  * `step_ok` / `step_err` : the per-step contract
-/
namespace PV.Lexer


theorem bump_ok {k : Nat} {pre : List Nat} {r : Except (ErrKind × Nat) (List Nat × Nat)} {v : List Nat} {n : Nat}
    (h : bump k pre r = .ok (v, n)) : ∃ v' n', r = .ok (v', n') ∧ n = n' + k ∧ v = pre ++ v' := by
  cases r with
  | ok p => cases p; simp [bump] at h; exact ⟨_, _, rfl, h.2.symm, h.1.symm⟩
  | error e => cases e; simp [bump] at h

theorem bump_err {k : Nat} {pre : List Nat} {r : Except (ErrKind × Nat) (List Nat × Nat)} {e : ErrKind} {off : Nat}
    (h : bump k pre r = .error (e, off)) : ∃ off', r = .error (e, off') ∧ off = off' + k := by
  cases r with
  | ok p => cases p; simp [bump] at h
  | error e => cases e; simp [bump] at h; exact ⟨_, by simp [h.1], h.2.symm⟩

theorem strLoop_ok (q : Nat) (tr : Bool) (l : List Nat) (v : List Nat) (n : Nat)
    (h : strLoop q tr l = .ok (v, n)) : 1 ≤ n ∧ n ≤ l.length := by
  fun_induction strLoop q tr l generalizing v n
  all_goals first
    | (simp at h; done)
    | grind [bump_ok]

theorem strLoop_err (q : Nat) (tr : Bool) (l : List Nat) (e : ErrKind) (off : Nat)
    (h : strLoop q tr l = .error (e, off)) : off ≤ l.length := by
  fun_induction strLoop q tr l generalizing off
  all_goals first
    | (simp at h; done)
    | grind [bump_err]

theorem scanFold_le (p : Nat → Bool) (l : List Nat) : (scanFold p l).2 ≤ l.length := by
  fun_induction scanFold p l <;> simp_all <;> omega

theorem scanFold_pos (p : Nat → Bool) (c : Nat) (cs : List Nat) (h : p c = true) :
    1 ≤ (scanFold p (c :: cs)).2 := by
  unfold scanFold
  split <;> simp_all

theorem spanLen_pos (p : Nat → Bool) (c : Nat) (cs : List Nat) (h : p c = true) :
    1 ≤ spanLen p (c :: cs) := by simp [spanLen, h]

theorem strLoop_err_kind (q : Nat) (tr : Bool) (l : List Nat) (e : ErrKind) (off : Nat)
    (h : strLoop q tr l = .error (e, off)) : e ≠ .panic := by
  fun_induction strLoop q tr l generalizing off
  all_goals first
    | (simp at h; done)
    | grind [bump_err]


theorem spanLen_le (p : Nat → Bool) (l : List Nat) : spanLen p l ≤ l.length := by
  induction l with
  | nil => simp [spanLen]
  | cons c cs ih => simp only [spanLen]; split <;> simp <;> omega

theorem radixRun_le (r : Nat) (l : List Nat) : (radixRun r l).2 ≤ l.length := by
  fun_induction radixRun r l <;> simp_all <;> omega

theorem radixRun_pos (r c : Nat) (cs : List Nat) (h : isDigitOf r c = true) :
    1 ≤ (radixRun r (c :: cs)).2 := by
  simp [radixRun, h]

/-- bounds contract of a sub-lexer on `inp` -/
def SubOk (inp : List Nat) : Sub → Prop
  | .ok (_, n) => 1 ≤ n ∧ n ≤ inp.length
  | .error e => e.kind ≠ .panic ∧ e.off ≤ e.reached ∧ e.reached ≤ inp.length

theorem lexNumberRadix_ok (radix a b : Nat) (rest : List Nat) :
    SubOk (a :: b :: rest) (lexNumberRadix radix rest) := by
  have := radixRun_le radix rest
  simp only [lexNumberRadix]
  split <;> simp [SubOk] <;> omega

theorem fracPart_ok {v : List Nat} {n : Nat} {r : List Nat} {v' : List Nat} {n' : Nat}
    (h : fracPart v n r = .ok (v', n')) :
    n ≤ n' ∧ n' ≤ n + r.length ∧ (r.head? = some 46 → n + 1 ≤ n') := by
  fun_cases fracPart v n r
  · simp_all [fracPart]
  · rename_i rest _
    have := radixRun_le 10 rest
    simp_all [fracPart]; omega
  · cases r <;> simp_all [fracPart]

theorem fracPart_err {v : List Nat} {n : Nat} {r : List Nat} {e : ErrRel}
    (h : fracPart v n r = .error e) : e.kind ≠ .panic ∧ e.off = n ∧ e.reached = n := by
  fun_cases fracPart v n r <;> simp_all [fracPart] <;> subst h <;> simp

theorem expPartBody_ok {v : List Nat} {n : Nat} {r : List Nat} {v' : List Nat} {n' : Nat}
    (h : expPartBody v n r = .ok (v', n')) : n ≤ n' ∧ n' ≤ n + r.length := by
  fun_cases expPartBody v n r <;> simp_all [expPartBody] <;> grind [radixRun_le]

theorem expPartBody_err {v : List Nat} {n : Nat} {r : List Nat} {e : ErrRel}
    (h : expPartBody v n r = .error e) : e.kind ≠ .panic ∧ e.off = e.reached ∧ n ≤ e.reached ∧ e.reached ≤ n + r.length := by
  fun_cases expPartBody v n r <;> simp_all [expPartBody] <;> subst h <;> simp

theorem expPart_ok {v : List Nat} {n : Nat} {r : List Nat} {v' : List Nat} {n' : Nat}
    (h : expPart v n r = .ok (v', n')) : n ≤ n' ∧ n' ≤ n + r.length := by
  unfold expPart at h
  split at h
  · exact expPartBody_ok h
  · simp at h; omega

theorem expPart_err {v : List Nat} {n : Nat} {r : List Nat} {e : ErrRel}
    (h : expPart v n r = .error e) : e.kind ≠ .panic ∧ e.off = e.reached ∧ n ≤ e.reached ∧ e.reached ≤ n + r.length := by
  unfold expPart at h
  split at h
  · exact expPartBody_err h
  · simp at h

theorem intTok_ok (z : Bool) (ds : List Nat) (n : Nat) {inp : List Nat} (h1 : 1 ≤ n) (h2 : n ≤ inp.length)
    (hd : ds ≠ []) : SubOk inp (intTok z ds n) := by
  unfold intTok natOfDigits
  cases ds with
  | nil => simp at hd
  | cons d ds => simp; split <;> simp [SubOk] <;> omega

theorem radixRun_ne_nil (r c : Nat) (cs : List Nat) (h : isDigitOf r c = true) :
    (radixRun r (c :: cs)).1 ≠ [] := by
  simp [radixRun, h]

theorem spanLen_all (p : Nat → Bool) (l : List Nat) (h : ∀ x ∈ l, p x = true) : spanLen p l = l.length := by
  induction l with
  | nil => simp [spanLen]
  | cons c cs ih => simp_all [spanLen]

theorem radixRun_digits (l : List Nat) : ∀ x ∈ (radixRun 10 l).1, isDigit x = true := by
  fun_induction radixRun 10 l <;> simp_all [isDigitOf]

theorem floatTextOk_digits (ds : List Nat) (h : ∀ x ∈ ds, isDigit x = true) (hne : ds ≠ []) :
    floatTextOk ds = true := by
  have h1 := spanLen_all isDigit ds h
  cases ds with
  | nil => simp at hne
  | cons d ds => simp [floatTextOk, h1]

theorem floatTail_ok (inp v1 : List Nat) (n1 : Nat) (hle : n1 ≤ inp.length)
    (hpos : 1 ≤ n1 ∨ (inp.drop n1).head? = some 46) : SubOk inp (floatTail inp v1 n1) := by
  unfold floatTail
  generalize hL : inp.length = L at *
  split
  · rename_i e he
    have := fracPart_err he
    exact ⟨this.1, by omega, by omega⟩
  · rename_i v2 n2 h2
    have f := fracPart_ok h2
    have hp2 : 1 ≤ n2 := by
      rcases hpos with h | h
      · omega
      · have := f.2.2 h; omega
    simp only [List.length_drop, hL] at f
    split
    · rename_i e he
      have := expPart_err he
      simp only [List.length_drop, hL] at this
      exact ⟨this.1, by omega, by omega⟩
    · rename_i v3 n3 h3
      have g := expPart_ok h3
      simp only [List.length_drop, hL] at g
      split
      · exact ⟨by simp, by simp, by simp; omega⟩
      · split
        · rename_i c' r' hdrop
          have : n3 < L := by
            have := congrArg List.length hdrop
            simp only [List.length_drop, List.length_cons, hL] at this; omega
          split <;> simp [SubOk] <;> omega
        · simp [SubOk]; omega

theorem intTail_ok (inp : List Nat) (z : Bool) (v1 : List Nat) (n1 : Nat) (hle : n1 ≤ inp.length)
    (hpos : 1 ≤ n1) (hne : v1 ≠ []) (hdig : ∀ x ∈ v1, isDigit x = true) :
    SubOk inp (intTail inp z v1 n1) := by
  unfold intTail
  split
  · rename_i c' r' hdrop
    have : n1 < inp.length := by
      have := congrArg List.length hdrop
      simp only [List.length_drop, List.length_cons] at this; omega
    split
    · rw [if_pos (floatTextOk_digits _ hdig hne)]
      simp [SubOk]; omega
    · exact intTok_ok _ _ _ hpos hle hne
  · exact intTok_ok _ _ _ hpos hle hne

theorem lexNormalNumber_ok (c : Nat) (cs : List Nat)
    (hc : isDigit c = true ∨ (c = 46 ∧ ∃ d r, cs = d :: r ∧ isDigit d = true)) :
    SubOk (c :: cs) (lexNormalNumber (c :: cs)) := by
  have hle := radixRun_le 10 (c :: cs)
  simp only [lexNormalNumber]
  split
  · apply floatTail_ok _ _ _ hle
    rcases hc with hc | ⟨rfl, d, r, rfl, hd⟩
    · left; exact radixRun_pos 10 c cs (by simpa [isDigitOf] using hc)
    · right; simp [radixRun, isDigitOf, isDigit]
  · rename_i hcond
    have hdigit : isDigit c = true := by
      rcases hc with hc | ⟨rfl, d, r, rfl, hd⟩
      · exact hc
      · exfalso; apply hcond
        simp [radixRun, isDigitOf, isDigit]
    exact intTail_ok _ _ _ _ hle (radixRun_pos 10 c cs (by simpa [isDigitOf] using hdigit))
      (radixRun_ne_nil 10 c cs (by simpa [isDigitOf] using hdigit)) (radixRun_digits _)

theorem lexNumber_ok (c : Nat) (cs : List Nat)
    (hc : isDigit c = true ∨ (c = 46 ∧ ∃ d r, cs = d :: r ∧ isDigit d = true)) :
    SubOk (c :: cs) (lexNumber (c :: cs)) := by
  unfold lexNumber
  split
  · rename_i x rest heq
    simp only [List.cons.injEq] at heq
    obtain ⟨rfl, rfl⟩ := heq
    split
    · exact lexNumberRadix_ok _ _ _ _
    · split
      · exact lexNumberRadix_ok _ _ _ _
      · split
        · exact lexNumberRadix_ok _ _ _ _
        · exact lexNormalNumber_ok _ _ hc
  · exact lexNormalNumber_ok _ _ hc

theorem isTripleOpen_len {q : Nat} {r : List Nat} (h : isTripleOpen q r = true) : 2 ≤ r.length := by
  unfold isTripleOpen at h
  split at h <;> simp_all

/-- `lexString` when the character after the prefix exists -/
theorem lexString_ok (kind : StringKind) (inp : List Nat) (h : kind.prefixLen < inp.length) :
    SubOk inp (lexString kind inp) := by
  unfold lexString
  generalize kind.prefixLen = pl at *
  split
  · rename_i hd
    have := congrArg List.length hd
    simp at this; omega
  · rename_i q r hd
    have hlen : inp.length = pl + 1 + r.length := by
      have := congrArg List.length hd
      simp at this; omega
    split
    · rename_i ht
      have := isTripleOpen_len ht
      split
      · rename_i v n hs
        have := strLoop_ok _ _ _ _ _ hs
        simp only [List.length_drop] at this
        simp only [SubOk]; omega
      · rename_i k off hs
        have h1 := strLoop_err _ _ _ _ _ hs
        have h2 := strLoop_err_kind _ _ _ _ _ hs
        simp only [List.length_drop] at h1
        exact ⟨h2, by simp, by simp; omega⟩
    · split
      · rename_i v n hs
        have := strLoop_ok _ _ _ _ _ hs
        simp only [SubOk]; omega
      · rename_i k off hs
        have h1 := strLoop_err _ _ _ _ _ hs
        have h2 := strLoop_err_kind _ _ _ _ _ hs
        exact ⟨h2, by simp, by simp; omega⟩

theorem lexName_ok (up : UParams) (c : Nat) (cs : List Nat) (h : isIdCont up c = true) :
    SubOk (c :: cs) (.ok (lexName up (c :: cs))) := by
  have h1 := scanFold_le (isIdCont up) (c :: cs)
  have h2 := scanFold_pos (isIdCont up) c cs h
  unfold lexName
  simp only []
  split <;> exact ⟨h2, h1⟩

theorem isIdStart_cont {up : UParams} (hs : up.Sane) {c : Nat} (h : isIdStart up c = true) :
    isIdCont up c = true := by
  unfold isIdStart at h
  unfold isIdCont
  split at h
  · rename_i h'; simp at h'; rcases h' with h' | h' <;> simp [h']
  · split
    · rfl
    · exact hs.start_continue c h

theorem prefixLen_le_two (k : StringKind) : k.prefixLen ≤ 2 := by cases k <;> simp [StringKind.prefixLen]
theorem ofChar_prefixLen {c : Nat} {k : StringKind} (h : StringKind.ofChar c = some k) : k.prefixLen = 1 := by
  unfold StringKind.ofChar at h
  split at h <;> simp at h <;> subst h <;> rfl
theorem ofChars_prefixLen {c d : Nat} {k : StringKind} (h : StringKind.ofChars c d = some k) : k.prefixLen = 2 := by
  unfold StringKind.ofChars at h
  simp only [] at h
  (repeat' split at h) <;> simp at h <;> subst h <;> rfl

theorem lexIdentifier_ok (up : UParams) (hs : up.Sane) (c : Nat) (cs : List Nat) (h : isIdStart up c = true) :
    SubOk (c :: cs) (lexIdentifier up (c :: cs)) := by
  have hn := lexName_ok up c cs (isIdStart_cont hs h)
  unfold lexIdentifier
  split
  · rename_i c' q rest heq
    split
    · split
      · rename_i kind hk
        apply lexString_ok
        rw [ofChar_prefixLen hk, heq]; simp
      · exact hn
    · split
      · split
        · split
          · rename_i kind hk
            apply lexString_ok
            rw [ofChars_prefixLen hk, heq]; simp
          · exact hn
        · exact hn
      · exact hn
  · exact hn

theorem lexOp_ok {inp : List Nat} {o : Op} {n : Nat} (h : lexOp inp = some (o, n)) : 1 ≤ n ∧ n ≤ inp.length := by
  unfold lexOp at h
  split at h <;> simp at h <;> obtain ⟨_, rfl⟩ := h <;> simp


/-- relative token spans are ordered and lie within `[lo, hi]` -/
def Chain (lo hi : Nat) : List RelTok → Prop
  | [] => lo ≤ hi
  | t :: ts => lo ≤ t.s ∧ t.s ≤ t.e ∧ Chain t.e hi ts

theorem Chain.le {lo hi : Nat} {ts : List RelTok} (h : Chain lo hi ts) : lo ≤ hi := by
  induction ts generalizing lo with
  | nil => exact h
  | cons t ts ih => have := ih h.2.2; have := h.1; have := h.2.1; omega

theorem Chain.mono {lo lo' hi hi' : Nat} {ts : List RelTok} (h : Chain lo hi ts) (h1 : lo' ≤ lo) (h2 : hi ≤ hi') :
    Chain lo' hi' ts := by
  induction ts generalizing lo lo' with
  | nil => simp only [Chain] at *; omega
  | cons t ts ih => exact ⟨by have := h.1; omega, h.2.1, ih h.2.2 (Nat.le_refl _)⟩

theorem Chain.append {lo mid hi : Nat} {a b : List RelTok} (ha : Chain lo mid a) (hb : Chain mid hi b) :
    Chain lo hi (a ++ b) := by
  induction a generalizing lo with
  | nil => exact hb.mono ha (Nat.le_refl _)
  | cons t ts ih => exact ⟨ha.1, ha.2.1, ih ha.2.2⟩

theorem Chain.shift {lo hi p : Nat} {ts : List RelTok} (h : Chain lo hi ts) :
    Chain (lo + p) (hi + p) (ts.map (·.shift p)) := by
  induction ts generalizing lo with
  | nil => simp only [Chain, List.map_nil] at *; omega
  | cons t ts ih =>
    refine ⟨by have := h.1; simp [RelTok.shift]; omega, by have := h.2.1; simp [RelTok.shift]; omega, ?_⟩
    exact ih h.2.2

theorem Chain.replicate (p n : Nat) (tok : Tok) : Chain p p (List.replicate n ⟨tok, p, p⟩) := by
  induction n with
  | zero => simp [Chain]
  | succ n ih => exact ⟨Nat.le_refl _, Nat.le_refl _, ih⟩

theorem Chain.one (tok : Tok) (n : Nat) : Chain 0 n [⟨tok, 0, n⟩] := by simp [Chain]

/-- contract of `consume_character` / a sub-lexer step on an input of length `len` -/
structure COk (len : Nat) (st : LexState) (o : StepOut) : Prop where
  pos : 1 ≤ o.consumed
  le : o.consumed ≤ len
  chain : Chain 0 o.consumed o.toks
  notDone : o.done = false
  indents : o.st.indents = st.indents

def EOk (len : Nat) (e : ErrRel) : Prop := e.kind ≠ .panic ∧ e.off ≤ e.reached ∧ e.reached ≤ len

theorem cok_one {len : Nat} {st st' : LexState} {tok : Tok} {n : Nat} (h1 : 1 ≤ n) (h2 : n ≤ len)
    (hi : st'.indents = st.indents) : COk len st (one tok n st') :=
  ⟨h1, h2, Chain.one _ _, rfl, hi⟩

theorem cok_skip {len : Nat} {st st' : LexState} {n : Nat} (h1 : 1 ≤ n) (h2 : n ≤ len)
    (hi : st'.indents = st.indents) : COk len st (skip n st') :=
  ⟨h1, h2, by simp [skip, Chain], rfl, hi⟩

theorem ofSub_ok {inp : List Nat} {st : LexState} {r : Sub} (hr : SubOk inp r) {o : StepOut}
    (h : ofSub st r = .ok o) : COk inp.length st o := by
  cases r with
  | ok p => cases p; simp [ofSub] at h; subst h; exact cok_one hr.1 hr.2 rfl
  | error e => simp [ofSub] at h

theorem ofSub_err {inp : List Nat} {st : LexState} {r : Sub} (hr : SubOk inp r) {e : ErrRel}
    (h : ofSub st r = .error e) : EOk inp.length e := by
  cases r with
  | ok p => cases p; simp [ofSub] at h
  | error e' => simp [ofSub] at h; subst h; exact hr

theorem nextChar_ok {l : List Nat} {c n : Nat} {r : List Nat} (h : nextChar l = some (c, n, r)) :
    1 ≤ n ∧ l.length = n + r.length := by
  unfold nextChar at h
  split at h <;> simp at h <;> obtain ⟨_, rfl, rfl⟩ := h <;> simp <;> omega

theorem consumeCharacter_ok {cfg : Cfg} {st : LexState} {c : Nat} {cs : List Nat} {o : StepOut}
    (h : consumeCharacter cfg st c cs = .ok o) : COk (cs.length + 1) st o := by
  unfold consumeCharacter at h
  split at h
  · rename_i hd; exact ofSub_ok (lexNumber_ok c cs (Or.inl hd)) h
  split at h
  · have h1 := spanLen_le (fun c => !isLineBreak c) (c :: cs)
    have h2 : 1 ≤ commentLen (c :: cs) := by
      rename_i hc; subst hc; simp [commentLen, spanLen, isLineBreak]
    simp only [commentLen] at h h2
    split at h <;> (simp at h; subst h)
    · exact cok_one h2 h1 rfl
    · exact cok_skip h2 h1 rfl
  split at h
  · exact ofSub_ok (lexString_ok .string (c :: cs) (by simp [StringKind.prefixLen])) h
  split at h
  · split at h
    · simp at h; subst h; exact cok_one (by omega) (by simp) rfl
    · simp at h
  split at h
  · rename_i hd
    refine ofSub_ok (lexNumber_ok c cs (Or.inr ?_)) h
    simp at hd
    obtain ⟨rfl, hd⟩ := hd
    unfold headIsDigit at hd
    split at hd
    · rename_i d r; exact ⟨rfl, d, r, rfl, hd⟩
    · simp at hd
  split at h
  · rename_i o' n ho
    simp at h; subst h
    have := lexOp_ok ho
    exact cok_one this.1 (by simpa using this.2) rfl
  split at h
  · simp at h; subst h; exact cok_one (by omega) (by omega) rfl
  split at h
  · split at h
    · simp at h
    · simp at h; subst h; exact cok_one (by omega) (by omega) rfl
  split at h
  · split at h
    · simp at h
    · rename_i ch n r hn
      have := nextChar_ok hn
      simp at this
      split at h
      · simp at h; subst h; exact cok_one this.1 (by omega) rfl
      · split at h <;> (simp at h; subst h)
        · exact cok_one this.1 (by omega) rfl
        · exact cok_skip this.1 (by omega) rfl
  split at h
  · rename_i hb
    simp at h; subst h
    exact cok_skip (spanLen_pos _ _ _ hb) (spanLen_le _ _) rfl
  split at h
  · split at h
    · split at h
      · split at h
        · simp at h
        · rename_i ch n r hn
          have := nextChar_ok hn
          split at h
          · simp at h
          · simp at h; subst h; exact cok_skip (by omega) (by simp at this ⊢; omega) rfl
      · simp at h
    · simp at h
  split at h
  · simp at h; subst h; exact cok_one (by omega) (by omega) rfl
  · simp at h

theorem nextChar_none {l : List Nat} (h : nextChar l = none) : l = [] := by
  unfold nextChar at h
  split at h <;> simp at h
  rfl

theorem headIsDigit_cons {cs : List Nat} (h : headIsDigit cs = true) : ∃ d r, cs = d :: r ∧ isDigit d = true := by
  unfold headIsDigit at h
  split at h
  · rename_i d r; exact ⟨d, r, rfl, h⟩
  · simp at h

theorem consumeCharacter_err {cfg : Cfg} {st : LexState} {c : Nat} {cs : List Nat} {e : ErrRel}
    (h : consumeCharacter cfg st c cs = .error e) : EOk (cs.length + 1) e := by
  unfold consumeCharacter at h
  split at h
  · rename_i hd; exact ofSub_err (lexNumber_ok c cs (Or.inl hd)) h
  split at h
  · split at h <;> simp at h
  split at h
  · exact ofSub_err (lexString_ok .string (c :: cs) (by simp [StringKind.prefixLen])) h
  split at h
  · split at h
    · simp at h
    · simp at h; subst h; simp [EOk]
  split at h
  · rename_i hd
    simp at hd
    obtain ⟨rfl, hd⟩ := hd
    exact ofSub_err (lexNumber_ok 46 cs (Or.inr ⟨rfl, headIsDigit_cons hd⟩)) h
  split at h
  · simp at h
  split at h
  · simp at h
  split at h
  · split at h
    · simp at h; subst h; simp [EOk]
    · simp at h
  split at h
  · split at h
    · rename_i hn; have := nextChar_none hn; simp at this
    · split at h
      · simp at h
      · split at h <;> simp at h
  split at h
  · simp at h
  split at h
  · split at h
    · split at h
      · split at h
        · rename_i hn; have := nextChar_none hn; simp at this
        · rename_i ch n r hn
          have := nextChar_ok hn
          split at h
          · simp at h; subst h; simp [EOk]; simp at this; omega
          · simp at h
      · simp at h; subst h; simp [EOk]
    · simp at h; subst h; simp [EOk]
  split at h
  · simp at h
  · simp at h; subst h; simp [EOk]


theorem addTok_ok {full : Bool} {t : RelTok} {r : Except ErrRel EatOut} {o : EatOut}
    (h : EatOut.addTok full t r = .ok o) :
    ∃ o', r = .ok o' ∧ o.pos = o'.pos ∧ o.spaces = o'.spaces ∧ o.tabs = o'.tabs ∧ o.atBol = o'.atBol ∧
      o.toks = if full then t :: o'.toks else o'.toks := by
  cases r with
  | ok o' => simp [EatOut.addTok] at h; subst h; refine ⟨o', rfl, ?_⟩; cases full <;> simp
  | error e => simp [EatOut.addTok] at h

theorem addTok_err {full : Bool} {t : RelTok} {r : Except ErrRel EatOut} {e : ErrRel}
    (h : EatOut.addTok full t r = .error e) : r = .error e := by
  cases r with
  | ok o' => simp [EatOut.addTok] at h
  | error e => simpa [EatOut.addTok] using h

theorem eatIndent_ok {full : Bool} {l : List Nat} {skip pos s t : Nat} {o : EatOut}
    (h : eatIndent full l skip pos s t = .ok o) (lo : Nat) (hlo : lo + s + t ≤ pos + skip) (hsk : skip ≤ l.length) :
    pos ≤ o.pos ∧ o.pos ≤ pos + l.length ∧ lo + o.spaces + o.tabs ≤ o.pos ∧
    Chain lo (o.pos - (o.spaces + o.tabs)) o.toks := by
  fun_induction eatIndent full l skip pos s t generalizing lo o
  case case1 => simp at h; subst h; simp [Chain] at *; omega
  case case2 ih =>
    have := ih h lo (by omega) (by simp at hsk; omega)
    exact ⟨by omega, by simp; omega, this.2.2.1, this.2.2.2⟩
  case case3 ih =>
    have := ih h lo (by omega) (by simp)
    exact ⟨by omega, by simp; omega, this.2.2.1, this.2.2.2⟩
  case case4 => simp at h
  case case5 ih =>
    have := ih h lo (by omega) (by simp)
    exact ⟨by omega, by simp; omega, this.2.2.1, this.2.2.2⟩
  case case6 _ _ cs pos m ih =>
    obtain ⟨o', hr, h1, h2, h3, h4, h5⟩ := addTok_ok h
    have hm : m ≤ cs.length := spanLen_le _ _
    have := ih hr (pos + 1 + m) (by omega) hm
    rw [h1, h2, h3, h5]
    refine ⟨by omega, by simp; omega, by omega, ?_⟩
    split
    · dsimp only [Chain]; exact ⟨by omega, by omega, this.2.2.2⟩
    · exact this.2.2.2.mono (by omega) (Nat.le_refl _)
  case case7 ih =>
    have := ih h lo (by omega) (by simp)
    exact ⟨by omega, by simp; omega, this.2.2.1, this.2.2.2⟩
  case case8 _ _ cs pos ih =>
    obtain ⟨o', hr, h1, h2, h3, h4, h5⟩ := addTok_ok h
    have := ih hr (pos + 2) (by omega) (by simp)
    rw [h1, h2, h3, h5]
    refine ⟨by omega, by simp; omega, by omega, ?_⟩
    split
    · dsimp only [Chain]; exact ⟨by omega, by omega, this.2.2.2⟩
    · exact this.2.2.2.mono (by omega) (Nat.le_refl _)
  case case9 _ _ cs pos _ ih =>
    obtain ⟨o', hr, h1, h2, h3, h4, h5⟩ := addTok_ok h
    have := ih hr (pos + 1) (by omega) (by simp)
    rw [h1, h2, h3, h5]
    refine ⟨by omega, by simp; omega, by omega, ?_⟩
    split
    · dsimp only [Chain]; exact ⟨by omega, by omega, this.2.2.2⟩
    · exact this.2.2.2.mono (by omega) (Nat.le_refl _)
  case case10 _ _ cs pos ih =>
    obtain ⟨o', hr, h1, h2, h3, h4, h5⟩ := addTok_ok h
    have := ih hr (pos + 1) (by omega) (by simp)
    rw [h1, h2, h3, h5]
    refine ⟨by omega, by simp; omega, by omega, ?_⟩
    split
    · dsimp only [Chain]; exact ⟨by omega, by omega, this.2.2.2⟩
    · exact this.2.2.2.mono (by omega) (Nat.le_refl _)
  case case11 => simp at h; subst h; simp [Chain] at *; omega

theorem eatIndent_err {full : Bool} {l : List Nat} {skip pos s t : Nat} {e : ErrRel}
    (h : eatIndent full l skip pos s t = .error e) :
    e.kind ≠ .panic ∧ e.off = e.reached ∧ pos ≤ e.reached ∧ e.reached ≤ pos + l.length := by
  fun_induction eatIndent full l skip pos s t
  all_goals first
    | (simp at h; done)
    | (simp at h; subst h; simp; done)
    | (rename_i ih; have := ih (addTok_err h); exact ⟨this.1, this.2.1, by omega, by simp; omega⟩)
    | (rename_i ih; have := ih h; exact ⟨this.1, this.2.1, by omega, by simp; omega⟩)

/-- state invariant: the indentation stack ends with the base level -/
def StInv (st : LexState) : Prop := st.indents.getLast? = some ⟨0, 0⟩

theorem stInv_init : StInv LexState.init := by simp [StInv, LexState.init]

theorem compareStrict_base (level : IndentLevel) : compareStrict level ⟨0, 0⟩ ≠ some .lt := by
  unfold compareStrict
  cases h : compare level.tabs 0 with
  | lt => have := Nat.compare_eq_lt.mp h; omega
  | eq =>
    simp only []
    intro h2
    have h3 := Option.some.inj h2
    have := Nat.compare_eq_lt.mp h3
    omega
  | gt => simp only []; split <;> simp

theorem dedentLoop_ok {level : IndentLevel} {pos : Nat} {stack stack' : List IndentLevel} {n : Nat}
    (h : dedentLoop level pos stack = .ok (n, stack')) (hb : stack.getLast? = some ⟨0, 0⟩) :
    stack'.getLast? = some ⟨0, 0⟩ := by
  fun_induction dedentLoop level pos stack generalizing n stack'
  case case4 hd _ hd2 tl n2 st2 hx ih =>
    rw [hx] at h; simp at h; obtain ⟨_, rfl⟩ := h
    exact ih hx (by simpa [List.getLast?_cons_cons] using hb)
  case case5 hx _ => rw [hx] at h; simp at h
  case case6 => simp at h; obtain ⟨_, rfl⟩ := h; exact hb
  all_goals simp at h

theorem dedentLoop_err {level : IndentLevel} {pos : Nat} {stack : List IndentLevel} {e : ErrRel}
    (h : dedentLoop level pos stack = .error e) (hb : stack.getLast? = some ⟨0, 0⟩) :
    e.kind ≠ .panic ∧ e.off = pos ∧ e.reached = pos := by
  fun_induction dedentLoop level pos stack
  case case1 => simp at hb
  case case2 => simp at h; subst h; simp
  case case3 hd hx =>
    simp at hb; subst hb
    exact absurd hx (compareStrict_base level)
  case case4 hx _ => rw [hx] at h; simp at h
  case case5 hd _ hd2 tl e2 hx ih =>
    rw [hx] at h; simp at h; subst h
    exact ih hx (by simpa [List.getLast?_cons_cons] using hb)
  case case6 => simp at h
  case case7 => simp at h; subst h; simp

theorem flushIndents_last (stack : List IndentLevel) (hb : stack.getLast? = some ⟨0, 0⟩) :
    (flushIndents stack).2 = [⟨0, 0⟩] := by
  fun_induction flushIndents stack
  · simp at hb
  · simp at hb; simp [hb]
  · rename_i hd r hne ih
    cases r with
    | nil => simp at hne
    | cons a r => exact ih (by simpa [List.getLast?_cons_cons] using hb)


theorem handleIndentations_ok {cfg : Cfg} {st : LexState} {inp : List Nat} {toks : List RelTok} {p : Nat}
    {st1 : LexState} (h : handleIndentations cfg st inp = .ok (toks, p, st1)) (hi : StInv st) :
    p ≤ inp.length ∧ Chain 0 p toks ∧ StInv st1 ∧ st1.nesting = st.nesting := by
  unfold handleIndentations at h
  cases ho : eatIndent cfg.fullLexer inp 0 0 0 0 with
  | error e => rw [ho] at h; simp at h
  | ok o =>
    rw [ho] at h; simp only [] at h
    have E := eatIndent_ok ho 0 (by omega) (by omega)
    simp only [Nat.zero_add] at E
    by_cases hn : st.nesting ≠ 0
    · rw [if_pos hn] at h
      simp at h; obtain ⟨rfl, rfl, rfl⟩ := h
      exact ⟨E.2.1, E.2.2.2.mono (Nat.le_refl _) (by omega), hi, rfl⟩
    rw [if_neg hn] at h
    cases hst : st.indents with
    | nil => rw [hst] at h; simp at h
    | cons cur rest =>
      rw [hst] at h; simp only [] at h
      cases hc : compareStrict ⟨o.tabs, o.spaces⟩ cur with
      | none => rw [hc] at h; simp at h
      | some ord =>
        rw [hc] at h
        cases ord with
        | eq =>
          simp at h; obtain ⟨rfl, rfl, rfl⟩ := h
          exact ⟨E.2.1, E.2.2.2.mono (Nat.le_refl _) (by omega), by simpa [StInv, hst] using hi, rfl⟩
        | gt =>
          simp only [] at h
          rw [if_pos E.2.2.1] at h
          simp at h; obtain ⟨rfl, rfl, rfl⟩ := h
          refine ⟨E.2.1, ?_, ?_, rfl⟩
          · apply Chain.append E.2.2.2
            dsimp only [Chain]; omega
          · simp only [StInv, hst] at hi ⊢
            simpa [List.getLast?_cons_cons] using hi
        | lt =>
          simp only [] at h
          cases hd : dedentLoop ⟨o.tabs, o.spaces⟩ o.pos (cur :: rest) with
          | error e => rw [hd] at h; simp at h
          | ok r =>
            obtain ⟨n, stack⟩ := r
            rw [hd] at h
            simp at h; obtain ⟨rfl, rfl, rfl⟩ := h
            refine ⟨E.2.1, ?_, dedentLoop_ok hd (by simpa [StInv, hst] using hi), rfl⟩
            exact Chain.append (E.2.2.2.mono (Nat.le_refl _) (by omega)) (Chain.replicate _ _ _)

theorem handleIndentations_err {cfg : Cfg} {st : LexState} {inp : List Nat} {e : ErrRel}
    (h : handleIndentations cfg st inp = .error e) (hi : StInv st) : EOk inp.length e := by
  unfold handleIndentations at h
  cases ho : eatIndent cfg.fullLexer inp 0 0 0 0 with
  | error e' =>
    rw [ho] at h; simp at h; subst h
    have := eatIndent_err ho
    exact ⟨this.1, by omega, by omega⟩
  | ok o =>
    rw [ho] at h; simp only [] at h
    have E := eatIndent_ok ho 0 (by omega) (by omega)
    simp only [Nat.zero_add] at E
    by_cases hn : st.nesting ≠ 0
    · rw [if_pos hn] at h; simp at h
    rw [if_neg hn] at h
    cases hst : st.indents with
    | nil => simp [StInv, hst] at hi
    | cons cur rest =>
      rw [hst] at h; simp only [] at h
      cases hc : compareStrict ⟨o.tabs, o.spaces⟩ cur with
      | none => rw [hc] at h; simp at h; subst h; exact ⟨by simp, by simp, E.2.1⟩
      | some ord =>
        rw [hc] at h
        cases ord with
        | eq => simp at h
        | gt => simp only [] at h; rw [if_pos E.2.2.1] at h; simp at h
        | lt =>
          simp only [] at h
          cases hd : dedentLoop ⟨o.tabs, o.spaces⟩ o.pos (cur :: rest) with
          | error e' =>
            rw [hd] at h; simp at h; subst h
            have := dedentLoop_err hd (by simpa [StInv, hst] using hi)
            exact ⟨this.1, by omega, by omega⟩
          | ok r => obtain ⟨n, stack⟩ := r; rw [hd] at h; simp at h

theorem consumeEof_ok {st : LexState} {o : StepOut} (h : consumeEof st = .ok o) (hi : StInv st) :
    o.consumed = 0 ∧ o.done = true ∧ Chain 0 0 o.toks ∧ StInv o.st := by
  unfold consumeEof at h
  split at h
  · simp at h
  · simp at h; subst h
    refine ⟨rfl, rfl, ?_, ?_⟩
    · apply Chain.append (mid := 0)
      · split <;> simp [Chain]
      · exact Chain.replicate 0 _ _
    · simp [StInv, flushIndents_last _ hi]

theorem consumeEof_err {st : LexState} {e : ErrRel} (h : consumeEof st = .error e) : EOk 0 e := by
  unfold consumeEof at h
  split at h
  · simp at h; subst h; simp [EOk]
  · simp at h

theorem consumeNormal_ok {cfg : Cfg} (hs : cfg.up.Sane) {st : LexState} {inp : List Nat} {o : StepOut}
    (h : consumeNormal cfg st inp = .ok o) (hi : StInv st) :
    o.consumed ≤ inp.length ∧ (o.done = false → 1 ≤ o.consumed) ∧ (o.done = true → inp = []) ∧
    Chain 0 o.consumed o.toks ∧ StInv o.st := by
  unfold consumeNormal at h
  split at h
  · have := consumeEof_ok h hi
    exact ⟨by omega, by simp [this.2.1], fun _ => rfl, by rw [this.1]; exact this.2.2.1, this.2.2.2⟩
  · rename_i c cs
    have C : COk (c :: cs).length st o := by
      split at h
      · rename_i hc; exact ofSub_ok (lexIdentifier_ok cfg.up hs c cs hc) h
      · exact consumeCharacter_ok h
    exact ⟨C.le, fun _ => C.pos, by simp [C.notDone], C.chain, by simp only [StInv, C.indents]; exact hi⟩

theorem consumeNormal_err {cfg : Cfg} (hs : cfg.up.Sane) {st : LexState} {inp : List Nat} {e : ErrRel}
    (h : consumeNormal cfg st inp = .error e) : EOk inp.length e := by
  unfold consumeNormal at h
  split at h
  · exact consumeEof_err h
  · rename_i c cs
    split at h
    · rename_i hc; exact ofSub_err (lexIdentifier_ok cfg.up hs c cs hc) h
    · exact consumeCharacter_err h

/-- per-step contract, success -/
theorem step_ok {cfg : Cfg} (hs : cfg.up.Sane) {st : LexState} {inp : List Nat} {o : StepOut}
    (hi : StInv st) (h : step cfg st inp = .ok o) :
    o.consumed ≤ inp.length ∧ (o.done = false → 0 < o.consumed) ∧ (o.done = true → o.consumed = inp.length) ∧
    StInv o.st ∧ Chain 0 o.consumed o.toks := by
  unfold step at h
  split at h
  · split at h
    · simp at h
    · rename_i toks1 p st1 hh
      have H := handleIndentations_ok hh hi
      split at h
      · simp at h
      · rename_i o' hc
        simp at h; subst h
        have N := consumeNormal_ok hs hc H.2.2.1
        simp only [List.length_drop] at N
        have hp := H.1
        dsimp only
        refine ⟨by omega, fun hd => by have := N.2.1 hd; omega, fun hd => ?_, N.2.2.2.2, ?_⟩
        · have := N.2.2.1 hd
          have := congrArg List.length this
          simp at this; omega
        · apply Chain.append H.2.1
          have := N.2.2.2.1.shift (p := p)
          simpa [Nat.add_comm] using this
  · have N := consumeNormal_ok hs h hi
    refine ⟨N.1, fun hd => N.2.1 hd, fun hd => ?_, N.2.2.2.2, N.2.2.2.1⟩
    have := N.2.2.1 hd; subst this; simpa using N.1

/-- per-step contract, failure -/
theorem step_err {cfg : Cfg} (hs : cfg.up.Sane) {st : LexState} {inp : List Nat} {e : ErrRel}
    (hi : StInv st) (h : step cfg st inp = .error e) :
    e.kind ≠ .panic ∧ e.off ≤ e.reached ∧ e.reached ≤ inp.length := by
  unfold step at h
  split at h
  · split at h
    · rename_i e' hh; simp at h; subst h; exact handleIndentations_err hh hi
    · rename_i toks1 p st1 hh
      have H := handleIndentations_ok hh hi
      split at h
      · rename_i e' hc
        simp at h; subst h
        have := consumeNormal_err hs hc
        simp only [List.length_drop] at this
        exact ⟨this.1, by simp [ErrRel.shift]; exact this.2.1, by simp [ErrRel.shift]; have := this.2.2; omega⟩
      · simp at h
  · exact consumeNormal_err hs h

end PV.Lexer
