import PV.C02.RProgSoundBase
/-
  PV.C02.RProgSoundSeq — typed index-window predicates for the node classes of the program level (statements,
  patterns, handlers, match cases, aliases, with-items, type parameters, parameters), all instances of one generic
  pair: `WX tree pl j k x` (the tree of `x` is fine in the window of the tokens `j … k`, provided `x` is plain) and
  `SeqX tree pl j k xs` (the trees of `xs` sit in consecutive windows); their list lemmas; how they become `Kids`.
-/
set_option linter.unusedSimpArgs false
set_option linter.unusedVariables false
set_option linter.unusedSectionVars false
namespace PV.C02
open PV.Expr PV.C11 PV.Prog

variable {src : List Nat} {σ : SpanTab} {N : Nat}

/-! ### the generic pair -/

section generic
variable {α : Type} (tree : α → Tree) (pl : α → Bool)

def WX (src : List Nat) (σ : SpanTab) (j k : Nat) (x : α) : Prop := pl x = true → WinT src σ j k (tree x)
def SeqX (src : List Nat) (σ : SpanTab) (j k : Nat) (xs : List α) : Prop :=
  xs.all pl = true → SeqT src σ j k (xs.map tree)

variable {tree pl}

theorem seqX_nil {j k : Nat} : SeqX tree pl src σ j k [] := fun _ => trivial

theorem seqX_single {j k : Nat} {x : α} (h : WX tree pl src σ j k x) : SeqX tree pl src σ j k [x] := by
  intro hp
  simp only [List.all_cons, List.all_nil, Bool.and_true] at hp
  exact SeqT.single (h hp)

variable (T : TiledTab src σ N)
include T

theorem WX.mono {j k j' k' : Nat} {x : α} (h : WX tree pl src σ j k x) (hj : j ≤ j') (hk : k' ≤ k) (h1 : 1 ≤ j)
    (h2 : 1 ≤ k') (h3 : j' ≤ N) (h4 : k ≤ N) : WX tree pl src σ j' k' x :=
  fun hp => WinT.mono T (h hp) hj hk h1 h2 h3 h4

theorem seqX_mono {j k j' k' : Nat} {xs : List α} (h : SeqX tree pl src σ j k xs) (hj : j ≤ j') (hk : k' ≤ k)
    (h1 : 1 ≤ j) (h2 : 1 ≤ k') (h3 : j' ≤ N) (h4 : k ≤ N) : SeqX tree pl src σ j' k' xs :=
  fun hp => SeqT.mono T (h hp) hj hk h1 h2 h3 h4

theorem seqX_cons {j m j2 k : Nat} {x : α} {xs : List α} (h : WX tree pl src σ j m x)
    (hs : SeqX tree pl src σ j2 k xs) (h1 : 1 ≤ j2) (h2 : j2 < m) (h3 : m ≤ N) (h4 : 1 ≤ k) (h5 : k ≤ m) :
    SeqX tree pl src σ j k (x :: xs) := by
  intro hp
  simp only [List.all_cons, Bool.and_eq_true] at hp
  simp only [List.map_cons]
  exact SeqT.cons T (h hp.1) (hs hp.2) h1 h2 h3 h4 h5

theorem seqX_snoc {jl m j2 k2 k : Nat} {x : α} {xs : List α} (hs : SeqX tree pl src σ jl m xs)
    (hx : WX tree pl src σ j2 k2 x) (h0 : m ≤ jl) (h0' : jl ≤ N) (h1 : 1 ≤ j2) (h2 : j2 < m) (h4 : 1 ≤ k) (h5 : k ≤ k2)
    (h6 : k2 ≤ N) : SeqX tree pl src σ jl k (xs ++ [x]) := by
  intro hp
  simp only [List.all_append, List.all_cons, List.all_nil, Bool.and_true, Bool.and_eq_true] at hp
  simp only [List.map_append, List.map_cons, List.map_nil]
  exact SeqT.snoc T (hs hp.1) (hx hp.2) h0 h0' h1 h2 h4 h5 h6

theorem seqX_append {j m j2 k : Nat} {xs ys : List α} (h1 : SeqX tree pl src σ j m xs)
    (h2 : SeqX tree pl src σ j2 k ys) (c1 : 1 ≤ j2) (c2 : j2 < m) (c3 : m ≤ j) (c4 : j ≤ N) (c5 : 1 ≤ k) (c6 : k ≤ j2) :
    SeqX tree pl src σ j k (xs ++ ys) := by
  intro hp
  simp only [List.all_append, Bool.and_eq_true] at hp
  simp only [List.map_append]
  exact SeqT.append T (h1 hp.1) (h2 hp.2) c1 c2 c3 c4 c5 c6

/-- a list field: the trees relabelled with the slot of the field -/
theorem kids_seqX {J K jl kl : Nat} {kind s : String} {xs : List α} (tree' : α → Tree)
    (hrel : ∀ x lo hi, TF src lo hi (tree x) → TF src lo hi (tree' x)) (hslot : ∀ x, (tree' x).slot = s)
    (hs : SeqX tree pl src σ jl kl xs) (hp : xs.all pl = true) (c : xs = [] ∨ (K ≤ kl ∧ jl ≤ J ∧ 1 ≤ jl ∧ kl ≤ N))
    (c5 : 1 ≤ K) (c6 : J ≤ N) : Kids src kind (S σ J) (E σ K) [s] (xs.map tree') := by
  have hrelS : ∀ (ys : List α) (lo hi : Nat), SeqG (TF src) lo hi (ys.map tree) → SeqG (TF src) lo hi (ys.map tree') := by
    intro ys
    induction ys with
    | nil => intro lo hi _; trivial
    | cons y ys ih =>
      intro lo hi h
      obtain ⟨m, g1, g2, g3⟩ := h
      exact ⟨m, hrel y _ _ g1, g2, ih _ _ g3⟩
  refine kids_seq T (hrelS xs _ _ (hs hp)) ?_ (c.imp (fun h => by subst h; rfl) id) c5 c6
  intro t ht
  obtain ⟨x, _, rfl⟩ := List.mem_map.mp ht
  exact hslot x

end generic

/-! ### optional expressions -/

/-- an optional expression in an index window -/
def WO (src : List Nat) (σ : SpanTab) (j k : Nat) (x : Option RExpr) : Prop := ∀ e, x = some e → Win src σ j k e

theorem wo_none {j k : Nat} : WO src σ j k none := fun e h => by cases h
theorem wo_some {j k : Nat} {e : RExpr} (h : Win src σ j k e) : WO src σ j k (some e) := fun e' h' => by cases h'; exact h

/-! ### statements -/

def RStmt.treeB (s : RStmt) : Tree := .node s.kind "body" true (some s.range) s.children

theorem stmtTrees_eq (slot : String) : ∀ ss : List RStmt,
    stmtTrees slot ss = ss.map (fun s => .node s.kind slot true (some s.range) s.children)
  | [] => by simp [stmtTrees]
  | s :: ss => by simp [stmtTrees, stmtTrees_eq slot ss]

theorem plainSs_eq : ∀ ss : List RStmt, plainSs ss = ss.all plainS
  | [] => by simp [plainSs]
  | s :: ss => by simp [plainSs, plainSs_eq ss]

/-- a statement in the window of the tokens `j … k` (fine if plain) -/
def WS (src : List Nat) (σ : SpanTab) (j k : Nat) (s : RStmt) : Prop := WX RStmt.treeB plainS src σ j k s
/-- statements in consecutive windows -/
def SeqS (src : List Nat) (σ : SpanTab) (j k : Nat) (ss : List RStmt) : Prop := SeqX RStmt.treeB plainS src σ j k ss

/-! ### patterns -/

def RPattern.treeB (p : RPattern) : Tree := .node p.kind "patterns" true (some p.range) p.children

theorem patTrees_eq (slot : String) : ∀ ps : List RPattern,
    patTrees slot ps = ps.map (fun p => .node p.kind slot true (some p.range) p.children)
  | [] => by simp [patTrees]
  | p :: ps => by simp [patTrees, patTrees_eq slot ps]

theorem plainPs_eq : ∀ ps : List RPattern, plainPs ps = ps.all plainP
  | [] => by simp [plainPs]
  | p :: ps => by simp [plainPs, plainPs_eq ps]

def WP (src : List Nat) (σ : SpanTab) (j k : Nat) (p : RPattern) : Prop := WX RPattern.treeB plainP src σ j k p
def SeqPt (src : List Nat) (σ : SpanTab) (j k : Nat) (ps : List RPattern) : Prop :=
  SeqX RPattern.treeB plainP src σ j k ps
/-- an optional pattern -/
def WPO (src : List Nat) (σ : SpanTab) (j k : Nat) (p : Option RPattern) : Prop := ∀ q, p = some q → WP src σ j k q

/-! ### handlers and match cases -/

def RHandler.tree : RHandler → Tree
  | .mk rg ty _ b => .node "ExceptHandlerExceptHandler" "handlers" true (some rg) (optTree "type_" ty ++ stmtTrees "body" b)
def plainH : RHandler → Bool
  | .mk _ ty _ b => plainO ty && plainSs b

theorem handlerTrees_eq : ∀ hs : List RHandler, handlerTrees hs = hs.map RHandler.tree
  | [] => by simp [handlerTrees]
  | .mk _ _ _ _ :: hs => by simp [handlerTrees, RHandler.tree, handlerTrees_eq hs]

theorem plainHs_eq : ∀ hs : List RHandler, plainHs hs = hs.all plainH
  | [] => by simp [plainHs]
  | .mk _ _ _ _ :: hs => by simp [plainHs, plainH, plainHs_eq hs, Bool.and_assoc]

def WH (src : List Nat) (σ : SpanTab) (j k : Nat) (h : RHandler) : Prop := WX RHandler.tree plainH src σ j k h
def SeqH (src : List Nat) (σ : SpanTab) (j k : Nat) (hs : List RHandler) : Prop := SeqX RHandler.tree plainH src σ j k hs

def RCase.tree : RCase → Tree
  | .mk rg p g b =>
    .node "MatchCase" "cases" true (some rg)
      (.node p.kind "pattern" false (some p.range) p.children :: (optTree "guard" g ++ stmtTrees "body" b))
def plainC : RCase → Bool
  | .mk _ p g b => plainP p && plainO g && plainSs b

theorem caseTrees_eq : ∀ cs : List RCase, caseTrees cs = cs.map RCase.tree
  | [] => by simp [caseTrees]
  | .mk _ _ _ _ :: cs => by simp [caseTrees, RCase.tree, caseTrees_eq cs]

theorem plainCs_eq : ∀ cs : List RCase, plainCs cs = cs.all plainC
  | [] => by simp [plainCs]
  | .mk _ _ _ _ :: cs => by simp [plainCs, plainC, plainCs_eq cs, Bool.and_assoc]

def WC (src : List Nat) (σ : SpanTab) (j k : Nat) (c : RCase) : Prop := WX RCase.tree plainC src σ j k c
def SeqCs (src : List Nat) (σ : SpanTab) (j k : Nat) (cs : List RCase) : Prop := SeqX RCase.tree plainC src σ j k cs

/-! ### aliases, with-items, type parameters, parameters -/

def WAl (src : List Nat) (σ : SpanTab) (j k : Nat) (a : RAlias) : Prop := WX RAlias.tree (fun _ => true) src σ j k a
def SeqAl (src : List Nat) (σ : SpanTab) (j k : Nat) (as : List RAlias) : Prop :=
  SeqX RAlias.tree (fun _ => true) src σ j k as

def WWI (src : List Nat) (σ : SpanTab) (j k : Nat) (w : RWithItem) : Prop := WX RWithItem.tree RWithItem.plain src σ j k w
def SeqWI (src : List Nat) (σ : SpanTab) (j k : Nat) (ws : List RWithItem) : Prop :=
  SeqX RWithItem.tree RWithItem.plain src σ j k ws

def WTP (src : List Nat) (σ : SpanTab) (j k : Nat) (t : RTypeParam) : Prop := WX RTypeParam.tree RTypeParam.plain src σ j k t
def SeqTP (src : List Nat) (σ : SpanTab) (j k : Nat) (ts : List RTypeParam) : Prop :=
  SeqX RTypeParam.tree RTypeParam.plain src σ j k ts

/-- the `Arguments` node -/
def WArgs (src : List Nat) (σ : SpanTab) (j k : Nat) (a : RArguments) : Prop := WX RArguments.tree RArguments.plain src σ j k a

/-! ### the list lemmas at each type (one-liners; the names are what the `grind` patterns below mention) -/

section lists
variable (T : TiledTab src σ N)
include T

omit T in theorem seqS_nil {j k : Nat} : SeqS src σ j k [] := seqX_nil
omit T in theorem seqS_single {j k : Nat} {x} (h : WS src σ j k x) : SeqS src σ j k [x] := seqX_single h
theorem ws_mono {j k j' k' : Nat} {x} (h : WS src σ j k x) (hj : j ≤ j') (hk : k' ≤ k) (h1 : 1 ≤ j) (h2 : 1 ≤ k')
    (h3 : j' ≤ N) (h4 : k ≤ N) : WS src σ j' k' x := WX.mono T h hj hk h1 h2 h3 h4
theorem seqS_mono {j k j' k' : Nat} {xs} (h : SeqS src σ j k xs) (hj : j ≤ j') (hk : k' ≤ k) (h1 : 1 ≤ j) (h2 : 1 ≤ k')
    (h3 : j' ≤ N) (h4 : k ≤ N) : SeqS src σ j' k' xs := seqX_mono T h hj hk h1 h2 h3 h4
theorem seqS_cons {j m j2 k : Nat} {x xs} (h : WS src σ j m x) (hs : SeqS src σ j2 k xs) (h1 : 1 ≤ j2) (h2 : j2 < m)
    (h3 : m ≤ N) (h4 : 1 ≤ k) (h5 : k ≤ m) : SeqS src σ j k (x :: xs) := seqX_cons T h hs h1 h2 h3 h4 h5
theorem seqS_append {j m j2 k : Nat} {xs ys} (h1 : SeqS src σ j m xs) (h2 : SeqS src σ j2 k ys) (c1 : 1 ≤ j2)
    (c2 : j2 < m) (c3 : m ≤ j) (c4 : j ≤ N) (c5 : 1 ≤ k) (c6 : k ≤ j2) : SeqS src σ j k (xs ++ ys) :=
  seqX_append T h1 h2 c1 c2 c3 c4 c5 c6

omit T in theorem seqPt_nil {j k : Nat} : SeqPt src σ j k [] := seqX_nil
omit T in theorem seqPt_single {j k : Nat} {x} (h : WP src σ j k x) : SeqPt src σ j k [x] := seqX_single h
theorem wp_mono {j k j' k' : Nat} {x} (h : WP src σ j k x) (hj : j ≤ j') (hk : k' ≤ k) (h1 : 1 ≤ j) (h2 : 1 ≤ k')
    (h3 : j' ≤ N) (h4 : k ≤ N) : WP src σ j' k' x := WX.mono T h hj hk h1 h2 h3 h4
theorem seqPt_mono {j k j' k' : Nat} {xs} (h : SeqPt src σ j k xs) (hj : j ≤ j') (hk : k' ≤ k) (h1 : 1 ≤ j) (h2 : 1 ≤ k')
    (h3 : j' ≤ N) (h4 : k ≤ N) : SeqPt src σ j' k' xs := seqX_mono T h hj hk h1 h2 h3 h4
theorem seqPt_cons {j m j2 k : Nat} {x xs} (h : WP src σ j m x) (hs : SeqPt src σ j2 k xs) (h1 : 1 ≤ j2) (h2 : j2 < m)
    (h3 : m ≤ N) (h4 : 1 ≤ k) (h5 : k ≤ m) : SeqPt src σ j k (x :: xs) := seqX_cons T h hs h1 h2 h3 h4 h5
theorem seqPt_snoc {jl m j2 k2 : Nat} {x xs} (hs : SeqPt src σ jl m xs) (hx : WP src σ j2 k2 x) (h0 : m ≤ jl)
    (h0' : jl ≤ N) (h1 : 1 ≤ j2) (h2 : j2 < m) (h4 : 1 ≤ k2) (h6 : k2 ≤ N) : SeqPt src σ jl k2 (xs ++ [x]) :=
  seqX_snoc T hs hx h0 h0' h1 h2 h4 (Nat.le_refl _) h6

omit T in theorem seqH_single {j k : Nat} {x} (h : WH src σ j k x) : SeqH src σ j k [x] := seqX_single h
omit T in theorem seqH_nil {j k : Nat} : SeqH src σ j k [] := seqX_nil
theorem seqH_mono {j k j' k' : Nat} {xs} (h : SeqH src σ j k xs) (hj : j ≤ j') (hk : k' ≤ k) (h1 : 1 ≤ j) (h2 : 1 ≤ k')
    (h3 : j' ≤ N) (h4 : k ≤ N) : SeqH src σ j' k' xs := seqX_mono T h hj hk h1 h2 h3 h4
theorem seqH_cons {j m j2 k : Nat} {x xs} (h : WH src σ j m x) (hs : SeqH src σ j2 k xs) (h1 : 1 ≤ j2) (h2 : j2 < m)
    (h3 : m ≤ N) (h4 : 1 ≤ k) (h5 : k ≤ m) : SeqH src σ j k (x :: xs) := seqX_cons T h hs h1 h2 h3 h4 h5

omit T in theorem seqCs_single {j k : Nat} {x} (h : WC src σ j k x) : SeqCs src σ j k [x] := seqX_single h
theorem seqCs_mono {j k j' k' : Nat} {xs} (h : SeqCs src σ j k xs) (hj : j ≤ j') (hk : k' ≤ k) (h1 : 1 ≤ j) (h2 : 1 ≤ k')
    (h3 : j' ≤ N) (h4 : k ≤ N) : SeqCs src σ j' k' xs := seqX_mono T h hj hk h1 h2 h3 h4
theorem seqCs_cons {j m j2 k : Nat} {x xs} (h : WC src σ j m x) (hs : SeqCs src σ j2 k xs) (h1 : 1 ≤ j2) (h2 : j2 < m)
    (h3 : m ≤ N) (h4 : 1 ≤ k) (h5 : k ≤ m) : SeqCs src σ j k (x :: xs) := seqX_cons T h hs h1 h2 h3 h4 h5

omit T in theorem seqAl_single {j k : Nat} {x} (h : WAl src σ j k x) : SeqAl src σ j k [x] := seqX_single h
theorem seqAl_mono {j k j' k' : Nat} {xs} (h : SeqAl src σ j k xs) (hj : j ≤ j') (hk : k' ≤ k) (h1 : 1 ≤ j) (h2 : 1 ≤ k')
    (h3 : j' ≤ N) (h4 : k ≤ N) : SeqAl src σ j' k' xs := seqX_mono T h hj hk h1 h2 h3 h4
theorem seqAl_cons {j m j2 k : Nat} {x xs} (h : WAl src σ j m x) (hs : SeqAl src σ j2 k xs) (h1 : 1 ≤ j2) (h2 : j2 < m)
    (h3 : m ≤ N) (h4 : 1 ≤ k) (h5 : k ≤ m) : SeqAl src σ j k (x :: xs) := seqX_cons T h hs h1 h2 h3 h4 h5

omit T in theorem seqWI_single {j k : Nat} {x} (h : WWI src σ j k x) : SeqWI src σ j k [x] := seqX_single h
omit T in theorem seqWI_nil {j k : Nat} : SeqWI src σ j k [] := seqX_nil
theorem seqWI_mono {j k j' k' : Nat} {xs} (h : SeqWI src σ j k xs) (hj : j ≤ j') (hk : k' ≤ k) (h1 : 1 ≤ j) (h2 : 1 ≤ k')
    (h3 : j' ≤ N) (h4 : k ≤ N) : SeqWI src σ j' k' xs := seqX_mono T h hj hk h1 h2 h3 h4
theorem seqWI_cons {j m j2 k : Nat} {x xs} (h : WWI src σ j m x) (hs : SeqWI src σ j2 k xs) (h1 : 1 ≤ j2) (h2 : j2 < m)
    (h3 : m ≤ N) (h4 : 1 ≤ k) (h5 : k ≤ m) : SeqWI src σ j k (x :: xs) := seqX_cons T h hs h1 h2 h3 h4 h5

omit T in theorem seqTP_single {j k : Nat} {x} (h : WTP src σ j k x) : SeqTP src σ j k [x] := seqX_single h
omit T in theorem seqTP_nil {j k : Nat} : SeqTP src σ j k [] := seqX_nil
theorem seqTP_mono {j k j' k' : Nat} {xs} (h : SeqTP src σ j k xs) (hj : j ≤ j') (hk : k' ≤ k) (h1 : 1 ≤ j) (h2 : 1 ≤ k')
    (h3 : j' ≤ N) (h4 : k ≤ N) : SeqTP src σ j' k' xs := seqX_mono T h hj hk h1 h2 h3 h4
theorem seqTP_cons {j m j2 k : Nat} {x xs} (h : WTP src σ j m x) (hs : SeqTP src σ j2 k xs) (h1 : 1 ≤ j2) (h2 : j2 < m)
    (h3 : m ≤ N) (h4 : 1 ≤ k) (h5 : k ≤ m) : SeqTP src σ j k (x :: xs) := seqX_cons T h hs h1 h2 h3 h4 h5

/-! ### list fields as `Kids` -/

theorem kids_stmts {J K jl kl : Nat} {kind : String} (slot : String) {ss : List RStmt} (hs : SeqS src σ jl kl ss)
    (hp : plainSs ss = true) (c : ss = [] ∨ (K ≤ kl ∧ jl ≤ J ∧ 1 ≤ jl ∧ kl ≤ N)) (c5 : 1 ≤ K) (c6 : J ≤ N) :
    Kids src kind (S σ J) (E σ K) [slot] (stmtTrees slot ss) := by
  rw [stmtTrees_eq]
  exact kids_seqX T (tree := RStmt.treeB) (pl := plainS) _ (fun x lo hi h => h) (fun x => rfl) hs
    (by rw [← plainSs_eq]; exact hp) c c5 c6

theorem kids_pats {J K jl kl : Nat} {kind : String} (slot : String) {ps : List RPattern} (hs : SeqPt src σ jl kl ps)
    (hp : plainPs ps = true) (c : ps = [] ∨ (K ≤ kl ∧ jl ≤ J ∧ 1 ≤ jl ∧ kl ≤ N)) (c5 : 1 ≤ K) (c6 : J ≤ N) :
    Kids src kind (S σ J) (E σ K) [slot] (patTrees slot ps) := by
  rw [patTrees_eq]
  exact kids_seqX T (tree := RPattern.treeB) (pl := plainP) _ (fun x lo hi h => h) (fun x => rfl) hs
    (by rw [← plainPs_eq]; exact hp) c c5 c6

theorem kids_pat {J K jc kc : Nat} {kind : String} (slot : String) {p : RPattern} (hw : WP src σ jc kc p)
    (hp : plainP p = true) (c1 : K ≤ kc) (c2 : jc ≤ J) (c3 : 1 ≤ jc) (c4 : kc ≤ N) (c5 : 1 ≤ K) (c6 : J ≤ N) :
    Kids src kind (S σ J) (E σ K) [slot] [.node p.kind slot false (some p.range) p.children] :=
  kids_one T (t := .node p.kind slot false (some p.range) p.children) (hw hp) rfl c1 c2 c3 c4 c5 c6

theorem kids_patOpt {J K jc kc : Nat} {kind : String} (slot : String) {p : Option RPattern} (hw : WPO src σ jc kc p)
    (hp : plainPO p = true) (c : p = none ∨ (K ≤ kc ∧ jc ≤ J ∧ 1 ≤ jc ∧ kc ≤ N)) (c5 : 1 ≤ K) (c6 : J ≤ N) :
    Kids src kind (S σ J) (E σ K) [slot] (patOptTree slot p) := by
  cases p with
  | none => exact ⟨by simp [patOptTree, sibsOk], by simp [patOptTree, okList], by simp [patOptTree]⟩
  | some q =>
    rcases c with c | ⟨c1, c2, c3, c4⟩
    · cases c
    · simp only [patOptTree]
      exact kids_pat T slot (hw q rfl) hp c1 c2 c3 c4 c5 c6

theorem kids_handlers {J K jl kl : Nat} {kind : String} {hs' : List RHandler} (hs : SeqH src σ jl kl hs')
    (hp : plainHs hs' = true) (c : hs' = [] ∨ (K ≤ kl ∧ jl ≤ J ∧ 1 ≤ jl ∧ kl ≤ N)) (c5 : 1 ≤ K) (c6 : J ≤ N) :
    Kids src kind (S σ J) (E σ K) ["handlers"] (handlerTrees hs') := by
  rw [handlerTrees_eq]
  exact kids_seqX T _ (fun x lo hi h => h) (fun x => by cases x; rfl) hs (by rw [← plainHs_eq]; exact hp) c c5 c6

theorem kids_cases {J K jl kl : Nat} {kind : String} {cs : List RCase} (hs : SeqCs src σ jl kl cs)
    (hp : plainCs cs = true) (c : cs = [] ∨ (K ≤ kl ∧ jl ≤ J ∧ 1 ≤ jl ∧ kl ≤ N)) (c5 : 1 ≤ K) (c6 : J ≤ N) :
    Kids src kind (S σ J) (E σ K) ["cases"] (caseTrees cs) := by
  rw [caseTrees_eq]
  exact kids_seqX T _ (fun x lo hi h => h) (fun x => by cases x; rfl) hs (by rw [← plainCs_eq]; exact hp) c c5 c6

theorem kids_aliases {J K jl kl : Nat} {kind : String} {as : List RAlias} (hs : SeqAl src σ jl kl as)
    (c : as = [] ∨ (K ≤ kl ∧ jl ≤ J ∧ 1 ≤ jl ∧ kl ≤ N)) (c5 : 1 ≤ K) (c6 : J ≤ N) :
    Kids src kind (S σ J) (E σ K) ["names"] (as.map RAlias.tree) :=
  kids_seqX T _ (fun x lo hi h => h) (fun x => rfl) hs (by simp) c c5 c6

theorem kids_items {J K jl kl : Nat} {kind : String} {ws : List RWithItem} (hs : SeqWI src σ jl kl ws)
    (hp : ws.all RWithItem.plain = true) (c : ws = [] ∨ (K ≤ kl ∧ jl ≤ J ∧ 1 ≤ jl ∧ kl ≤ N)) (c5 : 1 ≤ K) (c6 : J ≤ N) :
    Kids src kind (S σ J) (E σ K) ["items"] (ws.map RWithItem.tree) :=
  kids_seqX T _ (fun x lo hi h => h) (fun x => rfl) hs hp c c5 c6

theorem kids_tparams {J K jl kl : Nat} {kind : String} {ts : List RTypeParam} (hs : SeqTP src σ jl kl ts)
    (hp : ts.all RTypeParam.plain = true) (c : ts = [] ∨ (K ≤ kl ∧ jl ≤ J ∧ 1 ≤ jl ∧ kl ≤ N)) (c5 : 1 ≤ K) (c6 : J ≤ N) :
    Kids src kind (S σ J) (E σ K) ["type_params"] (ts.map RTypeParam.tree) :=
  kids_seqX T _ (fun x lo hi h => h) (fun x => rfl) hs hp c c5 c6

theorem kids_args {J K jc kc : Nat} {kind : String} {a : RArguments} (hw : WArgs src σ jc kc a) (hp : a.plain = true)
    (c1 : K ≤ kc) (c2 : jc ≤ J) (c3 : 1 ≤ jc) (c4 : kc ≤ N) (c5 : 1 ≤ K) (c6 : J ≤ N) :
    Kids src kind (S σ J) (E σ K) ["args"] [a.tree] :=
  kids_one T (hw hp) rfl c1 c2 c3 c4 c5 c6

/-- an optional expression field -/
theorem kids_wo {J K jc kc : Nat} {kind s : String} {x : Option RExpr} (he : WO src σ jc kc x)
    (hp : plainO x = true) (c : x = none ∨ (K ≤ kc ∧ jc ≤ J ∧ 1 ≤ jc ∧ kc ≤ N)) (c5 : 1 ≤ K) (c6 : J ≤ N) :
    Kids src kind (S σ J) (E σ K) [s] (optTree s x) := kids_optExpr T he hp c c5 c6

end lists

end PV.C02
