import PV.C02.RProgSound1
/-
  PV.C02.RProgSound2 — the induction over the ranged program parser, part 2: patterns.
-/
set_option linter.unusedSimpArgs false
set_option linter.unusedVariables false
namespace PV.C02
open PV.Expr PV.C11 PV.Prog

variable {src : List Nat} {σ : SpanTab} {N : Nat}

theorem seqPt_nil0 (T : TiledTab src σ N) (j k : Nat) : SeqPt src σ j k [] := seqPt_nil
grind_pattern seqPt_nil0 => TiledTab src σ N, SeqPt src σ j k []

theorem wpo_some {j k : Nat} {p : RPattern} (h : WP src σ j k p) : WPO src σ j k (some p) :=
  fun q hq => by cases hq; exact h
theorem wpo_none0 (T : TiledTab src σ N) : WPO src σ 0 0 none := fun q hq => by cases hq
grind_pattern wpo_some => WP src σ j k p, some p
grind_pattern wpo_none0 => TiledTab src σ N, (none : Option RPattern)

theorem constAtomR_sound (T : TiledTab src σ N) : ∀ k t c, 1 ≤ k → k ≤ N → constAtomR σ k t = some c →
    Win src σ k k c ∧ c.range = (S σ k, E σ k) := by
  intro k t c h1 h2
  fun_cases constAtomR σ k t
  rstep σ [True.intro]

theorem addTailR_sound (T : TiledTab src σ N) : ∀ st j0 left ts e rest, st = S σ j0 → ts.length < j0 → j0 ≤ N →
    Win src σ j0 (ts.length + 1) left → addTailR σ st left ts = some (e, rest) →
    rest.length ≤ ts.length ∧ Win src σ j0 (rest.length + 1) e ∧
      ((e = left ∧ rest = ts) ∨ (rest.length < ts.length ∧ e.range = (S σ j0, E σ (rest.length + 1)))) := by
  intro st j0 left ts e rest h0 h1 h2 h3
  fun_cases addTailR σ st left ts
  rstep σ [constAtomR_sound T]

theorem constExpr_sound (T : TiledTab src σ N) : ∀ ts e rest, ts.length ≤ N → parseRConstExpr σ ts = some (e, rest) →
    rest.length < ts.length ∧ Win src σ ts.length (rest.length + 1) e ∧
      e.range = (S σ ts.length, E σ (rest.length + 1)) := by
  intro ts e rest hN
  fun_cases parseRConstExpr σ ts
  rstep σ [constAtomR_sound T, addTailR_sound T]

theorem attrChainR_sound (T : TiledTab src σ N) : ∀ st j0 acc d ts e d' rest, st = S σ j0 → ts.length < j0 → j0 ≤ N →
    Win src σ j0 (ts.length + 1) acc → attrChainR σ st acc d ts = some (e, d', rest) →
    rest.length ≤ ts.length ∧ Win src σ j0 (rest.length + 1) e ∧
      ((e = acc ∧ rest = ts ∧ d' = d) ∨
       (rest.length < ts.length ∧ d' = true ∧ e.range = (S σ j0, E σ (rest.length + 1)))) := by
  intro st j0 acc d ts
  fun_induction attrChainR σ st acc d ts <;> intro e d' rest h0 h1 h2 h3
  · rename_i acc d n r ih
    intro h
    simp only [List.length_cons] at h1 h3
    have hw : Win src σ j0 (r.length + 1) (.attribute (S σ j0, E σ (r.length + 1)) acc n) :=
      own_attribute T (by omega) (by omega) h2 h3 (by omega) (by omega) (by omega) (by omega)
    subst h0
    obtain ⟨g1, g2, g3⟩ := ih e d' rest rfl (by omega) h2 hw h
    simp only [List.length_cons]
    refine ⟨by omega, g2, Or.inr ?_⟩
    rcases g3 with ⟨rfl, rfl, rfl⟩ | ⟨q1, q2, q3⟩
    · exact ⟨by omega, rfl, rfl⟩
    · exact ⟨by omega, q2, q3⟩
  · intro h; cases h
  · intro h
    simp only [Option.some.injEq, Prod.mk.injEq] at h
    obtain ⟨rfl, rfl, rfl⟩ := h
    exact ⟨Nat.le_refl _, h3, Or.inl ⟨rfl, rfl, rfl⟩⟩

theorem mapKey_sound (T : TiledTab src σ N) (f : Nat) : ∀ ts e rest, ts.length ≤ N → parseRMapKey σ f ts = some (e, rest) →
    rest.length < ts.length ∧ Win src σ ts.length (rest.length + 1) e := by
  intro ts e rest hN
  fun_cases parseRMapKey σ f ts
  rstep σ [(soundAt T _).strings, constExpr_sound T, attrChainR_sound T]

/-- a pattern: fine in the window of its tokens -/
@[reducible] def PostP (src : List Nat) (σ : SpanTab) (ts : List Tok) (p : RPattern) (rest : List Tok) : Prop :=
  rest.length < ts.length ∧ WP src σ ts.length (rest.length + 1) p

structure PatSAt (src : List Nat) (σ : SpanTab) (N : Nat) (f : Nat) : Prop where
  pattern : ∀ ts p rest, ts.length ≤ N → parseRPattern σ f ts = some (p, rest) → PostP src σ ts p rest
  orPattern : ∀ ts p rest, ts.length ≤ N → parseROrPattern σ f ts = some (p, rest) → PostP src σ ts p rest
  orPatRest : ∀ ts ps rest, ts.length ≤ N → parseROrPatRest σ f ts = some (ps, rest) →
    rest.length < ts.length ∧ ps ≠ [] ∧ SeqPt src σ ts.length (rest.length + 1) ps
  closed : ∀ ts p rest, ts.length ≤ N → parseRClosed σ f ts = some (p, rest) → PostP src σ ts p rest
  patternList : ∀ ts ps tc rest, ts.length ≤ N → parseRPatternList σ f ts = some ((ps, tc), rest) →
    rest.length < ts.length ∧ ps ≠ [] ∧ SeqPt src σ ts.length (rest.length + 1) ps ∧
      (∀ p, ps = [p] → tc = false → WP src σ ts.length (rest.length + 1) p)
  classArgs : ∀ st j0 cls ts p rest, st = S σ j0 → ts.length + 1 < j0 → j0 ≤ N → Win src σ j0 (ts.length + 2) cls →
    parseRClassArgs σ f st cls ts = some (p, rest) → rest.length < ts.length ∧ WP src σ j0 (rest.length + 1) p
  classItems : ∀ ts ps ka kp ps' ka' kp' rest jl, SeqPt src σ jl (ts.length + 1) ps → SeqPt src σ jl (ts.length + 1) kp →
    ts.length + 1 ≤ jl → jl ≤ N → parseRClassItems σ f ts ps ka kp = some ((ps', ka', kp'), rest) →
    rest.length < ts.length ∧ SeqPt src σ jl (rest.length + 2) ps' ∧ SeqPt src σ jl (rest.length + 2) kp'
  mapItems : ∀ st j0 ts ks ps p rest, st = S σ j0 → ts.length < j0 → j0 ≤ N → SeqI src σ j0 (ts.length + 1) ks →
    SeqPt src σ j0 (ts.length + 1) ps → parseRMapItems σ f st ts ks ps = some (p, rest) →
    rest.length < ts.length ∧ WP src σ j0 (rest.length + 1) p

def BelowPatS (src : List Nat) (σ : SpanTab) (N : Nat) (n : Nat) : Prop := ∀ f, n = f + 1 → PatSAt src σ N f

theorem pat_pattern (T : TiledTab src σ N) {n} (ih : BelowPatS src σ N n) :
    ∀ ts p rest, ts.length ≤ N → parseRPattern σ n ts = some (p, rest) → PostP src σ ts p rest := by
  intro ts p rest hN
  fun_cases parseRPattern σ n ts
  rstep σ [(ih _ rfl).orPattern]

theorem pat_orPattern (T : TiledTab src σ N) {n} (ih : BelowPatS src σ N n) :
    ∀ ts p rest, ts.length ≤ N → parseROrPattern σ n ts = some (p, rest) → PostP src σ ts p rest := by
  intro ts p rest hN
  fun_cases parseROrPattern σ n ts
  rstep σ [(ih _ rfl).closed, (ih _ rfl).orPatRest]

theorem pat_orPatRest (T : TiledTab src σ N) {n} (ih : BelowPatS src σ N n) :
    ∀ ts ps rest, ts.length ≤ N → parseROrPatRest σ n ts = some (ps, rest) →
    rest.length < ts.length ∧ ps ≠ [] ∧ SeqPt src σ ts.length (rest.length + 1) ps := by
  intro ts ps rest hN
  fun_cases parseROrPatRest σ n ts
  rstep σ [(ih _ rfl).closed, (ih _ rfl).orPatRest]

theorem pat_patternList (T : TiledTab src σ N) {n} (ih : BelowPatS src σ N n) :
    ∀ ts ps tc rest, ts.length ≤ N → parseRPatternList σ n ts = some ((ps, tc), rest) →
    rest.length < ts.length ∧ ps ≠ [] ∧ SeqPt src σ ts.length (rest.length + 1) ps ∧
      (∀ p, ps = [p] → tc = false → WP src σ ts.length (rest.length + 1) p) := by
  intro ts ps tc rest hN
  fun_cases parseRPatternList σ n ts
  rstep σ [(ih _ rfl).pattern, (ih _ rfl).patternList]

theorem pat_classArgs (T : TiledTab src σ N) {n} (ih : BelowPatS src σ N n) :
    ∀ st j0 cls ts p rest, st = S σ j0 → ts.length + 1 < j0 → j0 ≤ N → Win src σ j0 (ts.length + 2) cls →
    parseRClassArgs σ n st cls ts = some (p, rest) → rest.length < ts.length ∧ WP src σ j0 (rest.length + 1) p := by
  intro st j0 cls ts p rest h0 h1 h2 h3
  have e1 := seqPt_nil0 T j0 (ts.length + 1)
  fun_cases parseRClassArgs σ n st cls ts
  rstep σ [(ih _ rfl).classItems]

theorem pat_classItems (T : TiledTab src σ N) {n} (ih : BelowPatS src σ N n) :
    ∀ ts ps ka kp ps' ka' kp' rest jl, SeqPt src σ jl (ts.length + 1) ps → SeqPt src σ jl (ts.length + 1) kp →
    ts.length + 1 ≤ jl → jl ≤ N → parseRClassItems σ n ts ps ka kp = some ((ps', ka', kp'), rest) →
    rest.length < ts.length ∧ SeqPt src σ jl (rest.length + 2) ps' ∧ SeqPt src σ jl (rest.length + 2) kp' := by
  intro ts ps ka kp ps' ka' kp' rest jl h1 h2 h3 h4
  fun_cases parseRClassItems σ n ts ps ka kp
  rstep σ [(ih _ rfl).pattern, (ih _ rfl).classItems]

theorem pat_mapItems (T : TiledTab src σ N) {n} (ih : BelowPatS src σ N n) :
    ∀ st j0 ts ks ps p rest, st = S σ j0 → ts.length < j0 → j0 ≤ N → SeqI src σ j0 (ts.length + 1) ks →
    SeqPt src σ j0 (ts.length + 1) ps → parseRMapItems σ n st ts ks ps = some (p, rest) →
    rest.length < ts.length ∧ WP src σ j0 (rest.length + 1) p := by
  intro st j0 ts ks ps p rest h0 h1 h2 h3 h4
  fun_cases parseRMapItems σ n st ts ks ps
  rstep σ [mapKey_sound T _, (ih _ rfl).pattern, (ih _ rfl).mapItems]

theorem pat_closed (T : TiledTab src σ N) {n} (ih : BelowPatS src σ N n) :
    ∀ ts p rest, ts.length ≤ N → parseRClosed σ n ts = some (p, rest) → PostP src σ ts p rest := by
  intro ts p rest hN
  have e1 := seqPt_nil0 T ts.length ts.length
  have e2 : SeqI src σ ts.length ts.length [] := seqI_nil
  fun_cases parseRClosed σ n ts
  rstep σ [(soundAt T _).strings, attrChainR_sound T, constExpr_sound T, (ih _ rfl).classArgs, (ih _ rfl).patternList,
    (ih _ rfl).mapItems]

theorem patSAt_of_below (T : TiledTab src σ N) {n : Nat} (b : BelowPatS src σ N n) : PatSAt src σ N n :=
  ⟨pat_pattern T b, pat_orPattern T b, pat_orPatRest T b, pat_closed T b, pat_patternList T b, pat_classArgs T b,
    pat_classItems T b, pat_mapItems T b⟩

/-- every pattern function of the ranged parser meets its specification, at every fuel -/
theorem patSAt (T : TiledTab src σ N) : ∀ n, PatSAt src σ N n
  | 0 => patSAt_of_below T (fun f h => absurd h (by omega))
  | n + 1 => patSAt_of_below T (fun f h => by cases h; exact patSAt T n)

theorem patterns_sound (T : TiledTab src σ N) (f : Nat) : ∀ ts p rest, ts.length ≤ N →
    parseRPatterns σ f ts = some (p, rest) → PostP src σ ts p rest := by
  intro ts p rest hN h
  unfold parseRPatterns at h
  split at h
  · rename_i p' r hl
    simp only [Option.some.injEq, Prod.mk.injEq] at h
    obtain ⟨rfl, rfl⟩ := h
    obtain ⟨g1, _, _, g4⟩ := (patSAt T f).patternList _ _ _ _ hN hl
    exact ⟨g1, g4 _ rfl rfl⟩
  · rename_i ps tc r hne hl
    simp only [Option.some.injEq, Prod.mk.injEq] at h
    obtain ⟨rfl, rfl⟩ := h
    obtain ⟨g1, _, g3, _⟩ := (patSAt T f).patternList _ _ _ _ hN hl
    exact ⟨g1, wp_matchSequence T (by omega) (by omega) hN g3 (Or.inr ⟨Nat.le_refl _, Nat.le_refl _, by omega, by omega⟩)⟩
  · cases h

end PV.C02
