import PV.C02.GLex
/-
  PV.C02.GField — the tie in the form the soundness induction really uses, and the tie of the INNER tokens of a field.

  * `tokAlAt` / `GTie` / `GTieA`: an f-string token is ALIGNED with the source at the span the table gives it (its value
    sits on character boundaries of the source behind prefix and quotes, and ends inside the span) — what
    `aligned_of_tied` derives from the textual tie `fstrTied`, and all the induction ever uses (`gtie_of_ftie`);
  * `inner_gtie`: for the text of a replacement field, aligned with the source (`fieldTab_within_field`), the tokens the
    C11 lexer reads from `"(" ++ text ++ ")"` are aligned at the spans `lexSpans` gives them (from `lexBoth_texts`: a
    nested f-string token's value is the text between its quotes).
  Hand-written.
-/
set_option linter.unusedSimpArgs false
set_option linter.unusedVariables false
namespace PV.C02
open PV.Expr PV.C11

variable {src : List Nat}

/-- the value of an f-string token sits on character boundaries of the source behind prefix and quotes of the span `rg`,
    and ends inside it -/
def tokAlAt (src : List Nat) (rg : Rg) : Tok → Prop
  | .fstr _ triple raw body =>
    Aligned src (rg.1 + (if raw then 2 else 1) + (if triple then 3 else 1)) body ∧
      rg.1 + (if raw then 2 else 1) + (if triple then 3 else 1) + ulen body ≤ rg.2
  | _ => True

def GTie (src : List Nat) (σ : SpanTab) : List Tok → Prop
  | [] => True
  | t :: r => tokAlAt src (σ (r.length + 1)) t ∧ GTie src σ r

def GTieA (src : List Nat) (σ : SpanTab) (after : Nat) : List Tok → Prop
  | [] => True
  | t :: r => tokAlAt src (σ (r.length + 1 + after)) t ∧ GTieA src σ after r

theorem GTie.tail {σ : SpanTab} {t : Tok} {r : List Tok} (h : GTie src σ (t :: r)) : GTie src σ r := h.2

theorem GTie.suffix {σ : SpanTab} : ∀ {ts r : List Tok}, GTie src σ ts → r <:+ ts → GTie src σ r
  | [], r, _, hs => by
    have : r = [] := List.eq_nil_of_suffix_nil hs
    subst this; trivial
  | t :: ts, r, h, hs => by
    rcases List.suffix_cons_iff.mp hs with rfl | hs'
    · exact h
    · exact GTie.suffix h.2 hs'

theorem gtieA_of_gtie {σ : SpanTab} : ∀ (strs rest : List Tok), GTie src σ (strs ++ rest) →
    GTieA src σ rest.length strs
  | [], _, _ => trivial
  | t :: r, rest, h => by
    simp only [List.cons_append, GTie, List.length_append] at h
    exact ⟨by have := h.1; rwa [show r.length + rest.length + 1 = r.length + 1 + rest.length by omega] at this,
      gtieA_of_gtie r rest h.2⟩

theorem tokAlAt_of_tied {rg : Rg} {t : Tok} (h : tokTiedAt src rg t) : tokAlAt src rg t := by
  cases t <;> try trivial
  exact aligned_of_tied h

/-- the textual tie gives the alignment -/
theorem gtie_of_ftie {σ : SpanTab} : ∀ {ts : List Tok}, FTie src σ ts → GTie src σ ts
  | [], _ => trivial
  | _ :: _, h => ⟨tokAlAt_of_tied h.1, gtie_of_ftie h.2⟩

/-! ### the inner tokens of a replacement field -/

theorem chainD_mem : ∀ {l : List (Nat × Nat)} {n : Nat}, ChainD n l → ∀ p ∈ l, p.2 ≤ p.1 ∧ p.1 ≤ n
  | [], _, _, p, hp => by cases hp
  | (a, b) :: l, n, h, p, hp => by
    simp only [List.mem_cons] at hp
    rcases hp with rfl | hp
    · exact ⟨h.2.1, h.1⟩
    · have := chainD_mem h.2.2 p hp
      exact ⟨this.1, by have := h.2.1; have := h.1; omega⟩

theorem ulen_ascii : ∀ {l : List Nat}, (∀ x ∈ l, x < 128) → ulen l = l.length
  | [], _ => rfl
  | x :: xs, h => by
    have hx := h x (by simp)
    have ih := ulen_ascii (l := xs) (fun y hy => h y (by simp [hy]))
    have : usize x = 1 := by simp [usize]; omega
    simp only [ulen, List.length_cons, ih, this]; omega

theorem quoteRun_len (q : Nat) (t : Bool) : (quoteRun q t).length = (if t then 3 else 1) := by
  cases t <;> simp [quoteRun]

theorem quoteRun_ascii {q : Nat} (hq : q = 34 ∨ q = 39) (t : Bool) : ∀ x ∈ quoteRun q t, x < 128 := by
  intro x hx
  cases t <;> simp [quoteRun] at hx <;> omega

/-- a token whose text is known is aligned where the text is -/
theorem tokAlAt_of_text {base : Nat} {W : List Nat} (hal : Aligned src base W) {a b : Nat} {t : Tok}
    (hab : b ≤ a) (ha : a ≤ W.length) (htx : TokTextOk W a b t) :
    tokAlAt src (posIn base W a, posIn base W b) t := by
  cases t with
  | fstr q triple raw body =>
    obtain ⟨pre, hpre, hlen, hasc, hq⟩ := htx q triple raw body rfl
    -- `W = front ++ pre ++ Q ++ body ++ Q ++ back`
    have hQ := quoteRun_len q triple
    have hpl : ulen pre = pre.length := ulen_ascii hasc
    have hql : ulen (quoteRun q triple) = (quoteRun q triple).length := ulen_ascii (quoteRun_ascii hq triple)
    generalize quoteRun q triple = Q at hpre hQ hql
    obtain ⟨front, back, hW, hfl⟩ : ∃ front back, W = (front ++ pre ++ Q) ++ (body ++ (Q ++ back)) ∧
        front.length = W.length - a := by
      refine ⟨W.take (W.length - a), (W.drop (W.length - a)).drop (a - b), ?_, by simp⟩
      have e : W = W.take (W.length - a) ++ ((W.drop (W.length - a)).take (a - b) ++
          (W.drop (W.length - a)).drop (a - b)) := by
        rw [List.take_append_drop, List.take_append_drop]
      rw [hpre] at e
      conv => lhs; rw [e]
      simp
    have htot : pre.length + (Q.length + (body.length + Q.length)) = a - b := by
      have := congrArg List.length hpre
      rw [List.length_take, List.length_drop] at this
      simp only [List.length_append] at this
      omega
    have key : ∀ m, m ≤ body.length →
        ulen (W.take (W.length - a + pre.length + Q.length + m)) =
          ulen (W.take (W.length - a)) + pre.length + Q.length + ulen (body.take m) := by
      intro m hm
      have e0 : W.take (W.length - a) = front := by
        rw [← hfl]; conv => lhs; rw [hW]
        simp [List.append_assoc]
      have e1 : W.length - a + pre.length + Q.length + m = (front ++ pre ++ Q).length + m := by
        simp only [List.length_append]; omega
      rw [e0, e1]
      conv => lhs; rw [hW]
      rw [List.take_length_add_append, List.take_append_of_le_length hm]
      simp only [ulen_append, hpl, hql]
    simp only [tokAlAt, posIn]
    rw [← hlen, ← hQ]
    refine ⟨fun m hm => ?_, ?_⟩
    · have := hal (W.length - a + pre.length + Q.length + m) (by omega)
      rw [key m hm] at this
      simpa [Nat.add_assoc] using this
    · have k1 := key body.length (Nat.le_refl _)
      rw [List.take_length] at k1
      have mono := ulen_take_mono W (i := W.length - a + pre.length + Q.length + body.length)
        (j := W.length - b) (by omega)
      rw [k1] at mono
      omega
  | _ => trivial


theorem gtie_list {base : Nat} {W : List Nat} (l : List (Tok × Nat × Nat))
    (hok : ∀ x ∈ l, tokAlAt src (posIn base W x.2.1, posIn base W x.2.2) x.1) :
    ∀ (pre suf : List (Tok × Nat × Nat)), l = pre ++ suf →
      GTie src (tabOf (l.map fun x => (posIn base W x.2.1, posIn base W x.2.2))) (suf.map (·.1))
  | _, [], _ => trivial
  | pre, x :: suf, he => by
    refine ⟨?_, ?_⟩
    · have hk : tabOf (l.map fun x => (posIn base W x.2.1, posIn base W x.2.2)) ((suf.map (·.1)).length + 1) =
          (posIn base W x.2.1, posIn base W x.2.2) := by
        rw [tabOf_get' _ _ (by omega) (by simp [he])]
        simp only [List.length_map, he, List.length_append, List.length_cons]
        simp
      rw [hk]
      exact hok x (by rw [he]; simp)
    · exact gtie_list l hok (pre ++ [x]) suf (by simp [he])

/-- **The inner tokens of a replacement field are aligned.**  If the character offsets of the text `W` at `base` are
    character boundaries of the source, the tokens the C11 lexer reads from `W` are aligned with the source at the spans
    `lexSpans base W` gives them: an f-string token inside the field satisfies the tie the soundness induction needs. -/
theorem inner_gtie {base : Nat} {W : List Nat} {tks : List Tok} (hal : Aligned src base W)
    (hl : lexGo (W.length + 1) 0 W = some tks) : GTie src (tabOf (lexSpans base W)) tks := by
  have h1 := lexBoth_toks (W.length + 1) 0 W
  rw [hl] at h1
  obtain ⟨l, hlb, hlt⟩ := map_some_inv' h1
  have h2 := lexBoth_spans (W.length + 1) 0 W
  rw [hlb] at h2
  simp only [Option.map_some] at h2
  have hch := lexSpansGo_chain _ _ _ _ h2.symm
  have htx := lexBoth_texts W _ _ W (List.suffix_refl _) l hlb
  have hsp : lexSpans base W = l.map fun x => (posIn base W x.2.1, posIn base W x.2.2) := by
    unfold lexSpans
    rw [← h2]
    simp [List.map_map, Function.comp_def]
  rw [hsp, ← hlt]
  refine gtie_list l (fun x hx => ?_) [] l rfl
  have hm := chainD_mem hch x.2 (List.mem_map.mpr ⟨x, hx, rfl⟩)
  exact tokAlAt_of_text hal hm.1 hm.2 (htx x hx)

end PV.C02
