import PV.Prog.Parse
import PV.C02.RProgSyntax
/-
  PV.C02.RProg — the RANGED twin of the reference parser for whole programs `PV.Prog.parseProgram`
  (`lean/PV/Prog/Parse.lean`): a model of how the grammar actions of `parser/src/python.lalrpop` compute the range
  of every statement, pattern, handler, match case, alias, with-item, type parameter, parameter and `Arguments`
  node (under `all-nodes-with-ranges`) and of the `Mod*` node.

  * Same control structure as `Parse.lean`, function by function (`parseRSmall` ↔ `parseSmall`, …), the same
    token-driven decisions on the same `List Tok`; `PV.C02.parseR`'s functions (`RParse.lean`) at every expression
    position.  Ranges come from the span table `σ` (see `RParse.lean`: `L σ ts` = `@L`, `R σ ts` = `@R`,
    `P σ ts` = start of the token just consumed).
  * `<location:@L> … <end_location:@R>` becomes `(L σ ts, R σ rest)`; the DERIVED ends are copied from the actions
    as they are (not corrected):
      - compound statements (`If` / `While` / `For` / `With` / `Try` / `FunctionDef` / `ClassDef` / `Match`, handlers,
        match cases) end at `body.last().unwrap().end()` (`orelse` / `finalbody` / `handlers` where the action looks
        there) — the end of the last STATEMENT, so a `;` that closes the block is outside (listed finding
        `compound-end-excludes-trailing-semicolon`);
      - decorated definitions start at `def` / `class` / `async` (the decorators precede the node: the property's
        exemption); `elif` chains nest, each inner `If` from its `elif` keyword to the common end;
      - `async for` / `async with` / `async def` start at `async`;
      - the implicit subject tuple of `match a, b:` / `match x,:` is ranged `first.start()..last.end()` (NODE ranges:
        parentheses of the first / last element and a trailing comma are outside — listed finding
        `match-subject-tuple-range-excludes-element-parentheses`);
      - a parameter with a default ends at `default.end()` (node; /repo b100d26), the `Arg` at the end of its
        annotation; `Arguments` = first parameter token .. token in front of `)` (with a trailing comma), the empty
        list = the parentheses;
      - with-items: an item of a parenthesised list in front of the first `as` is ranged like its expression NODE
        (/repo 14693ce), every other item from its first to its last token; `with (a := b):`, `with (yield):`,
        `with (x for x in y):`, `with ():` — one item from `(` to `)`;
      - parenthesised (group) patterns are returned unchanged; `Patterns` with a trailing comma include it;
      - the `Mod*` node: start of the first token (the start marker sits there, /repo e8203b1) .. end of the last one.

  Core Lean only.
-/
namespace PV.C02
open PV.Expr PV.C11 PV.Prog

/-! ## expression lists at statement level -/

def parseRElem (σ : SpanTab) : EK → Nat → List Tok → PR RExpr
  | .testOrStar, f, ts => parseRTestOrStar σ f ts
  | .exprOrStar, f, ts => parseRExprOrStar σ f ts
  | .starOrNamed, f, ts => parseRStarOrNamed σ f ts
  | .test, f, ts => parseRTest σ f ts

/-- `OneOrMore<Elem> ","?` -/
def parseRCommaList (σ : SpanTab) (ek : EK) : Nat → List Tok → PR (List RExpr × Bool)
  | 0, _ => none
  | f + 1, ts =>
    match parseRElem σ ek f ts with
    | some (e, .op .comma :: r) =>
      if startsExpr r then
        (match parseRCommaList σ ek f r with
         | some ((es, tc), r') => some ((e :: es, tc), r')
         | none => none)
      else some (([e], true), r)
    | some (e, r) => some (([e], false), r)
    | none => none

/-- the action of `GenericList<Element>`: `(location..end_location)` spans the elements and a trailing comma -/
def genericListR (rg : Rg) : List RExpr × Bool → RExpr
  | ([e], false) => e
  | (es, _) => .tuple rg es

/-- `TestList` at statement level -/
def parseRTestListS (σ : SpanTab) (f : Nat) (ts : List Tok) : PR RExpr :=
  match parseRCommaList σ .testOrStar f ts with
  | some (l, r) => some (genericListR (L σ ts, R σ r) l, r)
  | none => none

/-- `YieldExpr` after the keyword (which starts at `P σ ts`) -/
def parseRYieldS (σ : SpanTab) : Nat → List Tok → PR RExpr
  | 0, _ => none
  | f + 1, .kw .from :: r =>
    (match parseRTest σ f r with
     | some (e, r') => some (.yieldFrom (P σ (.kw .from :: r), R σ r') e, r')
     | none => none)
  | f + 1, ts =>
    if startsExpr ts then
      (match parseRTestListS σ f ts with
       | some (e, r) => some (.yield (P σ ts, R σ r) (some e), r)
       | none => none)
    else some (.yield (P σ ts, R σ ts) none, ts)

/-- `TestListOrYieldExpr` -/
def parseRTestListOrYield (σ : SpanTab) : Nat → List Tok → PR RExpr
  | 0, _ => none
  | f + 1, .kw .yield :: r => parseRYieldS σ f r
  | f + 1, ts => parseRTestListS σ f ts

/-- `AssignSuffix*` -/
def parseRAssignSuffixes (σ : SpanTab) : Nat → List Tok → PR (List RExpr)
  | 0, _ => none
  | f + 1, .op .assign :: r =>
    (match parseRTestListOrYield σ f r with
     | some (e, r1) =>
       (match parseRAssignSuffixes σ f r1 with
        | some (es, r2) => some (e :: es, r2)
        | none => none)
     | none => none)
  | _ + 1, ts => some ([], ts)

def assignOfR (rg : Rg) (first : RExpr) (suffix : List RExpr) : Option RStmt :=
  match suffix.getLast? with
  | some v => some (.assign rg (first :: suffix.dropLast) v)
  | none => none

def isNameR : RExpr → Bool
  | .name .. => true
  | _ => false

/-- `ExpressionStatement` -/
def parseRExprStmt (σ : SpanTab) : Nat → List Tok → PR RStmt
  | 0, _ => none
  | f + 1, ts =>
    match parseRCommaList σ .testOrStar f ts with
    | none => none
    | some ((es, tc), rest) =>
      let e := genericListR (L σ ts, R σ rest) (es, tc)
      match rest with
      | .op .assign :: _ =>
        (match parseRAssignSuffixes σ f rest with
         | some (vals, r) =>
           (match assignOfR (L σ ts, R σ r) e vals with
            | some s => some (s, r)
            | none => none)
         | none => none)
      | .op .colon :: r =>
        (match es, tc with
         | [x], false =>
           if isStarredR x then none else
           (match parseRTest σ f r with
            | some (ann, .op .assign :: r1) =>
              (match parseRTestListOrYield σ f r1 with
               | some (v, r2) => some (.annAssign (L σ ts, R σ r2) x ann (some v) (isNameR x && startsName ts), r2)
               | none => none)
            | some (ann, r1) => some (.annAssign (L σ ts, R σ r1) x ann none (isNameR x && startsName ts), r1)
            | none => none)
         | _, _ => none)
      | t :: r =>
        (match tk t with
         | .aug op =>
           (match parseRTestListOrYield σ f r with
            | some (v, r1) => some (.augAssign (L σ ts, R σ r1) e op v, r1)
            | none => none)
         | _ => some (.expr (L σ ts, R σ (t :: r)) e, t :: r))
      | [] => some (.expr (L σ ts, R σ []) e, [])

/-! ## the other small statements -/

/-- `OneOrMore<ImportAsAlias<DottedName>>`: an alias runs from its first name token to the end of the `as` part -/
def parseRImportNames (σ : SpanTab) : Nat → List Tok → PR (List RAlias)
  | 0, _ => none
  | f + 1, .name n :: r =>
    (match dottedTail n r with
     | some (nm, r1) =>
       (match parseAsOpt r1 with
        | some (a, .op .comma :: r2) =>
          (match parseRImportNames σ f r2 with
           | some (more, r3) => some (⟨(L σ (.name n :: r), R σ (.op .comma :: r2)), nm, a⟩ :: more, r3)
           | none => none)
        | some (a, r2) => some ([⟨(L σ (.name n :: r), R σ r2), nm, a⟩], r2)
        | none => none)
     | none => none)
  | _ + 1, _ => none

/-- `OneOrMore<ImportAsAlias<Identifier>>` -/
def parseRFromNames (σ : SpanTab) (paren : Bool) : Nat → List Tok → PR (List RAlias)
  | 0, _ => none
  | f + 1, .name n :: r =>
    (match parseAsOpt r with
     | some (a, .op .comma :: .op .rpar :: r2) =>
       if paren then some ([⟨(L σ (.name n :: r), R σ (.op .comma :: .op .rpar :: r2)), n, a⟩], .op .rpar :: r2) else none
     | some (a, .op .comma :: r2) =>
       (match parseRFromNames σ paren f r2 with
        | some (more, r3) => some (⟨(L σ (.name n :: r), R σ (.op .comma :: r2)), n, a⟩ :: more, r3)
        | none => none)
     | some (a, r2) => some ([⟨(L σ (.name n :: r), R σ r2), n, a⟩], r2)
     | none => none)
  | _ + 1, _ => none

/-- `ImportAsNames` -/
def parseRImportAsNames (σ : SpanTab) : Nat → List Tok → PR (List RAlias)
  | 0, _ => none
  | _ + 1, .op .star :: r => some ([⟨(L σ (.op .star :: r), R σ r), [42], none⟩], r)
  | f + 1, .op .lpar :: r =>
    (match parseRFromNames σ true f r with
     | some (as, .op .rpar :: r1) => some (as, r1)
     | _ => none)
  | f + 1, ts => parseRFromNames σ false f ts

/-- `"from" ImportFromLocation "import" ImportAsNames`, after `from` (which starts at `P σ ts`) -/
def parseRImportFrom (σ : SpanTab) : Nat → List Tok → PR RStmt
  | 0, _ => none
  | f + 1, ts =>
    match importDots ts with
    | (lvl, _, .name n :: r) =>
      (match dottedTail n r with
       | some (nm, t :: r1) =>
         if tk t = .hk .import then
           (match parseRImportAsNames σ f r1 with
            | some (names, r2) => some (.importFrom (P σ ts, R σ r2) (some nm) names (some lvl), r2)
            | none => none)
         else none
       | _ => none)
    | (lvl, ndots, t :: r1) =>
      if ndots = 0 then none
      else if tk t = .hk .import then
        (match parseRImportAsNames σ f r1 with
         | some (names, r2) => some (.importFrom (P σ ts, R σ r2) none names (some lvl), r2)
         | none => none)
      else none
    | _ => none

/-- one `TypeParam` -/
def typeParamItemR (σ : SpanTab) (f : Nat) (ts : List Tok) : Option (RTypeParam × List Tok) :=
  match ts with
  | .name n :: .op .colon :: r =>
    (match parseRTest σ f r with
     | some (b, r') => some (.typeVar (L σ ts, R σ r') n (some b), r')
     | none => none)
  | .name n :: r => some (.typeVar (L σ ts, R σ r) n none, r)
  | .op .star :: .name n :: r => some (.typeVarTuple (L σ ts, R σ r) n, r)
  | .op .dstar :: .name n :: r => some (.paramSpec (L σ ts, R σ r) n, r)
  | _ => none

/-- `TypeParamList` after `[`; consumes `]` -/
def parseRTypeParams (σ : SpanTab) : Nat → List Tok → PR (List RTypeParam)
  | 0, _ => none
  | f + 1, ts =>
    match typeParamItemR σ f ts with
    | some (tp, .op .comma :: .op .rsqb :: r) => some ([tp], r)
    | some (tp, .op .comma :: r) =>
      (match parseRTypeParams σ f r with
       | some (more, r') => some (tp :: more, r')
       | none => none)
    | some (tp, .op .rsqb :: r) => some ([tp], r)
    | _ => none

/-- `TypeParamList?` -/
def parseRTypeParamsOpt (σ : SpanTab) : Nat → List Tok → PR (List RTypeParam)
  | 0, _ => none
  | f + 1, .op .lsqb :: r => parseRTypeParams σ f r
  | _ + 1, ts => some ([], ts)

/-- `SmallStatement`: every action is `(location..end_location)` -/
def parseRSmall (σ : SpanTab) : Nat → List Tok → PR RStmt
  | 0, _ => none
  | _ + 1, [] => none
  | f + 1, .kw .yield :: r =>
    (match parseRYieldS σ f r with
     | some (e, r') => some (.expr (L σ (.kw .yield :: r), R σ r') e, r')
     | none => none)
  | f + 1, .kw .from :: r => parseRImportFrom σ f r
  | f + 1, t :: r =>
    match tk t with
    | .hk .pass => some (.pass (L σ (t :: r), R σ r), r)
    | .hk .break => some (.break (L σ (t :: r), R σ r), r)
    | .hk .continue => some (.continue (L σ (t :: r), R σ r), r)
    | .hk .del =>
      (match parseRCommaList σ .exprOrStar f r with
       | some ((es, _), r') => some (.delete (L σ (t :: r), R σ r') es, r')
       | none => none)
    | .hk .return =>
      if startsExpr r then
        (match parseRTestListS σ f r with
         | some (e, r') => some (.return (L σ (t :: r), R σ r') (some e), r')
         | none => none)
      else some (.return (L σ (t :: r), R σ r) none, r)
    | .hk .raise =>
      if startsExpr r then
        (match parseRTest σ f r with
         | some (e, .kw .from :: r1) =>
           (match parseRTest σ f r1 with
            | some (c, r2) => some (.raise (L σ (t :: r), R σ r2) (some e) (some c), r2)
            | none => none)
         | some (e, r1) => some (.raise (L σ (t :: r), R σ r1) (some e) none, r1)
         | none => none)
      else some (.raise (L σ (t :: r), R σ r) none none, r)
    | .hk .import =>
      (match parseRImportNames σ f r with
       | some (names, r') => some (.import (L σ (t :: r), R σ r') names, r')
       | none => none)
    | .hk .global =>
      (match parseIdents f r with
       | some (ns, r') => some (.global (L σ (t :: r), R σ r') ns, r')
       | none => none)
    | .hk .nonlocal =>
      (match parseIdents f r with
       | some (ns, r') => some (.nonlocal (L σ (t :: r), R σ r') ns, r')
       | none => none)
    | .hk .assert =>
      (match parseRTest σ f r with
       | some (e, .op .comma :: r1) =>
         (match parseRTest σ f r1 with
          | some (m, r2) => some (.assert (L σ (t :: r), R σ r2) e (some m), r2)
          | none => none)
       | some (e, r1) => some (.assert (L σ (t :: r), R σ r1) e none, r1)
       | none => none)
    | .hk .type =>
      (match r with
       | .name n :: r1 =>
         (match parseRTypeParamsOpt σ f r1 with
          | some (tps, .op .assign :: r2) =>
            (match parseRTest σ f r2 with
             | some (v, r3) => some (.typeAlias (L σ (t :: r), R σ r3) (.name (σ (r1.length + 1)) n) tps v, r3)
             | none => none)
          | _ => none)
       | _ => none)
    | _ => parseRExprStmt σ f (t :: r)

/-- `(SmallStatement ";")* SmallStatement ";"? "\n"` -/
def parseRSimpleLine (σ : SpanTab) : Nat → List Tok → PR (List RStmt)
  | 0, _ => none
  | f + 1, ts =>
    match parseRSmall σ f ts with
    | some (s, t :: r) =>
      (match tk t with
       | .newline => some ([s], r)
       | .semi =>
         (match r with
          | t2 :: r2 =>
            if tk t2 = .newline then some ([s], r2)
            else
              (match parseRSimpleLine σ f r with
               | some (more, r3) => some (s :: more, r3)
               | none => none)
          | [] => none)
       | _ => none)
    | _ => none

/-! ## patterns -/

/-- `ConstantAtom` at the token with `k` tokens left -/
def constAtomR (σ : SpanTab) (k : Nat) : Tok → Option RExpr
  | .int n => some (.const (σ k) (.int n))
  | .float b => some (.const (σ k) (.float b))
  | .imag b => some (.const (σ k) (.imag b))
  | _ => none

/-- the optional `AddOp ConstantAtom` of `AddOpExpr`; `st` = where the `ConstantExpr` started -/
def addTailR (σ : SpanTab) (st : Nat) (left : RExpr) : List Tok → Option (RExpr × List Tok)
  | .op .plus :: t :: r =>
    (match constAtomR σ (r.length + 1) t with
     | some c => some (.binOp (st, R σ r) left .add c, r)
     | none => none)
  | .op .minus :: t :: r =>
    (match constAtomR σ (r.length + 1) t with
     | some c => some (.binOp (st, R σ r) left .sub c, r)
     | none => none)
  | [.op .plus] => none
  | [.op .minus] => none
  | ts => some (left, ts)

/-- `ConstantExpr | AddOpExpr` -/
def parseRConstExpr (σ : SpanTab) : List Tok → Option (RExpr × List Tok)
  | .op .minus :: t :: r =>
    (match constAtomR σ (r.length + 1) t with
     | some c => addTailR σ (σ (r.length + 2)).1 (.unaryOp ((σ (r.length + 2)).1, R σ r) .uSub c) r
     | none => none)
  | t :: r =>
    (match constAtomR σ (r.length + 1) t with
     | some c => addTailR σ (σ (r.length + 1)).1 c r
     | none => none)
  | [] => none

/-- `MatchName ("." Identifier)*`: every `Attribute` starts where the name starts (`st`) -/
def attrChainR (σ : SpanTab) (st : Nat) : RExpr → Bool → List Tok → Option (RExpr × Bool × List Tok)
  | acc, _, .op .dot :: .name n :: r => attrChainR σ st (.attribute (st, R σ r) acc n) true r
  | _, _, .op .dot :: _ => none
  | acc, d, ts => some (acc, d, ts)

/-- `MappingKey` -/
def parseRMapKey (σ : SpanTab) : Nat → List Tok → PR RExpr
  | 0, _ => none
  | _ + 1, .kw .none :: r => some (.const (σ (r.length + 1)) .none, r)
  | _ + 1, .kw .true :: r => some (.const (σ (r.length + 1)) (.bool true), r)
  | _ + 1, .kw .false :: r => some (.const (σ (r.length + 1)) (.bool false), r)
  | f + 1, .str s u :: r => parseRStrings σ f (.str s u :: r)
  | f + 1, .bytes b :: r => parseRStrings σ f (.bytes b :: r)
  | f + 1, .fstr q t rw b :: r => parseRStrings σ f (.fstr q t rw b :: r)
  | _ + 1, .name n :: r =>
    (match attrChainR σ (σ (r.length + 1)).1 (.name (σ (r.length + 1)) n) false r with
     | some (e, true, r1) => some (e, r1)
     | _ => none)
  | _ + 1, ts => parseRConstExpr σ ts

mutual

/-- `Pattern`: `OrPattern` or `OrPattern "as" Identifier` -/
def parseRPattern (σ : SpanTab) : Nat → List Tok → PR RPattern
  | 0, _ => none
  | f + 1, ts =>
    match parseROrPattern σ f ts with
    | some (p, t :: r) =>
      if tk t = .hk .as then
        (match r with
         | .name n :: r1 => if n = [95] then none else some (.matchAs (L σ ts, R σ r1) (some p) (some n), r1)
         | _ => none)
      else some (p, t :: r)
    | res => res
termination_by structural f => f

/-- `OrPattern` -/
def parseROrPattern (σ : SpanTab) : Nat → List Tok → PR RPattern
  | 0, _ => none
  | f + 1, ts =>
    match parseRClosed σ f ts with
    | some (p, .op .bar :: r) =>
      (match parseROrPatRest σ f r with
       | some (ps, r') => some (.matchOr (L σ ts, R σ r') (p :: ps), r')
       | none => none)
    | res => res
termination_by structural f => f

def parseROrPatRest (σ : SpanTab) : Nat → List Tok → PR (List RPattern)
  | 0, _ => none
  | f + 1, ts =>
    match parseRClosed σ f ts with
    | some (p, .op .bar :: r) =>
      (match parseROrPatRest σ f r with
       | some (ps, r') => some (p :: ps, r')
       | none => none)
    | some (p, r) => some ([p], r)
    | none => none
termination_by structural f => f

/-- `ClosedPattern`; a parenthesised (group) pattern is returned unchanged -/
def parseRClosed (σ : SpanTab) : Nat → List Tok → PR RPattern
  | 0, _ => none
  | _ + 1, .kw .none :: r => some (.matchSingleton (σ (r.length + 1)) .none, r)
  | _ + 1, .kw .true :: r => some (.matchSingleton (σ (r.length + 1)) (.bool true), r)
  | _ + 1, .kw .false :: r => some (.matchSingleton (σ (r.length + 1)) (.bool false), r)
  | f + 1, .str s u :: r =>
    (match parseRStrings σ f (.str s u :: r) with
     | some (e, r') => some (.matchValue (L σ (.str s u :: r), R σ r') e, r')
     | none => none)
  | f + 1, .bytes b :: r =>
    (match parseRStrings σ f (.bytes b :: r) with
     | some (e, r') => some (.matchValue (L σ (.bytes b :: r), R σ r') e, r')
     | none => none)
  | f + 1, .fstr q t rw b :: r =>
    (match parseRStrings σ f (.fstr q t rw b :: r) with
     | some (e, r') => some (.matchValue (L σ (.fstr q t rw b :: r), R σ r') e, r')
     | none => none)
  | _ + 1, .op .star :: .name n :: r => some (.matchStar ((σ (r.length + 2)).1, R σ r) (patName n), r)
  | f + 1, .name n :: r =>
    (match attrChainR σ (σ (r.length + 1)).1 (.name (σ (r.length + 1)) n) false r with
     | some (cls, _, .op .lpar :: r1) => parseRClassArgs σ f (σ (r.length + 1)).1 cls r1
     | some (e, true, r1) => some (.matchValue ((σ (r.length + 1)).1, R σ r1) e, r1)
     | some (_, false, r1) => some (.matchAs (σ (r.length + 1)) none (patName n), r1)
     | none => none)
  | _ + 1, .op .lpar :: .op .rpar :: r => some (.matchSequence ((σ (r.length + 2)).1, R σ r) [], r)
  | f + 1, .op .lpar :: r =>
    (match parseRPatternList σ f r with
     | some (([p], false), .op .rpar :: r1) => some (p, r1)
     | some ((ps, _), .op .rpar :: r1) => some (.matchSequence (P σ r, R σ r1) ps, r1)
     | _ => none)
  | _ + 1, .op .lsqb :: .op .rsqb :: r => some (.matchSequence ((σ (r.length + 2)).1, R σ r) [], r)
  | f + 1, .op .lsqb :: r =>
    (match parseRPatternList σ f r with
     | some ((ps, _), .op .rsqb :: r1) => some (.matchSequence (P σ r, R σ r1) ps, r1)
     | _ => none)
  | _ + 1, .op .lbrace :: .op .rbrace :: r => some (.matchMapping ((σ (r.length + 2)).1, R σ r) [] [] none, r)
  | f + 1, .op .lbrace :: r => parseRMapItems σ f (P σ r) r [] []
  | _ + 1, ts =>
    (match parseRConstExpr σ ts with
     | some (e, r) => some (.matchValue (L σ ts, R σ r) e, r)
     | none => none)
termination_by structural f => f

/-- `OneOrMore<Pattern> ","?` -/
def parseRPatternList (σ : SpanTab) : Nat → List Tok → PR (List RPattern × Bool)
  | 0, _ => none
  | f + 1, ts =>
    match parseRPattern σ f ts with
    | some (p, .op .comma :: r) =>
      if startsPattern r then
        (match parseRPatternList σ f r with
         | some ((ps, tc), r') => some ((p :: ps, tc), r')
         | none => none)
      else some (([p], true), r)
    | some (p, r) => some (([p], false), r)
    | none => none
termination_by structural f => f

/-- the arguments of a `ClassPattern` after `(`; `st` = where the class name started; consumes `)` -/
def parseRClassArgs (σ : SpanTab) : Nat → Nat → RExpr → List Tok → PR RPattern
  | 0, _, _, _ => none
  | _ + 1, st, cls, .op .rpar :: r => some (.matchClass (st, R σ r) cls [] [] [], r)
  | f + 1, st, cls, ts =>
    (match parseRClassItems σ f ts [] [] [] with
     | some ((ps, ka, kp), r) => some (.matchClass (st, R σ r) cls ps ka kp, r)
     | none => none)
termination_by structural f => f

def parseRClassItems (σ : SpanTab) : Nat → List Tok → List RPattern → List Ident → List RPattern →
    PR (List RPattern × List Ident × List RPattern)
  | 0, _, _, _, _ => none
  | f + 1, .name n :: .op .assign :: r, ps, ka, kp =>
    (match parseRPattern σ f r with
     | some (p, .op .comma :: .op .rpar :: r2) => some ((ps, ka ++ [n], kp ++ [p]), r2)
     | some (p, .op .comma :: r2) => parseRClassItems σ f r2 ps (ka ++ [n]) (kp ++ [p])
     | some (p, .op .rpar :: r2) => some ((ps, ka ++ [n], kp ++ [p]), r2)
     | _ => none)
  | f + 1, ts, ps, ka, kp =>
    if !ka.isEmpty then none else
    (match parseRPattern σ f ts with
     | some (p, .op .comma :: .op .rpar :: r2) => some ((ps ++ [p], ka, kp), r2)
     | some (p, .op .comma :: r2) => parseRClassItems σ f r2 (ps ++ [p]) ka kp
     | some (p, .op .rpar :: r2) => some ((ps ++ [p], ka, kp), r2)
     | _ => none)
termination_by structural f => f

/-- the entries of a `MappingPattern` after `{` (not empty); `st` = where the `{` started; consumes `}` -/
def parseRMapItems (σ : SpanTab) : Nat → Nat → List Tok → List RExpr → List RPattern → PR RPattern
  | 0, _, _, _, _ => none
  | _ + 1, st, .op .dstar :: .name n :: .op .comma :: .op .rbrace :: r, ks, ps =>
    some (.matchMapping (st, R σ r) ks ps (some n), r)
  | _ + 1, st, .op .dstar :: .name n :: .op .rbrace :: r, ks, ps => some (.matchMapping (st, R σ r) ks ps (some n), r)
  | _ + 1, _, .op .dstar :: _, _, _ => none
  | f + 1, st, ts, ks, ps =>
    (match parseRMapKey σ f ts with
     | some (k, .op .colon :: r) =>
       (match parseRPattern σ f r with
        | some (p, .op .comma :: .op .rbrace :: r2) => some (.matchMapping (st, R σ r2) (ks ++ [k]) (ps ++ [p]) none, r2)
        | some (p, .op .comma :: r2) => parseRMapItems σ f st r2 (ks ++ [k]) (ps ++ [p])
        | some (p, .op .rbrace :: r2) => some (.matchMapping (st, R σ r2) (ks ++ [k]) (ps ++ [p]) none, r2)
        | _ => none)
     | _ => none)
termination_by structural f => f

end

/-- `Patterns` (after `case`): a trailing comma is inside the `MatchSequence` -/
def parseRPatterns (σ : SpanTab) (f : Nat) (ts : List Tok) : PR RPattern :=
  match parseRPatternList σ f ts with
  | some (([p], false), r) => some (p, r)
  | some ((ps, _), r) => some (.matchSequence (L σ ts, R σ r) ps, r)
  | none => none

/-! ## function definitions: `Parameters` -/

def argNamesR (a : RArguments) : List Ident :=
  (a.posonly ++ a.args ++ a.kwonly).map (fun p => p.arg.name) ++
    (a.vararg.map (fun v => v.name)).toList ++ (a.kwarg.map (fun v => v.name)).toList

def validNamesR (a : RArguments) : Bool := !hasDup (argNamesR a)

def validPosR (ps : List RArgD) : Bool :=
  ((ps.dropWhile (fun a => a.default.isNone)).dropWhile (fun a => a.default.isSome)).isEmpty

def bareStarOkRA (a : RArguments) (phase : Nat) : Bool :=
  !(phase = 2 && a.vararg.isNone && a.kwonly.isEmpty)

/-- optional `":" X` annotation -/
def parseRAnnOpt (σ : SpanTab) (star : Bool) : Nat → List Tok → PR (Option RExpr)
  | 0, _ => none
  | f + 1, .op .colon :: r =>
    (match (if star then parseRTestOrStar σ f r else parseRTest σ f r) with
     | some (a, r') => some (some a, r')
     | none => none)
  | _ + 1, ts => some (none, ts)

/-- optional `"=" Test` default -/
def parseRDefaultOpt (σ : SpanTab) : Nat → List Tok → PR (Option RExpr)
  | 0, _ => none
  | f + 1, .op .assign :: r =>
    (match parseRTest σ f r with
     | some (d, r') => some (some d, r')
     | none => none)
  | _ + 1, ts => some (none, ts)

/-- `ParameterDef<TypedParameter>`: the `Arg` = name .. end of the annotation (`@R`); the `ArgWithDefault` the same
    without a default, else name .. `default.end()` (the default's NODE) -/
def argDR (argRg : Rg) (n : Ident) (an d : Option RExpr) : RArgD :=
  match d with
  | none => ⟨argRg, ⟨argRg, n, an⟩, none⟩
  | some e => ⟨(argRg.1, e.range.2), ⟨argRg, n, an⟩, some e⟩

/-- one item of a typed parameter list -/
def typedItemR (σ : SpanTab) (f : Nat) (ts : List Tok) (ps : RArguments) (phase : Nat) :
    Option (RArguments × Nat × List Tok) :=
  match ts with
  | .name n :: r =>
    if phase ≤ 2 then
      (match parseRAnnOpt σ false f r with
       | some (an, r1) =>
         (match parseRDefaultOpt σ f r1 with
          | some (d, r2) =>
            let p : RArgD := argDR (L σ ts, R σ r1) n an d
            if phase = 2 then some ({ ps with kwonly := ps.kwonly ++ [p] }, phase, r2)
            else some ({ ps with args := ps.args ++ [p] }, phase, r2)
          | none => none)
       | none => none)
    else none
  | .op .slash :: r =>
    if phase = 0 ∧ !ps.args.isEmpty then some ({ ps with posonly := ps.args, args := [] }, 1, r)
    else none
  | .op .star :: .name n :: r =>
    if phase ≤ 1 then
      (match parseRAnnOpt σ true f r with
       | some (an, r1) => some ({ ps with vararg := some ⟨((σ (r.length + 1)).1, R σ r1), n, an⟩ }, 2, r1)
       | none => none)
    else none
  | .op .star :: r => if phase ≤ 1 then some (ps, 2, r) else none
  | .op .dstar :: .name n :: r =>
    if phase ≤ 2 then
      (match parseRAnnOpt σ false f r with
       | some (an, r1) => some ({ ps with kwarg := some ⟨((σ (r.length + 1)).1, R σ r1), n, an⟩ }, 3, r1)
       | none => none)
    else none
  | .op .dstar :: r => if phase ≤ 2 then some (ps, 3, r) else none
  | _ => none

/-- `ParameterList<TypedParameter, …>` as a loop over the items; consumes `)` -/
def parseRTypedParams (σ : SpanTab) : Nat → List Tok → RArguments → Nat → PR RArguments
  | 0, _, _, _ => none
  | f + 1, ts, ps, phase =>
    match typedItemR σ f ts ps phase with
    | none => none
    | some (ps', phase', r) =>
      match r with
      | .op .comma :: .op .rpar :: r2 => if bareStarOkRA ps' phase' then some (ps', r2) else none
      | .op .comma :: r2 => parseRTypedParams σ f r2 ps' phase'
      | .op .rpar :: r2 => if bareStarOkRA ps' phase' then some (ps', r2) else none
      | _ => none

/-- `Parameters` after `(` (which starts at `P σ ts`): the empty list is ranged like the parentheses, a non-empty one
    from its first token to the token in front of `)` -/
def parseRParameters (σ : SpanTab) : Nat → List Tok → PR RArguments
  | 0, _ => none
  | _ + 1, .op .rpar :: r => some ({ rg := (P σ (.op .rpar :: r), R σ r) }, r)
  | f + 1, ts =>
    match parseRTypedParams σ f ts { rg := (0, 0) } 0 with
    | some (a, r) =>
      if validPosR (a.posonly ++ a.args) && validNamesR a then some ({ a with rg := (L σ ts, (σ (r.length + 2)).2) }, r)
      else none
    | none => none

/-- `Decorator*`: each decorator is its expression -/
def parseRDecorators (σ : SpanTab) : Nat → List Tok → PR (List RExpr)
  | 0, _ => none
  | f + 1, .op .at :: r =>
    (match parseRNamedTest σ f r with
     | some (e, t :: r1) =>
       if tk t = .newline then
         (match parseRDecorators σ f r1 with
          | some (ds, r2) => some (e :: ds, r2)
          | none => none)
       else none
     | _ => none)
  | _ + 1, ts => some ([], ts)

/-! ## with items -/

/-- `WithItem<"all">`: from the first token of the expression to the last token of the item -/
def parseRWithItem (σ : SpanTab) : Nat → List Tok → PR RWithItem
  | 0, _ => none
  | f + 1, ts =>
    match parseRTest σ f ts with
    | some (e, t :: r) =>
      if tk t = .hk .as then
        (match parseRBin σ 0 f r with
         | some (v, r1) => some (⟨(L σ ts, R σ r1), e, some v⟩, r1)
         | none => none)
      else some (⟨(L σ ts, R σ (t :: r)), e, none⟩, t :: r)
    | some (e, []) => some (⟨(L σ ts, R σ []), e, none⟩, [])
    | none => none

def parseRWithPlain (σ : SpanTab) : Nat → List Tok → PR (List RWithItem)
  | 0, _ => none
  | f + 1, ts =>
    match parseRWithItem σ f ts with
    | some (it, .op .comma :: r) =>
      (match parseRWithPlain σ f r with
       | some (more, r1) => some (it :: more, r1)
       | none => none)
    | some (it, r) => some ([it], r)
    | none => none

/-- one element between the parentheses after `with (`: expression, not-a-`Test` flag, `as` target, and the span of
    its tokens -/
structure RWElem where
  e : RExpr
  special : Bool
  v : Option RExpr
  ext : Rg

/-- `("as" Expression)?` of an element -/
def asPartR (σ : SpanTab) (f : Nat) (r : List Tok) : Option (Option RExpr × List Tok) :=
  match r with
  | t :: r' =>
    if tk t = .hk .as then
      (match parseRBin σ 0 f r' with
       | some (v, r2) => some (some v, r2)
       | none => none)
    else some (none, t :: r')
  | [] => some (none, [])

def parseRWithParenElems (σ : SpanTab) : Nat → List Tok → PR (List RWElem × Bool)
  | 0, _ => none
  | f + 1, ts =>
    match parseRStarOrNamed σ f ts with
    | none => none
    | some (e, r) =>
      match asPartR σ f r with
      | none => none
      | some (v, r1) =>
        let el : RWElem := ⟨e, startsSpecial ts, v, (L σ ts, R σ r1)⟩
        match r1 with
        | .op .comma :: .op .rpar :: r2 => some (([el], true), r2)
        | .op .comma :: r2 =>
          (match parseRWithParenElems σ f r2 with
           | some ((els, tc), r3) => some ((el :: els, tc), r3)
           | none => none)
        | .op .rpar :: r2 => some (([el], false), r2)
        | _ => none

/-- alternative 2 of `WithItems`: `(<WithItemsNoAs> ",")? WithItem<"as"> ("," WithItem<"all">)*` — the items in
    front of the first `as` item are ranged like their expression nodes, the others by their tokens -/
def asItemsR : Bool → List RWElem → List RWithItem
  | _, [] => []
  | seen, el :: els =>
    let seen' := seen || el.v.isSome
    ⟨if seen' then el.ext else el.e.range, el.e, el.v⟩ :: asItemsR seen' els

/-- which alternative of `WithItems` a parenthesised element list belongs to, and its items; `pr` = the span from the
    `(` to the `)` -/
def withParenItemsR (pr : Rg) (els : List RWElem) (tc : Bool) : Option (List RWithItem) :=
  if els.any (fun el => el.v.isSome) then
    if els.any (fun el => el.special) then none
    else some (asItemsR false els)
  else if els.all (fun el => !el.special) then some (els.map fun el => ⟨el.e.range, el.e, none⟩)
  else
    match els, tc with
    | [el], false => if isStarredR el.e then none else some [⟨pr, el.e, none⟩]
    | _, _ => some [⟨pr, .tuple pr (els.map fun el => el.e), none⟩]

/-- after `with (` (which starts at `P σ ts`) when the matching `)` is followed by `:` -/
def parseRWithParen (σ : SpanTab) : Nat → List Tok → PR (List RWithItem)
  | 0, _ => none
  | _ + 1, .op .rpar :: r =>
    some ([⟨(P σ (.op .rpar :: r), R σ r), .tuple (P σ (.op .rpar :: r), R σ r) [], none⟩], r)
  | f + 1, .kw .yield :: r =>
    (match parseRYieldAtom σ f r with
     | some (e, r1) => some ([⟨(P σ (.kw .yield :: r), R σ r1), e, none⟩], r1)
     | none => none)
  | f + 1, ts =>
    match parseRStarOrNamed σ f ts with
    | none => none
    | some (e, r) =>
      if atCompFor r then
        if isStarredR e then none else
        (match parseRCompFor σ f r with
         | some (gs, .op .rpar :: r2) => some ([⟨(P σ ts, R σ r2), .genExp (P σ ts, R σ r2) e gs, none⟩], r2)
         | _ => none)
      else
        (match parseRWithParenElems σ f ts with
         | some ((els, tc), r1) =>
           (match withParenItemsR (P σ ts, R σ r1) els tc with
            | some items => some (items, r1)
            | none => none)
         | none => none)

/-- `WithItems`; stops in front of the `:` -/
def parseRWithItems (σ : SpanTab) : Nat → List Tok → PR (List RWithItem)
  | 0, _ => none
  | f + 1, .op .lpar :: r =>
    (match afterClose 1 r with
     | some (.op .colon :: _) => parseRWithParen σ f r
     | _ => parseRWithPlain σ f (.op .lpar :: r))
  | f + 1, ts => parseRWithPlain σ f ts

/-! ## headers of compound statements -/

def parseRExceptHeader (σ : SpanTab) : Nat → Bool → List Tok → PR (Option RExpr × Option Ident)
  | 0, _, _ => none
  | _ + 1, false, .op .colon :: r => some ((none, none), r)
  | f + 1, star, ts =>
    let ts' : Option (List Tok) :=
      if star then (match ts with | .op .star :: r => some r | _ => none) else some ts
    match ts' with
    | none => none
    | some ts1 =>
      match parseRTest σ f ts1 with
      | some (e, .op .colon :: r) => some ((some e, none), r)
      | some (e, t :: .name n :: .op .colon :: r) =>
        if tk t = .hk .as then some ((some e, some n), r) else none
      | _ => none

/-- the `IfStatement` action's loop over the reversed `elif` clauses: every inner `If` runs from its `elif` keyword
    to the common `end_location` -/
def elifFoldR (endLoc : Nat) : List (Nat × RExpr × List RStmt) → List RStmt → List RStmt
  | [], last => last
  | (st, t, b) :: cs, last => elifFoldR endLoc cs [.if (st, endLoc) t b last]

/-- `end_location` of the `IfStatement` action: the last statement of `else`, else of the last `elif`, else of the body -/
def ifEndR (body : List RStmt) (s2 : List (Nat × RExpr × List RStmt)) (s3 : Option (List RStmt)) : Nat :=
  match s3 with
  | some l => lastEnd l
  | none =>
    match s2.getLast? with
    | some c => lastEnd c.2.2
    | none => lastEnd body

def ifAssembleR (st : Nat) (test : RExpr) (body : List RStmt) (s2 : List (Nat × RExpr × List RStmt))
    (s3 : Option (List RStmt)) : RStmt :=
  .if (st, ifEndR body s2 s3) test body (elifFoldR (ifEndR body s2 s3) s2.reverse (s3.getD []))

/-- `orelse.last().or_else(|| body.last()).unwrap().end()` -/
def loopEndR (body : List RStmt) (oe : Option (List RStmt)) : Nat :=
  match oe with
  | some l => lastEnd l
  | none => lastEnd body

def handlersEnd (hs : List RHandler) : Nat :=
  match hs.getLast? with
  | some h => h.range.2
  | none => 0

/-- `finalbody.last() … or orelse.last() … or handlers.last()` -/
def tryEndR (hs : List RHandler) (oe fb : Option (List RStmt)) : Nat :=
  match fb with
  | some l => lastEnd l
  | none =>
    match oe with
    | some l => lastEnd l
    | none => handlersEnd hs

def casesEnd (cs : List RCase) : Nat :=
  match cs.getLast? with
  | some c => lastEnd c.body
  | none => 0

/-- the subject of a `match`: one subject without a trailing comma is itself, otherwise the tuple ranged
    `first.start()..last.end()` -/
def matchSubjectR : List RExpr × Bool → RExpr
  | ([e], false) => e
  | (es, _) =>
    .tuple ((match es.head? with | some e => e.range.1 | none => 0),
            (match es.getLast? with | some e => e.range.2 | none => 0)) es

/-- `("->" Test)?` -/
def retOfR (σ : SpanTab) (f : Nat) (r2 : List Tok) : PR (Option RExpr) :=
  match r2 with
  | t :: r3 =>
    if tk t = .arrow then
      (match parseRTest σ f r3 with
       | some (e, r4) => some (some e, r4)
       | none => none)
    else some (none, t :: r3)
  | [] => some (none, [])

/-- `("(" ArgumentList ")")?` -/
def classArgsOfR (σ : SpanTab) (f : Nat) (r1 : List Tok) : PR (List RExpr × List RKeyword) :=
  match r1 with
  | .op .lpar :: r2 => parseRArgs σ f r2 [] [] false
  | _ => some (([], []), r1)

/-- `(Guard)?` -/
def guardOfR (σ : SpanTab) (f : Nat) (r1 : List Tok) : PR (Option RExpr) :=
  match r1 with
  | .kw .if :: r2 =>
    (match parseRNamedTest σ f r2 with
     | some (g, r3) => some (some g, r3)
     | none => none)
  | _ => some (none, r1)

/-! ## compound statements -/

mutual

/-- `Suite` -/
def parseRSuite (σ : SpanTab) : Nat → List Tok → PR (List RStmt)
  | 0, _ => none
  | f + 1, t :: t2 :: r =>
    if tk t = .newline then
      if tk t2 = .indent then parseRBlock σ f r else none
    else parseRSimpleLine σ f (t :: t2 :: r)
  | f + 1, ts => parseRSimpleLine σ f ts
termination_by structural f => f

/-- `Statements Dedent` -/
def parseRBlock (σ : SpanTab) : Nat → List Tok → PR (List RStmt)
  | 0, _ => none
  | f + 1, ts =>
    let first : PR (List RStmt) :=
      if startsCompound ts then
        (match parseRCompound σ f ts with
         | some (s, r) => some ([s], r)
         | none => none)
      else parseRSimpleLine σ f ts
    match first with
    | some (ss, t :: r) =>
      if tk t = .dedent then some (ss, r)
      else
        (match parseRBlock σ f (t :: r) with
         | some (more, r2) => some (ss ++ more, r2)
         | none => none)
    | _ => none
termination_by structural f => f

/-- `("else" ":" Suite)?` -/
def parseRElse (σ : SpanTab) : Nat → List Tok → PR (Option (List RStmt))
  | 0, _ => none
  | f + 1, .kw .else :: .op .colon :: r =>
    (match parseRSuite σ f r with
     | some (b, r1) => some (some b, r1)
     | none => none)
  | _ + 1, .kw .else :: _ => none
  | _ + 1, ts => some (none, ts)
termination_by structural f => f

/-- `("finally" ":" Suite)?` -/
def parseRFinally (σ : SpanTab) : Nat → List Tok → PR (Option (List RStmt))
  | 0, _ => none
  | _ + 1, [] => some (none, [])
  | f + 1, t :: r =>
    if tk t = .hk .finally then
      (match r with
       | .op .colon :: r1 =>
         (match parseRSuite σ f r1 with
          | some (b, r2) => some (some b, r2)
          | none => none)
       | _ => none)
    else some (none, t :: r)
termination_by structural f => f

/-- `(@L "elif" NamedExpressionTest ":" Suite)*`: each clause with the start of its keyword -/
def parseRElifs (σ : SpanTab) : Nat → List Tok → PR (List (Nat × RExpr × List RStmt))
  | 0, _ => none
  | _ + 1, [] => some ([], [])
  | f + 1, t :: r =>
    if tk t = .hk .elif then
      (match parseRNamedTest σ f r with
       | some (test, .op .colon :: r1) =>
         (match parseRSuite σ f r1 with
          | some (body, r2) =>
            (match parseRElifs σ f r2 with
             | some (cs, r3) => some ((L σ (t :: r), test, body) :: cs, r3)
             | none => none)
          | none => none)
       | _ => none)
    else some ([], t :: r)
termination_by structural f => f

/-- `ExceptClause+` / `ExceptStarClause+`: a handler runs from `except` to the end of its last statement -/
def parseRHandlers (σ : SpanTab) : Nat → Bool → List Tok → PR (List RHandler)
  | 0, _, _ => none
  | _ + 1, _, [] => none
  | f + 1, star, t :: r =>
    if tk t = .hk .except then
      (match parseRExceptHeader σ f star r with
       | some ((ty, nm), r1) =>
         (match parseRSuite σ f r1 with
          | some (b, t2 :: r2) =>
            if tk t2 = .hk .except then
              (match parseRHandlers σ f star (t2 :: r2) with
               | some (hs, r3) => some (.mk (L σ (t :: r), lastEnd b) ty nm b :: hs, r3)
               | none => none)
            else some ([.mk (L σ (t :: r), lastEnd b) ty nm b], t2 :: r2)
          | some (b, []) => some ([.mk (L σ (t :: r), lastEnd b) ty nm b], [])
          | none => none)
       | none => none)
    else none
termination_by structural f => f

/-- `MatchCase+ Dedent`: a case runs from `case` to the end of its last statement -/
def parseRCases (σ : SpanTab) : Nat → List Tok → PR (List RCase)
  | 0, _ => none
  | _ + 1, [] => none
  | f + 1, t :: r =>
    if tk t = .hk .case then
      (match parseRPatterns σ f r with
       | some (p, r1) =>
         (match guardOfR σ f r1 with
          | some (g, .op .colon :: r4) =>
            (match parseRSuite σ f r4 with
             | some (body, t5 :: r5) =>
               if tk t5 = .dedent then some ([.mk (L σ (t :: r), lastEnd body) p g body], r5)
               else
                 (match parseRCases σ f (t5 :: r5) with
                  | some (cs, r6) => some (.mk (L σ (t :: r), lastEnd body) p g body :: cs, r6)
                  | none => none)
             | _ => none)
          | _ => none)
       | none => none)
    else none
termination_by structural f => f

/-- `FuncDef` after `def`; `st` = start of `async` / `def` -/
def parseRDef (σ : SpanTab) : Nat → Nat → Bool → List RExpr → List Tok → PR RStmt
  | 0, _, _, _, _ => none
  | f + 1, st, isAsync, decos, .name n :: r =>
    (match parseRTypeParamsOpt σ f r with
     | some (tps, .op .lpar :: r1) =>
       (match parseRParameters σ f r1 with
        | some (args, r2) =>
          (match retOfR σ f r2 with
           | some (returns, .op .colon :: r5) =>
             (match parseRSuite σ f r5 with
              | some (body, r6) =>
                if isAsync then some (.asyncFunctionDef (st, lastEnd body) n args body decos returns tps, r6)
                else some (.functionDef (st, lastEnd body) n args body decos returns tps, r6)
              | none => none)
           | _ => none)
        | none => none)
     | _ => none)
  | _ + 1, _, _, _, _ => none
termination_by structural f => f

/-- `ClassDef` after `class`; `st` = start of `class` -/
def parseRClass (σ : SpanTab) : Nat → Nat → List RExpr → List Tok → PR RStmt
  | 0, _, _, _ => none
  | f + 1, st, decos, .name n :: r =>
    (match parseRTypeParamsOpt σ f r with
     | some (tps, r1) =>
       (match classArgsOfR σ f r1 with
        | some ((bases, kws), .op .colon :: r3) =>
          (match parseRSuite σ f r3 with
           | some (body, r4) => some (.classDef (st, lastEnd body) n bases kws body decos tps, r4)
           | none => none)
        | _ => none)
     | none => none)
  | _ + 1, _, _, _ => none
termination_by structural f => f

/-- `CompoundStatement` -/
def parseRCompound (σ : SpanTab) : Nat → List Tok → PR RStmt
  | 0, _ => none
  | _ + 1, [] => none
  | f + 1, .kw .if :: r =>
    (match parseRNamedTest σ f r with
     | some (test, .op .colon :: r1) =>
       (match parseRSuite σ f r1 with
        | some (body, r2) =>
          (match parseRElifs σ f r2 with
           | some (s2, r3) =>
             (match parseRElse σ f r3 with
              | some (s3, r4) => some (ifAssembleR (L σ (.kw .if :: r)) test body s2 s3, r4)
              | none => none)
           | none => none)
        | none => none)
     | _ => none)
  | f + 1, .kw .for :: r => parseRFor σ f (L σ (.kw .for :: r)) false r
  | f + 1, .kw .async :: .kw .for :: r => parseRFor σ f (L σ (.kw .async :: .kw .for :: r)) true r
  | f + 1, .kw .async :: t :: r =>
    (match tk t with
     | .hk .with => parseRWith σ f (L σ (.kw .async :: t :: r)) true r
     | .hk .def => parseRDef σ f (L σ (.kw .async :: t :: r)) true [] r
     | _ => none)
  | _ + 1, [.kw .async] => none
  | f + 1, .op .at :: r =>
    (match parseRDecorators σ f (.op .at :: r) with
     | some (decos, .kw .async :: t :: r1) =>
       if tk t = .hk .def then parseRDef σ f (L σ (.kw .async :: t :: r1)) true decos r1 else none
     | some (decos, t :: r1) =>
       (match tk t with
        | .hk .def => parseRDef σ f (L σ (t :: r1)) false decos r1
        | .hk .class => parseRClass σ f (L σ (t :: r1)) decos r1
        | _ => none)
     | _ => none)
  | f + 1, t :: r =>
    match tk t with
    | .hk .while =>
      (match parseRNamedTest σ f r with
       | some (test, .op .colon :: r1) =>
         (match parseRSuite σ f r1 with
          | some (body, r2) =>
            (match parseRElse σ f r2 with
             | some (oe, r3) => some (.while (L σ (t :: r), loopEndR body oe) test body (oe.getD []), r3)
             | none => none)
          | none => none)
       | _ => none)
    | .hk .try =>
      (match r with
       | .op .colon :: r1 =>
         (match parseRSuite σ f r1 with
          | some (body, t2 :: r2) =>
            (match tk t2 with
             | .hk .finally =>
               (match r2 with
                | .op .colon :: r3 =>
                  (match parseRSuite σ f r3 with
                   | some (fb, r4) => some (.try (L σ (t :: r), lastEnd fb) body [] [] fb, r4)
                   | none => none)
                | _ => none)
             | .hk .except =>
               let star : Bool := match r2 with | .op .star :: _ => true | _ => false
               (match parseRHandlers σ f star (t2 :: r2) with
                | some (hs, r3) =>
                  (match parseRElse σ f r3 with
                   | some (oe, r4) =>
                     (match parseRFinally σ f r4 with
                      | some (fb, r5) =>
                        if star then
                          some (.tryStar (L σ (t :: r), tryEndR hs oe fb) body hs (oe.getD []) (fb.getD []), r5)
                        else some (.try (L σ (t :: r), tryEndR hs oe fb) body hs (oe.getD []) (fb.getD []), r5)
                      | none => none)
                   | none => none)
                | none => none)
             | _ => none)
          | _ => none)
       | _ => none)
    | .hk .with => parseRWith σ f (L σ (t :: r)) false r
    | .hk .def => parseRDef σ f (L σ (t :: r)) false [] r
    | .hk .class => parseRClass σ f (L σ (t :: r)) [] r
    | .hk .match =>
      (match parseRCommaList σ .starOrNamed f r with
       | some ((es, tc), .op .colon :: t1 :: t2 :: r1) =>
         if tk t1 = .newline ∧ tk t2 = .indent then
           (match parseRCases σ f r1 with
            | some (cs, r2) => some (.match (L σ (t :: r), casesEnd cs) (matchSubjectR (es, tc)) cs, r2)
            | none => none)
         else none
       | _ => none)
    | _ => none
termination_by structural f => f

/-- `ForStatement` after `for`; `st` = start of `async` / `for` -/
def parseRFor (σ : SpanTab) : Nat → Nat → Bool → List Tok → PR RStmt
  | 0, _, _, _ => none
  | f + 1, st, isAsync, ts =>
    match parseRTargetList σ f ts with
    | some (target, .kw .in :: r) =>
      (match parseRTestListS σ f r with
       | some (iter, .op .colon :: r1) =>
         (match parseRSuite σ f r1 with
          | some (body, r2) =>
            (match parseRElse σ f r2 with
             | some (oe, r3) =>
               if isAsync then some (.asyncFor (st, loopEndR body oe) target iter body (oe.getD []), r3)
               else some (.for (st, loopEndR body oe) target iter body (oe.getD []), r3)
             | none => none)
          | none => none)
       | _ => none)
    | _ => none
termination_by structural f => f

/-- `WithStatement` after `with`; `st` = start of `async` / `with` -/
def parseRWith (σ : SpanTab) : Nat → Nat → Bool → List Tok → PR RStmt
  | 0, _, _, _ => none
  | f + 1, st, isAsync, ts =>
    match parseRWithItems σ f ts with
    | some (items, .op .colon :: r) =>
      (match parseRSuite σ f r with
       | some (body, r1) =>
         if isAsync then some (.asyncWith (st, lastEnd body) items body, r1)
         else some (.with (st, lastEnd body) items body, r1)
       | none => none)
    | _ => none
termination_by structural f => f

end

/-- `Program` -/
def parseRProgramBody (σ : SpanTab) : Nat → List Tok → Option (List RStmt)
  | 0, _ => none
  | _ + 1, [] => some []
  | f + 1, t :: r =>
    if tk t = .newline then parseRProgramBody σ f r
    else if startsCompound (t :: r) then
      (match parseRCompound σ f (t :: r) with
       | some (s, r1) =>
         (match parseRProgramBody σ f r1 with
          | some (more) => some (s :: more)
          | none => none)
       | none => none)
    else
      (match parseRSimpleLine σ f (t :: r) with
       | some (ss, r1) =>
         (match parseRProgramBody σ f r1 with
          | some (more) => some (ss ++ more)
          | none => none)
       | none => none)

/-- `Top`: the `Mod*` node runs from the start of the first token (where the start marker is put) to the end of the
    last one; `(0, 0)` without tokens -/
def parseRTopT (σ : SpanTab) (mode : Mode) (fuel : Nat) (ts : List Tok) : Option RMod :=
  match mode with
  | .module =>
    (match parseRProgramBody σ fuel ts with
     | some b => some (.module (L σ ts, R σ []) b)
     | none => none)
  | .interactive =>
    (match parseRProgramBody σ fuel ts with
     | some b => some (.interactive (L σ ts, R σ []) b)
     | none => none)
  | .expression =>
    (match parseRTestListS σ fuel ts with
     | some (e, r) => if r.all (fun t => tk t = .newline) then some (.expression (L σ ts, R σ []) e) else none
     | none => none)

/-! ## the ranged parser on tokens with spans -/

/-- a statement-level token with its byte span -/
structure RPTok where
  tok : PTok
  s : Nat
  e : Nat

/-- the span table of a spanned token list -/
def pspanTab (toks : List RPTok) : SpanTab := tabOf (toks.map fun t => (t.s, t.e))

/-- `parseRProgram` with explicit fuel -/
def parseRProgramFuel (fuel : Nat) (mode : Mode) (toks : List RPTok) : Option RMod :=
  parseRTopT (pspanTab toks) mode fuel (toks.map fun t => t.tok.toTok)

/-- **The ranged reference parser for whole programs**: what `parse_tokens(tokens, mode)` computes with
    `all-nodes-with-ranges`, every range included, from the tokens (after the soft-keyword pass, without the start
    marker) and their byte spans. -/
def parseRProgram (mode : Mode) (toks : List RPTok) : Option RMod :=
  parseRProgramFuel (PV.Prog.fuelFor (toks.map fun t => t.tok.toTok)) mode toks

/-! ### the same function with a constant-time span table (what the driver runs) -/

/-- `tabOf` on an array: constant-time look-up -/
def tabOfA (a : Array Rg) : SpanTab := fun k =>
  if k = 0 ∨ k > a.size then (0, 0) else a.getD (a.size - k) (0, 0)

theorem tabOfA_eq (l : List Rg) : tabOfA l.toArray = tabOf l := by
  funext k
  simp [tabOfA, tabOf, Array.getD_eq_getD_getElem?, List.getD_eq_getElem?_getD]

/-- `parseRProgram` evaluated with the array table -/
def parseRProgramA (mode : Mode) (toks : List RPTok) : Option RMod :=
  parseRTopT (tabOfA (toks.map fun t => (t.s, t.e)).toArray) mode (PV.Prog.fuelFor (toks.map fun t => t.tok.toTok))
    (toks.map fun t => t.tok.toTok)

theorem parseRProgramA_eq (mode : Mode) (toks : List RPTok) : parseRProgramA mode toks = parseRProgram mode toks := by
  unfold parseRProgramA parseRProgram parseRProgramFuel pspanTab
  rw [tabOfA_eq]

end PV.C02
