/-
  PV.C02.Model — `rangesOk`: the structural part of property C02 as an executable predicate over a generic
  tree of ranged nodes (what `Ranged::range()` yields for every node of a parse with `all-nodes-with-ranges`).

  A node knows its kind, the field of its parent it sits in (`slot`), whether that field is a list, and its
  range; children come in schema order (the order of `ast/src/gen/generic.rs`), list elements in list order.
  Source text = list of UTF-8 bytes.  Core Lean only.
-/
namespace PV.C02

inductive Tree where
  | node (kind : String) (slot : String) (inList : Bool) (range : Option (Nat × Nat)) (children : List Tree)
  deriving Repr, Inhabited

def Tree.kind : Tree → String | .node k _ _ _ _ => k
def Tree.slot : Tree → String | .node _ s _ _ _ => s
def Tree.inList : Tree → Bool | .node _ _ l _ _ => l
def Tree.range : Tree → Option (Nat × Nat) | .node _ _ _ r _ => r
def Tree.children : Tree → List Tree | .node _ _ _ _ cs => cs

/-- offset `o` is a UTF-8 character boundary of `src`: the end, or a byte that is not a continuation byte -/
def isBoundary (src : List Nat) (o : Nat) : Bool :=
  match src[o]? with
  | none => o == src.length
  | some b => !(128 ≤ b && b < 192)

/-- start ≤ end, inside the input, on character boundaries -/
def ownOk (src : List Nat) : Option (Nat × Nat) → Bool
  | none => true
  | some (a, b) => a ≤ b && b ≤ src.length && isBoundary src a && isBoundary src b

/-- decorators precede the `def`/`class` keyword their node starts at -/
def exemptEnclose (slot : String) : Bool := slot == "decorator_list"

/-- the parent's range encloses the child's -/
def enclOk (par : Option (Nat × Nat)) (slot : String) (r : Option (Nat × Nat)) : Bool :=
  match par, r with
  | some (a, b), some (c, d) => exemptEnclose slot || (a ≤ c && d ≤ b)
  | _, _ => true

/-- fields whose elements legitimately share one extent: the pieces of an f-string all carry the position of
    the whole literal in the reference (CPython 3.11) -/
def exemptOrder (parentKind slot : String) : Bool := parentKind == "ExprJoinedStr" && slot == "values"

/-- consecutive elements of one list field are in source order and do not overlap -/
def sibsOk (parentKind : String) : List Tree → Bool
  | x :: y :: rest =>
    (if x.slot == y.slot && x.inList && y.inList && !exemptOrder parentKind x.slot then
      match x.range, y.range with
      | some (_, b), some (c, _) => decide (b ≤ c)
      | _, _ => true
     else true) && sibsOk parentKind (y :: rest)
  | _ => true

mutual
/-- the whole check below a parent range -/
def ok (src : List Nat) (par : Option (Nat × Nat)) : Tree → Bool
  | .node k slot _ r cs =>
    ownOk src r && enclOk par slot r && sibsOk k cs && okList src (r.orElse fun _ => par) cs
def okList (src : List Nat) (par : Option (Nat × Nat)) : List Tree → Bool
  | [] => true
  | t :: ts => ok src par t && okList src par ts
end

def rangesOk (src : List Nat) (t : Tree) : Bool := ok src none t

/-- the slice of the source a range denotes -/
def slice (src : List Nat) (r : Nat × Nat) : List Nat := (src.drop r.1).take (r.2 - r.1)

/-! ### the same checks, reporting which ones fail (used by the driver; `violations = []` iff `rangesOk`) -/

def sibViol (parentKind : String) : List Tree → List String
  | x :: y :: rest =>
    (if x.slot == y.slot && x.inList && y.inList && !exemptOrder parentKind x.slot then
      match x.range, y.range with
      | some (_, b), some (c, _) => if b ≤ c then [] else ["order:" ++ parentKind ++ ":" ++ x.slot]
      | _, _ => []
     else []) ++ sibViol parentKind (y :: rest)
  | _ => []

mutual
def viol (src : List Nat) (par : Option (Nat × Nat)) (parKind : String) : Tree → List String
  | .node k slot _ r cs =>
    (if ownOk src r then [] else ["own:" ++ k]) ++
    (if enclOk par slot r then [] else ["enclose:" ++ parKind ++ ":" ++ slot]) ++
    sibViol k cs ++ violList src (r.orElse fun _ => par) (if r.isSome then k else parKind) cs
def violList (src : List Nat) (par : Option (Nat × Nat)) (parKind : String) : List Tree → List String
  | [] => []
  | t :: ts => viol src par parKind t ++ violList src par parKind ts
end

end PV.C02
