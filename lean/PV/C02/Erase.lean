import PV.C02.RParse
/-
  PV.C02.Erase — the ranged parser is the reference parser plus ranges: erasing the ranges from the result of
  every function of `PV/C02/RParse.lean` gives the result of its twin in `PV/C11/Spec.lean`, for every span
  table, fuel and input.  One lemma per function (`step_*`), assembled by induction on the fuel.
-/
namespace PV.C02
open PV.Expr PV.C11

/-! ### result erasers -/

def er (p : RExpr × List Tok) : Expr × List Tok := (p.1.erase, p.2)
def erL (p : List RExpr × List Tok) : List Expr × List Tok := (eraseList p.1, p.2)
def erC (p : (List CmpOp × List RExpr) × List Tok) : (List CmpOp × List Expr) × List Tok :=
  ((p.1.1, eraseList p.1.2), p.2)
def erPs (p : RParams × List Tok) : Params × List Tok := (p.1.erase, p.2)
def erAs (p : (List RExpr × List RKeyword) × List Tok) : (List Expr × List Keyword) × List Tok :=
  ((eraseList p.1.1, eraseKws p.1.2), p.2)
def erA (p : List RExpr × List RKeyword × Bool × List Tok) : List Expr × List Keyword × Bool × List Tok :=
  (eraseList p.1, eraseKws p.2.1, p.2.2.1, p.2.2.2)
def erBF (p : RExpr × Bool × List Tok) : Expr × Bool × List Tok := (p.1.erase, p.2.1, p.2.2)
def erEl (p : (List RExpr × Bool) × List Tok) : (List Expr × Bool) × List Tok := ((eraseList p.1.1, p.1.2), p.2)
def erD (p : List RDictItem × List Tok) : List DictItem × List Tok := (eraseItems p.1, p.2)
def erG (p : List RComp × List Tok) : List Comp × List Tok := (eraseComps p.1, p.2)
def erPiece : (List Nat ⊕ RExpr) → (List Nat ⊕ Expr)
  | .inl s => .inl s
  | .inr e => .inr e.erase
def erF (p : List RExpr × List Nat) : List Expr × List Nat := (eraseList p.1, p.2)
def erSp (p : Option RExpr × List Nat) : Option Expr × List Nat := (eraseOpt p.1, p.2)

@[simp] theorem er_mk (e : RExpr) (r : List Tok) : er (e, r) = (e.erase, r) := rfl
@[simp] theorem erL_mk (e : List RExpr) (r : List Tok) : erL (e, r) = (eraseList e, r) := rfl
@[simp] theorem erC_mk (o : List CmpOp) (e : List RExpr) (r : List Tok) : erC ((o, e), r) = ((o, eraseList e), r) := rfl
@[simp] theorem erPs_mk (e : RParams) (r : List Tok) : erPs (e, r) = (e.erase, r) := rfl
@[simp] theorem erAs_mk (a : List RExpr) (k : List RKeyword) (r : List Tok) :
    erAs ((a, k), r) = ((eraseList a, eraseKws k), r) := rfl
@[simp] theorem erA_mk (a : List RExpr) (k : List RKeyword) (d : Bool) (r : List Tok) :
    erA (a, k, d, r) = (eraseList a, eraseKws k, d, r) := rfl
@[simp] theorem erBF_mk (e : RExpr) (b : Bool) (r : List Tok) : erBF (e, b, r) = (e.erase, b, r) := rfl
@[simp] theorem erEl_mk (e : List RExpr) (b : Bool) (r : List Tok) : erEl ((e, b), r) = ((eraseList e, b), r) := rfl
@[simp] theorem erD_mk (e : List RDictItem) (r : List Tok) : erD (e, r) = (eraseItems e, r) := rfl
@[simp] theorem erG_mk (e : List RComp) (r : List Tok) : erG (e, r) = (eraseComps e, r) := rfl
@[simp] theorem erF_mk (e : List RExpr) (r : List Nat) : erF (e, r) = (eraseList e, r) := rfl
@[simp] theorem erSp_mk (e : Option RExpr) (r : List Nat) : erSp (e, r) = (eraseOpt e, r) := rfl

/-! ### the erasers on lists -/

@[simp] theorem eraseList_nil : eraseList [] = [] := by simp [eraseList]
@[simp] theorem eraseList_cons (e : RExpr) (es : List RExpr) : eraseList (e :: es) = e.erase :: eraseList es := by
  simp [eraseList]
@[simp] theorem eraseList_append (a b : List RExpr) : eraseList (a ++ b) = eraseList a ++ eraseList b := by
  induction a with
  | nil => simp
  | cons x xs ih => simp [ih]
@[simp] theorem eraseOpt_none : eraseOpt none = none := by simp [eraseOpt]
@[simp] theorem eraseOpt_some (e : RExpr) : eraseOpt (some e) = some e.erase := by simp [eraseOpt]
@[simp] theorem eraseParams_nil : eraseParams [] = [] := by simp [eraseParams]
@[simp] theorem eraseParams_cons (rg d : Rg) (n : Ident) (x : Option RExpr) (ps : List RParam) :
    eraseParams (.mk rg d n x :: ps) = .mk n (eraseOpt x) :: eraseParams ps := by simp [eraseParams]
@[simp] theorem eraseParams_append (a b : List RParam) : eraseParams (a ++ b) = eraseParams a ++ eraseParams b := by
  induction a with
  | nil => simp
  | cons x xs ih => cases x; simp [ih]
@[simp] theorem eraseKws_nil : eraseKws [] = [] := by simp [eraseKws]
@[simp] theorem eraseKws_cons (rg : Rg) (a : Option Ident) (v : RExpr) (ks : List RKeyword) :
    eraseKws (.mk rg a v :: ks) = .mk a v.erase :: eraseKws ks := by simp [eraseKws]
@[simp] theorem eraseKws_append (a b : List RKeyword) : eraseKws (a ++ b) = eraseKws a ++ eraseKws b := by
  induction a with
  | nil => simp
  | cons x xs ih => cases x; simp [ih]
@[simp] theorem eraseItems_nil : eraseItems [] = [] := by simp [eraseItems]
@[simp] theorem eraseItems_cons (k : Option RExpr) (v : RExpr) (is : List RDictItem) :
    eraseItems (.mk k v :: is) = .mk (eraseOpt k) v.erase :: eraseItems is := by simp [eraseItems]
@[simp] theorem eraseComps_nil : eraseComps [] = [] := by simp [eraseComps]
@[simp] theorem eraseComps_cons (rg : Rg) (t i : RExpr) (ifs : List RExpr) (a : Bool) (gs : List RComp) :
    eraseComps (.mk rg t i ifs a :: gs) = .mk t.erase i.erase (eraseList ifs) a :: eraseComps gs := by
  simp [eraseComps]

@[simp] theorem eraseList_eq_nil (a : List RExpr) : eraseList a = [] ↔ a = [] := by cases a <;> simp
@[simp] theorem eraseList_length (a : List RExpr) : (eraseList a).length = a.length := by
  induction a with
  | nil => simp
  | cons x xs ih => simp [ih]
@[simp] theorem isEmpty_eraseList (a : List RExpr) : (eraseList a).isEmpty = a.isEmpty := by cases a <;> simp
@[simp] theorem isEmpty_eraseKws (a : List RKeyword) : (eraseKws a).isEmpty = a.isEmpty := by
  cases a with
  | nil => simp
  | cons x xs => cases x; simp
@[simp] theorem isEmpty_eraseParams (a : List RParam) : (eraseParams a).isEmpty = a.isEmpty := by
  cases a with
  | nil => simp
  | cons x xs => cases x; simp

@[simp] theorem isStarred_erase (e : RExpr) : isStarred e.erase = isStarredR e := by
  cases e <;> simp [RExpr.erase, isStarred, isStarredR]

/-- the duplicate-keyword test of `parse_args`, as `parseArg` spells it -/
theorem any_kwName (n : Ident) (ks : List RKeyword) :
    (eraseKws ks).any (fun x => parseArg.match_1 (fun _ => Bool) x (fun m _ => m == n) (fun _ => false)) =
      ks.any (rkwHasName n) := by
  induction ks with
  | nil => simp
  | cons k ks ih =>
    obtain ⟨rg, a, v⟩ := k
    cases a <;> simp [rkwHasName, ih]

theorem map_some_inv {α β} {g : α → β} {x : Option α} {b : β} (h : some b = x.map g) : ∃ a, x = some a ∧ g a = b := by
  cases x <;> simp_all
theorem map_some_inv' {α β} {g : α → β} {x : Option α} {b : β} (h : x.map g = some b) : ∃ a, x = some a ∧ g a = b := by
  cases x <;> simp_all

@[simp] theorem erase_mk_fields (ps : RParams) :
    ps.erase.posonly = eraseParams ps.posonly ∧ ps.erase.args = eraseParams ps.args ∧
    ps.erase.vararg = ps.vararg.map (·.2) ∧ ps.erase.kwonly = eraseParams ps.kwonly ∧
    ps.erase.kwarg = ps.kwarg.map (·.2) := ⟨rfl, rfl, rfl, rfl, rfl⟩

theorem dedup_erase (rg : Rg) (u : Bool) : ∀ (ps : List (List Nat ⊕ RExpr)) (cur : Option (List Nat)),
    eraseList (dedupRPieces rg u ps cur) = dedupPieces u (ps.map erPiece) cur
  | [], none => by simp [dedupRPieces, dedupPieces]
  | [], some c => by simp [dedupRPieces, dedupPieces, RExpr.erase]
  | .inl s :: r, none => by
    simp only [dedupRPieces, dedupPieces, List.map_cons, erPiece]
    split <;> exact dedup_erase rg u r _
  | .inl s :: r, some c => by
    simp only [dedupRPieces, dedupPieces, List.map_cons, erPiece]; exact dedup_erase rg u r _
  | .inr e :: r, none => by
    simp only [dedupRPieces, dedupPieces, List.map_cons, erPiece, eraseList_cons, dedup_erase rg u r none]
  | .inr e :: r, some c => by
    simp only [dedupRPieces, dedupPieces, List.map_cons, erPiece, eraseList_cons, dedup_erase rg u r none,
      RExpr.erase]

theorem piece_erase (e : RExpr) : erPiece (rexprToPiece e) = exprToPiece e.erase := by
  cases e <;> simp [rexprToPiece, exprToPiece, RExpr.erase, erPiece]
  rename_i rg c
  cases c <;> simp [erPiece, RExpr.erase]

theorem pieces_erase (vs : List RExpr) : (vs.map rexprToPiece).map erPiece = (eraseList vs).map exprToPiece := by
  induction vs with
  | nil => simp
  | cons v vs ih => simp [piece_erase, ih]

/-! ### what is proved for every fuel -/

structure EraseAt (f : Nat) : Prop where
  test : ∀ σ ts, parseTest f ts = (parseRTest σ f ts).map er
  lambda : ∀ σ ts, parseLambda f ts = (parseRLambda σ f ts).map er
  params : ∀ σ ts ps ph, parseParams f ts ps.erase ph = (parseRParams σ f ts ps ph).map erPs
  namedTest : ∀ σ ts, parseNamedTest f ts = (parseRNamedTest σ f ts).map er
  starOrNamed : ∀ σ ts, parseStarOrNamed f ts = (parseRStarOrNamed σ f ts).map er
  testOrStar : ∀ σ ts, parseTestOrStar f ts = (parseRTestOrStar σ f ts).map er
  orTest : ∀ σ ts, parseOrTest f ts = (parseROrTest σ f ts).map er
  orRest : ∀ σ ts, parseOrRest f ts = (parseROrRest σ f ts).map erL
  andTest : ∀ σ ts, parseAndTest f ts = (parseRAndTest σ f ts).map er
  andRest : ∀ σ ts, parseAndRest f ts = (parseRAndRest σ f ts).map erL
  notTest : ∀ σ ts, parseNotTest f ts = (parseRNotTest σ f ts).map er
  cmp : ∀ σ ts, parseCmp f ts = (parseRCmp σ f ts).map er
  cmpRest : ∀ σ ts, parseCmpRest f ts = (parseRCmpRest σ f ts).map erC
  bin : ∀ σ lvl ts, parseBin lvl f ts = (parseRBin σ lvl f ts).map er
  binLoop : ∀ σ lvl st acc ts, parseBinLoop lvl f acc.erase ts = (parseRBinLoop σ lvl f st acc ts).map er
  factor : ∀ σ ts, parseFactor f ts = (parseRFactor σ f ts).map er
  power : ∀ σ ts, parsePower f ts = (parseRPower σ f ts).map er
  atomExpr : ∀ σ ts, parseAtomExpr f ts = (parseRAtomExpr σ f ts).map er
  atomExpr2 : ∀ σ ts, parseAtomExpr2 f ts = (parseRAtomExpr2 σ f ts).map er
  trailers : ∀ σ st acc ts, parseTrailers f acc.erase ts = (parseRTrailers σ f st acc ts).map er
  args : ∀ σ ts as ks d, parseArgs f ts (eraseList as) (eraseKws ks) d = (parseRArgs σ f ts as ks d).map erAs
  arg : ∀ σ ts as ks d, parseArg f ts (eraseList as) (eraseKws ks) d = (parseRArg σ f ts as ks d).map erA
  subscriptList : ∀ σ ts, parseSubscriptList f ts = (parseRSubscriptList σ f ts).map er
  subscripts : ∀ σ ts, parseSubscripts f ts = (parseRSubscripts σ f ts).map erL
  subscript : ∀ σ ts, parseSubscript f ts = (parseRSubscript σ f ts).map er
  sliceRest : ∀ σ st lower ts, parseSliceRest f (eraseOpt lower) ts = (parseRSliceRest σ f st lower ts).map er
  atom : ∀ σ ts, parseAtom f ts = (parseRAtom σ f ts).map er
  listAtom : ∀ σ ts, parseListAtom f ts = (parseRListAtom σ f ts).map er
  parenAtom : ∀ σ ts, parseParenAtom f ts = (parseRParenAtom σ f ts).map er
  yieldAtom : ∀ σ ts, parseYieldAtom f ts = (parseRYieldAtom σ f ts).map er
  braceAtom : ∀ σ ts, parseBraceAtom f ts = (parseRBraceAtom σ f ts).map er
  braceFirst : ∀ σ ts, parseBraceFirst f ts = (parseRBraceFirst σ f ts).map erBF
  elems : ∀ σ close ts, parseElems f close ts = (parseRElems σ f close ts).map erEl
  dictRest : ∀ σ ts, parseDictRest f ts = (parseRDictRest σ f ts).map erD
  compFor : ∀ σ ts, parseCompFor f ts = (parseRCompFor σ f ts).map erG
  compIfs : ∀ σ ts, parseCompIfs f ts = (parseRCompIfs σ f ts).map erL
  exprOrStar : ∀ σ ts, parseExprOrStar f ts = (parseRExprOrStar σ f ts).map er
  targetList : ∀ σ ts, parseTargetList f ts = (parseRTargetList σ f ts).map er
  targetRest : ∀ σ ts, parseTargetRest f ts = (parseRTargetRest σ f ts).map erL
  testList : ∀ σ ts, parseTestList f ts = (parseRTestList σ f ts).map er
  testListRest : ∀ σ ts, parseTestListRest f ts = (parseRTestListRest σ f ts).map erL
  strings : ∀ σ ts, parseStrings f ts = (parseRStrings σ f ts).map er
  stringPieces : ∀ σ after ts, parseStringPieces f ts = (parseRStringPieces σ f after ts).map (·.map erPiece)
  fbody : ∀ lit base whole raw nested cs content,
    fstrBody f raw nested cs content = (fstrRBody f lit base whole raw nested cs content).map erF
  ffield : ∀ lit base whole raw nested cs,
    fstrField f raw nested cs = (fstrRField f lit base whole raw nested cs).map erF
  fspec : ∀ lit base whole raw nested cs piece,
    fstrSpec f raw nested cs piece = (fstrRSpec f lit base whole raw nested cs piece).map erF
  top : ∀ σ ts, parseTop f ts = (parseRTop σ f ts).map RExpr.erase

/-- the induction hypothesis in the form the case analysis of a function leaves it -/
def Below (n : Nat) : Prop := ∀ f, n = f + 1 → EraseAt f

end PV.C02
