import PV.C02.SoundBase
/-
  PV.C02.SoundNodes — one lemma per node constructor: a node whose range is a well-formed slice inside the
  window, and whose children sit (in consecutive windows, for list fields) inside that range, is fine.
  `plain` delimits the part of the fragment the range-structure theorem covers.
-/
set_option linter.unusedSimpArgs false
namespace PV.C02
open PV.Expr PV.C11

mutual
/-- inside the part of the fragment the range-structure theorem covers: no f-string pieces -/
def plain : RExpr → Bool
  | .name _ _ => true
  | .const _ _ => true
  | .boolOp _ _ vs => plainL vs
  | .namedExpr _ t v => plain t && plain v
  | .binOp _ l _ r => plain l && plain r
  | .unaryOp _ _ e => plain e
  | .lambda _ _ po ar _ ko _ b => plainParams po && plainParams ar && plainParams ko && plain b
  | .ifExp _ t b o => plain t && plain b && plain o
  | .dict _ items => plainItems items
  | .set _ es => plainL es
  | .listComp _ e gs => plain e && plainComps gs
  | .setComp _ e gs => plain e && plainComps gs
  | .dictComp _ k v gs => plain k && plain v && plainComps gs
  | .genExp _ e gs => plain e && plainComps gs
  | .await _ e => plain e
  | .yield _ e => plainO e
  | .yieldFrom _ e => plain e
  | .compare _ l _ cs => plain l && plainL cs
  | .call _ f as ks => plain f && plainL as && plainKws ks
  | .formattedValue _ _ _ _ => false
  | .joinedStr _ _ => false
  | .attribute _ e _ => plain e
  | .subscript _ e s => plain e && plain s
  | .starred _ e => plain e
  | .list _ es => plainL es
  | .tuple _ es => plainL es
  | .slice _ a b c => plainO a && plainO b && plainO c
def plainL : List RExpr → Bool
  | [] => true
  | e :: es => plain e && plainL es
def plainO : Option RExpr → Bool
  | none => true
  | some e => plain e
def plainComps : List RComp → Bool
  | [] => true
  | .mk _ t i ifs _ :: gs => plain t && plain i && plainL ifs && plainComps gs
def plainKws : List RKeyword → Bool
  | [] => true
  | .mk _ _ v :: ks => plain v && plainKws ks
def plainItems : List RDictItem → Bool
  | [] => true
  | .mk k v :: is => plainO k && plain v && plainItems is
def plainParams : List RParam → Bool
  | [] => true
  | .mk _ _ _ d :: ps => plainO d && plainParams ps
end

variable {src : List Nat}

/-- `e` sits in the window `[lo, hi]` and, if it is `plain`, its tree is fine -/
def RS (src : List Nat) (lo hi : Nat) (e : RExpr) : Prop := lo ≤ hi ∧ (plain e = true → Res src lo hi e)

theorem windowed_rs (src : List Nat) : Windowed (RS src) :=
  ⟨fun h a b => ⟨by have := h.1; omega, fun hp => (h.2 hp).mono a b⟩, fun h => h.1⟩

theorem RS.mono {lo hi lo' hi'} {e : RExpr} (h : RS src lo hi e) (h1 : lo' ≤ lo) (h2 : hi ≤ hi') :
    RS src lo' hi' e := (windowed_rs src).mono h h1 h2

theorem rgOk_le {a b : Nat} (h : rgOk src (a, b)) : a ≤ b := ((rgOk_iff src a b).mp h).1

theorem Res.intro' {lo hi} {e : RExpr} (rg : Rg) (hr : e.range = rg) (h1 : rgOk src rg) (h2 : lo ≤ rg.1)
    (h3 : rg.2 ≤ hi) (h4 : sibsOk e.kind e.children = true) (h5 : okList src (some rg) e.children = true) :
    Res src lo hi e := by
  subst hr; exact ⟨h1, h2, h3, h4, h5⟩

theorem seq_plain : ∀ {es : List RExpr} {lo hi}, SeqG (RS src) lo hi es → plainL es = true → SeqG (Res src) lo hi es
  | [], _, _, _, _ => trivial
  | e :: es, _, _, ⟨m, h1, h2, h3⟩, hp => by
    simp only [plainL, Bool.and_eq_true] at hp
    exact ⟨m, h1.2 hp.1, h2, seq_plain h3 hp.2⟩

/-! ### keywords, comprehensions, dict entries -/

/-- a `Keyword` node in a window -/
def RSK (src : List Nat) (lo hi : Nat) : RKeyword → Prop
  | .mk rg _ v => lo ≤ hi ∧ (plain v = true → rgOk src rg ∧ lo ≤ rg.1 ∧ rg.2 ≤ hi ∧ Res src rg.1 rg.2 v)

theorem windowed_rsk (src : List Nat) : Windowed (RSK src) :=
  ⟨fun {lo hi lo' hi' x} h a b => by
      cases x; exact ⟨by have := h.1; omega, fun hp => by
        obtain ⟨h1, h2, h3, h4⟩ := h.2 hp; exact ⟨h1, by omega, by omega, h4⟩⟩,
   fun {lo hi x} h => by cases x; exact h.1⟩

/-- a `Comprehension` node in a window -/
def RSC (src : List Nat) (lo hi : Nat) : RComp → Prop
  | .mk rg t i ifs _ => lo ≤ hi ∧ ((plain t && plain i && plainL ifs) = true →
      rgOk src rg ∧ lo ≤ rg.1 ∧ rg.2 ≤ hi ∧ Res src rg.1 rg.2 t ∧ Res src rg.1 rg.2 i ∧
      ∃ l h, SeqG (Res src) l h ifs ∧ rg.1 ≤ l ∧ h ≤ rg.2)

theorem windowed_rsc (src : List Nat) : Windowed (RSC src) :=
  ⟨fun {lo hi lo' hi' x} h a b => by
      cases x; exact ⟨by have := h.1; omega, fun hp => by
        obtain ⟨h1, h2, h3, h4⟩ := h.2 hp; exact ⟨h1, by omega, by omega, h4⟩⟩,
   fun {lo hi x} h => by cases x; exact h.1⟩

/-- a dict entry in a window: the key (if any) in front of the value -/
def RSD (src : List Nat) (lo hi : Nat) : RDictItem → Prop
  | .mk k v => lo ≤ hi ∧ ((plainO k && plain v) = true →
      ∃ m, (∀ k', k = some k' → Res src lo m k') ∧ lo ≤ m ∧ Res src m hi v)

theorem windowed_rsd (src : List Nat) : Windowed (RSD src) :=
  ⟨fun {lo hi lo' hi' x} h a b => by
      cases x; exact ⟨by have := h.1; omega, fun hp => by
        obtain ⟨m, h1, h2, h3⟩ := h.2 hp
        exact ⟨m, fun k' hk => (h1 k' hk).mono a (Nat.le_refl _), by omega, h3.mono (Nat.le_refl _) b⟩⟩,
   fun {lo hi x} h => by cases x; exact h.1⟩

theorem allSlot_kwTrees : ∀ ks : List RKeyword, AllSlot "keywords" (kwTrees ks)
  | [] => by simp [AllSlot, kwTrees]
  | .mk rg a v :: ks => by
    intro t ht
    simp only [kwTrees, List.mem_cons] at ht
    rcases ht with rfl | ht
    · simp [Tree.slot, Tree.inList]
    · exact allSlot_kwTrees ks t ht

theorem kw_node_ok {rg : Rg} {v : RExpr} {a b : Nat} (h1 : rgOk src rg) (h2 : a ≤ rg.1) (h3 : rg.2 ≤ b)
    (hv : Res src rg.1 rg.2 v) :
    ok src (some (a, b)) (.node "Keyword" "keywords" true (some rg)
      [.node v.kind "value" false (some v.range) v.children]) = true := by
  rw [ok, okList, okList]
  simp only [Bool.and_eq_true, Option.orElse, Bool.and_true]
  refine ⟨⟨⟨h1, ?_⟩, by simp [sibsOk]⟩, hv.toOk "value" false rg.1 rg.2 (Nat.le_refl _) (Nat.le_refl _)⟩
  simp only [enclOk, Bool.or_eq_true, Bool.and_eq_true, decide_eq_true_eq]
  right; omega

theorem sibsOk_kwTrees (k : String) : ∀ (ks : List RKeyword) (lo hi : Nat),
    SeqG (RSK src) lo hi ks → plainKws ks = true → sibsOk k (kwTrees ks) = true
  | [], _, _, _, _ => by simp [kwTrees, sibsOk]
  | [.mk _ _ _], _, _, _, _ => by simp [kwTrees, sibsOk]
  | .mk rg1 a1 v1 :: .mk rg2 a2 v2 :: ks, lo, hi, ⟨m, h1, _, h3⟩, hp => by
    simp only [plainKws, Bool.and_eq_true] at hp
    have ih := sibsOk_kwTrees k (.mk rg2 a2 v2 :: ks) m hi h3 (by simp [plainKws, hp.2.1, hp.2.2])
    obtain ⟨m2, h4, _, _⟩ := h3
    simp only [kwTrees] at ih ⊢
    simp only [sibsOk, Tree.slot, Tree.inList, Tree.range, ih, Bool.and_true]
    have := (h1.2 hp.1).2.2.1
    have := (h4.2 hp.2.1).2.1
    split <;> simp <;> omega

theorem okList_kwTrees (a b : Nat) : ∀ (ks : List RKeyword) (lo hi : Nat),
    SeqG (RSK src) lo hi ks → plainKws ks = true → a ≤ lo → hi ≤ b → okList src (some (a, b)) (kwTrees ks) = true
  | [], _, _, _, _, _, _ => by simp [kwTrees, okList]
  | .mk rg ar v :: ks, lo, hi, ⟨m, h1, h2, h3⟩, hp, ha, hb => by
    simp only [plainKws, Bool.and_eq_true] at hp
    simp only [kwTrees, okList, Bool.and_eq_true]
    obtain ⟨g1, g2, g3, g4⟩ := h1.2 hp.1
    have := h1.1
    exact ⟨kw_node_ok g1 (by omega) (by omega) g4, okList_kwTrees a b ks m hi h3 hp.2 (by omega) hb⟩

theorem allSlot_compTrees : ∀ gs : List RComp, AllSlot "generators" (compTrees gs)
  | [] => by simp [AllSlot, compTrees]
  | .mk rg t i ifs a :: gs => by
    intro x ht
    simp only [compTrees, List.mem_cons] at ht
    rcases ht with rfl | ht
    · simp [Tree.slot, Tree.inList]
    · exact allSlot_compTrees gs x ht

theorem sibsOk_compTrees (k : String) : ∀ (gs : List RComp) (lo hi : Nat),
    SeqG (RSC src) lo hi gs → plainComps gs = true → sibsOk k (compTrees gs) = true
  | [], _, _, _, _ => by simp [compTrees, sibsOk]
  | [.mk _ _ _ _ _], _, _, _, _ => by simp [compTrees, sibsOk]
  | .mk rg1 t1 i1 f1 a1 :: .mk rg2 t2 i2 f2 a2 :: gs, lo, hi, ⟨m, h1, _, h3⟩, hp => by
    simp only [plainComps, Bool.and_eq_true] at hp
    have ih := sibsOk_compTrees k (.mk rg2 t2 i2 f2 a2 :: gs) m hi h3 (by simp [plainComps, hp.2])
    obtain ⟨m2, h4, _, _⟩ := h3
    simp only [compTrees] at ih ⊢
    simp only [sibsOk, Tree.slot, Tree.inList, Tree.range, ih, Bool.and_true]
    have := (h1.2 (by simp [hp.1])).2.2.1
    have := (h4.2 (by simp [hp.2.1])).2.1
    split <;> simp <;> omega

theorem comp_node_ok {rg : Rg} {t i : RExpr} {ifs : List RExpr} {a b : Nat} (h1 : rgOk src rg) (h2 : a ≤ rg.1)
    (h3 : rg.2 ≤ b) (ht : Res src rg.1 rg.2 t) (hi : Res src rg.1 rg.2 i) {l h : Nat}
    (hs : SeqG (Res src) l h ifs) (hl : rg.1 ≤ l) (hh : h ≤ rg.2) :
    ok src (some (a, b)) (.node "Comprehension" "generators" true (some rg)
      (.node t.kind "target" false (some t.range) t.children :: .node i.kind "iter" false (some i.range) i.children ::
        toTrees "ifs" ifs)) = true := by
  rw [ok, okList, okList]
  simp only [Bool.and_eq_true, Option.orElse]
  refine ⟨⟨⟨h1, ?_⟩, ?_⟩, ht.toOk "target" false rg.1 rg.2 (Nat.le_refl _) (Nat.le_refl _),
    hi.toOk "iter" false rg.1 rg.2 (Nat.le_refl _) (Nat.le_refl _),
    okList_toTrees src "ifs" rg.1 rg.2 ifs l h hs hl hh⟩
  · simp only [enclOk, Bool.or_eq_true, Bool.and_eq_true, decide_eq_true_eq]
    right; omega
  · rw [sibsOk_cons_notList _ _ _ rfl, sibsOk_cons_notList _ _ _ rfl]
    exact sibsOk_toTrees src _ "ifs" ifs l h hs

theorem okList_compTrees (a b : Nat) : ∀ (gs : List RComp) (lo hi : Nat),
    SeqG (RSC src) lo hi gs → plainComps gs = true → a ≤ lo → hi ≤ b → okList src (some (a, b)) (compTrees gs) = true
  | [], _, _, _, _, _, _ => by simp [compTrees, okList]
  | .mk rg t i ifs ar :: gs, lo, hi, ⟨m, h1, h2, h3⟩, hp, ha, hb => by
    simp only [plainComps, Bool.and_eq_true] at hp
    simp only [compTrees, okList, Bool.and_eq_true]
    obtain ⟨g1, g2, g3, g4, g5, l, h, g6, g7, g8⟩ := h1.2 (by simp [hp.1])
    have := h1.1
    exact ⟨comp_node_ok g1 (by omega) (by omega) g4 g5 g6 g7 g8,
      okList_compTrees a b gs m hi h3 hp.2 (by omega) hb⟩

/-! keys and values of a dict display: two list fields -/

theorem allSlot_keyTrees : ∀ is : List RDictItem, AllSlot "keys" (keyTrees is)
  | [] => by simp [AllSlot, keyTrees]
  | .mk none v :: is => by simpa [keyTrees] using allSlot_keyTrees is
  | .mk (some k) v :: is => by
    intro x ht
    simp only [keyTrees, List.mem_cons] at ht
    rcases ht with rfl | ht
    · simp [Tree.slot, Tree.inList]
    · exact allSlot_keyTrees is x ht

theorem allSlot_valueTrees : ∀ is : List RDictItem, AllSlot "values" (valueTrees is)
  | [] => by simp [AllSlot, valueTrees]
  | .mk k v :: is => by
    intro x ht
    simp only [valueTrees, List.mem_cons] at ht
    rcases ht with rfl | ht
    · simp [Tree.slot, Tree.inList]
    · exact allSlot_valueTrees is x ht

/-- the keys that are present, and the values, of entries in consecutive windows -/
def keysOf : List RDictItem → List RExpr
  | [] => []
  | .mk none _ :: is => keysOf is
  | .mk (some k) _ :: is => k :: keysOf is
def valuesOf : List RDictItem → List RExpr
  | [] => []
  | .mk _ v :: is => v :: valuesOf is

theorem keyTrees_eq : ∀ is : List RDictItem, keyTrees is = toTrees "keys" (keysOf is)
  | [] => by simp [keyTrees, keysOf, toTrees]
  | .mk none v :: is => by simp [keyTrees, keysOf, keyTrees_eq is]
  | .mk (some k) v :: is => by simp [keyTrees, keysOf, toTrees, keyTrees_eq is]

theorem valueTrees_eq : ∀ is : List RDictItem, valueTrees is = toTrees "values" (valuesOf is)
  | [] => by simp [valueTrees, valuesOf, toTrees]
  | .mk k v :: is => by simp [valueTrees, valuesOf, toTrees, valueTrees_eq is]

theorem seq_keys : ∀ (is : List RDictItem) (lo hi : Nat), SeqG (RSD src) lo hi is → plainItems is = true →
    SeqG (Res src) lo hi (keysOf is)
  | [], _, _, _, _ => trivial
  | .mk none v :: is, lo, hi, ⟨m, h1, h2, h3⟩, hp => by
    simp only [plainItems, Bool.and_eq_true] at hp
    simp only [keysOf]
    exact SeqG.mono_lo (windowed_res src) (seq_keys is m hi h3 hp.2) h1.1
  | .mk (some k) v :: is, lo, hi, ⟨m, h1, h2, h3⟩, hp => by
    simp only [plainItems, Bool.and_eq_true] at hp
    simp only [keysOf]
    obtain ⟨m1, g1, g2, g3⟩ := h1.2 (by simp [hp.1])
    have := g3.le
    exact ⟨m1, g1 k rfl, by omega, SeqG.mono_lo (windowed_res src) (seq_keys is m hi h3 hp.2) (by omega)⟩

theorem seq_values : ∀ (is : List RDictItem) (lo hi : Nat), SeqG (RSD src) lo hi is → plainItems is = true →
    SeqG (Res src) lo hi (valuesOf is)
  | [], _, _, _, _ => trivial
  | .mk k v :: is, lo, hi, ⟨m, h1, h2, h3⟩, hp => by
    simp only [plainItems, Bool.and_eq_true] at hp
    simp only [valuesOf]
    obtain ⟨m1, g1, g2, g3⟩ := h1.2 (by simp [hp.1])
    exact ⟨m, g3.mono g2 (Nat.le_refl _), h2, seq_values is m hi h3 hp.2⟩

/-! ### the children of an `Arguments` node: parameters and `*`/`**` parameters, in source order -/

inductive PItem where
  | param (slot : String) (p : RParam)
  | arg (slot : String) (v : Rg × Ident)

def PItem.tree : PItem → Tree
  | .param s (.mk rg drg _ d) =>
    .node "ArgWithDefault" s true (some rg) (.node "Arg" "def" false (some drg) [] :: optTree "default" d)
  | .arg s v => argTree s v

def PItem.range : PItem → Rg
  | .param _ (.mk rg _ _ _) => rg
  | .arg _ v => v.1

def PItem.plain : PItem → Bool
  | .param _ (.mk _ _ _ d) => plainO d
  | .arg _ _ => true

/-- the items of a parameter list in the order of the `Arguments` fields — which is source order -/
def argItems (po ar : List RParam) (va : Option (Rg × Ident)) (ko : List RParam) (kw : Option (Rg × Ident)) :
    List PItem :=
  po.map (.param "posonlyargs") ++ ar.map (.param "args") ++ (va.map (.arg "vararg")).toList ++
    ko.map (.param "kwonlyargs") ++ (kw.map (.arg "kwarg")).toList

theorem paramTrees_eq (s : String) : ∀ ps : List RParam, paramTrees s ps = (ps.map (.param s)).map PItem.tree
  | [] => by simp [paramTrees]
  | .mk rg drg n d :: ps => by simp [paramTrees, PItem.tree, paramTrees_eq s ps]

theorem argChildren_eq (po ar : List RParam) (va : Option (Rg × Ident)) (ko : List RParam) (kw : Option (Rg × Ident)) :
    paramTrees "posonlyargs" po ++ paramTrees "args" ar ++ (va.map (argTree "vararg")).toList ++
      paramTrees "kwonlyargs" ko ++ (kw.map (argTree "kwarg")).toList = (argItems po ar va ko kw).map PItem.tree := by
  simp only [argItems, List.map_append, paramTrees_eq]
  cases va <;> cases kw <;> simp [PItem.tree]

/-- a parameter item in a window (for `plain` items): its range is a well-formed range in the window; the `Arg` is a
    well-formed range inside it; a default value is a fine tree inside it (the `ArgWithDefault` runs from the name
    to the end of its default since the /repo fix of `ParameterDef`) -/
def RSI (src : List Nat) (lo hi : Nat) (x : PItem) : Prop :=
  lo ≤ hi ∧ (x.plain = true → rgOk src x.range ∧ lo ≤ x.range.1 ∧ x.range.2 ≤ hi ∧
    (match x with
     | .param _ (.mk rg drg _ d) =>
       rgOk src drg ∧ rg.1 ≤ drg.1 ∧ drg.2 ≤ rg.2 ∧ ∀ e, d = some e → Res src rg.1 rg.2 e
     | .arg _ _ => True))

theorem windowed_rsi (src : List Nat) : Windowed (RSI src) :=
  ⟨fun {lo hi lo' hi' x} h a b => ⟨by have := h.1; omega, fun hp => by
      obtain ⟨h1, h2, h3, h4⟩ := h.2 hp; exact ⟨h1, by omega, by omega, h4⟩⟩, fun h => h.1⟩

theorem rsi_relabel {lo hi : Nat} {s s' : String} {p : RParam} (h : RSI src lo hi (.param s p)) :
    RSI src lo hi (.param s' p) := by cases p; exact h

theorem seq_relabel (s s' : String) : ∀ {ps : List RParam} {lo hi : Nat},
    SeqG (RSI src) lo hi (ps.map (.param s)) → SeqG (RSI src) lo hi (ps.map (.param s'))
  | [], _, _, _ => trivial
  | _ :: _, _, _, ⟨m, h1, h2, h3⟩ => ⟨m, rsi_relabel h1, h2, seq_relabel s s' h3⟩

theorem item_range (x : PItem) : x.tree.range = some x.range := by
  cases x with
  | param s p => cases p; rfl
  | arg s v => rfl

/-- items in consecutive windows are ordered siblings, whatever their fields -/
theorem sibsOk_items (k : String) : ∀ (xs : List PItem) (lo hi : Nat), SeqG (RSI src) lo hi xs →
    (∀ x ∈ xs, x.plain = true) → sibsOk k (xs.map PItem.tree) = true
  | [], _, _, _, _ => by simp [sibsOk]
  | [_], _, _, _, _ => by simp [sibsOk]
  | x :: y :: xs, lo, hi, ⟨m, h1, _, h3⟩, hp => by
    have ih := sibsOk_items k (y :: xs) m hi h3 (fun z hz => hp z (by simp [hz]))
    obtain ⟨m2, h4, _, _⟩ := h3
    simp only [List.map_cons] at ih ⊢
    simp only [sibsOk, ih, Bool.and_true, item_range]
    have := (h1.2 (hp x (by simp))).2.2.1
    have := (h4.2 (hp y (by simp))).2.1
    split <;> simp <;> omega

theorem item_ok {x : PItem} {lo hi a b : Nat} (h : RSI src lo hi x) (hp : x.plain = true) (ha : a ≤ lo) (hb : hi ≤ b) :
    ok src (some (a, b)) x.tree = true := by
  obtain ⟨h0, hh⟩ := h
  obtain ⟨h1, h2, h3, h4⟩ := hh hp
  cases x with
  | arg s v =>
    obtain ⟨⟨v1, v2⟩, vn⟩ := v
    simp only [PItem.range] at h1 h2 h3
    simp only [PItem.tree, argTree, ok, okList, Bool.and_eq_true, Bool.and_true, Option.orElse]
    refine ⟨⟨h1, ?_⟩, by simp [sibsOk]⟩
    simp only [enclOk, Bool.or_eq_true, Bool.and_eq_true, decide_eq_true_eq]
    right; omega
  | param s p =>
    obtain ⟨⟨r1, r2⟩, ⟨d1, d2⟩, n, d⟩ := p
    simp only [PItem.range] at h1 h2 h3
    simp only [PItem.plain] at hp
    obtain ⟨g1, g2, g3, h5⟩ := h4
    simp only [PItem.tree]
    rw [ok, okList, ok, okList]
    simp only [Bool.and_eq_true, Option.orElse, Bool.and_true]
    refine ⟨⟨⟨h1, ?_⟩, ?_⟩, ⟨⟨g1, ?_⟩, by simp [sibsOk]⟩, ?_⟩
    · simp only [enclOk, Bool.or_eq_true, Bool.and_eq_true, decide_eq_true_eq]
      right; omega
    · rw [sibsOk_cons_notList _ _ _ rfl]
      cases d <;> simp [optTree, sibsOk]
    · simp only [enclOk, Bool.or_eq_true, Bool.and_eq_true, decide_eq_true_eq]
      right; exact ⟨g2, g3⟩
    · cases d with
      | none => simp [optTree, okList]
      | some e =>
        have he := h5 e rfl
        simp [optTree, okList, he.toOk "default" false r1 r2 (Nat.le_refl _) (Nat.le_refl _)]

theorem okList_items (a b : Nat) : ∀ (xs : List PItem) (lo hi : Nat), SeqG (RSI src) lo hi xs →
    (∀ x ∈ xs, x.plain = true) → a ≤ lo → hi ≤ b → okList src (some (a, b)) (xs.map PItem.tree) = true
  | [], _, _, _, _, _, _ => by simp [okList]
  | x :: xs, lo, hi, ⟨m, h1, h2, h3⟩, hp, ha, hb => by
    simp only [List.map_cons, okList, Bool.and_eq_true]
    have := h1.1
    exact ⟨item_ok h1 (hp x (by simp)) ha (by omega),
      okList_items a b xs m hi h3 (fun y hy => hp y (by simp [hy])) (by omega) hb⟩

theorem plainParams_items (s : String) : ∀ ps : List RParam, plainParams ps = true →
    ∀ x ∈ ps.map (PItem.param s), x.plain = true
  | [], _, x, hx => by cases hx
  | .mk rg drg n d :: ps, h, x, hx => by
    simp only [plainParams, Bool.and_eq_true] at h
    simp only [List.map_cons, List.mem_cons] at hx
    rcases hx with rfl | hx
    · exact h.1
    · exact plainParams_items s ps h.2 x hx

theorem plain_argItems {po ar ko : List RParam} {va kw : Option (Rg × Ident)} (h1 : plainParams po = true)
    (h2 : plainParams ar = true) (h3 : plainParams ko = true) : ∀ x ∈ argItems po ar va ko kw, x.plain = true := by
  intro x hx
  simp only [argItems, List.mem_append] at hx
  rcases hx with (((hx | hx) | hx) | hx) | hx
  · exact plainParams_items _ po h1 x hx
  · exact plainParams_items _ ar h2 x hx
  · cases va <;> simp at hx; subst hx; rfl
  · exact plainParams_items _ ko h3 x hx
  · cases kw <;> simp at hx; subst hx; rfl

/-! ### one lemma per node kind -/

section nodes
variable {a b lo hi : Nat}

theorem rs_name {id} (hrg : rgOk src (a, b)) (h1 : lo ≤ a) (h2 : b ≤ hi) : RS src lo hi (.name (a, b) id) :=
  ⟨by have := rgOk_le hrg; omega, fun _ => Res.intro' (a, b) rfl hrg h1 h2 (by simp [RExpr.children, sibsOk, Tree.inList])
    (by simp [RExpr.children, okList])⟩

theorem rs_const {c} (hrg : rgOk src (a, b)) (h1 : lo ≤ a) (h2 : b ≤ hi) : RS src lo hi (.const (a, b) c) :=
  ⟨by have := rgOk_le hrg; omega, fun _ => Res.intro' (a, b) rfl hrg h1 h2 (by simp [RExpr.children, sibsOk, Tree.inList])
    (by simp [RExpr.children, okList])⟩

/-- nodes with one child -/
theorem rs_unaryOp {op e} (hrg : rgOk src (a, b)) (h1 : lo ≤ a) (h2 : b ≤ hi) (he : RS src a b e) :
    RS src lo hi (.unaryOp (a, b) op e) :=
  ⟨by have := rgOk_le hrg; omega, fun hp => by
    simp only [plain] at hp
    exact Res.intro' (a, b) rfl hrg h1 h2 (by simp [RExpr.children, sibsOk, Tree.inList])
      (by simp [RExpr.children, okList, (he.2 hp).toOk])⟩

theorem rs_await {e} (hrg : rgOk src (a, b)) (h1 : lo ≤ a) (h2 : b ≤ hi) (he : RS src a b e) :
    RS src lo hi (.await (a, b) e) :=
  ⟨by have := rgOk_le hrg; omega, fun hp => by
    simp only [plain] at hp
    exact Res.intro' (a, b) rfl hrg h1 h2 (by simp [RExpr.children, sibsOk, Tree.inList])
      (by simp [RExpr.children, okList, (he.2 hp).toOk])⟩

theorem rs_yieldFrom {e} (hrg : rgOk src (a, b)) (h1 : lo ≤ a) (h2 : b ≤ hi) (he : RS src a b e) :
    RS src lo hi (.yieldFrom (a, b) e) :=
  ⟨by have := rgOk_le hrg; omega, fun hp => by
    simp only [plain] at hp
    exact Res.intro' (a, b) rfl hrg h1 h2 (by simp [RExpr.children, sibsOk, Tree.inList])
      (by simp [RExpr.children, okList, (he.2 hp).toOk])⟩

theorem rs_starred {e} (hrg : rgOk src (a, b)) (h1 : lo ≤ a) (h2 : b ≤ hi) (he : RS src a b e) :
    RS src lo hi (.starred (a, b) e) :=
  ⟨by have := rgOk_le hrg; omega, fun hp => by
    simp only [plain] at hp
    exact Res.intro' (a, b) rfl hrg h1 h2 (by simp [RExpr.children, sibsOk, Tree.inList])
      (by simp [RExpr.children, okList, (he.2 hp).toOk])⟩

theorem rs_attribute {e n} (hrg : rgOk src (a, b)) (h1 : lo ≤ a) (h2 : b ≤ hi) (he : RS src a b e) :
    RS src lo hi (.attribute (a, b) e n) :=
  ⟨by have := rgOk_le hrg; omega, fun hp => by
    simp only [plain] at hp
    exact Res.intro' (a, b) rfl hrg h1 h2 (by simp [RExpr.children, sibsOk, Tree.inList])
      (by simp [RExpr.children, okList, (he.2 hp).toOk])⟩

theorem rs_yield_none (hrg : rgOk src (a, b)) (h1 : lo ≤ a) (h2 : b ≤ hi) : RS src lo hi (.yield (a, b) none) :=
  ⟨by have := rgOk_le hrg; omega, fun _ => Res.intro' (a, b) rfl hrg h1 h2
    (by simp [RExpr.children, optTree, sibsOk]) (by simp [RExpr.children, optTree, okList])⟩

theorem rs_yield_some {e} (hrg : rgOk src (a, b)) (h1 : lo ≤ a) (h2 : b ≤ hi) (he : RS src a b e) :
    RS src lo hi (.yield (a, b) (some e)) :=
  ⟨by have := rgOk_le hrg; omega, fun hp => by
    simp only [plain, plainO] at hp
    exact Res.intro' (a, b) rfl hrg h1 h2 (by simp [RExpr.children, optTree, sibsOk])
      (by simp [RExpr.children, optTree, okList, (he.2 hp).toOk])⟩

/-- nodes with two or three children in different fields -/
theorem rs_binOp {l op r} (hrg : rgOk src (a, b)) (h1 : lo ≤ a) (h2 : b ≤ hi) (hl : RS src a b l) (hr : RS src a b r) :
    RS src lo hi (.binOp (a, b) l op r) :=
  ⟨by have := rgOk_le hrg; omega, fun hp => by
    simp only [plain, Bool.and_eq_true] at hp
    exact Res.intro' (a, b) rfl hrg h1 h2 (by simp [RExpr.children, sibsOk, Tree.inList])
      (by simp [RExpr.children, okList, (hl.2 hp.1).toOk, (hr.2 hp.2).toOk])⟩

theorem rs_subscript {v s} (hrg : rgOk src (a, b)) (h1 : lo ≤ a) (h2 : b ≤ hi) (hl : RS src a b v) (hr : RS src a b s) :
    RS src lo hi (.subscript (a, b) v s) :=
  ⟨by have := rgOk_le hrg; omega, fun hp => by
    simp only [plain, Bool.and_eq_true] at hp
    exact Res.intro' (a, b) rfl hrg h1 h2 (by simp [RExpr.children, sibsOk, Tree.inList])
      (by simp [RExpr.children, okList, (hl.2 hp.1).toOk, (hr.2 hp.2).toOk])⟩

/-- `NamedExpr`: the range ends where the value ends -/
theorem rs_namedExpr {t v} (hrg : rgOk src (a, b)) (h1 : lo ≤ a) (h2 : b ≤ hi) (hl : RS src a b t) (hr : RS src a b v) :
    RS src lo hi (.namedExpr (a, b) t v) :=
  ⟨by have := rgOk_le hrg; omega, fun hp => by
    simp only [plain, Bool.and_eq_true] at hp
    exact Res.intro' (a, b) rfl hrg h1 h2 (by simp [RExpr.children, sibsOk, Tree.inList])
      (by simp [RExpr.children, okList, (hl.2 hp.1).toOk, (hr.2 hp.2).toOk])⟩

theorem rs_ifExp {t bd o} (hrg : rgOk src (a, b)) (h1 : lo ≤ a) (h2 : b ≤ hi) (ht : RS src a b t) (hb : RS src a b bd)
    (ho : RS src a b o) : RS src lo hi (.ifExp (a, b) t bd o) :=
  ⟨by have := rgOk_le hrg; omega, fun hp => by
    simp only [plain, Bool.and_eq_true] at hp
    exact Res.intro' (a, b) rfl hrg h1 h2 (by simp [RExpr.children, sibsOk, Tree.inList])
      (by simp [RExpr.children, okList, (ht.2 hp.1.1).toOk, (hb.2 hp.1.2).toOk, (ho.2 hp.2).toOk])⟩

/-- `Lambda`: the `Arguments` node carries `argsRg`; its children are the parameter items in source order -/
theorem rs_lambda {argsRg : Rg} {po ar va ko kw bd} (hrg : rgOk src (a, b)) (h1 : lo ≤ a) (h2 : b ≤ hi)
    (ha : rgOk src argsRg) (ha1 : a ≤ argsRg.1) (ha2 : argsRg.2 ≤ b) {l h : Nat}
    (hs : SeqG (RSI src) l h (argItems po ar va ko kw)) (hl : argsRg.1 ≤ l) (hh : h ≤ argsRg.2)
    (hb : RS src a b bd) : RS src lo hi (.lambda (a, b) argsRg po ar va ko kw bd) :=
  ⟨by have := rgOk_le hrg; omega, fun hp => by
    simp only [plain, Bool.and_eq_true] at hp
    obtain ⟨⟨⟨p1, p2⟩, p3⟩, hb'⟩ := hp
    refine Res.intro' (a, b) rfl hrg h1 h2 (by simp [RExpr.children, sibsOk, Tree.inList]) ?_
    simp only [RExpr.children, argChildren_eq]
    rw [okList, okList, okList, ok]
    simp only [Bool.and_eq_true, Bool.and_true, Option.orElse]
    refine ⟨⟨⟨⟨ha, ?_⟩, sibsOk_items _ _ l h hs (plain_argItems p1 p2 p3)⟩,
      okList_items argsRg.1 argsRg.2 _ l h hs (plain_argItems p1 p2 p3) hl hh⟩,
      (hb.2 hb').toOk "body" false a b (Nat.le_refl _) (Nat.le_refl _)⟩
    simp only [enclOk, Bool.or_eq_true, Bool.and_eq_true, decide_eq_true_eq]
    right; omega⟩

theorem okList_optTree {s : String} {x : Option RExpr} (hx : ∀ e, x = some e → Res src a b e) :
    okList src (some (a, b)) (optTree s x) = true := by
  cases x with
  | none => simp [optTree, okList]
  | some e => simp [optTree, okList, (hx e rfl).toOk]

/-- `Slice`: three optional children in different fields -/
theorem rs_slice {x y z : Option RExpr} (hrg : rgOk src (a, b)) (h1 : lo ≤ a) (h2 : b ≤ hi)
    (hx : ∀ e, x = some e → RS src a b e) (hy : ∀ e, y = some e → RS src a b e) (hz : ∀ e, z = some e → RS src a b e) :
    RS src lo hi (.slice (a, b) x y z) :=
  ⟨by have := rgOk_le hrg; omega, fun hp => by
    simp only [plain, Bool.and_eq_true] at hp
    refine Res.intro' (a, b) rfl hrg h1 h2 ?_ ?_
    · simp only [RExpr.children]
      cases x <;> cases y <;> cases z <;> simp [optTree, sibsOk, Tree.slot, Tree.inList]
    · simp only [RExpr.children, okList_append, Bool.and_eq_true]
      refine ⟨⟨okList_optTree ?_, okList_optTree ?_⟩, okList_optTree ?_⟩
      · intro e he; subst he; exact (hx e rfl).2 hp.1.1
      · intro e he; subst he; exact (hy e rfl).2 hp.1.2
      · intro e he; subst he; exact (hz e rfl).2 hp.2⟩

/-- nodes with one list field -/
theorem rs_listLike (mk : Rg → List RExpr → RExpr) (k s : String)
    (hk : ∀ rg es, (mk rg es).kind = k) (hc : ∀ rg es, (mk rg es).children = toTrees s es)
    (hr : ∀ rg es, (mk rg es).range = rg) (hp : ∀ rg es, plain (mk rg es) = plainL es)
    {es : List RExpr} (hrg : rgOk src (a, b)) (h1 : lo ≤ a) (h2 : b ≤ hi) {l h : Nat}
    (hs : SeqG (RS src) l h es) (hl : a ≤ l) (hh : h ≤ b) : RS src lo hi (mk (a, b) es) :=
  ⟨by have := rgOk_le hrg; omega, fun hp' => by
    rw [hp] at hp'
    have hs' := seq_plain hs hp'
    exact Res.intro' (a, b) (hr _ _) hrg h1 h2 (by rw [hk, hc]; exact sibsOk_toTrees src _ s es l h hs')
      (by rw [hc]; exact okList_toTrees src s a b es l h hs' hl hh)⟩

theorem rs_boolOp {op es} (hrg : rgOk src (a, b)) (h1 : lo ≤ a) (h2 : b ≤ hi) {l h : Nat}
    (hs : SeqG (RS src) l h es) (hl : a ≤ l) (hh : h ≤ b) : RS src lo hi (.boolOp (a, b) op es) :=
  rs_listLike (fun rg es => .boolOp rg op es) "ExprBoolOp" "values" (fun _ _ => rfl) (fun _ _ => rfl) (fun _ _ => rfl)
    (fun _ _ => rfl) hrg h1 h2 hs hl hh

theorem rs_set {es} (hrg : rgOk src (a, b)) (h1 : lo ≤ a) (h2 : b ≤ hi) {l h : Nat}
    (hs : SeqG (RS src) l h es) (hl : a ≤ l) (hh : h ≤ b) : RS src lo hi (.set (a, b) es) :=
  rs_listLike .set "ExprSet" "elts" (fun _ _ => rfl) (fun _ _ => rfl) (fun _ _ => rfl)
    (fun _ _ => rfl) hrg h1 h2 hs hl hh

theorem rs_list {es} (hrg : rgOk src (a, b)) (h1 : lo ≤ a) (h2 : b ≤ hi) {l h : Nat}
    (hs : SeqG (RS src) l h es) (hl : a ≤ l) (hh : h ≤ b) : RS src lo hi (.list (a, b) es) :=
  rs_listLike .list "ExprList" "elts" (fun _ _ => rfl) (fun _ _ => rfl) (fun _ _ => rfl)
    (fun _ _ => rfl) hrg h1 h2 hs hl hh

theorem rs_tuple {es} (hrg : rgOk src (a, b)) (h1 : lo ≤ a) (h2 : b ≤ hi) {l h : Nat}
    (hs : SeqG (RS src) l h es) (hl : a ≤ l) (hh : h ≤ b) : RS src lo hi (.tuple (a, b) es) :=
  rs_listLike .tuple "ExprTuple" "elts" (fun _ _ => rfl) (fun _ _ => rfl) (fun _ _ => rfl)
    (fun _ _ => rfl) hrg h1 h2 hs hl hh

/-- `Compare`: the left operand, then the comparators in consecutive windows -/
theorem rs_compare {lft ops cs} (hrg : rgOk src (a, b)) (h1 : lo ≤ a) (h2 : b ≤ hi) (hl : RS src a b lft) {l h : Nat}
    (hs : SeqG (RS src) l h cs) (hl' : a ≤ l) (hh : h ≤ b) : RS src lo hi (.compare (a, b) lft ops cs) :=
  ⟨by have := rgOk_le hrg; omega, fun hp => by
    simp only [plain, Bool.and_eq_true] at hp
    have hs' := seq_plain hs hp.2
    refine Res.intro' (a, b) rfl hrg h1 h2 ?_ ?_
    · simp only [RExpr.children]
      rw [sibsOk_cons_notList _ _ _ rfl]
      exact sibsOk_toTrees src _ _ cs l h hs'
    · simp only [RExpr.children, okList, Bool.and_eq_true]
      exact ⟨(hl.2 hp.1).toOk _ _ a b (Nat.le_refl _) (Nat.le_refl _), okList_toTrees src _ a b cs l h hs' hl' hh⟩⟩

/-- `Call`: the callee, the positional arguments and the keywords — two list fields whose elements interleave
    in the source, each in consecutive windows -/
theorem rs_call {fn as ks} (hrg : rgOk src (a, b)) (h1 : lo ≤ a) (h2 : b ≤ hi) (hf : RS src a b fn) {l h l' h' : Nat}
    (hs : SeqG (RS src) l h as) (hl : a ≤ l) (hh : h ≤ b)
    (hk : SeqG (RSK src) l' h' ks) (hl' : a ≤ l') (hh' : h' ≤ b) : RS src lo hi (.call (a, b) fn as ks) :=
  ⟨by have := rgOk_le hrg; omega, fun hp => by
    simp only [plain, Bool.and_eq_true] at hp
    have hs' := seq_plain hs hp.1.2
    refine Res.intro' (a, b) rfl hrg h1 h2 ?_ ?_
    · simp only [RExpr.children]
      rw [sibsOk_cons_notList _ _ _ rfl,
        sibsOk_append_ne _ "args" "keywords" (by decide) _ _ (allSlot_toTrees _ _) (allSlot_kwTrees _)]
      simp only [Bool.and_eq_true]
      exact ⟨sibsOk_toTrees src _ _ as l h hs', sibsOk_kwTrees _ ks l' h' hk hp.2⟩
    · simp only [RExpr.children, okList, okList_append, Bool.and_eq_true]
      exact ⟨(hf.2 hp.1.1).toOk _ _ a b (Nat.le_refl _) (Nat.le_refl _),
        okList_toTrees src _ a b as l h hs' hl hh, okList_kwTrees a b ks l' h' hk hp.2 hl' hh'⟩⟩

/-- `Dict`: keys and values are two list fields -/
theorem rs_dict {is} (hrg : rgOk src (a, b)) (h1 : lo ≤ a) (h2 : b ≤ hi) {l h : Nat}
    (hs : SeqG (RSD src) l h is) (hl : a ≤ l) (hh : h ≤ b) : RS src lo hi (.dict (a, b) is) :=
  ⟨by have := rgOk_le hrg; omega, fun hp => by
    simp only [plain] at hp
    have hk := seq_keys is l h hs hp
    have hv := seq_values is l h hs hp
    refine Res.intro' (a, b) rfl hrg h1 h2 ?_ ?_
    · simp only [RExpr.children]
      rw [sibsOk_append_ne _ "keys" "values" (by decide) _ _ (allSlot_keyTrees _) (allSlot_valueTrees _),
        keyTrees_eq, valueTrees_eq]
      simp only [Bool.and_eq_true]
      exact ⟨sibsOk_toTrees src _ _ _ l h hk, sibsOk_toTrees src _ _ _ l h hv⟩
    · simp only [RExpr.children, okList_append, Bool.and_eq_true, keyTrees_eq, valueTrees_eq]
      exact ⟨okList_toTrees src _ a b _ l h hk hl hh, okList_toTrees src _ a b _ l h hv hl hh⟩⟩

/-- comprehensions: the element(s), then the `Comprehension` nodes in consecutive windows -/
theorem rs_compLike (mk : Rg → RExpr → List RComp → RExpr) (s : String)
    (hc : ∀ rg e gs, (mk rg e gs).children = .node e.kind s false (some e.range) e.children :: compTrees gs)
    (hr : ∀ rg e gs, (mk rg e gs).range = rg) (hp : ∀ rg e gs, plain (mk rg e gs) = (plain e && plainComps gs))
    {e : RExpr} {gs : List RComp} (hrg : rgOk src (a, b)) (h1 : lo ≤ a) (h2 : b ≤ hi) (he : RS src a b e) {l h : Nat}
    (hs : SeqG (RSC src) l h gs) (hl : a ≤ l) (hh : h ≤ b) : RS src lo hi (mk (a, b) e gs) :=
  ⟨by have := rgOk_le hrg; omega, fun hp' => by
    rw [hp] at hp'
    simp only [Bool.and_eq_true] at hp'
    refine Res.intro' (a, b) (hr _ _ _) hrg h1 h2 ?_ ?_
    · rw [hc, sibsOk_cons_notList _ _ _ rfl]
      exact sibsOk_compTrees _ gs l h hs hp'.2
    · rw [hc]
      simp only [okList, Bool.and_eq_true]
      exact ⟨(he.2 hp'.1).toOk _ _ a b (Nat.le_refl _) (Nat.le_refl _), okList_compTrees a b gs l h hs hp'.2 hl hh⟩⟩

theorem rs_listComp {e gs} (hrg : rgOk src (a, b)) (h1 : lo ≤ a) (h2 : b ≤ hi) (he : RS src a b e) {l h : Nat}
    (hs : SeqG (RSC src) l h gs) (hl : a ≤ l) (hh : h ≤ b) : RS src lo hi (.listComp (a, b) e gs) :=
  rs_compLike .listComp "elt" (fun _ _ _ => rfl) (fun _ _ _ => rfl) (fun _ _ _ => rfl) hrg h1 h2 he hs hl hh

theorem rs_setComp {e gs} (hrg : rgOk src (a, b)) (h1 : lo ≤ a) (h2 : b ≤ hi) (he : RS src a b e) {l h : Nat}
    (hs : SeqG (RSC src) l h gs) (hl : a ≤ l) (hh : h ≤ b) : RS src lo hi (.setComp (a, b) e gs) :=
  rs_compLike .setComp "elt" (fun _ _ _ => rfl) (fun _ _ _ => rfl) (fun _ _ _ => rfl) hrg h1 h2 he hs hl hh

theorem rs_genExp {e gs} (hrg : rgOk src (a, b)) (h1 : lo ≤ a) (h2 : b ≤ hi) (he : RS src a b e) {l h : Nat}
    (hs : SeqG (RSC src) l h gs) (hl : a ≤ l) (hh : h ≤ b) : RS src lo hi (.genExp (a, b) e gs) :=
  rs_compLike .genExp "elt" (fun _ _ _ => rfl) (fun _ _ _ => rfl) (fun _ _ _ => rfl) hrg h1 h2 he hs hl hh

theorem rs_dictComp {k v gs} (hrg : rgOk src (a, b)) (h1 : lo ≤ a) (h2 : b ≤ hi) (hk : RS src a b k) (hv : RS src a b v)
    {l h : Nat} (hs : SeqG (RSC src) l h gs) (hl : a ≤ l) (hh : h ≤ b) : RS src lo hi (.dictComp (a, b) k v gs) :=
  ⟨by have := rgOk_le hrg; omega, fun hp => by
    simp only [plain, Bool.and_eq_true] at hp
    refine Res.intro' (a, b) rfl hrg h1 h2 ?_ ?_
    · simp only [RExpr.children]
      rw [sibsOk_cons_notList _ _ _ rfl, sibsOk_cons_notList _ _ _ rfl]
      exact sibsOk_compTrees _ gs l h hs hp.2
    · simp only [RExpr.children, okList, Bool.and_eq_true]
      exact ⟨(hk.2 hp.1.1).toOk _ _ a b (Nat.le_refl _) (Nat.le_refl _),
        (hv.2 hp.1.2).toOk _ _ a b (Nat.le_refl _) (Nat.le_refl _), okList_compTrees a b gs l h hs hp.2 hl hh⟩⟩

/-! building the items of the list fields -/

theorem rsk_mk {rg : Rg} {n v} (h0 : lo ≤ hi) (hrg : rgOk src rg) (h1 : lo ≤ rg.1) (h2 : rg.2 ≤ hi)
    (hv : RS src rg.1 rg.2 v) : RSK src lo hi (.mk rg n v) :=
  ⟨h0, fun hp => ⟨hrg, h1, h2, hv.2 hp⟩⟩

theorem rsc_mk {rg : Rg} {t i ifs as} (h0 : lo ≤ hi) (hrg : rgOk src rg) (h1 : lo ≤ rg.1) (h2 : rg.2 ≤ hi)
    (ht : RS src rg.1 rg.2 t) (hi' : RS src rg.1 rg.2 i) {l h : Nat} (hs : SeqG (RS src) l h ifs) (hl : rg.1 ≤ l)
    (hh : h ≤ rg.2) : RSC src lo hi (.mk rg t i ifs as) :=
  ⟨h0, fun hp => by
    simp only [Bool.and_eq_true] at hp
    exact ⟨hrg, h1, h2, ht.2 hp.1.1, hi'.2 hp.1.2, l, h, seq_plain hs hp.2, hl, hh⟩⟩

theorem rsd_mk_some {k v} {m : Nat} (hk : RS src lo m k) (hv : RS src m hi v) : RSD src lo hi (.mk (some k) v) :=
  ⟨by have := hk.1; have := hv.1; omega, fun hp => by
    simp only [plainO, Bool.and_eq_true] at hp
    exact ⟨m, fun k' hk' => by cases hk'; exact hk.2 hp.1, hk.1, hv.2 hp.2⟩⟩

theorem rsd_mk_none {v} (hv : RS src lo hi v) : RSD src lo hi (.mk none v) :=
  ⟨hv.1, fun hp => by
    simp only [plainO, Bool.true_and] at hp
    exact ⟨lo, fun k' hk' => (by cases hk'), Nat.le_refl _, hv.2 hp⟩⟩

end nodes
end PV.C02
