import PV.C02.SoundIdx
import PV.C02.Fwd
import PV.C02.EraseSteps
/-
  PV.C02.SoundSteps — the induction over the ranged parser: for a tiled span table, every function returns nodes that
  lie in the index window of the tokens it consumed, are fine below that window (`Win` / `Seq*`, for `plain` trees)
  and whose range is described by `Ext`.  One lemma per function (`sstep_*`: case analysis of the function by
  `fun_cases`, the induction hypotheses instantiated at the calls that were made by `fwd`, the node lemmas of
  `SoundIdx` applied by `grind`), assembled by induction on the fuel (`soundAt`).
-/
set_option linter.unusedSimpArgs false
set_option linter.unusedVariables false
namespace PV.C02
open PV.Expr PV.C11

variable {src : List Nat} {σ : SpanTab} {N : Nat}

@[reducible] def PostE (src : List Nat) (σ : SpanTab) (ts : List Tok) (e : RExpr) (rest : List Tok) : Prop :=
  rest.length < ts.length ∧ Win src σ ts.length (rest.length + 1) e ∧ Ext σ ts rest e

/-- what `parseRParams` maintains: the items collected so far lie, in source order, between token `j0` and the token
    with `k` tokens left; the groups a later item would have to precede are still empty -/
@[reducible] def PInv (src : List Nat) (σ : SpanTab) (j0 k ph : Nat) (ps : RParams) : Prop :=
  SeqP src σ j0 k (argItems ps.posonly ps.args ps.vararg ps.kwonly ps.kwarg) ∧
  (ph = 0 → ps.posonly = []) ∧ (ph ≤ 1 → ps.vararg = none ∧ ps.kwonly = []) ∧ (ph ≤ 2 → ps.kwarg = none)

theorem pinv_empty (src : List Nat) (σ : SpanTab) (j0 k : Nat) : PInv src σ j0 k 0 {} :=
  ⟨trivial, fun _ => rfl, fun _ => ⟨rfl, rfl⟩, fun _ => rfl⟩

@[grind =] theorem argItems_nil : argItems [] [] none [] none = [] := rfl

structure SoundAt (src : List Nat) (σ : SpanTab) (N : Nat) (f : Nat) : Prop where
  test : ∀ ts e rest, ts.length ≤ N → parseRTest σ f ts = some (e, rest) → PostE src σ ts e rest
  lambda : ∀ ts e rest, ts.length + 1 ≤ N → parseRLambda σ f ts = some (e, rest) →
    rest.length < ts.length ∧ Win src σ (ts.length + 1) (rest.length + 1) e ∧
      e.range = (S σ (ts.length + 1), E σ (rest.length + 1))
  params : ∀ ts ps ph ps' rest j0, PInv src σ j0 (ts.length + 1) ph ps → ts.length ≤ j0 → j0 + 1 ≤ N →
    parseRParams σ f ts ps ph = some (ps', rest) →
    rest.length ≤ ts.length ∧ ((∀ r, ts ≠ .op .colon :: r) → rest.length < ts.length) ∧
      ((∃ r, ts = .op .colon :: r) → ps' = ps) ∧ ∃ ph', PInv src σ j0 (rest.length + 1) ph' ps'
  namedTest : ∀ ts e rest, ts.length ≤ N → parseRNamedTest σ f ts = some (e, rest) → PostE src σ ts e rest
  starOrNamed : ∀ ts e rest, ts.length ≤ N → parseRStarOrNamed σ f ts = some (e, rest) → PostE src σ ts e rest
  testOrStar : ∀ ts e rest, ts.length ≤ N → parseRTestOrStar σ f ts = some (e, rest) → PostE src σ ts e rest
  orTest : ∀ ts e rest, ts.length ≤ N → parseROrTest σ f ts = some (e, rest) → PostE src σ ts e rest
  orRest : ∀ ts es rest, ts.length ≤ N → parseROrRest σ f ts = some (es, rest) →
    rest.length < ts.length ∧ SeqI src σ ts.length (rest.length + 1) es
  andTest : ∀ ts e rest, ts.length ≤ N → parseRAndTest σ f ts = some (e, rest) → PostE src σ ts e rest
  andRest : ∀ ts es rest, ts.length ≤ N → parseRAndRest σ f ts = some (es, rest) →
    rest.length < ts.length ∧ SeqI src σ ts.length (rest.length + 1) es
  notTest : ∀ ts e rest, ts.length ≤ N → parseRNotTest σ f ts = some (e, rest) → PostE src σ ts e rest
  cmp : ∀ ts e rest, ts.length ≤ N → parseRCmp σ f ts = some (e, rest) → PostE src σ ts e rest
  cmpRest : ∀ ts ops cs rest, ts.length ≤ N → parseRCmpRest σ f ts = some ((ops, cs), rest) →
    rest.length ≤ ts.length ∧ SeqI src σ ts.length (rest.length + 1) cs ∧ (rest.length = ts.length → cs = [])
  bin : ∀ lvl ts e rest, ts.length ≤ N → parseRBin σ lvl f ts = some (e, rest) → PostE src σ ts e rest
  binLoop : ∀ lvl st j0 acc ts e rest, st = S σ j0 → ts.length < j0 → j0 ≤ N → Win src σ j0 (ts.length + 1) acc →
    parseRBinLoop σ lvl f st acc ts = some (e, rest) →
      rest.length ≤ ts.length ∧ Win src σ j0 (rest.length + 1) e ∧
      ((e = acc ∧ rest = ts) ∨ (rest.length < ts.length ∧ e.range = (S σ j0, E σ (rest.length + 1))))
  factor : ∀ ts e rest, ts.length ≤ N → parseRFactor σ f ts = some (e, rest) → PostE src σ ts e rest
  power : ∀ ts e rest, ts.length ≤ N → parseRPower σ f ts = some (e, rest) → PostE src σ ts e rest
  atomExpr : ∀ ts e rest, ts.length ≤ N → parseRAtomExpr σ f ts = some (e, rest) → PostE src σ ts e rest
  atomExpr2 : ∀ ts e rest, ts.length ≤ N → parseRAtomExpr2 σ f ts = some (e, rest) → PostE src σ ts e rest
  trailers : ∀ st j0 acc ts e rest, st = S σ j0 → ts.length < j0 → j0 ≤ N → Win src σ j0 (ts.length + 1) acc →
    parseRTrailers σ f st acc ts = some (e, rest) →
      rest.length ≤ ts.length ∧ Win src σ j0 (rest.length + 1) e ∧
      ((e = acc ∧ rest = ts) ∨ (rest.length < ts.length ∧ e.range = (S σ j0, E σ (rest.length + 1))))
  args : ∀ ts as ks d as' ks' rest jl, SeqI src σ jl (ts.length + 1) as → SeqK src σ jl (ts.length + 1) ks →
    ts.length + 1 ≤ jl → jl ≤ N → parseRArgs σ f ts as ks d = some ((as', ks'), rest) →
      rest.length < ts.length ∧ SeqI src σ jl (rest.length + 2) as' ∧ SeqK src σ jl (rest.length + 2) ks'
  arg : ∀ ts as ks d as' ks' d' rest jl, SeqI src σ jl (ts.length + 1) as → SeqK src σ jl (ts.length + 1) ks →
    ts.length + 1 ≤ jl → jl ≤ N → parseRArg σ f ts as ks d = some (as', ks', d', rest) →
      rest.length < ts.length ∧ SeqI src σ jl (rest.length + 1) as' ∧ SeqK src σ jl (rest.length + 1) ks'
  args0 : ∀ ts as' ks' rest, ts.length + 1 ≤ N → parseRArgs σ f ts [] [] false = some ((as', ks'), rest) →
    rest.length < ts.length ∧ SeqI src σ (ts.length + 1) (rest.length + 2) as' ∧
      SeqK src σ (ts.length + 1) (rest.length + 2) ks'
  subscriptList : ∀ ts e rest, ts.length ≤ N → parseRSubscriptList σ f ts = some (e, rest) →
    rest.length + 2 ≤ ts.length ∧ Win src σ ts.length (rest.length + 2) e
  subscripts : ∀ ts es rest, ts.length ≤ N → parseRSubscripts σ f ts = some (es, rest) →
    rest.length + 2 ≤ ts.length ∧ SeqI src σ ts.length (rest.length + 2) es
  subscript : ∀ ts e rest, ts.length ≤ N → parseRSubscript σ f ts = some (e, rest) → PostE src σ ts e rest
  sliceRest : ∀ st j0 lower ts e rest, st = S σ j0 → ts.length ≤ j0 → j0 ≤ N → (lower = none → j0 = ts.length) →
    (∀ l, lower = some l → ts.length < j0 ∧ Win src σ j0 (ts.length + 1) l) →
    parseRSliceRest σ f st lower ts = some (e, rest) →
      rest.length < ts.length ∧ Win src σ j0 (rest.length + 1) e ∧
        e.range = (S σ j0, E σ (rest.length + 1))
  atom : ∀ ts e rest, ts.length ≤ N → parseRAtom σ f ts = some (e, rest) → PostE src σ ts e rest
  listAtom : ∀ ts e rest, ts.length + 1 ≤ N → parseRListAtom σ f ts = some (e, rest) →
    rest.length < ts.length ∧ Win src σ (ts.length + 1) (rest.length + 1) e ∧
      e.range = (S σ (ts.length + 1), E σ (rest.length + 1))
  parenAtom : ∀ ts e rest, ts.length + 1 ≤ N → parseRParenAtom σ f ts = some (e, rest) →
    rest.length < ts.length ∧ Win src σ (ts.length + 1) (rest.length + 1) e ∧
      (e.range = (S σ (ts.length + 1), E σ (rest.length + 1)) ∨ Ext σ ts (.op .rpar :: rest) e)
  yieldAtom : ∀ ts e rest, ts.length + 2 ≤ N → parseRYieldAtom σ f ts = some (e, rest) →
    rest.length < ts.length ∧ Win src σ (ts.length + 1) (rest.length + 2) e ∧
      e.range = (S σ (ts.length + 1), E σ (rest.length + 2))
  braceAtom : ∀ ts e rest, ts.length + 1 ≤ N → parseRBraceAtom σ f ts = some (e, rest) →
    rest.length < ts.length ∧ Win src σ (ts.length + 1) (rest.length + 1) e ∧
      e.range = (S σ (ts.length + 1), E σ (rest.length + 1))
  braceFirst : ∀ ts e b rest, ts.length ≤ N → parseRBraceFirst σ f ts = some (e, b, rest) →
    rest.length < ts.length ∧ Win src σ ts.length (rest.length + 1) e
  elems : ∀ close ts es tc rest, ts.length + 1 ≤ N → parseRElems σ f close ts = some ((es, tc), rest) →
    rest.length < ts.length ∧ SeqI src σ ts.length (rest.length + 2) es ∧
      (es = [] → tc = false → ts = .op close :: rest)
  dictRest : ∀ ts is rest, ts.length + 1 ≤ N → parseRDictRest σ f ts = some (is, rest) →
    rest.length < ts.length ∧ SeqD src σ ts.length (rest.length + 2) is
  compFor : ∀ ts gs rest, ts.length ≤ N → parseRCompFor σ f ts = some (gs, rest) →
    rest.length < ts.length ∧ SeqC src σ ts.length (rest.length + 1) gs
  compIfs : ∀ ts cs rest, ts.length ≤ N → parseRCompIfs σ f ts = some (cs, rest) →
    rest.length ≤ ts.length ∧ SeqI src σ ts.length (rest.length + 1) cs ∧ (rest.length = ts.length → cs = [])
  exprOrStar : ∀ ts e rest, ts.length ≤ N → parseRExprOrStar σ f ts = some (e, rest) → PostE src σ ts e rest
  targetList : ∀ ts e rest, ts.length ≤ N → parseRTargetList σ f ts = some (e, rest) → PostE src σ ts e rest
  targetRest : ∀ ts es rest, ts.length ≤ N → parseRTargetRest σ f ts = some (es, rest) →
    rest.length ≤ ts.length ∧ SeqI src σ ts.length (rest.length + 1) es ∧ (rest.length = ts.length → es = [])
  testList : ∀ ts e rest, ts.length ≤ N → parseRTestList σ f ts = some (e, rest) → PostE src σ ts e rest
  testListRest : ∀ ts es rest, ts.length ≤ N → parseRTestListRest σ f ts = some (es, rest) →
    rest.length ≤ ts.length ∧ SeqI src σ ts.length (rest.length + 1) es ∧ (rest.length = ts.length → es = [])
  strings : ∀ t r e rest, (t :: r).length ≤ N → isStringTok t = true →
    parseRStrings σ f (t :: r) = some (e, rest) → PostE src σ (t :: r) e rest

def BelowS (src : List Nat) (σ : SpanTab) (N : Nat) (n : Nat) : Prop := ∀ f, n = f + 1 → SoundAt src σ N f

macro "sg" : tactic => `(tactic| grind [Ext.exact, Ext.named, Ext.paren, RExpr.range])

open Lean in
/-- `sstep T ih [fields]`: in every case left by `fun_cases`: fold the span accessors into `S`/`E`/`Sp`, instantiate the
    named induction hypotheses (fields of `SoundAt`) at the calls that were made (three rounds, so that what one call
    consumed is known when the next one's precondition is checked), and call `grind` (the index-window lemmas of
    `SoundIdx` fire through their `grind_pattern`s) -/
macro "sstep" ih:ident "[" fs:ident,* "]" : tactic => do
  let mut round : Array (TSyntax `tactic) := #[]
  for f in fs.getElems do
    let p := mkIdent (`PV.C02.SoundAt ++ f.getId)
    round := round.push (← `(tactic| fwd ($p:ident ($ih _ rfl))))
  `(tactic| (
    all_goals intro h
    all_goals try simp (config := { zetaDelta := true }) only [] at *
    all_goals try simp only [Option.some.injEq, Prod.mk.injEq, reduceCtorEq, L, R, P, List.length_cons, false_imp_iff,
      imp_self] at *
    all_goals (
      have hS : ∀ k, (σ k).1 = S σ k := fun _ => rfl
      have hE : ∀ k, (σ k).2 = E σ k := fun _ => rfl
      have hSp : ∀ k, σ k = Sp σ k := fun _ => rfl
      try simp only [hS, hE] at *
      try simp only [hSp] at *
      clear hS hE hSp
      fwd @binOpAt_len; fwd @unaryOpAt_len; fwd @cmpOpAt_len
      $[$round]*
      try simp only [List.length_cons] at *
      $[$round]*
      try simp only [List.length_cons] at *
      $[$round]*
      try simp only [List.length_cons] at *
      sg)))

theorem sstep_test (T : TiledTab src σ N) {n} (ih : BelowS src σ N n) :
    ∀ ts e rest, ts.length ≤ N → parseRTest σ n ts = some (e, rest) → PostE src σ ts e rest := by
  intro ts e rest hN
  fun_cases parseRTest σ n ts
  sstep ih [orTest, test, lambda]

theorem sstep_namedTest (T : TiledTab src σ N) {n} (ih : BelowS src σ N n) :
    ∀ ts e rest, ts.length ≤ N → parseRNamedTest σ n ts = some (e, rest) → PostE src σ ts e rest := by
  intro ts e rest hN
  fun_cases parseRNamedTest σ n ts
  sstep ih [test]

theorem sstep_starOrNamed (T : TiledTab src σ N) {n} (ih : BelowS src σ N n) :
    ∀ ts e rest, ts.length ≤ N → parseRStarOrNamed σ n ts = some (e, rest) → PostE src σ ts e rest := by
  intro ts e rest hN
  fun_cases parseRStarOrNamed σ n ts
  sstep ih [bin, namedTest]

theorem sstep_testOrStar (T : TiledTab src σ N) {n} (ih : BelowS src σ N n) :
    ∀ ts e rest, ts.length ≤ N → parseRTestOrStar σ n ts = some (e, rest) → PostE src σ ts e rest := by
  intro ts e rest hN
  fun_cases parseRTestOrStar σ n ts
  sstep ih [bin, test]

theorem sstep_orTest (T : TiledTab src σ N) {n} (ih : BelowS src σ N n) :
    ∀ ts e rest, ts.length ≤ N → parseROrTest σ n ts = some (e, rest) → PostE src σ ts e rest := by
  intro ts e rest hN
  fun_cases parseROrTest σ n ts
  sstep ih [andTest, orRest]

theorem sstep_orRest (T : TiledTab src σ N) {n} (ih : BelowS src σ N n) :
    ∀ ts es rest, ts.length ≤ N → parseROrRest σ n ts = some (es, rest) →
    rest.length < ts.length ∧ SeqI src σ ts.length (rest.length + 1) es := by
  intro ts es rest hN
  fun_cases parseROrRest σ n ts
  sstep ih [andTest, orRest]

theorem sstep_andTest (T : TiledTab src σ N) {n} (ih : BelowS src σ N n) :
    ∀ ts e rest, ts.length ≤ N → parseRAndTest σ n ts = some (e, rest) → PostE src σ ts e rest := by
  intro ts e rest hN
  fun_cases parseRAndTest σ n ts
  sstep ih [notTest, andRest]

theorem sstep_andRest (T : TiledTab src σ N) {n} (ih : BelowS src σ N n) :
    ∀ ts es rest, ts.length ≤ N → parseRAndRest σ n ts = some (es, rest) →
    rest.length < ts.length ∧ SeqI src σ ts.length (rest.length + 1) es := by
  intro ts es rest hN
  fun_cases parseRAndRest σ n ts
  sstep ih [notTest, andRest]

theorem sstep_notTest (T : TiledTab src σ N) {n} (ih : BelowS src σ N n) :
    ∀ ts e rest, ts.length ≤ N → parseRNotTest σ n ts = some (e, rest) → PostE src σ ts e rest := by
  intro ts e rest hN
  fun_cases parseRNotTest σ n ts
  sstep ih [notTest, cmp]

theorem sstep_cmp (T : TiledTab src σ N) {n} (ih : BelowS src σ N n) :
    ∀ ts e rest, ts.length ≤ N → parseRCmp σ n ts = some (e, rest) → PostE src σ ts e rest := by
  intro ts e rest hN
  fun_cases parseRCmp σ n ts
  sstep ih [bin, cmpRest]

theorem sstep_cmpRest (T : TiledTab src σ N) {n} (ih : BelowS src σ N n) :
    ∀ ts ops cs rest, ts.length ≤ N → parseRCmpRest σ n ts = some ((ops, cs), rest) →
    rest.length ≤ ts.length ∧ SeqI src σ ts.length (rest.length + 1) cs ∧ (rest.length = ts.length → cs = []) := by
  intro ts ops cs rest hN
  fun_cases parseRCmpRest σ n ts
  sstep ih [bin, cmpRest]

theorem sstep_bin (T : TiledTab src σ N) {n} (ih : BelowS src σ N n) :
    ∀ lvl ts e rest, ts.length ≤ N → parseRBin σ lvl n ts = some (e, rest) → PostE src σ ts e rest := by
  intro lvl ts e rest hN
  by_cases hl : lvl ≥ 5 <;> fun_cases parseRBin σ lvl n ts
  all_goals try simp only [hl, ↓reduceIte] at *
  sstep ih [factor, bin, binLoop]

theorem sstep_binLoop (T : TiledTab src σ N) {n} (ih : BelowS src σ N n) :
    ∀ lvl st j0 acc ts e rest, st = S σ j0 → ts.length < j0 → j0 ≤ N → Win src σ j0 (ts.length + 1) acc →
    parseRBinLoop σ lvl n st acc ts = some (e, rest) →
      rest.length ≤ ts.length ∧ Win src σ j0 (rest.length + 1) e ∧
      ((e = acc ∧ rest = ts) ∨ (rest.length < ts.length ∧ e.range = (S σ j0, E σ (rest.length + 1)))) := by
  intro lvl st j0 acc ts e rest h0 h1 h2 h3
  by_cases hl : lvl ≥ 5 <;> fun_cases parseRBinLoop σ lvl n st acc ts
  all_goals try simp only [hl, ↓reduceIte] at *
  sstep ih [factor, bin, binLoop]

theorem sstep_factor (T : TiledTab src σ N) {n} (ih : BelowS src σ N n) :
    ∀ ts e rest, ts.length ≤ N → parseRFactor σ n ts = some (e, rest) → PostE src σ ts e rest := by
  intro ts e rest hN
  fun_cases parseRFactor σ n ts
  sstep ih [factor, power]

theorem sstep_power (T : TiledTab src σ N) {n} (ih : BelowS src σ N n) :
    ∀ ts e rest, ts.length ≤ N → parseRPower σ n ts = some (e, rest) → PostE src σ ts e rest := by
  intro ts e rest hN
  fun_cases parseRPower σ n ts
  sstep ih [factor, atomExpr]

theorem sstep_atomExpr (T : TiledTab src σ N) {n} (ih : BelowS src σ N n) :
    ∀ ts e rest, ts.length ≤ N → parseRAtomExpr σ n ts = some (e, rest) → PostE src σ ts e rest := by
  intro ts e rest hN
  fun_cases parseRAtomExpr σ n ts
  sstep ih [atomExpr2]

theorem sstep_atomExpr2 (T : TiledTab src σ N) {n} (ih : BelowS src σ N n) :
    ∀ ts e rest, ts.length ≤ N → parseRAtomExpr2 σ n ts = some (e, rest) → PostE src σ ts e rest := by
  intro ts e rest hN
  fun_cases parseRAtomExpr2 σ n ts
  sstep ih [atom, trailers]

theorem sstep_trailers (T : TiledTab src σ N) {n} (ih : BelowS src σ N n) :
    ∀ st j0 acc ts e rest, st = S σ j0 → ts.length < j0 → j0 ≤ N → Win src σ j0 (ts.length + 1) acc →
    parseRTrailers σ n st acc ts = some (e, rest) →
      rest.length ≤ ts.length ∧ Win src σ j0 (rest.length + 1) e ∧
      ((e = acc ∧ rest = ts) ∨ (rest.length < ts.length ∧ e.range = (S σ j0, E σ (rest.length + 1)))) := by
  intro st j0 acc ts e rest h0 h1 h2 h3
  fun_cases parseRTrailers σ n st acc ts
  sstep ih [args0, subscriptList, trailers]

theorem sstep_args (T : TiledTab src σ N) {n} (ih : BelowS src σ N n) :
    ∀ ts as ks d as' ks' rest jl, SeqI src σ jl (ts.length + 1) as → SeqK src σ jl (ts.length + 1) ks →
    ts.length + 1 ≤ jl → jl ≤ N → parseRArgs σ n ts as ks d = some ((as', ks'), rest) →
      rest.length < ts.length ∧ SeqI src σ jl (rest.length + 2) as' ∧ SeqK src σ jl (rest.length + 2) ks' := by
  intro ts as ks d as' ks' rest jl hs hk hj hN
  fun_cases parseRArgs σ n ts as ks d
  sstep ih [arg, args]

theorem sstep_args0 (T : TiledTab src σ N) {n} (ih : BelowS src σ N n) :
    ∀ ts as' ks' rest, ts.length + 1 ≤ N → parseRArgs σ n ts [] [] false = some ((as', ks'), rest) →
    rest.length < ts.length ∧ SeqI src σ (ts.length + 1) (rest.length + 2) as' ∧
      SeqK src σ (ts.length + 1) (rest.length + 2) ks' :=
  fun ts as' ks' rest hN h =>
    sstep_args T ih ts [] [] false as' ks' rest (ts.length + 1) seqI_nil seqK_nil (Nat.le_refl _) hN h

theorem sstep_arg (T : TiledTab src σ N) {n} (ih : BelowS src σ N n) :
    ∀ ts as ks d as' ks' d' rest jl, SeqI src σ jl (ts.length + 1) as → SeqK src σ jl (ts.length + 1) ks →
    ts.length + 1 ≤ jl → jl ≤ N → parseRArg σ n ts as ks d = some (as', ks', d', rest) →
      rest.length < ts.length ∧ SeqI src σ jl (rest.length + 1) as' ∧ SeqK src σ jl (rest.length + 1) ks' := by
  intro ts as ks d as' ks' d' rest jl hs hk hj hN
  fun_cases parseRArg σ n ts as ks d
  sstep ih [test, namedTest, compFor]

theorem sstep_subscriptList (T : TiledTab src σ N) {n} (ih : BelowS src σ N n) :
    ∀ ts e rest, ts.length ≤ N → parseRSubscriptList σ n ts = some (e, rest) →
    rest.length + 2 ≤ ts.length ∧ Win src σ ts.length (rest.length + 2) e := by
  intro ts e rest hN
  fun_cases parseRSubscriptList σ n ts
  sstep ih [subscript, subscripts]

theorem sstep_subscripts (T : TiledTab src σ N) {n} (ih : BelowS src σ N n) :
    ∀ ts es rest, ts.length ≤ N → parseRSubscripts σ n ts = some (es, rest) →
    rest.length + 2 ≤ ts.length ∧ SeqI src σ ts.length (rest.length + 2) es := by
  intro ts es rest hN
  fun_cases parseRSubscripts σ n ts
  sstep ih [subscript, subscripts]

theorem sstep_subscript (T : TiledTab src σ N) {n} (ih : BelowS src σ N n) :
    ∀ ts e rest, ts.length ≤ N → parseRSubscript σ n ts = some (e, rest) → PostE src σ ts e rest := by
  intro ts e rest hN
  fun_cases parseRSubscript σ n ts
  sstep ih [sliceRest, starOrNamed, namedTest, test]

theorem sstep_atom (T : TiledTab src σ N) {n} (ih : BelowS src σ N n) :
    ∀ ts e rest, ts.length ≤ N → parseRAtom σ n ts = some (e, rest) → PostE src σ ts e rest := by
  intro ts e rest hN
  fun_cases parseRAtom σ n ts
  sstep ih [strings, listAtom, parenAtom, braceAtom]

theorem sstep_listAtom (T : TiledTab src σ N) {n} (ih : BelowS src σ N n) :
    ∀ ts e rest, ts.length + 1 ≤ N → parseRListAtom σ n ts = some (e, rest) →
    rest.length < ts.length ∧ Win src σ (ts.length + 1) (rest.length + 1) e ∧
      e.range = (S σ (ts.length + 1), E σ (rest.length + 1)) := by
  intro ts e rest hN
  fun_cases parseRListAtom σ n ts
  sstep ih [starOrNamed, compFor, elems]

theorem sstep_parenAtom (T : TiledTab src σ N) {n} (ih : BelowS src σ N n) :
    ∀ ts e rest, ts.length + 1 ≤ N → parseRParenAtom σ n ts = some (e, rest) →
    rest.length < ts.length ∧ Win src σ (ts.length + 1) (rest.length + 1) e ∧
      (e.range = (S σ (ts.length + 1), E σ (rest.length + 1)) ∨ Ext σ ts (.op .rpar :: rest) e) := by
  intro ts e rest hN
  fun_cases parseRParenAtom σ n ts
  sstep ih [starOrNamed, compFor, elems, yieldAtom]

theorem sstep_yieldAtom (T : TiledTab src σ N) {n} (ih : BelowS src σ N n) :
    ∀ ts e rest, ts.length + 2 ≤ N → parseRYieldAtom σ n ts = some (e, rest) →
    rest.length < ts.length ∧ Win src σ (ts.length + 1) (rest.length + 2) e ∧
      e.range = (S σ (ts.length + 1), E σ (rest.length + 2)) := by
  intro ts e rest hN
  fun_cases parseRYieldAtom σ n ts
  sstep ih [test, testList]

theorem sstep_braceAtom (T : TiledTab src σ N) {n} (ih : BelowS src σ N n) :
    ∀ ts e rest, ts.length + 1 ≤ N → parseRBraceAtom σ n ts = some (e, rest) →
    rest.length < ts.length ∧ Win src σ (ts.length + 1) (rest.length + 1) e ∧
      e.range = (S σ (ts.length + 1), E σ (rest.length + 1)) := by
  intro ts e rest hN
  fun_cases parseRBraceAtom σ n ts
  sstep ih [bin, dictRest, braceFirst, test, compFor, elems]

theorem sstep_braceFirst (T : TiledTab src σ N) {n} (ih : BelowS src σ N n) :
    ∀ ts e b rest, ts.length ≤ N → parseRBraceFirst σ n ts = some (e, b, rest) →
    rest.length < ts.length ∧ Win src σ ts.length (rest.length + 1) e := by
  intro ts e b rest hN
  fun_cases parseRBraceFirst σ n ts
  sstep ih [starOrNamed, namedTest, test]

theorem sstep_elems (T : TiledTab src σ N) {n} (ih : BelowS src σ N n) :
    ∀ close ts es tc rest, ts.length + 1 ≤ N → parseRElems σ n close ts = some ((es, tc), rest) →
    rest.length < ts.length ∧ SeqI src σ ts.length (rest.length + 2) es ∧
      (es = [] → tc = false → ts = .op close :: rest) := by
  intro close ts es tc rest hN
  fun_cases parseRElems σ n close ts
  sstep ih [starOrNamed, elems]

theorem sstep_dictRest (T : TiledTab src σ N) {n} (ih : BelowS src σ N n) :
    ∀ ts is rest, ts.length + 1 ≤ N → parseRDictRest σ n ts = some (is, rest) →
    rest.length < ts.length ∧ SeqD src σ ts.length (rest.length + 2) is := by
  intro ts is rest hN
  fun_cases parseRDictRest σ n ts
  sstep ih [bin, dictRest, test]

theorem sstep_compFor (T : TiledTab src σ N) {n} (ih : BelowS src σ N n) :
    ∀ ts gs rest, ts.length ≤ N → parseRCompFor σ n ts = some (gs, rest) →
    rest.length < ts.length ∧ SeqC src σ ts.length (rest.length + 1) gs := by
  intro ts gs rest hN
  fun_cases parseRCompFor σ n ts
  sstep ih [targetList, orTest, compIfs, compFor]

theorem sstep_compIfs (T : TiledTab src σ N) {n} (ih : BelowS src σ N n) :
    ∀ ts es rest, ts.length ≤ N → parseRCompIfs σ n ts = some (es, rest) →
    rest.length ≤ ts.length ∧ SeqI src σ ts.length (rest.length + 1) es ∧ (rest.length = ts.length → es = []) := by
  intro ts es rest hN
  fun_cases parseRCompIfs σ n ts
  sstep ih [orTest, compIfs]

theorem sstep_exprOrStar (T : TiledTab src σ N) {n} (ih : BelowS src σ N n) :
    ∀ ts e rest, ts.length ≤ N → parseRExprOrStar σ n ts = some (e, rest) → PostE src σ ts e rest := by
  intro ts e rest hN
  fun_cases parseRExprOrStar σ n ts
  sstep ih [bin]

theorem sstep_targetList (T : TiledTab src σ N) {n} (ih : BelowS src σ N n) :
    ∀ ts e rest, ts.length ≤ N → parseRTargetList σ n ts = some (e, rest) → PostE src σ ts e rest := by
  intro ts e rest hN
  fun_cases parseRTargetList σ n ts
  sstep ih [exprOrStar, targetRest]

theorem sstep_targetRest (T : TiledTab src σ N) {n} (ih : BelowS src σ N n) :
    ∀ ts es rest, ts.length ≤ N → parseRTargetRest σ n ts = some (es, rest) →
    rest.length ≤ ts.length ∧ SeqI src σ ts.length (rest.length + 1) es ∧ (rest.length = ts.length → es = []) := by
  intro ts es rest hN
  fun_cases parseRTargetRest σ n ts
  sstep ih [exprOrStar, targetRest]

theorem sstep_testList (T : TiledTab src σ N) {n} (ih : BelowS src σ N n) :
    ∀ ts e rest, ts.length ≤ N → parseRTestList σ n ts = some (e, rest) → PostE src σ ts e rest := by
  intro ts e rest hN
  fun_cases parseRTestList σ n ts
  sstep ih [testOrStar, testListRest]

theorem sstep_testListRest (T : TiledTab src σ N) {n} (ih : BelowS src σ N n) :
    ∀ ts es rest, ts.length ≤ N → parseRTestListRest σ n ts = some (es, rest) →
    rest.length ≤ ts.length ∧ SeqI src σ ts.length (rest.length + 1) es ∧ (rest.length = ts.length → es = []) := by
  intro ts es rest hN
  fun_cases parseRTestListRest σ n ts
  sstep ih [testOrStar, testListRest]

theorem sstep_lambda (T : TiledTab src σ N) {n} (ih : BelowS src σ N n) :
    ∀ ts e rest, ts.length + 1 ≤ N → parseRLambda σ n ts = some (e, rest) →
    rest.length < ts.length ∧ Win src σ (ts.length + 1) (rest.length + 1) e ∧
      e.range = (S σ (ts.length + 1), E σ (rest.length + 1)) := by
  intro ts e rest hN
  have hP := pinv_empty src σ ts.length (ts.length + 1)
  by_cases hc : ∃ tl, ts = .op .colon :: tl
  · -- no parameter list: the `Arguments` node is the empty range at the end of the keyword token
    obtain ⟨tl, rfl⟩ := hc
    intro h
    cases n with
    | zero => simp [parseRLambda] at h
    | succ f =>
      have ih := ih _ rfl
      rw [parseRLambda.eq_def] at h
      simp only [] at h
      split at h
      · rename_i ps r hps
        obtain ⟨q1, _, q3, _⟩ := ih.params _ _ _ _ _ _ hP (Nat.le_refl _) hN hps
        have hps' : ps = {} := q3 ⟨tl, rfl⟩
        subst hps'
        split at h
        · split at h
          · rename_i body r' hb
            simp only [Option.some.injEq, Prod.mk.injEq] at h
            obtain ⟨rfl, rfl⟩ := h
            simp only [List.length_cons] at hN q1
            obtain ⟨g1, g2, _⟩ := ih.test _ _ _ (by omega) hb
            simp only [List.length_cons] at g1 g2 ⊢
            refine ⟨by omega, ?_, rfl⟩
            exact own_lambda_empty T (by omega) (by omega) (by omega) rfl g2 (by omega) (by omega) (by omega) (by omega)
          · cases h
        · cases h
      · cases h
  · have hc' : ∀ tl, ts ≠ .op .colon :: tl := fun tl h => hc ⟨tl, h⟩
    fun_cases parseRLambda σ n ts
    sstep ih [params, test]

/-! ### the three functions whose definitions bind intermediate results with `let` -/

theorem rs_not_plain {lo hi : Nat} {e : RExpr} (hp : plain e = false) (h : lo ≤ hi) : RS src lo hi e :=
  ⟨h, fun hp' => by rw [hp] at hp'; cases hp'⟩

theorem dropWhile_len {α} (p : α → Bool) (l : List α) : (l.dropWhile p).length ≤ l.length := by
  induction l with
  | nil => simp
  | cons x xs ih => simp only [List.dropWhile]; split <;> simp <;> omega

theorem sstep_strings (T : TiledTab src σ N) {n} (_ih : BelowS src σ N n) :
    ∀ t r e rest, (t :: r).length ≤ N → isStringTok t = true →
    parseRStrings σ n (t :: r) = some (e, rest) → PostE src σ (t :: r) e rest := by
  intro t r e rest hN ht h
  cases n with
  | zero => simp [parseRStrings] at h
  | succ f =>
    rw [parseRStrings.eq_def] at h
    simp only [List.dropWhile, ht, List.takeWhile] at h
    have hd := dropWhile_len isStringTok r
    simp only [List.length_cons] at hN
    have hw : Win src σ (r.length + 1) ((List.dropWhile isStringTok r).length + 1)
        (.const (S σ (r.length + 1), E σ ((List.dropWhile isStringTok r).length + 1)) (.none)) :=
      own_const' T (by omega) (by omega) (by omega)
    have hle := hw.1
    split at h
    · split at h
      · cases h
      · simp only [Option.some.injEq, Prod.mk.injEq] at h
        obtain ⟨rfl, rfl⟩ := h
        refine ⟨by simp only [List.length_cons]; omega, ?_, .exact (by simp [RExpr.range, L, R, S, E])⟩
        exact own_const' T (by omega) (by simp only [List.length_cons]; omega) (by simp only [List.length_cons]; omega)
    · split at h
      · simp only [Option.some.injEq, Prod.mk.injEq] at h
        obtain ⟨rfl, rfl⟩ := h
        refine ⟨by simp only [List.length_cons]; omega, ?_, .exact (by simp [RExpr.range, L, R, S, E])⟩
        exact own_const' T (by omega) (by simp only [List.length_cons]; omega) (by simp only [List.length_cons]; omega)
      · split at h
        · simp only [Option.some.injEq, Prod.mk.injEq] at h
          obtain ⟨rfl, rfl⟩ := h
          refine ⟨by simp only [List.length_cons]; omega, ?_, .exact (by simp [RExpr.range, L, R, S, E])⟩
          exact rs_not_plain (by simp [plain]) (by simpa [Win, RS, L, R, S, E] using hle)
        · cases h

theorem argItems_snoc_args (po ar : List RParam) (a : RParam) :
    argItems po (ar ++ [a]) none [] none = argItems po ar none [] none ++ [.param "args" a] := by
  simp [argItems]
theorem argItems_snoc_kwonly (po ar : List RParam) (va : Option (Rg × Ident)) (ko : List RParam) (a : RParam) :
    argItems po ar va (ko ++ [a]) none = argItems po ar va ko none ++ [.param "kwonlyargs" a] := by
  simp [argItems]
theorem argItems_vararg (po ar : List RParam) (v : Rg × Ident) :
    argItems po ar (some v) [] none = argItems po ar none [] none ++ [.arg "vararg" v] := by
  simp [argItems]
theorem argItems_kwarg (po ar : List RParam) (va : Option (Rg × Ident)) (ko : List RParam) (v : Rg × Ident) :
    argItems po ar va ko (some v) = argItems po ar va ko none ++ [.arg "kwarg" v] := by
  simp [argItems]

/-- one item of a parameter list keeps the invariant -/
theorem itemR_spec (T : TiledTab src σ N) {f} (ih : SoundAt src σ N f) {ts ps ph ps' ph' r j0}
    (hP : PInv src σ j0 (ts.length + 1) ph ps) (hj : ts.length ≤ j0) (hN : j0 + 1 ≤ N)
    (h : itemR σ f ts ps ph = some (ps', ph', r)) :
    r.length < ts.length ∧ PInv src σ j0 (r.length + 1) ph' ps' := by
  obtain ⟨hs, c0, c1, c2⟩ := hP
  unfold itemR at h
  split at h
  · -- name = default
    rename_i n r0
    simp only [List.length_cons] at hs hj h
    split at h
    · rename_i hph
      split at h
      · rename_i d r' hd
        obtain ⟨g1, g2, _⟩ := ih.test _ _ _ (by omega) hd
        have hitem : ∀ s, RSI src (σ (r0.length + 1 + 1)).1 (σ (r'.length + 1)).2
            (.param s (.mk ((σ (r0.length + 1 + 1)).1, d.range.2) (σ (r0.length + 1 + 1)) n (some d))) :=
          fun s => rsi_param_default T (by omega) (by omega) (by omega) (by omega) g2
        have hkw := c2 (by omega)
        split at h <;> simp only [Option.some.injEq, Prod.mk.injEq] at h <;> obtain ⟨rfl, rfl, rfl⟩ := h
        · refine ⟨by simp only [List.length_cons]; omega, ?_, c0, fun hle => by omega, c2⟩
          simp only [hkw] at hs ⊢
          rw [argItems_snoc_kwonly]
          exact seqP_snoc_to T hs (hitem _) (by omega) (by omega) (by omega) (by omega) (by omega) (by omega) (by omega) (by omega)
        · rename_i hne
          obtain ⟨v0, k0⟩ := c1 (by omega)
          refine ⟨by simp only [List.length_cons]; omega, ?_, c0, fun _ => ⟨v0, k0⟩, c2⟩
          simp only [hkw, v0, k0] at hs ⊢
          rw [argItems_snoc_args]
          exact seqP_snoc_to T hs (hitem _) (by omega) (by omega) (by omega) (by omega) (by omega) (by omega) (by omega) (by omega)
      · cases h
    · cases h
  · -- bare name
    rename_i n r0 hne
    simp only [List.length_cons] at hs hj h
    have hitem : ∀ s, RSI src (σ (r0.length + 1)).1 (σ (r0.length + 1)).2
        (.param s (.mk (σ (r0.length + 1)) (σ (r0.length + 1)) n none)) :=
      fun s => rsi_param T (by omega) (by omega)
    split at h
    · rename_i hph
      simp only [Option.some.injEq, Prod.mk.injEq] at h; obtain ⟨rfl, rfl, rfl⟩ := h
      have hkw := c2 (by omega)
      refine ⟨by simp only [List.length_cons]; omega, ?_, c0, fun hle => by omega, c2⟩
      simp only [hkw] at hs ⊢
      rw [argItems_snoc_kwonly]
      exact seqP_snoc T hs (hitem _) (by omega) (by omega) (by omega) (by omega) (by omega) (by omega) (by omega)
    · split at h
      · rename_i hph
        simp only [Option.some.injEq, Prod.mk.injEq] at h; obtain ⟨rfl, rfl, rfl⟩ := h
        have hkw := c2 (by omega)
        obtain ⟨v0, k0⟩ := c1 (by omega)
        refine ⟨by simp only [List.length_cons]; omega, ?_, c0, fun _ => ⟨v0, k0⟩, c2⟩
        simp only [hkw, v0, k0] at hs ⊢
        rw [argItems_snoc_args]
        exact seqP_snoc T hs (hitem _) (by omega) (by omega) (by omega) (by omega) (by omega) (by omega) (by omega)
      · cases h
  · -- "/"
    rename_i r0
    simp only [List.length_cons] at hs hj
    split at h
    · rename_i hph
      simp only [Option.some.injEq, Prod.mk.injEq] at h; obtain ⟨rfl, rfl, rfl⟩ := h
      have hpo := c0 hph.1
      have hkw := c2 (by omega)
      obtain ⟨v0, k0⟩ := c1 (by omega)
      refine ⟨by simp only [List.length_cons]; omega, ?_, fun h => by omega, fun _ => ⟨v0, k0⟩, fun _ => hkw⟩
      simp only [hpo, hkw, v0, k0, argItems, List.map_nil, List.nil_append, Option.map_none, Option.toList_none,
        List.append_nil] at hs ⊢
      exact seqP_mono T (seq_relabel "args" "posonlyargs" hs) (by omega) (by omega) (by omega)
    · cases h
  · -- "*" name
    rename_i n r0
    simp only [List.length_cons] at hs hj
    split at h
    · rename_i hph
      simp only [Option.some.injEq, Prod.mk.injEq] at h; obtain ⟨rfl, rfl, rfl⟩ := h
      have hkw := c2 (by omega)
      obtain ⟨v0, k0⟩ := c1 (by omega)
      refine ⟨by simp only [List.length_cons]; omega, ?_, fun h => by omega, fun h => by omega, fun _ => hkw⟩
      simp only [hkw, v0, k0] at hs ⊢
      rw [argItems_vararg]
      exact seqP_snoc T hs (rsi_arg T (by omega) (by omega)) (by omega) (by omega) (by omega) (by omega) (by omega)
        (by omega) (by omega)
    · cases h
  · -- bare "*"
    rename_i r0 hne
    simp only [List.length_cons] at hs hj
    split at h
    · rename_i hph
      simp only [Option.some.injEq, Prod.mk.injEq] at h; obtain ⟨rfl, rfl, rfl⟩ := h
      exact ⟨by simp only [List.length_cons]; omega, seqP_mono T hs (by omega) (by omega) (by omega),
        fun h => by omega, fun h => by omega, fun _ => c2 (by omega)⟩
    · cases h
  · -- "**" name
    rename_i n r0
    simp only [List.length_cons] at hs hj
    split at h
    · rename_i hph
      simp only [Option.some.injEq, Prod.mk.injEq] at h; obtain ⟨rfl, rfl, rfl⟩ := h
      have hkw := c2 hph
      refine ⟨by simp only [List.length_cons]; omega, ?_, fun h => by omega, fun h => by omega, fun h => by omega⟩
      simp only [hkw] at hs ⊢
      rw [argItems_kwarg]
      exact seqP_snoc T hs (rsi_arg T (by omega) (by omega)) (by omega) (by omega) (by omega) (by omega) (by omega)
        (by omega) (by omega)
    · cases h
  · -- bare "**"
    rename_i r0 hne
    simp only [List.length_cons] at hs hj
    split at h
    · rename_i hph
      simp only [Option.some.injEq, Prod.mk.injEq] at h; obtain ⟨rfl, rfl, rfl⟩ := h
      exact ⟨by simp only [List.length_cons]; omega, seqP_mono T hs (by omega) (by omega) (by omega),
        fun h => by omega, fun h => by omega, fun h => by omega⟩
    · cases h
  · cases h

theorem pinv_mono (T : TiledTab src σ N) {j0 k k' ph : Nat} {ps : RParams} (h : PInv src σ j0 k ph ps) (hk : k' ≤ k)
    (h1 : 1 ≤ k') (h2 : k ≤ N) : PInv src σ j0 k' ph ps :=
  ⟨seqP_mono T h.1 hk h1 h2, h.2⟩

theorem sstep_params (T : TiledTab src σ N) {n} (ih : BelowS src σ N n) :
    ∀ ts ps ph ps' rest j0, PInv src σ j0 (ts.length + 1) ph ps → ts.length ≤ j0 → j0 + 1 ≤ N →
    parseRParams σ n ts ps ph = some (ps', rest) →
    rest.length ≤ ts.length ∧ ((∀ r, ts ≠ .op .colon :: r) → rest.length < ts.length) ∧
      ((∃ r, ts = .op .colon :: r) → ps' = ps) ∧ ∃ ph', PInv src σ j0 (rest.length + 1) ph' ps' := by
  intro ts ps ph ps' rest j0 hP hj hN h
  cases n with
  | zero => simp [parseRParams] at h
  | succ f =>
    have ih := ih _ rfl
    by_cases hc : ∃ r, ts = .op .colon :: r
    · obtain ⟨r, rfl⟩ := hc
      simp only [parseRParams, Option.some.injEq, Prod.mk.injEq] at h
      obtain ⟨rfl, rfl⟩ := h
      exact ⟨Nat.le_refl _, fun hne => absurd rfl (hne r), fun _ => rfl, ph, hP⟩
    · have hc' : ∀ r, ts = .op .colon :: r → False := fun r h => hc ⟨r, h⟩
      rw [paramsR_unfold σ f ts ps ph hc'] at h
      cases hi : itemR σ f ts ps ph with
      | none => simp [hi, tailR] at h
      | some p =>
        obtain ⟨ps1, ph1, r⟩ := p
        obtain ⟨hl, hP1⟩ := itemR_spec T ih hP hj hN hi
        rw [hi] at h
        simp only [tailR] at h
        have key : rest.length < ts.length ∧ ∃ ph', PInv src σ j0 (rest.length + 1) ph' ps' := by
          split at h
          · split at h
            · simp only [Option.some.injEq, Prod.mk.injEq] at h; obtain ⟨rfl, rfl⟩ := h
              simp only [List.length_cons] at hl hP1 ⊢
              exact ⟨by omega, ph1, pinv_mono T hP1 (by omega) (by omega) (by omega)⟩
            · cases h
          · rename_i r2 hne
            simp only [List.length_cons] at hl hP1
            obtain ⟨g1, _, _, ph', g4⟩ := ih.params _ _ _ _ _ j0 (pinv_mono T hP1 (by omega) (by omega) (by omega))
              (by omega) hN h
            exact ⟨by omega, ph', g4⟩
          · split at h
            · simp only [Option.some.injEq, Prod.mk.injEq] at h; obtain ⟨rfl, rfl⟩ := h
              exact ⟨hl, ph1, hP1⟩
            · cases h
          · cases h
        exact ⟨by omega, fun _ => key.1, fun hex => absurd hex hc, key.2⟩

/-- the upper bound of a slice, as `parseRSliceRest` computes it (same text) -/
def sliceUp (σ : SpanTab) (f : Nat) (r : List Tok) : Option (Option RExpr × List Tok) :=
  match r with
  | .op .colon :: _ => some (none, r)
  | .op .rsqb :: _ => some (none, r)
  | .op .comma :: _ => some (none, r)
  | _ => (match parseRTest σ f r with
          | some (e, r') => some (some e, r')
          | none => none)

theorem sliceUp_spec {f r upper r2} (h : sliceUp σ f r = some (upper, r2)) :
    (upper = none ∧ r2 = r) ∨ ∃ e, upper = some e ∧ parseRTest σ f r = some (e, r2) := by
  unfold sliceUp at h
  split at h
  · simp at h; left; exact ⟨h.1.symm, h.2.symm⟩
  · simp at h; left; exact ⟨h.1.symm, h.2.symm⟩
  · simp at h; left; exact ⟨h.1.symm, h.2.symm⟩
  · split at h
    · rename_i e r' he
      simp at h; right; exact ⟨e, h.1.symm, by rw [he, h.2]⟩
    · cases h

/-- the rest of `parseRSliceRest` once the upper bound is known (same text) -/
def sliceTail (σ : SpanTab) (f st : Nat) (lower : Option RExpr) (up : Option (Option RExpr × List Tok)) : PR RExpr :=
  match up with
  | none => none
  | some (upper, .op .colon :: r2) =>
    (match r2 with
     | .op .rsqb :: _ => some (.slice (st, R σ r2) lower upper none, r2)
     | .op .comma :: _ => some (.slice (st, R σ r2) lower upper none, r2)
     | _ => (match parseRTest σ f r2 with
             | some (stp, r3) => some (.slice (st, R σ r3) lower upper (some stp), r3)
             | none => none))
  | some (upper, r2) => some (.slice (st, R σ r2) lower upper none, r2)

theorem sliceRest_unfold (f st : Nat) (lower : Option RExpr) (r : List Tok) :
    parseRSliceRest σ (f + 1) st lower (.op .colon :: r) = sliceTail σ f st lower (sliceUp σ f r) := by
  rw [parseRSliceRest.eq_def]
  rfl

theorem sstep_sliceRest (T : TiledTab src σ N) {n} (ih : BelowS src σ N n) :
    ∀ st j0 lower ts e rest, st = S σ j0 → ts.length ≤ j0 → j0 ≤ N → (lower = none → j0 = ts.length) →
    (∀ l, lower = some l → ts.length < j0 ∧ Win src σ j0 (ts.length + 1) l) →
    parseRSliceRest σ n st lower ts = some (e, rest) →
      rest.length < ts.length ∧ Win src σ j0 (rest.length + 1) e ∧
        e.range = (S σ j0, E σ (rest.length + 1)) := by
  intro st j0 lower ts e rest h0 h1 h2 h3 h4 h
  cases n with
  | zero => simp [parseRSliceRest] at h
  | succ f =>
    have ih := ih _ rfl
    by_cases hc : ∃ r, ts = .op .colon :: r
    · obtain ⟨r, rfl⟩ := hc
      rw [sliceRest_unfold] at h
      simp only [List.length_cons] at h1 h3 h4 ⊢
      subst h0
      cases hu : sliceUp σ f r with
      | none => simp [hu, sliceTail] at h
      | some p =>
        obtain ⟨upper, r2⟩ := p
        rw [hu] at h
        -- what the upper bound is
        have hup : r2.length ≤ r.length ∧
            (∀ u, upper = some u → Win src σ r.length (r2.length + 1) u ∧ r2.length < r.length) := by
          rcases sliceUp_spec hu with ⟨rfl, rfl⟩ | ⟨u, rfl, hu'⟩
          · exact ⟨Nat.le_refl _, fun u hu => by cases hu⟩
          · obtain ⟨g1, g2, _⟩ := ih.test _ _ _ (by omega) hu'
            exact ⟨by omega, fun u' hu'' => by cases hu''; exact ⟨g2, g1⟩⟩
        -- the node for a result cursor `r3` not before `r2`
        have build : ∀ (step : Option RExpr) (r3 : List Tok), r3.length ≤ r2.length →
            (∀ s, step = some s → Win src σ j0 (r3.length + 1) s) →
            Win src σ j0 (r3.length + 1) (.slice (S σ j0, E σ (r3.length + 1)) lower upper step) := by
          intro step r3 hr3 hs
          refine own_slice T (by omega) (by omega) h2 ?_ ?_ hs
          · intro l hl
            obtain ⟨g0, g⟩ := h4 l hl
            exact Win.mono T g (Nat.le_refl _) (by omega) (by omega) (by omega) h2 (by omega)
          · intro u hu
            obtain ⟨g, g'⟩ := hup.2 u hu
            exact Win.mono T g (by omega) (by omega) (by omega) (by omega) h2 (by omega)
        simp only [sliceTail] at h
        split at h
        · cases h
        · rename_i heq
          simp only [Option.some.injEq, Prod.mk.injEq] at heq
          obtain ⟨rfl, rfl⟩ := heq
          simp only [List.length_cons] at hup build
          split at h
          · simp only [Option.some.injEq, Prod.mk.injEq] at h; obtain ⟨rfl, rfl⟩ := h
            exact ⟨by omega, build none _ (by omega) (fun s hs => by cases hs), rfl⟩
          · simp only [Option.some.injEq, Prod.mk.injEq] at h; obtain ⟨rfl, rfl⟩ := h
            exact ⟨by omega, build none _ (by omega) (fun s hs => by cases hs), rfl⟩
          · split at h
            · rename_i stp r3 hst
              simp only [Option.some.injEq, Prod.mk.injEq] at h; obtain ⟨rfl, rfl⟩ := h
              obtain ⟨g1, g2, _⟩ := ih.test _ _ _ (by omega) hst
              refine ⟨by omega, build (some stp) _ (by omega) (fun s hs => ?_), rfl⟩
              cases hs
              exact Win.mono T g2 (by omega) (Nat.le_refl _) (by omega) (by omega) h2 (by omega)
            · cases h
        · rename_i heq
          simp only [Option.some.injEq, Prod.mk.injEq] at heq
          obtain ⟨rfl, rfl⟩ := heq
          simp only [Option.some.injEq, Prod.mk.injEq] at h; obtain ⟨rfl, rfl⟩ := h
          exact ⟨by omega, build none _ (Nat.le_refl _) (fun s hs => by cases hs), rfl⟩
    · have hc' : ∀ r, ts = .op .colon :: r → False := fun r h => hc ⟨r, h⟩
      rw [parseRSliceRest.eq_def] at h
      split at h
      · cases h
      · exact absurd rfl (fun hh => hc' _ hh)
      · cases h

theorem soundAt_of_below (T : TiledTab src σ N) {n : Nat} (b : BelowS src σ N n) : SoundAt src σ N n :=
  ⟨sstep_test T b, sstep_lambda T b, sstep_params T b, sstep_namedTest T b, sstep_starOrNamed T b, sstep_testOrStar T b, sstep_orTest T b, sstep_orRest T b, sstep_andTest T b, sstep_andRest T b, sstep_notTest T b, sstep_cmp T b, sstep_cmpRest T b, sstep_bin T b, sstep_binLoop T b, sstep_factor T b, sstep_power T b, sstep_atomExpr T b, sstep_atomExpr2 T b, sstep_trailers T b, sstep_args T b, sstep_arg T b, sstep_args0 T b, sstep_subscriptList T b, sstep_subscripts T b, sstep_subscript T b, sstep_sliceRest T b, sstep_atom T b, sstep_listAtom T b, sstep_parenAtom T b, sstep_yieldAtom T b, sstep_braceAtom T b, sstep_braceFirst T b, sstep_elems T b, sstep_dictRest T b, sstep_compFor T b, sstep_compIfs T b, sstep_exprOrStar T b, sstep_targetList T b, sstep_targetRest T b, sstep_testList T b, sstep_testListRest T b, sstep_strings T b⟩

/-- every function of the ranged parser meets its specification, at every fuel, for every tiled span table -/
theorem soundAt (T : TiledTab src σ N) : ∀ n, SoundAt src σ N n
  | 0 => soundAt_of_below T (fun f h => absurd h (by omega))
  | n + 1 => soundAt_of_below T (fun f h => by cases h; exact soundAt T n)

end PV.C02
