import PV.C02.RProgSyntax
import PV.C02.SoundNodes
/-
  PV.C02.RProgPlain — `plainS` …: no f-string piece anywhere in a ranged program tree (the domain of the
  range-structure theorem `parseRProgram_rangesOk_partial`), extending `PV.C02.plain` of expressions.
-/
namespace PV.C02
open PV.Expr PV.C11 PV.Prog

/-! ## `plain`: no f-string piece anywhere -/

def RArg.plain (a : RArg) : Bool := plainO a.annotation
def RArgD.plain (p : RArgD) : Bool := p.arg.plain && plainO p.default
def plainArgO : Option RArg → Bool
  | none => true
  | some a => a.plain
def RArguments.plain (a : RArguments) : Bool :=
  a.posonly.all RArgD.plain && a.args.all RArgD.plain && plainArgO a.vararg && a.kwonly.all RArgD.plain &&
    plainArgO a.kwarg
def RWithItem.plain (w : RWithItem) : Bool := PV.C02.plain w.contextExpr && plainO w.optionalVars
def RTypeParam.plain : RTypeParam → Bool
  | .typeVar _ _ b => plainO b
  | _ => true

mutual
def plainP : RPattern → Bool
  | .matchValue _ v => plain v
  | .matchSingleton _ _ => true
  | .matchSequence _ ps => plainPs ps
  | .matchMapping _ ks ps _ => plainL ks && plainPs ps
  | .matchClass _ c ps _ kps => plain c && plainPs ps && plainPs kps
  | .matchStar _ _ => true
  | .matchAs _ p _ => plainPO p
  | .matchOr _ ps => plainPs ps
def plainPs : List RPattern → Bool
  | [] => true
  | p :: ps => plainP p && plainPs ps
def plainPO : Option RPattern → Bool
  | none => true
  | some p => plainP p
end

mutual
def plainS : RStmt → Bool
  | .functionDef _ _ a b d r tp => a.plain && plainSs b && plainL d && plainO r && tp.all RTypeParam.plain
  | .asyncFunctionDef _ _ a b d r tp => a.plain && plainSs b && plainL d && plainO r && tp.all RTypeParam.plain
  | .classDef _ _ bs ks b d tp => plainL bs && plainKws ks && plainSs b && plainL d && tp.all RTypeParam.plain
  | .return _ v => plainO v
  | .delete _ ts => plainL ts
  | .assign _ ts v => plainL ts && plain v
  | .typeAlias _ n tp v => plain n && tp.all RTypeParam.plain && plain v
  | .augAssign _ t _ v => plain t && plain v
  | .annAssign _ t a v _ => plain t && plain a && plainO v
  | .for _ t i b o => plain t && plain i && plainSs b && plainSs o
  | .asyncFor _ t i b o => plain t && plain i && plainSs b && plainSs o
  | .while _ t b o => plain t && plainSs b && plainSs o
  | .if _ t b o => plain t && plainSs b && plainSs o
  | .with _ items b => items.all RWithItem.plain && plainSs b
  | .asyncWith _ items b => items.all RWithItem.plain && plainSs b
  | .match _ s cs => plain s && plainCs cs
  | .raise _ e c => plainO e && plainO c
  | .try _ b hs o f => plainSs b && plainHs hs && plainSs o && plainSs f
  | .tryStar _ b hs o f => plainSs b && plainHs hs && plainSs o && plainSs f
  | .assert _ t m => plain t && plainO m
  | .import _ _ => true
  | .importFrom _ _ _ _ => true
  | .global _ _ => true
  | .nonlocal _ _ => true
  | .expr _ e => plain e
  | .pass _ => true
  | .break _ => true
  | .continue _ => true
def plainSs : List RStmt → Bool
  | [] => true
  | s :: ss => plainS s && plainSs ss
def plainHs : List RHandler → Bool
  | [] => true
  | .mk _ ty _ b :: hs => plainO ty && plainSs b && plainHs hs
def plainCs : List RCase → Bool
  | [] => true
  | .mk _ p g b :: cs => plainP p && plainO g && plainSs b && plainCs cs
end

def plainM : RMod → Bool
  | .module _ b => plainSs b
  | .interactive _ b => plainSs b
  | .expression _ e => plain e

end PV.C02
