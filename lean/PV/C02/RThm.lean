import PV.C02.SoundSteps
import PV.C02.Lemmas
import PV.C05.Thm
/-
  C02 — property theorems about the MODEL of range computation `PV.C02.parseR` (PV/C02/RParse.lean), the ranged
  twin of the reference expression parser `PV.C11.parseRef`:

  * `parseR_erase`     erasing the ranges gives exactly `parseRef`'s result (so C11's round-trip theorems transfer);
  * `parseR_rangesOk_partial` / `parseRExpression_rangesOk_partial`
                       for token spans that tile the source (what C05 proves of the lexer model: `tiled_of_lexer`),
                       every `plain` tree the parser returns passes `rangesOk` — all five structural clauses of the
                       property, for every input and fuel, by induction over the parser (parameter defaults included
                       since the /repo fix of `ParameterDef`: `argwithdefault_regression`);
  * `parseR_extent`    the range of the returned node is the span of the tokens consumed, up to enclosing parentheses
                       that are returned through, and the `NamedExpr` deviation (listed finding);
  * kernel-checked witnesses that the model reproduces the listed deviations from the reference extents.
-/
namespace PV.C02
open PV.Expr PV.C11

/-! ### erasure -/

/-- Erasing the ranges from the ranged parser's result gives exactly the reference parser's result on the tokens
    without their spans, for every fuel and input: same acceptance, same tree, same rest. -/
theorem parseR_erase (fuel : Nat) (toks : List RTok) :
    (parseR fuel toks).map (fun p => (p.1.erase, p.2)) = parseRef fuel (toks.map (·.tok)) := by
  unfold parseR parseRef
  exact ((eraseAt fuel).test (spanTab toks) (toks.map (·.tok))).symm

/-- …and for whole-input parsing in expression mode -/
theorem parseRExpression_erase (toks : List RTok) :
    (parseRExpression toks).map RExpr.erase = parseExpression (toks.map (·.tok)) := by
  unfold parseRExpression parseExpression
  exact ((eraseAt _).top (spanTab toks) (toks.map (·.tok))).symm

/-- `a + 1` with spans 0..1, 2..3, 4..5: accepted, the whole input consumed, the `BinOp` ranged 0..5 -/
example : (parseR 40 [⟨.name [97], 0, 1⟩, ⟨.op .plus, 2, 3⟩, ⟨.int 1, 4, 5⟩]).map (fun p => (p.1.range, p.2.length)) =
    some ((0, 5), 0) := by decide

/-! ### tiled token spans -/

/-- The token spans tile the source: every span is a well-formed slice of `src` on UTF-8 character boundaries, and the
    tokens are in source order without overlap.  (This is what `PV.C05.tokens_in_bounds`, `tokens_on_boundaries` and
    `tokens_ordered_disjoint` state of the lexer model's output, see `tiled_of_spans` below.) -/
def Tiled (src : List Nat) (toks : List RTok) : Prop :=
  (∀ t ∈ toks, t.s ≤ t.e ∧ t.e ≤ src.length ∧ isBoundary src t.s = true ∧ isBoundary src t.e = true) ∧
  toks.Pairwise (fun a b => a.e ≤ b.s)

theorem tabOf_get (spans : List Rg) (k : Nat) (h1 : 1 ≤ k) (h2 : k ≤ spans.length) :
    tabOf spans k = spans[spans.length - k]'(by omega) := by
  unfold tabOf
  have : ¬(k = 0 ∨ k > spans.length) := by omega
  simp only [this, if_false, List.getD_eq_getElem?_getD]
  rw [List.getElem?_eq_getElem (by omega)]
  rfl

theorem tiledTab_of_tiled {src : List Nat} {toks : List RTok} (h : Tiled src toks) :
    TiledTab src (spanTab toks) toks.length := by
  obtain ⟨hown, hord⟩ := h
  have hlen : (toks.map fun t => (t.s, t.e)).length = toks.length := by simp
  refine ⟨fun k h1 h2 => ?_, fun j k h1 h2 h3 => ?_⟩
  · unfold spanTab
    rw [tabOf_get _ k h1 (by omega)]
    simp only [List.getElem_map, hlen]
    have := hown (toks[toks.length - k]'(by omega)) (List.getElem_mem _)
    rw [rgOk_iff]
    exact this
  · unfold spanTab
    rw [tabOf_get _ j (by omega) (by omega), tabOf_get _ k h1 (by omega)]
    simp only [List.getElem_map, hlen]
    exact List.pairwise_iff_getElem.mp hord (toks.length - j) (toks.length - k) (by omega) (by omega) (by omega)


/-! ### the hypothesis `Tiled` is what C05 proves of the lexer model -/

theorem encodeNat_head_lead (c : Nat) : ∀ x ∈ (PV.utf8EncodeNat c).head?, ¬(128 ≤ x ∧ x < 192) := by
  intro x hx
  unfold PV.utf8EncodeNat at hx
  split at hx
  · simp at hx; omega
  · split at hx
    · simp at hx; omega
    · split at hx <;> (simp at hx; omega)

theorem encodeNat_ne_nil (c : Nat) : PV.utf8EncodeNat c ≠ [] := by
  unfold PV.utf8EncodeNat; split <;> (try split) <;> (try split) <;> simp

theorem encode_head_lead : ∀ (l : List Nat), ∀ x ∈ (PV.utf8Encode l).head?, ¬(128 ≤ x ∧ x < 192)
  | [], x, hx => by simp [PV.utf8Encode] at hx
  | c :: cs, x, hx => by
    simp only [PV.utf8Encode, List.flatMap_cons] at hx
    have hne := encodeNat_ne_nil c
    cases he : PV.utf8EncodeNat c with
    | nil => exact absurd he hne
    | cons y ys =>
      rw [he] at hx
      exact encodeNat_head_lead c x (by rw [he]; simpa using hx)

theorem isBoundary_append (a b : List Nat) (hb : ∀ x ∈ b.head?, ¬(128 ≤ x ∧ x < 192)) :
    isBoundary (a ++ b) a.length = true := by
  unfold isBoundary
  rw [List.getElem?_append_right (Nat.le_refl _)]
  simp only [Nat.sub_self]
  cases b with
  | nil => simp
  | cons x xs =>
    have := hb x (by simp)
    simp only [List.getElem?_cons_zero, Bool.not_eq_eq_eq_not, Bool.not_true, Bool.and_eq_false_imp,
      decide_eq_true_eq, decide_eq_false_iff_not]
    omega

/-- a character boundary in the sense of C05 is a boundary in the sense of `rangesOk` -/
theorem onBoundary_isBoundary (src : List Nat) (b : Nat) (h : PV.C05.OnBoundary src b) :
    isBoundary (PV.utf8Encode src) b = true := by
  obtain ⟨i, _, rfl⟩ := h
  have : PV.utf8Encode src = PV.utf8Encode (src.take i) ++ PV.utf8Encode (src.drop i) := by
    conv => lhs; rw [← List.take_append_drop i src]
    simp only [PV.utf8Encode, List.flatMap_append]
  rw [this]
  exact isBoundary_append _ _ (encode_head_lead _)

/-- **Bridge to C05.**  For every source (a list of scalar values), lexer configuration and mode: the byte spans of any
    sub-sequence of the token stream of the lexer MODEL `PV.Lexer.lex` (started at offset 0) tile the UTF-8 encoding of
    the source in the sense of `Tiled`.  The statement is about spans only: the token VALUES of the two token types
    (`PV.Lexer.Tok` of the lexer model, `PV.Expr.Tok` of the expression fragment) are related by the C11 / C02
    correspondence streams, not by a theorem. -/
theorem tiled_of_lexer {cfg : PV.Lexer.Cfg} (hs : cfg.up.Sane) {mode : PV.Lexer.Mode} {src : List Nat}
    {out : PV.Lexer.LexOut} (h : PV.Lexer.lex cfg mode 0 src = some out) (toks : List RTok)
    (hsub : List.Sublist (toks.map fun t => (t.s, t.e)) (out.toks.map fun t => (t.bs, t.be))) :
    Tiled (PV.utf8Encode src) toks := by
  have hb := PV.C05.tokens_in_bounds hs h
  have hbd := PV.C05.tokens_on_boundaries hs h
  have hord := PV.C05.tokens_ordered_disjoint hs h
  have hpair : (out.toks.map fun t => (t.bs, t.be)).Pairwise (fun a b => a.2 ≤ b.1) := by
    rw [List.pairwise_map]
    exact hord.imp (fun h => h.2)
  have hall : ∀ p ∈ (out.toks.map fun t => (t.bs, t.be)), p.1 ≤ p.2 ∧ p.2 ≤ (PV.utf8Encode src).length ∧
      isBoundary (PV.utf8Encode src) p.1 = true ∧ isBoundary (PV.utf8Encode src) p.2 = true := by
    intro p hp
    obtain ⟨t, ht, rfl⟩ := List.mem_map.mp hp
    obtain ⟨_, _, _, g4, g5⟩ := hb t ht
    obtain ⟨_, _, g8, g9⟩ := hbd t ht
    rw [PV.C05.utf8Len_eq_encode] at g5
    exact ⟨g4, by omega, by simpa using onBoundary_isBoundary src _ g8, by simpa using onBoundary_isBoundary src _ g9⟩
  refine ⟨fun t ht => ?_, ?_⟩
  · exact hall (t.s, t.e) (hsub.subset (List.mem_map.mpr ⟨t, ht, rfl⟩))
  · have := hpair.sublist hsub
    rw [List.pairwise_map] at this
    exact this

/-! ### the trees the ranged parser returns pass `rangesOk` -/

/-- **Structural half of the property for the model, unbounded.**  For every source, every token list whose spans tile
    the source, every fuel: if the ranged parser accepts and the tree is `plain` (no f-string pieces), then the tree
    passes `rangesOk`: every node's range lies inside the input, on character boundaries, start ≤ end, encloses the
    ranges of all nodes beneath it — including the default value of a parameter, since the /repo fix of
    `ParameterDef` (former finding `argwithdefault-range-excludes-default`) — and the elements of every list field
    are in source order without overlap. -/
theorem parseR_rangesOk_partial {src : List Nat} {toks : List RTok} (h : Tiled src toks) {fuel : Nat} {e : RExpr}
    {rest : List Tok} (hp : parseR fuel toks = some (e, rest)) (hpl : plain e = true) :
    rangesOk src (e.toTree "body" false) = true := by
  have T := tiledTab_of_tiled h
  have hs := (soundAt T fuel).test (toks.map (·.tok)) e rest (by simp) (by unfold parseR at hp; exact hp)
  exact (hs.2.1.2 hpl).toOk_root "body" false

/-- the same for whole-input parsing in expression mode (`Mode::Expression`) -/
theorem parseRExpression_rangesOk_partial {src : List Nat} {toks : List RTok} (h : Tiled src toks) {e : RExpr}
    (hp : parseRExpression toks = some e) (hpl : plain e = true) : rangesOk src (e.toTree "body" false) = true := by
  have T := tiledTab_of_tiled h
  unfold parseRExpression at hp
  generalize fuelFor (toks.map (·.tok)) = fuel at hp
  cases fuel with
  | zero => simp [parseRTop] at hp
  | succ f =>
    rw [parseRTop.eq_def] at hp
    simp only at hp
    split at hp
    · rename_i e' heq
      cases hp
      have hs := (soundAt T f).testList (toks.map (·.tok)) e [] (by simp) heq
      exact (hs.2.1.2 hpl).toOk_root "body" false
    · cases hp

/-- non-vacuity: `f(é, k=1)` (bytes `66 28 c3 a9 2c 20 6b 3d 31 29`) is tiled by its seven tokens, parses, is plain -/
def exSrc : List Nat := [0x66, 0x28, 0xc3, 0xa9, 0x2c, 0x20, 0x6b, 0x3d, 0x31, 0x29]
def exToks : List RTok :=
  [⟨.name [102], 0, 1⟩, ⟨.op .lpar, 1, 2⟩, ⟨.name [233], 2, 4⟩, ⟨.op .comma, 4, 5⟩, ⟨.name [107], 6, 7⟩,
   ⟨.op .assign, 7, 8⟩, ⟨.int 1, 8, 9⟩, ⟨.op .rpar, 9, 10⟩]
example : Tiled exSrc exToks := by
  refine ⟨?_, ?_⟩
  · intro t ht
    simp only [exToks, List.mem_cons, List.not_mem_nil, or_false] at ht
    rcases ht with rfl | rfl | rfl | rfl | rfl | rfl | rfl | rfl <;> decide
  · simp [exToks]
example : ((parseRExpression exToks).map fun e => (e.range, plain e)) = some ((0, 10), true) := by decide
example : ((parseRExpression exToks).map fun e => rangesOk exSrc (e.toTree "body" false)) = some true := by decide

/-! ### parameter defaults (repaired in /repo): the `ArgWithDefault` encloses its default -/

/-- the structural clauses for EVERY tree of the fragment (what the property demands); `parseR_rangesOk_partial`
    proves it for the trees without f-string pieces — stated, neither proved nor refuted for the others -/
def parseR_rangesOk_full : Prop :=
  ∀ (src : List Nat) (toks : List RTok) (fuel : Nat) (e : RExpr) (rest : List Tok),
    Tiled src toks → parseR fuel toks = some (e, rest) → rangesOk src (e.toTree "body" false) = true

/-- `lambda a=1: a` -/
def defaultSrc : List Nat := [108, 97, 109, 98, 100, 97, 32, 97, 61, 49, 58, 32, 97]
def defaultToks : List RTok :=
  [⟨.kw .lambda, 0, 6⟩, ⟨.name [97], 7, 8⟩, ⟨.op .assign, 8, 9⟩, ⟨.int 1, 9, 10⟩, ⟨.op .colon, 10, 11⟩,
   ⟨.name [97], 12, 13⟩]

/-- the first `ArgWithDefault` of a lambda: (its range, the range of its `Arg`, the range of its default) -/
def firstParamRanges : RExpr → Option ((Nat × Nat) × (Nat × Nat) × Option (Nat × Nat))
  | .lambda _ _ _ (.mk rg drg _ d :: _) _ _ _ _ => some (rg, drg, d.map (·.range))
  | _ => none

/-- Former finding `argwithdefault-range-excludes-default`, now a regression example: `lambda a=1: a` is tiled by its
    tokens and accepted; the `ArgWithDefault` is ranged 7..10 (`a=1`: name 7..8, default 9..10 inside it) and the
    tree passes `rangesOk`.  Before the /repo fix the `ArgWithDefault` was 7..8 and `rangesOk` failed. -/
theorem argwithdefault_regression :
    ((parseR 40 defaultToks).map fun p => (rangesOk defaultSrc (p.1.toTree "body" false), plain p.1)) =
      some (true, true) ∧
    ((parseR 40 defaultToks).map fun p => firstParamRanges p.1) = some (some ((7, 10), (7, 8), some (9, 10))) := by
  constructor <;> decide

/-- `lambda a=(1): a` -/
def parenDefaultToks : List RTok :=
  [⟨.kw .lambda, 0, 6⟩, ⟨.name [97], 7, 8⟩, ⟨.op .assign, 8, 9⟩, ⟨.op .lpar, 9, 10⟩, ⟨.int 1, 10, 11⟩,
   ⟨.op .rpar, 11, 12⟩, ⟨.op .colon, 12, 13⟩, ⟨.name [97], 14, 15⟩]

/-- Listed finding `argwithdefault-range-excludes-default-closing-parenthesis` (what is left of the repaired one),
    reproduced by the model: the `ArgWithDefault` ends at `default.end()`, the end of the default's NODE, so for a
    parenthesised default it is 7..11 = `a=(1` — it encloses its children (`rangesOk` holds) but its text is not the
    construct `a=(1)` 7..12. -/
theorem argwithdefault_parenthesised_default_witness :
    ((parseR 40 parenDefaultToks).map fun p => firstParamRanges p.1) =
      some (some ((7, 11), (7, 8), some (10, 11))) := by decide

/-! ### extents: the range of the returned node is the span of the tokens it was parsed from -/

/-- **Extent of the returned node.**  For tiled spans, whatever `parseR` returns for the tokens between the start of the
    input `toks` and the rest `rest` satisfies `Ext`: its range is exactly (start of the first token consumed, end of
    the last token consumed); or the tokens consumed are `( … )` and the node returned is the one parsed from the tokens
    in between (recursively: parenthesised atoms — and `( yield … )` — return the inner node unchanged); or it is a
    `NamedExpr` `name := value`, ranged from the name to the END OF ITS VALUE NODE (listed finding
    `namedexpr-range-excludes-value-parentheses`).  Together with `rangesOk_slice` this says which text a slice by the
    range yields: the node's tokens and the gaps between them. -/
theorem parseR_extent {src : List Nat} {toks : List RTok} (h : Tiled src toks) {fuel : Nat} {e : RExpr}
    {rest : List Tok} (hp : parseR fuel toks = some (e, rest)) :
    rest.length < toks.length ∧ Ext (spanTab toks) (toks.map (·.tok)) rest e := by
  have T := tiledTab_of_tiled h
  have hs := (soundAt T fuel).test (toks.map (·.tok)) e rest (by simp) (by unfold parseR at hp; exact hp)
  exact ⟨by simpa using hs.1, hs.2.2⟩

/-- the same for every nonterminal of the expression chain (every node of a tree is returned by one of them) -/
theorem parseR_extent_nonterminals {src : List Nat} {σ : SpanTab} {N : Nat} (T : TiledTab src σ N) (fuel : Nat)
    (ts : List Tok) (hN : ts.length ≤ N) (e : RExpr) (rest : List Tok) :
    (parseROrTest σ fuel ts = some (e, rest) → Ext σ ts rest e) ∧
    (parseRAndTest σ fuel ts = some (e, rest) → Ext σ ts rest e) ∧
    (parseRNotTest σ fuel ts = some (e, rest) → Ext σ ts rest e) ∧
    (parseRCmp σ fuel ts = some (e, rest) → Ext σ ts rest e) ∧
    (∀ lvl, parseRBin σ lvl fuel ts = some (e, rest) → Ext σ ts rest e) ∧
    (parseRFactor σ fuel ts = some (e, rest) → Ext σ ts rest e) ∧
    (parseRPower σ fuel ts = some (e, rest) → Ext σ ts rest e) ∧
    (parseRAtomExpr σ fuel ts = some (e, rest) → Ext σ ts rest e) ∧
    (parseRAtomExpr2 σ fuel ts = some (e, rest) → Ext σ ts rest e) ∧
    (parseRAtom σ fuel ts = some (e, rest) → Ext σ ts rest e) ∧
    (parseRNamedTest σ fuel ts = some (e, rest) → Ext σ ts rest e) ∧
    (parseRStarOrNamed σ fuel ts = some (e, rest) → Ext σ ts rest e) ∧
    (parseRSubscript σ fuel ts = some (e, rest) → Ext σ ts rest e) ∧
    (parseRTestList σ fuel ts = some (e, rest) → Ext σ ts rest e) ∧
    (parseRTargetList σ fuel ts = some (e, rest) → Ext σ ts rest e) := by
  have S := soundAt T fuel
  exact ⟨fun h => (S.orTest _ _ _ hN h).2.2, fun h => (S.andTest _ _ _ hN h).2.2, fun h => (S.notTest _ _ _ hN h).2.2,
    fun h => (S.cmp _ _ _ hN h).2.2, fun lvl h => (S.bin lvl _ _ _ hN h).2.2, fun h => (S.factor _ _ _ hN h).2.2,
    fun h => (S.power _ _ _ hN h).2.2, fun h => (S.atomExpr _ _ _ hN h).2.2, fun h => (S.atomExpr2 _ _ _ hN h).2.2,
    fun h => (S.atom _ _ _ hN h).2.2, fun h => (S.namedTest _ _ _ hN h).2.2, fun h => (S.starOrNamed _ _ _ hN h).2.2,
    fun h => (S.subscript _ _ _ hN h).2.2, fun h => (S.testList _ _ _ hN h).2.2,
    fun h => (S.targetList _ _ _ hN h).2.2⟩

/-- an exact extent, in positions: the slice of the source by the node's range starts at the first token consumed and
    ends with the last one -/
theorem Ext.exact_range {σ : SpanTab} {ts rest : List Tok} {e : RExpr}
    (h : e.range = (S σ ts.length, E σ (rest.length + 1))) :
    e.range.1 = (σ ts.length).1 ∧ e.range.2 = (σ (rest.length + 1)).2 := by
  rw [h]; exact ⟨rfl, rfl⟩

/-! ### the model reproduces the listed deviations from the reference extents -/

def firstArgRange : RExpr → Option Rg
  | .call _ _ (a :: _) _ => some a.range
  | _ => none

/-- `f(x for x in y)` -/
def genexpToks : List RTok :=
  [⟨.name [102], 0, 1⟩, ⟨.op .lpar, 1, 2⟩, ⟨.name [120], 2, 3⟩, ⟨.kw .for, 4, 7⟩, ⟨.name [120], 8, 9⟩,
   ⟨.kw .in, 10, 12⟩, ⟨.name [121], 13, 14⟩, ⟨.op .rpar, 14, 15⟩]

/-- Listed finding `genexp-sole-argument-range`, reproduced by the model: the generator expression that is the sole
    argument of `f(x for x in y)` is ranged 2..14 (the span of `x for x in y`), the call 0..15; the reference
    (CPython) gives the generator expression the parentheses, 1..15. -/
theorem genexp_sole_argument_witness :
    ((parseRExpression genexpToks).map fun e => (e.range, firstArgRange e)) = some ((0, 15), some (2, 14)) := by decide

/-- the reference extent: a generator expression that is the sole argument ends where the call ends -/
def genexp_sole_argument_full : Prop :=
  ∀ (toks : List RTok) (rg : Rg) (f : RExpr) (rgG : Rg) (elt : RExpr) (gens : List RComp),
    parseRExpression toks = some (.call rg f [.genExp rgG elt gens] []) → rgG.2 = rg.2

def isSoleGenexpCall : RExpr → Option (Nat × Nat)
  | .call rg _ [.genExp rgG _ _] [] => some (rgG.2, rg.2)
  | _ => none

theorem genexp_sole_argument_fails : ¬ genexp_sole_argument_full := by
  intro h
  have hw : (parseRExpression genexpToks).bind isSoleGenexpCall = some (14, 15) := by decide
  cases hp : parseRExpression genexpToks with
  | none => rw [hp] at hw; cases hw
  | some e =>
    rw [hp] at hw
    simp only [Option.bind_some] at hw
    unfold isSoleGenexpCall at hw
    split at hw
    · rename_i rg f rgG elt gens
      have := h genexpToks rg f rgG elt gens hp
      simp only [Option.some.injEq, Prod.mk.injEq] at hw
      omega
    · cases hw

/-- `(y := (x))` -/
def namedToks : List RTok :=
  [⟨.op .lpar, 0, 1⟩, ⟨.name [121], 1, 2⟩, ⟨.op .walrus, 3, 5⟩, ⟨.op .lpar, 6, 7⟩, ⟨.name [120], 7, 8⟩,
   ⟨.op .rpar, 8, 9⟩, ⟨.op .rpar, 9, 10⟩]

/-- Listed finding `namedexpr-range-excludes-value-parentheses`, reproduced by the model: the `NamedExpr` of
    `(y := (x))` is ranged 1..8 — it ends where the value node `x` ends; the reference (CPython): 1..9. -/
theorem namedexpr_witness : ((parseRExpression namedToks).map fun e => e.range) = some (1, 8) := by decide

/-- `lambda: 1` -/
def lambdaToks : List RTok := [⟨.kw .lambda, 0, 6⟩, ⟨.op .colon, 6, 7⟩, ⟨.int 1, 8, 9⟩]

def argsRange : RExpr → Option Rg
  | .lambda _ a _ _ _ _ _ _ => some a
  | _ => none

/-- Former finding `lambda-empty-arguments-range`, now a regression example (repaired in /repo: "the empty parameter
    list of a lambda is ranged as the empty text after the keyword"): the empty `Arguments` node of `lambda: 1` is the
    empty range 6..6 right behind the keyword (the lambda itself 0..9), and the tree passes `rangesOk`.  Before the
    repair the `Arguments` node had the range of the whole lambda, 0..9. -/
theorem lambda_empty_arguments_witness :
    ((parseRExpression lambdaToks).map fun e => (e.range, argsRange e)) = some ((0, 9), some (6, 6)) ∧
    ((parseRExpression lambdaToks).map fun e =>
      rangesOk [108, 97, 109, 98, 100, 97, 58, 32, 49] (e.toTree "body" false)) = some true := by
  constructor <;> decide

/-- `'a' f'{b}' 'c'` -/
def concatToks : List RTok :=
  [⟨.str [97] false, 0, 3⟩, ⟨.fstr 39 false false [123, 98, 125], 4, 10⟩, ⟨.str [99] false, 11, 14⟩]

def pieceRanges : RExpr → List Rg
  | .joinedStr _ vs => vs.map RExpr.range
  | _ => []

theorem fstring_piece_in_concatenation_witness :
    ((parseRExpression concatToks).map fun e => (e.range, pieceRanges e)) =
      some ((0, 14), [(0, 14), (4, 10), (0, 14)]) := by decide

/-- the reference extents: like `Ext`, without the `NamedExpr` deviation -/
inductive ExtRef (σ : SpanTab) : List Tok → List Tok → RExpr → Prop
  | exact {ts rest e} : e.range = (S σ ts.length, E σ (rest.length + 1)) → ExtRef σ ts rest e
  | paren {r rest e} : ExtRef σ r (.op .rpar :: rest) e → ExtRef σ (.op .lpar :: r) rest e

/-- the full statement about extents (what the property demands of `NamedExpr` too) -/
def parseR_extent_full : Prop :=
  ∀ (src : List Nat) (toks : List RTok) (fuel : Nat) (e : RExpr) (rest : List Tok),
    Tiled src toks → parseR fuel toks = some (e, rest) → ExtRef (spanTab toks) (toks.map (·.tok)) rest e

/-- `(y := (x))` as bytes -/
def namedSrc : List Nat := [40, 121, 32, 58, 61, 32, 40, 120, 41, 41]

theorem parseR_extent_fails : ¬ parseR_extent_full := by
  intro hfull
  have hT : Tiled namedSrc namedToks := by
    refine ⟨?_, by simp [namedToks]⟩
    intro t ht
    simp only [namedToks, List.mem_cons, List.not_mem_nil, or_false] at ht
    rcases ht with rfl | rfl | rfl | rfl | rfl | rfl | rfl <;> decide
  have hw : ((parseR 60 namedToks).map fun p => (p.1.range, p.2.length)) = some ((1, 8), 0) := by decide
  cases hp : parseR 60 namedToks with
  | none => rw [hp] at hw; cases hw
  | some p =>
    obtain ⟨e, rest⟩ := p
    rw [hp] at hw
    simp only [Option.map_some, Option.some.injEq, Prod.mk.injEq] at hw
    obtain ⟨hr, hl⟩ := hw
    have hrest : rest = [] := List.eq_nil_of_length_eq_zero hl
    subst hrest
    have h := hfull namedSrc namedToks 60 e [] hT hp
    have e1 : S (spanTab namedToks) 7 = 0 := by decide
    have e2 : E (spanTab namedToks) 1 = 10 := by decide
    have e3 : S (spanTab namedToks) 6 = 1 := by decide
    have e4 : E (spanTab namedToks) 2 = 9 := by decide
    have hm : namedToks.map (·.tok) =
        [.op .lpar, .name [121], .op .walrus, .op .lpar, .name [120], .op .rpar, .op .rpar] := rfl
    rw [hm] at h
    cases h with
    | exact h =>
      simp only [List.length_cons, List.length_nil] at h
      rw [hr] at h
      simp only [Prod.mk.injEq] at h
      have h1 := h.1
      rw [e1] at h1
      cases h1
    | paren h =>
      cases h with
      | exact h =>
        simp only [List.length_cons, List.length_nil] at h
        rw [hr] at h
        simp only [Prod.mk.injEq] at h
        have h2 := h.2
        rw [e4] at h2
        cases h2

end PV.C02
