import PV.C02.RProg
import PV.C02.EraseSteps
/-
  PV.C02.RProgErase — the ranged program parser is the reference program parser plus ranges: erasing the ranges from the
  result of every function of `PV/C02/RProg.lean` gives the result of its twin in `PV/Prog/Parse.lean`, for every span
  table, fuel and input (one lemma per function, `*_erase`; the two mutual blocks — patterns and compound statements —
  by one step lemma per function, `pstep_*` / `cstep_*`, assembled by induction on the fuel as in `EraseSteps.lean`),
  culminating in `parseRProgramFuel_erase` / `parseRProgram_erase`.

  Where `Parse.lean` has an inline `let` block and `RProg.lean` a named helper (`typeParamItemR`, `typedItemR`,
  `asPartR`, `retOfR`, `guardOfR`, `classArgsOfR`, the `first` of `parseBlock`), the same text is restated here as a
  reference-side helper (`typeParamItemE`, …) with an unfolding equation proved by `rfl`.
-/
namespace PV.C02
open PV.Expr PV.C11 PV.Prog

/-! ### result erasers -/

def erS (p : RStmt × List Tok) : Stmt × List Tok := (p.1.erase, p.2)
def erSs (p : List RStmt × List Tok) : List Stmt × List Tok := (eraseStmts p.1, p.2)
def erOE (p : Option RExpr × List Tok) : Option Expr × List Tok := (eraseOpt p.1, p.2)
def erAl (p : List RAlias × List Tok) : List Alias × List Tok := (p.1.map RAlias.erase, p.2)
def erTP1 (p : RTypeParam × List Tok) : TypeParam × List Tok := (p.1.erase, p.2)
def erTP (p : List RTypeParam × List Tok) : List TypeParam × List Tok := (p.1.map RTypeParam.erase, p.2)

@[simp] theorem erS_mk (s : RStmt) (r : List Tok) : erS (s, r) = (s.erase, r) := rfl
@[simp] theorem erSs_mk (s : List RStmt) (r : List Tok) : erSs (s, r) = (eraseStmts s, r) := rfl
@[simp] theorem erOE_mk (s : Option RExpr) (r : List Tok) : erOE (s, r) = (eraseOpt s, r) := rfl
@[simp] theorem erAl_mk (s : List RAlias) (r : List Tok) : erAl (s, r) = (s.map RAlias.erase, r) := rfl
@[simp] theorem erTP1_mk (s : RTypeParam) (r : List Tok) : erTP1 (s, r) = (s.erase, r) := rfl
@[simp] theorem erTP_mk (s : List RTypeParam) (r : List Tok) : erTP (s, r) = (s.map RTypeParam.erase, r) := rfl

@[simp] theorem eraseStmts_nil : eraseStmts [] = [] := by simp [eraseStmts]
@[simp] theorem eraseStmts_cons (s : RStmt) (ss : List RStmt) : eraseStmts (s :: ss) = s.erase :: eraseStmts ss := by
  simp [eraseStmts]
@[simp] theorem eraseStmts_append (a b : List RStmt) : eraseStmts (a ++ b) = eraseStmts a ++ eraseStmts b := by
  induction a with
  | nil => simp
  | cons x xs ih => simp [ih]

/-- the step tactic: rewrite the reference side with the erasure equations of the callees (`ts`), split what is
    left, and close the leaves (`gs`: extra `grind` facts) -/
macro "pstepg" "[" ts:term,* "]" "[" gs:term,* "]" : tactic => `(tactic|
  (simp [$[$ts:term],*, RExpr.erase, RStmt.erase, *]) <;> ((repeat' split) <;> (first | rfl | skip) <;>
    ((try simp_all [RExpr.erase, RStmt.erase, -Bool.forall_bool]) <;>
      grind [→ map_some_inv, → map_some_inv', RExpr.erase, RStmt.erase, eraseOpt_none, eraseOpt_some, eraseList_nil,
        eraseList_cons, eraseList_append, isStarred_erase, er, erL, erEl, erS, erSs, $[$gs:term],*])))
macro "pstep" "[" ts:term,* "]" : tactic => `(tactic| pstepg [$[$ts:term],*] [er])

/-! ### expression lists at statement level, `ExpressionStatement` -/

theorem elem_erase (σ ek f ts) : parseElem ek f ts = (parseRElem σ ek f ts).map er := by
  cases ek <;> simp [parseElem, parseRElem, (eraseAt f).testOrStar σ, (eraseAt f).exprOrStar σ,
    (eraseAt f).starOrNamed σ, (eraseAt f).test σ]

theorem commaList_erase : ∀ f σ ek ts, parseCommaList ek f ts = (parseRCommaList σ ek f ts).map erEl := by
  intro f
  induction f with
  | zero => simp [parseCommaList, parseRCommaList]
  | succ f ih =>
    intro σ ek ts
    rw [parseCommaList, parseRCommaList]
    pstep [elem_erase σ, ih σ]

theorem genericList_erase (rg : Rg) (es : List RExpr) (tc : Bool) :
    (genericListR rg (es, tc)).erase = genericList (eraseList es, tc) := by
  rcases es with _ | ⟨e, _ | ⟨e2, es⟩⟩ <;> cases tc <;> simp [genericListR, genericList, RExpr.erase]

theorem testListS_erase (f σ ts) : parseTestListS f ts = (parseRTestListS σ f ts).map er := by
  unfold parseTestListS parseRTestListS
  rw [commaList_erase f σ]
  cases parseRCommaList σ .testOrStar f ts with
  | none => simp
  | some p => obtain ⟨⟨es, tc⟩, r⟩ := p; simp [genericList_erase]

theorem yieldS_erase (f σ ts) : parseYieldS f ts = (parseRYieldS σ f ts).map er := by
  fun_cases parseRYieldS σ f ts
  · simp [parseYieldS]
  all_goals rw [parseYieldS.eq_def]
  all_goals pstep [(eraseAt _).test σ, testListS_erase _ σ]

theorem testListOrYield_erase (f σ ts) : parseTestListOrYield f ts = (parseRTestListOrYield σ f ts).map er := by
  fun_cases parseRTestListOrYield σ f ts
  · simp [parseTestListOrYield]
  all_goals rw [parseTestListOrYield.eq_def]
  all_goals pstep [yieldS_erase _ σ, testListS_erase _ σ]

theorem assignSuffixes_erase : ∀ f σ ts, parseAssignSuffixes f ts = (parseRAssignSuffixes σ f ts).map erL := by
  intro f
  induction f with
  | zero => simp [parseAssignSuffixes, parseRAssignSuffixes]
  | succ f ih =>
    intro σ ts
    generalize hn : f + 1 = n
    fun_cases parseRAssignSuffixes σ n ts
    all_goals cases hn
    all_goals rw [parseAssignSuffixes.eq_def]
    all_goals pstep [testListOrYield_erase _ σ, ih σ]

@[simp] theorem eraseList_eq_singleton (es : List RExpr) (x : Expr) :
    eraseList es = [x] ↔ ∃ y, es = [y] ∧ y.erase = x := by
  rcases es with _ | ⟨e, _ | ⟨e2, es⟩⟩ <;> simp

theorem eraseList_dropLast (l : List RExpr) : eraseList l.dropLast = (eraseList l).dropLast := by
  induction l with
  | nil => simp
  | cons x xs ih => cases xs <;> simp_all

theorem eraseList_getLast? (l : List RExpr) : (eraseList l).getLast? = l.getLast?.map RExpr.erase := by
  induction l with
  | nil => simp
  | cons x xs ih => cases xs <;> simp_all [List.getLast?_cons_cons]

theorem assignOf_erase (rg : Rg) (first : RExpr) (suffix : List RExpr) :
    assignOf first.erase (eraseList suffix) = (assignOfR rg first suffix).map RStmt.erase := by
  unfold assignOf assignOfR
  rw [eraseList_getLast?]
  cases suffix.getLast? <;> simp [RStmt.erase, eraseList_dropLast]

@[simp] theorem isName_erase (e : RExpr) : isName e.erase = isNameR e := by
  cases e <;> simp [RExpr.erase, isName, isNameR]

theorem exprStmt_erase (f σ ts) : parseExprStmt f ts = (parseRExprStmt σ f ts).map erS := by
  cases f with
  | zero => simp [parseExprStmt, parseRExprStmt]
  | succ f =>
    rw [parseExprStmt, parseRExprStmt, commaList_erase f σ]
    cases parseRCommaList σ .testOrStar f ts with
    | none => simp
    | some p =>
      obtain ⟨⟨es, tc⟩, rest⟩ := p
      simp only [Option.map_some, erEl_mk, ← genericList_erase (L σ ts, R σ rest)]
      pstepg [assignSuffixes_erase f σ, assignOf_erase, testListOrYield_erase f σ, (eraseAt f).test σ]
        [assignOf_erase, isName_erase]

/-! ### the other small statements -/

theorem importNames_erase : ∀ f σ ts, parseImportNames f ts = (parseRImportNames σ f ts).map erAl := by
  intro f
  induction f with
  | zero => simp [parseImportNames, parseRImportNames]
  | succ f ih =>
    intro σ ts
    generalize hn : f + 1 = n
    fun_cases parseRImportNames σ n ts
    all_goals cases hn
    all_goals rw [parseImportNames.eq_def]
    all_goals pstepg [ih σ, RAlias.erase] [erAl, RAlias.erase]

theorem fromNames_erase : ∀ f σ paren ts, parseFromNames paren f ts = (parseRFromNames σ paren f ts).map erAl := by
  intro f
  induction f with
  | zero => simp [parseFromNames, parseRFromNames]
  | succ f ih =>
    intro σ paren ts
    generalize hn : f + 1 = n
    fun_cases parseRFromNames σ paren n ts
    all_goals cases hn
    all_goals rw [parseFromNames.eq_def]
    all_goals pstepg [ih σ, RAlias.erase] [erAl, RAlias.erase]

theorem importAsNames_erase (f σ ts) : parseImportAsNames f ts = (parseRImportAsNames σ f ts).map erAl := by
  fun_cases parseRImportAsNames σ f ts
  · simp [parseImportAsNames]
  all_goals rw [parseImportAsNames.eq_def]
  all_goals pstepg [fromNames_erase _ σ, RAlias.erase] [erAl, RAlias.erase]

theorem importFrom_erase (f σ ts) : parseImportFrom f ts = (parseRImportFrom σ f ts).map erS := by
  fun_cases parseRImportFrom σ f ts
  · simp [parseImportFrom]
  all_goals rw [parseImportFrom.eq_def]
  all_goals pstepg [importAsNames_erase _ σ] [erAl]

/-- one `TypeParam`, reference side (the text of the `let item` of `parseTypeParams`) -/
def typeParamItemE (f : Nat) (ts : List Tok) : Option (TypeParam × List Tok) :=
      match ts with
      | .name n :: .op .colon :: r =>
        (match parseTest f r with
         | some (b, r') => some (.typeVar n (some b), r')
         | none => none)
      | .name n :: r => some (.typeVar n none, r)
      | .op .star :: .name n :: r => some (.typeVarTuple n, r)
      | .op .dstar :: .name n :: r => some (.paramSpec n, r)
      | _ => none

theorem typeParamsE_unfold (f : Nat) (ts : List Tok) : parseTypeParams (f + 1) ts =
    (match typeParamItemE f ts with
    | some (tp, .op .comma :: .op .rsqb :: r) => some ([tp], r)
    | some (tp, .op .comma :: r) =>
      (match parseTypeParams f r with
       | some (more, r') => some (tp :: more, r')
       | none => none)
    | some (tp, .op .rsqb :: r) => some ([tp], r)
    | _ => none) := by
  rfl

theorem typeParamItem_erase (f σ ts) : typeParamItemE f ts = (typeParamItemR σ f ts).map erTP1 := by
  unfold typeParamItemE typeParamItemR
  simp only [(eraseAt f).test σ]
  (repeat' split) <;> (simp_all [RTypeParam.erase] <;> grind)

theorem typeParams_erase : ∀ f σ ts, parseTypeParams f ts = (parseRTypeParams σ f ts).map erTP := by
  intro f
  induction f with
  | zero => simp [parseTypeParams, parseRTypeParams]
  | succ f ih =>
    intro σ ts
    rw [typeParamsE_unfold, parseRTypeParams, typeParamItem_erase f σ]
    pstepg [ih σ] [erTP, erTP1]

theorem typeParamsOpt_erase (f σ ts) : parseTypeParamsOpt f ts = (parseRTypeParamsOpt σ f ts).map erTP := by
  fun_cases parseRTypeParamsOpt σ f ts
  · simp [parseTypeParamsOpt]
  all_goals rw [parseTypeParamsOpt.eq_def]
  all_goals pstepg [typeParams_erase _ σ] [erTP]

theorem small_erase (f σ ts) : parseSmall f ts = (parseRSmall σ f ts).map erS := by
  fun_cases parseRSmall σ f ts
  · simp [parseSmall]
  all_goals rw [parseSmall.eq_def]
  all_goals pstepg [yieldS_erase _ σ, importFrom_erase _ σ, commaList_erase _ σ, testListS_erase _ σ, (eraseAt _).test σ,
    importNames_erase _ σ, typeParamsOpt_erase _ σ, exprStmt_erase _ σ] [erTP, erAl]

theorem simpleLine_erase : ∀ f σ ts, parseSimpleLine f ts = (parseRSimpleLine σ f ts).map erSs := by
  intro f
  induction f with
  | zero => simp [parseSimpleLine, parseRSimpleLine]
  | succ f ih =>
    intro σ ts
    rw [parseSimpleLine, parseRSimpleLine, small_erase f σ]
    pstepg [ih σ] []

/-! ### patterns -/

def erP (p : RPattern × List Tok) : Pattern × List Tok := (p.1.erase, p.2)
def erPL (p : List RPattern × List Tok) : List Pattern × List Tok := (erasePats p.1, p.2)
def erPLB (p : (List RPattern × Bool) × List Tok) : (List Pattern × Bool) × List Tok := ((erasePats p.1.1, p.1.2), p.2)
def erCI (p : (List RPattern × List Ident × List RPattern) × List Tok) :
    (List Pattern × List Ident × List Pattern) × List Tok := ((erasePats p.1.1, p.1.2.1, erasePats p.1.2.2), p.2)

@[simp] theorem erP_mk (s : RPattern) (r : List Tok) : erP (s, r) = (s.erase, r) := rfl
@[simp] theorem erPL_mk (s : List RPattern) (r : List Tok) : erPL (s, r) = (erasePats s, r) := rfl
@[simp] theorem erPLB_mk (s : List RPattern) (b : Bool) (r : List Tok) : erPLB ((s, b), r) = ((erasePats s, b), r) := rfl
@[simp] theorem erCI_mk (a : List RPattern) (k : List Ident) (b : List RPattern) (r : List Tok) :
    erCI ((a, k, b), r) = ((erasePats a, k, erasePats b), r) := rfl

@[simp] theorem erasePats_nil : erasePats [] = [] := by simp [erasePats]
@[simp] theorem erasePats_cons (p : RPattern) (ps : List RPattern) : erasePats (p :: ps) = p.erase :: erasePats ps := by
  simp [erasePats]
@[simp] theorem erasePats_append (a b : List RPattern) : erasePats (a ++ b) = erasePats a ++ erasePats b := by
  induction a with
  | nil => simp
  | cons x xs ih => simp [ih]
@[simp] theorem erasePatOpt_none : erasePatOpt none = none := by simp [erasePatOpt]
@[simp] theorem erasePatOpt_some (p : RPattern) : erasePatOpt (some p) = some p.erase := by simp [erasePatOpt]
@[simp] theorem erasePats_eq_singleton (ps : List RPattern) (x : Pattern) :
    erasePats ps = [x] ↔ ∃ y, ps = [y] ∧ y.erase = x := by
  rcases ps with _ | ⟨e, _ | ⟨e2, es⟩⟩ <;> simp

theorem constAtom_erase (σ k t) : constAtom t = (constAtomR σ k t).map RExpr.erase := by
  cases t <;> simp [constAtom, constAtomR, RExpr.erase]

theorem addTail_erase (σ st left ts) : addTail left.erase ts = (addTailR σ st left ts).map er := by
  fun_cases addTailR σ st left ts
  all_goals rw [addTail.eq_def]
  all_goals pstepg [Option.map_some] [constAtom_erase]

theorem constExpr_erase (σ ts) : parseConstExpr ts = (parseRConstExpr σ ts).map er := by
  fun_cases parseRConstExpr σ ts
  all_goals rw [parseConstExpr.eq_def]
  all_goals pstepg [fun st l ts => (addTail_erase σ st l ts).symm] [constAtom_erase]

theorem attrChain_erase (σ st acc d ts) : attrChain acc.erase d ts = (attrChainR σ st acc d ts).map erBF := by
  fun_induction attrChainR σ st acc d ts
  all_goals rw [attrChain.eq_def]
  all_goals pstepg [Option.map_some] [erBF]

theorem attrChain_name (σ n r) : attrChain (.name n) false r =
    (attrChainR σ (σ (r.length + 1)).1 (.name (σ (r.length + 1)) n) false r).map erBF :=
  attrChain_erase σ _ (.name _ n) _ _

theorem mapKey_erase (f σ ts) : parseMapKey f ts = (parseRMapKey σ f ts).map er := by
  fun_cases parseRMapKey σ f ts
  · simp [parseMapKey]
  all_goals rw [parseMapKey.eq_def]
  all_goals pstepg [(eraseAt _).strings σ, constExpr_erase σ, attrChain_name σ] [erBF]

/-! ### patterns: what is proved for every fuel -/

structure PatAt (f : Nat) : Prop where
  pattern : ∀ σ ts, parsePattern f ts = (parseRPattern σ f ts).map erP
  orPattern : ∀ σ ts, parseOrPattern f ts = (parseROrPattern σ f ts).map erP
  orPatRest : ∀ σ ts, parseOrPatRest f ts = (parseROrPatRest σ f ts).map erPL
  closed : ∀ σ ts, parseClosed f ts = (parseRClosed σ f ts).map erP
  patternList : ∀ σ ts, parsePatternList f ts = (parseRPatternList σ f ts).map erPLB
  classArgs : ∀ σ st cls ts, parseClassArgs f cls.erase ts = (parseRClassArgs σ f st cls ts).map erP
  classItems : ∀ σ ts ps ka kp,
    parseClassItems f ts (erasePats ps) ka (erasePats kp) = (parseRClassItems σ f ts ps ka kp).map erCI
  mapItems : ∀ σ st ts ks ps,
    parseMapItems f ts (eraseList ks) (erasePats ps) = (parseRMapItems σ f st ts ks ps).map erP

def BelowPat (n : Nat) : Prop := ∀ f, n = f + 1 → PatAt f

macro "patstep" "[" ts:term,* "]" : tactic => `(tactic|
  pstepg [$[$ts:term],*, RPattern.erase]
    [RPattern.erase, erP, erPL, erPLB, erCI, erBF, erasePats_nil, erasePats_cons, erasePats_append])

theorem pstep_pattern {n} (ih : BelowPat n) : ∀ σ ts, parsePattern n ts = (parseRPattern σ n ts).map erP := by
  intro σ ts
  fun_cases parseRPattern σ n ts
  · simp [parsePattern]
  all_goals have ih := ih _ rfl
  all_goals rw [parsePattern.eq_def]
  all_goals patstep [ih.orPattern σ]

theorem pstep_orPattern {n} (ih : BelowPat n) : ∀ σ ts, parseOrPattern n ts = (parseROrPattern σ n ts).map erP := by
  intro σ ts
  fun_cases parseROrPattern σ n ts
  · simp [parseOrPattern]
  all_goals have ih := ih _ rfl
  all_goals rw [parseOrPattern.eq_def]
  all_goals patstep [ih.closed σ, ih.orPatRest σ]

theorem pstep_orPatRest {n} (ih : BelowPat n) : ∀ σ ts, parseOrPatRest n ts = (parseROrPatRest σ n ts).map erPL := by
  intro σ ts
  fun_cases parseROrPatRest σ n ts
  · simp [parseOrPatRest]
  all_goals have ih := ih _ rfl
  all_goals rw [parseOrPatRest.eq_def]
  all_goals patstep [ih.closed σ, ih.orPatRest σ]

theorem pstep_closed {n} (ih : BelowPat n) : ∀ σ ts, parseClosed n ts = (parseRClosed σ n ts).map erP := by
  intro σ ts
  fun_cases parseRClosed σ n ts
  · simp [parseClosed]
  all_goals have ih := ih _ rfl
  all_goals have hm := ih.mapItems σ (ks := []) (ps := [])
  all_goals have hc := ih.classArgs σ
  all_goals simp only [eraseList_nil, erasePats_nil] at hm
  all_goals rw [parseClosed.eq_def]
  all_goals patstep [(eraseAt _).strings σ, attrChain_name σ, ih.patternList σ, constExpr_erase σ]

theorem pstep_patternList {n} (ih : BelowPat n) :
    ∀ σ ts, parsePatternList n ts = (parseRPatternList σ n ts).map erPLB := by
  intro σ ts
  fun_cases parseRPatternList σ n ts
  · simp [parsePatternList]
  all_goals have ih := ih _ rfl
  all_goals rw [parsePatternList.eq_def]
  all_goals patstep [ih.pattern σ, ih.patternList σ]

theorem pstep_classArgs {n} (ih : BelowPat n) :
    ∀ σ st cls ts, parseClassArgs n cls.erase ts = (parseRClassArgs σ n st cls ts).map erP := by
  intro σ st cls ts
  fun_cases parseRClassArgs σ n st cls ts
  · simp [parseClassArgs]
  all_goals have ih := ih _ rfl
  all_goals have hc := ih.classItems σ (ps := []) (ka := []) (kp := [])
  all_goals simp only [erasePats_nil] at hc
  all_goals rw [parseClassArgs.eq_def]
  all_goals patstep [Option.map_some]

theorem pstep_classItems {n} (ih : BelowPat n) : ∀ σ ts ps ka kp,
    parseClassItems n ts (erasePats ps) ka (erasePats kp) = (parseRClassItems σ n ts ps ka kp).map erCI := by
  intro σ ts ps ka kp
  fun_cases parseRClassItems σ n ts ps ka kp
  · simp [parseClassItems]
  all_goals have ih := ih _ rfl
  all_goals have hc := ih.classItems σ
  all_goals rw [parseClassItems.eq_def]
  all_goals patstep [ih.pattern σ]

theorem pstep_mapItems {n} (ih : BelowPat n) : ∀ σ st ts ks ps,
    parseMapItems n ts (eraseList ks) (erasePats ps) = (parseRMapItems σ n st ts ks ps).map erP := by
  intro σ st ts ks ps
  fun_cases parseRMapItems σ n st ts ks ps
  · simp [parseMapItems]
  all_goals have ih := ih _ rfl
  all_goals have hc := ih.mapItems σ
  all_goals rw [parseMapItems.eq_def]
  all_goals patstep [ih.pattern σ, mapKey_erase _ σ]

theorem patAt_of_below {n : Nat} (b : BelowPat n) : PatAt n :=
  ⟨pstep_pattern b, pstep_orPattern b, pstep_orPatRest b, pstep_closed b, pstep_patternList b, pstep_classArgs b,
    pstep_classItems b, pstep_mapItems b⟩

/-- every pattern function of the ranged parser erases to its twin, at every fuel -/
theorem patAt : ∀ n, PatAt n
  | 0 => patAt_of_below (fun f h => absurd h (by omega))
  | n + 1 => patAt_of_below (fun f h => by cases h; exact patAt n)

theorem patterns_erase (f σ ts) : parsePatterns f ts = (parseRPatterns σ f ts).map erP := by
  unfold parsePatterns parseRPatterns
  rw [(patAt f).patternList σ]
  (repeat' split) <;> ((try simp_all [RPattern.erase, -Bool.forall_bool]) <;>
    grind [erPLB, erP, RPattern.erase, erasePats_cons, erasePats_nil])

/-! ### function definitions: `Parameters`, decorators -/

def erAr (p : RArguments × List Tok) : Arguments × List Tok := (p.1.erase, p.2)
def erArI (p : RArguments × Nat × List Tok) : Arguments × Nat × List Tok := (p.1.erase, p.2.1, p.2.2)
@[simp] theorem erAr_mk (a : RArguments) (r : List Tok) : erAr (a, r) = (a.erase, r) := rfl
@[simp] theorem erArI_mk (a : RArguments) (n : Nat) (r : List Tok) : erArI (a, n, r) = (a.erase, n, r) := rfl

theorem validPos_erase (ps : List RArgD) : validPos (ps.map RArgD.erase) = validPosR ps := by
  unfold validPos validPosR
  have h1 : ∀ (l : List RArgD), (l.map RArgD.erase).dropWhile (fun a => a.default.isSome) =
      (l.dropWhile (fun a => a.default.isSome)).map RArgD.erase := by
    intro l
    induction l with
    | nil => simp
    | cons x xs ih => cases hx : x.default <;> simp [RArgD.erase, hx, ih]
  have h2 : ∀ (l : List RArgD), (l.map RArgD.erase).dropWhile (fun a => a.default.isNone) =
      (l.dropWhile (fun a => a.default.isNone)).map RArgD.erase := by
    intro l
    induction l with
    | nil => simp
    | cons x xs ih => cases hx : x.default <;> simp [RArgD.erase, hx, ih]
  rw [h2, h1]; simp

theorem validNames_erase (a : RArguments) : validNames a.erase = validNamesR a := by
  unfold validNames validNamesR
  congr 2
  unfold argNames argNamesR
  simp [RArguments.erase, RArgD.erase, RArg.erase, Function.comp_def]

theorem bareStarOk_erase (a : RArguments) (ph : Nat) : bareStarOk a.erase ph = bareStarOkRA a ph := by
  simp [bareStarOk, bareStarOkRA, RArguments.erase]

theorem annOpt_erase (f σ star ts) : parseAnnOpt star f ts = (parseRAnnOpt σ star f ts).map erOE := by
  fun_cases parseRAnnOpt σ star f ts
  · simp [parseAnnOpt]
  all_goals rw [parseAnnOpt.eq_def]
  all_goals cases star
  all_goals pstepg [(eraseAt _).test σ, (eraseAt _).testOrStar σ] [erOE]

theorem defaultOpt_erase (f σ ts) : parseDefaultOpt f ts = (parseRDefaultOpt σ f ts).map erOE := by
  fun_cases parseRDefaultOpt σ f ts
  · simp [parseDefaultOpt]
  all_goals rw [parseDefaultOpt.eq_def]
  all_goals pstepg [(eraseAt _).test σ] [erOE]

theorem argDR_erase (rg : Rg) (n : Ident) (an d : Option RExpr) :
    (argDR rg n an d).erase = ⟨⟨n, eraseOpt an⟩, eraseOpt d⟩ := by
  cases d <;> simp [argDR, RArgD.erase, RArg.erase]

/-- one item of a typed parameter list, reference side (the text of the `let item` of `parseTypedParams`) -/
def typedItemE (f : Nat) (ts : List Tok) (ps : Arguments) (phase : Nat) : Option (Arguments × Nat × List Tok) :=
      match ts with
      | .name n :: r =>
        if phase ≤ 2 then
          (match parseAnnOpt false f r with
           | some (an, r1) =>
             (match parseDefaultOpt f r1 with
              | some (d, r2) =>
                let p : ArgWithDefault := ⟨⟨n, an⟩, d⟩
                if phase = 2 then some ({ ps with kwonly := ps.kwonly ++ [p] }, phase, r2)
                else some ({ ps with args := ps.args ++ [p] }, phase, r2)
              | none => none)
           | none => none)
        else none
      | .op .slash :: r =>
        if phase = 0 ∧ !ps.args.isEmpty then some ({ ps with posonly := ps.args, args := [] }, 1, r)
        else none
      | .op .star :: .name n :: r =>
        if phase ≤ 1 then
          (match parseAnnOpt true f r with
           | some (an, r1) => some ({ ps with vararg := some ⟨n, an⟩ }, 2, r1)
           | none => none)
        else none
      | .op .star :: r => if phase ≤ 1 then some (ps, 2, r) else none
      | .op .dstar :: .name n :: r =>
        if phase ≤ 2 then
          (match parseAnnOpt false f r with
           | some (an, r1) => some ({ ps with kwarg := some ⟨n, an⟩ }, 3, r1)
           | none => none)
        else none
      | .op .dstar :: r => if phase ≤ 2 then some (ps, 3, r) else none
      | _ => none

theorem typedParamsE_unfold (f : Nat) (ts : List Tok) (ps : Arguments) (phase : Nat) :
    parseTypedParams (f + 1) ts ps phase =
    (match typedItemE f ts ps phase with
    | none => none
    | some (ps', phase', r) =>
      match r with
      | .op .comma :: .op .rpar :: r2 => if bareStarOk ps' phase' then some (ps', r2) else none
      | .op .comma :: r2 => parseTypedParams f r2 ps' phase'
      | .op .rpar :: r2 => if bareStarOk ps' phase' then some (ps', r2) else none
      | _ => none) := by
  rfl

theorem typedItem_erase (f σ ts ps ph) : typedItemE f ts ps.erase ph = (typedItemR σ f ts ps ph).map erArI := by
  unfold typedItemE typedItemR
  simp only [annOpt_erase f σ, defaultOpt_erase f σ]
  split <;> (try simp only []) <;> (repeat' split) <;>
    ((try simp_all [RArguments.erase, argDR_erase, RArg.erase]) <;>
      grind [erOE, erArI, RArguments.erase, argDR_erase, RArg.erase])

theorem typedParams_erase : ∀ f σ ts ps ph,
    parseTypedParams f ts ps.erase ph = (parseRTypedParams σ f ts ps ph).map erAr := by
  intro f
  induction f with
  | zero => simp [parseTypedParams, parseRTypedParams]
  | succ f ih =>
    intro σ ts ps ph
    rw [typedParamsE_unfold, parseRTypedParams, typedItem_erase f σ]
    cases typedItemR σ f ts ps ph with
    | none => simp
    | some p =>
      obtain ⟨ps', ph', r⟩ := p
      simp only [Option.map_some, erArI_mk, ih σ, bareStarOk_erase]
      (repeat' split) <;> ((try simp_all) <;> grind)

theorem validPos_erase' (a : RArguments) :
    validPos (a.erase.posonly ++ a.erase.args) = validPosR (a.posonly ++ a.args) := by
  simp [RArguments.erase, ← List.map_append, validPos_erase]

theorem erase_withRg (a : RArguments) (rg : Rg) : RArguments.erase { a with rg := rg } = a.erase := rfl

theorem parameters_erase (f σ ts) : parseParameters f ts = (parseRParameters σ f ts).map erAr := by
  have he : ∀ rg, RArguments.erase { rg := rg } = {} := fun _ => rfl
  have hp : ∀ f ts, parseTypedParams f ts {} 0 = (parseRTypedParams σ f ts { rg := (0, 0) } 0).map erAr := by
    intro f ts
    have h := typedParams_erase f σ ts { rg := (0, 0) } 0
    rwa [he] at h
  fun_cases parseRParameters σ f ts
  · simp [parseParameters]
  all_goals rw [parseParameters.eq_def]
  all_goals pstepg [hp, he, erase_withRg, validPos_erase', validNames_erase]
    [erAr, he, erase_withRg, validPos_erase', validNames_erase]

theorem decorators_erase : ∀ f σ ts, parseDecorators f ts = (parseRDecorators σ f ts).map erL := by
  intro f
  induction f with
  | zero => simp [parseDecorators, parseRDecorators]
  | succ f ih =>
    intro σ ts
    generalize hn : f + 1 = n
    fun_cases parseRDecorators σ n ts
    all_goals cases hn
    all_goals rw [parseDecorators.eq_def]
    all_goals pstepg [(eraseAt _).namedTest σ, ih σ] [erL]

/-! ### with items, `except` headers -/

def RWElem.erase (el : RWElem) : WElem := (el.e.erase, el.special, eraseOpt el.v)
def erW (p : RWithItem × List Tok) : WithItem × List Tok := (p.1.erase, p.2)
def erWs (p : List RWithItem × List Tok) : List WithItem × List Tok := (p.1.map RWithItem.erase, p.2)
def erWE (p : (List RWElem × Bool) × List Tok) : (List WElem × Bool) × List Tok := ((p.1.1.map RWElem.erase, p.1.2), p.2)
def erEH (p : (Option RExpr × Option Ident) × List Tok) : (Option Expr × Option Ident) × List Tok :=
  ((eraseOpt p.1.1, p.1.2), p.2)
@[simp] theorem erW_mk (a : RWithItem) (r : List Tok) : erW (a, r) = (a.erase, r) := rfl
@[simp] theorem erWs_mk (a : List RWithItem) (r : List Tok) : erWs (a, r) = (a.map RWithItem.erase, r) := rfl
@[simp] theorem erWE_mk (a : List RWElem) (b : Bool) (r : List Tok) :
    erWE ((a, b), r) = ((a.map RWElem.erase, b), r) := rfl
@[simp] theorem erEH_mk (a : Option RExpr) (n : Option Ident) (r : List Tok) :
    erEH ((a, n), r) = ((eraseOpt a, n), r) := rfl

@[simp] theorem eraseOpt_isSome (x : Option RExpr) : (eraseOpt x).isSome = x.isSome := by cases x <;> simp

@[simp] theorem RWElem.erase_1 (el : RWElem) : el.erase.1 = el.e.erase := rfl
@[simp] theorem RWElem.erase_21 (el : RWElem) : el.erase.2.1 = el.special := rfl
@[simp] theorem RWElem.erase_22 (el : RWElem) : el.erase.2.2 = eraseOpt el.v := rfl
theorem eraseList_eq_map (l : List RExpr) : eraseList l = l.map RExpr.erase := by
  induction l with
  | nil => simp
  | cons x xs ih => simp [ih]

theorem withItem_erase (f σ ts) : parseWithItem f ts = (parseRWithItem σ f ts).map erW := by
  fun_cases parseRWithItem σ f ts
  · simp [parseWithItem]
  all_goals rw [parseWithItem.eq_def]
  all_goals pstepg [(eraseAt _).test σ, (eraseAt _).bin σ, RWithItem.erase] [erW, RWithItem.erase]

theorem withPlain_erase : ∀ f σ ts, parseWithPlain f ts = (parseRWithPlain σ f ts).map erWs := by
  intro f
  induction f with
  | zero => simp [parseWithPlain, parseRWithPlain]
  | succ f ih =>
    intro σ ts
    rw [parseWithPlain, parseRWithPlain, withItem_erase f σ]
    pstepg [ih σ] [erW, erWs]

/-- `("as" Expression)?` of an element, reference side (the text of the `let asPart` of `parseWithParenElems`) -/
def asPartE (f : Nat) (r : List Tok) : Option (Option Expr × List Tok) :=
        match r with
        | t :: r' =>
          if tk t = .hk .as then
            (match parseBin 0 f r' with
             | some (v, r2) => some (some v, r2)
             | none => none)
          else some (none, t :: r')
        | [] => some (none, [])

theorem asPart_erase (f σ r) : asPartE f r = (asPartR σ f r).map erOE := by
  unfold asPartE asPartR
  simp only [(eraseAt f).bin σ]
  (repeat' split) <;> ((try simp_all) <;> grind [er, erOE])

theorem withParenElemsE_unfold (f : Nat) (ts : List Tok) : parseWithParenElems (f + 1) ts =
    (match parseStarOrNamed f ts with
    | none => none
    | some (e, r) =>
      match asPartE f r with
      | none => none
      | some (v, r1) =>
        let el : WElem := (e, startsSpecial ts, v)
        match r1 with
        | .op .comma :: .op .rpar :: r2 => some (([el], true), r2)
        | .op .comma :: r2 =>
          (match parseWithParenElems f r2 with
           | some ((els, tc), r3) => some ((el :: els, tc), r3)
           | none => none)
        | .op .rpar :: r2 => some (([el], false), r2)
        | _ => none) := by
  rfl

theorem withParenElems_erase : ∀ f σ ts, parseWithParenElems f ts = (parseRWithParenElems σ f ts).map erWE := by
  intro f
  induction f with
  | zero => simp [parseWithParenElems, parseRWithParenElems]
  | succ f ih =>
    intro σ ts
    rw [withParenElemsE_unfold, parseRWithParenElems, (eraseAt f).starOrNamed σ]
    cases parseRStarOrNamed σ f ts with
    | none => simp
    | some p =>
      obtain ⟨e, r⟩ := p
      simp only [Option.map_some, er_mk, asPart_erase f σ]
      cases asPartR σ f r with
      | none => simp
      | some q =>
        obtain ⟨v, r1⟩ := q
        simp only [Option.map_some, erOE_mk, ih σ]
        (repeat' split) <;> ((try simp_all [RWElem.erase]) <;> grind [erWE, RWElem.erase])

theorem asItems_erase (els : List RWElem) : ∀ seen,
    (asItemsR seen els).map RWithItem.erase = els.map (fun el => (⟨el.e.erase, eraseOpt el.v⟩ : WithItem)) := by
  induction els with
  | nil => intro seen; simp [asItemsR]
  | cons el els ih => intro seen; simp [asItemsR, ih, RWithItem.erase]

theorem withParenItems_erase (pr : Rg) (els : List RWElem) (tc : Bool) :
    withParenItems (els.map RWElem.erase) tc = (withParenItemsR pr els tc).map (List.map RWithItem.erase) := by
  unfold withParenItems withParenItemsR
  simp only [List.any_map, List.all_map, Function.comp_def, RWElem.erase, eraseOpt_isSome]
  split
  · split
    · simp
    · simp [asItems_erase, Function.comp_def]
  · split
    · simp [RWithItem.erase, Function.comp_def]
    · rcases els with _ | ⟨el, _ | ⟨el2, els⟩⟩ <;> cases tc <;>
        simp [RWithItem.erase, RExpr.erase, Function.comp_def, eraseList_eq_map]
      split <;> simp [RWithItem.erase]

theorem withParen_erase (f σ ts) : parseWithParen f ts = (parseRWithParen σ f ts).map erWs := by
  fun_cases parseRWithParen σ f ts
  · simp [parseWithParen]
  all_goals rw [parseWithParen.eq_def]
  all_goals pstepg [(eraseAt _).yieldAtom σ, (eraseAt _).starOrNamed σ, (eraseAt _).compFor σ, withParenElems_erase _ σ,
    withParenItems_erase, RWithItem.erase] [erWs, erWE, erG, RWithItem.erase, withParenItems_erase]

theorem withItems_erase (f σ ts) : parseWithItems f ts = (parseRWithItems σ f ts).map erWs := by
  fun_cases parseRWithItems σ f ts
  · simp [parseWithItems]
  all_goals rw [parseWithItems.eq_def]
  all_goals pstepg [withParen_erase _ σ, withPlain_erase _ σ] [erWs]

theorem exceptHeader_erase (f σ star ts) :
    parseExceptHeader f star ts = (parseRExceptHeader σ f star ts).map erEH := by
  fun_cases parseRExceptHeader σ f star ts
  · simp [parseExceptHeader]
  all_goals rw [parseExceptHeader.eq_def]
  all_goals pstepg [(eraseAt _).test σ] [erEH]

/-! ### compound statements -/

def eraseClause (c : Nat × RExpr × List RStmt) : Expr × List Stmt := (c.2.1.erase, eraseStmts c.2.2)
def erOS (p : Option (List RStmt) × List Tok) : Option (List Stmt) × List Tok := (p.1.map eraseStmts, p.2)
def erElifs (p : List (Nat × RExpr × List RStmt) × List Tok) : List (Expr × List Stmt) × List Tok :=
  (p.1.map eraseClause, p.2)
def erHs (p : List RHandler × List Tok) : List ExceptHandler × List Tok := (eraseHandlers p.1, p.2)
def erCs (p : List RCase × List Tok) : List MatchCase × List Tok := (eraseCases p.1, p.2)
@[simp] theorem eraseClause_mk (st : Nat) (t : RExpr) (b : List RStmt) :
    eraseClause (st, t, b) = (t.erase, eraseStmts b) := rfl
@[simp] theorem erOS_mk (a : Option (List RStmt)) (r : List Tok) : erOS (a, r) = (a.map eraseStmts, r) := rfl
@[simp] theorem erElifs_mk (a : List (Nat × RExpr × List RStmt)) (r : List Tok) :
    erElifs (a, r) = (a.map eraseClause, r) := rfl
@[simp] theorem erHs_mk (a : List RHandler) (r : List Tok) : erHs (a, r) = (eraseHandlers a, r) := rfl
@[simp] theorem erCs_mk (a : List RCase) (r : List Tok) : erCs (a, r) = (eraseCases a, r) := rfl

@[simp] theorem eraseHandlers_nil : eraseHandlers [] = [] := by simp [eraseHandlers]
@[simp] theorem eraseHandlers_cons (rg : Rg) (ty : Option RExpr) (nm : Option Ident) (b : List RStmt)
    (hs : List RHandler) :
    eraseHandlers (.mk rg ty nm b :: hs) = .mk (eraseOpt ty) nm (eraseStmts b) :: eraseHandlers hs := by
  simp [eraseHandlers]
@[simp] theorem eraseCases_nil : eraseCases [] = [] := by simp [eraseCases]
@[simp] theorem eraseCases_cons (rg : Rg) (p : RPattern) (g : Option RExpr) (b : List RStmt) (cs : List RCase) :
    eraseCases (.mk rg p g b :: cs) = .mk p.erase (eraseOpt g) (eraseStmts b) :: eraseCases cs := by
  simp [eraseCases]

@[simp] theorem getD_eraseStmts (o : Option (List RStmt)) :
    eraseStmts (o.getD []) = (o.map eraseStmts).getD [] := by cases o <;> simp

theorem elifFold_erase (endLoc : Nat) (cs : List (Nat × RExpr × List RStmt)) : ∀ last,
    eraseStmts (elifFoldR endLoc cs last) = elifFold (cs.map eraseClause) (eraseStmts last) := by
  induction cs with
  | nil => intro last; simp [elifFoldR, elifFold]
  | cons c cs ih =>
    intro last
    obtain ⟨st, t, b⟩ := c
    simp [elifFoldR, elifFold, ih, RStmt.erase]

theorem ifAssemble_erase (st : Nat) (test : RExpr) (body : List RStmt) (s2 : List (Nat × RExpr × List RStmt))
    (s3 : Option (List RStmt)) :
    (ifAssembleR st test body s2 s3).erase =
      ifAssemble test.erase (eraseStmts body) (s2.map eraseClause) (s3.map eraseStmts) := by
  simp [ifAssembleR, ifAssemble, RStmt.erase, elifFold_erase, List.map_reverse]

theorem matchSubject_erase (es : List RExpr) (tc : Bool) :
    (matchSubjectR (es, tc)).erase = genericList (eraseList es, tc) := by
  rcases es with _ | ⟨e, _ | ⟨e2, es⟩⟩ <;> cases tc <;> simp [matchSubjectR, genericList, RExpr.erase]

/-! ### compound statements: what is proved for every fuel -/

structure CompAt (f : Nat) : Prop where
  suite : ∀ σ ts, parseSuite f ts = (parseRSuite σ f ts).map erSs
  block : ∀ σ ts, parseBlock f ts = (parseRBlock σ f ts).map erSs
  else_ : ∀ σ ts, parseElse f ts = (parseRElse σ f ts).map erOS
  finally_ : ∀ σ ts, parseFinally f ts = (parseRFinally σ f ts).map erOS
  elifs : ∀ σ ts, parseElifs f ts = (parseRElifs σ f ts).map erElifs
  handlers : ∀ σ star ts, parseHandlers f star ts = (parseRHandlers σ f star ts).map erHs
  cases_ : ∀ σ ts, parseCases f ts = (parseRCases σ f ts).map erCs
  def_ : ∀ σ st isAsync decos ts,
    parseDef f isAsync (eraseList decos) ts = (parseRDef σ f st isAsync decos ts).map erS
  class_ : ∀ σ st decos ts, parseClass f (eraseList decos) ts = (parseRClass σ f st decos ts).map erS
  compound : ∀ σ ts, parseCompound f ts = (parseRCompound σ f ts).map erS
  for_ : ∀ σ st isAsync ts, parseFor f isAsync ts = (parseRFor σ f st isAsync ts).map erS
  with_ : ∀ σ st isAsync ts, parseWith f isAsync ts = (parseRWith σ f st isAsync ts).map erS

def BelowComp (n : Nat) : Prop := ∀ f, n = f + 1 → CompAt f

macro "cstep" "[" ts:term,* "]" : tactic => `(tactic|
  pstepg [$[$ts:term],*] [erOS, erElifs, erHs, erCs, erEH, erP, erTP, erAr, erOE, erAs, erWs, eraseHandlers_cons,
    eraseHandlers_nil, eraseCases_cons, eraseCases_nil, eraseStmts_cons, eraseStmts_nil, eraseStmts_append,
    eraseClause])

theorem cstep_suite {n} (ih : BelowComp n) : ∀ σ ts, parseSuite n ts = (parseRSuite σ n ts).map erSs := by
  intro σ ts
  fun_cases parseRSuite σ n ts
  · simp [parseSuite]
  all_goals have ih := ih _ rfl
  all_goals rw [parseSuite.eq_def]
  all_goals cstep [ih.block σ, simpleLine_erase _ σ]

/-- the first statement(s) of a block, reference side (the text of the `let first` of `parseBlock`) -/
def firstE (f : Nat) (ts : List Tok) : PR (List Stmt) :=
      if startsCompound ts then
        (match parseCompound f ts with
         | some (s, r) => some ([s], r)
         | none => none)
      else parseSimpleLine f ts

def firstR (σ : SpanTab) (f : Nat) (ts : List Tok) : PR (List RStmt) :=
      if startsCompound ts then
        (match parseRCompound σ f ts with
         | some (s, r) => some ([s], r)
         | none => none)
      else parseRSimpleLine σ f ts

theorem blockE_unfold (f : Nat) (ts : List Tok) : parseBlock (f + 1) ts =
    (match firstE f ts with
    | some (ss, t :: r) =>
      if tk t = .dedent then some (ss, r)
      else
        (match parseBlock f (t :: r) with
         | some (more, r2) => some (ss ++ more, r2)
         | none => none)
    | _ => none) := by
  rw [parseBlock.eq_def]; rfl

theorem blockR_unfold (σ : SpanTab) (f : Nat) (ts : List Tok) : parseRBlock σ (f + 1) ts =
    (match firstR σ f ts with
    | some (ss, t :: r) =>
      if tk t = .dedent then some (ss, r)
      else
        (match parseRBlock σ f (t :: r) with
         | some (more, r2) => some (ss ++ more, r2)
         | none => none)
    | _ => none) := by
  rw [parseRBlock.eq_def]; rfl

theorem first_erase {f} (ih : CompAt f) (σ ts) : firstE f ts = (firstR σ f ts).map erSs := by
  unfold firstE firstR
  simp only [ih.compound σ, simpleLine_erase f σ]
  split
  · cases parseRCompound σ f ts <;> simp [erS]
  · rfl

theorem cstep_block {n} (ih : BelowComp n) : ∀ σ ts, parseBlock n ts = (parseRBlock σ n ts).map erSs := by
  intro σ ts
  cases n with
  | zero => simp [parseBlock, parseRBlock]
  | succ f =>
    have ih := ih _ rfl
    rw [blockE_unfold, blockR_unfold, first_erase ih σ]
    cstep [ih.block σ]

theorem cstep_else {n} (ih : BelowComp n) : ∀ σ ts, parseElse n ts = (parseRElse σ n ts).map erOS := by
  intro σ ts
  fun_cases parseRElse σ n ts
  · simp [parseElse]
  all_goals have ih := ih _ rfl
  all_goals rw [parseElse.eq_def]
  all_goals cstep [ih.suite σ]

theorem cstep_finally {n} (ih : BelowComp n) : ∀ σ ts, parseFinally n ts = (parseRFinally σ n ts).map erOS := by
  intro σ ts
  fun_cases parseRFinally σ n ts
  · simp [parseFinally]
  all_goals have ih := ih _ rfl
  all_goals rw [parseFinally.eq_def]
  all_goals cstep [ih.suite σ]

theorem cstep_elifs {n} (ih : BelowComp n) : ∀ σ ts, parseElifs n ts = (parseRElifs σ n ts).map erElifs := by
  intro σ ts
  fun_cases parseRElifs σ n ts
  · simp [parseElifs]
  all_goals have ih := ih _ rfl
  all_goals rw [parseElifs.eq_def]
  all_goals cstep [ih.suite σ, ih.elifs σ, (eraseAt _).namedTest σ]

theorem cstep_handlers {n} (ih : BelowComp n) :
    ∀ σ star ts, parseHandlers n star ts = (parseRHandlers σ n star ts).map erHs := by
  intro σ star ts
  fun_cases parseRHandlers σ n star ts
  · simp [parseHandlers]
  all_goals have ih := ih _ rfl
  all_goals rw [parseHandlers.eq_def]
  all_goals cstep [ih.suite σ, ih.handlers σ, exceptHeader_erase _ σ]

theorem cstep_for {n} (ih : BelowComp n) :
    ∀ σ st isAsync ts, parseFor n isAsync ts = (parseRFor σ n st isAsync ts).map erS := by
  intro σ st isAsync ts
  fun_cases parseRFor σ n st isAsync ts
  · simp [parseFor]
  all_goals have ih := ih _ rfl
  all_goals rw [parseFor.eq_def]
  all_goals cstep [ih.suite σ, ih.else_ σ, (eraseAt _).targetList σ, testListS_erase _ σ]

theorem cstep_with {n} (ih : BelowComp n) :
    ∀ σ st isAsync ts, parseWith n isAsync ts = (parseRWith σ n st isAsync ts).map erS := by
  intro σ st isAsync ts
  fun_cases parseRWith σ n st isAsync ts
  · simp [parseWith]
  all_goals have ih := ih _ rfl
  all_goals rw [parseWith.eq_def]
  all_goals cstep [ih.suite σ, withItems_erase _ σ]

/-- `(Guard)?`, reference side (the text of the `let guard` of `parseCases`) -/
def guardOfE (f : Nat) (r1 : List Tok) : PR (Option Expr) :=
           match r1 with
           | .kw .if :: r2 =>
             (match parseNamedTest f r2 with
              | some (g, r3) => some (some g, r3)
              | none => none)
           | _ => some (none, r1)

theorem guardOf_erase (f σ r1) : guardOfE f r1 = (guardOfR σ f r1).map erOE := by
  unfold guardOfE guardOfR
  simp only [(eraseAt f).namedTest σ]
  (repeat' split) <;> ((try simp_all) <;> grind [er, erOE])

theorem casesE_unfold (f : Nat) (t : Tok) (r : List Tok) : parseCases (f + 1) (t :: r) =
    (if tk t = .hk .case then
      (match parsePatterns f r with
       | some (p, r1) =>
         (match guardOfE f r1 with
          | some (g, .op .colon :: r4) =>
            (match parseSuite f r4 with
             | some (body, t5 :: r5) =>
               if tk t5 = .dedent then some ([.mk p g body], r5)
               else
                 (match parseCases f (t5 :: r5) with
                  | some (cs, r6) => some (.mk p g body :: cs, r6)
                  | none => none)
             | _ => none)
          | _ => none)
       | none => none)
    else none) := by
  rw [parseCases.eq_def]; rfl

theorem cstep_cases {n} (ih : BelowComp n) : ∀ σ ts, parseCases n ts = (parseRCases σ n ts).map erCs := by
  intro σ ts
  fun_cases parseRCases σ n ts
  · simp [parseCases]
  · simp [parseCases]
  all_goals have ih := ih _ rfl
  all_goals rw [casesE_unfold]
  all_goals cstep [ih.suite σ, ih.cases_ σ, patterns_erase _ σ, guardOf_erase _ σ]

/-- `("->" Test)?`, reference side (the text of the `let ret` of `parseDef`) -/
def retOfE (f : Nat) (r2 : List Tok) : PR (Option Expr) :=
            match r2 with
            | t :: r3 =>
              if tk t = .arrow then
                (match parseTest f r3 with
                 | some (e, r4) => some (some e, r4)
                 | none => none)
              else some (none, t :: r3)
            | [] => some (none, [])

theorem retOf_erase (f σ r2) : retOfE f r2 = (retOfR σ f r2).map erOE := by
  unfold retOfE retOfR
  simp only [(eraseAt f).test σ]
  (repeat' split) <;> ((try simp_all) <;> grind [er, erOE])

theorem defE_unfold (f : Nat) (isAsync : Bool) (decos : List Expr) (n : Ident) (r : List Tok) :
    parseDef (f + 1) isAsync decos (.name n :: r) =
    (match parseTypeParamsOpt f r with
     | some (tps, .op .lpar :: r1) =>
       (match parseParameters f r1 with
        | some (args, r2) =>
          (match retOfE f r2 with
           | some (returns, .op .colon :: r5) =>
             (match parseSuite f r5 with
              | some (body, r6) =>
                if isAsync then some (.asyncFunctionDef n args body decos returns tps, r6)
                else some (.functionDef n args body decos returns tps, r6)
              | none => none)
           | _ => none)
        | none => none)
     | _ => none) := by
  rw [parseDef.eq_def]; rfl

theorem cstep_def {n} (ih : BelowComp n) : ∀ σ st isAsync decos ts,
    parseDef n isAsync (eraseList decos) ts = (parseRDef σ n st isAsync decos ts).map erS := by
  intro σ st isAsync decos ts
  fun_cases parseRDef σ n st isAsync decos ts
  · simp [parseDef]
  rotate_right
  · rw [parseDef.eq_def]; simp_all
  all_goals have ih := ih _ rfl
  all_goals rw [defE_unfold]
  all_goals cstep [ih.suite σ, typeParamsOpt_erase _ σ, parameters_erase _ σ, retOf_erase _ σ]

/-- `("(" ArgumentList ")")?`, reference side (the text of the `let argl` of `parseClass`) -/
def classArgsOfE (f : Nat) (r1 : List Tok) : PR (List Expr × List Keyword) :=
         match r1 with
         | .op .lpar :: r2 => parseArgs f r2 [] [] false
         | _ => some (([], []), r1)

theorem classArgsOf_erase (f σ r1) : classArgsOfE f r1 = (classArgsOfR σ f r1).map erAs := by
  unfold classArgsOfE classArgsOfR
  have ha := (eraseAt f).args σ (as := []) (ks := []) (d := false)
  simp only [eraseList_nil, eraseKws_nil] at ha
  split <;> simp [ha]

theorem classE_unfold (f : Nat) (decos : List Expr) (n : Ident) (r : List Tok) :
    parseClass (f + 1) decos (.name n :: r) =
    (match parseTypeParamsOpt f r with
     | some (tps, r1) =>
       (match classArgsOfE f r1 with
        | some ((bases, kws), .op .colon :: r3) =>
          (match parseSuite f r3 with
           | some (body, r4) => some (.classDef n bases kws body decos tps, r4)
           | none => none)
        | _ => none)
     | none => none) := by
  rw [parseClass.eq_def]; rfl

theorem cstep_class {n} (ih : BelowComp n) : ∀ σ st decos ts,
    parseClass n (eraseList decos) ts = (parseRClass σ n st decos ts).map erS := by
  intro σ st decos ts
  fun_cases parseRClass σ n st decos ts
  · simp [parseClass]
  rotate_right
  · rw [parseClass.eq_def]; simp_all
  all_goals have ih := ih _ rfl
  all_goals rw [classE_unfold]
  all_goals cstep [ih.suite σ, typeParamsOpt_erase _ σ, classArgsOf_erase _ σ]

theorem cstep_compound {n} (ih : BelowComp n) : ∀ σ ts, parseCompound n ts = (parseRCompound σ n ts).map erS := by
  intro σ ts
  fun_cases parseRCompound σ n ts
  · simp [parseCompound]
  all_goals have hd := fun st a ts => ((ih _ rfl).def_ σ st a [] ts).symm
  all_goals have hc := fun st ts => ((ih _ rfl).class_ σ st [] ts).symm
  all_goals simp only [eraseList_nil] at hd hc
  all_goals rw [parseCompound.eq_def]
  all_goals cstep [(ih _ rfl).suite σ, (ih _ rfl).elifs σ, (ih _ rfl).else_ σ, (ih _ rfl).finally_ σ,
    (ih _ rfl).handlers σ, (ih _ rfl).cases_ σ, (eraseAt _).namedTest σ, decorators_erase _ σ, commaList_erase _ σ,
    ifAssemble_erase, matchSubject_erase, hd, hc,
    fun st a d ts => ((ih _ rfl).def_ σ st a d ts).symm, fun st d ts => ((ih _ rfl).class_ σ st d ts).symm,
    fun st a ts => ((ih _ rfl).for_ σ st a ts).symm, fun st a ts => ((ih _ rfl).with_ σ st a ts).symm]

theorem compAt_of_below {n : Nat} (b : BelowComp n) : CompAt n :=
  ⟨cstep_suite b, cstep_block b, cstep_else b, cstep_finally b, cstep_elifs b, cstep_handlers b, cstep_cases b,
    cstep_def b, cstep_class b, cstep_compound b, cstep_for b, cstep_with b⟩

/-- every compound-statement function of the ranged parser erases to its twin, at every fuel -/
theorem compAt : ∀ n, CompAt n
  | 0 => compAt_of_below (fun f h => absurd h (by omega))
  | n + 1 => compAt_of_below (fun f h => by cases h; exact compAt n)

/-! ### `Program`, `Top`, and the whole parser -/

theorem programBody_erase : ∀ f σ ts, parseProgramBody f ts = (parseRProgramBody σ f ts).map eraseStmts := by
  intro f
  induction f with
  | zero => simp [parseProgramBody, parseRProgramBody]
  | succ f ih =>
    intro σ ts
    generalize hn : f + 1 = n
    fun_cases parseRProgramBody σ n ts
    all_goals cases hn
    all_goals rw [parseProgramBody.eq_def]
    all_goals cstep [ih σ, (compAt _).compound σ, simpleLine_erase _ σ]

theorem topT_erase (σ mode fuel ts) : parseTopT mode fuel ts = (parseRTopT σ mode fuel ts).map RMod.erase := by
  unfold parseTopT parseRTopT
  cases mode <;> simp only [programBody_erase fuel σ, testListS_erase fuel σ]
  · cases parseRProgramBody σ fuel ts <;> simp [RMod.erase]
  · cases parseRProgramBody σ fuel ts <;> simp [RMod.erase]
  · cases parseRTestListS σ fuel ts with
    | none => simp
    | some p => obtain ⟨e, r⟩ := p; simp only [Option.map_some, er_mk]; split <;> simp [RMod.erase]

/-- **Erasing the ranges from the ranged program parser gives the reference program parser** (explicit fuel) -/
theorem parseRProgramFuel_erase (fuel : Nat) (mode : PV.Prog.Mode) (toks : List RPTok) :
    (parseRProgramFuel fuel mode toks).map RMod.erase = PV.Prog.parseProgramFuel fuel mode (toks.map (·.tok)) := by
  unfold parseRProgramFuel parseProgramFuel
  rw [topT_erase (pspanTab toks), List.map_map]
  rfl

/-- **Erasing the ranges from `parseRProgram` gives `PV.Prog.parseProgram`** -/
theorem parseRProgram_erase (mode : PV.Prog.Mode) (toks : List RPTok) :
    (parseRProgram mode toks).map RMod.erase = PV.Prog.parseProgram mode (toks.map (·.tok)) := by
  unfold parseRProgram parseProgram
  rw [parseRProgramFuel_erase, List.map_map]
  rfl

/-- the tokens of `x = 1⏎` with their spans -/
private def exToks : List RPTok :=
  [⟨.e (.name [120]), 0, 1⟩, ⟨.e (.op .assign), 2, 3⟩, ⟨.e (.int 1), 4, 5⟩, ⟨.newline, 5, 6⟩]

/-- non-vacuity: `x = 1⏎` parses on the ranged side, with these ranges … -/
example : parseRProgramFuel 40 .module exToks =
    some (.module (0, 6) [.assign (0, 5) [.name (0, 1) [120]] (.const (4, 5) (.int 1))]) := by
  rfl

/-- … and on the reference side, to the erased tree -/
example : parseProgramFuel 40 .module (exToks.map (·.tok)) =
    some (.module [.assign [.name [120]] (.const (.int 1))]) := by
  rfl

end PV.C02
