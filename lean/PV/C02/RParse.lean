import PV.Expr.Syntax
import PV.C11.Spec
import PV.C02.Model
/-
  PV.C02.RParse — the RANGED twin of the reference parser `PV.C11.parseRef`: a model of how the grammar
  actions of `parser/src/python.lalrpop` (and `function.rs`, `string.rs`) compute the range of every node of
  the expression fragment, under `all-nodes-with-ranges`.

  * Same control structure as `PV/C11/Spec.lean`, function by function (`parseRTest` ↔ `parseTest`, …);
    the token list is the same `List Tok`.  Ranges come from a span table `σ : Nat → Nat × Nat`:
    `σ k` is the byte span of the token that has `k` tokens (itself included) up to the end of the input.
    So for a cursor `ts` (the tokens not yet consumed)
      `L σ ts` = start of the next token           = LALRPOP's `@L` in front of a non-empty production,
      `R σ ts` = end of the token just consumed     = LALRPOP's `@R` behind a non-empty production,
      `P σ ts` = start of the token just consumed.
  * Every action's `(location..end_location)` becomes `(L σ ts, R σ rest)` with `ts` the cursor where the
    production starts and `rest` the cursor where it ends.  The exceptions are copied from the code as it is:
    parenthesised atoms return the inner node unchanged; `NamedExpr` ends at `value.end()`; a lambda without
    parameters gives its `Arguments` the empty range right behind the keyword; an `ArgWithDefault` keeps the range of the
    bare parameter; a generator expression as sole call argument is ranged without the call's parentheses;
    every piece of an f-string literal carries the range of that literal, plain pieces that are merged by
    `parse_strings` the range of the whole concatenation; the expression of a replacement field is parsed
    from `"(" ++ text ++ ")"` at `location - 1` where `location` advances by the UTF-8 size of every character
    of the token's (line-break-normalised) value.

  Core Lean only.
-/
namespace PV.C02
open PV.Expr PV.C11

abbrev Rg := Nat × Nat

mutual
/-- `rustpython_ast::Expr` with the `range` of every node (no ctx). -/
inductive RExpr where
  | name (rg : Rg) (id : Ident)
  | const (rg : Rg) (c : Const)
  | boolOp (rg : Rg) (op : BoolOp) (values : List RExpr)
  | namedExpr (rg : Rg) (target value : RExpr)
  | binOp (rg : Rg) (left : RExpr) (op : BinOp) (right : RExpr)
  | unaryOp (rg : Rg) (op : UnaryOp) (operand : RExpr)
  /-- `argsRg` is the range of the `Arguments` node; `vararg`/`kwarg` are `Arg` nodes -/
  | lambda (rg : Rg) (argsRg : Rg) (posonly args : List RParam) (vararg : Option (Rg × Ident))
      (kwonly : List RParam) (kwarg : Option (Rg × Ident)) (body : RExpr)
  | ifExp (rg : Rg) (test body orelse : RExpr)
  | dict (rg : Rg) (items : List RDictItem)
  | set (rg : Rg) (elts : List RExpr)
  | listComp (rg : Rg) (elt : RExpr) (gens : List RComp)
  | setComp (rg : Rg) (elt : RExpr) (gens : List RComp)
  | dictComp (rg : Rg) (key value : RExpr) (gens : List RComp)
  | genExp (rg : Rg) (elt : RExpr) (gens : List RComp)
  | await (rg : Rg) (value : RExpr)
  | yield (rg : Rg) (value : Option RExpr)
  | yieldFrom (rg : Rg) (value : RExpr)
  | compare (rg : Rg) (left : RExpr) (ops : List CmpOp) (comparators : List RExpr)
  | call (rg : Rg) (func : RExpr) (args : List RExpr) (keywords : List RKeyword)
  | formattedValue (rg : Rg) (value : RExpr) (conv : Conv) (spec : Option RExpr)
  | joinedStr (rg : Rg) (values : List RExpr)
  | attribute (rg : Rg) (value : RExpr) (attr : Ident)
  | subscript (rg : Rg) (value slice : RExpr)
  | starred (rg : Rg) (value : RExpr)
  | list (rg : Rg) (elts : List RExpr)
  | tuple (rg : Rg) (elts : List RExpr)
  | slice (rg : Rg) (lower upper step : Option RExpr)
/-- `Comprehension` (ranged under `all-nodes-with-ranges`) -/
inductive RComp where
  | mk (rg : Rg) (target iter : RExpr) (ifs : List RExpr) (isAsync : Bool)
/-- `ArgWithDefault { def: Arg, default }`: `rg` of the `ArgWithDefault`, `defRg` of the `Arg` -/
inductive RParam where
  | mk (rg defRg : Rg) (name : Ident) (default : Option RExpr)
/-- `Keyword` -/
inductive RKeyword where
  | mk (rg : Rg) (arg : Option Ident) (value : RExpr)
/-- one entry of a `Dict` (not a node) -/
inductive RDictItem where
  | mk (key : Option RExpr) (value : RExpr)
end

instance : Inhabited RExpr := ⟨.name (0, 0) []⟩

def RExpr.range : RExpr → Rg
  | .name rg _ | .const rg _ | .boolOp rg _ _ | .namedExpr rg _ _ | .binOp rg _ _ _ | .unaryOp rg _ _
  | .lambda rg _ _ _ _ _ _ _ | .ifExp rg _ _ _ | .dict rg _ | .set rg _ | .listComp rg _ _ | .setComp rg _ _
  | .dictComp rg _ _ _ | .genExp rg _ _ | .await rg _ | .yield rg _ | .yieldFrom rg _ | .compare rg _ _ _
  | .call rg _ _ _ | .formattedValue rg _ _ _ | .joinedStr rg _ | .attribute rg _ _ | .subscript rg _ _
  | .starred rg _ | .list rg _ | .tuple rg _ | .slice rg _ _ _ => rg

/-! ## erasing the ranges -/

mutual
def RExpr.erase : RExpr → Expr
  | .name _ id => .name id
  | .const _ c => .const c
  | .boolOp _ op vs => .boolOp op (eraseList vs)
  | .namedExpr _ t v => .namedExpr t.erase v.erase
  | .binOp _ l op r => .binOp l.erase op r.erase
  | .unaryOp _ op e => .unaryOp op e.erase
  | .lambda _ _ po ar va ko kw b =>
    .lambda (eraseParams po) (eraseParams ar) (va.map (·.2)) (eraseParams ko) (kw.map (·.2)) b.erase
  | .ifExp _ t b o => .ifExp t.erase b.erase o.erase
  | .dict _ items => .dict (eraseItems items)
  | .set _ es => .set (eraseList es)
  | .listComp _ e gs => .listComp e.erase (eraseComps gs)
  | .setComp _ e gs => .setComp e.erase (eraseComps gs)
  | .dictComp _ k v gs => .dictComp k.erase v.erase (eraseComps gs)
  | .genExp _ e gs => .genExp e.erase (eraseComps gs)
  | .await _ e => .await e.erase
  | .yield _ e => .yield (eraseOpt e)
  | .yieldFrom _ e => .yieldFrom e.erase
  | .compare _ l ops cs => .compare l.erase ops (eraseList cs)
  | .call _ f as ks => .call f.erase (eraseList as) (eraseKws ks)
  | .formattedValue _ v c spec => .formattedValue v.erase c (eraseOpt spec)
  | .joinedStr _ vs => .joinedStr (eraseList vs)
  | .attribute _ e a => .attribute e.erase a
  | .subscript _ e s => .subscript e.erase s.erase
  | .starred _ e => .starred e.erase
  | .list _ es => .list (eraseList es)
  | .tuple _ es => .tuple (eraseList es)
  | .slice _ a b c => .slice (eraseOpt a) (eraseOpt b) (eraseOpt c)
def eraseList : List RExpr → List Expr
  | [] => []
  | e :: es => e.erase :: eraseList es
def eraseOpt : Option RExpr → Option Expr
  | none => none
  | some e => some e.erase
def eraseComps : List RComp → List Comp
  | [] => []
  | .mk _ t i ifs a :: gs => .mk t.erase i.erase (eraseList ifs) a :: eraseComps gs
def eraseParams : List RParam → List Param
  | [] => []
  | .mk _ _ n d :: ps => .mk n (eraseOpt d) :: eraseParams ps
def eraseKws : List RKeyword → List Keyword
  | [] => []
  | .mk _ a v :: ks => .mk a v.erase :: eraseKws ks
def eraseItems : List RDictItem → List DictItem
  | [] => []
  | .mk k v :: is => .mk (eraseOpt k) v.erase :: eraseItems is
end

def RParam.erase : RParam → Param
  | .mk _ _ n d => .mk n (eraseOpt d)
def RKeyword.erase : RKeyword → Keyword
  | .mk _ a v => .mk a v.erase
def RComp.erase : RComp → Comp
  | .mk _ t i ifs a => .mk t.erase i.erase (eraseList ifs) a
def RDictItem.erase : RDictItem → DictItem
  | .mk k v => .mk (eraseOpt k) v.erase

/-! ## the generic ranged tree (kinds and slots as in the `{:?}` dump of the Rust structs) -/

def RExpr.kind : RExpr → String
  | .name .. => "ExprName" | .const .. => "ExprConstant" | .boolOp .. => "ExprBoolOp"
  | .namedExpr .. => "ExprNamedExpr" | .binOp .. => "ExprBinOp" | .unaryOp .. => "ExprUnaryOp"
  | .lambda .. => "ExprLambda" | .ifExp .. => "ExprIfExp" | .dict .. => "ExprDict" | .set .. => "ExprSet"
  | .listComp .. => "ExprListComp" | .setComp .. => "ExprSetComp" | .dictComp .. => "ExprDictComp"
  | .genExp .. => "ExprGeneratorExp" | .await .. => "ExprAwait" | .yield .. => "ExprYield"
  | .yieldFrom .. => "ExprYieldFrom" | .compare .. => "ExprCompare" | .call .. => "ExprCall"
  | .formattedValue .. => "ExprFormattedValue" | .joinedStr .. => "ExprJoinedStr" | .attribute .. => "ExprAttribute"
  | .subscript .. => "ExprSubscript" | .starred .. => "ExprStarred" | .list .. => "ExprList"
  | .tuple .. => "ExprTuple" | .slice .. => "ExprSlice"

def argTree (slot : String) (a : Rg × Ident) : Tree := .node "Arg" slot false (some a.1) []

mutual
/-- the ranged nodes directly below a node, in schema order (`ast/src/gen/generic.rs`), list elements in list
    order; a child knows the field it sits in and whether that field is a list -/
def RExpr.children : RExpr → List Tree
  | .name _ _ => []
  | .const _ _ => []
  | .boolOp _ _ vs => toTrees "values" vs
  | .namedExpr _ t v =>
    [.node t.kind "target" false (some t.range) t.children, .node v.kind "value" false (some v.range) v.children]
  | .binOp _ l _ r =>
    [.node l.kind "left" false (some l.range) l.children, .node r.kind "right" false (some r.range) r.children]
  | .unaryOp _ _ e => [.node e.kind "operand" false (some e.range) e.children]
  | .lambda _ argsRg po ar va ko kw b =>
    [.node "Arguments" "args" false (some argsRg)
       (paramTrees "posonlyargs" po ++ paramTrees "args" ar ++ (va.map (argTree "vararg")).toList ++
        paramTrees "kwonlyargs" ko ++ (kw.map (argTree "kwarg")).toList),
     .node b.kind "body" false (some b.range) b.children]
  | .ifExp _ t b o =>
    [.node t.kind "test" false (some t.range) t.children, .node b.kind "body" false (some b.range) b.children,
     .node o.kind "orelse" false (some o.range) o.children]
  | .dict _ items => keyTrees items ++ valueTrees items
  | .set _ es => toTrees "elts" es
  | .listComp _ e gs => .node e.kind "elt" false (some e.range) e.children :: compTrees gs
  | .setComp _ e gs => .node e.kind "elt" false (some e.range) e.children :: compTrees gs
  | .dictComp _ k v gs =>
    .node k.kind "key" false (some k.range) k.children :: .node v.kind "value" false (some v.range) v.children ::
      compTrees gs
  | .genExp _ e gs => .node e.kind "elt" false (some e.range) e.children :: compTrees gs
  | .await _ e => [.node e.kind "value" false (some e.range) e.children]
  | .yield _ e => optTree "value" e
  | .yieldFrom _ e => [.node e.kind "value" false (some e.range) e.children]
  | .compare _ l _ cs => .node l.kind "left" false (some l.range) l.children :: toTrees "comparators" cs
  | .call _ f as ks => .node f.kind "func" false (some f.range) f.children :: (toTrees "args" as ++ kwTrees ks)
  | .formattedValue _ v _ spec => .node v.kind "value" false (some v.range) v.children :: optTree "format_spec" spec
  | .joinedStr _ vs => toTrees "values" vs
  | .attribute _ e _ => [.node e.kind "value" false (some e.range) e.children]
  | .subscript _ e s =>
    [.node e.kind "value" false (some e.range) e.children, .node s.kind "slice" false (some s.range) s.children]
  | .starred _ e => [.node e.kind "value" false (some e.range) e.children]
  | .list _ es => toTrees "elts" es
  | .tuple _ es => toTrees "elts" es
  | .slice _ a b c => optTree "lower" a ++ optTree "upper" b ++ optTree "step" c
def toTrees (slot : String) : List RExpr → List Tree
  | [] => []
  | e :: es => .node e.kind slot true (some e.range) e.children :: toTrees slot es
def optTree (slot : String) : Option RExpr → List Tree
  | none => []
  | some e => [.node e.kind slot false (some e.range) e.children]
def compTrees : List RComp → List Tree
  | [] => []
  | .mk rg t i ifs _ :: gs =>
    .node "Comprehension" "generators" true (some rg)
      (.node t.kind "target" false (some t.range) t.children :: .node i.kind "iter" false (some i.range) i.children ::
        toTrees "ifs" ifs) :: compTrees gs
def paramTrees (slot : String) : List RParam → List Tree
  | [] => []
  | .mk rg defRg _ d :: ps =>
    .node "ArgWithDefault" slot true (some rg)
      (.node "Arg" "def" false (some defRg) [] :: optTree "default" d) :: paramTrees slot ps
def kwTrees : List RKeyword → List Tree
  | [] => []
  | .mk rg _ v :: ks =>
    .node "Keyword" "keywords" true (some rg) [.node v.kind "value" false (some v.range) v.children] :: kwTrees ks
def keyTrees : List RDictItem → List Tree
  | [] => []
  | .mk none _ :: is => keyTrees is
  | .mk (some k) _ :: is => .node k.kind "keys" true (some k.range) k.children :: keyTrees is
def valueTrees : List RDictItem → List Tree
  | [] => []
  | .mk _ v :: is => .node v.kind "values" true (some v.range) v.children :: valueTrees is
end

/-- the generic tree of a ranged expression; `slot` / `inList`: the field of the parent the node sits in -/
def RExpr.toTree (slot : String) (il : Bool) (e : RExpr) : Tree := .node e.kind slot il (some e.range) e.children

/-! ## span tables -/

/-- `σ k`: span of the token with `k` tokens (itself included) up to the end of the input -/
abbrev SpanTab := Nat → Rg

/-- `@L`: start of the next token -/
def L (σ : SpanTab) (ts : List Tok) : Nat := (σ ts.length).1
/-- `@R`: end of the token just consumed -/
def R (σ : SpanTab) (ts : List Tok) : Nat := (σ (ts.length + 1)).2
/-- start of the token just consumed -/
def P (σ : SpanTab) (ts : List Tok) : Nat := (σ (ts.length + 1)).1

/-- UTF-8 size of a scalar value (`char::len_utf8`) -/
def usize (c : Nat) : Nat := if c < 0x80 then 1 else if c < 0x800 then 2 else if c < 0x10000 then 3 else 4

def ulen : List Nat → Nat
  | [] => 0
  | c :: cs => usize c + ulen cs

/-! ## parameters and arguments: bookkeeping -/

structure RParams where
  posonly : List RParam := []
  args : List RParam := []
  vararg : Option (Rg × Ident) := none
  kwonly : List RParam := []
  kwarg : Option (Rg × Ident) := none

def RParams.erase (ps : RParams) : Params :=
  { posonly := eraseParams ps.posonly, args := eraseParams ps.args, vararg := ps.vararg.map (·.2),
    kwonly := eraseParams ps.kwonly, kwarg := ps.kwarg.map (·.2) }

def rkwHasName (n : Ident) : RKeyword → Bool
  | .mk _ (some m) _ => m == n
  | _ => false

def isStarredR : RExpr → Bool
  | .starred .. => true
  | _ => false

/-- `parse_strings` de-duplication: merged plain pieces carry the range of the whole concatenation -/
def dedupRPieces (rg : Rg) (u : Bool) : List (List Nat ⊕ RExpr) → Option (List Nat) → List RExpr
  | [], none => []
  | [], some cur => [.const rg (.str cur u)]
  | .inl s :: r, none => if s.isEmpty then dedupRPieces rg u r none else dedupRPieces rg u r (some s)
  | .inl s :: r, some cur => dedupRPieces rg u r (some (cur ++ s))
  | .inr e :: r, none => e :: dedupRPieces rg u r none
  | .inr e :: r, some cur => .const rg (.str cur u) :: e :: dedupRPieces rg u r none

def rexprToPiece : RExpr → (List Nat ⊕ RExpr)
  | .const _ (.str s _) => .inl s
  | e => .inr e

/-! ## byte spans of the tokens of a replacement-field expression

  `lexSpans` runs the same token loop as `PV.C11.lexGo` and records, for every token, how many characters
  were left before and after it; `fieldTab` turns that into the span table of `"(" ++ text ++ ")"` lexed at
  `location - 1`. -/

def lexSpansGo : Nat → Nat → List Nat → Option (List (Nat × Nat))
  | 0, _, _ => none
  | _, nest, [] => if nest = 0 then some [] else none
  | fuel + 1, nest, c :: rest =>
    if c = 32 ∨ c = 9 ∨ c = 12 then lexSpansGo fuel nest rest
    else if c = 10 ∨ c = 13 then
      if nest > 0 then lexSpansGo fuel nest rest
      else
        (match lexSpansGo fuel nest rest with
         | some [] => some []
         | _ => none)
    else if c = 35 then lexSpansGo fuel nest (dropLine rest)
    else if c = 92 then
      (match rest with
       | 10 :: r => lexSpansGo fuel nest r
       | _ => none)
    else if isIdStart c then
      match lexString (c :: rest) with
      | some (_, r) => (lexSpansGo fuel nest r).map ((rest.length + 1, r.length) :: ·)
      | none =>
        if (stringPrefix (c :: rest)).isSome then none else
        let (_, r) := spanIdCont (c :: rest)
        (lexSpansGo fuel nest r).map ((rest.length + 1, r.length) :: ·)
    else if isDigit c || (c == 46 && (match rest with | d :: _ => isDigit d | [] => false)) then
      match lexNumber (c :: rest) with
      | some (_, r) => (lexSpansGo fuel nest r).map ((rest.length + 1, r.length) :: ·)
      | none => none
    else if c = 34 ∨ c = 39 then
      match lexString (c :: rest) with
      | some (_, r) => (lexSpansGo fuel nest r).map ((rest.length + 1, r.length) :: ·)
      | none => none
    else
      match lexOp (c :: rest) with
      | some (o, r) =>
        let nest' :=
          if o = .lpar ∨ o = .lsqb ∨ o = .lbrace then nest + 1
          else if o = .rpar ∨ o = .rsqb ∨ o = .rbrace then nest - 1
          else nest
        if (o = .rpar ∨ o = .rsqb ∨ o = .rbrace) ∧ nest = 0 then none
        else (lexSpansGo fuel nest' r).map ((rest.length + 1, r.length) :: ·)
      | none =>
        if isEmojiName c then (lexSpansGo fuel nest rest).map ((rest.length + 1, rest.length) :: ·) else none

/-- byte position inside `text` of the place where `k` characters are left -/
def posIn (base : Nat) (text : List Nat) (k : Nat) : Nat := base + ulen (text.take (text.length - k))

/-- spans (bytes) of the tokens of `text` lexed at byte offset `base` -/
def lexSpans (base : Nat) (text : List Nat) : List Rg :=
  match lexSpansGo (text.length + 1) 0 text with
  | some l => l.map fun (a, b) => (posIn base text a, posIn base text b)
  | none => []

/-- span table of a list of spans -/
def tabOf (spans : List Rg) : SpanTab := fun k =>
  if k = 0 ∨ k > spans.length then (0, 0) else spans.getD (spans.length - k) (0, 0)

/-- the tokens of `"(" ++ text ++ ")"` lexed at `loc - 1` (`parse_fstring_expr`; the wrapped text is what is
    lexed, as in `PV.C11.fstrField`: a line break inside the field is inside brackets) -/
def fieldTab (loc : Nat) (text : List Nat) : SpanTab :=
  tabOf (lexSpans (loc - 1) (40 :: (text ++ [41])))

/-! ## string tokens (`parse_strings`) -/

def isBytesTok : Tok → Bool
  | .bytes _ => true
  | _ => false
def isFstrTok : Tok → Bool
  | .fstr .. => true
  | _ => false
def bytesOfTok : Tok → List Nat
  | .bytes b => b
  | _ => []
def strOfTok : Tok → List Nat
  | .str s _ => s
  | _ => []
/-- `initial_kind`: the first literal has the `u` prefix -/
def initialUOf : List Tok → Bool
  | .str _ true :: _ => true
  | _ => false

mutual

/-- `Test<"all">` -/
def parseRTest (σ : SpanTab) : Nat → List Tok → PR RExpr
  | 0, _ => none
  | f + 1, .kw .lambda :: r => parseRLambda σ f r
  | f + 1, ts =>
    match parseROrTest σ f ts with
    | some (body, .kw .if :: r1) =>
      (match parseROrTest σ f r1 with
       | some (test, .kw .else :: r2) =>
         (match parseRTest σ f r2 with
          | some (orelse, r3) => some (.ifExp (L σ ts, R σ r3) test body orelse, r3)
          | none => none)
       | _ => none)
    | res => res
termination_by structural f => f

/-- `LambdaDef` after the keyword (whose start is `P σ ts`) -/
def parseRLambda (σ : SpanTab) : Nat → List Tok → PR RExpr
  | 0, _ => none
  | f + 1, ts =>
    match parseRParams σ f ts {} 0 with
    | some (ps, .op .colon :: r) =>
      if validPosParams (eraseParams (ps.posonly ++ ps.args)) && validParamNames ps.erase then
        (match parseRTest σ f r with
         | some (body, r') =>
           let rg : Rg := (P σ ts, R σ r')
           -- no parameter list: `Arguments::empty(optional_range(args_pos, args_pos))` with `args_pos = location +
           -- TextSize::of("lambda")` — the empty text right behind the keyword, i.e. at the END of the keyword token
           -- (the action hard-codes the keyword's length; the lexer's `lambda` token is exactly those six bytes)
           let argsRg : Rg := match ts with
             | .op .colon :: _ => (R σ ts, R σ ts)
             | _ => (L σ ts, R σ (.op .colon :: r))
           some (.lambda rg argsRg ps.posonly ps.args ps.vararg ps.kwonly ps.kwarg body, r')
         | none => none)
      else none
    | _ => none
termination_by structural f => f

/-- `ParameterList<UntypedParameter, …>?`; an `ArgWithDefault` runs from its name to `default.end()` — the end of the
    default's NODE (`i.range = optional_range(i.def.range.start(), e.end())` in `ParameterDef`), the `Arg` is the name -/
def parseRParams (σ : SpanTab) : Nat → List Tok → RParams → Nat → PR RParams
  | 0, _, _, _ => none
  | _, .op .colon :: r, ps, _ => some (ps, .op .colon :: r)
  | f + 1, ts, ps, phase =>
    let item : Option (RParams × Nat × List Tok) :=
      match ts with
      | .name n :: .op .assign :: r =>
        if phase ≤ 2 then
          (match parseRTest σ f r with
           | some (d, r') =>
             let a := RParam.mk ((σ ts.length).1, d.range.2) (σ ts.length) n (some d)
             if phase = 2 then some ({ ps with kwonly := ps.kwonly ++ [a] }, phase, r')
             else some ({ ps with args := ps.args ++ [a] }, phase, r')
           | none => none)
        else none
      | .name n :: r =>
        let a := RParam.mk (σ ts.length) (σ ts.length) n none
        if phase = 2 then some ({ ps with kwonly := ps.kwonly ++ [a] }, phase, r)
        else if phase ≤ 1 then some ({ ps with args := ps.args ++ [a] }, phase, r)
        else none
      | .op .slash :: r =>
        if phase = 0 ∧ !ps.args.isEmpty then some ({ ps with posonly := ps.args, args := [] }, 1, r)
        else none
      | .op .star :: .name n :: r =>
        if phase ≤ 1 then some ({ ps with vararg := some (σ (r.length + 1), n) }, 2, r) else none
      | .op .star :: r =>
        if phase ≤ 1 then some (ps, 2, r) else none
      | .op .dstar :: .name n :: r =>
        if phase ≤ 2 then some ({ ps with kwarg := some (σ (r.length + 1), n) }, 3, r) else none
      | .op .dstar :: r =>
        if phase ≤ 2 then some (ps, 3, r) else none
      | _ => none
    match item with
    | none => none
    | some (ps', phase', r) =>
      let bareStarOk (q : RParams) (ph : Nat) : Bool :=
        !(ph = 2 && q.vararg.isNone && q.kwonly.isEmpty)
      match r with
      | .op .comma :: .op .colon :: r2 =>
        if bareStarOk ps' phase' then some (ps', .op .colon :: r2) else none
      | .op .comma :: r2 => parseRParams σ f r2 ps' phase'
      | .op .colon :: r2 =>
        if bareStarOk ps' phase' then some (ps', .op .colon :: r2) else none
      | _ => none
termination_by structural f => f

/-- `NamedExpressionTest`; `NamedExpr` ends at `value.end()` -/
def parseRNamedTest (σ : SpanTab) : Nat → List Tok → PR RExpr
  | 0, _ => none
  | f + 1, .name n :: .op .walrus :: r =>
    (match parseRTest σ f r with
     | some (v, r') => some (.namedExpr ((σ (r.length + 2)).1, v.range.2) (.name (σ (r.length + 2)) n) v, r')
     | none => none)
  | f + 1, ts => parseRTest σ f ts
termination_by structural f => f

/-- `TestOrStarNamedExpr` -/
def parseRStarOrNamed (σ : SpanTab) : Nat → List Tok → PR RExpr
  | 0, _ => none
  | f + 1, .op .star :: r =>
    (match parseRBin σ 0 f r with
     | some (e, r') => some (.starred (P σ r, R σ r') e, r')
     | none => none)
  | f + 1, ts => parseRNamedTest σ f ts
termination_by structural f => f

/-- `TestOrStarExpr` -/
def parseRTestOrStar (σ : SpanTab) : Nat → List Tok → PR RExpr
  | 0, _ => none
  | f + 1, .op .star :: r =>
    (match parseRBin σ 0 f r with
     | some (e, r') => some (.starred (P σ r, R σ r') e, r')
     | none => none)
  | f + 1, ts => parseRTest σ f ts
termination_by structural f => f

/-- `OrTest<"all">` -/
def parseROrTest (σ : SpanTab) : Nat → List Tok → PR RExpr
  | 0, _ => none
  | f + 1, ts =>
    match parseRAndTest σ f ts with
    | some (e, .kw .or :: r) =>
      (match parseROrRest σ f r with
       | some (es, r') => some (.boolOp (L σ ts, R σ r') .or (e :: es), r')
       | none => none)
    | res => res
termination_by structural f => f

def parseROrRest (σ : SpanTab) : Nat → List Tok → PR (List RExpr)
  | 0, _ => none
  | f + 1, ts =>
    match parseRAndTest σ f ts with
    | some (e, .kw .or :: r) =>
      (match parseROrRest σ f r with
       | some (es, r') => some (e :: es, r')
       | none => none)
    | some (e, r) => some ([e], r)
    | none => none
termination_by structural f => f

/-- `AndTest<"all">` -/
def parseRAndTest (σ : SpanTab) : Nat → List Tok → PR RExpr
  | 0, _ => none
  | f + 1, ts =>
    match parseRNotTest σ f ts with
    | some (e, .kw .and :: r) =>
      (match parseRAndRest σ f r with
       | some (es, r') => some (.boolOp (L σ ts, R σ r') .and (e :: es), r')
       | none => none)
    | res => res
termination_by structural f => f

def parseRAndRest (σ : SpanTab) : Nat → List Tok → PR (List RExpr)
  | 0, _ => none
  | f + 1, ts =>
    match parseRNotTest σ f ts with
    | some (e, .kw .and :: r) =>
      (match parseRAndRest σ f r with
       | some (es, r') => some (e :: es, r')
       | none => none)
    | some (e, r) => some ([e], r)
    | none => none
termination_by structural f => f

/-- `NotTest<"all">` -/
def parseRNotTest (σ : SpanTab) : Nat → List Tok → PR RExpr
  | 0, _ => none
  | f + 1, .kw .not :: r =>
    (match parseRNotTest σ f r with
     | some (e, r') => some (.unaryOp (P σ r, R σ r') .not e, r')
     | none => none)
  | f + 1, ts => parseRCmp σ f ts
termination_by structural f => f

/-- `Comparison<"all">` -/
def parseRCmp (σ : SpanTab) : Nat → List Tok → PR RExpr
  | 0, _ => none
  | f + 1, ts =>
    match parseRBin σ 0 f ts with
    | some (l, r) =>
      (match cmpOpAt r with
       | some _ =>
         (match parseRCmpRest σ f r with
          | some ((ops, cs), r') => some (.compare (L σ ts, R σ r') l ops cs, r')
          | none => none)
       | none => some (l, r))
    | none => none
termination_by structural f => f

def parseRCmpRest (σ : SpanTab) : Nat → List Tok → PR (List CmpOp × List RExpr)
  | 0, _ => none
  | f + 1, ts =>
    match cmpOpAt ts with
    | some (o, r) =>
      (match parseRBin σ 0 f r with
       | some (e, r') =>
         (match parseRCmpRest σ f r' with
          | some ((ops, cs), r'') => some ((o :: ops, e :: cs), r'')
          | none => none)
       | none => none)
    | none => some (([], []), ts)
termination_by structural f => f

/-- the six left-associative binary levels; the `BinOp` starts where the whole chain starts -/
def parseRBin (σ : SpanTab) : Nat → Nat → List Tok → PR RExpr
  | _, 0, _ => none
  | lvl, f + 1, ts =>
    match (if lvl ≥ 5 then parseRFactor σ f ts else parseRBin σ (lvl + 1) f ts) with
    | some (l, r) => parseRBinLoop σ lvl f (L σ ts) l r
    | none => none
termination_by structural _ f => f

def parseRBinLoop (σ : SpanTab) : Nat → Nat → Nat → RExpr → List Tok → PR RExpr
  | _, 0, _, _, _ => none
  | lvl, f + 1, st, acc, ts =>
    match binOpAt lvl ts with
    | some (o, r) =>
      (match (if lvl ≥ 5 then parseRFactor σ f r else parseRBin σ (lvl + 1) f r) with
       | some (e, r') => parseRBinLoop σ lvl f st (.binOp (st, R σ r') acc o e) r'
       | none => none)
    | none => some (acc, ts)
termination_by structural _ f => f

/-- `Factor<"all">` -/
def parseRFactor (σ : SpanTab) : Nat → List Tok → PR RExpr
  | 0, _ => none
  | f + 1, ts =>
    match unaryOpAt ts with
    | some (o, r) =>
      (match parseRFactor σ f r with
       | some (e, r') => some (.unaryOp (L σ ts, R σ r') o e, r')
       | none => none)
    | none => parseRPower σ f ts
termination_by structural f => f

/-- `Power<"all">` -/
def parseRPower (σ : SpanTab) : Nat → List Tok → PR RExpr
  | 0, _ => none
  | f + 1, ts =>
    match parseRAtomExpr σ f ts with
    | some (e, .op .dstar :: r) =>
      (match parseRFactor σ f r with
       | some (b, r') => some (.binOp (L σ ts, R σ r') e .pow b, r')
       | none => none)
    | res => res
termination_by structural f => f

/-- `AtomExpr<"all">` -/
def parseRAtomExpr (σ : SpanTab) : Nat → List Tok → PR RExpr
  | 0, _ => none
  | f + 1, .kw .await :: r =>
    (match parseRAtomExpr2 σ f r with
     | some (e, r') => some (.await (P σ r, R σ r') e, r')
     | none => none)
  | f + 1, ts => parseRAtomExpr2 σ f ts
termination_by structural f => f

/-- `AtomExpr2<"all">`: every trailer's node starts where the atom's production starts -/
def parseRAtomExpr2 (σ : SpanTab) : Nat → List Tok → PR RExpr
  | 0, _ => none
  | f + 1, ts =>
    match parseRAtom σ f ts with
    | some (a, r) => parseRTrailers σ f (L σ ts) a r
    | none => none
termination_by structural f => f

def parseRTrailers (σ : SpanTab) : Nat → Nat → RExpr → List Tok → PR RExpr
  | 0, _, _, _ => none
  | f + 1, st, acc, .op .lpar :: r =>
    (match parseRArgs σ f r [] [] false with
     | some ((as, ks), r') => parseRTrailers σ f st (.call (st, R σ r') acc as ks) r'
     | none => none)
  | f + 1, st, acc, .op .lsqb :: r =>
    (match parseRSubscriptList σ f r with
     | some (s, r') => parseRTrailers σ f st (.subscript (st, R σ r') acc s) r'
     | none => none)
  | f + 1, st, acc, .op .dot :: .name n :: r => parseRTrailers σ f st (.attribute (st, R σ r) acc n) r
  | _ + 1, _, _, .op .dot :: _ => none
  | _ + 1, _, acc, ts => some (acc, ts)
termination_by structural f => f

/-- `ArgumentList ")"` -/
def parseRArgs (σ : SpanTab) : Nat → List Tok → List RExpr → List RKeyword → Bool → PR (List RExpr × List RKeyword)
  | 0, _, _, _, _ => none
  | _ + 1, .op .rpar :: r, as, ks, _ => some ((as, ks), r)
  | f + 1, ts, as, ks, dstar =>
    match parseRArg σ f ts as ks dstar with
    | none => none
    | some (as', ks', dstar', r) =>
      match r with
      | .op .comma :: r2 => parseRArgs σ f r2 as' ks' dstar'
      | .op .rpar :: r2 => some ((as', ks'), r2)
      | _ => none
termination_by structural f => f

/-- one `FunctionArgument`: `(location, end_location)` of the whole argument for keywords, `*` arguments and
    a generator expression without its own parentheses -/
def parseRArg (σ : SpanTab) : Nat → List Tok → List RExpr → List RKeyword → Bool →
    Option (List RExpr × List RKeyword × Bool × List Tok)
  | 0, _, _, _, _ => none
  | f + 1, .name n :: .op .assign :: r, as, ks, dstar =>
    (match parseRTest σ f r with
     | some (v, r') =>
       if ks.any (rkwHasName n) then none
       else some (as, ks ++ [.mk ((σ (r.length + 2)).1, R σ r') (some n) v], dstar, r')
     | none => none)
  | f + 1, .op .star :: r, as, ks, dstar =>
    (match parseRTest σ f r with
     | some (v, r') => if dstar then none else some (as ++ [.starred (P σ r, R σ r') v], ks, dstar, r')
     | none => none)
  | f + 1, .op .dstar :: r, as, ks, _ =>
    (match parseRTest σ f r with
     | some (v, r') => some (as, ks ++ [.mk (P σ r, R σ r') none v], true, r')
     | none => none)
  | f + 1, ts, as, ks, dstar =>
    (match parseRNamedTest σ f ts with
     | some (e, r) =>
       if atCompFor r then
         (match parseRCompFor σ f r with
          | some (gs, r') =>
            if !ks.isEmpty then none else if dstar then none
            else some (as ++ [.genExp (L σ ts, R σ r') e gs], ks, dstar, r')
          | none => none)
       else
         if !ks.isEmpty then none else if dstar then none
         else some (as ++ [e], ks, dstar, r)
     | none => none)
termination_by structural f => f

/-- `SubscriptList "]"`: the tuple ends in front of the `]` -/
def parseRSubscriptList (σ : SpanTab) : Nat → List Tok → PR RExpr
  | 0, _ => none
  | f + 1, ts =>
    match parseRSubscript σ f ts with
    -- a single starred index is the tuple of one element, ranged `location..end_location` = the starred's own extent
    | some (s1, .op .rsqb :: r) =>
      if isStarredR s1 then some (.tuple (L σ ts, R σ (.op .rsqb :: r)) [s1], r) else some (s1, r)
    | some (s1, .op .comma :: .op .rsqb :: r) => some (.tuple (L σ ts, R σ (.op .rsqb :: r)) [s1], r)
    | some (s1, .op .comma :: r) =>
      (match parseRSubscripts σ f r with
       | some (ss, r') => some (.tuple (L σ ts, (σ (r'.length + 2)).2) (s1 :: ss), r')
       | none => none)
    | _ => none
termination_by structural f => f

def parseRSubscripts (σ : SpanTab) : Nat → List Tok → PR (List RExpr)
  | 0, _ => none
  | f + 1, ts =>
    match parseRSubscript σ f ts with
    | some (s, .op .rsqb :: r) => some ([s], r)
    | some (s, .op .comma :: .op .rsqb :: r) => some ([s], r)
    | some (s, .op .comma :: r) =>
      (match parseRSubscripts σ f r with
       | some (ss, r') => some (s :: ss, r')
       | none => none)
    | _ => none
termination_by structural f => f

/-- `Subscript` -/
def parseRSubscript (σ : SpanTab) : Nat → List Tok → PR RExpr
  | 0, _ => none
  | f + 1, .op .colon :: r => parseRSliceRest σ f (P σ r) none (.op .colon :: r)
  | f + 1, .op .star :: r => parseRStarOrNamed σ f (.op .star :: r)
  | f + 1, .name n :: .op .walrus :: r => parseRNamedTest σ f (.name n :: .op .walrus :: r)
  | f + 1, ts =>
    match parseRTest σ f ts with
    | some (e, .op .colon :: r) => parseRSliceRest σ f (L σ ts) (some e) (.op .colon :: r)
    | res => res
termination_by structural f => f

/-- `":" Test? SliceOp?`; `st` = where the slice started -/
def parseRSliceRest (σ : SpanTab) : Nat → Nat → Option RExpr → List Tok → PR RExpr
  | 0, _, _, _ => none
  | f + 1, st, lower, .op .colon :: r =>
    let up : Option (Option RExpr × List Tok) :=
      match r with
      | .op .colon :: _ => some (none, r)
      | .op .rsqb :: _ => some (none, r)
      | .op .comma :: _ => some (none, r)
      | _ => (match parseRTest σ f r with
              | some (e, r') => some (some e, r')
              | none => none)
    (match up with
     | none => none
     | some (upper, .op .colon :: r2) =>
       (match r2 with
        | .op .rsqb :: _ => some (.slice (st, R σ r2) lower upper none, r2)
        | .op .comma :: _ => some (.slice (st, R σ r2) lower upper none, r2)
        | _ => (match parseRTest σ f r2 with
                | some (stp, r3) => some (.slice (st, R σ r3) lower upper (some stp), r3)
                | none => none))
     | some (upper, r2) => some (.slice (st, R σ r2) lower upper none, r2))
  | _ + 1, _, _, _ => none
termination_by structural f => f

/-- `Atom<"all">` -/
def parseRAtom (σ : SpanTab) : Nat → List Tok → PR RExpr
  | 0, _ => none
  | _ + 1, .name n :: r => some (.name (σ (r.length + 1)) n, r)
  | _ + 1, .int n :: r => some (.const (σ (r.length + 1)) (.int n), r)
  | _ + 1, .float b :: r => some (.const (σ (r.length + 1)) (.float b), r)
  | _ + 1, .imag b :: r => some (.const (σ (r.length + 1)) (.imag b), r)
  | _ + 1, .kw .true :: r => some (.const (σ (r.length + 1)) (.bool true), r)
  | _ + 1, .kw .false :: r => some (.const (σ (r.length + 1)) (.bool false), r)
  | _ + 1, .kw .none :: r => some (.const (σ (r.length + 1)) .none, r)
  | _ + 1, .op .ellipsis :: r => some (.const (σ (r.length + 1)) .ellipsis, r)
  | f + 1, .str s u :: r => parseRStrings σ f (.str s u :: r)
  | f + 1, .bytes b :: r => parseRStrings σ f (.bytes b :: r)
  | f + 1, .fstr q t rw b :: r => parseRStrings σ f (.fstr q t rw b :: r)
  | f + 1, .op .lsqb :: r => parseRListAtom σ f r
  | f + 1, .op .lpar :: r => parseRParenAtom σ f r
  | f + 1, .op .lbrace :: r => parseRBraceAtom σ f r
  | _ + 1, _ => none
termination_by structural f => f

/-- after `[` (which starts at `P σ ts`) -/
def parseRListAtom (σ : SpanTab) : Nat → List Tok → PR RExpr
  | 0, _ => none
  | _ + 1, .op .rsqb :: r => some (.list (P σ (.op .rsqb :: r), R σ r) [], r)
  | f + 1, r =>
    (match parseRStarOrNamed σ f r with
     | some (e, r1) =>
       if atCompFor r1 then
         (match parseRCompFor σ f r1 with
          | some (gs, .op .rsqb :: r2) => some (.listComp (P σ r, R σ r2) e gs, r2)
          | _ => none)
       else
         (match parseRElems σ f .rsqb r1 with
          | some ((es, _), r2) => some (.list (P σ r, R σ r2) (e :: es), r2)
          | none => none)
     | none => none)
termination_by structural f => f

/-- after `(`: a parenthesised expression is returned unchanged, tuples and generator expressions include
    the parentheses -/
def parseRParenAtom (σ : SpanTab) : Nat → List Tok → PR RExpr
  | 0, _ => none
  | _ + 1, .op .rpar :: r => some (.tuple (P σ (.op .rpar :: r), R σ r) [], r)
  | f + 1, .kw .yield :: r => parseRYieldAtom σ f r
  | f + 1, r =>
    (match parseRStarOrNamed σ f r with
     | some (e, r1) =>
       if atCompFor r1 then
         if isStarredR e then none else
         (match parseRCompFor σ f r1 with
          | some (gs, .op .rpar :: r2) => some (.genExp (P σ r, R σ r2) e gs, r2)
          | _ => none)
       else
         (match parseRElems σ f .rpar r1 with
          | some (([], false), r2) => if isStarredR e then none else some (e, r2)
          | some ((es, _), r2) => some (.tuple (P σ r, R σ r2) (e :: es), r2)
          | none => none)
     | none => none)
termination_by structural f => f

/-- after `( yield` (the keyword starts at `P σ ts`): `"(" YieldExpr ")"` returns the inner node -/
def parseRYieldAtom (σ : SpanTab) : Nat → List Tok → PR RExpr
  | 0, _ => none
  | f + 1, .kw .from :: r =>
    (match parseRTest σ f r with
     | some (e, .op .rpar :: r') => some (.yieldFrom ((σ (r.length + 2)).1, (σ (r'.length + 2)).2) e, r')
     | _ => none)
  | _ + 1, .op .rpar :: r => some (.yield (σ (r.length + 2)) none, r)
  | f + 1, r =>
    (match parseRTestList σ f r with
     | some (e, .op .rpar :: r') => some (.yield (P σ r, (σ (r'.length + 2)).2) (some e), r')
     | _ => none)
termination_by structural f => f

/-- after `{` -/
def parseRBraceAtom (σ : SpanTab) : Nat → List Tok → PR RExpr
  | 0, _ => none
  | _ + 1, .op .rbrace :: r => some (.dict (P σ (.op .rbrace :: r), R σ r) [], r)
  | f + 1, .op .dstar :: r =>
    (match parseRBin σ 0 f r with
     | some (v, r1) =>
       (match parseRDictRest σ f r1 with
        | some (is, r2) => some (.dict ((σ (r.length + 2)).1, R σ r2) (.mk none v :: is), r2)
        | none => none)
     | none => none)
  | f + 1, r =>
    (match parseRBraceFirst σ f r with
     | some (k, true, .op .colon :: r1) =>
       (match parseRTest σ f r1 with
        | some (v, r2) =>
          if atCompFor r2 then
            (match parseRCompFor σ f r2 with
             | some (gs, .op .rbrace :: r3) => some (.dictComp (P σ r, R σ r3) k v gs, r3)
             | _ => none)
          else
            (match parseRDictRest σ f r2 with
             | some (is, r3) => some (.dict (P σ r, R σ r3) (.mk (some k) v :: is), r3)
             | none => none)
        | none => none)
     | some (e, _, r1) =>
       if atCompFor r1 then
         if isStarredR e then none else
         (match parseRCompFor σ f r1 with
          | some (gs, .op .rbrace :: r2) => some (.setComp (P σ r, R σ r2) e gs, r2)
          | _ => none)
       else
         (match parseRElems σ f .rbrace r1 with
          | some ((es, _), r2) => some (.set (P σ r, R σ r2) (e :: es), r2)
          | none => none)
     | none => none)
termination_by structural f => f

def parseRBraceFirst (σ : SpanTab) : Nat → List Tok → Option (RExpr × Bool × List Tok)
  | 0, _ => none
  | f + 1, .op .star :: r =>
    (match parseRStarOrNamed σ f (.op .star :: r) with
     | some (e, r') => some (e, false, r')
     | none => none)
  | f + 1, .name n :: .op .walrus :: r =>
    (match parseRNamedTest σ f (.name n :: .op .walrus :: r) with
     | some (e, r') => some (e, false, r')
     | none => none)
  | f + 1, ts =>
    (match parseRTest σ f ts with
     | some (e, r') => some (e, true, r')
     | none => none)
termination_by structural f => f

def parseRElems (σ : SpanTab) : Nat → Op → List Tok → PR (List RExpr × Bool)
  | 0, _, _ => none
  | f + 1, close, .op .comma :: r =>
    (match r with
     | .op o :: r' =>
       if o = close then some (([], true), r')
       else
         (match parseRStarOrNamed σ f r with
          | some (e, r1) =>
            (match parseRElems σ f close r1 with
             | some ((es, _), r2) => some ((e :: es, true), r2)
             | none => none)
          | none => none)
     | _ =>
       (match parseRStarOrNamed σ f r with
        | some (e, r1) =>
          (match parseRElems σ f close r1 with
           | some ((es, _), r2) => some ((e :: es, true), r2)
           | none => none)
        | none => none))
  | _ + 1, close, .op o :: r => if o = close then some (([], false), r) else none
  | _ + 1, _, _ => none
termination_by structural f => f

def parseRDictRest (σ : SpanTab) : Nat → List Tok → PR (List RDictItem)
  | 0, _ => none
  | _ + 1, .op .rbrace :: r => some ([], r)
  | _ + 1, .op .comma :: .op .rbrace :: r => some ([], r)
  | f + 1, .op .comma :: .op .dstar :: r =>
    (match parseRBin σ 0 f r with
     | some (v, r1) =>
       (match parseRDictRest σ f r1 with
        | some (is, r2) => some (.mk none v :: is, r2)
        | none => none)
     | none => none)
  | f + 1, .op .comma :: r =>
    (match parseRTest σ f r with
     | some (k, .op .colon :: r1) =>
       (match parseRTest σ f r1 with
        | some (v, r2) =>
          (match parseRDictRest σ f r2 with
           | some (is, r3) => some (.mk (some k) v :: is, r3)
           | none => none)
        | none => none)
     | _ => none)
  | _ + 1, _ => none
termination_by structural f => f

/-- `CompFor`: each `Comprehension` from its `async`/`for` to the end of its last `if` -/
def parseRCompFor (σ : SpanTab) : Nat → List Tok → PR (List RComp)
  | 0, _ => none
  | f + 1, ts =>
    let hd : Option (Bool × List Tok) :=
      match ts with
      | .kw .async :: .kw .for :: r => some (true, r)
      | .kw .for :: r => some (false, r)
      | _ => none
    match hd with
    | none => none
    | some (isAsync, r) =>
      match parseRTargetList σ f r with
      | some (target, .kw .in :: r1) =>
        (match parseROrTest σ f r1 with
         | some (iter, r2) =>
           (match parseRCompIfs σ f r2 with
            | some (ifs, r3) =>
              if atCompFor r3 then
                (match parseRCompFor σ f r3 with
                 | some (gs, r4) => some (.mk (L σ ts, R σ r3) target iter ifs isAsync :: gs, r4)
                 | none => none)
              else some ([.mk (L σ ts, R σ r3) target iter ifs isAsync], r3)
            | none => none)
         | none => none)
      | _ => none
termination_by structural f => f

def parseRCompIfs (σ : SpanTab) : Nat → List Tok → PR (List RExpr)
  | 0, _ => none
  | f + 1, .kw .if :: r =>
    (match parseROrTest σ f r with
     | some (c, r1) =>
       (match parseRCompIfs σ f r1 with
        | some (cs, r2) => some (c :: cs, r2)
        | none => none)
     | none => none)
  | _ + 1, ts => some ([], ts)
termination_by structural f => f

/-- `ExpressionOrStarExpression` -/
def parseRExprOrStar (σ : SpanTab) : Nat → List Tok → PR RExpr
  | 0, _ => none
  | f + 1, .op .star :: r =>
    (match parseRBin σ 0 f r with
     | some (e, r') => some (.starred (P σ r, R σ r') e, r')
     | none => none)
  | f + 1, ts => parseRBin σ 0 f ts
termination_by structural f => f

/-- `ExpressionList` = `GenericList<…>`: the tuple includes a trailing comma, no parentheses -/
def parseRTargetList (σ : SpanTab) : Nat → List Tok → PR RExpr
  | 0, _ => none
  | f + 1, ts =>
    match parseRExprOrStar σ f ts with
    | some (e, .op .comma :: r) =>
      (match parseRTargetRest σ f r with
       | some (es, r') => some (.tuple (L σ ts, R σ r') (e :: es), r')
       | none => none)
    | res => res
termination_by structural f => f

def parseRTargetRest (σ : SpanTab) : Nat → List Tok → PR (List RExpr)
  | 0, _ => none
  | _ + 1, .kw .in :: r => some ([], .kw .in :: r)
  | f + 1, ts =>
    match parseRExprOrStar σ f ts with
    | some (e, .op .comma :: r) =>
      (match parseRTargetRest σ f r with
       | some (es, r') => some (e :: es, r')
       | none => none)
    | some (e, r) => some ([e], r)
    | none => none
termination_by structural f => f

/-- `TestList` = `GenericList<TestOrStarExpr>` -/
def parseRTestList (σ : SpanTab) : Nat → List Tok → PR RExpr
  | 0, _ => none
  | f + 1, ts =>
    match parseRTestOrStar σ f ts with
    | some (e, .op .comma :: r) =>
      (match parseRTestListRest σ f r with
       | some (es, r') => some (.tuple (L σ ts, R σ r') (e :: es), r')
       | none => none)
    | res => res
termination_by structural f => f

def parseRTestListRest (σ : SpanTab) : Nat → List Tok → PR (List RExpr)
  | 0, _ => none
  | _ + 1, [] => some ([], [])
  | _ + 1, .op .rpar :: r => some ([], .op .rpar :: r)
  | f + 1, ts =>
    match parseRTestOrStar σ f ts with
    | some (e, .op .comma :: r) =>
      (match parseRTestListRest σ f r with
       | some (es, r') => some (e :: es, r')
       | none => none)
    | some (e, r) => some ([e], r)
    | none => none
termination_by structural f => f

/-- `(@L string @R)+ =>? parse_strings(s)`: range = first start .. last end -/
def parseRStrings (σ : SpanTab) : Nat → List Tok → PR RExpr
  | 0, _ => none
  | f + 1, ts =>
    let strs := ts.takeWhile isStringTok
    let rest := ts.dropWhile isStringTok
    let nBytes := (strs.filter isBytesTok).length
    let rg : Rg := (L σ ts, R σ rest)
    if nBytes > 0 then
      if nBytes < strs.length then none
      else some (.const rg (.bytes (strs.flatMap bytesOfTok)), rest)
    else if !strs.any isFstrTok then
      some (.const rg (.str (strs.flatMap strOfTok) (initialUOf strs)), rest)
    else
      match parseRStringPieces σ f rest.length strs with
      | some pieces => some (.joinedStr rg (dedupRPieces rg (initialUOf strs) pieces none), rest)
      | none => none
termination_by structural f => f

/-- every literal turned into its pieces; `after` = number of tokens behind the string tokens -/
def parseRStringPieces (σ : SpanTab) : Nat → Nat → List Tok → Option (List (List Nat ⊕ RExpr))
  | 0, _, _ => none
  | _ + 1, _, [] => some []
  | f + 1, after, .str s _ :: r => (parseRStringPieces σ f after r).map (.inl s :: ·)
  | f + 1, after, .fstr _ triple raw body :: r =>
    let lit : Rg := σ (r.length + 1 + after)
    -- `StringParser::new`: location = start + prefix_len + quote length
    let base := lit.1 + (if raw then 2 else 1) + (if triple then 3 else 1)
    (match fstrRBody f lit base body raw 0 body [] with
     | some (vs, []) => (parseRStringPieces σ f after r).map (vs.map rexprToPiece ++ ·)
     | _ => none)
  | _ + 1, _, _ => none
termination_by structural f => f

/-- `parse_fstring(nested)`; every piece has the range `lit` of the literal; `base`/`whole` locate characters -/
def fstrRBody : Nat → Rg → Nat → List Nat → Bool → Nat → List Nat → List Nat → Option (List RExpr × List Nat)
  | 0, _, _, _, _, _, _, _ => none
  | _ + 1, lit, _, _, _, _, [], content =>
    some ((if content.isEmpty then [] else [.const lit (.str content.reverse false)]), [])
  | f + 1, lit, base, whole, raw, nested, ch :: rest, content =>
    if nested ≥ 2 then none else
    if ch = 123 then
      if nested = 0 ∧ rest.head? = some 123 then fstrRBody f lit base whole raw nested (rest.drop 1) (123 :: content)
      else if nested = 0 ∧ rest.isEmpty then none
      else
        (match fstrRField f lit base whole raw nested rest with
         | some (vs, r) =>
           (match fstrRBody f lit base whole raw nested r [] with
            | some (more, r') =>
              some ((if content.isEmpty then [] else [.const lit (.str content.reverse false)]) ++ vs ++ more, r')
            | none => none)
         | none => none)
    else if ch = 125 then
      if nested > 0 then
        some ((if content.isEmpty then [] else [.const lit (.str content.reverse false)]), ch :: rest)
      else if rest.head? = some 125 then fstrRBody f lit base whole raw nested (rest.drop 1) (125 :: content)
      else none
    else if ch = 92 ∧ !raw then
      (match rest with
       | 123 :: _ => fstrRBody f lit base whole raw nested rest (92 :: content)
       | 125 :: _ => fstrRBody f lit base whole raw nested rest (92 :: content)
       | _ =>
         (match fstrEscape rest with
          | some (cs, r) => fstrRBody f lit base whole raw nested r (cs.reverse ++ content)
          | none => none))
    else fstrRBody f lit base whole raw nested rest (ch :: content)
termination_by structural f => f

/-- `parse_formatted_value(nested)` after the opening brace; `location` = byte position of `cs` -/
def fstrRField : Nat → Rg → Nat → List Nat → Bool → Nat → List Nat → Option (List RExpr × List Nat)
  | 0, _, _, _, _, _, _ => none
  | f + 1, lit, base, whole, raw, nested, cs =>
    match scanField (cs.length + 1) {} cs with
    | none => none
    | some (st, stop, r) =>
      let specRes : Option (Option RExpr × List Nat) :=
        match stop with
        | .close => some (none, r)
        | .spec =>
          (match fstrRSpec f lit base whole raw nested r [] with
           | some (vs, 125 :: r') => some (some (.joinedStr lit vs), r')
           | _ => none)
      match specRes with
      | none => none
      | some (spec, r') =>
        let exprText := st.expr.reverse
        match lex (40 :: (exprText ++ [41])) with
        | none => none
        | some tks =>
          match parseRTop (fieldTab (posIn base whole cs.length) exprText) f tks with
          | none => none
          | some value =>
            if !st.selfDoc then some ([.formattedValue lit value st.conv spec], r')
            else
              let conv := if st.conv = 0 ∧ spec.isNone then 114 else st.conv
              some ([.const lit (.str (exprText ++ [61]) false),
                     .const lit (.str st.trailing.reverse false),
                     .formattedValue lit value conv spec], r')
termination_by structural f => f

/-- `parse_spec(nested)` -/
def fstrRSpec : Nat → Rg → Nat → List Nat → Bool → Nat → List Nat → List Nat → Option (List RExpr × List Nat)
  | 0, _, _, _, _, _, _, _ => none
  | _ + 1, lit, _, _, _, _, [], piece =>
    some ((if piece.isEmpty then [] else [.const lit (.str piece.reverse false)]), [])
  | f + 1, lit, base, whole, raw, nested, ch :: rest, piece =>
    if ch = 123 then
      (match fstrRBody f lit base whole raw (nested + 1) (ch :: rest) [] with
       | some (vs, r) =>
         (match fstrRSpec f lit base whole raw nested r [] with
          | some (more, r') =>
            some ((if piece.isEmpty then [] else [.const lit (.str piece.reverse false)]) ++ vs ++ more, r')
          | none => none)
       | none => none)
    else if ch = 125 then
      some ((if piece.isEmpty then [] else [.const lit (.str piece.reverse false)]), ch :: rest)
    else if ch = 92 ∧ !raw then
      (match rest with
       | 123 :: _ => fstrRSpec f lit base whole raw nested rest (92 :: piece)
       | 125 :: _ => fstrRSpec f lit base whole raw nested rest (92 :: piece)
       | _ =>
         (match fstrEscape rest with
          | some (cs, r) => fstrRSpec f lit base whole raw nested r (cs.reverse ++ piece)
          | none => none))
    else fstrRSpec f lit base whole raw nested rest (ch :: piece)
termination_by structural f => f

/-- `Top` in expression mode -/
def parseRTop (σ : SpanTab) : Nat → List Tok → Option RExpr
  | 0, _ => none
  | f + 1, ts =>
    match parseRTestList σ f ts with
    | some (e, []) => some e
    | _ => none
termination_by structural f => f

end

/-! ## the ranged parser on tokens with spans -/

/-- a token with its byte span -/
structure RTok where
  tok : Tok
  s : Nat
  e : Nat
deriving Repr

/-- the span table of a token list -/
def spanTab (toks : List RTok) : SpanTab := tabOf (toks.map fun t => (t.s, t.e))

/-- The ranged reference parser: one `Test` (the nonterminal `PV.C11.parseRef` reads), returning the ranged tree
    and the tokens it did not consume. -/
def parseR (fuel : Nat) (toks : List RTok) : Option (RExpr × List Tok) :=
  parseRTest (spanTab toks) fuel (toks.map (·.tok))

/-- whole-input parse in expression mode (what `Expr::parse` / `Mode::Expression` does) -/
def parseRExpression (toks : List RTok) : Option RExpr :=
  parseRTop (spanTab toks) (fuelFor (toks.map (·.tok))) (toks.map (·.tok))

end PV.C02
