import PV.C02.GShape
/-
  C02 — `parseR_rangesOk_fstrN`: the structural theorem of the expression model for EVERY tree, f-string literals at every
  depth included, with NO plain-ness or shape hypothesis:

      Tiled src toks → FTied src toks = true → parseR fuel toks = some (e, rest) → rangesOk src e.toTree = true.

  `Tiled` alone does not suffice (`parseR_rangesOk_fails`); with the tie `FTied` (the value of every f-string token is the
  source text of its span) the statement `parseR_rangesOk_full` demanded holds: `parseR_rangesOk_full_tied`.
  From `parseR_rangesOk_fstrN_wf` (GStrFull.lean) and `G.shapeAt` (GShape.lean: the parser only returns trees of
  well-formed f-string shape).
-/
namespace PV.C02
open PV.Expr PV.C11

/-- the ranged parser only returns trees of well-formed f-string shape -/
theorem parseR_fwf {fuel : Nat} {toks : List RTok} {e : RExpr} {rest : List Tok}
    (hp : parseR fuel toks = some (e, rest)) : fwf e = true :=
  (G.shapeAt fuel).test _ _ _ _ (by unfold parseR at hp; exact hp)

theorem parseRExpression_fwf {toks : List RTok} {e : RExpr} (hp : parseRExpression toks = some e) : fwf e = true :=
  (G.shapeAt _).top _ _ _ (by unfold parseRExpression at hp; exact hp)

/-- **Structural half of the property for the expression model, every tree.**  For every source, every spanned token list
    that tiles it (`Tiled`) and whose f-string tokens are tied to it (`FTied`), every fuel: whatever the ranged parser
    returns passes `rangesOk` — every node inside the input, on character boundaries, start ≤ end, inside its parent, list
    siblings ordered and disjoint — f-string literals included: at any position, nested to any depth inside replacement
    fields and format specs (`f'{f"{x}"}'`, `f'{x:{f"{y}"}}'`). -/
theorem parseR_rangesOk_fstrN {src : List Nat} {toks : List RTok} (h : Tiled src toks) (hT : FTied src toks = true)
    {fuel : Nat} {e : RExpr} {rest : List Tok} (hp : parseR fuel toks = some (e, rest)) :
    rangesOk src (e.toTree "body" false) = true :=
  parseR_rangesOk_fstrN_wf h hT hp (parseR_fwf hp)

/-- the same for whole-input parsing in expression mode -/
theorem parseRExpression_rangesOk_fstrN {src : List Nat} {toks : List RTok} (h : Tiled src toks)
    (hT : FTied src toks = true) {e : RExpr} (hp : parseRExpression toks = some e) :
    rangesOk src (e.toTree "body" false) = true :=
  parseRExpression_rangesOk_fstrN_wf h hT hp (parseRExpression_fwf hp)

/-- `parseR_rangesOk_full` with the tie among the hypotheses: the statement for EVERY tree -/
def parseR_rangesOk_fullT : Prop :=
  ∀ (src : List Nat) (toks : List RTok) (fuel : Nat) (e : RExpr) (rest : List Tok),
    Tiled src toks → FTied src toks = true → parseR fuel toks = some (e, rest) →
      rangesOk src (e.toTree "body" false) = true

/-- …is a theorem (while `parseR_rangesOk_full`, without the tie, is refuted: `parseR_rangesOk_fails`) -/
theorem parseR_rangesOk_full_tied : parseR_rangesOk_fullT :=
  fun _ _ _ _ _ h hT hp => parseR_rangesOk_fstrN h hT hp

/-- non-vacuity: the nested samples of GStrFull.lean, now without any hypothesis on the tree -/
example : ∀ e, parseRExpression nestToks = some e → rangesOk nestSrc (e.toTree "body" false) = true := fun e hp =>
  parseRExpression_rangesOk_fstrN (tiled_single (by decide)) (by decide +kernel) hp
example : (parseRExpression nestSpecToks).isSome = true := by decide +kernel

end PV.C02
