import PV.C02.FStrBody
/-
  C02 — f-string literals, one level deep: `parseRStrings_rangesOk_fstr1` (and `parseRAtom_rangesOk_fstr1`): for tiled
  AND tied token spans, what the string production returns passes `rangesOk` whenever the replacement-field expressions
  themselves contain no f-string (`fstrTop` / `fpiece`); format specs nested to any depth are covered.
  The statement for an f-string ANYWHERE inside a larger expression (`parseR_rangesOk_fstr`) needs the tie threaded through
  the 48-function induction: not done, see design/C02.md 2c.
-/
set_option linter.unusedSimpArgs false
set_option linter.unusedVariables false
namespace PV.C02
open PV.Expr PV.C11

theorem tokTiedAt_of_tokTied {src : List Nat} {t : RTok} (h : tokTied src t = true) :
    tokTiedAt src (t.s, t.e) t.tok := by
  unfold tokTied at h
  unfold tokTiedAt
  split <;> simp_all

/-- `FTied` (a decidable property of the spanned token list) gives the cursor form `FTie` for every suffix -/
theorem ftie_of_ftied {src : List Nat} {toks : List RTok} (h : FTied src toks = true) :
    ∀ (pre suf : List RTok), toks = pre ++ suf → FTie src (spanTab toks) (suf.map (·.tok))
  | _, [], _ => trivial
  | pre, t :: suf, he => by
    refine ⟨?_, ?_⟩
    · have hk : spanTab toks ((suf.map (·.tok)).length + 1) = (t.s, t.e) := by
        unfold spanTab
        rw [tabOf_get _ _ (by omega) (by simp [he])]
        simp only [List.length_map, he, List.length_append, List.length_cons]
        simp
      rw [hk]
      apply tokTiedAt_of_tokTied
      have := List.all_eq_true.mp h t (by rw [he]; simp)
      exact this
    · have := ftie_of_ftied h (pre ++ [t]) suf (by simp [he])
      exact this

/-- **f-string literals, one level deep (what is proved of `parseR_rangesOk_fstr`).**  For every source, every spanned
    token list that tiles it (`Tiled`) and is tied to it (`FTied`), every fuel: if the tokens start with a string token
    and `parseRStrings` — the production `(@L string @R)+` of the grammar, the only place f-string pieces come from —
    returns `e`, and `e` is covered by `fstrTop` (a constant, or a `JoinedStr` whose pieces are constants and
    `FormattedValue`s with f-string-free value expressions and format specs of such pieces, nested specs included),
    then the tree passes `rangesOk`: all five structural clauses, for the `JoinedStr`, every piece, every format spec and
    every node of every replacement-field expression.  No `plain` hypothesis on the f-string itself. -/
theorem parseRStrings_rangesOk_fstr1 {src : List Nat} {toks : List RTok} (h : Tiled src toks)
    (hT : FTied src toks = true) {fuel : Nat} {t : Tok} {r : List Tok} (hts : toks.map (·.tok) = t :: r)
    (ht : isStringTok t = true) {e : RExpr} {rest : List Tok}
    (hp : parseRStrings (spanTab toks) fuel (toks.map (·.tok)) = some (e, rest)) (hf : fstrTop e = true) :
    rangesOk src (e.toTree "body" false) = true := by
  have T := tiledTab_of_tiled h
  have hF := ftie_of_ftied hT [] toks rfl
  rw [hts] at hp hF
  have hN : (t :: r).length ≤ toks.length := by rw [← hts]; simp
  exact (strings_res_fstr1 T hN ht hF hp hf).2.toOk_root "body" false

/-- the same at the atom: `parseRAtom` on a cursor that starts with a string token is `parseRStrings` -/
theorem parseRAtom_rangesOk_fstr1 {src : List Nat} {toks : List RTok} (h : Tiled src toks)
    (hT : FTied src toks = true) {fuel : Nat} {t : Tok} {r : List Tok} (hts : toks.map (·.tok) = t :: r)
    (ht : isStringTok t = true) {e : RExpr} {rest : List Tok}
    (hp : parseRAtom (spanTab toks) (fuel + 1) (toks.map (·.tok)) = some (e, rest)) (hf : fstrTop e = true) :
    rangesOk src (e.toTree "body" false) = true := by
  refine parseRStrings_rangesOk_fstr1 h hT hts ht (fuel := fuel) (rest := rest) ?_ hf
  rw [hts] at hp ⊢
  cases t <;> simp [isStringTok] at ht <;> (rw [parseRAtom] at hp; exact hp)


/-! ### non-vacuity: the nested format spec, the conversion, the concatenation -/

theorem tiled_single {src : List Nat} {t : RTok} (h : t.s ≤ t.e ∧ t.e ≤ src.length ∧ isBoundary src t.s = true ∧
    isBoundary src t.e = true) : Tiled src [t] :=
  ⟨fun t' ht' => by simp only [List.mem_cons, List.not_mem_nil, or_false] at ht'; subst ht'; exact h, by simp⟩

/-- `f'{x:>{w}}'`: hypotheses of `parseRStrings_rangesOk_fstr1` hold, the tree is covered and not `plain` -/
example : Tiled specSrc specToks ∧ FTied specSrc specToks = true ∧
    ((parseRStrings (spanTab specToks) 200 (specToks.map (·.tok))).map fun p => (fstrTop p.1, plain p.1, p.2)) =
      some (true, false, []) :=
  ⟨tiled_single (by decide), by decide +kernel, by decide +kernel⟩

/-- …and the theorem (not evaluation) gives `rangesOk` for it, and for the conversion `f'{é!r}ü'` -/
example : ∀ e rest, parseRStrings (spanTab specToks) 200 (specToks.map (·.tok)) = some (e, rest) → fstrTop e = true →
    rangesOk specSrc (e.toTree "body" false) = true := fun e rest hp hf =>
  parseRStrings_rangesOk_fstr1 (tiled_single (by decide)) (by decide +kernel) rfl rfl hp hf

example : Tiled convSrc convToks ∧ FTied convSrc convToks = true ∧
    ((parseRStrings (spanTab convToks) 200 (convToks.map (·.tok))).map fun p => (fstrTop p.1, plain p.1, p.2)) =
      some (true, false, []) :=
  ⟨tiled_single (by decide), by decide +kernel, by decide +kernel⟩

/-- `'a' f'{b}' 'c'`: three string tokens, one of them an f-string -/
example : FTied concatSrc concatToks = true ∧
    ((parseRStrings (spanTab concatToks) 200 (concatToks.map (·.tok))).map fun p => (fstrTop p.1, plain p.1, p.2)) =
      some (true, false, []) :=
  ⟨by decide +kernel, by decide +kernel⟩

/-- a nested f-string inside a field is NOT covered by `fstrTop` (the one level that is left out): `f'{f"{x}"}'` -/
example : ((parseRStrings (spanTab [⟨.fstr 39 false false [123, 102, 34, 123, 120, 125, 34, 125], 0, 11⟩]) 300
    [.fstr 39 false false [123, 102, 34, 123, 120, 125, 34, 125]]).map fun p => fstrTop p.1) = some false := by
  decide +kernel

end PV.C02
