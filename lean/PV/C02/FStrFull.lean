import PV.C02.FSoundSteps
/-
  C02 — `parseR_rangesOk_fstr`: the structural theorem of the expression model WITH f-string literals, anywhere in the tree.

  For token spans that tile the source (`Tiled`) and f-string tokens whose value is the source text of their span
  (`FTied`), every tree `parseR` / `parseRExpression` returns passes `rangesOk` provided it is `fplain1`: f-string
  literals (constants, `FormattedValue`s, format specs nested to any depth, conversions, self-documenting fields,
  implicit concatenations) may occur at ANY expression position — call argument, operand, element, default, … — as
  long as the expressions inside their replacement fields contain no f-string themselves (`plain`; one level).
  Proof: the 48-function induction of SoundSteps.lean re-run in `PV.C02.F` (FSoundNodes / FSoundIdx / FSoundSteps,
  generated) with the tie carried by every function; the f-string step is `strings_res_fstr1` (FStrBody.lean).
-/
set_option linter.unusedSimpArgs false
set_option linter.unusedVariables false
namespace PV.C02
open PV.Expr PV.C11

/-- the domain of `parseR_rangesOk_fstr`: like `plain`, but a `JoinedStr` is admitted when its pieces are constants and
    `FormattedValue`s with a `plain` value and a format spec of such pieces (`fpieceL`); a bare `FormattedValue` outside a
    `JoinedStr` does not occur in parser output -/
abbrev fplain1 : RExpr → Bool := PV.C02.F.plain

theorem plain_imp_all :
    (∀ e, plain e = true → F.plain e = true) ∧ (∀ ks, plainKws ks = true → F.plainKws ks = true) ∧
    (∀ o, plainO o = true → F.plainO o = true) ∧ (∀ gs, plainComps gs = true → F.plainComps gs = true) ∧
    (∀ es, plainL es = true → F.plainL es = true) ∧ (∀ is, plainItems is = true → F.plainItems is = true) ∧
    (∀ ps, plainParams ps = true → F.plainParams ps = true) := by
  apply plain.mutual_induct
  all_goals (try intros)
  all_goals (simp_all [plain, F.plain, plainL, F.plainL, plainO, F.plainO, plainComps, F.plainComps, plainKws, F.plainKws,
    plainItems, F.plainItems, plainParams, F.plainParams])

/-- `fplain1` extends `plain`: `parseR_rangesOk_fstr` subsumes `parseR_rangesOk_partial` (given the tie) -/
theorem fplain1_of_plain {e : RExpr} (h : plain e = true) : fplain1 e = true := plain_imp_all.1 e h

/-- **Structural half of the property for the model, f-string literals included (one level).**  For every source,
    every spanned token list that tiles it and is tied to it, every fuel: if the ranged parser accepts and the tree is
    `fplain1`, it passes `rangesOk`: every node — the `JoinedStr`s, their pieces, the format specs and every node of
    every replacement-field expression included — lies inside the input, on character boundaries, start ≤ end, inside
    its parent, list siblings ordered and disjoint (sibling order of `JoinedStr.values` exempt, as in `rangesOk`). -/
theorem parseR_rangesOk_fstr {src : List Nat} {toks : List RTok} (h : Tiled src toks) (hT : FTied src toks = true)
    {fuel : Nat} {e : RExpr} {rest : List Tok} (hp : parseR fuel toks = some (e, rest)) (hpl : fplain1 e = true) :
    rangesOk src (e.toTree "body" false) = true := by
  have T := tiledTab_of_tiled h
  have hF := ftie_of_ftied hT [] toks rfl
  have hs := (F.soundAt T fuel).test (toks.map (·.tok)) e rest (by simp) (by unfold parseR at hp; exact hp) hF
  exact (hs.2.2.1.2 hpl).toOk_root "body" false

/-- the same for whole-input parsing in expression mode (`Mode::Expression`) -/
theorem parseRExpression_rangesOk_fstr {src : List Nat} {toks : List RTok} (h : Tiled src toks)
    (hT : FTied src toks = true) {e : RExpr} (hp : parseRExpression toks = some e) (hpl : fplain1 e = true) :
    rangesOk src (e.toTree "body" false) = true := by
  have T := tiledTab_of_tiled h
  have hF := ftie_of_ftied hT [] toks rfl
  unfold parseRExpression at hp
  generalize fuelFor (toks.map (·.tok)) = fuel at hp
  cases fuel with
  | zero => simp [parseRTop] at hp
  | succ f =>
    rw [parseRTop.eq_def] at hp
    simp only at hp
    split at hp
    · rename_i e' heq
      cases hp
      have hs := (F.soundAt T f).testList (toks.map (·.tok)) e [] (by simp) heq hF
      exact (hs.2.2.1.2 hpl).toOk_root "body" false
    · cases hp

/-! ### non-vacuity: `g(f'{x!r:>{w}}', 'a' f'{b}') + [f'{é}']` -/

def fullSrc : List Nat :=
  [103, 40, 102, 39, 123, 120, 33, 114, 58, 62, 123, 119, 125, 125, 39, 44, 32, 39, 97, 39, 32, 102, 39, 123, 98, 125, 39,
   41, 32, 43, 32, 91, 102, 39, 123, 195, 169, 125, 39, 93]
def fullToks : List RTok :=
  [⟨.name [103], 0, 1⟩, ⟨.op .lpar, 1, 2⟩, ⟨.fstr 39 false false [123, 120, 33, 114, 58, 62, 123, 119, 125, 125], 2, 15⟩,
   ⟨.op .comma, 15, 16⟩, ⟨.str [97] false, 17, 20⟩, ⟨.fstr 39 false false [123, 98, 125], 21, 27⟩, ⟨.op .rpar, 27, 28⟩,
   ⟨.op .plus, 29, 30⟩, ⟨.op .lsqb, 31, 32⟩, ⟨.fstr 39 false false [123, 233, 125], 32, 39⟩, ⟨.op .rsqb, 39, 40⟩]

example : Tiled fullSrc fullToks := by
  refine ⟨?_, by simp [fullToks]⟩
  intro t ht
  simp only [fullToks, List.mem_cons, List.not_mem_nil, or_false] at ht
  rcases ht with rfl | rfl | rfl | rfl | rfl | rfl | rfl | rfl | rfl | rfl | rfl <;> decide
example : FTied fullSrc fullToks = true := by decide +kernel
/-- accepted; f-string literals as call arguments and as a list element: `fplain1`, not `plain`; the `BinOp` 0..40 -/
example : ((parseRExpression fullToks).map fun e => (e.range, fplain1 e, plain e)) = some ((0, 40), true, false) := by
  decide +kernel
/-- a nested f-string inside a replacement field is outside `fplain1` -/
example : ((parseRExpression [⟨.fstr 39 false false [123, 102, 34, 123, 120, 125, 34, 125], 0, 11⟩]).map fplain1) =
    some false := by decide +kernel

end PV.C02
